import Pixman.Model.Fill
/-! Line-protocol driver for the `fill` domain (C19).

```
fill  cfg al nwords bits stride bpp x y w h filler pseed
blt   cfg al snwords dnwords sbits dbits sstride dstride sbpp dbpp sx sy dx dy w h spseed dpseed
boxes cfg al fmt width height rowstride bits nwords pseed op r g b a nclip (x1 y1 x2 y2)* nboxes (x1 y1 x2 y2)*
rects cfg al fmt width height rowstride bits nwords pseed op r g b a nclip (x1 y1 x2 y2)* nrects (x y w h)*
```
`cfg`: 0 = default chain, 1 = PIXMAN_DISABLE="ssse3 sse2", 2 = "ssse3 sse2 mmx", 3 = "fast mmx sse2
ssse3"; `al` = machine address of word 0 of the buffer modulo 16; `nclip` = -1: no clip region.
Reply: return value, then the words that differ from the initial pattern as runs `index*count=hex`
(for `boxes`/`rects`: words masked to the defined bits of the format). -/
namespace Driver.Fill
open Pixman.Model.Fill Pixman.Region

abbrev P := StateT (List String) Option
def tok : P String := fun s => match s with | [] => none | t :: r => some (t, r)
def int : P Int := do let t ← tok; (t.toInt?).elim failure pure
def nat : P Nat := do let t ← tok; (t.toNat?).elim failure pure
def box : P Box := do return ⟨← int, ← int, ← int, ← int⟩
def boxes : Nat → P (List Box)
  | 0 => pure []
  | n + 1 => do let b ← box; let r ← boxes n; pure (b :: r)
def rect16s : Nat → P (List Rect16)
  | 0 => pure []
  | n + 1 => do
    let x ← int; let y ← int; let w ← nat; let h ← nat
    let r ← rect16s n; pure (⟨x, y, w, h⟩ :: r)

/-- the initial content of word `i` of a buffer -/
def pat (pseed i : Nat) : Nat :=
  if pseed = 0 then 0 else if pseed = 1 then 0xFFFFFFFF else
  let h := (pseed * 0x9E3779B1 + i * 0x85EBCA6B + 0x165667B1) % U32
  let h := h ^^^ (h >>> 15)
  let h := (h * 0x2C1B3C6D) % U32
  h ^^^ (h >>> 12)

def initMem (pseed nwords : Nat) : Mem :=
  let a := Array.ofFn (n := nwords) fun i => pat pseed i.val
  .init fun i => if 0 ≤ i then a.getD i.toNat 0 else 0

def chainOfCfg : Nat → List Impl
  | 0 => chainOf []
  | 1 => chainOf ["ssse3", "sse2"]
  | 2 => chainOf ["ssse3", "sse2", "mmx"]
  | _ => chainOf ["fast", "mmx", "sse2", "ssse3"]

def hexDigit (n : Nat) : Char := if n < 10 then Char.ofNat (48 + n) else Char.ofNat (87 + n)
def hex8 (v : Nat) : String :=
  String.ofList ((List.range 8).map fun k => hexDigit ((v >>> (4 * (7 - k))) % 16))

/-- runs of changed words -/
def runs (mask : Nat) (pseed nwords : Nat) (m : Mem) : String := Id.run do
  let mut out := ""
  let mut runStart := 0
  let mut runLen := 0
  let mut runVal := 0
  for i in [0:nwords] do
    let v := (m.get (i : Int)) &&& mask
    let changed := v != (pat pseed i &&& mask)
    if changed && runLen > 0 && v == runVal then
      runLen := runLen + 1
    else
      if runLen > 0 then out := out ++ s!" {runStart}*{runLen}={hex8 runVal}"
      if changed then
        runStart := i; runLen := 1; runVal := v
      else
        runLen := 0
  if runLen > 0 then out := out ++ s!" {runStart}*{runLen}={hex8 runVal}"
  return out

def b2s (b : Bool) : String := if b then "1" else "0"

/-- defined bits of a destination format, replicated over a word -/
def definedMask (code : Nat) : Nat :=
  if code = PIXMAN_a1 then 0xFFFFFFFF else
  match fmtOfCode code with
  | none => 0xFFFFFFFF
  | some f =>
    let (sa, sr, sg, sb) := f.shifts
    let px := (((1 <<< f.a) - 1) <<< sa) ||| (((1 <<< f.r) - 1) <<< sr) ||| (((1 <<< f.g) - 1) <<< sg) |||
      (((1 <<< f.b) - 1) <<< sb)
    if f.bpp = 32 then px else if f.bpp = 16 then px ||| (px <<< 16)
    else px ||| (px <<< 8) ||| (px <<< 16) ||| (px <<< 24)

def clipOf (n : Int) : P (Option Region) := do
  if n < 0 then pure none else
  let l ← boxes n.toNat
  pure (some (initRects c32 l).1)

def request : P String := do
  let op ← tok
  match op with
  | "fill" => do
    let cfg ← nat; let al ← int; let nwords ← nat; let bits ← int; let stride ← int; let bpp ← nat
    let x ← int; let y ← int; let w ← nat; let h ← nat; let filler ← nat; let pseed ← nat
    let r := pixmanFill al (chainOfCfg cfg) (initMem pseed nwords) bits stride bpp x y w h filler
    pure (b2s r.1 ++ runs 0xFFFFFFFF pseed nwords r.2)
  | "blt" => do
    let cfg ← nat; let al ← int; let sn ← nat; let dn ← nat; let sbits ← int; let dbits ← int
    let ss ← int; let ds ← int; let sbpp ← nat; let dbpp ← nat
    let sx ← int; let sy ← int; let dx ← int; let dy ← int; let w ← nat; let h ← nat
    let sp ← nat; let dp ← nat
    let r := pixmanBlt al (chainOfCfg cfg) (initMem sp sn) (initMem dp dn) sbits dbits ss ds sbpp dbpp
      sx sy dx dy w h
    pure (b2s r.1 ++ runs 0xFFFFFFFF dp dn r.2)
  | "boxes" | "rects" => do
    let cfg ← nat; let al ← int; let fmt ← nat; let width ← nat; let height ← nat
    let rowstride ← int; let bits ← int; let nwords ← nat; let pseed ← nat
    let pop ← nat; let r ← nat; let g ← nat; let b ← nat; let a ← nat
    let nclip ← int
    let clip ← clipOf nclip
    let n ← nat
    let img : Image := ⟨fmt, width, height, rowstride, bits, clip⟩
    let res ← if op == "boxes" then do
        let l ← boxes n
        pure (fillBoxes al (chainOfCfg cfg) pop img ⟨r, g, b, a⟩ l (initMem pseed nwords))
      else do
        let l ← rect16s n
        pure (fillRectangles al (chainOfCfg cfg) pop img ⟨r, g, b, a⟩ l (initMem pseed nwords))
    match res with
    | none => pure "unmodelled"
    | some (ret, m) => pure (b2s ret ++ runs (definedMask fmt) pseed nwords m)
  | _ => failure

def handle (line : String) : String :=
  match (request.run (line.trimAscii.toString.splitOn " " |>.filter (· ≠ ""))) with
  | some (s, []) => s
  | _ => "bad-request"

end Driver.Fill

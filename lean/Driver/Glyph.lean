import Pixman.Model.Glyph
/-! Line protocol of the glyph-cache domain: one history per line. -/
namespace Driver.Glyph
open Pixman.Glyph

def parseOp (_i : Nat) (t : String) : Option Op :=
  match t.splitOn ":" with
  | ["F"] => some .freeze
  | ["T"] => some .thaw
  | ["I", f, k] => do some (.insert (← f.toNat?) (← k.toNat?))
  | ["L", f, k] => do some (.lookup (← f.toNat?) (← k.toNat?))
  | ["R", f, k] => do some (.remove (← f.toNat?) (← k.toNat?))
  | ["U", f, k] => do some (.touch (← f.toNat?) (← k.toNat?))
  | ["X", f, k] => do some (.insertFail (← f.toNat?) (← k.toNat?))
  | _ => none

def parseOps : Nat → List String → Option (List Op)
  | _, [] => some []
  | i, t :: ts => do
    let o ← parseOp i t
    let r ← parseOps (i + 1) ts
    some (o :: r)

def fmtRes : Res → String
  | .unit => "-"
  | .hang => "H"
  | .refused => "N"
  | .inserted g => s!"I{g.id}"
  | .found none => "L-"
  | .found (some g) => s!"L{g.id}"

def fmtSlot : Slot → String
  | .empty => "."
  | .tomb => "x"
  | .entry g => toString g.id

def handle (line : String) : String :=
  let toks := (line.trimAscii.toString.splitOn " ").filter (· ≠ "")
  match toks with
  | "hist" :: hs :: hi :: lo :: ops =>
    match hs.toNat?, hi.toNat?, lo.toNat?, parseOps 0 ops with
    | some hs, some hi, some lo, some ops =>
      let p : Params := ⟨hs, hi, lo⟩
      let r := run p wangHash (create p) ops
      let c := r.1
      let res := " ".intercalate (r.2.map fmtRes)
      if r.2.contains .hang then res ++ " | HANG" else
      res ++ s!" | {c.nGlyphs} {c.nTomb} {c.freeze} | " ++ ",".intercalate (c.table.map fmtSlot) ++
        " | " ++ ",".intercalate (c.mru.map fun g => toString g.id)
    | _, _, _, _ => "bad-op"
  | _ => "bad-op"

end Driver.Glyph

import Pixman.Model.Region
/-! Line-protocol driver for the region domain.  One request per line, one reply per line. -/
namespace Driver.Region
open Pixman.Region

abbrev P := StateT (List String) Option

def tok : P String := fun s => match s with | [] => none | t :: r => some (t, r)
def int : P Int := do let t ← tok; (t.toInt?).elim failure pure
def nat : P Nat := do let t ← tok; (t.toNat?).elim failure pure
def box : P Box := do return ⟨← int, ← int, ← int, ← int⟩
def boxes : Nat → P (List Box)
  | 0 => pure []
  | n + 1 => do let b ← box; let r ← boxes n; pure (b :: r)
def region : P Region := do
  let k ← tok
  let e ← box
  let n ← nat
  let l ← boxes n
  match k with
  | "S" => pure ⟨e, .single⟩
  | "E" => pure ⟨e, .emptyStatic⟩
  | "B" => pure ⟨e, .broken⟩
  | "H" => pure ⟨e, .heap l⟩
  | _ => failure
def cfg : P Cfg := do
  match ← nat with
  | 16 => pure c16
  | 32 => pure c32
  | _ => failure
def alias : P Alias := do
  match ← tok with
  | "n" => pure .none
  | "1" => pure .first
  | "2" => pure .second
  | _ => failure
def bool : P Bool := do
  match ← tok with
  | "0" => pure false
  | "1" => pure true
  | _ => failure

def fmtBox (b : Box) : String := s!"{b.x1} {b.y1} {b.x2} {b.y2}"
def fmtRegion (r : Region) : String :=
  let k := match r.data with
    | .single => "S" | .emptyStatic => "E" | .broken => "B" | .heap _ => "H"
  let l := match r.data with | .heap l => l | _ => []
  -- a heap block without rectangles has extents the C code reads from box[-1]: undefined
  if r.data == .heap [] then "UNDEF" else
  s!"{k} {fmtBox r.extents} {l.length}" ++ String.join (l.map fun b => " " ++ fmtBox b)
def fmtRes (p : Region × Bool) : String := (if p.2 then "1 " else "0 ") ++ fmtRegion p.1

def rowsOf : Nat → P (List (List Bool))
  | 0 => pure []
  | n + 1 => do
    let t ← tok
    let row := if t == "-" then [] else t.toList.map (· == '1')
    let r ← rowsOf n
    pure (row :: r)

def request : P String := do
  let op ← tok
  match op with
  | "init_rect" => do
    let c ← cfg; let x ← int; let y ← int; let w ← nat; let h ← nat
    pure (fmtRes (initRect c x y w h, true))
  | "init_with_extents" => do
    let _ ← cfg; let b ← box
    pure (fmtRes (initWithExtents b, true))
  | "init_rects" => do
    let c ← cfg; let n ← nat; let l ← boxes n
    pure (fmtRes (initRects c l))
  | "union" => do
    let _ ← cfg; let same ← bool; let al ← alias
    let d ← region; let a ← region; let b ← region
    pure (fmtRes (union same al d a b))
  | "intersect" => do
    let _ ← cfg; let same ← bool; let _ ← alias
    let d ← region; let a ← region; let b ← region
    pure (fmtRes (intersect same d a b))
  | "subtract" => do
    let _ ← cfg; let same ← bool; let _ ← alias
    let d ← region; let a ← region; let b ← region
    pure (fmtRes (subtract same d a b))
  | "inverse" => do
    let _ ← cfg; let d ← region; let a ← region; let b ← box
    pure (fmtRes (inverse d a b))
  | "union_rect" => do
    let c ← cfg; let al ← alias; let d ← region; let a ← region
    let x ← int; let y ← int; let w ← nat; let h ← nat
    pure (fmtRes (unionRect c al d a x y w h))
  | "intersect_rect" => do
    let c ← cfg; let d ← region; let a ← region
    let x ← int; let y ← int; let w ← nat; let h ← nat
    pure (fmtRes (intersectRect c d a x y w h))
  | "copy" => do
    let _ ← cfg; let d ← region; let a ← region
    pure (fmtRes (copy d a, true))
  | "reset" => do
    let _ ← cfg; let b ← box
    pure (fmtRes (reset b, true))
  | "clear" => do
    let _ ← cfg
    pure (fmtRes (clear, true))
  | "equal" => do
    let _ ← cfg; let a ← region; let b ← region
    pure (if equal a b then "1" else "0")
  | "not_empty" => do
    let _ ← cfg; let a ← region
    pure (if notEmpty a then "1" else "0")
  | "contains_point" => do
    let _ ← cfg; let a ← region; let x ← int; let y ← int
    match containsPoint a x y with
    | none => pure "0"
    | some b => pure ("1 " ++ fmtBox b)
  | "contains_rect" => do
    let _ ← cfg; let a ← region; let b ← box
    match containsRectangle a b with
    | .out => pure "OUT" | .inn => pure "IN" | .part => pure "PART"
  | "translate" => do
    let c ← cfg; let a ← region; let dx ← int; let dy ← int
    pure (fmtRes (translate c a dx dy, true))
  | "from_image" => do
    let _ ← cfg; let w ← nat; let h ← nat; let rows ← rowsOf h
    pure (fmtRes (initFromImage w rows, true))
  | "to16" => do
    let a ← region
    pure (fmtRes (region16FromRegion32 a))
  | "to32" => do
    let a ← region
    pure (fmtRes (region32FromRegion16 a))
  | _ => failure

def handle (line : String) : String :=
  let toks := (line.trimAscii.toString.splitOn " ").filter (· ≠ "")
  match request.run toks with
  | some (out, []) => out
  | some (_, _) => "bad-trailing"
  | none => "bad-op"

end Driver.Region

import Pixman.Model.RegionAlloc
/-! Line-protocol driver for the `regionalloc` domain (property C15).

  rg <bits> <mode> <k> <op> <nobj> <obj>*  <args>     region operations under a failure schedule
  ct <mode> <k> <ctor>                                  constructors
  st <mode> <k> <setter>                                setters
  mode: n (no failure) | s (exactly the k-th request fails, 1-based) | p (k-th and all later)
  obj : <K> <size> <x1> <y1> <x2> <y2> <n> <4n ints>    K in S E B H
-/
namespace Driver.RegionAlloc
open Pixman.Region Pixman.Model.RegionAlloc

abbrev P := StateT (List String) Option

def tok : P String := fun s => match s with | [] => none | t :: r => some (t, r)
def int : P Int := do let t ← tok; (t.toInt?).elim failure pure
def nat : P Nat := do let t ← tok; (t.toNat?).elim failure pure
def box : P Box := do return ⟨← int, ← int, ← int, ← int⟩
def boxes : Nat → P (List Box)
  | 0 => pure []
  | n + 1 => do let b ← box; let r ← boxes n; pure (b :: r)

/-- an operand object; heap blocks get ids from `Heap.given` -/
def obj (h : Heap) : P (RegionA × Heap) := do
  let k ← tok
  let size ← nat
  let e ← box
  let n ← nat
  let l ← boxes n
  match k with
  | "S" => pure (⟨e, .single⟩, h)
  | "E" => pure (⟨e, .emptyStatic⟩, h)
  | "B" => pure (⟨e, .broken⟩, h)
  | "H" => let g := h.given; pure (⟨e, .heap g.1 size l⟩, g.2)
  | _ => failure

def objs : Nat → Heap → P (List RegionA × Heap)
  | 0, h => pure ([], h)
  | n + 1, h => do
    let p ← obj h
    let q ← objs n p.2
    pure (p.1 :: q.1, q.2)

def cfg : P Cfg := do
  match ← nat with
  | 16 => pure c16
  | 32 => pure c32
  | _ => failure

def sched : P Sched := do
  let m ← tok
  let k ← nat
  match m with
  | "n" => pure Sched.ok
  | "s" => if k == 0 then failure else pure (Sched.single (k - 1))
  | "p" => if k == 0 then failure else pure (Sched.persistent (k - 1))
  | _ => failure

def fmtBox (b : Box) : String := s!"{b.x1} {b.y1} {b.x2} {b.y2}"
def fmtRegionA (r : RegionA) : String :=
  match r.data with
  | .single => s!"S 0 {fmtBox r.extents} 0"
  | .emptyStatic => s!"E 0 {fmtBox r.extents} 0"
  | .broken => s!"B 0 {fmtBox r.extents} 0"
  | .heap _ sz l => s!"H {sz} {fmtBox r.extents} {l.length}" ++ String.join (l.map fun b => " " ++ fmtBox b)

def rowsOf : Nat → P (List (List Bool))
  | 0 => pure []
  | n + 1 => do
    let t ← tok
    let row := if t == "-" then [] else t.toList.map (· == '1')
    let r ← rowsOf n
    pure (row :: r)

def finiAll : List RegionA → Heap → Heap
  | [], h => h
  | r :: t, h => finiAll t (finiA r h)

/-- reply: result, requests made during the call, live blocks after it, bad flag, live blocks after
    fini of every object -/
def reply (ret : String) (os : List RegionA) (d : Nat) (res : RegionA) (h0 h : Heap) : String :=
  let os' := os.set d res
  let hf := finiAll os' h
  s!"{ret} {fmtRegionA res} ; req={h.k - h0.k} live={h.live.length} bad={if hf.bad then 1 else 0} fin={hf.live.length}"

def b2s (b : Bool) : String := if b then "1" else "0"

def rg : P String := do
  let c ← cfg
  let s ← sched
  let op ← tok
  let n ← nat
  let p ← objs n Heap.empty
  let os := p.1
  let h0 := p.2
  let get (i : Nat) : P RegionA := match os[i]? with | some r => pure r | none => failure
  match op with
  | "union" => do
    let d ← nat; let a ← nat; let b ← nat
    let al : Alias := if d == a then .first else if d == b then .second else .none
    let r := unionA c s (a == b) al (← get d) (← get a) (← get b) h0
    pure (reply (b2s r.1) os d r.2.1 h0 r.2.2)
  | "intersect" => do
    let d ← nat; let a ← nat; let b ← nat
    let al : Alias := if d == a then .first else if d == b then .second else .none
    let r := intersectA c s (a == b) al (← get d) (← get a) (← get b) h0
    pure (reply (b2s r.1) os d r.2.1 h0 r.2.2)
  | "subtract" => do
    let d ← nat; let a ← nat; let b ← nat
    let al : Alias := if d == a then .first else if d == b then .second else .none
    let r := subtractA c s (a == b) al (← get d) (← get a) (← get b) h0
    pure (reply (b2s r.1) os d r.2.1 h0 r.2.2)
  | "inverse" => do
    let d ← nat; let a ← nat; let bx ← box
    let r := inverseA c s (d == a) (← get d) (← get a) bx h0
    pure (reply (b2s r.1) os d r.2.1 h0 r.2.2)
  | "union_rect" => do
    let d ← nat; let a ← nat; let x ← int; let y ← int; let w ← nat; let hh ← nat
    let r := unionRectA c s (d == a) (← get d) (← get a) x y w hh h0
    pure (reply (b2s r.1) os d r.2.1 h0 r.2.2)
  | "intersect_rect" => do
    let d ← nat; let a ← nat; let x ← int; let y ← int; let w ← nat; let hh ← nat
    let r := intersectRectA c s (d == a) (← get d) (← get a) x y w hh h0
    pure (reply (b2s r.1) os d r.2.1 h0 r.2.2)
  | "copy" => do
    let d ← nat; let a ← nat
    let r := copyA c s (d == a) (← get d) (← get a) h0
    pure (reply (b2s r.1) os d r.2.1 h0 r.2.2)
  | "translate" => do
    let d ← nat; let dx ← int; let dy ← int
    let r := translateA c s (← get d) dx dy h0
    pure (reply "v" os d r.1 h0 r.2)
  | "init_rects" => do
    -- the destination is fresh storage, appended to the objects
    let m ← nat; let l ← boxes m
    let r := initRectsA c s l h0
    pure (reply (b2s r.1) (os ++ [initA]) os.length r.2.1 h0 r.2.2)
  | "from_image" => do
    let w ← nat; let hh ← nat; let rows ← rowsOf hh
    let r := initFromImageA c s w rows h0
    pure (reply "v" (os ++ [initA]) os.length r.1 h0 r.2)
  | "to16" => do
    let d ← nat; let a ← nat
    let r := region16From32A s (← get d) (← get a) h0
    pure (reply (b2s r.1) os d r.2.1 h0 r.2.2)
  | "to32" => do
    let d ← nat; let a ← nat
    let r := region32From16A s (← get d) (← get a) h0
    pure (reply (b2s r.1) os d r.2.1 h0 r.2.2)
  | "fini" => do
    let d ← nat
    let h := finiA (← get d) h0
    pure (reply "v" os d initA h0 h)
  | _ => failure

def ctorOf : String → Option Ctor
  | "bits_own" => some .bitsOwn
  | "bits_own_noclear" => some .bitsOwnNoClear
  | "bits_user" => some .bitsUser
  | "solid" => some .solid
  | "gradient" => some .gradient
  | "glyph_cache" => some .glyphCache
  | "glyph_insert" => some .glyphInsert
  | "filter" => some .filter
  | _ => none

def ct : P String := do
  let s ← sched
  let k ← tok
  let _variant ← nat
  match ctorOf k with
  | none => failure
  | some c =>
    let r := construct s c Heap.empty
    match r.1 with
    | none => pure s!"0 ; req={r.2.k} live={r.2.live.length} bad={b2s r.2.bad} fin={r.2.live.length}"
    | some bl =>
      let hf := destroy bl r.2
      pure s!"1 ; req={r.2.k} live={r.2.live.length} bad={b2s hf.bad} fin={hf.live.length}"

def st : P String := do
  let s ← sched
  let k ← tok
  let _variant ← nat
  let go (hasOld reuse : Bool) : String :=
    let g := Heap.empty.given
    let h0 : Heap := if hasOld then g.2 else Heap.empty
    let old : Option Nat := if hasOld then some g.1 else none
    let r := setOwned s old reuse h0
    let hf := freeOld r.2.1 r.2.2
    s!"{b2s r.1} ; req={r.2.2.k} live={r.2.2.live.length} bad={b2s hf.bad} fin={hf.live.length}"
  match k with
  | "transform_new" => pure (go false false)
  | "transform_reuse" => pure (go true true)
  | "filter_new" => pure (go false false)
  | "filter_replace" => pure (go true false)
  | _ => failure

def request : P String := do
  match ← tok with
  | "rg" => rg
  | "ct" => ct
  | "st" => st
  | _ => failure

def handle (line : String) : String :=
  let toks := (line.trimAscii.toString.splitOn " ").filter (· ≠ "")
  match request.run toks with
  | some (out, []) => out
  | some (_, _) => "bad-trailing"
  | none => "bad-op"

end Driver.RegionAlloc

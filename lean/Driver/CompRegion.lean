import Pixman.Model.CompositeRegion
import Driver.Region
/-! Line-protocol driver of the domain `compregion` (C03).

  request := (cr32|cr16|loop) srcX srcY maskX maskY destX destY width height DEST SRC MASK
  DEST, SRC := image          MASK := 0 | 1 image
  image := core (0 | 1 ox oy core)         -- optional alpha map with origin
  core  := width height haveClip clipSources clientClip region
  region as in the domain `region` (kind, extents, count, boxes).
  reply: cr32/cr16: `<ret> <region>`; loop: `<ret> <n> {srcX srcY maskX maskY destX destY w h}` -/
namespace Driver.CompRegion
open Pixman.Region Pixman.CompositeRegion Driver.Region

def core : P ImageCore := do
  let w ← int; let h ← int; let hc ← bool; let cs ← bool; let cc ← bool; let r ← region
  pure ⟨w, h, r, hc, cs, cc⟩

def image : P Image := do
  let c ← core
  match ← tok with
  | "0" => pure { toImageCore := c, alphaMap := none }
  | "1" => do
    let ox ← int; let oy ← int; let a ← core
    pure { toImageCore := c, alphaMap := some ⟨a, ox, oy⟩ }
  | _ => failure

def optImage : P (Option Image) := do
  match ← tok with
  | "0" => pure none
  | "1" => do let i ← image; pure (some i)
  | _ => failure

def fmtInfo (i : Info) : String :=
  s!" {i.srcX} {i.srcY} {i.maskX} {i.maskY} {i.destX} {i.destY} {i.width} {i.height}"

def request : P String := do
  let op ← tok
  let sx ← int; let sy ← int; let mx ← int; let my ← int
  let dx ← int; let dy ← int; let w ← int; let h ← int
  let dest ← image; let src ← image; let mask ← optImage
  match op with
  | "cr32" => pure (fmtRes (computeCompositeRegion32 src mask dest sx sy mx my dx dy w h))
  | "cr16" => pure (fmtRes (computeCompositeRegion16 init src mask dest sx sy mx my dx dy w h))
  | "loop" =>
    let p := computeCompositeRegion32 src mask dest sx sy mx my dx dy w h
    if p.2 then
      let l := compositeBoxes p.1 sx sy mx my dx dy
      pure (s!"1 {l.length}" ++ String.join (l.map fmtInfo))
    else pure "0 0"
  | _ => failure

def handle (line : String) : String :=
  let toks := (line.trimAscii.toString.splitOn " ").filter (· ≠ "")
  match request.run toks with
  | some (out, []) => out
  | some (_, _) => "bad-trailing"
  | none => "bad-op"

end Driver.CompRegion

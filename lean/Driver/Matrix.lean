import Pixman.Model.Matrix
import Pixman.Model.MatrixF
import Pixman.Model.MatrixQ
/-! Line-protocol driver for the matrix domain (C11).  One request per line, one reply per line.
    Integers travel in decimal; a transform is 9 integers in row order; an optional transform
    pointer is `-` (NULL) or `+` followed by 9 integers. -/
namespace Driver.Matrix
open Pixman.Matrix

abbrev P := StateT (List String) Option

def tok : P String := fun s => match s with | [] => none | t :: r => some (t, r)
def int : P Int := do let t ← tok; (t.toInt?).elim failure pure
def i32 : P Int := do let x ← int; if isI32 x then pure x else failure
def i16 : P Int := do let x ← int; if isI16 x then pure x else failure
def i64 : P Int := do let x ← int; if isI64 x then pure x else failure
def u64 : P Int := do let x ← int; if isU64 x then pure x else failure
def transform : P Transform := do
  return ⟨← i32, ← i32, ← i32, ← i32, ← i32, ← i32, ← i32, ← i32, ← i32⟩
def optTransform : P (Option Transform) := do
  match ← tok with
  | "-" => pure none
  | "+" => do let t ← transform; pure (some t)
  | _ => failure
def vec32 : P Vec := do return ⟨← i32, ← i32, ← i32⟩
def vec64 : P Vec := do return ⟨← i64, ← i64, ← i64⟩

def fmtT (t : Transform) : String :=
  s!"{t.m00} {t.m01} {t.m02} {t.m10} {t.m11} {t.m12} {t.m20} {t.m21} {t.m22}"
def fmtOptT : Option Transform → String
  | none => "-"
  | some t => "+ " ++ fmtT t
def fmtV (v : Vec) : String := s!"{v.x} {v.y} {v.z}"
def fmtB (b : Bool) : String := if b then "1" else "0"
def fmtBV : Option (Bool × Vec) → String
  | none => "ABORT"
  | some (r, v) => fmtB r ++ " " ++ fmtV v
def fmtOV : Option Vec → String
  | none => "ABORT"
  | some v => fmtV v
def fmtPair (r : Bool × Option Transform × Option Transform) : String :=
  fmtB r.1 ++ " " ++ fmtOptT r.2.1 ++ " " ++ fmtOptT r.2.2

def fmtQ (r : Rat) : String := s!"{r.num}/{r.den}"
def fmtFT (m : Pixman.MatrixQ.FT) : String :=
  s!"{fmtQ m.m00} {fmtQ m.m01} {fmtQ m.m02} {fmtQ m.m10} {fmtQ m.m11} {fmtQ m.m12} {fmtQ m.m20} {fmtQ m.m21} {fmtQ m.m22}"

def fmtOptFT : Option Pixman.MatrixQ.FT → String
  | none => "-"
  | some m => "+ " ++ fmtFT m
def fmtFPair (r : Bool × Option Pixman.MatrixQ.FT × Option Pixman.MatrixQ.FT) : String :=
  fmtB r.1 ++ " " ++ fmtOptFT r.2.1 ++ " " ++ fmtOptFT r.2.2

def request : P String := do
  let op ← tok
  match op with
  | "point" => do let t ← transform; let v ← vec32; pure (fmtBV (transformPoint t v))
  | "point3d" => do let t ← transform; let v ← vec32; pure (fmtBV (transformPoint3d t v))
  | "p31" => do let t ← transform; let v ← vec64; pure (fmtBV (transformPoint3116 t v))
  | "p31a" => do let t ← transform; let v ← vec64; pure (fmtOV (transformPoint3116Affine t v))
  | "p313d" => do let t ← transform; let v ← vec64; pure (fmtOV (transformPoint31163d t v))
  | "mul" => do
    let l ← transform; let r ← transform
    match multiply l r with
    | none => pure "0"
    | some d => pure ("1 " ++ fmtT d)
  | "init_identity" => pure (fmtT initIdentity)
  | "init_scale" => do let sx ← i32; let sy ← i32; pure (fmtT (initScale sx sy))
  | "init_rotate" => do let c ← i32; let s ← i32; pure (fmtT (initRotate c s))
  | "init_translate" => do let tx ← i32; let ty ← i32; pure (fmtT (initTranslate tx ty))
  | "scale" => do
    let f ← optTransform; let r ← optTransform; let sx ← i32; let sy ← i32
    pure (fmtPair (scale f r sx sy))
  | "rotate" => do
    let f ← optTransform; let r ← optTransform; let c ← i32; let s ← i32
    pure (fmtPair (rotate f r c s))
  | "translate" => do
    let f ← optTransform; let r ← optTransform; let tx ← i32; let ty ← i32
    pure (fmtPair (translate f r tx ty))
  | "bounds" => do
    let t ← transform
    let b : Box16 := ⟨← i16, ← i16, ← i16, ← i16⟩
    match bounds t b with
    | none => pure "ABORT"
    | some (r, b) => pure s!"{fmtB r} {b.x1} {b.y1} {b.x2} {b.y2}"
  | "is_identity" => do let t ← transform; pure (fmtB (isIdentity t))
  | "is_scale" => do let t ← transform; pure (fmtB (isScale t))
  | "is_int_translate" => do let t ← transform; pure (fmtB (isIntTranslate t))
  | "is_inverse" => do let a ← transform; let b ← transform; pure (fmtB (isInverse a b))
  -- white-box requests (static helpers of pixman-matrix.c)
  | "udiv" => do
    let hi ← u64; let lo ← u64; let d ← u64
    match roundedUdiv128By48 hi lo d with
    | none => pure "ABORT"
    | some (rlo, rhi) => pure s!"{rlo} {rhi}"
  | "sdiv" => do
    let hi ← i64; let lo ← u64; let d ← i64
    match roundedSdiv128By49 hi lo d with
    | none => pure "ABORT"
    | some (rlo, rhi) => pure s!"{rlo} {rhi}"
  | "to128" => do
    let hi ← i64; let lo ← i64; let sb ← int
    let (rhi, rlo) := fixed6416ToInt128 hi lo sb
    pure s!"{rhi} {rlo}"
  -- reply = `<bit-exact Float mirror> | <exact rational model>`; the rational part is `0 S` (singular),
  -- `0 O` (an entry of the exact inverse outside [-32767, 32767]) or `1` + the nine nearest 16.16 values
  | "invert" => do
    let t ← transform
    let f := match Pixman.MatrixF.invert t with
      | none => "0"
      | some none => "UNDEF"
      | some (some l) => "1" ++ String.join (l.map fun x => s!" {x}")
    let q := match Pixman.MatrixQ.fInvert (Pixman.MatrixQ.fromFixed t) with
      | none => "0 S"
      | some d => match Pixman.MatrixQ.toFixed d with
        | none => "0 O"
        | some r => "1 " ++ fmtT r
    pure (f ++ " | " ++ q)
  -- floating point entry points on the exact rational model; rationals travel as `num/den` (reduced, den > 0)
  | "f_invert" => do
    let t ← transform
    match Pixman.MatrixQ.fInvert (Pixman.MatrixQ.fromFixed t) with
    | none => pure "0 S"
    | some d => pure ("1 " ++ fmtFT d)
  | "f_point" => do
    let t ← transform; let v ← vec32
    let ft := Pixman.MatrixQ.fromFixed t
    let fv : Pixman.MatrixQ.FV := ⟨Pixman.MatrixQ.fixedToRat v.x, Pixman.MatrixQ.fixedToRat v.y, Pixman.MatrixQ.fixedToRat v.z⟩
    let p3 := Pixman.MatrixQ.fPoint3d ft fv
    let p := match Pixman.MatrixQ.fPoint ft fv with
      | none => "0"
      | some p => s!"1 {fmtQ p.x} {fmtQ p.y} {fmtQ p.z}"
    pure s!"{fmtQ p3.x} {fmtQ p3.y} {fmtQ p3.z} ; {p}"
  | "f_bounds" => do
    let t ← transform
    let b : Pixman.MatrixQ.BoxZ := ⟨← i16, ← i16, ← i16, ← i16⟩
    match Pixman.MatrixQ.fBounds (Pixman.MatrixQ.fromFixed t) b with
    | none => pure "0"
    | some r => pure s!"1 {r.x1} {r.y1} {r.x2} {r.y2}"
  | "f_mul" => do
    let l ← transform; let r ← transform
    pure (fmtFT (Pixman.MatrixQ.fMultiply (Pixman.MatrixQ.fromFixed l) (Pixman.MatrixQ.fromFixed r)))
  | "f_scale" => do
    let f ← optTransform; let r ← optTransform; let a ← i32; let b ← i32
    pure (fmtFPair (Pixman.MatrixQ.fScale (f.map Pixman.MatrixQ.fromFixed) (r.map Pixman.MatrixQ.fromFixed)
      (Pixman.MatrixQ.fixedToRat a) (Pixman.MatrixQ.fixedToRat b)))
  | "f_rotate" => do
    let f ← optTransform; let r ← optTransform; let a ← i32; let b ← i32
    pure (fmtFPair (Pixman.MatrixQ.fRotate (f.map Pixman.MatrixQ.fromFixed) (r.map Pixman.MatrixQ.fromFixed)
      (Pixman.MatrixQ.fixedToRat a) (Pixman.MatrixQ.fixedToRat b)))
  | "f_translate" => do
    let f ← optTransform; let r ← optTransform; let a ← i32; let b ← i32
    pure (fmtFPair (Pixman.MatrixQ.fTranslate (f.map Pixman.MatrixQ.fromFixed) (r.map Pixman.MatrixQ.fromFixed)
      (Pixman.MatrixQ.fixedToRat a) (Pixman.MatrixQ.fixedToRat b)))
  -- the fixed/float conversions on exact binary64: LITERAL equality with the library is required
  | "f_from" => do
    let x ← u64
    match Pixman.MatrixQ.entryFromDouble x.toNat with
    | none => pure "0 0"
    | some none => pure "UNDEF"
    | some (some q) => pure s!"1 {q}"
  | "f_to" => do
    let t ← transform
    pure (String.intercalate " " ([t.m00, t.m01, t.m02, t.m10, t.m11, t.m12, t.m20, t.m21, t.m22].map
      fun f => toString (Pixman.MatrixQ.fixedToDoubleBits f)))
  | "finv" => do let x ← i32; pure s!"{fixedInverse x}"
  | _ => failure

def handle (line : String) : String :=
  let toks := (line.trimAscii.toString.splitOn " ").filter (· ≠ "")
  match request.run toks with
  | some (out, []) => out
  | some (_, _) => "bad-trailing"
  | none => "bad-op"

end Driver.Matrix

import Pixman.Model.DrawFrame
import Pixman.Model.CompositePixel
import Driver.Region
import Driver.Format
/-! Line-protocol driver of the domain `drawframe` (C03): `generalCompositeMem` against
    `pixman_image_composite32` on the general path, whole destination allocation byte for byte.

  request := gc <op> <dfmt> <W> <H> <stride> <desthex> <haveClip> <region> SRC <sx> <sy> <dx> <dy> <w> <h>
  SRC     := S <argb hex8>                          solid fill
           | B <fmt> <Ws> <Hs> <stride> <hex>       bits image (no clip, no repeat, no transform)
  strides in `uint32_t`; `desthex` / `hex` the whole allocation; region as in the domain `region`.
  reply: the destination allocation afterwards, in hex.

  Evaluated as `generalCompositeS` on a snapshot of the allocation; `generalCompositeS_mem` and `Snap.mem_of`
  (Model/DrawFrame.lean) say that the result denotes `generalCompositeMem … (memOf bytes)` exactly.

  Combiner: C01's `compositePixel` (Model/CompositePixel) on fetched values — source raw pixel in its format,
  destination fetched to a8r8g8b8 by C10's `fetchAndConvertPixel` and presented as an a8r8g8b8 destination
  (no repeat: never flagged opaque); the combined a8r8g8b8 value goes to C10's scanline store. -/
namespace Driver.DrawFrame
open Pixman.Model.Format Pixman.Region Pixman.CompositeRegion Pixman.DrawFrame Driver.Region Driver.Format

inductive Src
  | solid (v : Nat)
  | bits (img : FImage) (f : Pixman.CompositePixel.Fmt) (mem : Mem) (w h : Int)

def srcBase : Nat := 64

def combOf (op : Nat) (dimg : FImage) (src : Src) : RowComb := fun m i j k =>
  let x := i.destX.toNat + k
  let y := i.destY.toNat + j
  let d32 := fetchAndConvertPixel dimg.pal m (dimg.row y) x dimg.format
  let r := match src with
    | .solid v => Pixman.CompositePixel.compositePixel op false .solid .none
        (.bits Pixman.CompositePixel.argb32 false) v 0 d32
    | .bits simg f smem _ _ =>
      let s := fetchRaw smem (simg.row (i.srcY + (j : Int)).toNat) (i.srcX + (k : Int)).toNat f.bpp
      Pixman.CompositePixel.compositePixel op false (.bits f false) .none
        (.bits Pixman.CompositePixel.argb32 false) s 0 d32
  match r with
  | .pixel v => v
  | _ => 0xBAD0BAD0

def noClip : Region := ⟨⟨0, 0, 0, 0⟩, .emptyStatic⟩

def source : P Src := do
  match ← tok with
  | "S" => do
    let h ← tok
    match hexGroups 8 h with
    | some a => if a.size = 1 then pure (.solid a[0]!) else failure
    | none => failure
  | "B" => do
    let name ← tok; let w ← nat; let h ← nat; let stride ← nat; let hex ← tok
    match findFmt name, Pixman.CompositePixel.formats.find? (fun f => f.name == name), hexGroups 2 hex with
    | some r, some f, some bytes =>
      pure (.bits ⟨r.code, base, stride, mkPalette 0 r.code⟩ f (memOf bytes) w h)
    | _, _, _ => failure
  | _ => failure

def request : P String := do
  match ← tok with
  | "gc" => do
    let op ← nat
    let dname ← tok; let W ← nat; let H ← nat; let stride ← nat; let hex ← tok
    let haveClip ← bool; let clip ← region
    let src ← source
    let sx ← int; let sy ← int; let dx ← int; let dy ← int; let w ← int; let h ← int
    match findFmt dname, hexGroups 2 hex with
    | some r, some bytes =>
      -- the operator general_composite_rect receives: optimize_operator on the request's opacity flags
      let srcOpaque : Bool := match src with
        | .solid v => (Pixman.CompositePixel.Pres.solid).srcOpaque v false
        | .bits _ f _ _ _ => (Pixman.CompositePixel.Pres.bits f false).srcOpaque 0 false
      let op' := Pixman.Gen.OperatorTable.optimizeOperator op (Pixman.CompositePixel.flag srcOpaque)
        (Pixman.CompositePixel.flag true) (Pixman.CompositePixel.flag false)
      let dimg : FImage := ⟨writeBackFormat r.code op', base, stride, mkPalette 0 r.code⟩
      let dest : CImage := { width := W, height := H, clip := clip, haveClip := haveClip, clipSources := false,
                             clientClip := false, alphaMap := none }
      let (sw, sh) : Int × Int := match src with
        | .solid _ => (1, 1)
        | .bits _ _ _ w h => (w, h)
      let simg : CImage := { width := sw, height := sh, clip := noClip, haveClip := false, clipSources := false,
                             clientClip := false, alphaMap := none }
      let s' := generalCompositeS base bytes.size dimg (combOf op dimg src) simg none dest sx sy 0 0 dx dy w h
        (Snap.of base bytes.size (memOf bytes))
      pure (String.join (s'.arr.toList.map (hexNat 2)))
    | _, _ => failure
  | _ => failure

def handle (line : String) : String :=
  let toks := (line.trimAscii.toString.splitOn " ").filter (· ≠ "")
  match request.run toks with
  | some (out, []) => out
  | some (_, _) => "bad-trailing"
  | none => "bad-op"

end Driver.DrawFrame

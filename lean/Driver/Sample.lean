import Pixman.Model.Fetch
/-! Line-protocol driver for the `sample` domain (C08).  One request per line:

    `S <fmt 0..2> <filter 0..3> <repeat 0..3> <sw> <sh> <m00 … m22> <src_x> <src_y> <dw> <dh> <dx> <dy> <w> <h>
       <nparams> <params…> <sw·sh source pixels, hex>`

    = an `sw × sh` source (fmt 0 a8r8g8b8, 1 x8r8g8b8, 2 a8; `fetch_pixel_32` widens to a8r8g8b8) with the given transform / filter (NEAREST, BILINEAR, CONVOLUTION,
    SEPARABLE_CONVOLUTION) / repeat (NONE, NORMAL, PAD, REFLECT) composited with PIXMAN_OP_SRC at
    `(src_x, src_y)` onto the rectangle `(dx, dy, w, h)` of a `dw × dh` a8r8g8b8 destination that was
    filled with 0xcdcdcdcd.  Reply: the `dw·dh` destination words in hex. -/
namespace Driver.Sample
open Pixman.Matrix Pixman.Sample Pixman.Model.Fetch

abbrev P := StateT (List String) Option

def tok : P String := fun s => match s with | [] => none | t :: r => some (t, r)
def int : P Int := do let t ← tok; (t.toInt?).elim failure pure
def i32 : P Int := do let x ← int; if isI32 x then pure x else failure
def nat (hi : Nat) : P Nat := do let x ← int; if 0 ≤ x ∧ x ≤ hi then pure x.toNat else failure

def hexDigit (c : Char) : Option Nat :=
  if '0' ≤ c ∧ c ≤ '9' then some (c.toNat - '0'.toNat)
  else if 'a' ≤ c ∧ c ≤ 'f' then some (c.toNat - 'a'.toNat + 10)
  else none
def hex : P Nat := do
  let t ← tok
  if t.isEmpty ∨ t.length > 8 then failure
  let mut v := 0
  for c in t.toList do
    match hexDigit c with
    | some d => v := v * 16 + d
    | none => failure
  pure v

def many {α} (p : P α) : Nat → P (List α)
  | 0 => pure []
  | n + 1 => do let a ← p; let r ← many p n; pure (a :: r)

def hexDigits : Array Char := #['0','1','2','3','4','5','6','7','8','9','a','b','c','d','e','f']
def fmtHex (v : Nat) : String :=
  String.ofList ((List.range 8).map fun i => hexDigits[(v >>> (4 * (7 - i))) % 16]!)

def filterOf : Nat → Filter
  | 0 => .nearest | 1 => .bilinear | 2 => .convolution | _ => .separable
def repeatOf : Nat → RepeatMode
  | 0 => .none | 1 => .normal | 2 => .pad | _ => .reflect

def prefill : Nat := 0xcdcdcdcd

def request : P String := do
  let op ← tok
  match op with
  | "S" => do
    let fmt ← nat 2; let f ← nat 3; let r ← nat 3
    let sw ← nat 4096; let sh ← nat 4096
    let m : Transform := ⟨← i32, ← i32, ← i32, ← i32, ← i32, ← i32, ← i32, ← i32, ← i32⟩
    let sx ← i32; let sy ← i32
    let dw ← nat 4096; let dh ← nat 4096
    let dx ← nat 4096; let dy ← nat 4096; let w ← nat 4096; let h ← nat 4096
    if dx + w > dw ∨ dy + h > dh ∨ sw = 0 ∨ sh = 0 then failure
    let np ← nat 100000
    let params ← many i32 np
    let pix ← many hex (sw * sh)
    let arr := pix.toArray
    let b : Bits := { width := sw, height := sh, rep := repeatOf r, filter := filterOf f, params := params,
                      fetch := fun x y =>
                        let p := arr.getD (y.toNat * sw + x.toNat) 0
                        match fmt with
                        | 0 => p
                        | 1 => p ||| 0xff000000
                        | _ => (p % 256) <<< 24 }
    let res := compositeSrc b m sx sy w h
    let cell (x y : Nat) : String :=
      if x < dx ∨ x ≥ dx + w ∨ y < dy ∨ y ≥ dy + h then fmtHex prefill else
      match res with
      | none => fmtHex prefill
      | some rows =>
        fmtHex ((rows.getD (y - dy) []).getD (x - dx) 0)
    pure (" ".intercalate ((List.range dh).flatMap fun y => (List.range dw).map fun x => cell x y))
  | _ => failure

def handle (line : String) : String :=
  let toks := (line.trimAscii.toString.splitOn " ").filter (· ≠ "")
  match request.run toks with
  | some (s, []) => s
  | _ => "PARSE-ERROR"

end Driver.Sample

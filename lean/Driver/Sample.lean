import Pixman.Model.Fetch
import Pixman.Model.FetchFast
/-! Line-protocol driver for the `sample` domain (C08).  One request per line:

    `S <fmt 0..2> <filter 0..3> <repeat 0..3> <sw> <sh> <m00 … m22> <src_x> <src_y> <dw> <dh> <dx> <dy> <w> <h>
       <nparams> <params…> <sw·sh source pixels, hex>`

    = an `sw × sh` source (fmt 0 a8r8g8b8, 1 x8r8g8b8, 2 a8; `fetch_pixel_32` widens to a8r8g8b8) with the given transform / filter (NEAREST, BILINEAR, CONVOLUTION,
    SEPARABLE_CONVOLUTION) / repeat (NONE, NORMAL, PAD, REFLECT) composited with PIXMAN_OP_SRC at
    `(src_x, src_y)` onto the rectangle `(dx, dy, w, h)` of a `dw × dh` a8r8g8b8 destination that was
    filled with 0xcdcdcdcd.  Reply: the `dw·dh` destination words in hex. -/
namespace Driver.Sample
open Pixman.Matrix Pixman.Sample Pixman.Model.Fetch Pixman.Model.FetchFast

abbrev P := StateT (List String) Option

def tok : P String := fun s => match s with | [] => none | t :: r => some (t, r)
def int : P Int := do let t ← tok; (t.toInt?).elim failure pure
def i32 : P Int := do let x ← int; if isI32 x then pure x else failure
def nat (hi : Nat) : P Nat := do let x ← int; if 0 ≤ x ∧ x ≤ hi then pure x.toNat else failure

def hexDigit (c : Char) : Option Nat :=
  if '0' ≤ c ∧ c ≤ '9' then some (c.toNat - '0'.toNat)
  else if 'a' ≤ c ∧ c ≤ 'f' then some (c.toNat - 'a'.toNat + 10)
  else none
def hex : P Nat := do
  let t ← tok
  if t.isEmpty ∨ t.length > 8 then failure
  let mut v := 0
  for c in t.toList do
    match hexDigit c with
    | some d => v := v * 16 + d
    | none => failure
  pure v

def many {α} (p : P α) : Nat → P (List α)
  | 0 => pure []
  | n + 1 => do let a ← p; let r ← many p n; pure (a :: r)

def hexDigits : Array Char := #['0','1','2','3','4','5','6','7','8','9','a','b','c','d','e','f']
def fmtHex (v : Nat) : String :=
  String.ofList ((List.range 8).map fun i => hexDigits[(v >>> (4 * (7 - i))) % 16]!)

def filterOf : Nat → Filter
  | 0 => .nearest | 1 => .bilinear | 2 => .convolution | _ => .separable
def repeatOf : Nat → RepeatMode
  | 0 => .none | 1 => .normal | 2 => .pad | _ => .reflect

def prefill : Nat := 0xcdcdcdcd

/-- every nearest sample index of the rectangle lies inside the image (the semantic content of
    FAST_PATH_SAMPLES_COVER_CLIP_NEAREST); `off` = 1 for NEAREST, 32768 for BILINEAR (then also the
    right/bottom neighbour must be inside) -/
def coversAll (b : Bits) (p : Vec) (ux uy : Int) (w h : Nat) (off extra : Int) : Bool :=
  (List.range w).all (fun (i : Nat) => let x := fixedToInt (p.x - off + i * ux); decide (0 ≤ x ∧ x + extra < b.width)) &&
  (List.range h).all (fun (j : Nat) => let y := fixedToInt (p.y - off + j * uy); decide (0 ≤ y ∧ y + extra < b.height))

/-- the same request evaluated through the models of the specialised paths (Model/FetchFast.lean) wherever
    the guard of one of them holds (the guards of the theorems in Props/C08Fast.lean); elsewhere, and for the
    parts no specialised path covers, the reference model.  Returns the rows and a tag naming the path. -/
def compositeFast (fmt mis : Nat) (b : Bits) (m : Transform) (srcX srcY : Int) (width height : Nat) :
    Option (List (List Nat)) × String :=
  let ref := compositeSrc b m srcX srcY width height
  match ref, setTransform m with
  | none, _ => (none, "dropped")
  | some _, none => (ref, "identity")
  | some _, some t =>
    if width = 0 ∨ height = 0 ∨ isSolid b then (ref, "trivial") else
    if !isAffine (some t) then (ref, "projective") else
    match transformPoint3d t (pixelCentre srcX srcY) with
    | some (true, p) =>
      let smallStep := decide (-1073741824 < t.m00 ∧ t.m00 < 1073741824 ∧ -1073741824 < t.m11 ∧ t.m11 < 1073741824)
      let scale := t.m01 = 0 ∧ t.m10 = 0
      if b.filter = .nearest ∧ scale ∧ smallStep ∧ coversAll b p t.m00 t.m11 width height 1 0 then
        (fastNearest .cover b t srcX srcY width height, "scaled-nearest-cover")
      else if b.filter = .nearest ∧ scale ∧ smallStep ∧ 0 < t.m00 ∧ b.rep = .none then
        (fastNearest .none b t srcX srcY width height, "scaled-nearest-none")
      else if b.filter = .nearest ∧ scale ∧ smallStep ∧ 0 < t.m00 ∧ b.rep = .pad then
        (fastNearest .pad b t srcX srcY width height, "scaled-nearest-pad")
      else if b.filter = .nearest ∧ scale ∧ smallStep ∧ 0 < t.m00 ∧ b.rep = .normal then
        (fastNearest .normal b t srcX srcY width height, "scaled-nearest-normal")
      else if b.filter = .nearest ∧ t.m00 = 0 ∧ t.m11 = 0 ∧ t.m01 = -65536 ∧ t.m10 = 65536 ∧ fmt = 0 ∧
          (let o := rotate90Origin t srcX srcY height
           decide (0 ≤ o.1 ∧ o.1 + height ≤ b.width ∧ 0 ≤ o.2 ∧ o.2 + width ≤ b.height)) then
        (some (bltRotated90 b (rotate90Origin t srcX srcY height).1 (rotate90Origin t srcX srcY height).2 16 mis width height), "rotate-90")
      else if b.filter = .nearest ∧ t.m00 = 0 ∧ t.m11 = 0 ∧ t.m01 = 65536 ∧ t.m10 = -65536 ∧ fmt = 0 ∧
          (let o := rotate270Origin t srcX srcY width
           decide (0 ≤ o.1 ∧ o.1 + height ≤ b.width ∧ 0 ≤ o.2 ∧ o.2 + width ≤ b.height)) then
        (some (bltRotated270 b (rotate270Origin t srcX srcY width).1 (rotate270Origin t srcX srcY width).2 16 mis width height), "rotate-270")
      else if b.filter = .bilinear ∧ scale ∧ smallStep ∧ fmt = 0 ∧ width % 2 = 0 ∧ coversAll b p t.m00 t.m11 width height 32768 1 then
        (fastBilinearScaled .cover b t srcX srcY width height, "scaled-bilinear-cover")
      else if b.filter = .bilinear ∧ scale ∧ smallStep ∧ fmt = 0 ∧ 0 < t.m00 ∧ b.rep = .none ∧
          ¬ coversAll b p t.m00 t.m11 width height 32768 1 then
        (fastBilinearScaled .none b t srcX srcY width height, "scaled-bilinear-none")
      else if b.filter = .bilinear ∧ scale ∧ smallStep ∧ fmt = 0 ∧ 0 < t.m00 ∧ b.rep = .pad ∧
          ¬ coversAll b p t.m00 t.m11 width height 32768 1 then
        (fastBilinearScaled .pad b t srcX srcY width height, "scaled-bilinear-pad")
      else if b.filter = .bilinear ∧ scale ∧ smallStep ∧ fmt = 0 ∧ 0 < t.m00 ∧ b.rep = .normal ∧
          ¬ coversAll b p t.m00 t.m11 width height 32768 1 then
        (fastBilinearScaled .normal b t srcX srcY width height, "scaled-bilinear-normal")
      else if b.filter = .bilinear ∧ scale ∧ smallStep ∧ fmt = 0 ∧ coversAll b p t.m00 t.m11 width height 32768 1 then
        (fastBilinearCoverCached b t srcX srcY width height, "bilinear-cover-iter")
      else
        let rows (f : Int → Option (List Nat)) : Option (List (List Nat)) :=
          some (scanlineLoop f height srcY (List.replicate width 0))
        match b.filter with
        | .nearest => (rows fun line => fetchNearestAffine b t srcX line width, "nearest-affine-iter")
        | .bilinear => (rows fun line => fetchBilinearAffine b t srcX line width, "bilinear-affine-iter")
        | .separable => (rows fun line => fetchSeparableAffine b t srcX line width, "separable-affine-iter")
        | .convolution => (ref, "convolution")
    | _ => (ref, "bad-matrix")

def request (fast : Bool) : P String := do
  let op ← tok
  match op with
  | "S" => do
    let fmt ← nat 2; let f ← nat 3; let r ← nat 3
    let sw ← nat 4096; let sh ← nat 4096
    let m : Transform := ⟨← i32, ← i32, ← i32, ← i32, ← i32, ← i32, ← i32, ← i32, ← i32⟩
    let sx ← i32; let sy ← i32
    let dw ← nat 4096; let dh ← nat 4096
    let dx ← nat 4096; let dy ← nat 4096; let w ← nat 4096; let h ← nat 4096
    if dx + w > dw ∨ dy + h > dh ∨ sw = 0 ∨ sh = 0 then failure
    let np ← nat 100000
    let params ← many i32 np
    let pix ← many hex (sw * sh)
    let arr := pix.toArray
    let b : Bits := { width := sw, height := sh, rep := repeatOf r, filter := filterOf f, params := params,
                      fetch := fun x y =>
                        let p := arr.getD (y.toNat * sw + x.toNat) 0
                        match fmt with
                        | 0 => p
                        | 1 => p ||| 0xff000000
                        | _ => (p % 256) <<< 24 }
    let (res, tag) := if fast then compositeFast fmt ((dy * dw + dx) % 16) b m sx sy w h else (compositeSrc b m sx sy w h, "")
    let cell (x y : Nat) : String :=
      if x < dx ∨ x ≥ dx + w ∨ y < dy ∨ y ≥ dy + h then fmtHex prefill else
      match res with
      | none => fmtHex prefill
      | some rows =>
        fmtHex ((rows.getD (y - dy) []).getD (x - dx) 0)
    pure (" ".intercalate ((List.range dh).flatMap fun y => (List.range dw).map fun x => cell x y) ++
          (if fast then " #" ++ tag else ""))
  | _ => failure

def handle (line : String) : String :=
  let toks := (line.trimAscii.toString.splitOn " ").filter (· ≠ "")
  match (request false).run toks with
  | some (s, []) => s
  | _ => "PARSE-ERROR"

/-- domain `samplefast`: same request lines, evaluated through Model/FetchFast.lean where a guard holds;
    the reply ends with ` #<path>` -/
def handleFast (line : String) : String :=
  let toks := (line.trimAscii.toString.splitOn " ").filter (· ≠ "")
  match (request true).run toks with
  | some (s, []) => s
  | _ => "PARSE-ERROR"

end Driver.Sample

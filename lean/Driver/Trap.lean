import Pixman.Model.Trap
import Pixman.Spec.SampleGrid
import Pixman.Model.TrapWords
/-! Line-protocol driver for the trapezoid domain (C12).  One request per line, one reply per line.

    ceil <y> <n> | floor <y> <n>
    edge <n> <y_start> <x_top> <y_top> <x_bot> <y_bot> <k> <step_1 … step_k>
    rast     <n> <w> <h> <v> <xoff> <yoff> <top bottom l.p1.x l.p1.y l.p2.x l.p2.y r.p1.x r.p1.y r.p2.x r.p2.y>
    addtz    <n> <w> <h> <v> <xoff> <yoff> <cnt> <10 ints>*cnt
    addtraps <n> <w> <h> <v> <xoff> <yoff> <cnt> <top.l top.r top.y bot.l bot.r bot.y>*cnt
    addtri   <n> <w> <h> <v> <xoff> <yoff> <cnt> <p1.x p1.y p2.x p2.y p3.x p3.y>*cnt

    Reply of the raster requests: `M <model image> S <spec image> F <flags>`; flags:
    `c`,`d`,`a` outside the exact region (an int32 wrap can occur; see `edgeExact`), `t` a visited row
    on which the walked abscissa is not the Spec's `snapX`, `f` the a8 span-fill loop differs from the naive loop, `o` out-of-bounds access,
    `r` runaway loop, `w` the word/byte-level rasteriser (`Model/TrapWords.lean`: a1 word masks, a4 nibble read-modify-write, a8 bytes) run on a
    little-endian byte memory does not decode to the array model's image or touched a padding bit (small requests only), `g` (addtri) the triangles' own inside test (`Spec.triCount`) differs from the Spec count of the
    two-trapezoid decompositions although every triangle satisfies the hypotheses of R5, `-` none. -/
namespace Driver.Trap
open Pixman.Trap
open Pixman.Spec.SampleGrid

abbrev P := StateT (List String) Option

def tok : P String := fun s => match s with | [] => none | t :: r => some (t, r)
def int : P Int := do let t ← tok; (t.toInt?).elim failure pure
def nat : P Nat := do let t ← tok; (t.toNat?).elim failure pure
def ints : Nat → P (List Int)
  | 0 => pure []
  | n + 1 => do let a ← int; let r ← ints n; pure (a :: r)

def point : P Point := do return ⟨← int, ← int⟩
def line : P Line := do return ⟨← point, ← point⟩
def trapezoid : P Trapezoid := do return ⟨← int, ← int, ← line, ← line⟩
def trap : P Trap := do return ⟨← int, ← int, ← int, ← int, ← int, ← int⟩
def triangle : P Triangle := do return ⟨← point, ← point, ← point⟩
def many {α} (p : P α) : Nat → P (List α)
  | 0 => pure []
  | n + 1 => do let a ← p; let r ← many p n; pure (a :: r)

def hexDigit (v : Nat) : Char := if v < 10 then Char.ofNat (48 + v) else Char.ofNat (87 + v)
def fmtPix (n : Nat) (v : Nat) : String :=
  if n == 8 then String.ofList [hexDigit (v / 16 % 16), hexDigit (v % 16)] else String.ofList [hexDigit (v % 16)]
def fmtRows (n : Nat) (rows : Array (Array Nat)) : String :=
  ",".intercalate (rows.toList.map fun r => String.join (r.toList.map (fmtPix n)))

/-! ### the exact region (no int32 wrap-around can influence the result) -/

def inI32 (v : Int) : Bool := -2147483648 ≤ v && v ≤ 2147483647
/-- |v| ≤ 32767 px: leaves room for the `+ X_FRAC_FIRST (1) - e` of the a1 row loop -/
def safeX (v : Int) : Bool := -2147418112 ≤ v && v ≤ 2147418112

/-- why the edge through `(xt, yt)`, `(xb, yb)` walked over the sample rows `t … b` may leave the exact
    region: `d` = `|dx|` above 32767 px or `dy` not in `(0, 2^31)`, `a` = abscissa at the top vertex,
    the first or the last row beyond ±32767 px -/
def edgeExact (xt yt xb yb t b : Int) : String :=
  let l : EdgeLine := ⟨xt, yt, xb, yb⟩
  (if yb > yt && inI32 (yb - yt) && safeX (xb - xt) && inI32 (t - yt) then "" else "d") ++
  (if yb > yt && safeX xt && safeX (l.snapX t) && safeX (l.snapX b) then "" else "a")

def dedup (s : String) : String := String.ofList (s.toList.eraseDups)

/-- image-space shape of a trapezoid after the offsets, with the reasons (if any) why it is outside
    the exact region; `c` = a coordinate plus offset leaves int32 -/
def shapeOfTrapezoid (n : Nat) (height : Nat) (tr : Trapezoid) (xOff yOff : Int) : Option (Shape × String) :=
  let xo := xOff * 65536
  let yo := yOff * 65536
  let coordsOk := inI32 xo && inI32 yo && inI32 (tr.top + yo) && inI32 (tr.bottom + yo) &&
    [tr.left, tr.right].all fun l => inI32 (l.p1.x + xo) && inI32 (l.p2.x + xo) && inI32 (l.p1.y + yo) && inI32 (l.p2.y + yo)
  let cf := if coordsOk then "" else "c"
  if !tr.valid then (if coordsOk then none else some (⟨0, 0, ⟨0, 0, 0, 1⟩, ⟨0, 0, 0, 1⟩⟩, cf)) else
  let mk (l : Line) : EdgeLine :=
    if l.p1.y ≤ l.p2.y then ⟨l.p1.x + xo, l.p1.y + yo, l.p2.x + xo, l.p2.y + yo⟩
    else ⟨l.p2.x + xo, l.p2.y + yo, l.p1.x + xo, l.p1.y + yo⟩
  let s : Shape := ⟨tr.top + yo, tr.bottom + yo, mk tr.left, mk tr.right⟩
  -- the rows the rasteriser visits
  let t := sampleCeilY (if s.top < 0 then 0 else s.top) n
  let b := sampleFloorY (if fixedToInt s.bottom ≥ height then (height : Int) * 65536 - 1 else s.bottom) n
  let ex := cf ++ (if b < t then "" else
    edgeExact s.left.xTop s.left.yTop s.left.xBot s.left.yBot t b ++
    edgeExact s.right.xTop s.right.yTop s.right.xBot s.right.yBot t b)
  some (s, ex)

def shapeOfTrap (n : Nat) (height : Nat) (tr : Trap) (xOff yOff : Int) : Option (Shape × String) :=
  let xo := xOff * 65536
  let yo := yOff * 65536
  let coordsOk := inI32 xo && inI32 yo && inI32 (tr.topY + yo) && inI32 (tr.botY + yo) &&
    [tr.topL, tr.topR, tr.botL, tr.botR].all fun x => inI32 (x + xo)
  let cf := if coordsOk then "" else "c"
  if tr.botY ≤ tr.topY then (if coordsOk then none else some (⟨0, 0, ⟨0, 0, 0, 1⟩, ⟨0, 0, 0, 1⟩⟩, cf)) else
  let s : Shape := ⟨tr.topY + yo, tr.botY + yo, ⟨tr.topL + xo, tr.topY + yo, tr.botL + xo, tr.botY + yo⟩,
                    ⟨tr.topR + xo, tr.topY + yo, tr.botR + xo, tr.botY + yo⟩⟩
  let t := sampleCeilY (if s.top < 0 then 0 else s.top) n
  let b := sampleFloorY (if fixedToInt s.bottom ≥ height then (height : Int) * 65536 - 1 else s.bottom) n
  let ex := cf ++ (if b < t then "" else
    edgeExact s.left.xTop s.left.yTop s.left.xBot s.left.yBot t b ++
    edgeExact s.right.xTop s.right.yTop s.right.xBot s.right.yBot t b)
  some (s, ex)

/-- some visited row on which the model's edge abscissa is not the Spec's `snapX` -/
def walkDiffers (n : Nat) (setup : Option (Int × Int × Edge × Edge)) (s : Option (Shape × String)) : Bool :=
  match setup, s with
  | some (t, b, l, r), some (s, _) =>
    (walkRows n b (rowFuel n t b) t l r).any fun (y, lx, rx) => lx != s.left.snapX y || rx != s.right.snapX y
  | _, _ => false

def specAll (n w h : Nat) (v : Nat) (shapes : List (Option (Shape × String))) : Array (Array Nat) × String :=
  shapes.foldl (fun (acc : Array (Array Nat) × String) s =>
    match s with
    | none => acc
    | some (s, ex) => (addShape n w h acc.1 s, acc.2 ++ ex))
    (Array.replicate h (Array.replicate w v), "")

/-- the naive a8 rasteriser (`row8` on every sample row, no span-fill bookkeeping) over the same setups;
    its disagreement with the span-fill loop is reported as flag `f` -/
def naiveAll (n w h v : Nat) (setups : List (Option (Int × Int × Edge × Edge))) : Img :=
  setups.foldl (fun img s =>
    match s with
    | some (t, b, l, r) =>
      if n == 8 then edgesLoop8Naive b (rowFuel 8 t b) t l r img else rasterizeEdges n img l r t b
    | none => img) (Img.mk' w h v)

/-- `Model/TrapWords.lean`'s `rasterizeEdgesW` (a1 word masks, a4 nibble read-modify-write, a8 bytes with the span-fill
    bookkeeping and flush, over the rows `walkRows` visits; in its array-backed form `rasterizeEdgesWB`) on C10's byte memory: rows of
    `stride = ⌈w·n/32⌉` words at byte address 64, every pixel position (padding included) initialised to `v`; `true`
    when some pixel decoded with C10's `fetchRaw` differs from the array model's image `m`, or a padding position or a
    byte around the image changed.  Small requests only (a4/a8: width ≤ 9 — a read through the closure chain of one row
    body costs 2^span; the memory is read out after every sample row). -/
def wordsDiffer (n w h v : Nat) (setups : List (Option (Int × Int × Edge × Edge))) (m : Img) : Bool :=
  let nY := (Pixman.Gen.SampleGrid.nYFrac n).toNat
  if m.oob || m.runaway || setups.length > 4 || n == 0 || h == 0 || w == 0 then false else
  if (n == 1 && (w > 140 || w * h > 2000)) || (n != 1 && (w > 9 || w * h * nY > 700)) then false else
  let stride := (w * n + 31) / 32
  let bits := 64
  let total := 64 + 4 * (h * stride) + 64
  let byte : Nat := if n == 8 then v % 256 else if n == 4 then (v % 16) * 17 else (v % 2) * 255
  let a0 : Array Nat := Array.replicate total byte
  let arr := setups.foldl (fun (arr : Array Nat) s =>
    match s with
    | none => arr
    | some (t, b, l, r) => Pixman.TrapWords.rasterizeEdgesWB total byte n bits stride (w : Int) arr l r t b) a0
  let mem := Pixman.TrapWords.memOf arr byte
  let m0 := Pixman.TrapWords.memOf a0 byte
  let perRow := stride * 32 / n
  let badPix := (List.range h).any fun r => (List.range perRow).any fun c =>
    let got := Pixman.Model.Format.fetchRaw mem (bits + 4 * (r * stride)) c n
    let want := if c < w then (m.rows[r]?.getD #[])[c]?.getD 0 else Pixman.Model.Format.fetchRaw m0 (bits + 4 * (r * stride)) c n
    got != want
  let badAround := (List.range 64).any (fun a => mem a != byte) ||
    (List.range 64).any (fun a => mem (bits + 4 * (h * stride) + a) != byte)
  badPix || badAround

/-- the Spec triangle in image space, when it satisfies the hypotheses of R5 (`Props.C12.triangle_tiles`):
    coordinates plus offsets fit int32, the differences `clockwise` computes do not wrap, not collinear -/
def specTri (t : Triangle) (xOff yOff : Int) : Option Tri :=
  let xo := xOff * 65536
  let yo := yOff * 65536
  let q : Tri := ⟨t.p1.x + xo, t.p1.y + yo, t.p2.x + xo, t.p2.y + yo, t.p3.x + xo, t.p3.y + yo⟩
  let fit (v : Int) : Bool := -2147483647 ≤ v && v ≤ 2147483647
  let ok := [q.x1, q.y1, q.x2, q.y2, q.x3, q.y3].all inI32 && inI32 xo && inI32 yo &&
    [q.x2 - q.x1, q.x3 - q.x1, q.x3 - q.x2, q.y2 - q.y1, q.y3 - q.y1, q.y3 - q.y2].all fit &&
    (q.x2 - q.x1) * (q.y3 - q.y1) - (q.x3 - q.x1) * (q.y2 - q.y1) != 0
  if ok then some q else none

/-- the image after adding the triangles' own sample counts; `none` when some triangle is outside R5's hypotheses
    or the image has more than 60000 samples (evaluation budget of the driver) -/
def triSpecAll (n w h v : Nat) (tris : List (Option Tri)) : Option (Array (Array Nat)) :=
  if w * h * (Pixman.Gen.SampleGrid.nXFrac n).toNat * (Pixman.Gen.SampleGrid.nYFrac n).toNat > 60000 then none else
  tris.foldl (fun acc t =>
    match acc, t with
    | some img, some t =>
      some ((Array.range h).map fun (r : Nat) => (Array.range w).map fun (c : Nat) =>
        pixelValue n ((img[r]?.getD #[])[c]?.getD 0) (triCount n t (c : Int) (r : Int)))
    | _, _ => none) (some (Array.replicate h (Array.replicate w v)))

def reply (n : Nat) (m : Img) (sp : Array (Array Nat) × String) (tie : Bool := false) (naive : Option Img := none)
    (triSpec : Option (Array (Array Nat)) := none) (wf : Bool := false) : String :=
  let nf := match naive with | some q => q.rows != m.rows | none => false
  let gf := match triSpec with | some q => sp.2.isEmpty && q != sp.1 | none => false
  let fl := dedup sp.2 ++ (if tie then "t" else "") ++ (if nf then "f" else "") ++ (if gf then "g" else "") ++ (if wf then "w" else "") ++ (if m.oob then "o" else "") ++ (if m.runaway then "r" else "")
  s!"M {fmtRows n m.rows} S {fmtRows n sp.1} F {if fl.isEmpty then "-" else fl}"

def fmtEdge (e : Edge) : String :=
  s!"{e.x} {e.e} {e.stepx} {e.signdx} {e.dy} {e.dx} {e.stepxSmall} {e.stepxBig} {e.dxSmall} {e.dxBig}"

def request : P String := do
  let op ← tok
  match op with
  | "ceil" => do let y ← int; let n ← nat; pure (toString (sampleCeilY y n))
  | "floor" => do let y ← int; let n ← nat; pure (toString (sampleFloorY y n))
  | "edge" => do
    let n ← nat; let ys ← int; let xt ← int; let yt ← int; let xb ← int; let yb ← int
    let k ← nat; let steps ← ints k
    let e := edgeInit n ys xt yt xb yb
    let e := steps.foldl (fun e s =>
      if s == 100000001 then stepSmall e else if s == 100000002 then stepBig e else edgeStep e s) e
    pure (fmtEdge e)
  | "rast" => do
    let n ← nat; let w ← nat; let h ← nat; let v ← nat; let xo ← int; let yo ← int
    let tz ← trapezoid
    let m := rasterizeTrapezoid n (Img.mk' w h v) tz xo yo
    let sh := shapeOfTrapezoid n h tz xo yo
    pure (reply n m (specAll n w h v [sh]) (walkDiffers n (trapezoidSetup n h tz xo yo) sh)
      (some (naiveAll n w h v [trapezoidSetup n h tz xo yo])) (wf := wordsDiffer n w h v [trapezoidSetup n h tz xo yo] m))
  | "addtz" => do
    let n ← nat; let w ← nat; let h ← nat; let v ← nat; let xo ← int; let yo ← int
    let c ← nat; let tzs ← many trapezoid c
    let m := addTrapezoids n (Img.mk' w h v) xo yo tzs
    let xo16 := wrap16 xo
    pure (reply n m (specAll n w h v (tzs.map fun tz => shapeOfTrapezoid n h tz xo16 yo))
      (tzs.any fun tz => walkDiffers n (trapezoidSetup n h tz xo16 yo) (shapeOfTrapezoid n h tz xo16 yo))
      (some (naiveAll n w h v (tzs.map fun tz => trapezoidSetup n h tz xo16 yo))) (wf := wordsDiffer n w h v (tzs.map fun tz => trapezoidSetup n h tz xo16 yo) m))
  | "addtraps" => do
    let n ← nat; let w ← nat; let h ← nat; let v ← nat; let xo ← int; let yo ← int
    let c ← nat; let ts ← many trap c
    let m := addTraps n (Img.mk' w h v) xo yo ts
    let xo := wrap16 xo; let yo := wrap16 yo
    pure (reply n m (specAll n w h v (ts.map fun t => shapeOfTrap n h t xo yo))
      (ts.any fun t => walkDiffers n (trapSetup n h (intToFixed xo) (intToFixed yo) t) (shapeOfTrap n h t xo yo))
      (some (naiveAll n w h v (ts.map fun t => trapSetup n h (intToFixed xo) (intToFixed yo) t))) (wf := wordsDiffer n w h v (ts.map fun t => trapSetup n h (intToFixed xo) (intToFixed yo) t) m))
  | "addtri" => do
    let n ← nat; let w ← nat; let h ← nat; let v ← nat; let xo ← int; let yo ← int
    let c ← nat; let ts ← many triangle c
    let m := addTriangles n (Img.mk' w h v) xo yo ts
    let tzs := ts.flatMap fun t => let p := triangleToTrapezoids t; [p.1, p.2]
    let xo16 := wrap16 xo
    pure (reply n m (specAll n w h v (tzs.map fun tz => shapeOfTrapezoid n h tz xo16 yo))
      (tzs.any fun tz => walkDiffers n (trapezoidSetup n h tz xo16 yo) (shapeOfTrapezoid n h tz xo16 yo))
      (some (naiveAll n w h v (tzs.map fun tz => trapezoidSetup n h tz xo16 yo)))
      (triSpecAll n w h v (ts.map fun t => specTri t xo16 yo))
      (wf := wordsDiffer n w h v (tzs.map fun tz => trapezoidSetup n h tz xo16 yo) m))
  | _ => pure "skip"

def handle (line : String) : String :=
  let toks := (line.trimAscii.toString.splitOn " ").filter (· ≠ "")
  match request.run toks with
  | some (s, _) => s
  | none => "bad-request"

end Driver.Trap

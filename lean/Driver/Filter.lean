import Pixman.Model.Filter
import Pixman.Model.FilterKernels
/-! Line-protocol driver for the filter domain (C18).  One request per line, one reply per line.

    create <rx> <sx> <scale_x> <bits_x> <ry> <sy> <scale_y> <bits_y>
        reply: n_values p0 p1 p2 p3 accepted      (exact width model, layout, set_filter's test), or NULL
    x1s <w> <bits>
        reply: first tap position of every phase
    block <wx> <bx> <wy> <by> <g> <ng> <raw x: wx*2^bx> <pre x> <raw y: wy*2^by> <pre y>
        reply: cells 4 … n_values-1 after `createBlock` run on a memory of n_values+ng cells all holding g,
               then `G` and the ng cells behind the block -/
namespace Driver.Filter
open Pixman.Model.Filter
open Pixman.Model.FilterKernels

def parseInts (ts : List String) : Option (List Int) := ts.mapM String.toInt?

def fmtInts (l : List Int) : String := " ".intercalate (l.map toString)

def doCreate (a : List Int) : String :=
  match a with
  | [rx, sx, scx, bx, ry, sy, scy, by_] =>
    let wx := filterWidth rx.toNat sx.toNat scx
    let wy := filterWidth ry.toNat sy.toNat scy
    if createRefuses wx wy then "NULL" else
    let nv := nValues wx bx.toNat wy by_.toNat
    let h := header wx bx.toNat wy by_.toNat
    match h with
    | [p0, p1, p2, p3] =>
      let acc := setFilterAccepts p0 p1 p2 p3 nv
      fmtInts [nv, p0, p1, p2, p3, if acc then 1 else 0]
    | _ => "ERR"
  | _ => "ERR create"

def doX1s (a : List Int) : String :=
  match a with
  | [w, bits] =>
    let n := 2 ^ bits.toNat
    fmtInts ((List.range n).map fun i => firstTap w.toNat n i)
  | _ => "ERR x1s"

def doBlock (a : List Int) : String :=
  match a with
  | wx :: bx :: wy :: by_ :: g :: ng :: rest =>
    let wx := wx.toNat; let bx := bx.toNat; let wy := wy.toNat; let by_ := by_.toNat; let ng := ng.toNat
    let cx := wx * 2 ^ bx
    let cy := wy * 2 ^ by_
    let vals := rest.toArray
    if vals.size != 2 * cx + 2 * cy then "ERR block length" else
    let rawx := fun i k => vals.getD (i * wx + k) 0
    let prex := fun i k => vals.getD (cx + i * wx + k) 0
    let rawy := fun i k => vals.getD (2 * cx + i * wy + k) 0
    let prey := fun i k => vals.getD (2 * cx + cy + i * wy + k) 0
    let nv := 4 + cx + cy
    let m := createBlock wx bx wy by_ rawx prex rawy prey (Array.replicate (nv + ng) g)
    let cells := (m.extract 4 nv).toList
    let guard := (m.extract nv (nv + ng)).toList
    String.join (cells.map fun c => toString c ++ " ") ++ "G" ++ String.join (guard.map fun c => " " ++ toString c)
  | _ => "ERR block"

/-- absolute error of a library double (an argument of `floor`) against the exact value, in units of 2^-37
    (= 65536 · 2^-53: one ulp of a coefficient of size 1 after the multiplication by 65536; also one ulp of a normalised
    value of size 65536), rounded up -/
def ulps (lib exact : Rat) : Nat :=
  ((lib - exact).abs * ((2 ^ 37 : Nat) : Rat)).ceil.toNat

/-- `exact <r> <s> <scale> <bits> <w> <bits of the w·n arguments of the sampling floor> <… of the normalisation floor>`
    reply: `OK <e1> <e2> <res> <flipsRaw> <flipsPre> <negs>`:
    e1 = largest error of a sampling-loop floor argument `c*65536+0.5` against the exact Simpson/closed-form value,
    e2 = largest error of a normalisation-loop floor argument `v+0.5` against the exact value obtained by following the
         library's own roundings, both as absolute errors in units of 2^-37;
    res = largest deviation of the residual 65536 − Σ t from the exact model's (0; 65536 for an all-zero phase);
    flipsRaw / flipsPre = taps where floor of the exact argument differs from the library's integer (ties);
    negs = sampled coefficients below 0 in the exact model -/
def doExact (a : List Int) : String :=
  match a with
  | r :: s :: scale :: bits :: w :: rest =>
    let r := r.toNat; let s := s.toNat; let w := w.toNat
    let n := 2 ^ bits.toNat
    let cells := w * n
    let vals := rest.toArray
    if vals.size != 2 * cells then "ERR exact length" else
    if !(isPoly r && isPoly s) then "ERR exact kernel" else
    Id.run do
      let mut e1 := 0
      let mut e2 := 0
      let mut res : Nat := 0
      let mut flipsRaw := 0
      let mut flipsPre := 0
      let mut negs := 0
      let sc := scaleOf scale
      for i in [0:n] do
        -- sampling loop
        let mut raws : List Int := []
        let mut rawsExact : List Int := []
        for k in [0:w] do
          match coeff r s sc (pos w n i k), ofBits (vals.getD (i * w + k) 0).toNat with
          | some c, some al =>
            let ex := rawArg c
            e1 := max e1 (ulps al ex)
            if c < 0 then negs := negs + 1
            raws := raws ++ [al.floor]
            rawsExact := rawsExact ++ [ex.floor]
            if al.floor != ex.floor then flipsRaw := flipsRaw + 1
          | _, _ => return "BAD assert/fuel/NaN in phase " ++ toString i ++ " tap " ++ toString k
        -- normalisation loop, following the library's roundings
        let c := normFactor (sumInts raws)
        let mut e : Rat := 0
        let mut tot : Int := 0
        let mut ts : List Int := []
        let mut k := 0
        for rv in raws do
          match ofBits (vals.getD (cells + i * w + k) 0).toNat with
          | some al =>
            let v := (rv : Rat) * c + e
            e2 := max e2 (ulps al (v + 1 / 2))
            let t := al.floor
            ts := ts ++ [t]
            tot := tot + t
            e := v - t
          | none => return "BAD NaN in the normalisation of phase " ++ toString i
          k := k + 1
        -- expected residual: 0, or 65536 for a phase whose samples add up to 0 (Props.C18K.N_exact_total / N_zero_total)
        res := max res (65536 - tot - (if sumInts raws = 0 then 65536 else 0)).natAbs
        -- the fully exact pipeline for comparison
        let pe := normalise rawsExact
        flipsPre := flipsPre + ((pe.zip ts).filter fun (x, y) => x != y).length
      return "OK " ++ toString e1 ++ " " ++ toString e2 ++ " " ++ toString res ++ " " ++ toString flipsRaw ++ " "
        ++ toString flipsPre ++ " " ++ toString negs
  | _ => "ERR exact"

def handle (line : String) : String :=
  match (line.trimAscii.toString.splitOn " ").filter (· ≠ "") with
  | [] => ""
  | op :: ts =>
    match parseInts ts with
    | none => "ERR parse"
    | some a =>
      if op == "create" then doCreate a
      else if op == "x1s" then doX1s a
      else if op == "block" then doBlock a
      else if op == "exact" then doExact a
      else "ERR op"

end Driver.Filter

import Pixman.Model.ImageState
import Pixman.Model.DispatchCache
/-! Line protocol of the `imgstate` domain.

`hist ; I <creation> ; ... ; <op> ; <op> ...` — one history of setters and uses per line; the
reply is one observation per op, joined by `;` (the state of the image the op addressed, or of
every image a use validated).  `cache <table> ; <lookups>` — the fast-path cache. -/
namespace Driver.ImageState
open Pixman.Model.ImageState
open Pixman.Model

def ints (ts : List String) : Option (List Int) := ts.mapM String.toInt?

def parseStops : List Int → Option (List Stop)
  | [] => some []
  | x :: r :: g :: b :: a :: rest => do
    let tl ← parseStops rest
    some (⟨x, ⟨r.toNat, g.toNat, b.toNat, a.toNat⟩⟩ :: tl)
  | _ => none

def parseBoxes : List Int → Option (List CBox)
  | [] => some []
  | a :: b :: c :: d :: rest => do
    let tl ← parseBoxes rest
    some (⟨a, b, c, d⟩ :: tl)
  | _ => none

def parseCreation (ts : List String) : Option Creation :=
  match ts with
  | "bits" :: rest => do
    match ← ints rest with
    | [f, w, h] => some { kind := .bits, format := f.toNat, width := w, height := h }
    | _ => none
  | "solid" :: rest => do
    match ← ints rest with
    | [a] => some { kind := .solid, solidAlpha := a.toNat }
    | _ => none
  | "lin" :: rest => do
    let st ← parseStops (← ints rest)
    some { kind := .linear, stops := st }
  | "con" :: rest => do
    let st ← parseStops (← ints rest)
    some { kind := .conical, stops := st }
  | "rad" :: rest => do
    match ← ints rest with
    | a :: st => some { kind := .radial, radialA := a, stops := (← parseStops st) }
    | _ => none
  | _ => none

def parseOp (ts : List String) : Option Op :=
  match ts with
  | "T" :: rest => do
    match ← ints rest with
    | [i, 0] => some (.setTransform i.toNat none)
    | [i, 1, a, b, c, d, e, f, g, h, k] => some (.setTransform i.toNat (some ⟨a, b, c, d, e, f, g, h, k⟩))
    | _ => none
  | "R" :: rest => do
    match ← ints rest with
    | [i, r] => some (.setRepeat i.toNat r)
    | _ => none
  | "F" :: rest => do
    match ← ints rest with
    | i :: f :: 0 :: n :: [] => some (.setFilter i.toNat f none n)
    | i :: f :: 1 :: n :: ps => some (.setFilter i.toNat f (some ps) n)
    | _ => none
  | "C" :: rest => do
    match ← ints rest with
    | [i, 0] => some (.setClipRegion i.toNat none)
    | i :: 1 :: bs => some (.setClipRegion i.toNat (some (← parseBoxes bs)))
    | _ => none
  | "CC" :: rest => do
    match ← ints rest with
    | [i, v] => some (.setHasClientClip i.toNat v)
    | _ => none
  | "SC" :: rest => do
    match ← ints rest with
    | [i, v] => some (.setSourceClipping i.toNat v)
    | _ => none
  | "AM" :: rest => do
    match ← ints rest with
    | [i, am, x, y] => some (.setAlphaMap i.toNat (if am < 0 then none else some am.toNat) x y)
    | _ => none
  | "CA" :: rest => do
    match ← ints rest with
    | [i, v] => some (.setComponentAlpha i.toNat v)
    | _ => none
  | "AC" :: rest => do
    match ← ints rest with
    | [i, r, w] => some (.setAccessors i.toNat r.toNat w.toNat)
    | _ => none
  | "IX" :: rest => do
    match ← ints rest with
    | [i, p] => some (.setIndexed i.toNat p.toNat)
    | _ => none
  | "DI" :: rest => do
    match ← ints rest with
    | [i, d] => some (.setDither i.toNat d)
    | _ => none
  | "DO" :: rest => do
    match ← ints rest with
    | [i, x, y] => some (.setDitherOffset i.toNat x y)
    | _ => none
  | "U" :: n :: rest => do
    let n ← n.toNat?
    let ids ← ints (rest.take n)
    some (.use (ids.map Int.toNat))
  | _ => none

def fmtStop (s : Stop) : String := s!"{s.x} {s.c.r} {s.c.g} {s.c.b} {s.c.a}"

def fmtImage (im : Image) : String :=
  let p := im.props
  let t := match p.transform with
    | none => "-"
    | some t => ",".intercalate ([t.m00, t.m01, t.m02, t.m10, t.m11, t.m12, t.m20, t.m21, t.m22].map toString)
  let fp := match p.filterParams with
    | none => "-"
    | some l => "[" ++ ",".intercalate (l.map toString) ++ "]"
  let clip := ",".intercalate (p.clipRegion.map fun b => s!"{b.x1}:{b.y1}:{b.x2}:{b.y2}")
  let am := match p.alphaMap with | none => "-1" | some j => toString j
  -- alpha_origin_x/y are not initialised by _pixman_image_init: only meaningful with an alpha map
  let ao := match p.alphaMap with | none => "-" | some _ => s!"{p.alphaOriginX}:{p.alphaOriginY}"
  let bitsPart := if im.cr.kind == .bits then
      s!"rf{p.readFunc} wf{p.writeFunc} ix{p.indexed} di{p.dither} do{p.ditherOffX}:{p.ditherOffY}"
    else "-"
  let der := if im.dirty then "#" else
    let h := match im.derived.hook with
      | .none => "-"
      | .bits a => if a then "a1" else "a0"
      | .gradient sb se => s!"g {fmtStop sb} {fmtStop se}"
    s!"# {im.derived.flags} {im.derived.code} {h}"
  s!"d{if im.dirty then 1 else 0} t{t} r{p.repeat_} f{p.filter} p{fp} n{p.nFilterParams} hc{if p.haveClip then 1 else 0} [{clip}] " ++
  s!"cc{p.clientClip} sc{p.clipSources} am{am} {ao} ac{im.alphaCount} ca{p.componentAlpha} {bitsPart} {der}"

def opTarget : Op → Nat
  | .setTransform i _ | .setRepeat i _ | .setFilter i _ _ _ | .setClipRegion i _ | .setHasClientClip i _
  | .setSourceClipping i _ | .setAlphaMap i _ _ _ | .setComponentAlpha i _ | .setAccessors i _ _
  | .setIndexed i _ | .setDither i _ | .setDitherOffset i _ _ => i
  | .use _ => 0

def observe (w : World) (op : Op) : String :=
  match op with
  | .use ids =>
    ",".intercalate (ids.map fun i =>
      let a := match (w i).props.alphaMap with
        | some j => s!" | {j}={fmtImage (w j)}"
        | none => ""
      s!"{i}={fmtImage (w i)}{a}")
  | .setAlphaMap i (some j) _ _ => s!"{fmtImage (w i)} | ac{(w j).alphaCount}"
  | op => fmtImage (w (opTarget op))

def runObs (w : World) : List Op → List String
  | [] => []
  | op :: ops => let w' := step w op; observe w' op :: runObs w' ops

def junkDerived : Derived := ⟨0xdeadbeef, 0xdead, .none⟩

def splitSegs (line : String) : List (List String) :=
  (line.trimAscii.toString.splitOn ";").map fun s => (s.splitOn " ").filter (· ≠ "")

def handleHist (segs : List (List String)) : String :=
  let creations := segs.filterMap fun s => match s with
    | "I" :: rest => some (parseCreation rest)
    | _ => none
  let opsegs := segs.filter fun s => match s with
    | "I" :: _ => false
    | "X" :: _ => false      -- harness-only data (pixel seeds, gradient geometry)
    | [] => false
    | _ => true
  match creations.mapM id, opsegs.mapM parseOp with
  | some crs, some ops =>
    let w := fresh (fun k => crs.getD k { kind := .solid }) (fun _ => junkDerived)
    ";".intercalate (runObs w ops)
  | _, _ => "bad-op"

/-! ### fast-path cache requests: `cache <opAny> <fmtAny> e1(9 ints)... ; L op sf sfl mf mfl df dfl ; ...` -/
open Pixman.Model.DispatchCache

def parseEntries : Nat → List Int → List Entry
  | 0, _ => []
  | n + 1, imp :: op :: sf :: sfl :: mf :: mfl :: df :: dfl :: fn :: rest =>
    ⟨imp.toNat, ⟨op.toNat, sf.toNat, sfl.toNat, mf.toNat, mfl.toNat, df.toNat, dfl.toNat⟩, fn.toNat⟩ :: parseEntries n rest
  | _, _ => []

def fmtLookup : Option (Nat × Nat) → String
  | some (imp, fn) => s!"{imp}:{fn}"
  | none => "none"

def handleCache (segs : List (List String)) : String :=
  match segs with
  | tbl :: lookups =>
    match ints tbl with
    | some (opAny :: fmtAny :: tv) =>
      let table := parseEntries tv.length tv
      let keys := lookups.filterMap fun s => match s with
        | "L" :: rest => match ints rest with
          | some [op, sf, sfl, mf, mfl, df, dfl] => some (⟨op.toNat, sf.toNat, sfl.toNat, mf.toNat, mfl.toNat, df.toNat, dfl.toNat⟩ : Key)
          | _ => none
        | _ => none
      ";".intercalate ((runLookups ⟨opAny.toNat, fmtAny.toNat⟩ table emptyCache keys).map fmtLookup)
    | _ => "bad-op"
  | [] => "bad-op"

def handle (line : String) : String :=
  match splitSegs line with
  | ["hist"] :: rest => handleHist rest
  | ("cache" :: tbl) :: rest => handleCache (tbl :: rest)
  | _ => "bad-op"

end Driver.ImageState

import Pixman.Model.Threads
/-! Line-protocol driver for the threads domain (C16).  One request per line, one reply per line.

    step <thread> <kind> <dst> <src> <srcShared> <srcDirty> <mask> <maskShared> <maskDirty> [| ...]

    (the white-box step lines written by `harness/threads.c exec … seq <steps_out>`; everything after
    `|` is the harness's observation and is ignored here).  `kind` is the harness request kind:
    0 composite, 1 fill, 2 fillrects, 3 region, 4 trapezoids (with a source when src ≥ 0), 5 glyphs,
    6 setter on the private source `src`, 7 temporary image (source → temp → destination), 8 erroneous call.

    Reply: `W <names> ok=<0|1>` — the source images in the model's write footprint of the request
    (`s<k>` private source k of the issuing thread, `S<k>` shared source k), and whether the request is
    within the property's discipline (`Req.ok`) when every shared source that is still dirty is NOT
    declared clean. -/
namespace Driver.Threads
open Pixman.Model.Threads

def privId (k : Nat) : Obj := 1000 + k
def dstId (d : Nat) : Obj := 100000 + d

structure Use where
  kind : Int      -- -1 none
  shared : Bool
  dirty : Bool

def Use.id (u : Use) : Obj := if u.shared then u.kind.toNat else privId u.kind.toNat

def mkReq (kind : Int) (dst : Int) (s m : Use) : Option Req :=
  let d := dstId dst.toNat
  match kind with
  | 0 => some (.composite d s.id (if m.kind < 0 then none else some m.id))
  | 1 => some (.fill d)
  | 2 => some (.fill d)
  | 3 => some (.regionOp 0 0 0)
  | 4 => some (if s.kind < 0 then .fill d else .composite d s.id none)
  | 5 => some (.glyphs 0 d s.id)
  | 6 => some (.setProp s.id 0)
  | 7 => some (.composite d s.id none)
  | 8 => some .badCall
  | _ => none

def locName : Loc → Option String
  | .imgDerived i | .imgProps i | .imgPixels i =>
      if i < 1000 then some s!"S{i}" else if i < 100000 then some s!"s{i - 1000}" else none
  | _ => none

def handle (line : String) : String :=
  let body := ((line.replace "\n" "").splitOn "|").headD ""
  let toks := (body.splitOn " ").filter (· ≠ "")
  match toks with
  | ["step", t, kind, dst, s, ss, sd, m, ms, md] =>
    match t.toNat?, kind.toInt?, dst.toInt?, s.toInt?, m.toInt? with
    | some t, some kind, some dst, some s, some m =>
      let su : Use := ⟨s, ss == "1", sd == "1"⟩
      let mu : Use := ⟨m, ms == "1", md == "1"⟩
      -- declared clean: shared sources that are not dirty
      let clean : Clean := fun i =>
        (su.kind ≥ 0 && su.shared && !su.dirty && i == su.id) || (mu.kind ≥ 0 && mu.shared && !mu.dirty && i == mu.id)
      let own : Obj → Option Tid := fun i => if i < 1000 then none else some t
      match mkReq kind dst su mu with
      | none => "ERR kind"
      | some r =>
        let names := ((r.writes clean t).filterMap locName).eraseDups
        let ok := r.ok own (fun _ => some t) (fun _ => some t) clean t
        "W" ++ String.join (names.map (" " ++ ·)) ++ (if ok then " ok=1" else " ok=0")
    | _, _, _, _, _ => "ERR parse"
  | _ => "ERR tokens"

end Driver.Threads

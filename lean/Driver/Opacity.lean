import Pixman.Model.Opacity
import Driver.Matrix
/-! Line-protocol driver for the `opacity` domain (C09): the decision of `pixman_image_composite32`.

Request:  `op dw dh dx dy w h sx sy mx my IMG(src) IMG(mask) IMG(dest) [# harness-only tokens]`
  IMG = `kind fmt w h solidA radialA rep filter nparams p0 p1 ca amfmt T m00 .. m22 nstops a1 .. an`
  kind: -1 no image (mask only; the other fields are still present), 0 BITS, 1 LINEAR, 2 CONICAL,
  3 RADIAL, 4 SOLID; `amfmt` -1 = no alpha map; `T` 0 = `common.transform == NULL`.
Reply:    `run op' sfmt sflags mfmt mflags dfmt dflags elided` (the arguments of
  `_pixman_implementation_lookup_composite`), `out` (nothing drawn) or `abort`. -/
namespace Driver.Opacity
open Pixman.Model Pixman.Model.Opacity Driver.Matrix

def nat : P Nat := do let x ← int; if 0 ≤ x then pure x.toNat else failure

def stops : Nat → P (List ImageState.Stop)
  | 0 => pure []
  | n + 1 => do
    let a ← nat
    let r ← stops n
    pure (⟨0, ⟨0, 0, 0, a⟩⟩ :: r)

def image : P (Option Img) := do
  let kind ← int
  let fmt ← nat; let w ← i32; let h ← i32; let solidA ← nat; let radialA ← int
  let rep ← i32; let filter ← i32; let np ← nat; let p0 ← i32; let p1 ← i32
  let ca ← i32; let am ← int
  let hasT ← int
  let t : ImageState.Transform := ⟨← i32, ← i32, ← i32, ← i32, ← i32, ← i32, ← i32, ← i32, ← i32⟩
  let n ← nat
  if n > 64 then failure
  let st ← stops n
  let k : Option ImageState.Kind :=
    if kind == 0 then some .bits else if kind == 1 then some .linear else if kind == 2 then some .conical
    else if kind == 3 then some .radial else if kind == 4 then some .solid else none
  match k with
  | none => if kind == -1 then pure none else failure
  | some k =>
    pure (some
      { cr := { kind := k, format := fmt, width := w, height := h, solidAlpha := solidA, radialA := radialA, stops := st },
        props := { transform := if hasT != 0 then some t else none, repeat_ := rep, filter := filter,
                   filterParams := if np == 0 then none else some [p0, p1], nFilterParams := np,
                   componentAlpha := ca },
        amFormat := if am < 0 then none else some am.toNat })

def request : P String := do
  let op ← nat
  let dw ← i32; let dh ← i32; let dx ← i32; let dy ← i32; let w ← i32; let h ← i32
  let sx ← i32; let sy ← i32; let mx ← i32; let my ← i32
  let src ← image; let mask ← image; let dest ← image
  match src, dest with
  | some src, some dest =>
    match regionExtents dw dh dx dy w h with
    | none => pure "out"
    | some e =>
      let r : Request := ⟨op, src, mask, dest, shift e (sx - dx) (sy - dy), shift e (mx - dx) (my - dy)⟩
      match composite32 r with
      | .abort => pure "abort"
      | .out => pure "out"
      | .run d => pure s!"run {d.op} {d.srcFormat} {d.srcFlags} {d.maskFormat} {d.maskFlags} {d.destFormat} {d.destFlags} {fmtB d.maskElided}"
  | _, _ => failure

def handle (line : String) : String :=
  let toks := (line.trimAscii.toString.splitOn " ").filter (· ≠ "")
  let toks := toks.takeWhile (· ≠ "#")
  match request toks with
  | some (s, []) => s
  | _ => "bad-request"

end Driver.Opacity

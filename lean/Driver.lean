import Driver.Region

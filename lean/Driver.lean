import Driver.Region
import Driver.Glyph

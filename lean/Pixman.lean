import Pixman.Model.Region
import Pixman.Spec.PointSet
import Pixman.Spec.Canon
import Pixman.Props.C05
import Pixman.Props.C06
import Pixman.Props.C07
import Pixman.Model.Glyph
import Pixman.Props.C17

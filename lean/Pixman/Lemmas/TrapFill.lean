import Pixman.Model.Trap
import Pixman.Lemmas.Trap
import Pixman.Lemmas.TrapRow
/-! Lemmas for C12, R3 continued: the span-fill bookkeeping of `rasterize_edges_8`
    (`row8Fill` / `flushFill` inside `edgesLoop8`) equals the naive per-sub-row loop (`row8` inside
    `edgesLoop8Naive`).  The property theorems are restated in `Pixman/Props/C12.lean`. -/
namespace Pixman.Lemmas.TrapFill
open Pixman.Trap
open Pixman.Gen.SampleGrid
open Pixman.Lemmas.Trap
open Pixman.Lemmas.TrapRow

/-! ### pointwise form of the array operations -/

theorem addSaturate8_get (row : Array Nat) (s v len i : Nat) (h : i < (addSaturate8 row s v len).size) :
    (addSaturate8 row s v len)[i] =
      if s ≤ i ∧ i < s + len then min 255 (row[i]'(by rw [addSaturate8_size] at h; exact h) + v)
      else row[i]'(by rw [addSaturate8_size] at h; exact h) := by
  rw [addSaturate8_getElem row s v len i (by rw [addSaturate8_size] at h; exact h)]
  simp only [clip255_eq]

theorem addSat8I_size (row : Array Nat) (s v l : Int) : (addSat8I row s v l).size = row.size := by
  simp only [addSat8I, addSaturate8_size]

theorem addSat8I_get (row : Array Nat) (s v l : Int) (i : Nat) (h : i < (addSat8I row s v l).size) :
    (addSat8I row s v l)[i] =
      if s.toNat ≤ i ∧ i < s.toNat + l.toNat then min 255 (row[i]'(by rw [addSat8I_size] at h; exact h) + v.toNat)
      else row[i]'(by rw [addSat8I_size] at h; exact h) := by
  simp only [addSat8I, addSaturate8_get]

/-- the row with the pending fill applied: what the row would be if the fill were flushed now -/
def applyFill (row : Array Nat) (fs : Fill) : Array Nat :=
  addSat8I row fs.start (fs.size * nXFrac 8) (fs.stop - fs.start)

theorem applyFill_size (row : Array Nat) (fs : Fill) : (applyFill row fs).size = row.size := by
  simp only [applyFill, addSat8I_size]

/-- `MEMSET_WRAPPED (…, 0xff, …)` for `fill_size == N_Y_FRAC (8)` is the saturating addition of
    `N_Y_FRAC (8) · N_X_FRAC (8) = 255`: the flush is `applyFill` in both branches -/
theorem flushFill_eq (row : Array Nat) (fs : Fill) : flushFill row fs = applyFill row fs := by
  simp only [flushFill, applyFill, addSat8I, nYFrac, nXFrac, bne_iff_ne, beq_iff_eq]
  by_cases h : fs.start = fs.stop
  · simp only [h, ne_eq, not_true_eq_false, if_false, Int.sub_self, Int.toNat_zero, addSaturate8]
  · simp only [ne_eq, h, not_false_eq_true, if_true]
    by_cases h2 : fs.size = 15
    · simp only [h2, if_true]; rfl
    · simp only [h2, if_false]

/-- invariant of the span-fill state -/
def FillInv (fs : Fill) : Prop :=
  (fs.start = -1 ∧ fs.stop = -1 ∧ fs.size = 0) ∨ (0 ≤ fs.start ∧ fs.start ≤ fs.stop ∧ 0 ≤ fs.size)

theorem fillInv_init : FillInv {} := Or.inl ⟨rfl, rfl, rfl⟩

/-- the part of `row8Fill` after the two clamps -/
def row8FillCore (row : Array Nat) (lx rx : Int) (fs : Fill) : Array Nat × Fill :=
  if rx > lx then
    let lxi := fixedToInt lx
    let rxi := fixedToInt rx
    let lxs := renderSamplesX lx 8
    let rxs := renderSamplesX rx 8
    if lxi == rxi then
      (row.modify lxi.toNat fun o => clip255 (o + (rxs - lxs).toNat), fs)
    else
      let row := row.modify lxi.toNat fun o => clip255 (o + (nXFrac 8 - lxs).toNat)
      let lxi := lxi + 1
      let (row, fs) :=
        if rxi - lxi > 4 then
          if fs.start < 0 then
            (row, { start := lxi, stop := rxi, size := fs.size + 1 })
          else if lxi ≥ fs.stop || rxi < fs.start then
            (addSat8I row fs.start (fs.size * nXFrac 8) (fs.stop - fs.start),
             { start := lxi, stop := rxi, size := 1 })
          else
            let (row, fstart) :=
              if lxi > fs.start then
                (addSat8I row fs.start (fs.size * nXFrac 8) (lxi - fs.start), lxi)
              else if lxi < fs.start then
                (addSat8I row lxi (nXFrac 8) (fs.start - lxi), fs.start)
              else (row, fs.start)
            let (row, fstop) :=
              if rxi < fs.stop then
                (addSat8I row rxi (fs.size * nXFrac 8) (fs.stop - rxi), rxi)
              else if fs.stop < rxi then
                (addSat8I row fs.stop (nXFrac 8) (rxi - fs.stop), fs.stop)
              else (row, fs.stop)
            (row, { start := fstart, stop := fstop, size := fs.size + 1 })
        else
          (addSat8I row lxi (nXFrac 8) (rxi - lxi), fs)
      (row.modify rxi.toNat fun o => clip255 (o + rxs.toNat), fs)
  else (row, fs)

theorem row8Fill_eq_core (row : Array Nat) (width lx rx : Int) (fs : Fill) :
    row8Fill row width lx rx fs = row8FillCore row (if lx < 0 then 0 else lx)
      (if fixedToInt rx ≥ width then wrap32 (intToFixed width - 1) else rx) fs := rfl

/-- the span-fill decision for the interior pixels `a … b-1` of one sub-row span -/
def fillMid (row : Array Nat) (lxi rxi : Int) (fs : Fill) : Array Nat × Fill :=
        if rxi - lxi > 4 then
          if fs.start < 0 then
            (row, { start := lxi, stop := rxi, size := fs.size + 1 })
          else if lxi ≥ fs.stop || rxi < fs.start then
            (addSat8I row fs.start (fs.size * nXFrac 8) (fs.stop - fs.start),
             { start := lxi, stop := rxi, size := 1 })
          else
            let (row, fstart) :=
              if lxi > fs.start then
                (addSat8I row fs.start (fs.size * nXFrac 8) (lxi - fs.start), lxi)
              else if lxi < fs.start then
                (addSat8I row lxi (nXFrac 8) (fs.start - lxi), fs.start)
              else (row, fs.start)
            let (row, fstop) :=
              if rxi < fs.stop then
                (addSat8I row rxi (fs.size * nXFrac 8) (fs.stop - rxi), rxi)
              else if fs.stop < rxi then
                (addSat8I row fs.stop (nXFrac 8) (rxi - fs.stop), fs.stop)
              else (row, fs.stop)
            (row, { start := fstart, stop := fstop, size := fs.size + 1 })
        else
          (addSat8I row lxi (nXFrac 8) (rxi - lxi), fs)

theorem row8FillCore_eq (row : Array Nat) (lx rx : Int) (fs : Fill) :
    row8FillCore row lx rx fs =
      if rx > lx then
        if fixedToInt lx == fixedToInt rx then
          (row.modify (fixedToInt lx).toNat fun o => clip255 (o + (renderSamplesX rx 8 - renderSamplesX lx 8).toNat), fs)
        else
          let p := fillMid (row.modify (fixedToInt lx).toNat fun o => clip255 (o + (nXFrac 8 - renderSamplesX lx 8).toNat))
                    (fixedToInt lx + 1) (fixedToInt rx) fs
          (p.1.modify (fixedToInt rx).toNat fun o => clip255 (o + (renderSamplesX rx 8).toNat), p.2)
      else (row, fs) := rfl

theorem fillMid_size (R : Array Nat) (a b : Int) (fs : Fill) : (fillMid R a b fs).1.size = R.size := by
  simp only [fillMid]
  repeat' split
  all_goals simp only [addSat8I_size]

theorem fillMid_inv (R : Array Nat) (a b : Int) (fs : Fill) (ha : 0 ≤ a) (hinv : FillInv fs) :
    FillInv (fillMid R a b fs).2 := by
  simp only [fillMid, FillInv] at *
  repeat' split
  all_goals simp only [ge_iff_le, gt_iff_lt, Bool.or_eq_true, decide_eq_true_eq] at *
  all_goals omega

theorem fillMid_spec (R : Array Nat) (a b : Int) (fs : Fill) (ha : 0 ≤ a) (hinv : FillInv fs)
    (i : Nat) (hi : i < R.size) :
    (applyFill (fillMid R a b fs).1 (fillMid R a b fs).2)[i]'(by rw [applyFill_size, fillMid_size]; exact hi) =
    (addSat8I (applyFill R fs) a (nXFrac 8) (b - a))[i]'(by rw [addSat8I_size, applyFill_size]; exact hi) := by
  obtain ⟨a', rfl⟩ := Int.eq_ofNat_of_zero_le ha
  simp only [FillInv] at hinv
  rcases hinv with ⟨h1, h2, h3⟩ | ⟨h1, h2, h3⟩
  · obtain ⟨s, e, z⟩ := fs
    simp only at h1 h2 h3
    subst h1 h2 h3
    simp only [fillMid, applyFill, nXFrac]
    repeat' split
    all_goals simp only [addSat8I_get] at *
    all_goals grind
  · obtain ⟨s, e, z⟩ := fs
    simp only at h1 h2 h3
    obtain ⟨s', rfl⟩ := Int.eq_ofNat_of_zero_le h1
    obtain ⟨e', rfl⟩ := Int.eq_ofNat_of_zero_le (Int.le_trans h1 h2)
    obtain ⟨z', rfl⟩ := Int.eq_ofNat_of_zero_le h3
    simp only [fillMid, applyFill, nXFrac]
    repeat' split
    all_goals simp only [addSat8I_get] at *
    all_goals grind

theorem fillMid_apply (R : Array Nat) (a b : Int) (fs : Fill) (ha : 0 ≤ a) (hinv : FillInv fs) :
    applyFill (fillMid R a b fs).1 (fillMid R a b fs).2 = addSat8I (applyFill R fs) a (nXFrac 8) (b - a) :=
  Array.ext (by rw [applyFill_size, fillMid_size, addSat8I_size, applyFill_size])
    (fun i h1 _ => fillMid_spec R a b fs ha hinv i (by rw [applyFill_size, fillMid_size] at h1; exact h1))

/-- the pending fill commutes with the edge-pixel updates -/
theorem applyFill_modify (X : Array Nat) (k v : Nat) (fs : Fill) :
    applyFill (X.modify k fun o => clip255 (o + v)) fs = (applyFill X fs).modify k fun o => clip255 (o + v) := by
  apply Array.ext
  · simp only [applyFill_size, Array.size_modify]
  · intro i h1 h2
    simp only [applyFill, addSat8I_get, Array.getElem_modify, clip255_eq]
    grind

/-- one sub-row: the row with the pending fill applied evolves exactly like the naive row -/
theorem row8FillCore_step (row : Array Nat) (lx rx : Int) (fs : Fill) (hlx : 0 ≤ lx) (hinv : FillInv fs) :
    applyFill (row8FillCore row lx rx fs).1 (row8FillCore row lx rx fs).2 = row8Core (applyFill row fs) lx rx ∧
    FillInv (row8FillCore row lx rx fs).2 := by
  rw [row8FillCore_eq]
  simp only [row8Core, beq_iff_eq]
  have ha0 : 0 ≤ fixedToInt lx := Int.ediv_nonneg hlx (by decide)
  by_cases hgt : rx > lx
  · simp only [hgt, if_true]
    by_cases heq : fixedToInt lx = fixedToInt rx
    · simp only [heq, if_true]
      exact ⟨applyFill_modify _ _ _ _, hinv⟩
    · simp only [heq, if_false]
      refine ⟨?_, fillMid_inv _ _ _ _ (by omega) hinv⟩
      rw [applyFill_modify, fillMid_apply _ _ _ _ (by omega) hinv, applyFill_modify]
      have : (fixedToInt lx + 1).toNat = (fixedToInt lx).toNat + 1 := by omega
      simp only [addSat8I, this]
  · simp only [hgt, if_false]
    exact ⟨trivial, hinv⟩

theorem row8Fill_step (row : Array Nat) (width lx rx : Int) (fs : Fill) (hinv : FillInv fs) :
    applyFill (row8Fill row width lx rx fs).1 (row8Fill row width lx rx fs).2 = row8 (applyFill row fs) width lx rx ∧
    FillInv (row8Fill row width lx rx fs).2 := by
  rw [row8Fill_eq_core, row8_eq_core]
  exact row8FillCore_step _ _ _ _ (by split <;> omega) hinv

/-- the span-fill loop over the sub-row spans of one pixel row -/
def fillSpans (width : Int) (spans : List (Int × Int)) (st : Array Nat × Fill) : Array Nat × Fill :=
  spans.foldl (fun st sp => row8Fill st.1 width sp.1 sp.2 st.2) st

/-- the naive loop over the same spans -/
def naiveSpans (width : Int) (spans : List (Int × Int)) (row : Array Nat) : Array Nat :=
  spans.foldl (fun row sp => row8 row width sp.1 sp.2) row

theorem fillSpans_apply (width : Int) (spans : List (Int × Int)) (st : Array Nat × Fill) (hinv : FillInv st.2) :
    applyFill (fillSpans width spans st).1 (fillSpans width spans st).2 = naiveSpans width spans (applyFill st.1 st.2) ∧
    FillInv (fillSpans width spans st).2 := by
  induction spans generalizing st with
  | nil => exact ⟨rfl, hinv⟩
  | cons sp rest ih =>
    simp only [fillSpans, naiveSpans, List.foldl_cons] at ih ⊢
    obtain ⟨h1, h2⟩ := row8Fill_step st.1 width sp.1 sp.2 st.2 hinv
    have := ih (row8Fill st.1 width sp.1 sp.2 st.2) h2
    rw [h1] at this
    exact this

theorem applyFill_init (row : Array Nat) : applyFill row {} = row := by
  simp only [applyFill, addSat8I]
  rfl

/-- span-fill loop + flush = naive per-sub-row accumulation, for every sequence of sub-row spans -/
theorem fillSpans_flush (row : Array Nat) (width : Int) (spans : List (Int × Int)) :
    flushFill (fillSpans width spans (row, {})).1 (fillSpans width spans (row, {})).2 = naiveSpans width spans row := by
  rw [flushFill_eq, (fillSpans_apply width spans (row, {}) fillInv_init).1, applyFill_init]

end Pixman.Lemmas.TrapFill

import Pixman.Model.Trap
import Pixman.Spec.SampleGrid
/-! Helper definitions and lemmas for C12: fixed-point div/mod algebra, `wrap32` congruences, the
    exact-representation invariant of an edge state and its preservation by every model function
    of the edge walker.  The property theorems built from these are in `Pixman/Props/C12.lean`. -/
namespace Pixman.Lemmas.Trap
open Pixman.Trap
open Pixman.Gen.SampleGrid
open Pixman.Spec.SampleGrid

theorem emod_pixel (r c : Int) (h0 : 0 ≤ c) (h1 : c < 65536) : (r * 65536 + c) % 65536 = c := by
  have : r * 65536 + c = c + 65536 * r := by omega
  rw [this, Int.add_mul_emod_self_left]; exact Int.emod_eq_of_lt h0 h1

/-- `wrap32` is the identity on the `int32_t` range -/
theorem wrap32_id (v : Int) (h0 : -2147483648 ≤ v) (h1 : v ≤ 2147483647) : wrap32 v = v := by
  unfold wrap32; omega

theorem wrap32_add_wrap (a b : Int) : wrap32 (a + wrap32 b) = wrap32 (a + b) := by unfold wrap32; omega
theorem wrap32_sub_wrap (a b : Int) : wrap32 (a - wrap32 b) = wrap32 (a - b) := by unfold wrap32; omega
theorem wrap32_wrap_add (a b : Int) : wrap32 (wrap32 a + b) = wrap32 (a + b) := by unfold wrap32; omega
theorem wrap32_wrap (a : Int) : wrap32 (wrap32 a) = wrap32 a := by unfold wrap32; omega
theorem wrap32_add_mul (a k : Int) : wrap32 (a + 4294967296 * k) = wrap32 a := by
  unfold wrap32
  have : a + 4294967296 * k + 2147483648 = (a + 2147483648) + 4294967296 * k := by omega
  rw [this, Int.add_mul_emod_self_left]
theorem wrap32_wrap_mul (q d : Int) : wrap32 (wrap32 q * d) = wrap32 (q * d) := by
  have h : ∃ k, wrap32 q = q + 4294967296 * k := ⟨-((q + 2147483648) / 4294967296), by unfold wrap32; omega⟩
  obtain ⟨k, hk⟩ := h
  rw [hk, Int.add_mul, Int.mul_assoc, wrap32_add_mul]

/-- `N = X·dy` for the exact abscissa `X` represented by the edge state -/
structure EdgeInv (e : Edge) (N : Int) : Prop where
  dy_pos : 0 < e.dy
  dy_lt : e.dy < 2147483648
  sign : e.signdx = 1 ∨ e.signdx = -1
  e_le : e.e ≤ 0
  pos : e.signdx = 1 → e.x * e.dy + e.e + e.dy = N ∧ -e.dy ≤ e.e
  neg : e.signdx = -1 → e.x * e.dy - e.e = N ∧ -e.dy < e.e

/-- the common shape of `RENDER_EDGE_STEP_SMALL/BIG` -/
def stepBy (e : Edge) (sx dxs : Int) : Edge :=
  let x := wrap32 (e.x + sx)
  let ee := wrap32 (e.e + dxs)
  if ee > 0 then { e with e := wrap32 (ee - e.dy), x := wrap32 (x + e.signdx) }
  else { e with e := ee, x := x }

theorem stepSmall_eq (e : Edge) : stepSmall e = stepBy e e.stepxSmall e.dxSmall := rfl
theorem stepBig_eq (e : Edge) : stepBig e = stepBy e e.stepxBig e.dxBig := rfl

/-- from `N = x·dy + r`, `0 ≤ r ≤ dy`: `x` is `N / dy` or `N / dy - 1` -/
theorem quot_bounds (x dy N r : Int) (hdy : 0 < dy) (h : x * dy + r = N) (h0 : 0 ≤ r) (h1 : r ≤ dy) :
    N / dy - 1 ≤ x ∧ x ≤ N / dy := by
  constructor
  · have : N / dy ≤ x + 1 := by
      have h2 : N ≤ (x + 1) * dy := by rw [Int.add_mul]; omega
      calc N / dy ≤ ((x + 1) * dy) / dy := Int.ediv_le_ediv hdy h2
        _ = x + 1 := Int.mul_ediv_cancel _ (Int.ne_of_gt hdy)
    omega
  · have h2 : x * dy ≤ N := by omega
    exact (Int.le_ediv_iff_mul_le hdy).mpr h2

theorem stepBy_inv (e : Edge) (N D sx dxs : Int) (hI : EdgeInv e N)
    (hs : sx * e.dy + e.signdx * dxs = D) (h0 : 0 ≤ dxs) (h1 : dxs < e.dy)
    (hfit : -2147483648 ≤ (N + D) / e.dy - 1 ∧ (N + D) / e.dy ≤ 2147483647) :
    EdgeInv (stepBy e sx dxs) (N + D) := by
  obtain ⟨hdy, hdy2, hsign, hele, hpos, hneg⟩ := hI
  have hee : wrap32 (e.e + dxs) = e.e + dxs := by
    apply wrap32_id <;> rcases hsign with h | h
    · have := (hpos h).2; omega
    · have := (hneg h).2; omega
    · omega
    · omega
  simp only [stepBy, hee]
  split
  · -- bump
    rename_i hgt
    have he' : wrap32 (e.e + dxs - e.dy) = e.e + dxs - e.dy := by apply wrap32_id <;> omega
    have hx' : wrap32 (wrap32 (e.x + sx) + e.signdx) = wrap32 (e.x + sx + e.signdx) := wrap32_wrap_add _ _
    rw [he', hx']
    have hxr : -2147483648 ≤ e.x + sx + e.signdx ∧ e.x + sx + e.signdx ≤ 2147483647 := by
      rcases hsign with h | h
      · have h3 := (hpos h).1
        have := quot_bounds (e.x + sx + e.signdx) e.dy (N + D) (e.e + dxs - e.dy + e.dy) hdy (by rw [h] at hs ⊢; grind) (by omega) (by omega)
        omega
      · have h3 := (hneg h).1
        have := quot_bounds (e.x + sx + e.signdx) e.dy (N + D) (-(e.e + dxs - e.dy)) hdy (by rw [h] at hs ⊢; grind) (by omega) (by omega)
        omega
    rw [wrap32_id _ hxr.1 hxr.2]
    refine ⟨hdy, hdy2, hsign, by simp only; omega, ?_, ?_⟩
    · intro h; simp only at h ⊢
      have h3 := (hpos h).1
      refine ⟨by rw [h] at hs ⊢; grind, by omega⟩
    · intro h; simp only at h ⊢
      have h3 := (hneg h).1
      refine ⟨by rw [h] at hs ⊢; grind, by omega⟩
  · rename_i hle
    have hxr : -2147483648 ≤ e.x + sx ∧ e.x + sx ≤ 2147483647 := by
      rcases hsign with h | h
      · have h3 := (hpos h).1; have h4 := (hpos h).2
        have := quot_bounds (e.x + sx) e.dy (N + D) (e.e + dxs + e.dy) hdy (by rw [h] at hs; grind) (by omega) (by omega)
        omega
      · have h3 := (hneg h).1; have h4 := (hneg h).2
        have := quot_bounds (e.x + sx) e.dy (N + D) (-(e.e + dxs)) hdy (by rw [h] at hs; grind) (by omega) (by omega)
        omega
    rw [wrap32_id _ hxr.1 hxr.2]
    refine ⟨hdy, hdy2, hsign, by simp only; omega, ?_, ?_⟩
    · intro h; simp only at h ⊢
      have h3 := (hpos h).1; have h4 := (hpos h).2
      refine ⟨by rw [h] at hs; grind, by omega⟩
    · intro h; simp only at h ⊢
      have h3 := (hneg h).1; have h4 := (hneg h).2
      refine ⟨by rw [h] at hs; grind, by omega⟩

theorem wrap32_sub_wrap_mul (a q d : Int) : wrap32 (a - wrap32 q * d) = wrap32 (a - q * d) := by
  have h : ∃ k, wrap32 q = q + 4294967296 * k := ⟨-((q + 2147483648) / 4294967296), by unfold wrap32; omega⟩
  obtain ⟨k, hk⟩ := h
  have : a - (q + 4294967296 * k) * d = (a - q * d) + 4294967296 * (-(k * d)) := by grind
  rw [hk, this, wrap32_add_mul]
theorem wrap32_add_wrap_mul (a q d : Int) : wrap32 (a + wrap32 q * d) = wrap32 (a + q * d) := by
  have h : ∃ k, wrap32 q = q + 4294967296 * k := ⟨-((q + 2147483648) / 4294967296), by unfold wrap32; omega⟩
  obtain ⟨k, hk⟩ := h
  have : a + (q + 4294967296 * k) * d = (a + q * d) + 4294967296 * (k * d) := by grind
  rw [hk, this, wrap32_add_mul]

theorem x_norm_add (x p q s : Int) :
    wrap32 (wrap32 (x + wrap32 p) + wrap32 (wrap32 q * s)) = wrap32 (x + p + q * s) := by
  rw [wrap32_add_wrap, wrap32_wrap_add]
  have h1 : x + wrap32 p + wrap32 q * s = (x + wrap32 q * s) + wrap32 p := by omega
  rw [h1, wrap32_add_wrap]
  have h2 : x + wrap32 q * s + p = (x + p) + wrap32 q * s := by omega
  rw [h2, wrap32_add_wrap_mul]
theorem x_norm_sub (x p q s : Int) :
    wrap32 (wrap32 (x + wrap32 p) - wrap32 (wrap32 q * s)) = wrap32 (x + p - q * s) := by
  rw [wrap32_sub_wrap]
  have h0 : wrap32 (x + wrap32 p) - wrap32 q * s = -(wrap32 q * s) + wrap32 (x + wrap32 p) := by omega
  rw [h0, wrap32_add_wrap]
  have h1 : -(wrap32 q * s) + (x + wrap32 p) = (x - wrap32 q * s) + wrap32 p := by omega
  rw [h1, wrap32_add_wrap]
  have h2 : x - wrap32 q * s + p = (x + p) - wrap32 q * s := by omega
  rw [h2, wrap32_sub_wrap_mul]

/-- quotient and remainder facts with the product written `q * d` -/
theorem ediv_facts (a d : Int) (hd : 0 < d) : (a / d) * d ≤ a ∧ a < (a / d) * d + d := by
  have h1 := @Int.mul_ediv_self_le a d (Int.ne_of_gt hd)
  have h2 := @Int.lt_mul_ediv_self_add a d hd
  rw [Int.mul_comm] at h1 h2; exact ⟨h1, h2⟩

/-- The multiple of `dy` of the abscissa the state represents after `pixman_edge_step (e, n)`.
    `pixman_edge_step` leaves `e->e` unwritten when no carry into `x` happens (the inner `if`s):
    the fraction `n·dx/dy` accumulated by the step is then lost, and only `n·stepx` is added. -/
def stepTarget (e : Edge) (N DX n : Int) : Int :=
  if n ≥ 0 then
    if e.e + n * e.dx > 0 then N + n * DX else N + n * e.stepx * e.dy
  else
    if e.e + n * e.dx ≤ -e.dy then N + n * DX else N + n * e.stepx * e.dy

theorem edgeStep_inv (e : Edge) (N DX n : Int) (hI : EdgeInv e N)
    (hs : e.stepx * e.dy + e.signdx * e.dx = DX) (hdx0 : 0 ≤ e.dx) (_hdx1 : e.dx < e.dy)
    (hfit : -2147483648 ≤ stepTarget e N DX n / e.dy - 1 ∧ stepTarget e N DX n / e.dy ≤ 2147483647) :
    EdgeInv (edgeStep e n) (stepTarget e N DX n) := by
  obtain ⟨hdy, hdy2, hsign, hele, hpos, hneg⟩ := hI
  have hlow : -e.dy ≤ e.e := by
    rcases hsign with h | h
    · exact (hpos h).2
    · have := (hneg h).2; omega
  simp only [edgeStep, stepTarget] at hfit ⊢
  by_cases hn : n ≥ 0
  · have hnd : 0 ≤ n * e.dx := Int.mul_nonneg hn hdx0
    simp only [hn, if_true] at hfit ⊢
    by_cases hgt : e.e + n * e.dx > 0
    · simp only [hgt, if_true] at hfit ⊢
      generalize hne : e.e + n * e.dx = ne at *
      rw [Int.tdiv_eq_ediv_of_nonneg (by omega)]
      generalize hq : (ne + e.dy - 1) / e.dy = q
      have hq' := ediv_facts (ne + e.dy - 1) e.dy hdy
      rw [hq] at hq'
      rw [wrap32_sub_wrap_mul, wrap32_id (ne - q * e.dy) (by omega) (by omega), x_norm_add]
      rcases hsign with h | h
      · rw [h, Int.mul_one]
        have h3 := (hpos h).1
        have hinv : (e.x + n * e.stepx + q) * e.dy + (ne - q * e.dy) + e.dy = N + n * DX := by
          rw [h] at hs; rw [← hne]; grind
        have hb := quot_bounds (e.x + n * e.stepx + q) e.dy (N + n * DX) (ne - q * e.dy + e.dy) hdy (by omega) (by omega) (by omega)
        rw [wrap32_id _ (by omega) (by omega)]
        exact ⟨hdy, hdy2, Or.inl rfl, by simp only; omega, fun _ => ⟨hinv, by simp only; omega⟩, fun h' => by simp only at h'; omega⟩
      · rw [h, Int.mul_neg, Int.mul_one]
        have h3 := (hneg h).1
        have hinv : (e.x + n * e.stepx + -q) * e.dy - (ne - q * e.dy) = N + n * DX := by
          rw [h] at hs; rw [← hne]; grind
        have hb := quot_bounds (e.x + n * e.stepx + -q) e.dy (N + n * DX) (-(ne - q * e.dy)) hdy (by omega) (by omega) (by omega)
        rw [wrap32_id _ (by omega) (by omega)]
        exact ⟨hdy, hdy2, Or.inr rfl, by simp only; omega, fun h' => by simp only at h'; omega, fun _ => ⟨hinv, by simp only; omega⟩⟩
    · simp only [hgt, if_false] at hfit ⊢
      rw [wrap32_add_wrap]
      rcases hsign with h | h
      · have h3 := (hpos h).1
        have hinv : (e.x + n * e.stepx) * e.dy + e.e + e.dy = N + n * e.stepx * e.dy := by grind
        have hb := quot_bounds (e.x + n * e.stepx) e.dy (N + n * e.stepx * e.dy) (e.e + e.dy) hdy (by omega) (by omega) (by omega)
        rw [wrap32_id _ (by omega) (by omega)]
        exact ⟨hdy, hdy2, Or.inl h, hele, fun _ => ⟨hinv, hlow⟩, fun h' => by simp only at h'; omega⟩
      · have h3 := (hneg h).1; have h4 := (hneg h).2
        have hinv : (e.x + n * e.stepx) * e.dy - e.e = N + n * e.stepx * e.dy := by grind
        have hb := quot_bounds (e.x + n * e.stepx) e.dy (N + n * e.stepx * e.dy) (-e.e) hdy (by omega) (by omega) (by omega)
        rw [wrap32_id _ (by omega) (by omega)]
        exact ⟨hdy, hdy2, Or.inr h, hele, fun h' => by simp only at h'; omega, fun _ => ⟨hinv, h4⟩⟩
  · have hn' : n < 0 := by omega
    simp only [hn, if_false] at hfit ⊢
    by_cases hle : e.e + n * e.dx ≤ -e.dy
    · simp only [hle, if_true] at hfit ⊢
      generalize hne : e.e + n * e.dx = ne at *
      rw [Int.tdiv_eq_ediv_of_nonneg (by omega)]
      generalize hq : (-ne) / e.dy = q
      have hq' := ediv_facts (-ne) e.dy hdy
      rw [hq] at hq'
      rw [wrap32_add_wrap_mul, wrap32_id (ne + q * e.dy) (by omega) (by omega), x_norm_sub]
      rcases hsign with h | h
      · rw [h, Int.mul_one]
        have h3 := (hpos h).1
        have hinv : (e.x + n * e.stepx - q) * e.dy + (ne + q * e.dy) + e.dy = N + n * DX := by
          rw [h] at hs; rw [← hne]; grind
        have hb := quot_bounds (e.x + n * e.stepx - q) e.dy (N + n * DX) (ne + q * e.dy + e.dy) hdy (by omega) (by omega) (by omega)
        rw [wrap32_id _ (by omega) (by omega)]
        exact ⟨hdy, hdy2, Or.inl rfl, by simp only; omega, fun _ => ⟨hinv, by simp only; omega⟩, fun h' => by simp only at h'; omega⟩
      · rw [h, Int.mul_neg, Int.mul_one]
        have h3 := (hneg h).1
        have hinv : (e.x + n * e.stepx - -q) * e.dy - (ne + q * e.dy) = N + n * DX := by
          rw [h] at hs; rw [← hne]; grind
        have hb := quot_bounds (e.x + n * e.stepx - -q) e.dy (N + n * DX) (-(ne + q * e.dy)) hdy (by omega) (by omega) (by omega)
        rw [wrap32_id _ (by omega) (by omega)]
        exact ⟨hdy, hdy2, Or.inr rfl, by simp only; omega, fun h' => by simp only at h'; omega, fun _ => ⟨hinv, by simp only; omega⟩⟩
    · simp only [hle, if_false] at hfit ⊢
      rw [wrap32_add_wrap]
      rcases hsign with h | h
      · have h3 := (hpos h).1
        have hinv : (e.x + n * e.stepx) * e.dy + e.e + e.dy = N + n * e.stepx * e.dy := by grind
        have hb := quot_bounds (e.x + n * e.stepx) e.dy (N + n * e.stepx * e.dy) (e.e + e.dy) hdy (by omega) (by omega) (by omega)
        rw [wrap32_id _ (by omega) (by omega)]
        exact ⟨hdy, hdy2, Or.inl h, hele, fun _ => ⟨hinv, hlow⟩, fun h' => by simp only at h'; omega⟩
      · have h3 := (hneg h).1; have h4 := (hneg h).2
        have hinv : (e.x + n * e.stepx) * e.dy - e.e = N + n * e.stepx * e.dy := by grind
        have hb := quot_bounds (e.x + n * e.stepx) e.dy (N + n * e.stepx * e.dy) (-e.e) hdy (by omega) (by omega) (by omega)
        rw [wrap32_id _ (by omega) (by omega)]
        exact ⟨hdy, hdy2, Or.inr h, hele, fun h' => by simp only at h'; omega, fun _ => ⟨hinv, h4⟩⟩

theorem multiInit_spec (e : Edge) (DX n : Int) (hdy : 0 < e.dy) (hdy2 : e.dy < 2147483648)
    (hsign : e.signdx = 1 ∨ e.signdx = -1)
    (hs : e.stepx * e.dy + e.signdx * e.dx = DX) (hdx0 : 0 ≤ e.dx) (hn : 0 ≤ n)
    (hfit : -2147483648 ≤ n * e.stepx + e.signdx * (n * e.dx / e.dy) ∧
            n * e.stepx + e.signdx * (n * e.dx / e.dy) ≤ 2147483647) :
    (multiInit e n).1 * e.dy + e.signdx * (multiInit e n).2 = n * DX ∧
    0 ≤ (multiInit e n).2 ∧ (multiInit e n).2 < e.dy := by
  have hnd : 0 ≤ n * e.dx := Int.mul_nonneg hn hdx0
  simp only [multiInit]
  by_cases hgt : n * e.dx > 0
  · simp only [hgt, if_true]
    rw [Int.tdiv_eq_ediv_of_nonneg hnd]
    generalize hq : n * e.dx / e.dy = q at *
    have hq' := ediv_facts (n * e.dx) e.dy hdy
    rw [hq] at hq'
    rw [wrap32_sub_wrap_mul, wrap32_id (n * e.dx - q * e.dy) (by omega) (by omega)]
    rw [wrap32_add_wrap, wrap32_wrap_add]
    rcases hsign with h | h
    · rw [h] at hfit ⊢
      simp only [Int.one_mul, Int.mul_one] at hfit ⊢
      rw [wrap32_add_wrap, wrap32_id _ hfit.1 hfit.2]
      refine ⟨by rw [h] at hs; grind, by omega, by omega⟩
    · rw [h] at hfit ⊢
      simp only [Int.neg_mul, Int.mul_neg, Int.one_mul, Int.mul_one] at hfit ⊢
      have hw : wrap32 (n * e.stepx + -wrap32 q) = n * e.stepx + -q := by
        have : n * e.stepx + -wrap32 q = n * e.stepx - wrap32 q := by omega
        rw [this, wrap32_sub_wrap]; exact wrap32_id _ (by omega) (by omega)
      rw [hw]
      refine ⟨by rw [h] at hs; grind, by omega, by omega⟩
  · have h0 : n * e.dx = 0 := by omega
    simp only [hgt, if_false]
    rw [h0] at hfit ⊢
    rw [wrap32_id 0 (by omega) (by omega)]
    have : (0 : Int) / e.dy = 0 := Int.zero_ediv _
    rw [this, Int.mul_zero, Int.add_zero] at hfit
    rw [wrap32_id _ hfit.1 hfit.2]
    refine ⟨?_, by omega, hdy⟩
    have : n * (e.signdx * e.dx) = 0 := by
      rw [← Int.mul_assoc, Int.mul_comm n, Int.mul_assoc, h0, Int.mul_zero]
    grind

/-- the slope data an initialised edge carries for a line of slope `DX / dy`, depth `n` -/
structure SlopeInv (e : Edge) (DX : Int) (n : Nat) : Prop where
  base : e.stepx * e.dy + e.signdx * e.dx = DX ∧ 0 ≤ e.dx ∧ e.dx < e.dy
  small : e.stepxSmall * e.dy + e.signdx * e.dxSmall = stepYSmall n * DX ∧
          0 ≤ e.dxSmall ∧ e.dxSmall < e.dy
  big : e.stepxBig * e.dy + e.signdx * e.dxBig = stepYBig n * DX ∧
        0 ≤ e.dxBig ∧ e.dxBig < e.dy

/-- `|DX|` -/
def absI (v : Int) : Int := if v ≥ 0 then v else -v

theorem edgeStep_fields (e : Edge) (n : Int) :
    (edgeStep e n).dy = e.dy ∧ (edgeStep e n).signdx = e.signdx ∧ (edgeStep e n).stepx = e.stepx ∧
    (edgeStep e n).dx = e.dx ∧ (edgeStep e n).stepxSmall = e.stepxSmall ∧ (edgeStep e n).stepxBig = e.stepxBig ∧
    (edgeStep e n).dxSmall = e.dxSmall ∧ (edgeStep e n).dxBig = e.dxBig := by
  simp only [edgeStep]
  split <;> split <;> simp

/-- the edge record of `pixman_edge_init` just before its final `pixman_edge_step` -/
def edgeInitPre (n : Nat) (xTop yTop xBot yBot : Int) : Edge :=
  let dx := wrap32 (xBot - xTop)
  let dy := wrap32 (yBot - yTop)
  let e0 : Edge := { x := xTop, e := 0, stepx := 0, signdx := 0, dy := dy, dx := 0,
                     stepxSmall := 0, stepxBig := 0, dxSmall := 0, dxBig := 0 }
  if dy != 0 then
    let e :=
      if dx ≥ 0 then
        { e0 with signdx := 1, stepx := wrap32 (Int.tdiv dx dy), dx := Int.tmod dx dy, e := wrap32 (-dy) }
      else
        { e0 with signdx := -1, stepx := wrap32 (-(wrap32 (Int.tdiv (wrap32 (-dx)) dy))),
                  dx := Int.tmod (wrap32 (-dx)) dy, e := 0 }
    let s := multiInit e (stepYSmall n)
    let b := multiInit e (stepYBig n)
    { e with stepxSmall := s.1, dxSmall := s.2, stepxBig := b.1, dxBig := b.2 }
  else e0

theorem edgeInit_eq (n : Nat) (yStart xTop yTop xBot yBot : Int) :
    edgeInit n yStart xTop yTop xBot yBot = edgeStep (edgeInitPre n xTop yTop xBot yBot) (wrap32 (yStart - yTop)) := rfl

theorem emod_facts (a d : Int) (hd : 0 < d) : (a / d) * d + a % d = a ∧ 0 ≤ a % d ∧ a % d < d := by
  refine ⟨?_, Int.emod_nonneg a (Int.ne_of_gt hd), Int.emod_lt_of_pos a hd⟩
  rw [Int.emod_def, Int.mul_comm]; omega

theorem edgeInitPre_inv (n : Nat) (xTop yTop xBot yBot : Int)
    (hdy : 0 < yBot - yTop ∧ yBot - yTop ≤ 2147483647)
    (hdx : -2147483647 ≤ xBot - xTop ∧ xBot - xTop ≤ 2147483647)
    (hS0 : 0 ≤ stepYSmall n) (hB0 : 0 ≤ stepYBig n)
    (hS : stepYSmall n * (absI (xBot - xTop) / (yBot - yTop)) +
          stepYSmall n * (absI (xBot - xTop) % (yBot - yTop)) / (yBot - yTop) ≤ 2147483647)
    (hB : stepYBig n * (absI (xBot - xTop) / (yBot - yTop)) +
          stepYBig n * (absI (xBot - xTop) % (yBot - yTop)) / (yBot - yTop) ≤ 2147483647) :
    let e := edgeInitPre n xTop yTop xBot yBot
    EdgeInv e (xTop * (yBot - yTop)) ∧ SlopeInv e (xBot - xTop) n ∧ e.dy = yBot - yTop ∧
    (0 ≤ xBot - xTop → e.signdx = 1 ∧ e.e = -(yBot - yTop)) ∧
    (xBot - xTop < 0 → e.signdx = -1 ∧ e.e = 0) := by
  intro e
  generalize hDY : yBot - yTop = dy at *
  generalize hDX : xBot - xTop = DX at *
  have hne : (dy != 0) = true := by simp only [bne_iff_ne, ne_eq]; omega
  have hwdy : wrap32 dy = dy := wrap32_id _ (by omega) (by omega)
  have hwdx : wrap32 DX = DX := wrap32_id _ (by omega) (by omega)
  by_cases hpos : DX ≥ 0
  · -- right-leaning or vertical
    have habs : absI DX = DX := by simp only [absI, hpos, if_true]
    rw [habs] at hS hB
    have hq := ediv_facts DX dy hdy.1
    have hr := emod_facts DX dy hdy.1
    have hq0 : 0 ≤ DX / dy := Int.ediv_nonneg hpos (by omega)
    have hqle : DX / dy ≤ DX := Int.ediv_le_self _ hpos
    let e1 : Edge := { x := xTop, e := -dy, stepx := DX / dy, signdx := 1, dy := dy, dx := DX % dy,
                       stepxSmall := 0, stepxBig := 0, dxSmall := 0, dxBig := 0 }
    have hbase : e1.stepx * e1.dy + e1.signdx * e1.dx = DX := by
      show DX / dy * dy + 1 * (DX % dy) = DX
      omega
    have hsm := multiInit_spec e1 DX (stepYSmall n) hdy.1 (by show dy < 2147483648; omega) (Or.inl rfl) hbase hr.2.1 hS0
      (by
        simp only [e1]
        have h1 : 0 ≤ stepYSmall n * (DX / dy) := Int.mul_nonneg hS0 hq0
        have h2 : 0 ≤ stepYSmall n * (DX % dy) / dy := Int.ediv_nonneg (Int.mul_nonneg hS0 hr.2.1) (by omega)
        omega)
    have hbg := multiInit_spec e1 DX (stepYBig n) hdy.1 (by show dy < 2147483648; omega) (Or.inl rfl) hbase hr.2.1 hB0
      (by
        simp only [e1]
        have h1 : 0 ≤ stepYBig n * (DX / dy) := Int.mul_nonneg hB0 hq0
        have h2 : 0 ≤ stepYBig n * (DX % dy) / dy := Int.ediv_nonneg (Int.mul_nonneg hB0 hr.2.1) (by omega)
        omega)
    have he : e = { e1 with stepxSmall := (multiInit e1 (stepYSmall n)).1, dxSmall := (multiInit e1 (stepYSmall n)).2,
                            stepxBig := (multiInit e1 (stepYBig n)).1, dxBig := (multiInit e1 (stepYBig n)).2 } := by
      show edgeInitPre n xTop yTop xBot yBot = _
      simp only [edgeInitPre, hDY, hDX, hwdy, hwdx, hne, if_true, hpos]
      rw [Int.tdiv_eq_ediv_of_nonneg hpos, Int.tmod_eq_emod_of_nonneg hpos,
        wrap32_id (DX / dy) (by omega) (by omega), wrap32_id (-dy) (by omega) (by omega)]
    rw [he]
    refine ⟨⟨hdy.1, by show dy < 2147483648; omega, Or.inl rfl, by show -dy ≤ 0; omega,
             fun _ => ⟨by show xTop * dy + -dy + dy = xTop * dy; omega, by show -dy ≤ -dy; omega⟩,
             fun h => by simp at h⟩,
            ⟨⟨hbase, hr.2.1, hr.2.2⟩, hsm, hbg⟩, rfl, fun _ => ⟨rfl, rfl⟩, fun h => by omega⟩
  · -- left-leaning
    have hneg : DX < 0 := by omega
    have habs : absI DX = -DX := by simp only [absI, hpos, if_false]
    rw [habs] at hS hB
    generalize hA : -DX = a at *
    have ha : 0 < a := by omega
    have hq := ediv_facts a dy hdy.1
    have hr := emod_facts a dy hdy.1
    have hq0 : 0 ≤ a / dy := Int.ediv_nonneg (by omega) (by omega)
    have hqle : a / dy ≤ a := Int.ediv_le_self _ (by omega)
    let e1 : Edge := { x := xTop, e := 0, stepx := -(a / dy), signdx := -1, dy := dy, dx := a % dy,
                       stepxSmall := 0, stepxBig := 0, dxSmall := 0, dxBig := 0 }
    have hbase : e1.stepx * e1.dy + e1.signdx * e1.dx = DX := by
      show -(a / dy) * dy + -1 * (a % dy) = DX
      rw [Int.neg_mul]; omega
    have hsm := multiInit_spec e1 DX (stepYSmall n) hdy.1 (by show dy < 2147483648; omega) (Or.inr rfl) hbase hr.2.1 hS0
      (by
        simp only [e1]
        have h1 : 0 ≤ stepYSmall n * (a / dy) := Int.mul_nonneg hS0 hq0
        have h2 : 0 ≤ stepYSmall n * (a % dy) / dy := Int.ediv_nonneg (Int.mul_nonneg hS0 hr.2.1) (by omega)
        rw [Int.mul_neg, Int.neg_mul, Int.one_mul]
        omega)
    have hbg := multiInit_spec e1 DX (stepYBig n) hdy.1 (by show dy < 2147483648; omega) (Or.inr rfl) hbase hr.2.1 hB0
      (by
        simp only [e1]
        have h1 : 0 ≤ stepYBig n * (a / dy) := Int.mul_nonneg hB0 hq0
        have h2 : 0 ≤ stepYBig n * (a % dy) / dy := Int.ediv_nonneg (Int.mul_nonneg hB0 hr.2.1) (by omega)
        rw [Int.mul_neg, Int.neg_mul, Int.one_mul]
        omega)
    have he : e = { e1 with stepxSmall := (multiInit e1 (stepYSmall n)).1, dxSmall := (multiInit e1 (stepYSmall n)).2,
                            stepxBig := (multiInit e1 (stepYBig n)).1, dxBig := (multiInit e1 (stepYBig n)).2 } := by
      show edgeInitPre n xTop yTop xBot yBot = _
      simp only [edgeInitPre, hDY, hDX, hwdy, hwdx, hne, if_true, hpos, if_false, hA]
      rw [wrap32_id a (by omega) (by omega), Int.tdiv_eq_ediv_of_nonneg (by omega), Int.tmod_eq_emod_of_nonneg (by omega),
        wrap32_id (a / dy) (by omega) (by omega), wrap32_id (-(a / dy)) (by omega) (by omega)]
    rw [he]
    refine ⟨⟨hdy.1, by show dy < 2147483648; omega, Or.inr rfl, by show (0 : Int) ≤ 0; omega,
             fun h => absurd h (by show (-1 : Int) ≠ 1; decide),
             fun _ => ⟨by show xTop * dy - 0 = xTop * dy; omega, by show -dy < 0; omega⟩⟩,
            ⟨⟨hbase, hr.2.1, hr.2.2⟩, hsm, hbg⟩, rfl, fun h => by omega, fun _ => ⟨rfl, rfl⟩⟩

theorem ediv_sub_le (a l d : Int) (hd : 0 < d) (h0 : 0 ≤ l) (h1 : l ≤ d) :
    a / d - 1 ≤ (a - l) / d ∧ (a - l) / d ≤ a / d := by
  constructor
  · have : (a - d) / d = a / d - 1 := by
      have : a - d = a + d * (-1) := by omega
      rw [this, Int.add_mul_ediv_left _ _ (Int.ne_of_gt hd)]; omega
    rw [← this]; exact Int.ediv_le_ediv hd (by omega)
  · exact Int.ediv_le_ediv hd (by omega)

theorem edgeInit_inv (n : Nat) (yStart xTop yTop xBot yBot : Int)
    (hdy : 0 < yBot - yTop ∧ yBot - yTop ≤ 2147483647)
    (hdx : -2147483647 ≤ xBot - xTop ∧ xBot - xTop ≤ 2147483647)
    (hn0 : -2147483648 ≤ yStart - yTop ∧ yStart - yTop ≤ 2147483647)
    (hS0 : 0 ≤ stepYSmall n) (hB0 : 0 ≤ stepYBig n)
    (hS : stepYSmall n * (absI (xBot - xTop) / (yBot - yTop)) +
          stepYSmall n * (absI (xBot - xTop) % (yBot - yTop)) / (yBot - yTop) ≤ 2147483647)
    (hB : stepYBig n * (absI (xBot - xTop) / (yBot - yTop)) +
          stepYBig n * (absI (xBot - xTop) % (yBot - yTop)) / (yBot - yTop) ≤ 2147483647)
    (hfit : -2147483648 ≤ (xTop * (yBot - yTop) + (yStart - yTop) * (xBot - xTop)) / (yBot - yTop) - 2 ∧
            (xTop * (yBot - yTop) + (yStart - yTop) * (xBot - xTop)) / (yBot - yTop) ≤ 2147483647) :
    let e := edgeInit n yStart xTop yTop xBot yBot
    ∃ lost : Int, 0 ≤ lost ∧ lost ≤ yBot - yTop ∧
      EdgeInv e (xTop * (yBot - yTop) + (yStart - yTop) * (xBot - xTop) - lost) ∧
      SlopeInv e (xBot - xTop) n ∧
      (lost = 0 ∨ (0 ≤ xBot - xTop ∧ 0 ≤ yStart - yTop ∧ lost = (yStart - yTop) * ((xBot - xTop) % (yBot - yTop))) ∨
        (xBot - xTop < 0 ∧ yStart - yTop < 0 ∧ lost = -((yStart - yTop) * ((-(xBot - xTop)) % (yBot - yTop))))) := by
  intro e
  have hpre := edgeInitPre_inv n xTop yTop xBot yBot hdy hdx hS0 hB0 hS hB
  simp only at hpre
  obtain ⟨hI, hSl, hdyeq, hposc, hnegc⟩ := hpre
  have he : e = edgeStep (edgeInitPre n xTop yTop xBot yBot) (yStart - yTop) := by
    show edgeInit n yStart xTop yTop xBot yBot = _
    rw [edgeInit_eq, wrap32_id _ hn0.1 hn0.2]
  generalize hp : edgeInitPre n xTop yTop xBot yBot = p at *
  generalize hDY : yBot - yTop = dy at *
  generalize hDX : xBot - xTop = DX at *
  generalize hN0 : yStart - yTop = n0 at *
  have hf := edgeStep_fields p n0
  have hslope : SlopeInv e DX n := by
    rw [he]
    obtain ⟨b, s, g⟩ := hSl
    exact ⟨by rw [hf.2.2.1, hf.1, hf.2.1, hf.2.2.2.1]; exact b,
           by rw [hf.2.2.2.2.1, hf.1, hf.2.1, hf.2.2.2.2.2.2.1]; exact s,
           by rw [hf.2.2.2.2.2.1, hf.1, hf.2.1, hf.2.2.2.2.2.2.2]; exact g⟩
  obtain ⟨hb1, hb2, hb3⟩ := hSl.base
  -- the value of the target, by cases
  have key : ∃ lost : Int, 0 ≤ lost ∧ lost ≤ dy ∧ stepTarget p (xTop * dy) DX n0 = xTop * dy + n0 * DX - lost ∧
      (lost = 0 ∨ (0 ≤ DX ∧ 0 ≤ n0 ∧ lost = n0 * (DX % dy)) ∨ (DX < 0 ∧ n0 < 0 ∧ lost = -(n0 * ((-DX) % dy)))) := by
    have hdxmod : (0 ≤ DX → p.dx = DX % dy) ∧ (DX < 0 → p.dx = (-DX) % dy) := by
      constructor
      · intro h
        have hs := (hposc h).1
        rw [hs, hdyeq] at hb1
        have := (Int.ediv_emod_unique (a := DX) (b := dy) (r := p.dx) (q := p.stepx) hdy.1).mpr
          ⟨by rw [Int.mul_comm]; omega, hb2, by rw [← hdyeq]; exact hb3⟩
        exact this.2.symm
      · intro h
        have hs := (hnegc h).1
        rw [hs, hdyeq] at hb1
        have := (Int.ediv_emod_unique (a := -DX) (b := dy) (r := p.dx) (q := -p.stepx) hdy.1).mpr
          ⟨by rw [Int.mul_comm, Int.neg_mul]; omega, hb2, by rw [← hdyeq]; exact hb3⟩
        exact this.2.symm
    simp only [stepTarget]
    rw [hdyeq] at hb1 hb3 ⊢
    have hmul : n0 * p.stepx * dy = n0 * DX - p.signdx * (n0 * p.dx) := by grind
    by_cases hD : 0 ≤ DX
    · obtain ⟨hs, hee⟩ := hposc hD
      rw [hs] at hmul
      rw [hee]
      by_cases hn : n0 ≥ 0
      · have hm0 : 0 ≤ n0 * p.dx := Int.mul_nonneg hn hb2
        simp only [hn, if_true]
        by_cases hc : -dy + n0 * p.dx > 0
        · simp only [hc, if_true]
          exact ⟨0, by omega, by omega, by omega, Or.inl rfl⟩
        · simp only [hc, if_false]
          refine ⟨n0 * p.dx, hm0, by omega, by omega, Or.inr (Or.inl ⟨hD, by first | exact hn | trivial, by rw [(hdxmod.1 hD)]⟩)⟩
      · have hm0 : n0 * p.dx ≤ 0 := Int.mul_nonpos_of_nonpos_of_nonneg (by omega) hb2
        have hc : -dy + n0 * p.dx ≤ -dy := by omega
        simp only [hn, if_false, hc, if_true]
        exact ⟨0, by omega, by omega, by omega, Or.inl rfl⟩
    · have hD' : DX < 0 := by omega
      obtain ⟨hs, hee⟩ := hnegc hD'
      rw [hs] at hmul
      rw [hee]
      by_cases hn : n0 ≥ 0
      · have hm0 : 0 ≤ n0 * p.dx := Int.mul_nonneg hn hb2
        simp only [hn, if_true]
        by_cases hc : 0 + n0 * p.dx > 0
        · simp only [hc, if_true]
          exact ⟨0, by omega, by omega, by omega, Or.inl rfl⟩
        · simp only [hc, if_false]
          exact ⟨0, by omega, by omega, by omega, Or.inl rfl⟩
      · have hm0 : n0 * p.dx ≤ 0 := Int.mul_nonpos_of_nonpos_of_nonneg (by omega) hb2
        simp only [hn, if_false]
        by_cases hc : 0 + n0 * p.dx ≤ -dy
        · simp only [hc, if_true]
          exact ⟨0, by omega, by omega, by omega, Or.inl rfl⟩
        · simp only [hc, if_false]
          refine ⟨-(n0 * p.dx), by omega, by omega, by omega, Or.inr (Or.inr ⟨hD', by omega, by rw [(hdxmod.2 hD')]⟩)⟩
  obtain ⟨lost, hl0, hl1, htgt, hdesc⟩ := key
  refine ⟨lost, hl0, hl1, ?_, hslope, hdesc⟩
  rw [he, ← htgt]
  apply edgeStep_inv p (xTop * dy) DX n0 hI hb1 hb2 hb3
  rw [htgt, hdyeq]
  have := ediv_sub_le (xTop * dy + n0 * DX) lost dy hdy.1 hl0 hl1
  omega

/-- what the invariant says about `e.x`: the floor of the represented abscissa, except in the
    state `e = 0` of a right-leaning edge (an exact lattice hit), where it is one less -/
theorem edge_x_of_inv (e : Edge) (M : Int) (hI : EdgeInv e M) :
    (e.x = M / e.dy ∧ ¬ (e.signdx = 1 ∧ e.e = 0)) ∨
    (e.signdx = 1 ∧ e.e = 0 ∧ M % e.dy = 0 ∧ e.x = M / e.dy - 1) := by
  obtain ⟨hdy, hdy2, hsign, hele, hpos, hneg⟩ := hI
  rcases hsign with h | h
  · obtain ⟨h1, h2⟩ := hpos h
    by_cases h0 : e.e = 0
    · right
      have := (Int.ediv_emod_unique (a := M) (b := e.dy) (r := 0) (q := e.x + 1) hdy).mpr
        ⟨by rw [Int.mul_add, Int.mul_comm]; omega, by omega, hdy⟩
      exact ⟨h, h0, this.2, by omega⟩
    · left
      have := (Int.ediv_emod_unique (a := M) (b := e.dy) (r := e.e + e.dy) (q := e.x) hdy).mpr
        ⟨by rw [Int.mul_comm]; omega, by omega, by omega⟩
      exact ⟨this.1.symm, fun hc => h0 hc.2⟩
  · obtain ⟨h1, h2⟩ := hneg h
    left
    have := (Int.ediv_emod_unique (a := M) (b := e.dy) (r := -e.e) (q := e.x) hdy).mpr
      ⟨by rw [Int.mul_comm]; omega, by omega, by omega⟩
    exact ⟨this.1.symm, fun hc => by omega⟩

/-- the Spec's snapped abscissa in terms of `N = xTop·dy + (y − yTop)·DX` -/
theorem snapX_eq (l : EdgeLine) (y : Int) (hdy : 0 < l.yBot - l.yTop) :
    let N := l.xTop * (l.yBot - l.yTop) + (y - l.yTop) * (l.xBot - l.xTop)
    (l.snapX y = N / (l.yBot - l.yTop) ∨ l.snapX y = N / (l.yBot - l.yTop) - 1) ∧
    (¬ (0 < l.xBot - l.xTop ∧ N % (l.yBot - l.yTop) = 0) → l.snapX y = N / (l.yBot - l.yTop)) := by
  intro N
  have hN : N / (l.yBot - l.yTop) = l.xTop + (y - l.yTop) * (l.xBot - l.xTop) / (l.yBot - l.yTop) := by
    show (l.xTop * (l.yBot - l.yTop) + (y - l.yTop) * (l.xBot - l.xTop)) / (l.yBot - l.yTop) = _
    rw [Int.add_comm, Int.mul_comm l.xTop, Int.add_mul_ediv_left _ _ (Int.ne_of_gt hdy)]; omega
  have hM : N % (l.yBot - l.yTop) = ((y - l.yTop) * (l.xBot - l.xTop)) % (l.yBot - l.yTop) := by
    show (l.xTop * (l.yBot - l.yTop) + (y - l.yTop) * (l.xBot - l.xTop)) % (l.yBot - l.yTop) = _
    rw [Int.add_comm, Int.mul_comm l.xTop, Int.add_mul_emod_self_left]
  simp only [EdgeLine.snapX]
  constructor
  · split
    · right; omega
    · left; omega
  · intro h
    split
    · rename_i hc; exact absurd ⟨hc.1, by rw [hM]; exact hc.2.1⟩ h
    · omega

theorem edge_x_near_snapX (e : Edge) (l : EdgeLine) (y lost : Int) (hdy : 0 < l.yBot - l.yTop)
    (hdyeq : e.dy = l.yBot - l.yTop) (hl0 : 0 ≤ lost) (hl1 : lost ≤ l.yBot - l.yTop)
    (hI : EdgeInv e (l.xTop * (l.yBot - l.yTop) + (y - l.yTop) * (l.xBot - l.xTop) - lost)) :
    l.snapX y - 2 ≤ e.x ∧ e.x ≤ l.snapX y + 1 := by
  have h1 := edge_x_of_inv e _ hI
  have h2 := (snapX_eq l y hdy).1
  rw [hdyeq] at h1
  have h3 := ediv_sub_le (l.xTop * (l.yBot - l.yTop) + (y - l.yTop) * (l.xBot - l.xTop)) lost _ hdy hl0 hl1
  omega

theorem edge_x_eq_snapX (e : Edge) (l : EdgeLine) (y : Int) (hdy : 0 < l.yBot - l.yTop)
    (hdyeq : e.dy = l.yBot - l.yTop)
    (hI : EdgeInv e (l.xTop * (l.yBot - l.yTop) + (y - l.yTop) * (l.xBot - l.xTop)))
    (hnotie : (l.xTop * (l.yBot - l.yTop) + (y - l.yTop) * (l.xBot - l.xTop)) % (l.yBot - l.yTop) ≠ 0 ∨
              (e.signdx = -1 ∧ l.xBot - l.xTop < 0)) :
    e.x = l.snapX y := by
  have h1 := edge_x_of_inv e _ hI
  have h2 := (snapX_eq l y hdy).2
  rw [hdyeq] at h1
  rcases hnotie with h | h
  · have := h2 (fun hc => h hc.2)
    rcases h1 with h1 | h1
    · omega
    · exact absurd h1.2.2.1 h
  · have := h2 (fun hc => by omega)
    rcases h1 with h1 | h1
    · omega
    · omega

end Pixman.Lemmas.Trap

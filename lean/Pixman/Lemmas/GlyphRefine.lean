import Pixman.Lemmas.GlyphReach
/-!
  Refinement of the glyph cache to a finite map with recency order: the live glyphs are the MRU
  list, `lookup` answers `absFind` on it, and every API call acts on it as `absStep` says.
-/
namespace Pixman.Glyph

/-- full invariant of the refinement -/
structure Inv (p : Params) (h : Nat → Nat → Nat) (c : Cache) : Prop where
  counted : Counted p c
  hasEmpty : HasEmpty p c
  reach : Reach p h c
  keys : KeysUnique p c

def keyMatch (font key : Nat) (g : G) : Bool := g.font = font ∧ g.key = key

/-- lookup in the abstract map: the live glyphs are exactly the MRU list -/
def absFind (l : List G) (font key : Nat) : Option G := l.find? (keyMatch font key)

/-- insertion discipline: a key is inserted only while no live entry has it -/
def Fresh (c : Cache) : Op → Prop
  | .insert f k => ∀ g, g ∈ c.mru → ¬(g.font = f ∧ g.key = k)
  | _ => True

theorem mem_mru_iff_get {p : Params} {c : Cache} (hp : 0 < p.hashSize) {k : Nat} (hc : CountedB p k c) (g : G) :
    g ∈ c.mru ↔ ∃ y, c.get p y = .entry g := by
  rw [hc.mru.mem_iff, mem_entries, mem_iff_get hc.tab.len hp]

theorem lookup_refines {p : Params} {h : Nat → Nat → Nat} {c : Cache} (hp : 0 < p.hashSize)
    (hi : Inv p h c) (font key : Nat) : lookup p h c font key = some (absFind c.mru font key) := by
  have hc := hi.counted
  cases hf : absFind c.mru font key with
  | none =>
    apply lookupFrom_absent
    · intro y g hy hm
      have hg : g ∈ c.mru := (mem_mru_iff_get hp hc g).mpr ⟨y, hy⟩
      have := List.find?_eq_none.mp hf g hg
      simp [keyMatch, hm] at this
    · exact lookup_ne_none hp hc.tab hi.hasEmpty font key
  | some g =>
    have hg : g ∈ c.mru := List.mem_of_find?_eq_some hf
    have hm : keyMatch font key g = true := List.find?_some hf
    simp only [keyMatch, decide_eq_true_eq] at hm
    obtain ⟨y, hy⟩ := (mem_mru_iff_get hp hc g).mp hg
    obtain ⟨d, hd, hgd, hpath⟩ := hi.reach y g hy
    rw [hm.1, hm.2] at hgd hpath
    apply lookupFrom_finds p c font key g hm
    · intro y' g' hy' h1 h2
      exact hi.keys y' y g' g hy' hy (by rw [h1, hm.1]) (by rw [h2, hm.2])
    · exact ⟨d, hd, hgd, hpath⟩


/-- abstract effect of an API call on the recency-ordered list of live glyphs and its result; the
    counters only decide *whether* an insertion is refused and a thaw evicts -/
def absStep (p : Params) (c : Cache) : Op → List G × Res
  | .freeze => (c.mru, .unit)
  | .thaw =>
    (if c.freeze - 1 = 0 ∧ c.nGlyphs + c.nTomb > (p.high : Int) then
       (if c.nTomb > (p.high : Int) then [] else c.mru.take p.low)
     else c.mru, .unit)
  | .insert f k =>
    if c.freeze ≤ 0 ∨ full p c = true then (c.mru, .refused)
    else (⟨c.clock, f, k⟩ :: c.mru, .inserted ⟨c.clock, f, k⟩)
  | .lookup f k => (c.mru, .found (absFind c.mru f k))
  | .remove f k => (c.mru.filter (fun g => !keyMatch f k g), .unit)
  | .touch f k =>
    (match absFind c.mru f k with
     | some g => g :: c.mru.filter (· ≠ g)
     | none => c.mru, .unit)
  | .insertFail _ _ => (c.mru, .refused)

theorem reach_clearTable (p : Params) (h : Nat → Nat → Nat) (c : Cache) : Reach p h (clearTable p c) := by
  intro y g hy
  simp [Cache.get, clearTable, List.getD_eq_getElem?_getD, List.getElem?_replicate] at hy
  split at hy <;> cases hy

theorem sub_clearTable (p : Params) (c : Cache) : Sub p (clearTable p c) c := by
  intro y g hy
  simp [Cache.get, clearTable, List.getD_eq_getElem?_getD, List.getElem?_replicate] at hy
  split at hy <;> cases hy

theorem stepCore_refines {p : Params} {h : Nat → Nat → Nat} {c : Cache} (hp : 0 < p.hashSize)
    (hi : Inv p h c) (o : Op) (hf : Fresh c o) :
    Reach p h (stepCore p h c o).1 ∧ KeysUnique p (stepCore p h c o).1 ∧
      ((stepCore p h c o).1.mru, (stepCore p h c o).2) = absStep p c o := by
  have hc := hi.counted
  cases o with
  | freeze => exact ⟨Reach.of_table rfl hi.reach, hi.keys.of_table rfl, rfl⟩
  | lookup font key =>
    unfold stepCore
    simp only [lookup_refines hp hi]
    exact ⟨hi.reach, hi.keys, rfl⟩
  | touch font key =>
    unfold stepCore absStep
    simp only [lookup_refines hp hi]
    cases absFind c.mru font key with
    | none => exact ⟨hi.reach, hi.keys, rfl⟩
    | some g => exact ⟨Reach.of_table rfl hi.reach, hi.keys.of_table rfl, rfl⟩
  | remove font key =>
    unfold stepCore absStep
    simp only [lookup_refines hp hi]
    cases hfind : absFind c.mru font key with
    | none =>
      refine ⟨hi.reach, hi.keys, ?_⟩
      simp only [Prod.mk.injEq, and_true]
      symm
      rw [List.filter_eq_self]
      intro g hg
      have := List.find?_eq_none.mp hfind g hg
      simpa using this
    | some g =>
      have hg : g ∈ c.mru := List.mem_of_find?_eq_some hfind
      have hm : keyMatch font key g = true := List.find?_some hfind
      have hge : g ∈ entries c.table := hc.mru.mem_iff.mp hg
      simp only
      cases hrm : removeGlyph p h c g with
      | none => exact absurd hrm (removeGlyph_ne_none hp hc.tab hge)
      | some c1 =>
        simp only
        obtain ⟨r1, r2⟩ := removeGlyph_reach hp hc.tab hi.reach hrm
        obtain ⟨_, m2, _⟩ := removeGlyph_ok hp hc.tab hrm
        refine ⟨Reach.of_table rfl r1, hi.keys.sub ((Sub.of_table rfl).trans r2), ?_⟩
        simp only [Prod.mk.injEq, and_true]
        show c1.mru.filter (· ≠ g) = _
        rw [m2]
        apply List.filter_congr
        intro x hx
        simp only [keyMatch, decide_eq_true_eq] at hm
        obtain ⟨y, hy⟩ := (mem_mru_iff_get hp hc x).mp hx
        obtain ⟨y', hy'⟩ := (mem_mru_iff_get hp hc g).mp hg
        by_cases hxg : x = g
        · subst hxg; simp [keyMatch, hm]
        · have : ¬(x.font = font ∧ x.key = key) := fun hxm =>
            hxg (hi.keys y y' x g hy hy' (by rw [hxm.1, hm.1]) (by rw [hxm.2, hm.2]))
          simp [keyMatch, hxg, this]
  | insertFail font key =>
    rw [stepCore_insertFail]
    exact ⟨hi.reach, hi.keys, rfl⟩
  | insert font key =>
    generalize hr : stepCore p h c (.insert font key) = r
    unfold stepCore at hr
    show _ ∧ _ ∧ _ = absStep p c _
    unfold absStep
    simp only
    simp only at hr
    split at hr
    · rename_i hfz
      subst hr
      rw [if_pos (Or.inl hfz)]
      exact ⟨hi.reach, hi.keys, rfl⟩
    · rename_i hfz
      split at hr
      · rename_i hfull
        subst hr
        rw [if_pos (Or.inr hfull)]
        exact ⟨hi.reach, hi.keys, rfl⟩
      · rename_i hnf
        rw [if_neg (by intro hh; rcases hh with hh | hh; exact hfz hh; exact hnf hh)]
        cases hins : insertGlyph p h { c with mru := (⟨c.clock, font, key⟩ : G) :: c.mru } ⟨c.clock, font, key⟩ with
        | none =>
          exact absurd hins (insertGlyph_ne_none hp hc.tab.len ((hasEmpty_iff hc.tab).mp hi.hasEmpty))
        | some c' =>
          rw [hins] at hr; subst hr
          obtain ⟨r1, i, hne, hget⟩ := insertGlyph_reach (c := c) (c0 := { c with mru := (⟨c.clock, font, key⟩ : G) :: c.mru }) hp hc.tab.len rfl hi.reach hins
          obtain ⟨k1, _⟩ := insertGlyph_counted (g := ⟨c.clock, font, key⟩) hp hc (Nat.le_refl _) hins
          refine ⟨r1, ?_, ?_⟩
          · -- keys stay unique: the new key is fresh
            have hfresh : ∀ y g', c.get p y = .entry g' → ¬(g'.font = font ∧ g'.key = key) := fun y g' hy =>
              hf g' ((mem_mru_iff_get hp hc g').mpr ⟨y, hy⟩)
            intro y y' g1 g2 h1 h2 e1 e2
            rw [hget] at h1 h2
            split at h1 <;> split at h2
            · simp only [Slot.entry.injEq] at h1 h2; rw [← h1, ← h2]
            · simp only [Slot.entry.injEq] at h1; subst h1
              exact absurd ⟨e1.symm, e2.symm⟩ (hfresh y' g2 h2)
            · simp only [Slot.entry.injEq] at h2; subst h2
              exact absurd ⟨e1, e2⟩ (hfresh y g1 h1)
            · exact hi.keys y y' g1 g2 h1 h2 e1 e2
          · simp only [Prod.mk.injEq, and_true]
            -- insert_glyph does not touch the MRU list
            unfold insertGlyph at hins
            split at hins
            · cases hins
            · simp only [Option.some.injEq] at hins
              rw [← hins]
              simp only [Cache.set]
              split <;> rfl
  | thaw =>
    generalize hr : stepCore p h c .thaw = r
    unfold stepCore at hr
    show _ ∧ _ ∧ _ = absStep p c _
    unfold absStep
    simp only
    simp only at hr
    have hc0 : CountedB p c.clock ({ c with freeze := c.freeze - 1 } : Cache) := hc.congr rfl rfl rfl rfl
    split at hr
    · rename_i hcond
      rw [if_pos hcond]
      generalize hc1e : (if c.nTomb > (p.high : Int) then clearTable p ({ c with freeze := c.freeze - 1 } : Cache)
          else ({ c with freeze := c.freeze - 1 } : Cache)) = c1 at hr
      have hc1 : CountedB p c.clock c1 ∧ Reach p h c1 ∧ Sub p c1 c ∧
          c1.mru = (if c.nTomb > (p.high : Int) then [] else c.mru) := by
        split at hc1e
        · rename_i hgt
          subst hc1e
          exact ⟨clearTable_counted _ _ _, reach_clearTable _ _ _,
            (sub_clearTable _ _).trans (Sub.of_table rfl), by rw [if_pos hgt]; rfl⟩
        · rename_i hgt
          subst hc1e
          exact ⟨hc0, Reach.of_table rfl hi.reach, Sub.of_table rfl, by rw [if_neg hgt]⟩
      obtain ⟨c', e1, e2, e3, e4, e5, e6, e7⟩ := evict_ok (h := h) hp (p.hashSize + 1) c1 hc1.1
      obtain ⟨f1, f2, f3⟩ := evict_refine hp (p.hashSize + 1) c1 c' hc1.1 hc1.2.1 e1
      rw [e1] at hr
      simp only at hr
      subst hr
      refine ⟨f1, hi.keys.sub (f2.trans hc1.2.2.1), ?_⟩
      simp only [Prod.mk.injEq, and_true]
      have hle : c1.nGlyphs ≤ (p.low : Int) + ((p.hashSize + 1 : Nat) : Int) := by
        have := count_total c1.table
        have := hc1.1.tab.len
        have := hc1.1.tab.glyphs
        omega
      rw [f3 hle, hc1.2.2.2]
      split <;> simp
    · rename_i hcond
      rw [if_neg hcond]
      subst hr
      exact ⟨Reach.of_table rfl hi.reach, hi.keys.of_table rfl, rfl⟩


theorem create_inv {p : Params} (hp : 0 < p.hashSize) (h : Nat → Nat → Nat) : Inv p h (create p) := by
  refine ⟨create_counted p, create_hasEmpty hp, ?_, ?_⟩
  · intro y g hy
    simp [Cache.get, create, List.getD_eq_getElem?_getD, List.getElem?_replicate] at hy
    split at hy <;> cases hy
  · intro y y' g g' hy
    simp [Cache.get, create, List.getD_eq_getElem?_getD, List.getElem?_replicate] at hy
    split at hy <;> cases hy

theorem step_refines {p : Params} {h : Nat → Nat → Nat} {c : Cache} (hp : 0 < p.hashSize)
    (hi : Inv p h c) (o : Op) (hf : Fresh c o) :
    Inv p h (step p h c o).1 ∧ ((step p h c o).1.mru, (step p h c o).2) = absStep p c o := by
  obtain ⟨r1, r2, r3⟩ := stepCore_refines hp hi o hf
  obtain ⟨s1, s2⟩ := step_ok (h := h) hp hi.counted o
  exact ⟨⟨s1, (s2 hi.hasEmpty).2, Reach.of_table rfl r1, r2.of_table rfl⟩, r3⟩

/-- a history that inserts a key only while it is absent -/
def Disciplined (p : Params) (h : Nat → Nat → Nat) : Cache → List Op → Prop
  | _, [] => True
  | c, o :: os => Fresh c o ∧ Disciplined p h (step p h c o).1 os

theorem run_refines {p : Params} {h : Nat → Nat → Nat} (hp : 0 < p.hashSize) :
    ∀ (ops : List Op) (c : Cache), Inv p h c → Disciplined p h c ops → Inv p h (run p h c ops).1 := by
  intro ops
  induction ops with
  | nil => intro c hi _; exact hi
  | cons o os ih =>
    intro c hi hd
    obtain ⟨s1, _⟩ := step_refines hp hi o hd.1
    have hnh := ((step_ok (h := h) hp hi.counted o).2 hi.hasEmpty).1
    have := ih _ s1 hd.2
    unfold run
    simp only
    exact this

end Pixman.Glyph

import Pixman.Lemmas.FormatTable
/-! Memory lemmas of C10: `READ`/`WRITE`, `FETCH_n`/`STORE_n` — what a store writes, and what it leaves alone. -/
namespace Pixman.Lemmas.FormatMem
open Pixman.Model.Format Pixman.Lemmas.FormatCodec

/-! ## bytes -/

theorem write8_same (m : Mem) (a v : Nat) : write8 m a v a = v % 256 := by simp [write8]
theorem write8_other (m : Mem) (a v x : Nat) (h : x ≠ a) : write8 m a v x = m x := by simp [write8, h]
theorem write16_other (m : Mem) (a v x : Nat) (h : x < a ∨ a + 2 ≤ x) : write16 m a v x = m x := by
  unfold write16
  rw [if_neg (by omega), if_neg (by omega)]
theorem write32_other (m : Mem) (a v x : Nat) (h : x < a ∨ a + 4 ≤ x) : write32 m a v x = m x := by
  unfold write32
  rw [if_neg (by omega), if_neg (by omega), if_neg (by omega), if_neg (by omega)]

theorem write8_bytes (m : Mem) (a v : Nat) (h : m.Bytes) : (write8 m a v).Bytes := by
  intro x; unfold write8; split
  · exact Nat.mod_lt _ (by decide)
  · exact h x
theorem write16_bytes (m : Mem) (a v : Nat) (h : m.Bytes) : (write16 m a v).Bytes := by
  intro x; unfold write16; repeat' split
  all_goals first | exact Nat.mod_lt _ (by decide) | exact h x
theorem write32_bytes (m : Mem) (a v : Nat) (h : m.Bytes) : (write32 m a v).Bytes := by
  intro x; unfold write32; repeat' split
  all_goals first | exact Nat.mod_lt _ (by decide) | exact h x

theorem or_shl (x y k : Nat) (hx : x < 2 ^ k) : x ||| (y <<< k) = x + y * 2 ^ k := by
  rw [Nat.shiftLeft_eq, Nat.or_comm, Nat.mul_comm, ← Nat.two_pow_add_eq_or_of_lt hx y]
  omega

theorem read16_write16 (m : Mem) (a v : Nat) : read16 (write16 m a v) a = v % 65536 := by
  unfold read16 write16
  rw [if_pos rfl, if_neg (by omega), if_pos rfl]
  rw [or_shl _ _ 8 (Nat.mod_lt _ (by decide)), Nat.shiftRight_eq_div_pow]
  simp only [Nat.reducePow]
  omega

theorem read32_write32 (m : Mem) (a v : Nat) : read32 (write32 m a v) a = v % 4294967296 := by
  unfold read32 write32
  rw [if_pos rfl, if_neg (by omega), if_pos rfl, if_neg (by omega), if_neg (by omega), if_pos rfl,
    if_neg (by omega), if_neg (by omega), if_neg (by omega), if_pos rfl]
  have h0 : v % 256 < 2 ^ 8 := Nat.mod_lt _ (by decide)
  rw [or_shl _ _ 8 h0]
  have h1 : v % 256 + (v >>> 8) % 256 * 2 ^ 8 < 2 ^ 16 := by
    have := Nat.mod_lt (v >>> 8) (by decide : 256 > 0); simp only [Nat.reducePow]; omega
  rw [or_shl _ _ 16 h1]
  have h2 : v % 256 + (v >>> 8) % 256 * 2 ^ 8 + (v >>> 16) % 256 * 2 ^ 16 < 2 ^ 24 := by
    have := Nat.mod_lt (v >>> 16) (by decide : 256 > 0); simp only [Nat.reducePow] at h1 ⊢; omega
  rw [or_shl _ _ 24 h2]
  simp only [Nat.shiftRight_eq_div_pow, Nat.reducePow]
  omega

theorem read32_other (m : Mem) (a v b : Nat) (h : b + 4 ≤ a ∨ a + 4 ≤ b) : read32 (write32 m a v) b = read32 m b := by
  unfold read32
  rw [write32_other m a v b (by omega), write32_other m a v (b + 1) (by omega), write32_other m a v (b + 2) (by omega),
    write32_other m a v (b + 3) (by omega)]

/-! ## single bits -/

theorem bit_of (x k : Nat) : (x >>> k) &&& 1 = (x.testBit k).toNat := by
  rw [Nat.and_one_is_mod, Nat.shiftRight_eq_div_pow, Nat.toNat_testBit]

theorem ones32 : (4294967295 : Nat) = 2 ^ 32 - 1 := by decide

/-- bit `j` of the word `STORE_1` writes: the new value at the addressed bit, the old word elsewhere -/
theorem store1_word_bit (W k v j : Nat) (hk : k < 32) (hj : j < 32) :
    ((((W &&& ((1 <<< k) ^^^ 4294967295)) ||| (if v ≠ 0 then 1 <<< k else 0)) % 4294967296).testBit j) =
      (if j = k then decide (v ≠ 0) else W.testBit j) := by
  have e32 : (4294967296 : Nat) = 2 ^ 32 := by decide
  rw [e32, Nat.testBit_mod_two_pow, Nat.testBit_or, Nat.testBit_and, Nat.testBit_xor, ones32,
    Nat.testBit_two_pow_sub_one, Nat.one_shiftLeft, Nat.testBit_two_pow]
  have hj' : decide (j < 32) = true := by simp [hj]
  rw [hj']
  by_cases h : j = k
  · subst h
    by_cases hv : v = 0
    · simp [hv]
    · simp [hv, Nat.testBit_two_pow_self]
  · have hne : ¬ (k = j) := fun e => h e.symm
    by_cases hv : v = 0
    · simp [h, hne, hv]
    · simp [h, hne, hv, Nat.testBit_two_pow_of_ne hne]

theorem shr5 (o : Nat) : o >>> 5 = o / 32 := by rw [Nat.shiftRight_eq_div_pow]
theorem and31 (o : Nat) : o &&& 0x1f = o % 32 := Nat.and_two_pow_sub_one_eq_mod o 5

/-- `FETCH_1` after `STORE_1` at the same offset -/
theorem fetch1_store1_same (m : Mem) (l o v : Nat) : fetch1 (store1 m l o v) l o = if v ≠ 0 then 1 else 0 := by
  unfold fetch1 store1
  try simp only []
  rw [read32_write32, bit_of, and31]
  rw [← and31, store1_word_bit _ _ _ _ (by rw [and31]; exact Nat.mod_lt _ (by decide)) (by rw [and31]; exact Nat.mod_lt _ (by decide))]
  by_cases hv : v = 0 <;> simp [hv]

/-- `FETCH_1` at another offset is not affected by `STORE_1` -/
theorem fetch1_store1_other (m : Mem) (l o o' v : Nat) (h : o' ≠ o) : fetch1 (store1 m l o v) l o' = fetch1 m l o' := by
  unfold fetch1 store1
  try simp only []
  by_cases hw : o' >>> 5 = o >>> 5
  · rw [hw, read32_write32, bit_of, bit_of]
    have hb : o' &&& 0x1f ≠ o &&& 0x1f := by
      rw [shr5, shr5] at hw; rw [and31, and31]; omega
    rw [store1_word_bit _ _ _ _ (by rw [and31]; exact Nat.mod_lt _ (by decide)) (by rw [and31]; exact Nat.mod_lt _ (by decide)),
      if_neg hb]
  · rw [read32_other]
    rw [shr5, shr5] at hw ⊢
    omega

/-- `STORE_1` touches only the four bytes of the addressed 32-bit word -/
theorem store1_frame (m : Mem) (l o v x : Nat) (h : x < l + 4 * (o / 32) ∨ l + 4 * (o / 32) + 4 ≤ x) :
    store1 m l o v x = m x := by
  unfold store1
  try simp only []
  rw [shr5]
  exact write32_other _ _ _ _ h

/-! ## nibbles -/

theorem and4 (o : Nat) : ((4 * o) &&& 4 ≠ 0) ↔ o % 2 = 1 := by
  have e : (4 * o) &&& 4 = (o &&& 1) <<< 2 := by
    rw [Nat.shiftLeft_and_distrib, Nat.shiftLeft_eq, Nat.mul_comm]; rfl
  rw [e, Nat.and_one_is_mod, Nat.shiftLeft_eq]
  omega

theorem shr3_4 (o : Nat) : (4 * o) >>> 3 = o / 2 := by rw [Nat.shiftRight_eq_div_pow]; omega

theorem nibble_facts (B y : Nat) (hB : B < 256) (hy : y < 16) :
    (((B &&& 0x0f) ||| (y <<< 4)) % 256) >>> 4 = y ∧ (((B &&& 0x0f) ||| (y <<< 4)) % 256) &&& 0xf = B &&& 0xf ∧
    (((B &&& 0xf0) ||| y) % 256) &&& 0xf = y ∧ (((B &&& 0xf0) ||| y) % 256) >>> 4 = B >>> 4 :=
  nibble_table B (List.mem_range.mpr hB) y (List.mem_range.mpr hy)

theorem and15_lt (v : Nat) : v &&& 0x0f < 16 := by
  have := Nat.and_two_pow_sub_one_eq_mod v 4
  simp only [Nat.reducePow, Nat.reduceSub] at this
  rw [this]; exact Nat.mod_lt _ (by decide)

/-- `FETCH_4` after `STORE_4` at the same offset -/
theorem fetch4_store4_same (m : Mem) (hb : m.Bytes) (l o v : Nat) : fetch4 (store4 m l o v) l o = v &&& 0x0f := by
  unfold fetch4 store4 store8 fetch8 read8
  try simp only []
  obtain ⟨f1, _, f3, _⟩ := nibble_facts (m (l + (4 * o) >>> 3)) (v &&& 0x0f) (hb _) (and15_lt v)
  by_cases hodd : (4 * o) &&& 4 ≠ 0
  · rw [if_pos hodd, if_pos hodd, write8_same]; exact f1
  · rw [if_neg hodd, if_neg hodd, write8_same]; exact f3

/-- `FETCH_4` at another offset is not affected by `STORE_4` (the other nibble of the byte included) -/
theorem fetch4_store4_other (m : Mem) (hb : m.Bytes) (l o o' v : Nat) (h : o' ≠ o) :
    fetch4 (store4 m l o v) l o' = fetch4 m l o' := by
  unfold fetch4 store4 store8 fetch8 read8
  try simp only []
  obtain ⟨_, f2, _, f4⟩ := nibble_facts (m (l + (4 * o) >>> 3)) (v &&& 0x0f) (hb _) (and15_lt v)
  by_cases hbyte : o' / 2 = o / 2
  · have ea : l + (4 * o') >>> 3 = l + (4 * o) >>> 3 := by rw [shr3_4, shr3_4, hbyte]
    rw [ea, write8_same]
    by_cases hodd : (4 * o) &&& 4 ≠ 0
    · have ho' : ¬ ((4 * o') &&& 4 ≠ 0) := by
        rw [and4] at hodd ⊢; omega
      rw [if_pos hodd, if_neg ho', if_neg ho']; exact f2
    · have ho' : (4 * o') &&& 4 ≠ 0 := by
        rw [and4] at hodd ⊢; omega
      rw [if_neg hodd, if_pos ho', if_pos ho']; exact f4
  · have ne : l + (4 * o') >>> 3 ≠ l + (4 * o) >>> 3 := by rw [shr3_4, shr3_4]; omega
    rw [write8_other _ _ _ _ ne]

/-- `STORE_4` touches only the addressed byte -/
theorem store4_frame (m : Mem) (l o v x : Nat) (h : x ≠ l + o / 2) : store4 m l o v x = m x := by
  unfold store4 store8
  try simp only []
  rw [shr3_4]
  exact write8_other _ _ _ _ h


/-! ## three-byte pixels -/

theorem store24_apply (m : Mem) (l o v x : Nat) : store24 m l o v x =
    if x = l + 3 * o + 2 then ((v &&& 0x00ff0000) >>> 16) % 256
    else if x = l + 3 * o + 1 then ((v &&& 0x0000ff00) >>> 8) % 256
    else if x = l + 3 * o then ((v &&& 0x000000ff) >>> 0) % 256 else m x := by
  unfold store24 write8
  rfl

theorem byte0 (v : Nat) : ((v &&& 0x000000ff) >>> 0) % 256 = v % 256 := by
  have := Nat.and_two_pow_sub_one_eq_mod v 8
  simp only [Nat.reducePow, Nat.reduceSub] at this
  rw [Nat.shiftRight_zero, this, Nat.mod_mod]
theorem byte1 (v : Nat) : ((v &&& 0x0000ff00) >>> 8) % 256 = (v / 256) % 256 := by
  have := Nat.and_two_pow_sub_one_eq_mod (v >>> 8) 8
  simp only [Nat.reducePow, Nat.reduceSub] at this
  rw [Nat.shiftRight_and_distrib, show (0x0000ff00 : Nat) >>> 8 = 255 by decide, this, Nat.mod_mod, Nat.shiftRight_eq_div_pow]
theorem byte2 (v : Nat) : ((v &&& 0x00ff0000) >>> 16) % 256 = (v / 65536) % 256 := by
  have := Nat.and_two_pow_sub_one_eq_mod (v >>> 16) 8
  simp only [Nat.reducePow, Nat.reduceSub] at this
  rw [Nat.shiftRight_and_distrib, show (0x00ff0000 : Nat) >>> 16 = 255 by decide, this, Nat.mod_mod, Nat.shiftRight_eq_div_pow]

theorem fetch24_store24_same (m : Mem) (l o v : Nat) : fetch24 (store24 m l o v) l o = v % 16777216 := by
  unfold fetch24 read8
  rw [Nat.mul_comm o 3, store24_apply, store24_apply, store24_apply]
  rw [if_neg (by omega), if_neg (by omega), if_pos (by omega), if_neg (by omega), if_pos (by omega), if_pos (by omega)]
  rw [byte0, byte1, byte2, Nat.shiftLeft_zero]
  have h0 : v % 256 < 2 ^ 8 := Nat.mod_lt _ (by decide)
  rw [or_shl _ _ 8 h0]
  have h1 : v % 256 + v / 256 % 256 * 2 ^ 8 < 2 ^ 16 := by
    have := Nat.mod_lt (v / 256) (by decide : 256 > 0); simp only [Nat.reducePow]; omega
  rw [or_shl _ _ 16 h1]
  simp only [Nat.reducePow]
  omega

theorem store24_frame (m : Mem) (l o v x : Nat) (h : x < l + 3 * o ∨ l + 3 * o + 3 ≤ x) : store24 m l o v x = m x := by
  rw [store24_apply, if_neg (by omega), if_neg (by omega), if_neg (by omega)]

theorem fetch24_store24_other (m : Mem) (l o o' v : Nat) (h : o' ≠ o) : fetch24 (store24 m l o v) l o' = fetch24 m l o' := by
  unfold fetch24 read8
  rw [Nat.mul_comm o' 3]
  rw [store24_frame _ _ _ _ _ (by omega), store24_frame _ _ _ _ _ (by omega), store24_frame _ _ _ _ _ (by omega)]

/-! ## `fetch_and_convert_pixel` / `convert_and_store_pixel`: the raw pixel -/

/-- the supported pixel sizes of `MAKE_ACCESSORS` formats -/
def Bpp (bpp : Nat) : Prop := bpp = 1 ∨ bpp = 4 ∨ bpp = 8 ∨ bpp = 16 ∨ bpp = 24 ∨ bpp = 32

/-- first byte and byte count of the storage unit `STORE_*` reads and writes for pixel `o`: the 32-bit word for
1 bpp, the byte for 4 bpp, the pixel's own bytes otherwise -/
def unitLo (bits o bpp : Nat) : Nat :=
  if bpp = 1 then bits + 4 * (o / 32) else if bpp = 4 then bits + o / 2 else if bpp = 8 then bits + o
  else if bpp = 16 then bits + 2 * o else if bpp = 24 then bits + 3 * o else bits + 4 * o
def unitLen (bpp : Nat) : Nat :=
  if bpp = 1 then 4 else if bpp = 4 then 1 else if bpp = 8 then 1 else if bpp = 16 then 2 else if bpp = 24 then 3 else 4

theorem and1 (v : Nat) : v &&& 0x01 = v % 2 := Nat.and_one_is_mod v
theorem and_ff (v : Nat) : v &&& 0xff = v % 256 := Nat.and_two_pow_sub_one_eq_mod v 8
theorem and_ffff (v : Nat) : v &&& 0xffff = v % 65536 := Nat.and_two_pow_sub_one_eq_mod v 16
theorem and_f (v : Nat) : v &&& 0xf = v % 16 := Nat.and_two_pow_sub_one_eq_mod v 4

/-- reading back the pixel that was just stored gives the stored value (its low `bpp` bits) -/
theorem fetchRaw_storeRaw_same (m : Mem) (hb : m.Bytes) (bits o bpp v : Nat) (h : Bpp bpp) :
    fetchRaw (storeRaw m bits o bpp v) bits o bpp = v % 2 ^ bpp := by
  rcases h with h | h | h | h | h | h <;> subst h <;> simp only [fetchRaw, storeRaw] <;>
    simp only [Nat.reduceEqDiff, if_true, if_false, Nat.reducePow]
  · rw [fetch1_store1_same, and1]
    have : v % 2 = 0 ∨ v % 2 = 1 := by omega
    cases this with
    | inl h => rw [h]; rfl
    | inr h => rw [h]; rfl
  · rw [fetch4_store4_same m hb, and_f, show (0x0f : Nat) = 0xf from rfl, and_f, Nat.mod_mod]
  · unfold read8; rw [write8_same, and_ff, Nat.mod_mod]
  · rw [read16_write16, and_ffff, Nat.mod_mod]
  · exact fetch24_store24_same m bits o v
  · exact read32_write32 m _ v

/-- **no other pixel changes**: a store at offset `o` leaves the raw value of every other offset as it was
(neighbours inside the same byte or 32-bit word included) -/
theorem fetchRaw_storeRaw_other (m : Mem) (hb : m.Bytes) (bits o o' bpp v : Nat) (h : Bpp bpp) (hne : o' ≠ o) :
    fetchRaw (storeRaw m bits o bpp v) bits o' bpp = fetchRaw m bits o' bpp := by
  rcases h with h | h | h | h | h | h <;> subst h <;> simp only [fetchRaw, storeRaw] <;>
    simp only [Nat.reduceEqDiff, if_true, if_false]
  · exact fetch1_store1_other m bits o o' _ hne
  · exact fetch4_store4_other m hb bits o o' _ hne
  · unfold read8; exact write8_other _ _ _ _ (by omega)
  · unfold read16; rw [write16_other _ _ _ _ (by omega), write16_other _ _ _ _ (by omega)]
  · exact fetch24_store24_other m bits o o' v hne
  · exact read32_other m _ _ _ (by omega)

/-- **no byte outside the addressed storage unit changes** -/
theorem storeRaw_frame (m : Mem) (bits o bpp v x : Nat) (h : Bpp bpp)
    (hx : x < unitLo bits o bpp ∨ unitLo bits o bpp + unitLen bpp ≤ x) : storeRaw m bits o bpp v x = m x := by
  rcases h with h | h | h | h | h | h <;> subst h <;> simp only [storeRaw, unitLo, unitLen] at hx ⊢ <;>
    simp only [Nat.reduceEqDiff, if_true, if_false] at hx ⊢
  · exact store1_frame m bits o _ x hx
  · exact store4_frame m bits o _ x (by omega)
  · exact write8_other _ _ _ _ (by omega)
  · exact write16_other _ _ _ _ hx
  · exact store24_frame m bits o v x hx
  · exact write32_other _ _ _ _ hx

theorem store24_bytes (m : Mem) (l o v : Nat) (h : m.Bytes) : (store24 m l o v).Bytes := by
  unfold store24
  exact write8_bytes _ _ _ (write8_bytes _ _ _ (write8_bytes _ _ _ h))

theorem storeRaw_bytes (m : Mem) (bits o bpp v : Nat) (h : m.Bytes) : (storeRaw m bits o bpp v).Bytes := by
  unfold storeRaw
  by_cases h1 : bpp = 1
  · rw [if_pos h1]; unfold store1; exact write32_bytes _ _ _ h
  rw [if_neg h1]
  by_cases h4 : bpp = 4
  · rw [if_pos h4]; unfold store4 store8; exact write8_bytes _ _ _ h
  rw [if_neg h4]
  by_cases h8 : bpp = 8
  · rw [if_pos h8]; exact write8_bytes _ _ _ h
  rw [if_neg h8]
  by_cases h16 : bpp = 16
  · rw [if_pos h16]; exact write16_bytes _ _ _ h
  rw [if_neg h16]
  by_cases h24 : bpp = 24
  · rw [if_pos h24]; exact store24_bytes _ _ _ _ h
  rw [if_neg h24]
  by_cases h32 : bpp = 32
  · rw [if_pos h32]; exact write32_bytes _ _ _ h
  rw [if_neg h32]; exact write8_bytes _ _ _ h

/-! ## scanlines -/

/-- scanline fetch = map of the pixel fetch -/
theorem fetchScanlineLoop_eq_map (pal : Palette) (m : Mem) (bits f : Nat) (x w : Nat) :
    fetchScanlineLoop pal m bits f x w = (List.range w).map (fun i => fetchAndConvertPixel pal m bits (x + i) f) := by
  induction w generalizing x with
  | zero => rfl
  | succ n ih =>
    simp only [fetchScanlineLoop, List.range_succ_eq_map, List.map_cons, List.map_map, Nat.add_zero, ih]
    refine congrArg _ ?_
    apply List.map_congr_left
    intro i _
    simp only [Function.comp, Nat.succ_eq_add_one]
    rw [show x + 1 + i = x + (i + 1) by omega]

/-- scanline store = the pixel stores in order -/
theorem storeScanlineLoop_eq_foldl (pal : Palette) (dest f : Nat) (m : Mem) (x : Nat) (vs : List Nat) :
    storeScanlineLoop pal dest f m x vs =
      (vs.zipIdx x).foldl (fun m vi => convertAndStorePixel pal m dest vi.2 f vi.1) m := by
  induction vs generalizing m x with
  | nil => rfl
  | cons v vs ih => rw [storeScanlineLoop, ih, List.zipIdx_cons, List.foldl_cons]

theorem storeScanlineLoop_bytes (pal : Palette) (dest f : Nat) (m : Mem) (x : Nat) (vs : List Nat) (h : m.Bytes) :
    (storeScanlineLoop pal dest f m x vs).Bytes := by
  induction vs generalizing m x with
  | nil => exact h
  | cons v vs ih => rw [storeScanlineLoop, convertAndStorePixel]; exact ih _ _ (storeRaw_bytes _ _ _ _ _ h)

/-- a scanline store leaves every pixel outside `[x, x + n)` as it was -/
theorem storeScanlineLoop_other (pal : Palette) (dest f : Nat) (m : Mem) (hb : m.Bytes) (x : Nat) (vs : List Nat)
    (hbpp : Bpp (fmtBpp f)) (o' : Nat) (ho : o' < x ∨ x + vs.length ≤ o') :
    fetchRaw (storeScanlineLoop pal dest f m x vs) dest o' (fmtBpp f) = fetchRaw m dest o' (fmtBpp f) := by
  induction vs generalizing m x with
  | nil => rfl
  | cons v vs ih =>
    rw [storeScanlineLoop, convertAndStorePixel]
    simp only [List.length_cons] at ho
    rw [ih _ (storeRaw_bytes _ _ _ _ _ hb) (x + 1) (by omega)]
    exact fetchRaw_storeRaw_other m hb dest x o' _ _ hbpp (by omega)

/-- after a scanline store pixel `x + i` holds the `i`-th converted value -/
theorem storeScanlineLoop_at (pal : Palette) (dest f : Nat) (m : Mem) (hb : m.Bytes) (x : Nat) (vs : List Nat)
    (hbpp : Bpp (fmtBpp f)) (i : Nat) (hi : i < vs.length) :
    fetchRaw (storeScanlineLoop pal dest f m x vs) dest (x + i) (fmtBpp f) =
      convertPixelFromA8r8g8b8 pal f (vs.getD i 0) % 2 ^ fmtBpp f := by
  induction vs generalizing m x i with
  | nil => simp at hi
  | cons v vs ih =>
    rw [storeScanlineLoop, convertAndStorePixel]
    cases i with
    | zero =>
      have e0 : x + 0 = x := rfl
      rw [e0, storeScanlineLoop_other pal dest f _ (storeRaw_bytes _ _ _ _ _ hb) (x + 1) vs hbpp x (by omega)]
      exact fetchRaw_storeRaw_same m hb dest x _ _ hbpp
    | succ j =>
      simp only [List.length_cons] at hi
      rw [show x + (j + 1) = x + 1 + j by omega,
        ih (storeRaw m dest x (fmtBpp f) (convertPixelFromA8r8g8b8 pal f v)) (storeRaw_bytes _ _ _ _ _ hb) (x + 1) j (by omega)]
      rfl

/-- a scanline store leaves every byte outside the storage units of its pixels as it was -/
theorem storeScanlineLoop_frame (pal : Palette) (dest f : Nat) (m : Mem) (x : Nat) (vs : List Nat)
    (hbpp : Bpp (fmtBpp f)) (a : Nat)
    (ha : ∀ i, i < vs.length → a < unitLo dest (x + i) (fmtBpp f) ∨ unitLo dest (x + i) (fmtBpp f) + unitLen (fmtBpp f) ≤ a) :
    storeScanlineLoop pal dest f m x vs a = m a := by
  induction vs generalizing m x with
  | nil => rfl
  | cons v vs ih =>
    rw [storeScanlineLoop, convertAndStorePixel]
    rw [ih _ (x + 1) (by
      intro i hi
      have := ha (i + 1) (by simp only [List.length_cons]; omega)
      rw [show x + (i + 1) = x + 1 + i by omega] at this
      exact this)]
    have h0 := ha 0 (by simp)
    rw [Nat.add_zero] at h0
    exact storeRaw_frame m dest x _ _ a hbpp h0

end Pixman.Lemmas.FormatMem

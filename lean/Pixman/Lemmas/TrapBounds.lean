import Pixman.Model.Trap
import Pixman.Lemmas.TrapRow
import Pixman.Lemmas.TrapFill
import Pixman.Lemmas.TrapRows
import Pixman.Lemmas.TrapShape
import Pixman.Lemmas.TrapSetup
import Pixman.Gen.EdgeClamps
/-! C04 / S8 — the trapezoid rasteriser stays inside the pixel rows.  Built on C12's literal model
    (`Pixman/Model/Trap.lean`, `Model/Edge.lean`) and its decompositions (`row1Core`, `row4Core`,
    `row8FillCore`, `fillMid`, `naiveLoop`); the clamps are the REGENERATED ones of
    `Pixman/Gen/EdgeClamps.lean`.  No hypothesis on the edges: arbitrary `int32` walker state. -/
namespace Pixman.Lemmas.TrapBounds
open Pixman.Trap Pixman.Gen.EdgeClamps Pixman.Gen.SampleGrid Pixman.Spec.SampleGrid
open Pixman.Lemmas.TrapRow Pixman.Lemmas.TrapFill Pixman.Lemmas.TrapRows Pixman.Lemmas.TrapShape

/-! ### the model uses exactly the clamps of the source (bridges to `Gen/EdgeClamps`) -/

theorem row1_clamps (row : Array Nat) (width lx rx : Int) :
    row1 row width lx rx = row1Core row (clampLx1 (wrap32 (lx + (xFracFirst 1 - 1))))
      (clampRx1 (wrap32 (rx + (xFracFirst 1 - 1))) width) := rfl

theorem row4_clamps (row : Array Nat) (width lx rx : Int) :
    row4 row width lx rx = row4Core row (clampLxN lx) (clampRxN rx width) := rfl

theorem row8Fill_clamps (row : Array Nat) (width lx rx : Int) (fs : Fill) :
    row8Fill row width lx rx fs = row8FillCore row (clampLx8 lx) (clampRx8 rx width) fs := rfl

theorem trapSetup_clamps (n : Nat) (height xo yo : Int) (tr : Trap) :
    trapSetup n height xo yo tr =
      if sampleFloorY (clampBotTraps (wrap32 (tr.botY + yo)) height) n ≥ sampleCeilY (clampTopTraps (wrap32 (tr.topY + yo))) n then
        some (sampleCeilY (clampTopTraps (wrap32 (tr.topY + yo))) n,
              sampleFloorY (clampBotTraps (wrap32 (tr.botY + yo)) height) n,
              edgeInit n (sampleCeilY (clampTopTraps (wrap32 (tr.topY + yo))) n) (wrap32 (tr.topL + xo)) (wrap32 (tr.topY + yo))
                (wrap32 (tr.botL + xo)) (wrap32 (tr.botY + yo)),
              edgeInit n (sampleCeilY (clampTopTraps (wrap32 (tr.topY + yo))) n) (wrap32 (tr.topR + xo)) (wrap32 (tr.topY + yo))
                (wrap32 (tr.botR + xo)) (wrap32 (tr.botY + yo)))
      else none := rfl

theorem trapezoidSetup_clamps (n : Nat) (height : Int) (tr : Trapezoid) (xOff yOff : Int) :
    trapezoidSetup n height tr xOff yOff =
      if !tr.valid then none else
      if sampleFloorY (clampBotTrapezoid (wrap32 (tr.bottom + intToFixed yOff)) height) n ≥
         sampleCeilY (clampTopTrapezoid (wrap32 (tr.top + intToFixed yOff))) n then
        some (sampleCeilY (clampTopTrapezoid (wrap32 (tr.top + intToFixed yOff))) n,
              sampleFloorY (clampBotTrapezoid (wrap32 (tr.bottom + intToFixed yOff)) height) n,
              lineFixedEdgeInit n (sampleCeilY (clampTopTrapezoid (wrap32 (tr.top + intToFixed yOff))) n)
                tr.left.p1.x tr.left.p1.y tr.left.p2.x tr.left.p2.y xOff yOff,
              lineFixedEdgeInit n (sampleCeilY (clampTopTrapezoid (wrap32 (tr.top + intToFixed yOff))) n)
                tr.right.p1.x tr.right.p1.y tr.right.p2.x tr.right.p2.y xOff yOff)
      else none := rfl

/-! ### columns: after the clamps a drawn span lies inside the row -/

theorem intToFixed_small (w : Int) (hw : 0 ≤ w ∧ w ≤ 32767) : intToFixed w = w * 65536 := by
  unfold intToFixed wrap32; omega

/-- a4 (and a8, same text): whenever the span is drawn (`rx > lx`), `0 ≤ lxi ≤ rxi ≤ width - 1`; the row body
    touches exactly the pixels `lxi, lxi+1 … rxi-1, rxi` (`row4Core`, `row8FillCore`) -/
theorem spanN_bounds (lx0 rx0 width : Int) (hw : 0 ≤ width ∧ width ≤ 32767)
    (h : clampRxN rx0 width > clampLxN lx0) :
    0 ≤ fixedToInt (clampLxN lx0) ∧ fixedToInt (clampLxN lx0) ≤ fixedToInt (clampRxN rx0 width) ∧
    fixedToInt (clampRxN rx0 width) ≤ width - 1 := by
  unfold clampRxN clampLxN at *
  have e : wrap32 (width * 65536 - 1) = width * 65536 - 1 := by unfold wrap32; omega
  simp only [intToFixed_small width hw, e, fixedToInt] at h ⊢
  split at h <;> split at h <;> (try split) <;> (try split) <;> omega

theorem span8_bounds (lx0 rx0 width : Int) (hw : 0 ≤ width ∧ width ≤ 32767)
    (h : clampRx8 rx0 width > clampLx8 lx0) :
    0 ≤ fixedToInt (clampLx8 lx0) ∧ fixedToInt (clampLx8 lx0) ≤ fixedToInt (clampRx8 rx0 width) ∧
    fixedToInt (clampRx8 rx0 width) ≤ width - 1 := by
  unfold clampRx8 clampLx8 at *
  have e : wrap32 (width * 65536 - 1) = width * 65536 - 1 := by unfold wrap32; omega
  simp only [intToFixed_small width hw, e, fixedToInt] at h ⊢
  split at h <;> split at h <;> (try split) <;> (try split) <;> omega

/-- a1: whenever the span is drawn, `0 ≤ lxi ≤ rxi ≤ width`; `row1Core` sets exactly the pixels
    `lxi … rxi - 1` -/
theorem span1_bounds (lx rx width : Int) (hw : 0 ≤ width ∧ width ≤ 32767)
    (h : clampRx1 rx width > clampLx1 lx) :
    0 ≤ fixedToInt (clampLx1 lx) ∧ fixedToInt (clampLx1 lx) ≤ fixedToInt (clampRx1 rx width) ∧
    fixedToInt (clampRx1 rx width) ≤ width := by
  unfold clampRx1 clampLx1 at *
  simp only [intToFixed_small width hw, fixedToInt] at h ⊢
  split at h <;> split at h <;> (try split) <;> (try split) <;> omega

/-! ### rows: the loop touches only pixel rows between the first and the last sample row -/

/-- what a run of the row loop may change: dimensions, the `oob` / `runaway` flags, the number of rows and
    the length of every row stay; rows outside `[lo, hi]` are untouched -/
structure Frame (img out : Img) (lo hi : Int) : Prop where
  width : out.width = img.width
  height : out.height = img.height
  oob : out.oob = img.oob
  runaway : out.runaway = img.runaway
  nrows : out.rows.size = img.rows.size
  rowlen : ∀ k : Nat, (out.rows[k]?.getD #[]).size = (img.rows[k]?.getD #[]).size
  outside : ∀ k : Nat, ((k : Int) < lo ∨ hi < (k : Int)) → out.rows[k]? = img.rows[k]?

theorem Frame.trans {a b c : Img} {lo hi lo' hi' : Int} (h1 : Frame a b lo hi) (h2 : Frame b c lo' hi')
    (hlo : lo ≤ lo') (hhi : hi' ≤ hi) : Frame a c lo hi :=
  ⟨h2.width.trans h1.width, h2.height.trans h1.height, h2.oob.trans h1.oob, h2.runaway.trans h1.runaway,
   h2.nrows.trans h1.nrows, fun k => (h2.rowlen k).trans (h1.rowlen k),
   fun k hk => (h2.outside k (by omega)).trans (h1.outside k hk)⟩

/-- one row update inside the image -/
theorem modifyRow_frame (n : Nat) (img : Img) (y : Int) (l r : Int) (hsz : img.rows.size = img.height)
    (hin : 0 ≤ fixedToInt y ∧ fixedToInt y < (img.height : Int)) :
    Frame img (img.modifyRow (fixedToInt y) fun row => rowOp n row img.width l r) (fixedToInt y) (fixedToInt y) := by
  have hk : (fixedToInt y).toNat < img.rows.size := by omega
  have e : (img.modifyRow (fixedToInt y) fun row => rowOp n row img.width l r) =
      { img with rows := img.rows.modify (fixedToInt y).toNat fun row => rowOp n row img.width l r } := by
    simp only [Img.modifyRow, hin, and_self, if_true]
  rw [e]
  refine ⟨rfl, rfl, rfl, rfl, by simp only [Array.size_modify], ?_, ?_⟩
  · intro k
    simp only
    by_cases hkk : k < img.rows.size
    · rw [getD_modify _ _ _ _ hk]
      split
      · next h => rw [rowOp_size]
      · rfl
    · have h1 : ¬ k < (img.rows.modify (fixedToInt y).toNat fun row => rowOp n row img.width l r).size := by
        simp only [Array.size_modify]; exact hkk
      simp only [Array.getElem?_eq_none_iff.2 (by omega : img.rows.size ≤ k)]
      rw [Array.getElem?_eq_none_iff.2 (by simp only [Array.size_modify]; omega)]
  · intro k hko
    simp only
    rw [Array.getElem?_modify]
    have : (fixedToInt y).toNat ≠ k := by omega
    simp only [this, if_false]

/-- the row loop of `rasterize_edges_N` started at a grid row `y ≤ b` inside the image, for ARBITRARY edges -/
theorem naiveLoop_frame (n : Nat) (hn : Depth n) (b : Int) (hb : IsGridRow n b) (hb2 : b ≤ 2147483647) :
    ∀ (fuel : Nat) (y : Int) (l r : Edge) (img : Img), img.rows.size = img.height → IsGridRow n y → y ≤ b → 0 ≤ y →
      b / 65536 < (img.height : Int) → (b - y) / stepYSmall n + 1 ≤ (fuel : Int) →
      Frame img (naiveLoop n b fuel y l r img) (y / 65536) (b / 65536) := by
  intro fuel
  induction fuel with
  | zero => intro y l r img _ _ hyb _ _ hf; exact (fuel_ne_zero n hn y b hyb hf).elim
  | succ fuel ih =>
    intro y l r img hsz hy hyb hy0 hbh hf
    have hline0 : 0 ≤ fixedToInt y := Int.ediv_nonneg hy0 (by decide)
    have hlineb : fixedToInt y ≤ b / 65536 := Int.ediv_le_ediv (by decide) hyb
    have hin : 0 ≤ fixedToInt y ∧ fixedToInt y < (img.height : Int) := ⟨hline0, by omega⟩
    have f1 := modifyRow_frame n img y l.x r.x hsz hin
    generalize himg1 : (img.modifyRow (fixedToInt y) fun row => rowOp n row img.width l.x r.x) = img1 at f1
    have hsz1 : img1.rows.size = img1.height := by rw [f1.nrows, f1.height]; exact hsz
    simp only [naiveLoop]
    rw [himg1]
    by_cases hyeq : y = b
    · have hbe : (y == b) = true := by simp [hyeq]
      simp only [hbe, if_true]
      exact ⟨f1.width, f1.height, f1.oob, f1.runaway, f1.nrows, f1.rowlen,
        fun k hk => f1.outside k (by simp only [fixedToInt] at *; omega)⟩
    · have hbe : (y == b) = false := by simp [hyeq]
      simp only [hbe, Bool.false_eq_true, if_false]
      obtain ⟨g1, g2, g3, g4, _, g6⟩ := nextY_grid n hn y b hy hb (by omega)
      have hw : wrap32 (nextY n y) = nextY n y := Pixman.Lemmas.Trap.wrap32_id _ (by omega) (by omega)
      have hfuel := fuel_step n hn y (nextY n y) b fuel g4 g3 hf
      have hny0 : y / 65536 ≤ nextY n y / 65536 := by omega
      have f1' : Frame img img1 (y / 65536) (b / 65536) :=
        ⟨f1.width, f1.height, f1.oob, f1.runaway, f1.nrows, f1.rowlen,
          fun k hk => f1.outside k (by simp only [fixedToInt] at *; omega)⟩
      rcases Bool.eq_false_or_eq_true (n != 1 && fixedFrac y != yFracLast n) with hc | hc
      · have hny : nextY n y = y + stepYSmall n := by simp only [nextY, hc, if_true]
        simp only [hc, if_true, ← hny, hw]
        have q := ih (nextY n y) (stepSmall l) (stepSmall r) img1 hsz1 g1 g3 (by omega) (by rw [f1.height]; exact hbh) hfuel
        exact f1'.trans q hny0 (Int.le_refl _)
      · have hny : nextY n y = y + stepYBig n := by simp only [nextY, hc, Bool.false_eq_true, if_false]
        simp only [hc, Bool.false_eq_true, if_false, ← hny, hw]
        have q := ih (nextY n y) (stepBig l) (stepBig r) img1 hsz1 g1 g3 (by omega) (by rw [f1.height]; exact hbh) hfuel
        exact f1'.trans q hny0 (Int.le_refl _)

theorem Frame.refl (img : Img) (lo hi : Int) : Frame img img lo hi :=
  ⟨rfl, rfl, rfl, rfl, rfl, fun _ => rfl, fun _ _ => rfl⟩

theorem Frame.widen {a b : Img} {lo hi lo' hi' : Int} (h : Frame a b lo hi) (hlo : lo' ≤ lo) (hhi : hi ≤ hi') :
    Frame a b lo' hi' :=
  ⟨h.width, h.height, h.oob, h.runaway, h.nrows, h.rowlen, fun k hk => h.outside k (by omega)⟩

/-- `pixman_rasterize_edges` between grid rows `t ≤ b` whose pixel rows are rows of the image, ARBITRARY edges,
    every depth (for a8: the real span-fill loop, through C12's `edgesLoop8_eq_naive`) -/
theorem rasterizeEdges_frame (n : Nat) (hn : Depth n) (img : Img) (hsz : img.rows.size = img.height) (l r : Edge) (t b : Int)
    (ht : IsGridRow n t) (hb : IsGridRow n b) (htb : t ≤ b) (ht0 : 0 ≤ t) (hbh : b / 65536 < (img.height : Int))
    (hb2 : b ≤ 2147483647) :
    Frame img (rasterizeEdges n img l r t b) (t / 65536) (b / 65536) := by
  rw [rasterizeEdges_eq_naiveLoop n hn img l r t b ht hb htb (by omega) hb2]
  apply naiveLoop_frame n hn b hb hb2 _ t l r img hsz ht htb ht0 hbh
  simp only [rowFuel]
  have : 0 ≤ (b - t) / stepYSmall n := Int.ediv_nonneg (by omega) (by
    rcases hn with h | h | h <;> subst h <;> simp only [stepYSmall] <;> omega)
  omega

theorem wrap32_range (v : Int) : -2147483648 ≤ wrap32 v ∧ wrap32 v ≤ 2147483647 := by unfold wrap32; omega

theorem clampBot_row (B : Int) (height : Nat) (hB : -2147483648 ≤ B ∧ B ≤ 2147483647) :
    let b := if fixedToInt B ≥ (height : Int) then wrap32 (intToFixed (height : Int) - 1) else B
    (-2147483648 ≤ b ∧ b ≤ 2147483647) ∧ b / 65536 < (height : Int) := by
  simp only
  split
  · have := wrap32_range (intToFixed (height : Int) - 1)
    refine ⟨this, ?_⟩
    unfold intToFixed wrap32; omega
  · rename_i h; unfold fixedToInt at h; exact ⟨hB, by omega⟩

/-- the common tail of both entry points: first row `sample_ceil_y (max T 0)`, last row
    `sample_floor_y (clamp B)`, then the loop -/
theorem clamped_run_frame (n : Nat) (hn : Depth n) (img : Img) (hsz : img.rows.size = img.height) (l r : Edge) (T B : Int)
    (hT : -2147483648 ≤ T ∧ T ≤ 2147483647) (hB : -2147483648 ≤ B ∧ B ≤ 2147483647)
    (hrun : sampleFloorY (if fixedToInt B ≥ (img.height : Int) then wrap32 (intToFixed (img.height : Int) - 1) else B) n ≥
            sampleCeilY (if T < 0 then 0 else T) n) :
    Frame img (rasterizeEdges n img l r (sampleCeilY (if T < 0 then 0 else T) n)
      (sampleFloorY (if fixedToInt B ≥ (img.height : Int) then wrap32 (intToFixed (img.height : Int) - 1) else B) n))
      0 ((img.height : Int) - 1) := by
  have hb := clampBot_row B img.height hB
  simp only at hb
  have hT' : 0 ≤ (if T < 0 then 0 else T) ∧ (if T < 0 then 0 else T) ≤ 2147483647 := by split <;> omega
  obtain ⟨g1, g2, g3, g4⟩ := Pixman.Lemmas.TrapSetup.sampleRows_in_image n hn img.height _ _ hT' hb.1 hb.2 hrun
  have ht0 : 0 ≤ sampleCeilY (if T < 0 then 0 else T) n := by
    apply Classical.byContradiction; intro hneg
    have : sampleCeilY (if T < 0 then 0 else T) n / 65536 < 0 := by omega
    omega
  have hb2 : sampleFloorY (if fixedToInt B ≥ (img.height : Int) then wrap32 (intToFixed (img.height : Int) - 1) else B) n ≤ 2147483647 := by
    have : sampleFloorY (if fixedToInt B ≥ (img.height : Int) then wrap32 (intToFixed (img.height : Int) - 1) else B) n / 65536 < 32768 ∨
        (img.height : Int) ≥ 32768 := by omega
    by_cases hbig : -2147483648 + yFracFirst n <
        (if fixedToInt B ≥ (img.height : Int) then wrap32 (intToFixed (img.height : Int) - 1) else B)
    · have := (Pixman.Lemmas.TrapSetup.sampleFloorY_grid n hn _ hbig hb.1.2).2.1; omega
    · have := (Pixman.Lemmas.TrapSetup.sampleFloorY_saturates n hn _ hb.1.1 (by omega)).1; omega
  exact (rasterizeEdges_frame n hn img hsz l r _ _ g1 g2 hrun ht0 g4 hb2).widen g3 (by omega)

/-- (S8) `pixman_add_traps`, one trap: whatever the six coordinates and the offsets, only pixel rows
    `0 … height-1` of the image are touched, the row lengths stay, nothing outside the rows is accessed
    (`oob` unchanged) and the row loop terminates (`runaway` unchanged) -/
theorem addTrap_frame (n : Nat) (hn : Depth n) (img : Img) (hsz : img.rows.size = img.height) (xo yo : Int) (tr : Trap) :
    Frame img (addTrap n img xo yo tr) 0 ((img.height : Int) - 1) := by
  unfold addTrap
  rw [trapSetup_clamps]
  by_cases hrun : sampleFloorY (clampBotTraps (wrap32 (tr.botY + yo)) img.height) n ≥
      sampleCeilY (clampTopTraps (wrap32 (tr.topY + yo))) n
  · rw [if_pos hrun]
    unfold clampTopTraps clampBotTraps at hrun ⊢
    exact clamped_run_frame n hn img hsz _ _ _ _ (wrap32_range _) (wrap32_range _) hrun
  · rw [if_neg hrun]
    exact Frame.refl ..

/-- (S8) `pixman_rasterize_trapezoid` -/
theorem rasterizeTrapezoid_frame (n : Nat) (hn : Depth n) (img : Img) (hsz : img.rows.size = img.height)
    (tr : Trapezoid) (xOff yOff : Int) :
    Frame img (rasterizeTrapezoid n img tr xOff yOff) 0 ((img.height : Int) - 1) := by
  unfold rasterizeTrapezoid
  rw [trapezoidSetup_clamps]
  by_cases hv : (!tr.valid) = true
  · rw [if_pos hv]; exact Frame.refl ..
  · rw [if_neg hv]
    by_cases hrun : sampleFloorY (clampBotTrapezoid (wrap32 (tr.bottom + intToFixed yOff)) img.height) n ≥
        sampleCeilY (clampTopTrapezoid (wrap32 (tr.top + intToFixed yOff))) n
    · rw [if_pos hrun]
      unfold clampTopTrapezoid clampBotTrapezoid at hrun ⊢
      exact clamped_run_frame n hn img hsz _ _ _ _ (wrap32_range _) (wrap32_range _) hrun
    · rw [if_neg hrun]
      exact Frame.refl ..

theorem foldl_frame {α} (f : Img → α → Img) (hf : ∀ img a, img.rows.size = img.height → Frame img (f img a) 0 ((img.height : Int) - 1))
    (xs : List α) (img : Img) (hsz : img.rows.size = img.height) :
    Frame img (xs.foldl f img) 0 ((img.height : Int) - 1) := by
  induction xs generalizing img with
  | nil => exact Frame.refl ..
  | cons a rest ih =>
    have h1 := hf img a hsz
    have hsz' : (f img a).rows.size = (f img a).height := by rw [h1.nrows, h1.height]; exact hsz
    have h2 := ih (f img a) hsz'
    rw [h1.height] at h2
    exact h1.trans h2 (Int.le_refl _) (Int.le_refl _)

/-- (S8) `pixman_add_traps`, `pixman_add_trapezoids`, `pixman_add_triangles`: any list, any offsets -/
theorem addTraps_frame (n : Nat) (hn : Depth n) (img : Img) (hsz : img.rows.size = img.height) (xOff yOff : Int) (traps : List Trap) :
    Frame img (addTraps n img xOff yOff traps) 0 ((img.height : Int) - 1) :=
  foldl_frame _ (fun img tr h => addTrap_frame n hn img h _ _ tr) traps img hsz

theorem addTrapezoids_frame (n : Nat) (hn : Depth n) (img : Img) (hsz : img.rows.size = img.height) (xOff yOff : Int)
    (traps : List Trapezoid) :
    Frame img (addTrapezoids n img xOff yOff traps) 0 ((img.height : Int) - 1) :=
  foldl_frame _ (fun img tr h => by
    by_cases hv : tr.valid = true
    · simp only [hv, if_true]; exact rasterizeTrapezoid_frame n hn img h tr _ _
    · simp only [hv, if_false]; exact Frame.refl ..) traps img hsz

/-! ### a8: the span-fill bookkeeping of `rasterize_edges_8` stays inside the row -/

/-- the pending fill `[start, stop)` lies inside the columns `0 … W-2` (the last column is only ever
    written as the partial right pixel `rxi`) -/
def FillIn (W : Int) (fs : Fill) : Prop :=
  (fs.start = -1 ∧ fs.stop = -1 ∧ fs.size = 0) ∨ (0 ≤ fs.start ∧ fs.start ≤ fs.stop ∧ fs.stop ≤ W - 1 ∧ 0 ≤ fs.size)

theorem fillIn_init (W : Int) : FillIn W {} := Or.inl ⟨rfl, rfl, rfl⟩

/-- the `ADD_SATURATE_8 (ap + start, value, length)` calls `fillMid` makes, in order -/
def fillMidCalls (a b : Int) (fs : Fill) : List (Int × Int × Int) :=
  if b - a > 4 then
    if fs.start < 0 then []
    else if a ≥ fs.stop || b < fs.start then [(fs.start, fs.size * nXFrac 8, fs.stop - fs.start)]
    else
      (if a > fs.start then [(fs.start, fs.size * nXFrac 8, a - fs.start)]
       else if a < fs.start then [(a, nXFrac 8, fs.start - a)] else []) ++
      (if b < fs.stop then [(b, fs.size * nXFrac 8, fs.stop - b)]
       else if fs.stop < b then [(fs.stop, nXFrac 8, b - fs.stop)] else [])
  else [(a, nXFrac 8, b - a)]

def applyCalls (R : Array Nat) (cs : List (Int × Int × Int)) : Array Nat :=
  cs.foldl (fun R c => addSat8I R c.1 c.2.1 c.2.2) R

/-- `fillMid` does nothing to the row but those calls -/
theorem fillMid_eq_calls (R : Array Nat) (a b : Int) (fs : Fill) :
    (fillMid R a b fs).1 = applyCalls R (fillMidCalls a b fs) := by
  by_cases h1 : b - a > 4
  · by_cases h2 : fs.start < 0
    · simp only [fillMid, fillMidCalls, applyCalls, h1, h2, if_true, List.foldl_nil]
    · by_cases h3 : (a ≥ fs.stop || b < fs.start) = true
      · simp only [fillMid, fillMidCalls, applyCalls, h1, h2, h3, if_true, if_false, List.foldl_cons, List.foldl_nil]
      · by_cases h4 : a > fs.start <;> by_cases h5 : a < fs.start <;> by_cases h6 : b < fs.stop <;> by_cases h7 : fs.stop < b <;>
          simp only [fillMid, fillMidCalls, applyCalls, h1, h2, h3, h4, h5, h6, h7, if_true, if_false, Bool.false_eq_true,
            List.foldl_cons, List.foldl_nil, List.cons_append, List.nil_append, List.append_nil]
  · simp only [fillMid, fillMidCalls, applyCalls, h1, if_false, List.foldl_cons, List.foldl_nil]

/-- a call that touches memory touches columns inside `0 … W-2` -/
def CallIn (W : Int) (c : Int × Int × Int) : Prop := c.2.2 ≤ 0 ∨ (0 ≤ c.1 ∧ c.1 + c.2.2 ≤ W - 1)

theorem fillMid_calls_in (W : Int) (R : Array Nat) (a b : Int) (fs : Fill) (ha : 0 ≤ a) (hb : b ≤ W - 1) (hin : FillIn W fs) :
    (∀ c ∈ fillMidCalls a b fs, CallIn W c) ∧ FillIn W (fillMid R a b fs).2 := by
  unfold FillIn CallIn at *
  by_cases h1 : b - a > 4
  · by_cases h2 : fs.start < 0
    · simp only [fillMid, fillMidCalls, h1, h2, if_true]
      exact ⟨fun c h => (by cases h), Or.inr (by omega)⟩
    · by_cases h3 : (a ≥ fs.stop || b < fs.start) = true
      · simp only [fillMid, fillMidCalls, h1, h2, h3, if_true, if_false]
        refine ⟨fun c h => ?_, Or.inr (by omega)⟩
        simp only [List.mem_cons, List.mem_nil_iff, or_false] at h; subst h; simp only; omega
      · have h3' : a < fs.stop ∧ fs.start ≤ b := by
          simp only [Bool.or_eq_true, decide_eq_true_eq, not_or] at h3; omega
        by_cases h4 : a > fs.start <;> by_cases h5 : a < fs.start <;> by_cases h6 : b < fs.stop <;> by_cases h7 : fs.stop < b <;>
          simp only [fillMid, fillMidCalls, h1, h2, h3, h4, h5, h6, h7, if_true, if_false, Bool.false_eq_true,
            List.cons_append, List.nil_append, List.append_nil, List.mem_cons, List.mem_nil_iff, or_false, false_or] <;>
          refine ⟨fun c h => ?_, Or.inr (by omega)⟩ <;>
          (first | (rcases h with h | h <;> subst h <;> simp only <;> omega) | (subst h; simp only; omega) | (cases h))
  · simp only [fillMid, fillMidCalls, h1, if_false]
    refine ⟨fun c h => ?_, hin⟩
    simp only [List.mem_cons, List.mem_nil_iff, or_false] at h; subst h; simp only; omega

/-- the calls of the flush at the end of a pixel row -/
def flushCalls (fs : Fill) : List (Int × Int × Int) :=
  if fs.start != fs.stop then
    if fs.size == nYFrac 8 then [(fs.start, 255, fs.stop - fs.start)] else [(fs.start, fs.size * nXFrac 8, fs.stop - fs.start)]
  else []

theorem flushFill_eq_calls (R : Array Nat) (fs : Fill) : flushFill R fs = applyCalls R (flushCalls fs) := by
  unfold flushFill flushCalls applyCalls
  split
  · split <;> rfl
  · rfl

theorem flush_calls_in (W : Int) (fs : Fill) (hin : FillIn W fs) : ∀ c ∈ flushCalls fs, CallIn W c := by
  unfold flushCalls FillIn CallIn at *
  intro c h
  split at h
  · split at h <;> (simp only [List.mem_cons, List.mem_nil_iff, or_false] at h; subst h; simp only; omega)
  · cases h

/-- (S8, a8) one sub-row of `rasterize_edges_8`, arbitrary edge abscissae `lx`, `rx`, image width `0 ≤ W ≤ 32767`,
    pending fill inside the row: if a span is drawn its pixels `lxi … rxi` satisfy `0 ≤ lxi ≤ rxi ≤ W - 1`, every
    `ADD_SATURATE_8` call of the fill bookkeeping stays inside columns `0 … W-2`, and the new pending fill is
    again inside the row (so the flush, `flush_calls_in`, is too) -/
theorem row8Fill_cols (row : Array Nat) (W lx rx : Int) (fs : Fill) (hW : 0 ≤ W ∧ W ≤ 32767) (hin : FillIn W fs) :
    FillIn W (row8Fill row W lx rx fs).2 ∧
    (clampRx8 rx W > clampLx8 lx →
      0 ≤ fixedToInt (clampLx8 lx) ∧ fixedToInt (clampLx8 lx) ≤ fixedToInt (clampRx8 rx W) ∧
      fixedToInt (clampRx8 rx W) ≤ W - 1 ∧
      (fixedToInt (clampLx8 lx) ≠ fixedToInt (clampRx8 rx W) →
        ∀ c ∈ fillMidCalls (fixedToInt (clampLx8 lx) + 1) (fixedToInt (clampRx8 rx W)) fs, CallIn W c)) := by
  rw [row8Fill_clamps, row8FillCore_eq]
  by_cases hgt : clampRx8 rx W > clampLx8 lx
  · obtain ⟨b1, b2, b3⟩ := span8_bounds lx rx W hW hgt
    simp only [hgt, if_true]
    by_cases heq : fixedToInt (clampLx8 lx) = fixedToInt (clampRx8 rx W)
    · have : (fixedToInt (clampLx8 lx) == fixedToInt (clampRx8 rx W)) = true := by simp [heq]
      simp only [this, if_true]
      exact ⟨hin, fun _ => ⟨b1, b2, b3, fun h => absurd heq h⟩⟩
    · have : (fixedToInt (clampLx8 lx) == fixedToInt (clampRx8 rx W)) = false := by simp [heq]
      simp only [this, Bool.false_eq_true, if_false]
      have key := fillMid_calls_in W
        (row.modify (fixedToInt (clampLx8 lx)).toNat fun o => clip255 (o + (nXFrac 8 - renderSamplesX (clampLx8 lx) 8).toNat))
        (fixedToInt (clampLx8 lx) + 1) (fixedToInt (clampRx8 rx W)) fs (by omega) b3 hin
      exact ⟨key.2, fun _ => ⟨b1, b2, b3, fun _ => key.1⟩⟩
  · simp only [hgt, if_false]
    exact ⟨hin, fun h => h.elim⟩

/-! ### a1: the word walk of `MASK_BITS` (C12's model abstracts it to "set pixels `lxi … rxi-1`") -/

/-- the word walk of the a1 span code for the pixels `lxi … rxi-1`: `a += x >> 5; x &= 0x1f;
    MASK_BITS (x, width, startmask, nmiddle, endmask)`, then `if (startmask) { … a++; }`,
    `while (nmiddle--) WRITE (a++, 0xffffffff)`, `if (endmask) …`.  Result: (start word written?, its index,
    index of the first middle word, `nmiddle`, end word written?); the end word has index `first + nmiddle`.
    Only which masks are non-zero is modelled (`LEFT_MASK (x) != 0 ⇔ x & 0x1f`, `RIGHT_MASK (x) != 0 ⇔
    (32 - x) & 0x1f`, and inside one word `LEFT_MASK (x) & RIGHT_MASK (x + w) != 0 ⇔ w > 0`), not the bit order. -/
def a1Plan (lxi rxi : Int) : Bool × Int × Int × Int × Bool :=
  let w := rxi - lxi
  let a := lxi / 32
  let x := lxi % 32
  let r0 : Bool := (32 - (x + w)) % 32 != 0
  let l0 : Bool := x != 0
  let nlr : Int × Bool × Bool :=
    if l0 then
      if w - (32 - x) < 0 then (0, decide (w > 0), false) else (w - (32 - x), l0, r0)
    else (w, l0, r0)
  (nlr.2.1, a, if nlr.2.1 then a + 1 else a, nlr.1 / 32, nlr.2.2)

/-- (S8, a1) every word the a1 span code touches for a span inside the row (`0 ≤ lxi ≤ rxi ≤ width`,
    `span1_bounds`) starts before pixel `width` — its index is `< ⌈width / 32⌉` — and the walk covers the
    span: the last touched word is the one holding pixel `rxi - 1` -/
theorem a1Plan_in (lxi rxi W : Int) (h0 : 0 ≤ lxi) (h1 : lxi ≤ rxi) (h2 : rxi ≤ W) :
    let p := a1Plan lxi rxi
    0 ≤ p.2.2.2.1 ∧
    (p.1 = true → 0 ≤ p.2.1 ∧ p.2.1 * 32 < W) ∧
    (0 < p.2.2.2.1 → 0 ≤ p.2.2.1 ∧ (p.2.2.1 + p.2.2.2.1 - 1) * 32 < W) ∧
    (p.2.2.2.2 = true → 0 ≤ p.2.2.1 + p.2.2.2.1 ∧ (p.2.2.1 + p.2.2.2.1) * 32 < W) := by
  simp only [a1Plan]
  by_cases hl : lxi % 32 = 0
  · have hl' : (lxi % 32 != 0) = false := by simp [hl]
    simp only [hl', Bool.false_eq_true, if_false]
    refine ⟨by omega, fun h => (by cases h), fun _ => (by omega), fun hr => ?_⟩
    have : (32 - (lxi % 32 + (rxi - lxi))) % 32 ≠ 0 := by simpa using hr
    omega
  · have hl' : (lxi % 32 != 0) = true := by simp [hl]
    simp only [hl', if_true]
    by_cases hn : rxi - lxi - (32 - lxi % 32) < 0
    · simp only [hn, if_true]
      refine ⟨by omega, fun hw => ?_, fun h => (by omega), fun h => (by cases h)⟩
      have : rxi - lxi > 0 := by simpa using hw
      omega
    · simp only [hn, if_false, if_true]
      refine ⟨by omega, fun _ => (by omega), fun _ => (by omega), fun hr => ?_⟩
      have : (32 - (lxi % 32 + (rxi - lxi))) % 32 ≠ 0 := by simpa using hr
      omega

example : a1Plan 30 70 = (true, 0, 1, 1, true) ∧ a1Plan 32 64 = (false, 1, 1, 1, false) ∧
    a1Plan 3 5 = (true, 0, 1, 0, false) ∧ a1Plan 5 5 = (false, 0, 0, 0, false) := by decide

end Pixman.Lemmas.TrapBounds

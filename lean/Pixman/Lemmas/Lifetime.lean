import Pixman.Model.Lifetime
/-! Basic lemmas about the lifetime model: heap extensionality, the explicit form of
    `pixman_image_unref` on chain-free heaps, counting of parents. -/
namespace Pixman.Model.Lifetime

theorem Heap.ext' {h h' : Heap} (h1 : h.nimg = h'.nimg) (h2 : ∀ j, h.img j = h'.img j)
    (h3 : ∀ j, h.ext j = h'.ext j) (h4 : h.fired = h'.fired) (h5 : h.uaf = h'.uaf)
    (h6 : h.stuck = h'.stuck) (h7 : h.cache = h'.cache) (h8 : h.cachesMade = h'.cachesMade)
    (h9 : h.cachesFreed = h'.cachesFreed) (h10 : h.glyphsMade = h'.glyphsMade)
    (h11 : ∀ j, h.glyphFrees j = h'.glyphFrees j) : h = h' := by
  cases h; cases h'
  simp only at h1 h2 h3 h4 h5 h6 h7 h8 h9 h10 h11
  have := funext h2; have := funext h3; have := funext h11
  subst_vars; rfl

/-! ### modify -/
@[simp] theorem modify_img_same (h : Heap) (i : Nat) (f : Image → Image) :
    (h.modify i f).img i = f (h.img i) := by simp [Heap.modify]
@[simp] theorem modify_img_other (h : Heap) (i j : Nat) (f : Image → Image) (hne : j ≠ i) :
    (h.modify i f).img j = h.img j := by simp [Heap.modify, hne]
theorem modify_img (h : Heap) (i j : Nat) (f : Image → Image) :
    (h.modify i f).img j = if j = i then f (h.img j) else h.img j := by simp [Heap.modify]
@[simp] theorem modify_nimg (h : Heap) (i : Nat) (f : Image → Image) : (h.modify i f).nimg = h.nimg := rfl
@[simp] theorem modify_ext (h : Heap) (i : Nat) (f : Image → Image) : (h.modify i f).ext = h.ext := rfl
@[simp] theorem modify_fired (h : Heap) (i : Nat) (f : Image → Image) : (h.modify i f).fired = h.fired := rfl
@[simp] theorem modify_uaf (h : Heap) (i : Nat) (f : Image → Image) : (h.modify i f).uaf = h.uaf := rfl
@[simp] theorem modify_stuck (h : Heap) (i : Nat) (f : Image → Image) : (h.modify i f).stuck = h.stuck := rfl
@[simp] theorem modify_cache (h : Heap) (i : Nat) (f : Image → Image) : (h.modify i f).cache = h.cache := rfl
@[simp] theorem modify_cachesMade (h : Heap) (i : Nat) (f : Image → Image) : (h.modify i f).cachesMade = h.cachesMade := rfl
@[simp] theorem modify_cachesFreed (h : Heap) (i : Nat) (f : Image → Image) : (h.modify i f).cachesFreed = h.cachesFreed := rfl
@[simp] theorem modify_glyphsMade (h : Heap) (i : Nat) (f : Image → Image) : (h.modify i f).glyphsMade = h.glyphsMade := rfl
@[simp] theorem modify_glyphFrees (h : Heap) (i : Nat) (f : Image → Image) : (h.modify i f).glyphFrees = h.glyphFrees := rfl

theorem modify_modify (h : Heap) (i : Nat) (f g : Image → Image) :
    (h.modify i f).modify i g = h.modify i (fun im => g (f im)) := by
  apply Heap.ext' <;> intros <;> simp [Heap.modify]
  split <;> rfl

theorem touch_live {h : Heap} {i : Nat} (hl : h.live i) : touch h i = h := by simp [touch, hl]

/-! ### what `_pixman_image_fini` + `free` do to the record of the image itself -/

def Image.fin (im : Image) : Image := im.dec.finiCommon.finiStops.finiBits.freeSelf

def fireOf (h : Heap) (m : Nat) : List (Nat × Nat) :=
  if (h.img m).destroyFunc then [(m, (h.img m).destroyData)] else []

/-- the heap after image `m` lost its last reference (its alpha map not yet unreferenced) -/
def releaseH (h : Heap) (m : Nat) : Heap :=
  { h.modify m Image.fin with fired := h.fired ++ fireOf h m }

@[simp] theorem releaseH_nimg (h : Heap) (m : Nat) : (releaseH h m).nimg = h.nimg := rfl
@[simp] theorem releaseH_ext (h : Heap) (m : Nat) : (releaseH h m).ext = h.ext := rfl
@[simp] theorem releaseH_uaf (h : Heap) (m : Nat) : (releaseH h m).uaf = h.uaf := rfl
@[simp] theorem releaseH_stuck (h : Heap) (m : Nat) : (releaseH h m).stuck = h.stuck := rfl
@[simp] theorem releaseH_cache (h : Heap) (m : Nat) : (releaseH h m).cache = h.cache := rfl
@[simp] theorem releaseH_fired (h : Heap) (m : Nat) : (releaseH h m).fired = h.fired ++ fireOf h m := rfl
@[simp] theorem releaseH_cachesMade (h : Heap) (m : Nat) : (releaseH h m).cachesMade = h.cachesMade := rfl
@[simp] theorem releaseH_cachesFreed (h : Heap) (m : Nat) : (releaseH h m).cachesFreed = h.cachesFreed := rfl
@[simp] theorem releaseH_glyphsMade (h : Heap) (m : Nat) : (releaseH h m).glyphsMade = h.glyphsMade := rfl
@[simp] theorem releaseH_glyphFrees (h : Heap) (m : Nat) : (releaseH h m).glyphFrees = h.glyphFrees := rfl
@[simp] theorem releaseH_img_same (h : Heap) (m : Nat) : (releaseH h m).img m = (h.img m).fin := by
  simp [releaseH]
@[simp] theorem releaseH_img_other (h : Heap) (m j : Nat) (hne : j ≠ m) : (releaseH h m).img j = h.img j := by
  simp [releaseH, hne]

/-! fields of the record steps -/
@[simp] theorem dec_refCount (im : Image) : im.dec.refCount = im.refCount - 1 := rfl
@[simp] theorem dec_freed (im : Image) : im.dec.freed = im.freed := rfl
@[simp] theorem dec_alphaMap (im : Image) : im.dec.alphaMap = im.alphaMap := rfl
@[simp] theorem dec_alphaCount (im : Image) : im.dec.alphaCount = im.alphaCount := rfl
@[simp] theorem dec_kind (im : Image) : im.dec.kind = im.kind := rfl
@[simp] theorem dec_destroyFunc (im : Image) : im.dec.destroyFunc = im.destroyFunc := rfl
@[simp] theorem dec_destroyData (im : Image) : im.dec.destroyData = im.destroyData := rfl
@[simp] theorem finiCommon_refCount (im : Image) : im.finiCommon.refCount = im.refCount := rfl
@[simp] theorem finiCommon_alphaMap (im : Image) : im.finiCommon.alphaMap = im.alphaMap := rfl
@[simp] theorem finiCommon_kind (im : Image) : im.finiCommon.kind = im.kind := rfl
@[simp] theorem finiCommon_freed (im : Image) : im.finiCommon.freed = im.freed := rfl
@[simp] theorem finiCommon_destroyFunc (im : Image) : im.finiCommon.destroyFunc = im.destroyFunc := rfl

@[simp] theorem fin_refCount (im : Image) : im.fin.refCount = im.refCount - 1 := by
  simp only [Image.fin, Image.freeSelf, Image.finiBits, Image.finiStops]; split <;> split <;> rfl
@[simp] theorem fin_freed (im : Image) : im.fin.freed = im.freed + 1 := by
  simp only [Image.fin, Image.freeSelf, Image.finiBits, Image.finiStops]; split <;> split <;> rfl
@[simp] theorem fin_alphaMap (im : Image) : im.fin.alphaMap = im.alphaMap := by
  simp only [Image.fin, Image.freeSelf, Image.finiBits, Image.finiStops]; split <;> split <;> rfl
@[simp] theorem fin_alphaCount (im : Image) : im.fin.alphaCount = im.alphaCount := by
  simp only [Image.fin, Image.freeSelf, Image.finiBits, Image.finiStops]; split <;> split <;> rfl
@[simp] theorem fin_kind (im : Image) : im.fin.kind = im.kind := by
  simp only [Image.fin, Image.freeSelf, Image.finiBits, Image.finiStops]; split <;> split <;> rfl
@[simp] theorem fin_destroyFunc (im : Image) : im.fin.destroyFunc = im.destroyFunc := by
  simp only [Image.fin, Image.freeSelf, Image.finiBits, Image.finiStops]; split <;> split <;> rfl
@[simp] theorem fin_destroyData (im : Image) : im.fin.destroyData = im.destroyData := by
  simp only [Image.fin, Image.freeSelf, Image.finiBits, Image.finiStops]; split <;> split <;> rfl

theorem fire_eq (h : Heap) (i : Nat) : fire h i = { h with fired := h.fired ++ fireOf h i } := by
  unfold fire fireOf; split <;> simp

/-- `pixman_image_unref` of a live image without alpha map -/
theorem unrefF_leaf (f : Nat) (h : Heap) (m : Nat) (hl : h.live m) (hn : (h.img m).alphaMap = none) :
    unrefF (f + 1) h m =
      if (h.img m).refCount = 1 then (releaseH h m, true) else (h.modify m Image.dec, false) := by
  unfold unrefF
  simp only [touch_live hl, modify_img_same, dec_refCount]
  by_cases h1 : (h.img m).refCount = 1
  · have h0 : (h.img m).refCount - 1 = 0 := by omega
    rw [if_pos h1, if_pos h0]
    have hA : ((fire (h.modify m Image.dec) m).img m).finiCommon.alphaMap = none := by
      rw [fire_eq]; simp [hn]
    simp only [hA]
    congr 1
    rw [fire_eq]
    apply Heap.ext' <;> intros <;> (try rfl)
    · rename_i j
      by_cases hj : j = m
      · subst hj; simp [Heap.modify, Image.fin, releaseH]
      · simp [Heap.modify, hj, releaseH]
    · simp [Heap.modify, releaseH, fireOf]
  · have h0 : ¬ ((h.img m).refCount - 1 = 0) := by omega
    rw [if_neg h1, if_neg h0]

theorem live_modify {h : Heap} {i j : Nat} {f : Image → Image} (hf : ∀ im, (f im).freed = im.freed) :
    (h.modify i f).live j ↔ h.live j := by
  unfold Heap.live
  by_cases hj : j = i
  · subst hj; simp [hf]
  · simp [hj]

theorem live_releaseH_other {h : Heap} {m j : Nat} (hj : j ≠ m) : (releaseH h m).live j ↔ h.live j := by
  unfold Heap.live; simp [hj]

/-- `pixman_image_unref` of a live image whose alpha map is a live image without alpha map -/
theorem unrefF_parent (f : Nat) (h : Heap) (p a : Nat) (hl : h.live p)
    (hp : (h.img p).alphaMap = some a) (hne : a ≠ p) (hla : h.live a)
    (hna : (h.img a).alphaMap = none) :
    unrefF (f + 2) h p =
      if (h.img p).refCount = 1 then ((unrefF (f + 1) (releaseH h p) a).1, true)
      else (h.modify p Image.dec, false) := by
  rw [unrefF]
  simp only [touch_live hl, modify_img_same, dec_refCount]
  by_cases h1 : (h.img p).refCount = 1
  · have h0 : (h.img p).refCount - 1 = 0 := by omega
    rw [if_pos h1, if_pos h0]
    have hA : ((fire (h.modify p Image.dec) p).img p).finiCommon.alphaMap = some a := by
      rw [fire_eq]; simp [hp]
    simp only [hA]
    congr 1
    have hl1 : ((fire (h.modify p Image.dec) p).modify p Image.finiCommon).live a := by
      rw [fire_eq]; unfold Heap.live at *; simpa [hne] using hla
    have hn1 : (((fire (h.modify p Image.dec) p).modify p Image.finiCommon).img a).alphaMap = none := by
      rw [fire_eq]; simpa [hne] using hna
    have hl2 : (releaseH h p).live a := (live_releaseH_other hne).2 hla
    have hn2 : ((releaseH h p).img a).alphaMap = none := by simpa [hne] using hna
    rw [unrefF_leaf f _ a hl1 hn1, unrefF_leaf f _ a hl2 hn2]
    have hr1 : (((fire (h.modify p Image.dec) p).modify p Image.finiCommon).img a).refCount = (h.img a).refCount := by
      rw [fire_eq]; simp [hne]
    have hr2 : ((releaseH h p).img a).refCount = (h.img a).refCount := by simp [hne]
    rw [hr1, hr2]
    have hne' : p ≠ a := fun e => hne e.symm
    by_cases h2 : (h.img a).refCount = 1
    · rw [if_pos h2, if_pos h2]
      simp only
      rw [fire_eq]
      apply Heap.ext' <;> intros <;> (try rfl)
      · rename_i j
        by_cases hj : j = p
        · subst hj; simp [Heap.modify, Image.fin, releaseH, hne']
        · by_cases hja : j = a
          · subst hja; simp [Heap.modify, releaseH, hne]
          · simp [Heap.modify, hj, hja, releaseH]
      · simp [Heap.modify, releaseH, fireOf, hne]
    · rw [if_neg h2, if_neg h2]
      simp only
      rw [fire_eq]
      apply Heap.ext' <;> intros <;> (try rfl)
      · rename_i j
        by_cases hj : j = p
        · subst hj; simp [Heap.modify, Image.fin, releaseH, hne']
        · by_cases hja : j = a
          · subst hja; simp [Heap.modify, releaseH, hne]
          · simp [Heap.modify, hj, hja, releaseH]
      · simp [Heap.modify, releaseH, fireOf]
  · have h0 : ¬ ((h.img p).refCount - 1 = 0) := by omega
    rw [if_neg h1, if_neg h0]

end Pixman.Model.Lifetime

import Pixman.Spec.Threads
/-! Hand-written classification of the library's non-const objects with static storage duration
    (C16, T3).  The regenerated list `Pixman.Gen.Globals.all` must be covered by this table with
    matching attributes (`Pixman.Props.C16.globals_classified`). -/
namespace Pixman.Model.Threads
open Pixman.Spec.Threads

def sse2Mask (n : String) (allowed : List String := []) : Entry :=
  { name := n, tu := "pixman-sse2.c", func := "", cls := .initOnce, allowed := allowed,
    why := "SSE2 constant, assigned once by _pixman_implementation_create_sse2 (constructor path), read-only afterwards" }

def classification : List Entry := [
  { name := "global_implementation", tu := "pixman.c", func := "", cls := .initOnce, allowed := [],
    why := "assigned by pixman_constructor (__attribute__((constructor))) before main; get_implementation() only reads it when TOOLCHAIN_SUPPORTS_ATTRIBUTE_CONSTRUCTOR is defined" },
  { name := "fast_path_cache", tu := "pixman-implementation.c", func := "", cls := .threadLocal, allowed := [],
    why := "PIXMAN_DEFINE_THREAD_LOCAL: static __thread cache_t, one per thread" },
  { name := "features", tu := "pixman-x86.c", func := "have_feature", cls := .initOnce, allowed := [],
    why := "cpuid memo; have_feature is called only from _pixman_x86_get_implementations <- _pixman_choose_implementation <- pixman_constructor" },
  { name := "initialized", tu := "pixman-x86.c", func := "have_feature", cls := .initOnce, allowed := [],
    why := "guard of the cpuid memo, same call chain" },
  { name := "n_messages", tu := "pixman-utils.c", func := "_pixman_log_error", cls := .diagnostic,
    allowed := ["_pixman_log_error"],
    why := "counts *** BUG *** messages to stop after ten; touched only when a caller passes invalid arguments; unsynchronised int (two threads making erroneous calls at once race on it: observed by TSan in the diagnostic probe, outside the property's discipline of valid requests)" },
  { name := "volatile_x1F001F", tu := "pixman-fast-path.c", func := "fast_write_back_r5g6b5", cls := .neverWritten, allowed := [],
    why := "volatile constant used to defeat a compiler optimisation; only read" },
  { name := "pixman_broken_data", tu := "pixman-region16.c", func := "", cls := .setupApi,
    allowed := ["pixman_region_set_static_pointers"],
    why := "pointer to the shared broken-region sentinel; only the deprecated X-server set-up entry point pixman_region_set_static_pointers assigns it" },
  { name := "pixman_region_empty_box", tu := "pixman-region16.c", func := "", cls := .setupApi,
    allowed := ["pixman_region_set_static_pointers"], why := "as pixman_broken_data" },
  { name := "pixman_region_empty_data", tu := "pixman-region16.c", func := "", cls := .setupApi,
    allowed := ["pixman_region_set_static_pointers"], why := "as pixman_broken_data" },
  { name := "pixman_broken_data", tu := "pixman-region32.c", func := "", cls := .neverWritten, allowed := [],
    why := "pointer to a const sentinel, never assigned (no set_static_pointers for region32)" },
  { name := "pixman_region_empty_box", tu := "pixman-region32.c", func := "", cls := .neverWritten, allowed := [], why := "as above" },
  { name := "pixman_region_empty_data", tu := "pixman-region32.c", func := "", cls := .neverWritten, allowed := [], why := "as above" },
  sse2Mask "mask_0080",
  sse2Mask "mask_00ff" ["sse2_composite_over_x888_8_8888"],   -- passes &mask_00ff to in_over_1x128/in_over_2x128, which only dereference it for reading
  sse2Mask "mask_0101", sse2Mask "mask_ffff", sse2Mask "mask_ff000000", sse2Mask "mask_alpha",
  sse2Mask "mask_565_r", sse2Mask "mask_565_g1", sse2Mask "mask_565_g2", sse2Mask "mask_565_b",
  sse2Mask "mask_red", sse2Mask "mask_green", sse2Mask "mask_blue",
  sse2Mask "mask_565_fix_rb", sse2Mask "mask_565_fix_g", sse2Mask "mask_565_rb", sse2Mask "mask_565_pack_multiplier"
]

/-- the model location that stands for an object of the given class (link to the footprint table:
    process-wide locations are in no request's write footprint, `Props.C16.api_never_writes_process_state`) -/
def Entry.loc (e : Entry) (t : Tid) : Loc :=
  match e.cls, e.tu with
  | .threadLocal, _ => .tlsCache t
  | .diagnostic, _ => .logCounter
  | _, "pixman-x86.c" => .cpuMemo
  | _, "pixman-sse2.c" => .simdConst
  | _, _ => .globalImpl

end Pixman.Model.Threads

import Pixman.Lemmas.FormatTable
/-! Channel and pixel conversion lemmas of C10: `convert_channel` / `convert_pixel` against the specification. -/
namespace Pixman.Lemmas.FormatCodec
open Pixman.Model.Format Pixman.Spec.Format

theorem widen_facts (n m c : Nat) (h1 : 1 ≤ n) (h2 : n ≤ m) (h3 : m ≤ 8) (hc : c < 2 ^ n) :
    unormToUnorm c n m = widen c n m ∧ unormToUnorm c n m < 2 ^ m ∧
    unormToUnorm (unormToUnorm c n m) m n = c ∧
    (c + 1 < 2 ^ n → unormToUnorm c n m < unormToUnorm (c + 1) n m) ∧
    (c + 1 = 2 ^ n → unormToUnorm c n m = 2 ^ m - 1) := by
  have h256 : c < 256 := Nat.lt_of_lt_of_le hc (Nat.pow_le_pow_right (by decide) (by omega : n ≤ 8))
  exact widen_table m (List.mem_range.mpr (by omega)) n (List.mem_range.mpr (by omega)) c
    (List.mem_range.mpr h256) h1 h2 hc

/-- spec level: narrowing a widened level gives the level back -/
theorem narrow_widen (n m c : Nat) (h1 : 1 ≤ n) (h2 : n ≤ m) (h3 : m ≤ 8) (hc : c < 2 ^ n) :
    narrow (widen c n m) m n = c := by
  obtain ⟨e, hlt, rt, _, _⟩ := widen_facts n m c h1 h2 h3 hc
  rw [e] at rt hlt
  rw [u2u_narrow _ m n (by omega) h2, Nat.mod_eq_of_lt hlt] at rt
  exact rt

theorem widen_lt (n m c : Nat) (h1 : 1 ≤ n) (h2 : n ≤ m) (h3 : m ≤ 8) (hc : c < 2 ^ n) : widen c n m < 2 ^ m := by
  obtain ⟨e, hlt, _⟩ := widen_facts n m c h1 h2 h3 hc
  rw [e] at hlt; exact hlt

/-! ## pixels as four channels -/

/-- shifts and widths of a format code, as `get_shifts` and `PIXMAN_FORMAT_A/R/G/B` give them -/
def chansOf (f : Nat) : Chans :=
  let s := getShifts f
  ⟨s.a, fmtA f, s.r, fmtR f, s.g, fmtG f, s.b, fmtB f⟩

def argbC : Chans := ⟨24, 8, 16, 8, 8, 8, 0, 8⟩

/-- `convert_pixel` in terms of the two layouts -/
def convertPixelC (s d : Chans) (p : Nat) : Nat :=
  convertChannel p 4294967295 s.wa s.sa d.wa d.sa ||| convertChannel p 0 s.wr s.sr d.wr d.sr |||
  convertChannel p 0 s.wg s.sg d.wg d.sg ||| convertChannel p 0 s.wb s.sb d.wb d.sb

theorem convertPixel_eq (src dst p : Nat) : convertPixel src dst p = convertPixelC (chansOf src) (chansOf dst) p := rfl

theorem chansOf_argb : chansOf A8R8G8B8 = argbC := by decide

/-- a channel converted to 8 bits: bit replication, or the default when the source has no such channel -/
theorem cc_to8 (p d w s S : Nat) (hw : w ≤ 8) (hS : S + 8 ≤ 32) :
    convertChannel p d w s 8 S = (if w = 0 then d % 256 else widen (field p s w) w 8) <<< S := by
  unfold convertChannel
  by_cases h0 : w = 0
  · subst h0
    rw [if_neg (by simp), if_pos (by decide), if_pos rfl, one_shl]
    simp only [Nat.and_two_pow_sub_one_eq_mod]
    exact Nat.mod_eq_of_lt (shiftLeft_lt32 _ S 8 (Nat.mod_lt _ (by decide)) (by omega))
  · have hf := field_lt p s w
    obtain ⟨e, hlt, _⟩ := widen_facts w 8 (field p s w) (by omega) hw (by omega) hf
    have e2 : unormToUnorm (p >>> s) w 8 = widen (field p s w) w 8 := by
      rw [u2u_mod, ← field_eq_mod, e]
    rw [if_pos ⟨h0, by decide⟩, if_neg h0, e2, one_shl]
    simp only [Nat.and_two_pow_sub_one_eq_mod]
    rw [e] at hlt
    rw [Nat.mod_eq_of_lt hlt]
    exact Nat.mod_eq_of_lt (shiftLeft_lt32 _ S 8 hlt (by omega))

theorem narrow_lt (x w : Nat) (hx : x < 256) (hw : w ≤ 8) : narrow x 8 w < 2 ^ w := by
  unfold narrow
  rw [Nat.shiftRight_eq_div_pow]
  apply Nat.div_lt_of_lt_mul
  calc x < 2 ^ 8 := hx
    _ = 2 ^ (8 - w) * 2 ^ w := by rw [← Nat.pow_add]; congr 1; omega

/-- an 8-bit channel converted to `w ≤ 8` bits: the most significant bits -/
theorem cc_from8 (v d S w s : Nat) (hw : w ≤ 8) (hs : s + w ≤ 32) :
    convertChannel v d 8 S w s = narrow (field v S 8) 8 w <<< s := by
  unfold convertChannel
  have hf : field v S 8 < 256 := field_lt v S 8
  by_cases h0 : w = 0
  · subst h0
    have : narrow (field v S 8) 8 0 = 0 := by
      unfold narrow; rw [Nat.shiftRight_eq_div_pow]; exact Nat.div_eq_of_lt hf
    simp [this]
  · have hn := narrow_lt (field v S 8) w hf hw
    have e2 : unormToUnorm (v >>> S) 8 w = narrow (field v S 8) 8 w := by
      rw [u2u_narrow _ 8 w (by decide) hw, ← field_eq_mod]; rfl
    rw [if_pos ⟨by decide, h0⟩, e2, one_shl]
    simp only [Nat.and_two_pow_sub_one_eq_mod]
    rw [Nat.mod_eq_of_lt hn]
    exact Nat.mod_eq_of_lt (shiftLeft_lt32 _ s w hn hs)

/-- widths at most 8, channels inside 32 bits -/
def fits (c : Chans) : Prop :=
  (c.wa ≤ 8 ∧ c.wr ≤ 8 ∧ c.wg ≤ 8 ∧ c.wb ≤ 8) ∧ (c.sa + c.wa ≤ 32 ∧ c.sr + c.wr ≤ 32 ∧ c.sg + c.wg ≤ 32 ∧ c.sb + c.wb ≤ 32)

theorem fetchC_eq_spec (c : Chans) (h : fits c) (p : Nat) : convertPixelC c argbC p = fetchSpec c p := by
  obtain ⟨⟨h1, h2, h3, h4⟩, _⟩ := h
  unfold convertPixelC fetchSpec argbC
  simp only []
  rw [cc_to8 p _ c.wa c.sa 24 h1 (by decide), cc_to8 p _ c.wr c.sr 16 h2 (by decide),
    cc_to8 p _ c.wg c.sg 8 h3 (by decide), cc_to8 p _ c.wb c.sb 0 h4 (by decide)]

theorem storeC_eq_spec (c : Chans) (h : fits c) (v : Nat) : convertPixelC argbC c v = storeSpec c v := by
  obtain ⟨⟨h1, h2, h3, h4⟩, g1, g2, g3, g4⟩ := h
  unfold convertPixelC storeSpec argbC
  simp only []
  rw [cc_from8 v _ 24 c.wa c.sa h1 g1, cc_from8 v _ 16 c.wr c.sr h2 g2, cc_from8 v _ 8 c.wg c.sg h3 g3,
    cc_from8 v _ 0 c.wb c.sb h4 g4]


/-! ## fields of packed pixels -/

/-- four values packed into pairwise disjoint fields can be read back -/
theorem chans_fields (c : Chans) (hd : c.ok = true) (ca cr cg cb : Nat) (ha : ca < 2 ^ c.wa) (hr : cr < 2 ^ c.wr)
    (hg : cg < 2 ^ c.wg) (hb : cb < 2 ^ c.wb) :
    field ((ca <<< c.sa) ||| (cr <<< c.sr) ||| (cg <<< c.sg) ||| (cb <<< c.sb)) c.sa c.wa = ca ∧
    field ((ca <<< c.sa) ||| (cr <<< c.sr) ||| (cg <<< c.sg) ||| (cb <<< c.sb)) c.sr c.wr = cr ∧
    field ((ca <<< c.sa) ||| (cr <<< c.sr) ||| (cg <<< c.sg) ||| (cb <<< c.sb)) c.sg c.wg = cg ∧
    field ((ca <<< c.sa) ||| (cr <<< c.sr) ||| (cg <<< c.sg) ||| (cb <<< c.sb)) c.sb c.wb = cb := by
  simp only [Chans.ok, disjoint, Bool.and_eq_true, decide_eq_true_eq] at hd
  obtain ⟨⟨⟨⟨⟨⟨⟨_, _⟩, dar⟩, dag⟩, dab⟩, drg⟩, drb⟩, dgb⟩ := hd
  simp only [field_or]
  refine ⟨?_, ?_, ?_, ?_⟩
  · rw [field_shiftLeft_same ca c.sa c.wa ha, field_shiftLeft_disjoint cr c.sr c.wr c.sa c.wa hr dar.symm,
      field_shiftLeft_disjoint cg c.sg c.wg c.sa c.wa hg dag.symm, field_shiftLeft_disjoint cb c.sb c.wb c.sa c.wa hb dab.symm]
    simp
  · rw [field_shiftLeft_same cr c.sr c.wr hr, field_shiftLeft_disjoint ca c.sa c.wa c.sr c.wr ha dar,
      field_shiftLeft_disjoint cg c.sg c.wg c.sr c.wr hg drg.symm, field_shiftLeft_disjoint cb c.sb c.wb c.sr c.wr hb drb.symm]
    simp
  · rw [field_shiftLeft_same cg c.sg c.wg hg, field_shiftLeft_disjoint ca c.sa c.wa c.sg c.wg ha dag,
      field_shiftLeft_disjoint cr c.sr c.wr c.sg c.wg hr drg, field_shiftLeft_disjoint cb c.sb c.wb c.sg c.wg hb dgb.symm]
    simp
  · rw [field_shiftLeft_same cb c.sb c.wb hb, field_shiftLeft_disjoint ca c.sa c.wa c.sb c.wb ha dab,
      field_shiftLeft_disjoint cr c.sr c.wr c.sb c.wb hr drb, field_shiftLeft_disjoint cg c.sg c.wg c.sb c.wb hg dgb]
    simp

theorem argbC_ok : argbC.ok = true := by decide

/-- the four bytes of an a8r8g8b8 word -/
theorem pack_fields (A R G B : Nat) (hA : A < 2 ^ 8) (hR : R < 2 ^ 8) (hG : G < 2 ^ 8) (hB : B < 2 ^ 8) :
    field ((A <<< 24) ||| (R <<< 16) ||| (G <<< 8) ||| (B <<< 0)) 24 8 = A ∧
    field ((A <<< 24) ||| (R <<< 16) ||| (G <<< 8) ||| (B <<< 0)) 16 8 = R ∧
    field ((A <<< 24) ||| (R <<< 16) ||| (G <<< 8) ||| (B <<< 0)) 8 8 = G ∧
    field ((A <<< 24) ||| (R <<< 16) ||| (G <<< 8) ||| (B <<< 0)) 0 8 = B :=
  chans_fields argbC argbC_ok A R G B hA hR hG hB

/-- value of one channel after a fetch: bounded by a byte -/
theorem chanFetch_lt (w s d p : Nat) (hw : w ≤ 8) (hd : d < 256) :
    (if w = 0 then d else widen (field p s w) w 8) < 2 ^ 8 := by
  by_cases h0 : w = 0
  · rw [if_pos h0]; exact hd
  · rw [if_neg h0]; exact widen_lt w 8 _ (by omega) hw (by omega) (field_lt p s w)

/-- one channel: narrowing the fetched byte gives the field back -/
theorem chan_rt (w s d p : Nat) (hw : w ≤ 8) (hd : d < 256) :
    narrow (if w = 0 then d else widen (field p s w) w 8) 8 w = field p s w := by
  by_cases h0 : w = 0
  · subst h0
    rw [if_pos rfl]
    have : field p s 0 = 0 := by unfold field; simp
    rw [this]; unfold narrow; rw [Nat.shiftRight_eq_div_pow]; exact Nat.div_eq_of_lt hd
  · rw [if_neg h0]; exact narrow_widen w 8 _ (by omega) hw (by omega) (field_lt p s w)

/-- specification level: store ∘ fetch keeps exactly the channel bits -/
theorem spec_roundtrip (c : Chans) (h : fits c) (p : Nat) : storeSpec c (fetchSpec c p) = p &&& c.mask := by
  obtain ⟨⟨h1, h2, h3, h4⟩, _⟩ := h
  have bA := chanFetch_lt c.wa c.sa 255 p h1 (by decide)
  have bR := chanFetch_lt c.wr c.sr 0 p h2 (by decide)
  have bG := chanFetch_lt c.wg c.sg 0 p h3 (by decide)
  have bB := chanFetch_lt c.wb c.sb 0 p h4 (by decide)
  obtain ⟨fa, fr, fg, fb⟩ := pack_fields _ _ _ _ bA bR bG bB
  unfold storeSpec
  unfold fetchSpec
  rw [fa, fr, fg, fb, chan_rt c.wa c.sa 255 p h1 (by decide), chan_rt c.wr c.sr 0 p h2 (by decide),
    chan_rt c.wg c.sg 0 p h3 (by decide), chan_rt c.wb c.sb 0 p h4 (by decide)]
  rw [field_shiftLeft_back, field_shiftLeft_back, field_shiftLeft_back, field_shiftLeft_back]
  unfold Chans.mask
  rw [Nat.and_or_distrib_left, Nat.and_or_distrib_left, Nat.and_or_distrib_left]

theorem mask_testBit (c : Chans) (j : Nat) : c.mask.testBit j =
    ((decide (j ≥ c.sa) && decide (j - c.sa < c.wa)) || (decide (j ≥ c.sr) && decide (j - c.sr < c.wr)) ||
     (decide (j ≥ c.sg) && decide (j - c.sg < c.wg)) || (decide (j ≥ c.sb) && decide (j - c.sb < c.wb))) := by
  unfold Chans.mask
  rw [Nat.testBit_or, Nat.testBit_or, Nat.testBit_or, testBit_maskAt, testBit_maskAt, testBit_maskAt, testBit_maskAt]

/-- a fetch looks at the channel bits only -/
theorem fetchSpec_masked (c : Chans) (p : Nat) : fetchSpec c (p &&& c.mask) = fetchSpec c p := by
  have ea : field (p &&& c.mask) c.sa c.wa = field p c.sa c.wa := by
    apply field_and_of_mask; intro i hi; rw [mask_testBit]
    have : c.sa + i - c.sa < c.wa := by omega
    simp; omega
  have er : field (p &&& c.mask) c.sr c.wr = field p c.sr c.wr := by
    apply field_and_of_mask; intro i hi; rw [mask_testBit]
    have : c.sr + i - c.sr < c.wr := by omega
    simp; omega
  have eg : field (p &&& c.mask) c.sg c.wg = field p c.sg c.wg := by
    apply field_and_of_mask; intro i hi; rw [mask_testBit]
    have : c.sg + i - c.sg < c.wg := by omega
    simp; omega
  have eb : field (p &&& c.mask) c.sb c.wb = field p c.sb c.wb := by
    apply field_and_of_mask; intro i hi; rw [mask_testBit]
    have : c.sb + i - c.sb < c.wb := by omega
    simp; omega
  unfold fetchSpec
  rw [ea, er, eg, eb]

/-- with non-overlapping channels each field of a stored pixel is the narrowed byte -/
theorem storeSpec_fields (c : Chans) (h : fits c) (hd : c.ok = true) (v : Nat) :
    field (storeSpec c v) c.sa c.wa = narrow (field v 24 8) 8 c.wa ∧
    field (storeSpec c v) c.sr c.wr = narrow (field v 16 8) 8 c.wr ∧
    field (storeSpec c v) c.sg c.wg = narrow (field v 8 8) 8 c.wg ∧
    field (storeSpec c v) c.sb c.wb = narrow (field v 0 8) 8 c.wb := by
  obtain ⟨⟨h1, h2, h3, h4⟩, _⟩ := h
  unfold storeSpec
  exact chans_fields c hd _ _ _ _ (narrow_lt _ _ (field_lt v 24 8) h1) (narrow_lt _ _ (field_lt v 16 8) h2)
    (narrow_lt _ _ (field_lt v 8 8) h3) (narrow_lt _ _ (field_lt v 0 8) h4)

theorem and_eq_self_of_bits (x M : Nat) (h : ∀ j, x.testBit j = true → M.testBit j = true) : x &&& M = x := by
  apply Nat.eq_of_testBit_eq
  intro j
  rw [Nat.testBit_and]
  cases hx : x.testBit j
  · simp
  · simp [h j hx]

theorem testBit_lt_of_lt (x w i : Nat) (hx : x < 2 ^ w) (ht : x.testBit i = true) : i < w := by
  apply Classical.byContradiction
  intro hn
  have : x < 2 ^ i := Nat.lt_of_lt_of_le hx (Nat.pow_le_pow_right (by decide) (by omega))
  rw [Nat.testBit_lt_two_pow this] at ht
  exact absurd ht (by decide)

/-- a stored pixel has no bits outside the channel fields -/
theorem storeSpec_in_mask (c : Chans) (v : Nat) (h : fits c) : storeSpec c v &&& c.mask = storeSpec c v := by
  obtain ⟨⟨h1, h2, h3, h4⟩, _⟩ := h
  have ba := narrow_lt _ _ (field_lt v 24 8) h1
  have br := narrow_lt _ _ (field_lt v 16 8) h2
  have bg := narrow_lt _ _ (field_lt v 8 8) h3
  have bb := narrow_lt _ _ (field_lt v 0 8) h4
  apply and_eq_self_of_bits
  intro j hj
  rw [mask_testBit]
  unfold storeSpec at hj
  simp only [Nat.testBit_or, Nat.testBit_shiftLeft, Bool.or_eq_true, Bool.and_eq_true, decide_eq_true_eq] at hj
  simp only [Bool.or_eq_true, Bool.and_eq_true, decide_eq_true_eq]
  rcases hj with ((⟨g, t⟩ | ⟨g, t⟩) | ⟨g, t⟩) | ⟨g, t⟩
  · exact Or.inl (Or.inl (Or.inl ⟨g, testBit_lt_of_lt _ _ _ ba t⟩))
  · exact Or.inl (Or.inl (Or.inr ⟨g, testBit_lt_of_lt _ _ _ br t⟩))
  · exact Or.inl (Or.inr ⟨g, testBit_lt_of_lt _ _ _ bg t⟩)
  · exact Or.inr ⟨g, testBit_lt_of_lt _ _ _ bb t⟩


/-! ## layouts that differ only in the (irrelevant) shift of a zero-width channel -/

def sameLayout (c d : Chans) : Bool :=
  decide (c.wa = d.wa ∧ c.wr = d.wr ∧ c.wg = d.wg ∧ c.wb = d.wb) &&
  decide ((c.wa = 0 ∨ c.sa = d.sa) ∧ (c.wr = 0 ∨ c.sr = d.sr) ∧ (c.wg = 0 ∨ c.sg = d.sg) ∧ (c.wb = 0 ∨ c.sb = d.sb))

theorem fch (w s s' d p : Nat) (h : w = 0 ∨ s = s') :
    (if w = 0 then d else widen (field p s w) w 8) = (if w = 0 then d else widen (field p s' w) w 8) := by
  cases h with
  | inl h => rw [if_pos h, if_pos h]
  | inr h => rw [h]

theorem sch (x w s s' : Nat) (hx : x < 256) (h : w = 0 ∨ s = s') : narrow x 8 w <<< s = narrow x 8 w <<< s' := by
  cases h with
  | inl h =>
    subst h
    have : narrow x 8 0 = 0 := by unfold narrow; rw [Nat.shiftRight_eq_div_pow]; exact Nat.div_eq_of_lt hx
    rw [this]; simp
  | inr h => rw [h]

theorem mch (w s s' : Nat) (h : w = 0 ∨ s = s') : (2 ^ w - 1) <<< s = (2 ^ w - 1) <<< s' := by
  cases h with
  | inl h => subst h; simp
  | inr h => rw [h]

theorem spec_congr (c d : Chans) (h : sameLayout c d = true) :
    (∀ p, fetchSpec c p = fetchSpec d p) ∧ (∀ v, storeSpec c v = storeSpec d v) ∧ c.mask = d.mask := by
  obtain ⟨sa, wa, sr, wr, sg, wg, sb, wb⟩ := c
  obtain ⟨sa', wa', sr', wr', sg', wg', sb', wb'⟩ := d
  simp only [sameLayout, Bool.and_eq_true, decide_eq_true_eq] at h
  obtain ⟨⟨e1, e2, e3, e4⟩, g1, g2, g3, g4⟩ := h
  subst e1 e2 e3 e4
  refine ⟨?_, ?_, ?_⟩
  · intro p
    simp only [fetchSpec]
    rw [fch wa sa sa' 255 p g1, fch wr sr sr' 0 p g2, fch wg sg sg' 0 p g3, fch wb sb sb' 0 p g4]
  · intro v
    simp only [storeSpec]
    rw [sch _ wa sa sa' (field_lt v 24 8) g1, sch _ wr sr sr' (field_lt v 16 8) g2, sch _ wg sg sg' (field_lt v 8 8) g3,
      sch _ wb sb sb' (field_lt v 0 8) g4]
  · simp only [Chans.mask]
    rw [mch wa sa sa' g1, mch wr sr sr' g2, mch wg sg sg' g3, mch wb sb sb' g4]

end Pixman.Lemmas.FormatCodec

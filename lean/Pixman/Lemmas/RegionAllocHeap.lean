/-
  Heap discipline lemmas for the allocation-aware region model (C15, F3).
  `Own h ids`: the heap is in a sound state, `ids` (duplicate free) are exactly the live blocks,
  and the log is balanced.  Every primitive preserves it under the obvious side condition; every
  model function is a composition of primitives.
-/
import Pixman.Spec.AllocFail
namespace Pixman.Model.RegionAlloc
open Pixman.Region Pixman.Spec.AllocFail

structure LogOK (h : Heap) : Prop where
  bal : ∀ id, cntA id h.log = cntF id h.log + (if id ∈ h.live then 1 else 0)
  fresh : ∀ id, h.nextId ≤ id → cntA id h.log = 0
  once : ∀ id, cntA id h.log ≤ 1

structure Own (h : Heap) (ids : List Nat) : Prop where
  good : h.bad = false
  perm : h.live.Perm ids
  nodup : ids.Nodup
  lt : ∀ i ∈ ids, i < h.nextId
  log : LogOK h

theorem Own.of_perm {h : Heap} {ids ids' : List Nat} (o : Own h ids) (p : ids.Perm ids') : Own h ids' :=
  ⟨o.good, o.perm.trans p, (p.nodup_iff).1 o.nodup, fun i hi => o.lt i ((p.mem_iff).2 hi), o.log⟩

theorem Own.live_nodup {h : Heap} {ids : List Nat} (o : Own h ids) : h.live.Nodup :=
  (o.perm.nodup_iff).2 o.nodup

theorem Own.mem_live {h : Heap} {ids : List Nat} (o : Own h ids) {i : Nat} (hi : i ∈ ids) : i ∈ h.live :=
  (o.perm.mem_iff).2 hi

theorem Own.empty : Own Heap.empty [] :=
  ⟨rfl, List.Perm.refl _, List.nodup_nil, (fun _ h => by simp at h),
   ⟨fun _ => by simp [Heap.empty, cntA, cntF], fun _ _ => by simp [Heap.empty, cntA], fun _ => by simp [Heap.empty, cntA]⟩⟩

/-- a fresh block (shared by `malloc` success and `given`) -/
theorem Own.add_fresh {h : Heap} {ids : List Nat} (o : Own h ids) (k' : Nat) :
    Own { h with k := k', nextId := h.nextId + 1, live := h.nextId :: h.live, log := .alloc h.nextId :: h.log }
      (h.nextId :: ids) := by
  have hnot : h.nextId ∉ ids := fun hm => Nat.lt_irrefl _ (o.lt _ hm)
  have hnotl : h.nextId ∉ h.live := fun hm => hnot ((o.perm.mem_iff).1 hm)
  refine ⟨o.good, List.Perm.cons _ o.perm, List.nodup_cons.2 ⟨hnot, o.nodup⟩, ?_, ?_⟩
  · intro i hi
    rcases List.mem_cons.1 hi with rfl | hi
    · exact Nat.lt_succ_self _
    · exact Nat.lt_succ_of_lt (o.lt i hi)
  · refine ⟨?_, ?_, ?_⟩
    · intro id
      by_cases e : h.nextId = id
      · subst e
        have hz : cntA h.nextId h.log = 0 := o.log.fresh _ (Nat.le_refl _)
        have hb := o.log.bal h.nextId
        simp only [hnotl, if_false] at hb
        have hf : cntF h.nextId h.log = 0 := by omega
        simp [cntA, cntF, hz, hf]
      · have hb := o.log.bal id
        have hne : id ≠ h.nextId := fun x => e x.symm
        simp only [cntA, cntF, e, if_false, List.mem_cons, hne, false_or, Nat.zero_add]
        exact hb
    · intro id hid
      have e : h.nextId ≠ id := by intro x; subst x; exact Nat.lt_irrefl _ hid
      simp only [cntA, e, if_false, Nat.zero_add]
      exact o.log.fresh id (Nat.le_of_succ_le hid)
    · intro id
      by_cases e : h.nextId = id
      · subst e
        have hz : cntA h.nextId h.log = 0 := o.log.fresh _ (Nat.le_refl _)
        simp [cntA, hz]
      · simp only [cntA, e, if_false, Nat.zero_add]
        exact o.log.once id

theorem Own.keep {h : Heap} {ids : List Nat} (o : Own h ids) (k' : Nat) (e : HEv)
    (he : (∀ j, e ≠ .alloc j) ∧ (∀ j, e ≠ .free j)) :
    Own { h with k := k', log := e :: h.log } ids := by
  have ca : ∀ id, cntA id (e :: h.log) = cntA id h.log := by
    intro id; cases e <;> simp_all [cntA]
  have cf : ∀ id, cntF id (e :: h.log) = cntF id h.log := by
    intro id; cases e <;> simp_all [cntF]
  exact ⟨o.good, o.perm, o.nodup, o.lt,
    ⟨fun id => by simpa [ca, cf] using o.log.bal id, fun id hid => by simpa [ca] using o.log.fresh id hid,
     fun id => by simpa [ca] using o.log.once id⟩⟩

theorem Own.malloc_some {h h' : Heap} {ids : List Nat} {id : Nat} (o : Own h ids) {s : Sched}
    (e : h.malloc s = (some id, h')) : Own h' (id :: ids) := by
  unfold Heap.malloc at e
  split at e
  · injection e with e1 e2; injection e1 with e1; subst e1; subst e2; exact o.add_fresh _
  · injection e with e1 _; cases e1

theorem Own.malloc_none {h h' : Heap} {ids : List Nat} (o : Own h ids) {s : Sched}
    (e : h.malloc s = (none, h')) : Own h' ids := by
  unfold Heap.malloc at e
  split at e
  · injection e with e1 _; cases e1
  · injection e with _ e2; subst e2; exact o.keep _ _ ⟨fun _ => by simp, fun _ => by simp⟩

theorem Own.given {h : Heap} {ids : List Nat} (o : Own h ids) : Own h.given.2 (h.given.1 :: ids) := by
  unfold Heap.given
  exact o.add_fresh _

theorem contains_of_mem {l : List Nat} {i : Nat} (h : i ∈ l) : l.contains i = true := by
  simpa using h

theorem Own.realloc {h : Heap} {ids : List Nat} (o : Own h ids) (s : Sched) {id : Nat} (hid : id ∈ ids) :
    Own (h.realloc s id).2 ids := by
  have hm := contains_of_mem (o.mem_live hid)
  have hb : (h.bad || !h.live.contains id) = h.bad := by rw [hm]; simp
  unfold Heap.realloc
  split
  · simp only [hb]; exact o.keep _ _ ⟨fun _ => by simp, fun _ => by simp⟩
  · simp only [hb]; exact o.keep _ _ ⟨fun _ => by simp, fun _ => by simp⟩

theorem Own.free {h : Heap} {ids : List Nat} {id : Nat} (o : Own h (id :: ids)) : Own (h.free id) ids := by
  have hml : id ∈ h.live := o.mem_live (List.mem_cons_self ..)
  have hnd := o.live_nodup
  have hni : id ∉ ids := (List.nodup_cons.1 o.nodup).1
  unfold Heap.free
  refine ⟨by simp [o.good, hml], ?_, (List.nodup_cons.1 o.nodup).2, fun i hi => o.lt i (List.mem_cons_of_mem _ hi), ?_⟩
  · have := o.perm.erase id
    simpa using this
  · refine ⟨?_, fun j hj => by simpa [cntA] using o.log.fresh j hj, fun j => by simpa [cntA] using o.log.once j⟩
    intro j
    have hb := o.log.bal j
    by_cases e : id = j
    · subst e
      have : id ∉ h.live.erase id := fun hm => (List.Nodup.mem_erase_iff hnd).1 hm |>.1 rfl
      simp only [cntA, cntF, if_true, this, if_false]
      simp only [hml, if_true] at hb
      omega
    · have hne : j ≠ id := fun x => e x.symm
      have hiff : j ∈ h.live.erase id ↔ j ∈ h.live := List.mem_erase_of_ne hne
      simp only [cntA, cntF, e, if_false, Nat.zero_add]
      by_cases hj : j ∈ h.live
      · simp only [hj, hiff.2 hj, if_true] at hb ⊢; exact hb
      · have : j ∉ h.live.erase id := fun x => hj (hiff.1 x)
        simp only [hj, this, if_false] at hb ⊢; exact hb

/-- the log-level reading of `Own`: nothing is freed twice, and when nothing is live every block
    that was ever allocated has been freed exactly once -/
theorem LogOK.free_le_one {h : Heap} (l : LogOK h) (id : Nat) : cntF id h.log ≤ 1 := by
  have := l.bal id; have := l.once id; omega

theorem LogOK.balanced {h : Heap} (l : LogOK h) (hl : h.live = []) (id : Nat) :
    cntF id h.log = cntA id h.log := by
  have := l.bal id; simp [hl] at this; omega

end Pixman.Model.RegionAlloc

import Pixman.Lemmas.GlyphTable
/-!
  Accounting invariant of the glyph cache and its preservation by every operation; termination
  of the probe loops.
-/
namespace Pixman.Glyph

/-- table part of the accounting invariant; `k` bounds the glyph ids in the table -/
structure TableOK (p : Params) (k : Nat) (c : Cache) : Prop where
  len : c.table.length = p.hashSize
  glyphs : c.nGlyphs = ((entries c.table).length : Int)
  tombs : c.nTomb = (tombs c.table : Int)
  nodup : (entries c.table).Nodup
  ids : ∀ g ∈ entries c.table, g.id < k

/-- accounting invariant with an explicit id bound -/
structure CountedB (p : Params) (k : Nat) (c : Cache) : Prop where
  tab : TableOK p k c
  mru : c.mru.Perm (entries c.table)

/-- the accounting invariant: the table has `hashSize` slots, `nGlyphs`/`nTomb` count the entry /
    tombstone slots, no glyph object sits in two slots, the MRU list is a permutation of the glyphs
    in the table, and every glyph id is below the clock (so the next id is fresh) -/
def Counted (p : Params) (c : Cache) : Prop := CountedB p c.clock c

/-- at least one slot is empty, expressed on the counters (see `hasEmpty_iff`) -/
def HasEmpty (p : Params) (c : Cache) : Prop := c.nGlyphs + c.nTomb ≤ (p.hashSize : Int) - 1

theorem TableOK.mono {p k k' c} (h : TableOK p k c) (hk : k ≤ k') : TableOK p k' c :=
  ⟨h.len, h.glyphs, h.tombs, h.nodup, fun g hg => Nat.lt_of_lt_of_le (h.ids g hg) hk⟩

theorem CountedB.mono {p k k' c} (h : CountedB p k c) (hk : k ≤ k') : CountedB p k' c :=
  ⟨h.tab.mono hk, h.mru⟩

theorem hasEmpty_iff {p k c} (h : TableOK p k c) : HasEmpty p c ↔ Slot.empty ∈ c.table := by
  rw [← empties_pos_iff]
  have := count_total c.table
  unfold HasEmpty
  rw [h.glyphs, h.tombs]
  have := h.len
  omega

/-! ### slot access -/

theorem mod_lt_len {p : Params} {c : Cache} (hl : c.table.length = p.hashSize) (hp : 0 < p.hashSize)
    (i : Nat) : i % p.hashSize < c.table.length := by
  rw [hl]; exact Nat.mod_lt _ hp

theorem get_eq {p : Params} {c : Cache} (hl : c.table.length = p.hashSize) (hp : 0 < p.hashSize)
    (i : Nat) : c.get p i = c.table[i % p.hashSize]'(mod_lt_len hl hp i) := by
  unfold Cache.get
  rw [List.getD_eq_getElem?_getD, List.getElem?_eq_getElem (mod_lt_len hl hp i)]
  rfl

theorem get_mem {p : Params} {c : Cache} (hl : c.table.length = p.hashSize) (hp : 0 < p.hashSize)
    (i : Nat) : c.get p i ∈ c.table := by
  rw [get_eq hl hp]; exact List.getElem_mem _

/-- the probe sequence from any start reaches every slot within `n` steps -/
theorem probe_hits {n : Nat} (idx i : Nat) (hi : i < n) : ∃ j, j < n ∧ (idx + j) % n = i := by
  have hr : idx % n < n := Nat.mod_lt _ (by omega)
  have hidx : idx = n * (idx / n) + idx % n := (Nat.div_add_mod idx n).symm
  by_cases h : idx % n ≤ i
  · refine ⟨i - idx % n, by omega, ?_⟩
    have : idx + (i - idx % n) = n * (idx / n) + i := by omega
    rw [this, Nat.mul_add_mod, Nat.mod_eq_of_lt hi]
  · refine ⟨n - idx % n + i, by omega, ?_⟩
    have : idx + (n - idx % n + i) = n * (idx / n + 1) + i := by
      rw [Nat.mul_add, Nat.mul_one]; omega
    rw [this, Nat.mul_add_mod, Nat.mod_eq_of_lt hi]

theorem mem_probe {p : Params} {c : Cache} (hl : c.table.length = p.hashSize) (hp : 0 < p.hashSize)
    {s : Slot} (hs : s ∈ c.table) (idx : Nat) : ∃ j, j < p.hashSize ∧ c.get p (idx + j) = s := by
  obtain ⟨i, hi, he⟩ := List.getElem_of_mem hs
  obtain ⟨j, hj, hm⟩ := probe_hits (n := p.hashSize) idx i (by omega)
  refine ⟨j, hj, ?_⟩
  rw [get_eq hl hp]
  simp only [hm]; exact he

/-! ### the probe loops terminate -/

theorem lookupFrom_ne_none (p : Params) (c : Cache) (font key : Nat) :
    ∀ fuel idx, (∃ j, j < fuel ∧ c.get p (idx + j) = .empty) →
      lookupFrom p c font key fuel idx ≠ none := by
  intro fuel
  induction fuel with
  | zero => rintro idx ⟨j, hj, _⟩; omega
  | succ fuel ih =>
    rintro idx ⟨j, hj, he⟩
    have next : c.get p idx ≠ .empty → ∃ j, j < fuel ∧ c.get p (idx + 1 + j) = .empty := by
      intro hne
      cases j with
      | zero => exact absurd he hne
      | succ j => exact ⟨j, by omega, by rw [← he]; congr 1; omega⟩
    unfold lookupFrom
    split
    · simp
    · rename_i h; exact ih _ (next (by rw [h]; simp))
    · rename_i g h
      split
      · simp
      · exact ih _ (next (by rw [h]; simp))

theorem findFree_ne_none (p : Params) (c : Cache) :
    ∀ fuel idx, (∃ j, j < fuel ∧ (c.get p (idx + j)).isEntry = false) →
      findFree p c fuel idx ≠ none := by
  intro fuel
  induction fuel with
  | zero => rintro idx ⟨j, hj, _⟩; omega
  | succ fuel ih =>
    rintro idx ⟨j, hj, he⟩
    unfold findFree
    split
    · rename_i g h
      apply ih
      cases j with
      | zero => rw [Nat.add_zero, h] at he; simp [Slot.isEntry] at he
      | succ j => exact ⟨j, by omega, by rw [← he]; congr 2; omega⟩
    · simp

theorem findFree_some (p : Params) (c : Cache) :
    ∀ fuel idx i, findFree p c fuel idx = some i → (c.get p i).isEntry = false := by
  intro fuel
  induction fuel with
  | zero => intro idx i h; simp [findFree] at h
  | succ fuel ih =>
    intro idx i h
    unfold findFree at h
    split at h
    · exact ih _ _ h
    · rename_i hne
      simp only [Option.some.injEq] at h
      subst h
      cases hs : c.get p idx with
      | entry g => exact absurd hs (hne g)
      | empty => rfl
      | tomb => rfl

theorem findGlyph_ne_none (p : Params) (c : Cache) (g : G) :
    ∀ fuel idx, (∃ j, j < fuel ∧ c.get p (idx + j) = .entry g) →
      findGlyph p c g fuel idx ≠ none := by
  intro fuel
  induction fuel with
  | zero => rintro idx ⟨j, hj, _⟩; omega
  | succ fuel ih =>
    rintro idx ⟨j, hj, he⟩
    unfold findGlyph
    split
    · simp
    · rename_i hne
      apply ih
      cases j with
      | zero => exact absurd he hne
      | succ j => exact ⟨j, by omega, by rw [← he]; congr 1; omega⟩

theorem findGlyph_some (p : Params) (c : Cache) (g : G) :
    ∀ fuel idx i, findGlyph p c g fuel idx = some i → c.get p i = .entry g := by
  intro fuel
  induction fuel with
  | zero => intro idx i h; simp [findGlyph] at h
  | succ fuel ih =>
    intro idx i h
    unfold findGlyph at h
    split at h
    · rename_i he; simp only [Option.some.injEq] at h; subst h; exact he
    · exact ih _ _ h

theorem lookupFrom_some (p : Params) (c : Cache) (font key : Nat) (g : G) :
    ∀ fuel idx, lookupFrom p c font key fuel idx = some (some g) →
      (∃ i, c.get p i = .entry g) ∧ g.font = font ∧ g.key = key := by
  intro fuel
  induction fuel with
  | zero => intro idx h; simp [lookupFrom] at h
  | succ fuel ih =>
    intro idx h
    unfold lookupFrom at h
    split at h
    · simp at h
    · exact ih _ h
    · rename_i g' hs
      split at h
      · rename_i hfk
        simp only [Option.some.injEq] at h
        subst h
        exact ⟨⟨idx, hs⟩, hfk.1, hfk.2⟩
      · exact ih _ h

/-! ### single-slot update -/

theorem set_table (p : Params) (c : Cache) (i : Nat) (s : Slot) :
    (c.set p i s).table = c.table.set (i % p.hashSize) s := rfl

/-- effect of `Cache.set` on the table measures -/
theorem set_update {p : Params} {c : Cache} (hl : c.table.length = p.hashSize) (hp : 0 < p.hashSize)
    (i : Nat) (s : Slot) :
    ∃ A B : List G, ∃ n : Nat,
      entries c.table = A ++ (c.get p i).gl ++ B ∧
      entries (c.set p i s).table = A ++ s.gl ++ B ∧
      tombs c.table = n + (c.get p i).tb ∧
      tombs (c.set p i s).table = n + s.tb ∧
      (c.set p i s).table.length = p.hashSize := by
  obtain ⟨A, B, n, m, h1, h2, h3, h4, _, _⟩ := set_measures c.table (i % p.hashSize) (mod_lt_len hl hp i) s
  refine ⟨A, B, n, ?_, ?_, ?_, ?_, ?_⟩
  · rw [get_eq hl hp]; exact h1
  · exact h2
  · rw [get_eq hl hp]; exact h3
  · exact h4
  · rw [set_table, List.length_set]; exact hl

/-! ### insert_glyph -/

theorem insertGlyph_counted {p : Params} {h : Nat → Nat → Nat} {k : Nat} {c c' : Cache} {g : G}
    (hp : 0 < p.hashSize) (hc : CountedB p k c) (hk : k ≤ g.id)
    (hi : insertGlyph p h { c with mru := g :: c.mru } g = some c') :
    CountedB p (g.id + 1) c' ∧ c'.freeze = c.freeze ∧ c'.clock = c.clock ∧
      c'.nGlyphs + c'.nTomb ≤ c.nGlyphs + c.nTomb + 1 := by
  unfold insertGlyph at hi
  split at hi
  · simp at hi
  · rename_i i hf
    have hne := findFree_some _ _ _ _ _ hf
    simp only [Option.some.injEq] at hi
    subst hi
    have hfresh : g ∉ entries c.table := fun hg => by have := hc.tab.ids g hg; omega
    obtain ⟨A, B, n, h1, h2, h3, h4, h5⟩ := set_update (c := c) hc.tab.len hp i (.entry g)
    have hget : ({ c with mru := g :: c.mru } : Cache).get p i = c.get p i := rfl
    rw [hget] at hne ⊢
    simp only [Cache.set] at h2 h4 h5 ⊢
    have hnd := hc.tab.nodup
    have hmru := hc.mru
    have hgl := hc.tab.glyphs
    have htb := hc.tab.tombs
    have hids := hc.tab.ids
    cases hs : c.get p i with
    | entry g' => rw [hs] at hne; simp [Slot.isEntry] at hne
    | empty =>
      rw [hs] at h1 h3
      simp only [Slot.gl, Slot.tb, Slot.isTomb, List.append_nil, Bool.false_eq_true, if_false, Nat.add_zero] at h1 h2 h3 h4
      simp only [Slot.isTomb, Bool.false_eq_true, if_false]
      rw [h1] at hnd hmru hgl hfresh hids
      refine ⟨⟨⟨h5, ?_, ?_, ?_, ?_⟩, ?_⟩, trivial, trivial, ?_⟩
      · show c.nGlyphs + 1 = _
        rw [h2, hgl]; simp only [List.length_append, List.length_cons, List.length_nil]; omega
      · show c.nTomb = _
        rw [h4, htb, h3]
      · rw [h2]
        rw [List.append_assoc, List.singleton_append]
        exact (List.perm_middle.nodup_iff).mpr (List.nodup_cons.mpr ⟨hfresh, hnd⟩)
      · intro g' hg'
        rw [h2, List.append_assoc, List.singleton_append] at hg'
        rcases List.mem_append.mp hg' with hA | hB
        · have := hids g' (List.mem_append_left _ hA); omega
        · rcases List.mem_cons.mp hB with rfl | hB
          · omega
          · have := hids g' (List.mem_append_right _ hB); omega
      · show (g :: c.mru).Perm _
        rw [h2, List.append_assoc, List.singleton_append]
        exact (List.Perm.cons g hmru).trans List.perm_middle.symm
      · show c.nGlyphs + 1 + c.nTomb ≤ _
        omega
    | tomb =>
      rw [hs] at h1 h3
      simp only [Slot.gl, Slot.tb, Slot.isTomb, List.append_nil, Bool.false_eq_true, if_false, if_true, Nat.add_zero] at h1 h2 h3 h4
      simp only [Slot.isTomb, if_true]
      rw [h1] at hnd hmru hgl hfresh hids
      refine ⟨⟨⟨h5, ?_, ?_, ?_, ?_⟩, ?_⟩, trivial, trivial, ?_⟩
      · show c.nGlyphs + 1 = _
        rw [h2, hgl]; simp only [List.length_append, List.length_cons, List.length_nil]; omega
      · show c.nTomb - 1 = _
        rw [h4, htb, h3]; omega
      · rw [h2]
        rw [List.append_assoc, List.singleton_append]
        exact (List.perm_middle.nodup_iff).mpr (List.nodup_cons.mpr ⟨hfresh, hnd⟩)
      · intro g' hg'
        rw [h2, List.append_assoc, List.singleton_append] at hg'
        rcases List.mem_append.mp hg' with hA | hB
        · have := hids g' (List.mem_append_left _ hA); omega
        · rcases List.mem_cons.mp hB with rfl | hB
          · omega
          · have := hids g' (List.mem_append_right _ hB); omega
      · show (g :: c.mru).Perm _
        rw [h2, List.append_assoc, List.singleton_append]
        exact (List.Perm.cons g hmru).trans List.perm_middle.symm
      · show c.nGlyphs + 1 + (c.nTomb - 1) ≤ _
        omega


/-! ### generic single-slot transitions -/

/-- replacing a non-entry slot by a non-entry slot -/
theorem tableOK_set {p : Params} {k : Nat} {c c' : Cache} (hp : 0 < p.hashSize) (hc : TableOK p k c)
    (i : Nat) (s : Slot) (ht : c'.table = c.table.set (i % p.hashSize) s)
    (hgl : (c.get p i).gl = []) (hsgl : s.gl = []) (hg : c'.nGlyphs = c.nGlyphs)
    (hn : c'.nTomb = c.nTomb - ((c.get p i).tb : Int) + (s.tb : Int)) :
    TableOK p k c' ∧ entries c'.table = entries c.table := by
  obtain ⟨A, B, n, h1, h2, h3, h4, h5⟩ := set_update (c := c) hc.len hp i s
  simp only [Cache.set] at h2 h4 h5
  rw [← ht] at h2 h4 h5
  rw [hgl] at h1; rw [hsgl] at h2
  have he : entries c'.table = entries c.table := by rw [h1, h2]
  refine ⟨⟨h5, ?_, ?_, ?_, ?_⟩, he⟩
  · rw [hg, he]; exact hc.glyphs
  · rw [hn, hc.tombs, h4, h3]; omega
  · rw [he]; exact hc.nodup
  · rw [he]; exact hc.ids

/-- replacing the slot of glyph `g` by a tombstone -/
theorem tableOK_remove {p : Params} {k : Nat} {c c' : Cache} {g : G} (hp : 0 < p.hashSize)
    (hc : TableOK p k c) (i : Nat) (hget : c.get p i = .entry g)
    (ht : c'.table = c.table.set (i % p.hashSize) .tomb)
    (hg : c'.nGlyphs = c.nGlyphs - 1) (hn : c'.nTomb = c.nTomb + 1) :
    TableOK p k c' ∧ ∃ A B, entries c.table = A ++ g :: B ∧ entries c'.table = A ++ B := by
  obtain ⟨A, B, n, h1, h2, h3, h4, h5⟩ := set_update (c := c) hc.len hp i .tomb
  simp only [Cache.set] at h2 h4 h5
  rw [← ht] at h2 h4 h5
  rw [hget] at h1 h3
  simp only [Slot.gl, Slot.tb, Slot.isTomb, List.append_nil, Bool.false_eq_true, if_false, if_true,
    Nat.add_zero, List.append_assoc, List.singleton_append] at h1 h2 h3 h4
  have hnd := hc.nodup
  have hgl := hc.glyphs
  have hids := hc.ids
  rw [h1] at hnd hgl hids
  refine ⟨⟨h5, ?_, ?_, ?_, ?_⟩, A, B, h1, h2⟩
  · rw [hg, hgl, h2]; simp only [List.length_append, List.length_cons]; omega
  · rw [hn, hc.tombs, h4, h3]; omega
  · rw [h2]
    have := (List.perm_middle.nodup_iff).mp hnd
    exact (List.nodup_cons.mp this).2
  · intro g' hg'
    rw [h2] at hg'
    apply hids
    rcases List.mem_append.mp hg' with hA | hB
    · exact List.mem_append_left _ hA
    · exact List.mem_append_right _ (List.mem_cons_of_mem _ hB)

end Pixman.Glyph

import Pixman.Model.FilterKernels
/-! Lemmas for the exact-rational model of pixman-filter.c's sampling (C18 deepening): evenness of the kernels,
the Simpson sum, reflection symmetry of `integral()` and of a sampled coefficient, mirror positions of the taps. -/
namespace Pixman.Lemmas.FilterKernels
open Pixman.Model.Filter Pixman.Model.FilterKernels

theorem abs_neg' (x : Rat) : (-x).abs = x.abs := by grind [Rat.abs]

theorem kernel_even (k : Nat) (x : Rat) : kernel k (-x) = kernel k x := by
  unfold kernel
  split
  · unfold impulse; grind
  · rfl
  · unfold linear; rw [abs_neg']
  · unfold cubic generalCubic; rw [abs_neg']
  · rfl
theorem sampleAt_neg (k1 k2 : Nat) (sc a b : Rat) : sampleAt k1 k2 sc (-a) (-b) = sampleAt k1 k2 sc a b := by
  unfold sampleAt
  have : -b * sc = -(b * sc) := by grind
  rw [this, kernel_even, kernel_even]

theorem sampleAt_reflect (k1 k2 : Nat) (sc x1 x2 w i j : Rat) (hij : i + j = 12) :
    sampleAt k1 k2 sc (-(x1 + w) + w / 12 * i) (-(x2 + w) + w / 12 * i)
      = sampleAt k1 k2 sc (x1 + w / 12 * j) (x2 + w / 12 * j) := by
  have hj : j = 12 - i := by grind
  subst hj
  have h1 : -(x1 + w) + w / 12 * i = -(x1 + w / 12 * (12 - i)) := by grind
  have h2 : -(x2 + w) + w / 12 * i = -(x2 + w / 12 * (12 - i)) := by grind
  rw [h1, h2, sampleAt_neg]

theorem simpson_mirror (k1 : Nat) (x1 : Rat) (k2 : Nat) (sc x2 w : Rat) :
    simpson k1 (-(x1 + w)) k2 sc (-(x2 + w)) w = simpson k1 x1 k2 sc x2 w := by
  unfold simpson
  simp only [List.foldl]
  have r (i j : Rat) (hij : i + j = 12) := sampleAt_reflect k1 k2 sc x1 x2 w i j hij
  have e0 : sampleAt k1 k2 sc (-(x1 + w)) (-(x2 + w)) = sampleAt k1 k2 sc (x1 + w) (x2 + w) := sampleAt_neg ..
  have e12 : sampleAt k1 k2 sc (-(x1 + w) + w) (-(x2 + w) + w) = sampleAt k1 k2 sc x1 x2 := by
    have h1 : -(x1 + w) + w = -x1 := by grind
    have h2 : -(x2 + w) + w = -x2 := by grind
    rw [h1, h2, sampleAt_neg]
  rw [e0, e12]
  have c1 := r 1 11 (by grind); have c3 := r 3 9 (by grind); have c5 := r 5 7 (by grind)
  have c7 := r 7 5 (by grind); have c9 := r 9 3 (by grind); have c11 := r 11 1 (by grind)
  have c2 := r 2 10 (by grind); have c4 := r 4 8 (by grind); have c6 := r 6 6 (by grind)
  have c8 := r 8 4 (by grind); have c10 := r 10 2 (by grind)
  push_cast
  rw [c1, c3, c5, c7, c9, c11, c2, c4, c6, c8, c10]
  grind
theorem optAdd_comm (a b : Option Rat) : optAdd a b = optAdd b a := by
  cases a <;> cases b <;> simp [optAdd, Rat.add_comm]

theorem integralF_congr {f k1 k2 : Nat} {sc a a' b b' c c' : Rat} (ha : a = a') (hb : b = b') (hc : c = c') :
    integralF f k1 a k2 sc b c = integralF f k1 a' k2 sc b' c' := by subst ha hb hc; rfl

theorem integralF_mirror (fuel k1 k2 : Nat) (sc : Rat) : ∀ x1 x2 w : Rat,
    integralF fuel k1 (-(x1 + w)) k2 sc (-(x2 + w)) w = integralF fuel k1 x1 k2 sc x2 w := by
  induction fuel with
  | zero => intro _ _ _; rfl
  | succ f ih =>
    intro x1 x2 w
    simp only [integralF]
    by_cases hb : k1 = 1 ∧ k2 = 1
    · rw [if_pos hb, if_pos hb]
    · rw [if_neg hb, if_neg hb]
      by_cases h1 : k1 = 2 ∧ x1 < 0 ∧ x1 + w > 0
      · have h1' : k1 = 2 ∧ -(x1 + w) < 0 ∧ -(x1 + w) + w > 0 := by grind
        rw [if_pos h1, if_pos h1']
        have eA : integralF f k1 (-(x1 + w)) k2 sc (-(x2 + w)) (- -(x1 + w))
            = integralF f k1 0 k2 sc (x2 - x1) (w + x1) :=
          (integralF_congr (by grind) (by grind) (by grind)).trans (ih 0 (x2 - x1) (w + x1))
        have eB : integralF f k1 0 k2 sc (-(x2 + w) - -(x1 + w)) (w + -(x1 + w))
            = integralF f k1 x1 k2 sc x2 (-x1) :=
          (integralF_congr (by grind) (by grind) (by grind)).trans (ih x1 x2 (-x1))
        rw [eA, eB, optAdd_comm]
      · have h1' : ¬ (k1 = 2 ∧ -(x1 + w) < 0 ∧ -(x1 + w) + w > 0) := by grind
        rw [if_neg h1, if_neg h1']
        by_cases h2 : k2 = 2 ∧ x2 < 0 ∧ x2 + w > 0
        · have h2' : k2 = 2 ∧ -(x2 + w) < 0 ∧ -(x2 + w) + w > 0 := by grind
          rw [if_pos h2, if_pos h2']
          have eA : integralF f k1 (-(x1 + w)) k2 sc (-(x2 + w)) (- -(x2 + w))
              = integralF f k1 (x1 - x2) k2 sc 0 (w + x2) :=
            (integralF_congr (by grind) (by grind) (by grind)).trans (ih (x1 - x2) 0 (w + x2))
          have eB : integralF f k1 (-(x1 + w) - -(x2 + w)) k2 sc 0 (w + -(x2 + w))
              = integralF f k1 x1 k2 sc x2 (-x2) :=
            (integralF_congr (by grind) (by grind) (by grind)).trans (ih x1 x2 (-x2))
          rw [eA, eB, optAdd_comm]
        · have h2' : ¬ (k2 = 2 ∧ -(x2 + w) < 0 ∧ -(x2 + w) + w > 0) := by grind
          rw [if_neg h2, if_neg h2']
          by_cases h3 : k1 = 0
          · rw [if_pos h3, if_pos h3]
            by_cases hw : w = 0
            · rw [if_pos hw, if_pos hw]
              have : -(x2 + w) * sc = -(x2 * sc) := by grind
              rw [this, kernel_even]
            · rw [if_neg hw, if_neg hw]
          · rw [if_neg h3, if_neg h3]
            by_cases h4 : k2 = 0
            · rw [if_pos h4, if_pos h4]
              by_cases hw : w = 0
              · rw [if_pos hw, if_pos hw]
                have : -(x1 + w) = -x1 := by grind
                rw [this, kernel_even]
              · rw [if_neg hw, if_neg hw]
            · rw [if_neg h4, if_neg h4, simpson_mirror]

/-- a sampled coefficient depends on `|pos|` only -/
theorem coeff_even (r s : Nat) (scale p : Rat) : coeff r s scale (-p) = coeff r s scale p := by
  unfold coeff
  simp only []
  by_cases hc : -(kw r) / 2 + kw r ≥ p - scale * kw s / 2 ∧ -(kw r) / 2 ≤ p - scale * kw s / 2 + scale * kw s
  · have hc' : -(kw r) / 2 + kw r ≥ -p - scale * kw s / 2 ∧ -(kw r) / 2 ≤ -p - scale * kw s / 2 + scale * kw s := by
      grind
    rw [if_pos hc, if_pos hc']
    unfold integral
    refine (integralF_congr ?_ ?_ ?_).trans
      (integralF_mirror 8 r s (1 / scale) (max (p - scale * kw s / 2) (-(kw r) / 2))
        (max (p - scale * kw s / 2) (-(kw r) / 2) - p)
        (min (p - scale * kw s / 2 + scale * kw s) (-(kw r) / 2 + kw r) - max (p - scale * kw s / 2) (-(kw r) / 2)))
    · grind
    · grind
    · grind
  · have hc' : ¬ (-(kw r) / 2 + kw r ≥ -p - scale * kw s / 2 ∧ -(kw r) / 2 ≤ -p - scale * kw s / 2 + scale * kw s) := by
      grind
    rw [if_neg hc, if_neg hc']

/-! ## mirror positions -/

theorem firstTap_mirror (w n i j : Nat) (hij : i + j + 1 = n)
    (hnd : ((w : Int) * n + n - (2 * i + 1)) % (2 * n) ≠ 0) :
    firstTap w n j + firstTap w n i = 1 - w := by
  unfold firstTap
  have hn : (0 : Int) < 2 * n := by omega
  have hj : (j : Int) = n - 1 - i := by omega
  generalize hA : ((w : Int) * n + n - (2 * i + 1)) = A at *
  have hA' : ((w : Int) * n + n - (2 * j + 1)) = 2 * n * w - A := by rw [← hA, hj]; grind
  rw [hA']
  have h1 := Int.emod_add_mul_ediv A (2 * n)
  have h2 := Int.emod_nonneg A (show (2 * (n : Int)) ≠ 0 by omega)
  have h3 := Int.emod_lt_of_pos A hn
  have key : (2 * n * w - A) / (2 * n) = w - A / (2 * n) - 1 ∧ (2 * n * w - A) % (2 * n) = 2 * n - A % (2 * n) := by
    rw [Int.ediv_emod_unique hn]
    refine ⟨?_, by omega, by omega⟩
    grind
  rw [key.1]; omega

theorem not_dvd_of_even_or_odd (w n i : Nat) (hi : i < n) (h : n % 2 = 0 ∨ (n = 1 ∧ w % 2 = 1)) :
    ((w : Int) * n + n - (2 * i + 1)) % (2 * n) ≠ 0 := by
  intro h0
  have hd : (2 : Int) ∣ 2 * n := ⟨n, rfl⟩
  have h2 := Int.emod_emod_of_dvd ((w : Int) * n + n - (2 * i + 1)) hd
  rw [h0] at h2
  rcases h with he | ⟨h1, ho⟩
  · obtain ⟨m, rfl⟩ : ∃ m, n = 2 * m := ⟨n / 2, by omega⟩
    have e : ((w : Int) * ((2 * m : Nat) : Int) + ((2 * m : Nat) : Int) - (2 * i + 1)) = 2 * ((w : Int) * m + m - i) - 1 := by
      push_cast; grind
    rw [e] at h2
    omega
  · subst h1
    have : i = 0 := by omega
    subst this
    simp at h2
    omega

theorem frac_mirror (n i j : Nat) (hij : i + j + 1 = n) : frac n j = 1 - frac n i := by
  unfold frac
  have hn : (n : Rat) ≠ 0 := by
    have : n ≠ 0 := by omega
    exact_mod_cast this
  have hj : (j : Rat) = n - 1 - i := by
    have h : ((i + j + 1 : Nat) : Rat) = (n : Rat) := by rw [hij]
    push_cast at h
    grind
  rw [hj]
  grind


theorem pos_mirror (w n i j k l : Nat) (hij : i + j + 1 = n) (hkl : k + l + 1 = w)
    (h : n % 2 = 0 ∨ (n = 1 ∧ w % 2 = 1)) : pos w n j l = -pos w n i k := by
  unfold pos
  rw [frac_mirror n i j hij]
  have hft := firstTap_mirror w n i j hij (not_dvd_of_even_or_odd w n i (by omega) h)
  have hl : (l : Int) = w - 1 - k := by omega
  have e : firstTap w n j + (l : Int) = -(firstTap w n i + (k : Int)) := by omega
  rw [e]
  push_cast
  grind

/-! ## normalisation with error diffusion -/

theorem round_err_bounds (v : Rat) :
    -(1 / 2 : Rat) ≤ v - (((v + 1 / 2).floor : Int) : Rat) ∧ v - (((v + 1 / 2).floor : Int) : Rat) < 1 / 2 := by
  have h1 := Rat.floor_le (v + 1 / 2)
  have h2 := Rat.lt_floor_add_one (v + 1 / 2)
  push_cast at h2
  constructor <;> grind

theorem int_of_small (z : Int) (h1 : -(1 / 2 : Rat) ≤ (z : Rat)) (h2 : (z : Rat) < 1 / 2) : z = 0 := by
  have a : ((-1 : Int) : Rat) < (z : Rat) := by grind
  have b : (z : Rat) < ((1 : Int) : Rat) := by grind
  have a' := Rat.intCast_lt_intCast.mp a
  have b' := Rat.intCast_lt_intCast.mp b
  omega

/-- telescoping: whatever integers `ts` are chosen as roundings, their sum is the scaled total minus the error left -/
theorem followErr_telescope (c : Rat) : ∀ (raws ts : List Int) (e0 : Rat), raws.length = ts.length →
    ((sumInts ts : Int) : Rat) = c * ((sumInts raws : Int) : Rat) + e0 - followErr c raws ts e0 := by
  intro raws
  induction raws with
  | nil =>
    intro ts e0 h
    cases ts with
    | nil => simp only [sumInts, followErr]; grind
    | cons _ _ => simp at h
  | cons r rs ih =>
    intro ts e0 h
    cases ts with
    | nil => simp at h
    | cons t ts =>
      simp only [List.length_cons, Nat.add_right_cancel_iff] at h
      have := ih ts ((r : Rat) * c + e0 - t) h
      simp only [sumInts, followErr]
      push_cast
      rw [this]
      grind

theorem normLoop_length (c : Rat) : ∀ (raws : List Int) (e : Rat), (normLoop c raws e).length = raws.length := by
  intro raws
  induction raws with
  | nil => intro e; rfl
  | cons r rs ih => intro e; simp [normLoop, ih]

theorem follow_normLoop (c : Rat) : ∀ (raws : List Int) (e : Rat),
    followErr c raws (normLoop c raws e) e = normErr c raws e := by
  intro raws
  induction raws with
  | nil => intro e; rfl
  | cons r rs ih => intro e; simp only [normLoop, followErr, normErr]; rw [ih]

theorem normErr_bounds (c : Rat) : ∀ (raws : List Int) (e : Rat), -(1 / 2 : Rat) ≤ e → e < 1 / 2 →
    -(1 / 2 : Rat) ≤ normErr c raws e ∧ normErr c raws e < 1 / 2 := by
  intro raws
  induction raws with
  | nil => intro e h1 h2; exact ⟨h1, h2⟩
  | cons r rs ih =>
    intro e _ _
    simp only [normErr]
    have := round_err_bounds ((r : Rat) * c + e)
    exact ih _ this.1 this.2

theorem normLoop_zero : ∀ (raws : List Int), normLoop 0 raws 0 = raws.map (fun _ => 0) := by
  intro raws
  induction raws with
  | nil => rfl
  | cons r rs ih =>
    simp only [normLoop, List.map]
    have hv : (r : Rat) * 0 + 0 = 0 := by grind
    have hf : ((0 : Rat) + 1 / 2).floor = 0 := by decide +kernel
    rw [hv, hf]
    have : (0 : Rat) - ((0 : Int) : Rat) = 0 := by grind
    rw [this, ih]

theorem sumInts_zeros (raws : List Int) : sumInts (raws.map (fun _ => (0 : Int))) = 0 := by
  induction raws with
  | nil => rfl
  | cons r rs ih => simp [sumInts, ih]


theorem plain_bound (c : Rat) (raws : List Int) :
    -((raws.length : Nat) : Rat) / 2 ≤ ((sumInts (plainRound c raws) : Int) : Rat) - c * ((sumInts raws : Int) : Rat) ∧
    ((sumInts (plainRound c raws) : Int) : Rat) - c * ((sumInts raws : Int) : Rat) ≤ ((raws.length : Nat) : Rat) / 2 := by
  induction raws with
  | nil => simp only [plainRound, List.map, sumInts, List.length_nil]; constructor <;> grind
  | cons r rs ih =>
    have hb := round_err_bounds ((r : Rat) * c)
    simp only [plainRound, List.map_cons, sumInts, List.length_cons] at *
    push_cast
    constructor <;> grind

/-! ## non-negativity for IMPULSE / BOX / LINEAR -/

theorem kw0 : kw 0 = 0 := by simp [kw, kernelWidth]
theorem kw1 : kw 1 = 1 := by simp [kw, kernelWidth]
theorem kw2 : kw 2 = 2 := by simp [kw, kernelWidth]

theorem div_bounds (s y : Rat) (hs : 0 < s) (h1 : -s ≤ y) (h2 : y ≤ s) : -1 ≤ y * (1 / s) ∧ y * (1 / s) ≤ 1 := by
  have hi : 0 ≤ 1 / s := by
    have : 0 < 1 / s := by
      have := Rat.inv_pos.mpr hs
      simpa [Rat.div_def] using this
    exact Rat.le_of_lt this
  have e : s * (1 / s) = 1 := by
    have : s ≠ 0 := by grind
    grind
  have a := Rat.mul_le_mul_of_nonneg_right h2 hi
  have b := Rat.mul_le_mul_of_nonneg_right h1 hi
  constructor <;> grind

theorem kernel_nonneg (k : Nat) (a : Rat) (hk : k ≤ 2) (h : k = 2 → -1 ≤ a ∧ a ≤ 1) : 0 ≤ kernel k a := by
  have : k = 0 ∨ k = 1 ∨ k = 2 := by omega
  rcases this with rfl | rfl | rfl
  · simp only [kernel, impulse]; split <;> grind
  · simp only [kernel, box]; grind
  · have := h rfl
    simp only [kernel, linear]
    grind [Rat.abs]

/-- the integration interval stays inside the supports of the LINEAR kernels -/
def Dom (k1 k2 : Nat) (scale x1 x2 w : Rat) : Prop :=
  0 ≤ w ∧ (k1 = 2 → -1 ≤ x1 ∧ x1 + w ≤ 1) ∧ (k2 = 2 → -scale ≤ x2 ∧ x2 + w ≤ scale)

theorem sampleAt_nonneg (k1 k2 : Nat) (scale x1 x2 w t : Rat) (h1 : k1 ≤ 2) (h2 : k2 ≤ 2) (hs : 0 < scale)
    (hd : Dom k1 k2 scale x1 x2 w) (ht0 : 0 ≤ t) (ht1 : t ≤ w) :
    0 ≤ sampleAt k1 k2 (1 / scale) (x1 + t) (x2 + t) := by
  unfold sampleAt
  apply Rat.mul_nonneg
  · apply kernel_nonneg _ _ h1
    intro hk; have := hd.2.1 hk; constructor <;> grind
  · apply kernel_nonneg _ _ h2
    intro hk; have := hd.2.2 hk
    exact div_bounds scale (x2 + t) hs (by grind) (by grind)

theorem simpson_nonneg (k1 k2 : Nat) (scale x1 x2 w : Rat) (h1 : k1 ≤ 2) (h2 : k2 ≤ 2) (hs : 0 < scale)
    (hd : Dom k1 k2 scale x1 x2 w) : 0 ≤ simpson k1 x1 k2 (1 / scale) x2 w := by
  have hw := hd.1
  have f (t : Rat) (a : 0 ≤ t) (b : t ≤ w) := sampleAt_nonneg k1 k2 scale x1 x2 w t h1 h2 hs hd a b
  have f0 := f 0 (by grind) (by grind)
  have f1 := f (w / 12 * 1) (by grind) (by grind); have f2 := f (w / 12 * 2) (by grind) (by grind)
  have f3 := f (w / 12 * 3) (by grind) (by grind); have f4 := f (w / 12 * 4) (by grind) (by grind)
  have f5 := f (w / 12 * 5) (by grind) (by grind); have f6 := f (w / 12 * 6) (by grind) (by grind)
  have f7 := f (w / 12 * 7) (by grind) (by grind); have f8 := f (w / 12 * 8) (by grind) (by grind)
  have f9 := f (w / 12 * 9) (by grind) (by grind); have f10 := f (w / 12 * 10) (by grind) (by grind)
  have f11 := f (w / 12 * 11) (by grind) (by grind); have f12 := f w (by grind) (by grind)
  have e0 : x1 + 0 = x1 := by grind
  have e0' : x2 + 0 = x2 := by grind
  rw [e0, e0'] at f0
  unfold simpson
  simp only [List.foldl]
  push_cast
  have hh : 0 ≤ w / 12 := by grind
  apply Rat.mul_nonneg
  · apply Rat.mul_nonneg hh
    grind
  · grind

theorem optAdd_nonneg (a b : Option Rat) (c : Rat) (ha : ∀ x, a = some x → 0 ≤ x) (hb : ∀ x, b = some x → 0 ≤ x)
    (h : optAdd a b = some c) : 0 ≤ c := by
  cases a <;> cases b <;> simp [optAdd] at h
  rename_i x y
  have := ha x rfl; have := hb y rfl
  grind

theorem integralF_nonneg (fuel k1 k2 : Nat) (scale : Rat) (h1 : k1 ≤ 2) (h2 : k2 ≤ 2) (hs : 0 < scale) :
    ∀ (x1 x2 w c : Rat), Dom k1 k2 scale x1 x2 w → integralF fuel k1 x1 k2 (1 / scale) x2 w = some c → 0 ≤ c := by
  induction fuel with
  | zero => intro x1 x2 w c _ h; simp [integralF] at h
  | succ f ih =>
    intro x1 x2 w c hd h
    simp only [integralF] at h
    by_cases hb : k1 = 1 ∧ k2 = 1
    · rw [if_pos hb] at h
      have := hd.1
      grind
    · rw [if_neg hb] at h
      by_cases c1 : k1 = 2 ∧ x1 < 0 ∧ x1 + w > 0
      · rw [if_pos c1] at h
        refine optAdd_nonneg _ _ c (fun x hx => ih x1 x2 (-x1) x ?_ hx) (fun x hx => ih 0 (x2 - x1) (w + x1) x ?_ hx) h
        · refine ⟨by grind, fun hk => ?_, fun hk => ?_⟩
          · have := hd.2.1 hk; constructor <;> grind
          · have := hd.2.2 hk; constructor <;> grind
        · refine ⟨by grind, fun hk => ?_, fun hk => ?_⟩
          · have := hd.2.1 hk; constructor <;> grind
          · have := hd.2.2 hk; have := hd.1; constructor <;> grind
      · rw [if_neg c1] at h
        by_cases c2 : k2 = 2 ∧ x2 < 0 ∧ x2 + w > 0
        · rw [if_pos c2] at h
          refine optAdd_nonneg _ _ c (fun x hx => ih x1 x2 (-x2) x ?_ hx) (fun x hx => ih (x1 - x2) 0 (w + x2) x ?_ hx) h
          · refine ⟨by grind, fun hk => ?_, fun hk => ?_⟩
            · have := hd.2.1 hk; have := hd.1; constructor <;> grind
            · have := hd.2.2 hk; constructor <;> grind
          · refine ⟨by grind, fun hk => ?_, fun hk => ?_⟩
            · have := hd.2.1 hk; have := hd.1; constructor <;> grind
            · have := hd.2.2 hk; constructor <;> grind
        · rw [if_neg c2] at h
          by_cases c3 : k1 = 0
          · rw [if_pos c3] at h
            by_cases hw : w = 0
            · rw [if_pos hw] at h
              have hc : c = kernel k2 (x2 * (1 / scale)) := by grind
              rw [hc]
              apply kernel_nonneg _ _ h2
              intro hk; have := hd.2.2 hk
              exact div_bounds scale x2 hs (by grind) (by grind)
            · rw [if_neg hw] at h; simp at h
          · rw [if_neg c3] at h
            by_cases c4 : k2 = 0
            · rw [if_pos c4] at h
              by_cases hw : w = 0
              · rw [if_pos hw] at h
                have hc : c = kernel k1 x1 := by grind
                rw [hc]
                apply kernel_nonneg _ _ h1
                intro hk; have := hd.2.1 hk; constructor <;> grind
              · rw [if_neg hw] at h; simp at h
            · rw [if_neg c4] at h
              have hc : c = simpson k1 x1 k2 (1 / scale) x2 w := by grind
              rw [hc]
              exact simpson_nonneg k1 k2 scale x1 x2 w h1 h2 hs hd


theorem coeff_nonneg (r s : Nat) (scale p c : Rat) (hr : r ≤ 2) (hs : s ≤ 2) (hsc : 0 < scale)
    (h : coeff r s scale p = some c) : 0 ≤ c := by
  unfold coeff at h
  simp only [] at h
  have hkr : kw r = r := by
    have : r = 0 ∨ r = 1 ∨ r = 2 := by omega
    rcases this with rfl | rfl | rfl <;> simp [kw0, kw1, kw2]
  have hks : kw s = s := by
    have : s = 0 ∨ s = 1 ∨ s = 2 := by omega
    rcases this with rfl | rfl | rfl <;> simp [kw0, kw1, kw2]
  have hr0 : (0 : Rat) ≤ kw r := by rw [hkr]; exact_mod_cast Nat.zero_le r
  have hs0 : (0 : Rat) ≤ scale * kw s := Rat.mul_nonneg (Rat.le_of_lt hsc) (by rw [hks]; exact_mod_cast Nat.zero_le s)
  split at h
  · rename_i hc
    unfold integral at h
    refine integralF_nonneg 8 r s scale hr hs hsc _ _ _ c ?_ h
    refine ⟨by grind, fun hk => ?_, fun hk => ?_⟩
    · subst hk; rw [kw2] at *; constructor <;> grind
    · subst hk; rw [kw2] at *; constructor <;> grind
  · grind

end Pixman.Lemmas.FilterKernels

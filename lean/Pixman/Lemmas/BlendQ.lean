import Pixman.Spec.PdfBlendInt
import Pixman.Spec.PdfBlend
import Pixman.Model.CombineQ
/-! Lemmas connecting the integer numerators of `Spec.PdfInt` (8-bit pipeline) with the rational
blend functions: `blendNum m d da s sa`, cast to `Rat`, is `255²` times the float model's
`blend_<mode>` at the operands divided by 255 (the polynomial is homogeneous of degree 2, the
branch conditions are homogeneous of degree 1 / 2). -/
namespace Pixman.Lemmas.BlendQ
open Pixman.Spec Pixman.Spec.PdfInt Pixman.Spec.PdfBlend Pixman.Model

/-- the PDF 32000 blend function `B(cb, cs)` of a mode -/
def modeB : Mode → Rat → Rat → Rat
  | .screen => bScreen | .overlay => bOverlay | .darken => bDarken | .lighten => bLighten
  | .hardLight => bHardLight | .difference => bDifference | .exclusion => bExclusion

/-- `blend_<mode>` of the float model `CombineQ` -/
def modeBlendQ : Mode → Rat → Rat → Rat → Rat → Rat
  | .screen => CombineQ.blendScreen | .overlay => CombineQ.blendOverlay | .darken => CombineQ.blendDarken
  | .lighten => CombineQ.blendLighten | .hardLight => CombineQ.blendHardLight
  | .difference => CombineQ.blendDifference | .exclusion => CombineQ.blendExclusion

theorem cast_ite_lt (x y a b : Int) :
    (((if x < y then a else b : Int)) : Rat) = if (x : Rat) < (y : Rat) then (a : Rat) else (b : Rat) := by
  by_cases h : x < y
  · rw [if_pos h, if_pos (Rat.intCast_lt_intCast.mpr h)]
  · rw [if_neg h, if_neg (fun h' => h (Rat.intCast_lt_intCast.mp h'))]

theorem cast_ite_le (x y a b : Int) :
    (((if x ≤ y then a else b : Int)) : Rat) = if (x : Rat) ≤ (y : Rat) then (a : Rat) else (b : Rat) := by
  by_cases h : x ≤ y
  · rw [if_pos h, if_pos (Rat.intCast_le_intCast.mpr h)]
  · rw [if_neg h, if_neg (fun h' => h (Rat.intCast_le_intCast.mp h'))]

theorem prodScale (x y : Rat) : x / 255 * (y / 255) = x * y / 65025 := by grind

theorem blendNum_cast (m : Mode) (d da s sa : Int) :
    ((blendNum m d da s sa : Int) : Rat) =
      65025 * modeBlendQ m ((sa : Rat) / 255) ((s : Rat) / 255) ((da : Rat) / 255) ((d : Rat) / 255) := by
  cases m <;> simp only [blendNum, modeBlendQ]
  · simp only [CombineQ.blendScreen]; push_cast; grind
  · simp only [CombineQ.blendOverlay]
    rw [cast_ite_lt]; push_cast
    by_cases h : 2 * (d : Rat) < da
    · have h' : 2 * ((d : Rat) / 255) < (da : Rat) / 255 := by grind
      rw [if_pos h, if_pos h']; grind
    · have h' : ¬ 2 * ((d : Rat) / 255) < (da : Rat) / 255 := by grind
      rw [if_neg h, if_neg h']; grind
  · simp only [CombineQ.blendDarken, Int.min_def]
    rw [cast_ite_le]; push_cast
    rw [prodScale (s : Rat) da, prodScale (d : Rat) sa, Rat.mul_comm (s : Rat) da, Rat.mul_comm (d : Rat) sa]
    generalize (da : Rat) * s = P
    generalize (sa : Rat) * d = Q
    by_cases h : Q ≤ P
    · by_cases h2 : (P / 65025 > Q / 65025)
      · rw [if_pos h, if_pos h2]; grind
      · rw [if_pos h, if_neg h2]; grind
    · have h' : ¬ (P / 65025 > Q / 65025) := by grind
      rw [if_neg h, if_neg h']; grind
  · simp only [CombineQ.blendLighten, Int.max_def]
    rw [cast_ite_le]; push_cast
    rw [prodScale (s : Rat) da, prodScale (d : Rat) sa, Rat.mul_comm (s : Rat) da, Rat.mul_comm (d : Rat) sa]
    generalize (da : Rat) * s = P
    generalize (sa : Rat) * d = Q
    by_cases h : Q ≤ P
    · by_cases h2 : (P / 65025 > Q / 65025)
      · rw [if_pos h, if_pos h2]; grind
      · rw [if_pos h, if_neg h2]; grind
    · have h' : ¬ (P / 65025 > Q / 65025) := by grind
      rw [if_neg h, if_neg h']; grind
  · simp only [CombineQ.blendHardLight]
    rw [cast_ite_lt]; push_cast
    by_cases h : 2 * (s : Rat) < sa
    · have h' : 2 * ((s : Rat) / 255) < (sa : Rat) / 255 := by grind
      rw [if_pos h, if_pos h']; grind
    · have h' : ¬ 2 * ((s : Rat) / 255) < (sa : Rat) / 255 := by grind
      rw [if_neg h, if_neg h']; grind
  · simp only [CombineQ.blendDifference]
    rw [cast_ite_lt]; push_cast
    rw [prodScale (s : Rat) da, prodScale (d : Rat) sa, Rat.mul_comm (s : Rat) da, Rat.mul_comm (d : Rat) sa]
    generalize (da : Rat) * s = P
    generalize (sa : Rat) * d = Q
    by_cases h : P < Q
    · have h' : P / 65025 < Q / 65025 := by grind
      rw [if_pos h, if_pos h']; grind
    · have h' : ¬ P / 65025 < Q / 65025 := by grind
      rw [if_neg h, if_neg h']; grind
  · simp only [CombineQ.blendExclusion]; push_cast; grind

/-- an a8r8g8b8 word as a pixel of rationals (`channel / 255`) -/
def pxOfWord (x : Nat) : CombineQ.Px :=
  ⟨(chan .a x : Rat) / 255, (chan .r x : Rat) / 255, (chan .g x : Rat) / 255, (chan .b x : Rat) / 255⟩

/-- the 8-bit value `x` (as `x/255`) is within `k/255²` of the rational `e` -/
def Within (k : Nat) (x : Nat) (e : Rat) : Prop :=
  (x : Rat) / 255 ≤ e + (k : Rat) / 65025 ∧ e ≤ (x : Rat) / 255 + (k : Rat) / 65025

theorem unit_q255 (n : Nat) (h : n ≤ 255) : PdfBlend.unit ((n : Rat) / 255) = true := by
  have h0 : (0 : Rat) ≤ (n : Rat) := Rat.natCast_nonneg
  have h1 : (n : Rat) ≤ ((255 : Nat) : Rat) := Rat.natCast_le_natCast.mpr h
  have c : ((255 : Nat) : Rat) = 255 := rfl
  rw [c] at h1
  unfold PdfBlend.unit
  have a : (0 : Rat) ≤ (n : Rat) / 255 := by grind
  have b : (n : Rat) / 255 ≤ 1 := by grind
  simp [a, b]

theorem le_q255 (x y : Nat) (h : x ≤ y) : decide ((x : Rat) / 255 ≤ (y : Rat) / 255) = true := by
  have h1 : (x : Rat) ≤ (y : Rat) := Rat.natCast_le_natCast.mpr h
  have : (x : Rat) / 255 ≤ (y : Rat) / 255 := by grind
  simp [this]

end Pixman.Lemmas.BlendQ

import Pixman.Model.Trap
import Pixman.Spec.SampleGrid
import Pixman.Lemmas.Trap
import Pixman.Lemmas.TrapRow
import Pixman.Lemmas.TrapShape
/-! Lemmas for C12, R5: `triangle_to_trapezoids` — the two trapezoids tile the triangle.
    The property theorems are restated in `Pixman/Props/C12.lean`. -/
set_option linter.unusedSimpArgs false
namespace Pixman.Lemmas.TrapTri
open Pixman.Trap
open Pixman.Gen.SampleGrid
open Pixman.Spec.SampleGrid
open Pixman.Lemmas.Trap
open Pixman.Lemmas.TrapRow
open Pixman.Lemmas.TrapShape

/-! ### ordering of snapped abscissae from the ordering of the exact ones -/

theorem floor_mono_cross (p q r s : Int) (hq : 0 < q) (hs : 0 < s) (h : p * s ≤ r * q) : p / q ≤ r / s := by
  rw [Int.le_ediv_iff_mul_le hs]
  have hu : p / q * q ≤ p := Int.ediv_mul_le p (Int.ne_of_gt hq)
  have h1 : p / q * q * s ≤ p * s := Int.mul_le_mul_of_nonneg_right hu (Int.le_of_lt hs)
  apply Int.not_lt.mp
  intro hc
  have h2 : (r + 1) * q ≤ p / q * s * q := Int.mul_le_mul_of_nonneg_right hc (Int.le_of_lt hq)
  generalize p / q = u at *
  grind

theorem lt_of_mul_lt (a b k : Int) (hk : 0 < k) (h : a * k < b * k) : a < b := by
  apply Int.not_le.mp
  intro hc
  have := Int.mul_le_mul_of_nonneg_right hc (Int.le_of_lt hk)
  omega

/-- a line strictly left of another on a row (exact abscissae, cross-multiplied) is not right of it
    after snapping -/
theorem snapX_le_of_lt (A B : EdgeLine) (y : Int) (hA : 0 < A.yBot - A.yTop) (hB : 0 < B.yBot - B.yTop)
    (h : lineNum A y * (B.yBot - B.yTop) < lineNum B y * (A.yBot - A.yTop)) : A.snapX y ≤ B.snapX y := by
  have a1 := (snapX_eq A y hA).1
  have b1 := snapX_eq B y hB
  simp only at a1 b1
  have hq := floor_mono_cross (lineNum A y) (A.yBot - A.yTop) (lineNum B y) (B.yBot - B.yTop) hA hB (Int.le_of_lt h)
  simp only [lineNum] at hq h
  by_cases ht : (B.xTop * (B.yBot - B.yTop) + (y - B.yTop) * (B.xBot - B.xTop)) % (B.yBot - B.yTop) = 0
  · -- `B` passes through a lattice point: then `A`'s floor is strictly smaller
    generalize hNA : A.xTop * (A.yBot - A.yTop) + (y - A.yTop) * (A.xBot - A.xTop) = NA at *
    generalize hNB : B.xTop * (B.yBot - B.yTop) + (y - B.yTop) * (B.xBot - B.xTop) = NB at *
    generalize hdA : A.yBot - A.yTop = dA at *
    generalize hdB : B.yBot - B.yTop = dB at *
    have e1 : NB / dB * dB = NB := Int.ediv_mul_cancel (Int.dvd_of_emod_eq_zero ht)
    have e2 : NA / dA * dA ≤ NA := Int.ediv_mul_le NA (Int.ne_of_gt hA)
    have e3 : NA / dA * dA * dB ≤ NA * dB := Int.mul_le_mul_of_nonneg_right e2 (Int.le_of_lt hB)
    have e4 : NA / dA * (dA * dB) < NB / dB * (dA * dB) := by
      generalize NA / dA = u at *
      generalize NB / dB = v at *
      subst e1
      grind
    have e5 := lt_of_mul_lt _ _ _ (Int.mul_pos hA hB) e4
    omega
  · have := b1.2 (fun hc => ht hc.2)
    omega

theorem snapX_top (e : EdgeLine) : e.snapX e.yTop = e.xTop := by
  simp [EdgeLine.snapX]

/-! ### the three orderings used by the decomposition; `C` is the cross product computed by `clockwise` -/

theorem order_top (tx ty lx ly rx ry sy : Int) (hC : 0 < (ly - ty) * (rx - tx) - (ry - ty) * (lx - tx))
    (h0 : ty ≤ sy) (h1 : sy < ly) (h2 : sy < ry) :
    (EdgeLine.mk tx ty lx ly).snapX sy ≤ (EdgeLine.mk tx ty rx ry).snapX sy := by
  by_cases he : sy = ty
  · subst he
    have a := snapX_top ⟨tx, sy, lx, ly⟩
    have b := snapX_top ⟨tx, sy, rx, ry⟩
    simp only at a b
    omega
  · apply snapX_le_of_lt _ _ sy (by simp only; omega) (by simp only; omega)
    simp only [lineNum]
    have hpos : 0 < (sy - ty) * ((ly - ty) * (rx - tx) - (ry - ty) * (lx - tx)) := Int.mul_pos (by omega) hC
    have hid : (tx * (ry - ty) + (sy - ty) * (rx - tx)) * (ly - ty) - (tx * (ly - ty) + (sy - ty) * (lx - tx)) * (ry - ty) =
        (sy - ty) * ((ly - ty) * (rx - tx) - (ry - ty) * (lx - tx)) := by grind
    omega

theorem order_low_left (tx ty lx ly rx ry sy : Int) (hC : 0 < (ly - ty) * (rx - tx) - (ry - ty) * (lx - tx))
    (ht : ty ≤ ry) (h0 : ry ≤ sy) (h1 : sy < ly) :
    (EdgeLine.mk tx ty lx ly).snapX sy ≤ (EdgeLine.mk rx ry lx ly).snapX sy := by
  apply snapX_le_of_lt _ _ sy (by simp only; omega) (by simp only; omega)
  simp only [lineNum]
  have hpos : 0 < (ly - sy) * ((ly - ty) * (rx - tx) - (ry - ty) * (lx - tx)) := Int.mul_pos (by omega) hC
  have hid : (rx * (ly - ry) + (sy - ry) * (lx - rx)) * (ly - ty) - (tx * (ly - ty) + (sy - ty) * (lx - tx)) * (ly - ry) =
      (ly - sy) * ((ly - ty) * (rx - tx) - (ry - ty) * (lx - tx)) := by grind
  omega

theorem order_low_right (tx ty lx ly rx ry sy : Int) (hC : 0 < (ly - ty) * (rx - tx) - (ry - ty) * (lx - tx))
    (ht : ty ≤ ly) (h0 : ly ≤ sy) (h1 : sy < ry) :
    (EdgeLine.mk lx ly rx ry).snapX sy ≤ (EdgeLine.mk tx ty rx ry).snapX sy := by
  apply snapX_le_of_lt _ _ sy (by simp only; omega) (by simp only; omega)
  simp only [lineNum]
  have hpos : 0 < (ry - sy) * ((ly - ty) * (rx - tx) - (ry - ty) * (lx - tx)) := Int.mul_pos (by omega) hC
  have hid : (tx * (ry - ty) + (sy - ty) * (rx - tx)) * (ry - ly) - (lx * (ry - ly) + (sy - ly) * (rx - lx)) * (ry - ty) =
      (ry - sy) * ((ly - ty) * (rx - tx) - (ry - ty) * (lx - tx)) := by grind
  omega

/-! ### the code after the sort -/

/-- the line of a trapezoid side in image space (offsets 0), oriented downwards as `pixman_line_fixed_edge_init` does -/
def lineOf (l : Line) : EdgeLine :=
  if l.p1.y ≤ l.p2.y then ⟨l.p1.x, l.p1.y, l.p2.x, l.p2.y⟩ else ⟨l.p2.x, l.p2.y, l.p1.x, l.p1.y⟩

/-- the Spec shape of a trapezoid (offsets 0) -/
def shapeOf (tz : Trapezoid) : Shape := ⟨tz.top, tz.bottom, lineOf tz.left, lineOf tz.right⟩

/-- is the sample inside the trapezoid as `pixman_add_trapezoids` draws it (invalid ones are skipped) -/
def tzInside (tz : Trapezoid) (sy sx : Int) : Bool :=
  tz.valid && decide (tz.top ≤ sy ∧ sy < tz.bottom ∧ (lineOf tz.left).snapX sy ≤ sx ∧ sx < (lineOf tz.right).snapX sy)

/-- the three conditional swaps of `triangle_to_trapezoids`: `(top, left, right)` -/
def sortTri (tri : Triangle) : Point × Point × Point :=
  let top := tri.p1
  let left := tri.p2
  let right := tri.p3
  let (top, left) := if greaterY top left then (left, top) else (top, left)
  let (top, right) := if greaterY top right then (right, top) else (top, right)
  let (left, right) := if clockwise top right left then (right, left) else (left, right)
  (top, left, right)

/-- the two trapezoids written for a sorted `(top, left, right)` -/
def buildTraps (top left right : Point) : Trapezoid × Trapezoid :=
  let t0 : Trapezoid :=
    { top := top.y, left := ⟨top, left⟩, right := ⟨top, right⟩,
      bottom := if right.y < left.y then right.y else left.y }
  let t1 : Trapezoid :=
    if right.y < left.y then
      { t0 with top := right.y, bottom := left.y, right := ⟨right, left⟩ }
    else
      { t0 with top := left.y, bottom := right.y, left := ⟨left, right⟩ }
  (t0, t1)

theorem triangleToTrapezoids_eq (tri : Triangle) :
    triangleToTrapezoids tri = buildTraps (sortTri tri).1 (sortTri tri).2.1 (sortTri tri).2.2 := by
  simp only [triangleToTrapezoids, sortTri, buildTraps]
  split <;> split <;> split <;> rfl

/-! ### a sorted triangle: inside-test = union of the two trapezoids, which are disjoint -/

/-- `T` is first in the `(y, x)` order, `C > 0` is the cross product `clockwise (T, R, L)` computes (not clockwise,
    not collinear) -/
structure Sorted (T L R : Point) : Prop where
  tl : T.y ≤ L.y
  tr : T.y ≤ R.y
  tlx : T.y = L.y → T.x ≤ L.x
  trx : T.y = R.y → T.x ≤ R.x
  cross : 0 < (L.y - T.y) * (R.x - T.x) - (R.y - T.y) * (L.x - T.x)

theorem sideOf_comm (ax ay bx by' : Int) : sideOf ax ay bx by' = sideOf bx by' ax ay := by
  simp only [sideOf]
  by_cases h1 : ay < by' ∨ (ay = by' ∧ ax ≤ bx) <;> by_cases h2 : by' < ay ∨ (by' = ay ∧ bx ≤ ax)
  · have e1 : ay = by' := by omega
    have e2 : ax = bx := by omega
    subst e1 e2
    rfl
  · rw [if_pos h1, if_neg h2]
  · rw [if_neg h1, if_pos h2]
  · exfalso; omega

theorem inside_sorted (T L R : Point) (h : Sorted T L R) (sy sx : Int) :
    triInside ⟨T.x, T.y, L.x, L.y, R.x, R.y⟩ sy sx =
      (tzInside (buildTraps T L R).1 sy sx || tzInside (buildTraps T L R).2 sy sx) ∧
    ¬ (tzInside (buildTraps T L R).1 sy sx = true ∧ tzInside (buildTraps T L R).2 sy sx = true) := by
  obtain ⟨tx, ty⟩ := T
  obtain ⟨lx, ly⟩ := L
  obtain ⟨rx, ry⟩ := R
  obtain ⟨h1, h2, h3, h4, hC⟩ := h
  simp only at h1 h2 h3 h4 hC
  have O1 := order_top tx ty lx ly rx ry sy hC
  have O2 := order_low_left tx ty lx ly rx ry sy hC h2
  have O3 := order_low_right tx ty lx ly rx ry sy hC h1
  have hs1 : sideOf tx ty lx ly = ⟨tx, ty, lx, ly⟩ := by simp only [sideOf]; rw [if_pos (by omega)]
  have hs3 : sideOf rx ry tx ty = ⟨tx, ty, rx, ry⟩ := by rw [sideOf_comm]; simp only [sideOf]; rw [if_pos (by omega)]
  by_cases hrl : ry < ly
  · have hs2 : sideOf lx ly rx ry = ⟨rx, ry, lx, ly⟩ := by rw [sideOf_comm]; simp only [sideOf]; rw [if_pos (Or.inl hrl)]
    simp only [triInside, tzInside, buildTraps, lineOf, Trapezoid.valid, hs1, hs2, hs3, h1, h2,
      EdgeLine.crosses, List.any_cons, List.any_nil, Bool.or_false, hrl, if_true, if_false, if_pos (Int.le_of_lt hrl)]
    generalize (EdgeLine.mk tx ty lx ly).snapX sy = a at *
    generalize (EdgeLine.mk tx ty rx ry).snapX sy = b at *
    generalize (EdgeLine.mk rx ry lx ly).snapX sy = x at *
    clear hC
    constructor
    · rw [Bool.eq_iff_iff]
      simp only [Bool.or_eq_true, Bool.and_eq_true, decide_eq_true_eq, bne_iff_ne, ne_eq, gt_iff_lt]
      by_cases c1 : ty ≤ sy <;> by_cases c2 : sy < ly <;> by_cases c3 : sy < ry <;> by_cases c4 : ry ≤ sy <;>
        by_cases c5 : ly ≤ sy <;>
        simp only [c1, c2, c3, c4, c5, true_and, and_true, false_and, and_false, or_false, false_or, iff_self, iff_false,
          iff_true, false_iff, true_iff, not_true_eq_false, not_false_eq_true, and_self] <;> omega
    · simp only [Bool.and_eq_true, decide_eq_true_eq, bne_iff_ne, ne_eq, gt_iff_lt]
      by_cases c1 : ty ≤ sy <;> by_cases c2 : sy < ly <;> by_cases c3 : sy < ry <;> by_cases c4 : ry ≤ sy <;>
        by_cases c5 : ly ≤ sy <;>
        simp only [c1, c2, c3, c4, c5, true_and, and_true, false_and, and_false, or_false, false_or, iff_self, iff_false,
          iff_true, false_iff, true_iff, not_true_eq_false, not_false_eq_true, and_self] <;> omega
  · have hlr : ly < ry ∨ (ly = ry ∧ lx ≤ rx) := by
      by_cases he : ly = ry
      · right
        refine ⟨he, ?_⟩
        subst he
        have hid : (ly - ty) * (rx - tx) - (ly - ty) * (lx - tx) = (ly - ty) * (rx - lx) := by grind
        rw [hid] at hC
        apply Int.not_lt.mp
        intro hc
        have : (ly - ty) * (rx - lx) ≤ 0 := Int.mul_nonpos_of_nonneg_of_nonpos (by omega) (by omega)
        omega
      · left; omega
    have hs2 : sideOf lx ly rx ry = ⟨lx, ly, rx, ry⟩ := by simp only [sideOf]; rw [if_pos hlr]
    simp only [triInside, tzInside, buildTraps, lineOf, Trapezoid.valid, hs1, hs2, hs3, h1, h2,
      EdgeLine.crosses, List.any_cons, List.any_nil, Bool.or_false, hrl, if_true, if_false, if_pos (Int.not_lt.mp hrl)]
    generalize (EdgeLine.mk tx ty lx ly).snapX sy = a at *
    generalize (EdgeLine.mk tx ty rx ry).snapX sy = b at *
    generalize (EdgeLine.mk lx ly rx ry).snapX sy = x at *
    clear hC
    constructor
    · rw [Bool.eq_iff_iff]
      simp only [Bool.or_eq_true, Bool.and_eq_true, decide_eq_true_eq, bne_iff_ne, ne_eq, gt_iff_lt]
      by_cases c1 : ty ≤ sy <;> by_cases c2 : sy < ly <;> by_cases c3 : sy < ry <;> by_cases c4 : ry ≤ sy <;>
        by_cases c5 : ly ≤ sy <;>
        simp only [c1, c2, c3, c4, c5, true_and, and_true, false_and, and_false, or_false, false_or, iff_self, iff_false,
          iff_true, false_iff, true_iff, not_true_eq_false, not_false_eq_true, and_self] <;> omega
    · simp only [Bool.and_eq_true, decide_eq_true_eq, bne_iff_ne, ne_eq, gt_iff_lt]
      by_cases c1 : ty ≤ sy <;> by_cases c2 : sy < ly <;> by_cases c3 : sy < ry <;> by_cases c4 : ry ≤ sy <;>
        by_cases c5 : ly ≤ sy <;>
        simp only [c1, c2, c3, c4, c5, true_and, and_true, false_and, and_false, or_false, false_or, iff_self, iff_false,
          iff_true, false_iff, true_iff, not_true_eq_false, not_false_eq_true, and_self] <;> omega

/-! ### the sort: the inside test does not depend on the order of the vertices; the result is `Sorted` -/

theorem any3_swap23 {α} (t : α → α → Bool) (a b c : α) :
    ([a, c, b].any fun p => [a, c, b].any fun q => t p q) = ([a, b, c].any fun p => [a, b, c].any fun q => t p q) := by
  simp only [List.any_cons, List.any_nil, Bool.or_false]
  ac_rfl

theorem any3_swap12 {α} (t : α → α → Bool) (a b c : α) :
    ([b, a, c].any fun p => [b, a, c].any fun q => t p q) = ([a, b, c].any fun p => [a, b, c].any fun q => t p q) := by
  simp only [List.any_cons, List.any_nil, Bool.or_false]
  ac_rfl

theorem any3_swap13 {α} (t : α → α → Bool) (a b c : α) :
    ([c, b, a].any fun p => [c, b, a].any fun q => t p q) = ([a, b, c].any fun p => [a, b, c].any fun q => t p q) := by
  simp only [List.any_cons, List.any_nil, Bool.or_false]
  ac_rfl

theorem triInside_swap12 (x1 y1 x2 y2 x3 y3 sy sx : Int) :
    triInside ⟨x2, y2, x1, y1, x3, y3⟩ sy sx = triInside ⟨x1, y1, x2, y2, x3, y3⟩ sy sx := by
  simp only [triInside]
  rw [sideOf_comm x2 y2 x1 y1, sideOf_comm x1 y1 x3 y3, sideOf_comm x3 y3 x2 y2]
  exact any3_swap23 _ _ _ _

theorem triInside_swap13 (x1 y1 x2 y2 x3 y3 sy sx : Int) :
    triInside ⟨x3, y3, x2, y2, x1, y1⟩ sy sx = triInside ⟨x1, y1, x2, y2, x3, y3⟩ sy sx := by
  simp only [triInside]
  rw [sideOf_comm x3 y3 x2 y2, sideOf_comm x2 y2 x1 y1, sideOf_comm x1 y1 x3 y3]
  exact any3_swap12 _ _ _ _

theorem triInside_swap23 (x1 y1 x2 y2 x3 y3 sy sx : Int) :
    triInside ⟨x1, y1, x3, y3, x2, y2⟩ sy sx = triInside ⟨x1, y1, x2, y2, x3, y3⟩ sy sx := by
  simp only [triInside]
  rw [sideOf_comm x1 y1 x3 y3, sideOf_comm x3 y3 x2 y2, sideOf_comm x2 y2 x1 y1]
  exact any3_swap13 _ _ _ _

/-- the Spec triangle of a model triangle (offsets 0) -/
def triOf (tri : Triangle) : Tri := ⟨tri.p1.x, tri.p1.y, tri.p2.x, tri.p2.y, tri.p3.x, tri.p3.y⟩

/-- the Spec triangle of three points -/
def tri3 (a b c : Point) : Tri := ⟨a.x, a.y, b.x, b.y, c.x, c.y⟩

theorem sortTri_inside (tri : Triangle) (sy sx : Int) :
    triInside (tri3 (sortTri tri).1 (sortTri tri).2.1 (sortTri tri).2.2) sy sx = triInside (triOf tri) sy sx := by
  simp only [sortTri, tri3, triOf]
  split <;> split <;> split <;>
    simp only [triInside_swap12, triInside_swap13, triInside_swap23]

/-- the coordinate differences `clockwise` computes in `pixman_fixed_t` do not wrap -/
def TriFits (tri : Triangle) : Prop :=
  (-2147483647 ≤ tri.p2.x - tri.p1.x ∧ tri.p2.x - tri.p1.x ≤ 2147483647) ∧
  (-2147483647 ≤ tri.p3.x - tri.p1.x ∧ tri.p3.x - tri.p1.x ≤ 2147483647) ∧
  (-2147483647 ≤ tri.p3.x - tri.p2.x ∧ tri.p3.x - tri.p2.x ≤ 2147483647) ∧
  (-2147483647 ≤ tri.p2.y - tri.p1.y ∧ tri.p2.y - tri.p1.y ≤ 2147483647) ∧
  (-2147483647 ≤ tri.p3.y - tri.p1.y ∧ tri.p3.y - tri.p1.y ≤ 2147483647) ∧
  (-2147483647 ≤ tri.p3.y - tri.p2.y ∧ tri.p3.y - tri.p2.y ≤ 2147483647)

/-- twice the signed area: the vertices are not collinear when it is not 0 -/
def area2 (tri : Triangle) : Int :=
  (tri.p2.x - tri.p1.x) * (tri.p3.y - tri.p1.y) - (tri.p3.x - tri.p1.x) * (tri.p2.y - tri.p1.y)

/-- `sortTri` with the eight outcomes written out -/
def sortTri' (tri : Triangle) : Point × Point × Point :=
  if greaterY tri.p1 tri.p2 then
    (if greaterY tri.p2 tri.p3 then
      (if clockwise tri.p3 tri.p2 tri.p1 then (tri.p3, tri.p2, tri.p1) else (tri.p3, tri.p1, tri.p2))
     else (if clockwise tri.p2 tri.p3 tri.p1 then (tri.p2, tri.p3, tri.p1) else (tri.p2, tri.p1, tri.p3)))
  else
    (if greaterY tri.p1 tri.p3 then
      (if clockwise tri.p3 tri.p1 tri.p2 then (tri.p3, tri.p1, tri.p2) else (tri.p3, tri.p2, tri.p1))
     else (if clockwise tri.p1 tri.p3 tri.p2 then (tri.p1, tri.p3, tri.p2) else (tri.p1, tri.p2, tri.p3)))

theorem sortTri_eq (tri : Triangle) : sortTri tri = sortTri' tri := by
  simp only [sortTri, sortTri']
  split <;> split <;> split <;> rfl

theorem greaterY_iff (a b : Point) : greaterY a b = true ↔ (a.y > b.y ∨ (a.y = b.y ∧ a.x > b.x)) := by
  simp only [greaterY, beq_iff_eq]
  split <;> simp only [decide_eq_true_eq] <;> omega

theorem clockwise_iff (ref a b : Point)
    (h1 : -2147483647 ≤ a.x - ref.x ∧ a.x - ref.x ≤ 2147483647) (h2 : -2147483647 ≤ a.y - ref.y ∧ a.y - ref.y ≤ 2147483647)
    (h3 : -2147483647 ≤ b.x - ref.x ∧ b.x - ref.x ≤ 2147483647) (h4 : -2147483647 ≤ b.y - ref.y ∧ b.y - ref.y ≤ 2147483647) :
    clockwise ref a b = true ↔ (b.y - ref.y) * (a.x - ref.x) - (a.y - ref.y) * (b.x - ref.x) < 0 := by
  simp only [clockwise, decide_eq_true_eq]
  rw [wrap32_id _ (by omega) (by omega), wrap32_id _ (by omega) (by omega), wrap32_id _ (by omega) (by omega),
    wrap32_id _ (by omega) (by omega)]

theorem pos_of_cases (E A : Int) (h : E = A ∨ E = -A) (hA : A ≠ 0) (hc : ¬ E < 0) : 0 < E := by omega

theorem sortTri_sorted (tri : Triangle) (hf : TriFits tri) (hnd : area2 tri ≠ 0) :
    Sorted (sortTri tri).1 (sortTri tri).2.1 (sortTri tri).2.2 := by
  rw [sortTri_eq]
  obtain ⟨⟨x1, y1⟩, ⟨x2, y2⟩, ⟨x3, y3⟩⟩ := tri
  simp only [TriFits, area2] at hf hnd
  obtain ⟨f1, f2, f3, f4, f5, f6⟩ := hf
  simp only [sortTri']
  split <;> split <;> split
  all_goals
    rename_i c1 c2 c3
    simp only [greaterY_iff, Bool.not_eq_true] at c1 c2
    try rw [← Bool.not_eq_true, greaterY_iff] at c1
    try rw [← Bool.not_eq_true, greaterY_iff] at c2
    try rw [← Bool.not_eq_true] at c3
    rw [clockwise_iff _ _ _ (by simp only; omega) (by simp only; omega) (by simp only; omega) (by simp only; omega)] at c3
    simp only at c1 c2 c3
    refine ⟨by simp only; omega, by simp only; omega, by simp only; omega, by simp only; omega, ?_⟩
    simp only
    clear f1 f2 f3 f4 f5 f6 c1 c2
    first
      | omega
      | (apply pos_of_cases _ _ ?_ hnd c3
         first | (left; grind) | (right; grind))

/-! ### counting -/

/-- samples of pixel column `c` on the sample row `sy` inside the trapezoid -/
def tzRow (n : Nat) (tz : Trapezoid) (sy : Int) (c : Int) : Nat :=
  (List.range (nXFrac n).toNat).countP fun j => tzInside tz sy (colPos n c j - snapDelta n)

/-- the Spec count of a trapezoid as `pixman_add_trapezoids` treats it: invalid ones are skipped -/
def tzCount (n : Nat) (tz : Trapezoid) (c r : Int) : Nat :=
  if tz.valid then pixelCount n (shapeOf tz) c r else 0

theorem countP_false {α} (l : List α) : l.countP (fun _ => false) = 0 := by
  induction l with
  | nil => rfl
  | cons x t ih => simp only [List.countP_cons, ih]; rfl

theorem tzRow_eq (n : Nat) (tz : Trapezoid) (sy c : Int) :
    tzRow n tz sy c =
      if tz.valid = true then
        (if tz.top ≤ sy ∧ sy < tz.bottom then
          rowCount n ((lineOf tz.left).snapX sy) ((lineOf tz.right).snapX sy) c else 0)
      else 0 := by
  unfold tzRow tzInside rowCount
  by_cases hv : tz.valid = true
  · rw [if_pos hv]
    by_cases hr : tz.top ≤ sy ∧ sy < tz.bottom
    · rw [if_pos hr]
      congr 1
      funext j
      simp only [hv, Bool.true_and, hr.1, hr.2, true_and]
    · rw [if_neg hr]
      rw [← countP_false (List.range (nXFrac n).toNat)]
      congr 1
      funext j
      simp only [hv, Bool.true_and, decide_eq_false_iff_not]
      intro h; exact hr ⟨h.1, h.2.1⟩
  · rw [if_neg hv]
    rw [← countP_false (List.range (nXFrac n).toNat)]
    congr 1
    funext j
    have : tz.valid = false := by simpa using hv
    simp only [this, Bool.false_and]

theorem tzCount_eq (n : Nat) (tz : Trapezoid) (c r : Int) :
    tzCount n tz c r = ((List.range (nYFrac n).toNat).map fun k => tzRow n tz (rowPos n r k) c).sum := by
  unfold tzCount
  by_cases hv : tz.valid = true
  · rw [if_pos hv]
    unfold pixelCount shapeOf
    apply sum_map_congr
    intro k _
    simp only [tzRow_eq, hv, if_true]
  · rw [if_neg hv]
    rw [sum_map_congr _ _ (fun _ => 0)]
    · exact (sum_map_zero _).symm
    · intro k _
      rw [tzRow_eq, if_neg hv]

/-- R5: the triangle's own sample count = the counts of the two trapezoids `triangle_to_trapezoids`
    writes (each sample of the triangle is in exactly one of them), for every vertex order -/
theorem triangle_tiles (n : Nat) (tri : Triangle) (hf : TriFits tri) (hnd : area2 tri ≠ 0) (c r : Int) :
    triCount n (triOf tri) c r =
      tzCount n (triangleToTrapezoids tri).1 c r + tzCount n (triangleToTrapezoids tri).2 c r := by
  rw [tzCount_eq, tzCount_eq]
  unfold triCount
  symm
  apply sum_map_add
  intro k _
  unfold tzRow triRowCount
  have hs := sortTri_sorted tri hf hnd
  apply countP_split
  · intro j _
    rw [triangleToTrapezoids_eq, ← sortTri_inside]
    exact (inside_sorted _ _ _ hs _ _).1
  · intro j _
    rw [triangleToTrapezoids_eq]
    exact (inside_sorted _ _ _ hs _ _).2

end Pixman.Lemmas.TrapTri

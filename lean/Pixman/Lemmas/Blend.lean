import Pixman.Lemmas.Format
/-! Helper lemmas for the integer PDF blend-mode combiners (`PDF_SEPARABLE_BLEND_MODE`). -/
namespace Pixman.Lemmas
open Pixman.Arith Pixman.Lanes Pixman.Spec Pixman.Combine32

theorem red8_eq (x : Nat) : red8 x = chan .r x := by
  simp only [red8, chan, Nat.shiftRight_eq_div_pow, Nat.reducePow]; exact and_ff _
theorem green8_eq (x : Nat) : green8 x = chan .g x := by
  simp only [green8, chan, Nat.shiftRight_eq_div_pow, Nat.reducePow]; exact and_ff _
theorem blue8_eq (x : Nat) : blue8 x = chan .b x := by
  simp only [blue8, chan]; exact and_ff _

theorem alpha8_mod (x : Nat) (hx : x < 4294967296) : alpha8 x % 256 = chan .a x := by
  rw [alpha8_eq x hx]; have := chan_le .a x; omega

theorem clampU_le (v : Nat) : clampU v 0 (255 * 255) ≤ 65025 := by
  unfold clampU; simp only []; split <;> split <;> omega

theorem divOneUn8_le (x : Nat) (hx : x ≤ 65025) : divOneUn8 x ≤ 255 := by
  unfold divOneUn8
  simp only [Nat.shiftRight_eq_div_pow, Nat.reducePow]
  have e2 : (x + 128) % 4294967296 = x + 128 := Nat.mod_eq_of_lt (by omega)
  rw [e2]
  have e3 : ((x + 128) + (x + 128) / 256) % 4294967296 = (x + 128) + (x + 128) / 256 :=
    Nat.mod_eq_of_lt (by omega)
  rw [e3]
  clear e2 e3
  omega

/-- `ra << 24 | rr << 16 | rg << 8 | rb` -/
theorem pack_shifts (a r g b : Nat) (ha : a ≤ 255) (hr : r ≤ 255) (hg : g ≤ 255) (hb : b ≤ 255) :
    ((a <<< 24) % 4294967296) ||| ((r <<< 16) % 4294967296) ||| ((g <<< 8) % 4294967296) ||| b
      = pack4 a r g b := by
  simp only [Nat.shiftLeft_eq]
  have e1 : a * 2 ^ 24 % 4294967296 = a * 2 ^ 24 := Nat.mod_eq_of_lt (by omega)
  have e2 : r * 2 ^ 16 % 4294967296 = r * 2 ^ 16 := Nat.mod_eq_of_lt (by omega)
  have e3 : g * 2 ^ 8 % 4294967296 = g * 2 ^ 8 := Nat.mod_eq_of_lt (by omega)
  rw [e1, e2, e3]
  have := or4_bytes a r g b ha hr hg hb
  simp only [Nat.pow_zero, Nat.mul_one] at this
  exact this

/-- `isa * C(d) + ida * C(s)` does not wrap -/
theorem two_products_lt (x y u v : Nat) (hx : x ≤ 255) (hy : y ≤ 255) (hu : u ≤ 255) (hv : v ≤ 255) :
    (x * y + u * v) % 4294967296 = x * y + u * v := by
  apply Nat.mod_eq_of_lt
  have h1 : x * y ≤ 255 * 255 := Nat.mul_le_mul hx hy
  have h2 : u * v ≤ 255 * 255 := Nat.mul_le_mul hu hv
  omega

/-- numerator (units of 1/255²) of a colour channel as `PDF_SEPARABLE_BLEND_MODE` computes it:
`isa·d + ida·s + blend(d, da, s, sa)`, stored in a `uint32_t` -/
def pdfNumC (blend : Int → Int → Int → Int → Int) (d da s sa : Nat) : Nat :=
  toU32 ((((255 - sa) * d + (255 - da) * s : Nat) : Int) + blend d da s sa)

/-- numerator of the alpha channel: `da·255 + sa·255 − sa·da` -/
def pdfNumA (da sa : Nat) : Nat :=
  toU32 ((da : Int) * 0xff + (sa : Int) * 0xff - (sa : Int) * (da : Int))

/-- what a channel numerator becomes: clamp to 255², divide by 255 rounding -/
def pdfFinish (v : Nat) : Nat := divOneUn8 (clampU v 0 (255 * 255))

theorem pdfFinish_le (v : Nat) : pdfFinish v ≤ 255 := divOneUn8_le _ (clampU_le v)

end Pixman.Lemmas

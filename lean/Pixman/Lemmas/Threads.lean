import Pixman.Model.Threads
/-! Generic interleaving lemmas for the footprint machine of `Pixman.Model.Threads` (C16, T1). -/
namespace Pixman.Model.Threads

theorem run_inv {Inv : State → Prop} :
    ∀ (es : List Event) (σ : State), (∀ e ∈ es, e.2.Respects Inv) → Inv σ → Inv (run es σ)
  | [], σ, _, h => h
  | e :: es, σ, hr, h => by
      have he := hr e (List.mem_cons_self)
      exact run_inv es _ (fun e' h' => hr e' (List.mem_cons_of_mem _ h')) (he.pres σ h)

theorem solo_cons_same (t : Tid) (e : Event) (es : List Event) (h : e.1 = t) :
    solo t (e :: es) = e :: solo t es := by
  simp [solo, h]

theorem solo_cons_other (t : Tid) (e : Event) (es : List Event) (h : e.1 ≠ t) :
    solo t (e :: es) = solo t es := by
  simp [solo, h]

/-- simulation of the interleaved run by the solo run of thread `t` on a set `A` of locations that
    contains everything `t` accesses and nothing another thread writes -/
theorem observe_solo_aux {Inv : State → Prop} (t : Tid) (A : Loc → Prop) :
    ∀ (es : List Event) (σ σ' : State),
      (∀ e ∈ es, e.2.Respects Inv) → Inv σ → Inv σ' →
      (∀ e ∈ es, e.1 = t → (∀ l ∈ e.2.reads, A l) ∧ (∀ l ∈ e.2.writes, A l)) →
      (∀ e ∈ es, e.1 ≠ t → ∀ l ∈ e.2.writes, ¬ A l) →
      (∀ l, A l → σ l = σ' l) →
      observe t es σ = observe t (solo t es) σ' ∧ (∀ l, A l → run es σ l = run (solo t es) σ' l) := by
  intro es
  induction es with
  | nil => intro σ σ' _ _ _ _ _ hag; exact ⟨rfl, hag⟩
  | cons e es ih =>
    intro σ σ' hr hi hi' hmine hother hag
    have he := hr e List.mem_cons_self
    have hr' : ∀ e' ∈ es, e'.2.Respects Inv := fun e' h' => hr e' (List.mem_cons_of_mem _ h')
    have hmine' : ∀ e' ∈ es, e'.1 = t → (∀ l ∈ e'.2.reads, A l) ∧ (∀ l ∈ e'.2.writes, A l) :=
      fun e' h' => hmine e' (List.mem_cons_of_mem _ h')
    have hother' : ∀ e' ∈ es, e'.1 ≠ t → ∀ l ∈ e'.2.writes, ¬ A l :=
      fun e' h' => hother e' (List.mem_cons_of_mem _ h')
    by_cases hc : e.1 = t
    · -- a step of thread t: both runs perform it
      have ⟨hrd, hwr⟩ := hmine e List.mem_cons_self hc
      have hdep := he.dep σ σ' hi hi' (fun l hl => hag l (hrd l hl))
      have hag' : ∀ l, A l → e.2.eff σ l = e.2.eff σ' l := by
        intro l hl
        by_cases hw : l ∈ e.2.writes
        · exact hdep.1 l hw
        · rw [he.frame σ l hi hw, he.frame σ' l hi' hw]; exact hag l hl
      have := ih (e.2.eff σ) (e.2.eff σ') hr' (he.pres σ hi) (he.pres σ' hi') hmine' hother' hag'
      rw [solo_cons_same t e es hc]
      simp only [observe, run, hc, if_true]
      exact ⟨by rw [hdep.2, this.1], this.2⟩
    · -- a step of another thread: invisible on A
      have hag' : ∀ l, A l → e.2.eff σ l = σ' l := by
        intro l hl
        have hw : l ∉ e.2.writes := fun hw => hother e List.mem_cons_self hc l hw hl
        rw [he.frame σ l hi hw]; exact hag l hl
      have := ih (e.2.eff σ) σ' hr' (he.pres σ hi) hi' hmine' hother' hag'
      rw [solo_cons_other t e es hc]
      simp only [observe, run, hc, if_false]
      exact this

/-- **T1 (generic)**: in a footprint-race-free execution every thread observes exactly what it
    observes running alone from the same initial state, and every location it accesses ends with the
    value of its solo run — for every interleaving, any number of threads and steps. -/
theorem interleaving_deterministic {Inv : State → Prop} (es : List Event)
    (hresp : ∀ e ∈ es, e.2.Respects Inv) (hrf : RaceFree es) (σ : State) (hσ : Inv σ) (t : Tid) :
    observe t es σ = observe t (solo t es) σ ∧
    ∀ l, Accesses t es l → run es σ l = run (solo t es) σ l := by
  apply observe_solo_aux t (Accesses t es) es σ σ hresp hσ hσ
  · intro e he ht
    exact ⟨fun l hl => ⟨e, he, ht, Or.inl hl⟩, fun l hl => ⟨e, he, ht, Or.inr hl⟩⟩
  · intro e he hne l hl hacc
    obtain ⟨e', he', ht', hor⟩ := hacc
    have := hrf e he e' he' (by rw [ht']; exact hne) l hl
    cases hor with
    | inl h => exact this.1 h
    | inr h => exact this.2 h
  · intro l _; rfl

/-- the discipline of the property statement implies footprint race freedom -/
theorem discipline_raceFree (owner : Loc → Option Tid) (es : List Event) (h : Discipline owner es) :
    RaceFree es := by
  intro e₁ h₁ e₂ h₂ hne l hl
  have ho : owner l = some e₁.1 := (h e₁ h₁).1 l hl
  constructor
  · intro hr
    cases (h e₂ h₂).2 l hr with
    | inl h' => rw [ho] at h'; exact hne (Option.some.inj h')
    | inr h' => exact h' ⟨e₁, h₁, hl⟩
  · intro hw
    have h' := (h e₂ h₂).1 l hw
    rw [ho] at h'; exact hne (Option.some.inj h')

/-- two interleavings of the same per-thread programs give every thread the same observations -/
theorem interleavings_agree {Inv : State → Prop} (es es' : List Event)
    (hresp : ∀ e ∈ es, e.2.Respects Inv) (hresp' : ∀ e ∈ es', e.2.Respects Inv)
    (hrf : RaceFree es) (hrf' : RaceFree es') (hsame : ∀ t, solo t es = solo t es')
    (σ : State) (hσ : Inv σ) (t : Tid) :
    observe t es σ = observe t es' σ := by
  rw [(interleaving_deterministic es hresp hrf σ hσ t).1,
      (interleaving_deterministic es' hresp' hrf' σ hσ t).1, hsame t]

end Pixman.Model.Threads

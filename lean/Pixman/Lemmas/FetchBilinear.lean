import Pixman.Model.Fetch
import Pixman.Spec.Sampling
import Pixman.Lemmas.FetchBits
/-! C08: `bilinear_interpolation` (64-bit variant) computes every channel separately as
    `(Σ tap·weight) >> 16`; the weights sum to 2^16. -/
namespace Pixman.Lemmas.FetchBilinear
open Pixman.Model.Fetch Pixman.Lemmas.FetchBits
open Pixman.Spec.Sampling (bilinearChannel)

def chA (p : Nat) : Nat := p / 16777216 % 256
def chR (p : Nat) : Nat := p / 65536 % 256
def chG (p : Nat) : Nat := p / 256 % 256
def chB (p : Nat) : Nat := p % 256

/-- the four weights `(256−X)(256−Y), X(256−Y), (256−X)Y, XY` sum to 2^16 -/
theorem weights_sum (X Y : Nat) (hX : X ≤ 256) (hY : Y ≤ 256) :
    (256 - X) * (256 - Y) + X * (256 - Y) + (256 - X) * Y + X * Y = 65536 := by
  obtain ⟨a, ha⟩ : ∃ a, a = 256 - X := ⟨_, rfl⟩
  obtain ⟨b, hb⟩ : ∃ b, b = 256 - Y := ⟨_, rfl⟩
  rw [← ha, ← hb]
  have e : (a + X) * (b + Y) = a * b + X * b + a * Y + X * Y := by
    rw [Nat.add_mul, Nat.mul_add, Nat.mul_add]; omega
  have h1 : a + X = 256 := by omega
  have h2 : b + Y = 256 := by omega
  rw [h1, h2] at e
  omega

theorem split_mul (A B W K : Nat) : (A * K + B) * W = (A * W) * K + B * W := by
  rw [Nat.add_mul, Nat.mul_right_comm]

/-- two weighted lane sums packed 24 bits apart: the high byte of each -/
theorem lanes24 (S T : Nat) (hS : S < 16777216) (hT : T < 16777216) :
    (S * 16777216 + T) / 1099511627776 % 256 = S / 65536 ∧ (S * 16777216 + T) / 65536 % 256 = T / 65536 := by
  constructor
  · have h1 : (S * 16777216 + T) / 1099511627776 = (S * 16777216 + T) / 16777216 / 65536 := by
      rw [Nat.div_div_eq_div_mul]
    have h2 : (S * 16777216 + T) / 16777216 = S := by omega
    rw [h1, h2]; omega
  · have h1 : (S * 16777216 + T) / 65536 = S * 256 + T / 65536 := by omega
    rw [h1]; omega

theorem div_2_32 (S V : Nat) (hV : V < 65536) : (S * 65536 + V) / 4294967296 = S / 65536 := by omega

/-- red (bit 32) and green (bit 8) lane sums -/
theorem lanes32_8 (S T : Nat) (hS : S < 16777216) (hT : T < 16777216) :
    (S * 4294967296 + T * 256) / 65536 / 4294967296 % 256 = S / 65536 ∧
    (S * 4294967296 + T * 256) / 16777216 % 256 = T / 65536 := by
  constructor
  · have h1 : (S * 4294967296 + T * 256) / 65536 = S * 65536 + T / 256 := by omega
    rw [h1, div_2_32 S (T / 256) (by omega)]; omega
  · have h1 : (S * 4294967296 + T * 256) / 16777216 = S * 256 + T / 65536 := by omega
    rw [h1]; omega

/-- a weighted sum of four bytes with weights summing to 2^16 stays below 2^24 -/
theorem wsum_lt (c1 c2 c3 c4 w1 w2 w3 w4 : Nat) (h1 : c1 ≤ 255) (h2 : c2 ≤ 255) (h3 : c3 ≤ 255) (h4 : c4 ≤ 255)
    (hw : w1 + w2 + w3 + w4 = 65536) : c1 * w1 + c2 * w2 + c3 * w3 + c4 * w4 < 16777216 := by
  have a1 := Nat.mul_le_mul_right w1 h1
  have a2 := Nat.mul_le_mul_right w2 h2
  have a3 := Nat.mul_le_mul_right w3 h3
  have a4 := Nat.mul_le_mul_right w4 h4
  omega


/-- the red/green operand: `((p << 16) & 0x000000ff00000000) | (p & 0x0000ff00)` -/
theorem rg_operand (p : Nat) (_hp : p < 4294967296) :
    ((p <<< 16) &&& 0x000000ff00000000) ||| (p &&& 0x0000ff00) = chR p * 4294967296 + chG p * 256 := by
  rw [and_ff_at32, and_ff00, Nat.shiftLeft_eq]
  have e : p * 2 ^ 16 / 4294967296 % 256 = p / 65536 % 256 := by
    simp only [Nat.reducePow]; omega
  rw [e]
  have := or_disjoint (p / 65536 % 256) (p / 256 % 256 * 256) 32 (by simp only [Nat.reducePow]; omega)
  simp only [Nat.reducePow] at this
  unfold chR chG
  exact this

/-- the alpha/blue operand: `p & 0xff0000ff` -/
theorem ab_operand (p : Nat) : p &&& 0xff0000ff = chA p * 16777216 + chB p := by
  rw [and_ff0000ff]; rfl


/-- four interleaved bytes: `(a·2^40 + b·2^16) | (r·2^32 | g·2^24)` is their sum -/
theorem or_four (a r g b : Nat) (_ha : a < 256) (hr : r < 256) (hg : g < 256) (hb : b < 256) :
    (a * 1099511627776 + b * 65536) ||| (r * 4294967296 ||| g * 16777216) =
      a * 1099511627776 + r * 4294967296 + g * 16777216 + b * 65536 := by
  have e1 := or_disjoint a (b * 65536) 40 (by simp only [Nat.reducePow]; omega)
  have e2 := or_disjoint g (b * 65536) 24 (by simp only [Nat.reducePow]; omega)
  have e3 := or_disjoint r (g * 16777216 + b * 65536) 32 (by simp only [Nat.reducePow]; omega)
  have e4 := or_disjoint a (r * 4294967296 + (g * 16777216 + b * 65536)) 40 (by simp only [Nat.reducePow]; omega)
  simp only [Nat.reducePow] at e1 e2 e3 e4
  rw [← e1]
  have : a * 1099511627776 ||| b * 65536 ||| (r * 4294967296 ||| g * 16777216) =
      a * 1099511627776 ||| (r * 4294967296 ||| (g * 16777216 ||| b * 65536)) := by ac_rfl
  rw [this, e2, e3, e4]
  omega

/-- the arithmetic core of `bilinear_interpolation`: with byte operands and weights summing to 2^16
    the packed 64-bit computation yields, per channel, `(Σ tap·weight) / 2^16` -/
theorem combine (a1 a2 a3 a4 r1 r2 r3 r4 g1 g2 g3 g4 b1 b2 b3 b4 w1 w2 w3 w4 : Nat)
    (ha1 : a1 ≤ 255) (ha2 : a2 ≤ 255) (ha3 : a3 ≤ 255) (ha4 : a4 ≤ 255)
    (hr1 : r1 ≤ 255) (hr2 : r2 ≤ 255) (hr3 : r3 ≤ 255) (hr4 : r4 ≤ 255)
    (hg1 : g1 ≤ 255) (hg2 : g2 ≤ 255) (hg3 : g3 ≤ 255) (hg4 : g4 ≤ 255)
    (hb1 : b1 ≤ 255) (hb2 : b2 ≤ 255) (hb3 : b3 ≤ 255) (hb4 : b4 ≤ 255)
    (hw : w1 + w2 + w3 + w4 = 65536) :
    ((((a1 * 16777216 + b1) * w1 + (a2 * 16777216 + b2) * w2 + (a3 * 16777216 + b3) * w3 + (a4 * 16777216 + b4) * w4)
        &&& 0x0000ff0000ff0000) |||
      (((((r1 * 4294967296 + g1 * 256) * w1 + (r2 * 4294967296 + g2 * 256) * w2 + (r3 * 4294967296 + g3 * 256) * w3 +
          (r4 * 4294967296 + g4 * 256) * w4) >>> 16) &&& 0x000000ff00000000) |||
       (((r1 * 4294967296 + g1 * 256) * w1 + (r2 * 4294967296 + g2 * 256) * w2 + (r3 * 4294967296 + g3 * 256) * w3 +
          (r4 * 4294967296 + g4 * 256) * w4) &&& 0xff000000))) >>> 16 % 4294967296 =
    pack4 ((a1 * w1 + a2 * w2 + a3 * w3 + a4 * w4) / 65536) ((r1 * w1 + r2 * w2 + r3 * w3 + r4 * w4) / 65536)
          ((g1 * w1 + g2 * w2 + g3 * w3 + g4 * w4) / 65536) ((b1 * w1 + b2 * w2 + b3 * w3 + b4 * w4) / 65536) := by
  have hSA := wsum_lt a1 a2 a3 a4 w1 w2 w3 w4 ha1 ha2 ha3 ha4 hw
  have hSR := wsum_lt r1 r2 r3 r4 w1 w2 w3 w4 hr1 hr2 hr3 hr4 hw
  have hSG := wsum_lt g1 g2 g3 g4 w1 w2 w3 w4 hg1 hg2 hg3 hg4 hw
  have hSB := wsum_lt b1 b2 b3 b4 w1 w2 w3 w4 hb1 hb2 hb3 hb4 hw
  have f1 : (a1 * 16777216 + b1) * w1 + (a2 * 16777216 + b2) * w2 + (a3 * 16777216 + b3) * w3 + (a4 * 16777216 + b4) * w4
      = (a1 * w1 + a2 * w2 + a3 * w3 + a4 * w4) * 16777216 + (b1 * w1 + b2 * w2 + b3 * w3 + b4 * w4) := by
    simp only [split_mul]; omega
  have f2 : (r1 * 4294967296 + g1 * 256) * w1 + (r2 * 4294967296 + g2 * 256) * w2 + (r3 * 4294967296 + g3 * 256) * w3 +
          (r4 * 4294967296 + g4 * 256) * w4
      = (r1 * w1 + r2 * w2 + r3 * w3 + r4 * w4) * 4294967296 + (g1 * w1 + g2 * w2 + g3 * w3 + g4 * w4) * 256 := by
    simp only [split_mul, Nat.mul_right_comm _ 256]; omega
  rw [f1, f2]
  generalize a1 * w1 + a2 * w2 + a3 * w3 + a4 * w4 = SA at *
  generalize r1 * w1 + r2 * w2 + r3 * w3 + r4 * w4 = SR at *
  generalize g1 * w1 + g2 * w2 + g3 * w3 + g4 * w4 = SG at *
  generalize b1 * w1 + b2 * w2 + b3 * w3 + b4 * w4 = SB at *
  rw [and_ff_at40_16, and_ff_at32, and_ff000000, Nat.shiftRight_eq_div_pow, Nat.shiftRight_eq_div_pow]
  simp only [Nat.reducePow]
  obtain ⟨l1, l2⟩ := lanes24 SA SB hSA hSB
  obtain ⟨l3, l4⟩ := lanes32_8 SR SG hSR hSG
  rw [l1, l2, l3, l4]
  rw [or_four (SA / 65536) (SR / 65536) (SG / 65536) (SB / 65536) (by omega) (by omega) (by omega) (by omega)]
  unfold pack4
  have qa : SA / 65536 < 256 := by omega
  have qr : SR / 65536 < 256 := by omega
  have qg : SG / 65536 < 256 := by omega
  have qb : SB / 65536 < 256 := by omega
  generalize SA / 65536 = a at *
  generalize SR / 65536 = r at *
  generalize SG / 65536 = g at *
  generalize SB / 65536 = b at *
  clear hSA hSR hSG hSB l1 l2 l3 l4 f1 f2
  have h : (a * 1099511627776 + r * 4294967296 + g * 16777216 + b * 65536) / 65536 =
      a * 16777216 + r * 65536 + g * 256 + b := by omega
  rw [h]
  exact Nat.mod_eq_of_lt (by omega)


theorem ch_le (p : Nat) : chA p ≤ 255 ∧ chR p ≤ 255 ∧ chG p ≤ 255 ∧ chB p ≤ 255 := by
  unfold chA chR chG chB; omega

/-- `bilinear_interpolation` = the Spec's per-channel formula, channel by channel (lanes independent) -/
theorem bilinearInterpolation_lanes (tl tr bl br dx dy : Nat)
    (htl : tl < 4294967296) (htr : tr < 4294967296) (hbl : bl < 4294967296) (hbr : br < 4294967296)
    (hdx : dx < 128) (hdy : dy < 128) :
    bilinearInterpolation tl tr bl br dx dy =
      pack4 (bilinearChannel (chA tl) (chA tr) (chA bl) (chA br) (2 * dx) (2 * dy))
            (bilinearChannel (chR tl) (chR tr) (chR bl) (chR br) (2 * dx) (2 * dy))
            (bilinearChannel (chG tl) (chG tr) (chG bl) (chG br) (2 * dx) (2 * dy))
            (bilinearChannel (chB tl) (chB tr) (chB bl) (chB br) (2 * dx) (2 * dy)) := by
  simp only [bilinearInterpolation]
  rw [rg_operand tl htl, rg_operand tr htr, rg_operand bl hbl, rg_operand br hbr,
      ab_operand tl, ab_operand tr, ab_operand bl, ab_operand br]
  have ex : dx <<< 1 = 2 * dx := by rw [Nat.shiftLeft_eq]; omega
  have ey : dy <<< 1 = 2 * dy := by rw [Nat.shiftLeft_eq]; omega
  rw [ex, ey]
  have hw := weights_sum (2 * dx) (2 * dy) (by omega) (by omega)
  obtain ⟨a1, r1, g1, b1⟩ := ch_le tl
  obtain ⟨a2, r2, g2, b2⟩ := ch_le tr
  obtain ⟨a3, r3, g3, b3⟩ := ch_le bl
  obtain ⟨a4, r4, g4, b4⟩ := ch_le br
  unfold bilinearChannel
  exact combine _ _ _ _ _ _ _ _ _ _ _ _ _ _ _ _ _ _ _ _ a1 a2 a3 a4 r1 r2 r3 r4 g1 g2 g3 g4 b1 b2 b3 b4 hw


theorem bilinearChannel_const (c dx dy : Nat) (hdx : dx ≤ 256) (hdy : dy ≤ 256) :
    bilinearChannel c c c c dx dy = c := by
  unfold bilinearChannel
  rw [← Nat.mul_add, ← Nat.mul_add, ← Nat.mul_add, weights_sum dx dy hdx hdy]
  exact Nat.mul_div_cancel c (by omega)

/-- a constant neighbourhood is reproduced exactly -/
theorem bilinearInterpolation_const (p dx dy : Nat) (hp : p < 4294967296) (hdx : dx < 128) (hdy : dy < 128) :
    bilinearInterpolation p p p p dx dy = p := by
  rw [bilinearInterpolation_lanes p p p p dx dy hp hp hp hp hdx hdy]
  simp only [bilinearChannel_const _ (2 * dx) (2 * dy) (by omega) (by omega)]
  unfold pack4 chA chR chG chB
  omega

end Pixman.Lemmas.FetchBilinear

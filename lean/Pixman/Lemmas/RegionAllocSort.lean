/-
  quick_sort_rects, as modelled literally in Pixman.Model.RegionAlloc (`qsortRects`, Hoare-style
  partition with the middle element as pivot, recursion on the right part, loop on the left part):
  the result is a permutation of the input, sorted by the key (y1, x1).
-/
import Pixman.Model.RegionAlloc
import Pixman.Lemmas.RegionValidate
namespace Pixman.Model.RegionAlloc
open Pixman.Region

/-! ### the key order -/

theorem keyLt_iff (a b : Box) : keyLt a b = true ↔ (a.y1 < b.y1 ∨ (a.y1 = b.y1 ∧ a.x1 < b.x1)) := by
  simp [keyLt]

theorem keyLt_false_iff (a b : Box) : keyLt a b = false ↔ KeyLe b a := by
  have := keyLt_iff a b
  cases h : keyLt a b
  · simp only [true_iff]
    have h' : ¬ (a.y1 < b.y1 ∨ (a.y1 = b.y1 ∧ a.x1 < b.x1)) := fun x => by rw [this.2 x] at h; cases h
    unfold KeyLe; omega
  · simp only [Bool.true_eq_false, false_iff]
    have h' := this.1 h
    unfold KeyLe; omega

theorem keyLt_asymm {a b : Box} (h : keyLt a b = true) : keyLt b a = false := by
  rw [keyLt_false_iff]; rw [keyLt_iff] at h; unfold KeyLe; omega

theorem keyLt_irrefl (a : Box) : keyLt a a = false := by
  rw [keyLt_false_iff]; unfold KeyLe; omega

/-- x ≤ p and p ≤ z give x ≤ z -/
theorem le_trans_key {x p z : Box} (h1 : keyLt p x = false) (h2 : keyLt z p = false) : keyLt z x = false := by
  rw [keyLt_false_iff] at *; unfold KeyLe at *; omega

/-! ### arrays -/

theorem getB_eq {a : Array Box} {i : Nat} (h : i < a.size) : getB a i = a[i] := by
  simp [getB, Array.getD, h]

theorem getB_swap {a : Array Box} {i j k : Nat} (hi : i < a.size) (hj : j < a.size) :
    getB (a.swapIfInBounds i j) k =
      if k = i then getB a j else if k = j then getB a i else getB a k := by
  by_cases hk : k < a.size
  · have hk' : k < (a.swapIfInBounds i j).size := by simpa using hk
    rw [getB_eq hk', Array.getElem_swapIfInBounds]
    by_cases h1 : k = i
    · subst h1; simp [hj, getB_eq hj]
    · by_cases h2 : k = j
      · subst h2; simp [h1, hi, getB_eq hi]
      · simp [h1, h2, getB_eq hk]
  · have h1 : k ≠ i := fun e => hk (e ▸ hi)
    have h2 : k ≠ j := fun e => hk (e ▸ hj)
    simp [getB, Array.getD, hk, h1, h2]

/-- what a sorting step may do to the segment `[lo, lo+n)` of an array -/
structure SegStep (a b : Array Box) (lo n : Nat) : Prop where
  size : b.size = a.size
  perm : b.Perm a
  frame : ∀ k, (k < lo ∨ lo + n ≤ k) → getB b k = getB a k
  pres : ∀ P : Box → Prop, (∀ k, lo ≤ k → k < lo + n → P (getB a k)) → ∀ k, lo ≤ k → k < lo + n → P (getB b k)

theorem SegStep.refl (a : Array Box) (lo n : Nat) : SegStep a a lo n :=
  ⟨rfl, Array.Perm.refl _, fun _ _ => rfl, fun _ h => h⟩

theorem SegStep.trans {a b c : Array Box} {lo n : Nat} (h1 : SegStep a b lo n) (h2 : SegStep b c lo n) :
    SegStep a c lo n :=
  ⟨h2.size.trans h1.size, h2.perm.trans h1.perm, fun k hk => (h2.frame k hk).trans (h1.frame k hk),
   fun P hP => h2.pres P (h1.pres P hP)⟩

/-- a step on a sub-segment is a step on the segment -/
theorem SegStep.widen {a b : Array Box} {lo n lo' n' : Nat} (h : SegStep a b lo' n')
    (h1 : lo ≤ lo') (h2 : lo' + n' ≤ lo + n) : SegStep a b lo n := by
  refine ⟨h.size, h.perm, fun k hk => h.frame k (by omega), fun P hP k hk1 hk2 => ?_⟩
  by_cases hin : lo' ≤ k ∧ k < lo' + n'
  · exact h.pres P (fun k' a1 a2 => hP k' (by omega) (by omega)) k hin.1 hin.2
  · rw [h.frame k (by omega)]; exact hP k hk1 hk2

theorem SegStep.swap {a : Array Box} {lo n i j : Nat} (hs : lo + n ≤ a.size)
    (hi1 : lo ≤ i) (hi2 : i < lo + n) (hj1 : lo ≤ j) (hj2 : j < lo + n) :
    SegStep a (a.swapIfInBounds i j) lo n := by
  have hi : i < a.size := by omega
  have hj : j < a.size := by omega
  refine ⟨by simp, ?_, fun k hk => ?_, fun P hP k hk1 hk2 => ?_⟩
  · simp only [Array.swapIfInBounds_def, hi, hj, dite_true]
    exact Array.swap_perm hi hj
  · rw [getB_swap hi hj]
    have h1 : k ≠ i := by omega
    have h2 : k ≠ j := by omega
    simp [h1, h2]
  · rw [getB_swap hi hj]
    split
    · exact hP j hj1 hj2
    · split
      · exact hP i hi1 hi2
      · exact hP k hk1 hk2

/-! ### the two scans of the partition loop -/

theorem scanUp_spec (a : Array Box) (lo n : Nat) (pivot : Box) :
    ∀ (f i : Nat), i ≤ n → n - i ≤ f →
      i ≤ scanUp a lo n pivot f i ∧ scanUp a lo n pivot f i ≤ n ∧
      (∀ t, i ≤ t → t < scanUp a lo n pivot f i → keyLt (getB a (lo + t)) pivot = true) ∧
      (scanUp a lo n pivot f i = n ∨ keyLt (getB a (lo + scanUp a lo n pivot f i)) pivot = false)
  | 0, i, h1, h2 => by
    have : i = n := by omega
    subst this
    simp only [scanUp]
    exact ⟨Nat.le_refl _, Nat.le_refl _, fun t a b => by omega, Or.inl (by first | rfl | trivial)⟩
  | f + 1, i, h1, h2 => by
    simp only [scanUp]
    by_cases hc : (i != n && keyLt (getB a (lo + i)) pivot) = true
    · simp only [hc, if_true]
      have hne : i ≠ n := by
        intro e; simp [e] at hc
      have hk : keyLt (getB a (lo + i)) pivot = true := by
        simp only [Bool.and_eq_true] at hc; exact hc.2
      have ih := scanUp_spec a lo n pivot f (i + 1) (by omega) (by omega)
      refine ⟨by omega, ih.2.1, fun t a1 a2 => ?_, ih.2.2.2⟩
      by_cases e : t = i
      · subst e; exact hk
      · exact ih.2.2.1 t (by omega) a2
    · simp only [hc, Bool.false_eq_true, if_false]
      refine ⟨Nat.le_refl _, h1, fun t a b => by omega, ?_⟩
      by_cases e : i = n
      · exact Or.inl e
      · right
        have : (i != n) = true := by simpa using e
        simp only [this, Bool.true_and] at hc
        simpa using hc

theorem scanDown_spec (a : Array Box) (lo : Nat) (pivot : Box) :
    ∀ (f j : Nat), j ≤ f →
      scanDown a lo pivot f j ≤ j ∧
      (∀ t, scanDown a lo pivot f j < t → t ≤ j → keyLt pivot (getB a (lo + t)) = true) ∧
      (scanDown a lo pivot f j = 0 ∨ keyLt pivot (getB a (lo + scanDown a lo pivot f j)) = false)
  | 0, j, h => by
    have : j = 0 := by omega
    subst this
    simp only [scanDown]
    exact ⟨Nat.le_refl _, fun t a b => by omega, Or.inl (by first | rfl | trivial)⟩
  | f + 1, j, h => by
    simp only [scanDown]
    by_cases hc : (keyLt pivot (getB a (lo + j)) && j != 0) = true
    · simp only [hc, if_true]
      simp only [Bool.and_eq_true] at hc
      have hj : j ≠ 0 := by simpa using hc.2
      have ih := scanDown_spec a lo pivot f (j - 1) (by omega)
      refine ⟨by omega, fun t a1 a2 => ?_, ih.2.2⟩
      by_cases e : t = j
      · subst e; exact hc.1
      · exact ih.2.1 t a1 (by omega)
    · simp only [hc, Bool.false_eq_true, if_false]
      refine ⟨Nat.le_refl _, fun t a b => by omega, ?_⟩
      by_cases e : j = 0
      · exact Or.inl e
      · right
        have : (j != 0) = true := by simpa using e
        simp only [this, Bool.and_true] at hc
        simpa using hc

/-! ### the partition loop -/

theorem getB_swap_off {a : Array Box} {lo i j t : Nat} (hi : lo + i < a.size) (hj : lo + j < a.size) :
    getB (a.swapIfInBounds (lo + i) (lo + j)) (lo + t) =
      if t = i then getB a (lo + j) else if t = j then getB a (lo + i) else getB a (lo + t) := by
  rw [getB_swap hi hj]
  simp only [Nat.add_left_cancel_iff]

structure PInv (a : Array Box) (lo n : Nat) (pivot : Box) (i j : Nat) : Prop where
  piv : getB a lo = pivot
  ij : i < j
  jn : j ≤ n
  left : ∀ t, 1 ≤ t → t ≤ i → keyLt pivot (getB a (lo + t)) = false
  right : ∀ t, j ≤ t → t < n → keyLt (getB a (lo + t)) pivot = false

theorem partLoop_spec (lo n : Nat) (pivot : Box) :
    ∀ (f : Nat) (a : Array Box) (i j : Nat), lo + n ≤ a.size → PInv a lo n pivot i j → n - i ≤ f →
      SegStep a (partLoop lo n pivot f a i j).1 lo n ∧
      getB (partLoop lo n pivot f a i j).1 lo = pivot ∧
      (partLoop lo n pivot f a i j).2 < n ∧
      (∀ t, 1 ≤ t → t ≤ (partLoop lo n pivot f a i j).2 →
        keyLt pivot (getB (partLoop lo n pivot f a i j).1 (lo + t)) = false) ∧
      (∀ t, (partLoop lo n pivot f a i j).2 < t → t < n →
        keyLt (getB (partLoop lo n pivot f a i j).1 (lo + t)) pivot = false)
  | 0, a, i, j, _, inv, hf => by
    have := inv.ij; have := inv.jn; omega
  | f + 1, a, i, j, hs, inv, hf => by
    have hij := inv.ij
    have hjn := inv.jn
    have su := scanUp_spec a lo n pivot n (i + 1) (by omega) (by omega)
    have sd := scanDown_spec a lo pivot n (j - 1) (by omega)
    simp only [partLoop]
    generalize hi' : scanUp a lo n pivot n (i + 1) = i' at su
    generalize hj' : scanDown a lo pivot n (j - 1) = j' at sd
    by_cases hlt : i' < j'
    · simp only [hlt, if_true]
      have hib : lo + i' < a.size := by omega
      have hjb : lo + j' < a.size := by omega
      have inv' : PInv (a.swapIfInBounds (lo + i') (lo + j')) lo n pivot i' j' := by
        refine ⟨?_, hlt, by omega, fun t t1 t2 => ?_, fun t t1 t2 => ?_⟩
        · have := getB_swap_off (a := a) (lo := lo) (i := i') (j := j') (t := 0) hib hjb
          simp only [Nat.add_zero] at this
          rw [this]
          have e1 : ¬ (0 = i') := by omega
          have e2 : ¬ (0 = j') := by omega
          simp only [e1, e2, if_false]; exact inv.piv
        · rw [getB_swap_off hib hjb]
          by_cases e : t = i'
          · simp only [e, if_true]
            rcases sd.2.2 with z | z
            · omega
            · exact z
          · have e2 : ¬ (t = j') := by omega
            simp only [e, e2, if_false]
            by_cases tl : t ≤ i
            · exact inv.left t t1 tl
            · exact keyLt_asymm (su.2.2.1 t (by omega) (by omega))
        · rw [getB_swap_off hib hjb]
          have e1 : ¬ (t = i') := by omega
          by_cases e : t = j'
          · simp only [e1, e, if_true, if_false]
            rcases su.2.2.2 with z | z
            · omega
            · have : ¬ (j' = i') := by omega
              simp only [this, if_false]; exact z
          · simp only [e1, e, if_false]
            by_cases tj : j ≤ t
            · exact inv.right t tj t2
            · exact keyLt_asymm (sd.2.1 t (by omega) (by omega))
      have ih := partLoop_spec lo n pivot f (a.swapIfInBounds (lo + i') (lo + j')) i' j' (by simpa using hs) inv' (by omega)
      exact ⟨(SegStep.swap hs (by omega) (by omega) (by omega) (by omega)).trans ih.1, ih.2⟩
    · simp only [hlt, if_false]
      refine ⟨SegStep.refl _ _ _, inv.piv, by omega, fun t t1 t2 => ?_, fun t t1 t2 => ?_⟩
      · by_cases tl : t ≤ i
        · exact inv.left t t1 tl
        · by_cases e : t < i'
          · exact keyLt_asymm (su.2.2.1 t (by omega) e)
          · have : t = j' := by omega
            rcases sd.2.2 with z | z
            · omega
            · rw [this]; exact z
      · by_cases tj : j ≤ t
        · exact inv.right t tj t2
        · exact keyLt_asymm (sd.2.1 t t1 (by omega))

/-! ### quick_sort_rects -/

def SegSorted (a : Array Box) (lo n : Nat) : Prop :=
  ∀ i k, lo ≤ i → i < k → k < lo + n → keyLt (getB a k) (getB a i) = false

theorem qsort_spec : ∀ (f : Nat) (a : Array Box) (lo n : Nat), lo + n ≤ a.size → n ≤ f →
    SegStep a (qsortRects f a lo n) lo n ∧ SegSorted (qsortRects f a lo n) lo n
  | 0, a, lo, n, _, hf => by
    simp only [qsortRects]
    exact ⟨SegStep.refl _ _ _, fun i k a1 a2 a3 => by omega⟩
  | f + 1, a, lo, n, hs, hf => by
    simp only [qsortRects]
    by_cases h1 : n ≤ 1
    · simp only [h1, if_true]
      exact ⟨SegStep.refl _ _ _, fun i k a1 a2 a3 => by omega⟩
    · simp only [h1, if_false]
      by_cases h2 : (n == 2) = true
      · have hn : n = 2 := by simpa using h2
        subst hn
        simp only [h2, if_true]
        by_cases hc : keyLt (getB a (lo + 1)) (getB a lo) = true
        · simp only [hc, if_true]
          refine ⟨SegStep.swap hs (by omega) (by omega) (by omega) (by omega), fun i k a1 a2 a3 => ?_⟩
          have hi : i = lo := by omega
          have hk : k = lo + 1 := by omega
          subst hi; subst hk
          rw [getB_swap (by omega) (by omega), getB_swap (by omega) (by omega)]
          simp only [Nat.add_eq_left, Nat.succ_ne_zero, if_false, if_true]
          exact keyLt_asymm hc
        · simp only [hc, Bool.false_eq_true, if_false]
          refine ⟨SegStep.refl _ _ _, fun i k a1 a2 a3 => ?_⟩
          have hi : i = lo := by omega
          have hk : k = lo + 1 := by omega
          subst hi; subst hk
          simpa using hc
      · simp only [h2, Bool.false_eq_true, if_false]
        have hn3 : 3 ≤ n := by
          have : n ≠ 2 := by simpa using h2
          omega
        -- pivot to the front
        have s1 : SegStep a (a.swapIfInBounds lo (lo + n / 2)) lo n :=
          SegStep.swap hs (by omega) (by omega) (by omega) (by omega)
        generalize ha1 : a.swapIfInBounds lo (lo + n / 2) = a1 at s1
        have hs1 : lo + n ≤ a1.size := by rw [s1.size]; exact hs
        have inv0 : PInv a1 lo n (getB a1 lo) 0 n :=
          ⟨rfl, by omega, Nat.le_refl _, fun t t1 t2 => by omega, fun t t1 t2 => by omega⟩
        have pl := partLoop_spec lo n (getB a1 lo) n a1 0 n hs1 inv0 (by omega)
        generalize hpv : getB a1 lo = pivot at pl
        generalize hp : partLoop lo n pivot n a1 0 n = p at pl
        obtain ⟨pa, j⟩ := p
        simp only at pl ⊢
        obtain ⟨s2, ppiv, hjn, pleft, pright⟩ := pl
        have hs2 : lo + n ≤ pa.size := by rw [s2.size]; exact hs1
        -- pivot to its place
        have s3 : SegStep pa (pa.swapIfInBounds lo (lo + j)) lo n :=
          SegStep.swap hs2 (by omega) (by omega) (by omega) (by omega)
        have hlo : lo < pa.size := by omega
        have hlj : lo + j < pa.size := by omega
        have g2 : ∀ t, getB (pa.swapIfInBounds lo (lo + j)) (lo + t) =
            if t = 0 then getB pa (lo + j) else if t = j then getB pa lo else getB pa (lo + t) := by
          intro t
          have := getB_swap_off (a := pa) (lo := lo) (i := 0) (j := j) (t := t) (by simpa using hlo) hlj
          simpa using this
        generalize ha2 : pa.swapIfInBounds lo (lo + j) = a2 at s3 g2
        have hs3 : lo + n ≤ a2.size := by rw [s3.size]; exact hs2
        have a2piv : getB a2 (lo + j) = pivot := by
          rw [g2 j]
          by_cases e : j = 0
          · subst e; simpa using ppiv
          · simp only [e, if_false, if_true]; exact ppiv
        have a2left : ∀ k, lo ≤ k → k < lo + j → keyLt pivot (getB a2 k) = false := by
          intro k k1 k2
          obtain ⟨t, rfl⟩ : ∃ t, k = lo + t := ⟨k - lo, by omega⟩
          rw [g2 t]
          by_cases e : t = 0
          · simp only [e, if_true]; exact pleft j (by omega) (Nat.le_refl _)
          · have e2 : ¬ t = j := by omega
            simp only [e, e2, if_false]; exact pleft t (by omega) (by omega)
        have a2right : ∀ k, lo + j + 1 ≤ k → k < lo + n → keyLt (getB a2 k) pivot = false := by
          intro k k1 k2
          obtain ⟨t, rfl⟩ : ∃ t, k = lo + t := ⟨k - lo, by omega⟩
          rw [g2 t]
          have e : ¬ t = 0 := by omega
          have e2 : ¬ t = j := by omega
          simp only [e, e2, if_false]; exact pright t (by omega) (by omega)
        -- right part
        have hr : ∃ a3, (if n - j - 1 > 1 then qsortRects f a2 (lo + j + 1) (n - j - 1) else a2) = a3 ∧
            SegStep a2 a3 (lo + j + 1) (n - j - 1) ∧ SegSorted a3 (lo + j + 1) (n - j - 1) := by
          by_cases hc : n - j - 1 > 1
          · simp only [hc, if_true]
            have ih := qsort_spec f a2 (lo + j + 1) (n - j - 1) (by omega) (by omega)
            exact ⟨_, rfl, ih⟩
          · simp only [hc, if_false]
            exact ⟨_, rfl, SegStep.refl _ _ _, fun i k a1 a2 a3 => by omega⟩
        obtain ⟨a3, ha3, s4, sortR⟩ := hr
        rw [ha3]
        have hs4 : lo + n ≤ a3.size := by rw [s4.size]; exact hs3
        have a3piv : getB a3 (lo + j) = pivot := by rw [s4.frame _ (by omega)]; exact a2piv
        have a3left : ∀ k, lo ≤ k → k < lo + j → keyLt pivot (getB a3 k) = false := by
          intro k k1 k2; rw [s4.frame _ (by omega)]; exact a2left k k1 k2
        have a3right : ∀ k, lo + j + 1 ≤ k → k < lo + n → keyLt (getB a3 k) pivot = false := by
          intro k k1 k2
          exact s4.pres (fun x => keyLt x pivot = false) (fun k' b1 b2 => a2right k' b1 (by omega)) k k1 (by omega)
        -- left part
        have hl : ∃ a4, (if j > 1 then qsortRects f a3 lo j else a3) = a4 ∧
            SegStep a3 a4 lo j ∧ SegSorted a4 lo j := by
          by_cases hc : j > 1
          · simp only [hc, if_true]
            have ih := qsort_spec f a3 lo j (by omega) (by omega)
            exact ⟨_, rfl, ih⟩
          · simp only [hc, if_false]
            exact ⟨_, rfl, SegStep.refl _ _ _, fun i k a1 a2 a3 => by omega⟩
        obtain ⟨a4, ha4, s5, sortL⟩ := hl
        rw [ha4]
        have a4piv : getB a4 (lo + j) = pivot := by rw [s5.frame _ (by omega)]; exact a3piv
        have a4left : ∀ k, lo ≤ k → k < lo + j → keyLt pivot (getB a4 k) = false := by
          intro k k1 k2
          exact s5.pres (fun x => keyLt pivot x = false) a3left k k1 k2
        have a4right : ∀ k, lo + j + 1 ≤ k → k < lo + n → keyLt (getB a4 k) pivot = false := by
          intro k k1 k2; rw [s5.frame _ (by omega)]; exact a3right k k1 k2
        have sortR4 : SegSorted a4 (lo + j + 1) (n - j - 1) := by
          intro i k i1 i2 i3
          rw [s5.frame k (by omega), s5.frame i (by omega)]
          exact sortR i k i1 i2 i3
        refine ⟨?_, ?_⟩
        · rw [← ha1] at s1
          exact s1.trans (ha1 ▸ (s2.trans (s3.trans ((s4.widen (by omega) (by omega)).trans (s5.widen (by omega) (by omega))))))
        · intro i k i1 i2 i3
          by_cases ki : k < lo + j
          · exact sortL i k i1 i2 ki
          · by_cases ii : lo + j < i
            · exact sortR4 i k (by omega) i2 (by omega)
            · -- i ≤ pivot position ≤ k
              have hi : keyLt pivot (getB a4 i) = false := by
                by_cases e : i = lo + j
                · rw [e, a4piv]; exact keyLt_irrefl _
                · exact a4left i i1 (by omega)
              have hk : keyLt (getB a4 k) pivot = false := by
                by_cases e : k = lo + j
                · rw [e, a4piv]; exact keyLt_irrefl _
                · exact a4right k (by omega) i3
              exact le_trans_key hi hk

/-- quick_sort_rects returns a permutation of its input, sorted by (y1, x1) -/
theorem quickSortRects_spec (l : List Box) :
    (quickSortRects l).Perm l ∧ (quickSortRects l).Pairwise KeyLe := by
  have h := qsort_spec (l.length + 1) l.toArray 0 l.length (by simp) (by omega)
  unfold quickSortRects
  generalize qsortRects (l.length + 1) l.toArray 0 l.length = b at h
  obtain ⟨st, so⟩ := h
  refine ⟨?_, ?_⟩
  · have := Array.perm_iff_toList_perm.1 st.perm
    simpa using this
  · rw [List.pairwise_iff_getElem]
    intro i k hi hk hik
    have hsz : b.size = l.length := by simpa using st.size
    have hi' : i < b.size := by simpa using hi
    have hk' : k < b.size := by simpa using hk
    have := so i k (by omega) hik (by omega)
    rw [getB_eq hi', getB_eq hk'] at this
    rw [keyLt_false_iff] at this
    simpa using this

end Pixman.Model.RegionAlloc

import Pixman.Model.Fetch
import Pixman.Spec.Sampling
import Pixman.Lemmas.Fetch
import Pixman.Lemmas.Matrix
/-! C08: the per-pixel division of the projective fetcher. -/
namespace Pixman.Lemmas.FetchProj
open Pixman.Sample Pixman.Matrix Pixman.Model.Fetch Pixman.Spec.Fixed

/-- C division: the quotient times the divisor misses the dividend by less than the divisor -/
theorem tdiv_error (n w : Int) (hw : w ≠ 0) : abs (n - Int.tdiv n w * w) < abs w := by
  have h1 := Int.mul_tdiv_add_tmod n w
  have h2 := Int.natAbs_tmod n w
  have h3 : n.natAbs % w.natAbs < w.natAbs := Nat.mod_lt _ (by omega)
  have e : n - Int.tdiv n w * w = Int.tmod n w := by rw [Int.mul_comm]; omega
  rw [e]
  unfold abs
  split <;> split <;> omega

/-- … and it is the quotient rounded towards zero: it never exceeds the exact quotient in magnitude -/
theorem tdiv_toward_zero (n w : Int) : 0 ≤ (n - Int.tdiv n w * w) * n := by
  have h1 := Int.mul_tdiv_add_tmod n w
  have e : n - Int.tdiv n w * w = Int.tmod n w := by rw [Int.mul_comm]; omega
  rw [e]
  rcases Int.le_total 0 n with h | h
  · exact Int.mul_nonneg (Int.tmod_nonneg w h) h
  · have : Int.tmod n w ≤ 0 := by
      have := Int.tmod_nonneg w (by omega : 0 ≤ -n)
      rw [Int.neg_tmod] at this
      omega
    have := Int.mul_nonneg (by omega : 0 ≤ -Int.tmod n w) (by omega : 0 ≤ -n)
    rw [Int.neg_mul_neg] at this
    exact this

theorem divW_of_range (x w : Int) (hw : w ≠ 0) (hq : isI32 (Int.tdiv (x * 65536) w)) :
    divW x w = Int.tdiv (x * 65536) w := by
  unfold divW
  simp only [ne_eq, hw, not_false_eq_true, ↓reduceIte]
  exact wrapS32_of_range _ hq

/-- with `w = 1.0` the division is the identity: the general fetcher on an affine map is the affine fetcher -/
theorem divW_one (x : Int) (hx : isI32 x) : divW x 65536 = x := by
  rw [divW_of_range x 65536 (by omega) (by rw [Int.mul_tdiv_cancel x (by omega)]; exact hx)]
  exact Int.mul_tdiv_cancel x (by omega)

/-- the position error of the projective path.  `X`, `Wn` are the exact homogeneous numerators (units
    2^-32), `x`, `w` their roundings to 16.16 as `pixman_transform_point_3d` delivers them, `x0` the
    quotient the code forms.  In units of 1/65536 pixel the exact position is `65536·X/Wn`; the
    statement is `|x0 − 65536·X/Wn| ≤ (65536·|w| + 2^31 + 32768·|x0|) / |Wn|`, i.e. about
    `1 + 32768·(1 + |position|) / |w|` units. -/
theorem position_bound (X Wn : Int) (hw : roundHalfUp Wn 65536 ≠ 0) :
    abs (Int.tdiv (roundHalfUp X 65536 * 65536) (roundHalfUp Wn 65536) * Wn - 65536 * X) ≤
      65536 * abs (roundHalfUp Wn 65536) + 2147483648 +
        32768 * abs (Int.tdiv (roundHalfUp X 65536 * 65536) (roundHalfUp Wn 65536)) := by
  generalize hx : roundHalfUp X 65536 = x
  generalize hwd : roundHalfUp Wn 65536 = w at *
  generalize hx0 : Int.tdiv (x * 65536) w = x0
  have r1 : -32767 ≤ 65536 * x - X ∧ 65536 * x - X ≤ 32768 := by
    rw [← hx]; unfold roundHalfUp; omega
  have r2 : -32767 ≤ 65536 * w - Wn ∧ 65536 * w - Wn ≤ 32768 := by
    rw [← hwd]; unfold roundHalfUp; omega
  have r3 := tdiv_error (x * 65536) w hw
  rw [hx0] at r3
  have ident : x0 * Wn - 65536 * X = -(65536 * (x * 65536 - x0 * w)) - x0 * (65536 * w - Wn) + 65536 * (65536 * x - X) := by
    grind
  rw [ident]
  generalize x * 65536 - x0 * w = e1 at *
  generalize 65536 * w - Wn = e3 at *
  generalize 65536 * x - X = e2 at *
  have m := mul_bounds x0 e3 (abs x0) 32768 (by unfold abs; split <;> omega) (by omega)
  generalize x0 * e3 = P at *
  rw [Int.mul_comm (abs x0) 32768] at m
  generalize abs x0 = ax0 at *
  unfold abs at r3 ⊢
  split at r3 <;> split at r3 <;> split <;> omega

/-- the same bound in units of the result when the rounded homogeneous coordinate is at least 1.0:
    `2·|x0·Wn − 65536·X| ≤ 3·|Wn| + 65536·|x0| + 98304` -/
theorem position_bound_units (X Wn : Int) (hw : 65536 ≤ abs (roundHalfUp Wn 65536)) :
    2 * abs (Int.tdiv (roundHalfUp X 65536 * 65536) (roundHalfUp Wn 65536) * Wn - 65536 * X) ≤
      3 * abs Wn + 65536 * abs (Int.tdiv (roundHalfUp X 65536 * 65536) (roundHalfUp Wn 65536)) + 98304 := by
  have hne : roundHalfUp Wn 65536 ≠ 0 := by
    intro h; rw [h] at hw; unfold abs at hw; simp at hw
  have pb := position_bound X Wn hne
  have r2 : -32767 ≤ 65536 * roundHalfUp Wn 65536 - Wn ∧ 65536 * roundHalfUp Wn 65536 - Wn ≤ 32768 := by
    unfold roundHalfUp; omega
  generalize roundHalfUp Wn 65536 = w at *
  generalize Int.tdiv (roundHalfUp X 65536 * 65536) w = x0 at *
  generalize abs (x0 * Wn - 65536 * X) = E at *
  generalize abs x0 = ax at *
  unfold abs at *
  split at hw <;> split at pb <;> split <;> omega

/-- reducing a 16.16 coordinate modulo `w` pixels commutes with taking its pixel index -/
theorem emod_mul_ediv (v w : Int) (hw : 0 < w) : (v % (w * 65536)) / 65536 = (v / 65536) % w := by
  have hM : 0 < w * 65536 := by omega
  obtain ⟨e, r1, r2⟩ := divmod_spec v (w * 65536) hM
  generalize v / (w * 65536) = q at *
  generalize v % (w * 65536) = r at *
  obtain ⟨e2, s1, s2⟩ := divmod_spec r 65536 (by omega)
  generalize r / 65536 = a at *
  generalize r % 65536 = b at *
  have ha : a < w := by
    by_cases h : a < w
    · exact h
    · have := Int.mul_le_mul_of_nonneg_left (by omega : w ≤ a) (by omega : (0:Int) ≤ 65536)
      omega
  have ha0 : 0 ≤ a := by omega
  have hv : v = 65536 * (w * q + a) + b := by
    rw [← e, ← e2, Int.mul_add, Int.mul_assoc, Int.mul_left_comm w 65536 q]; omega
  have h1 := (div_eq_of_decomp v 65536 (w * q + a) b (by omega) hv ⟨s1, s2⟩).1
  rw [h1]
  exact ((div_eq_of_decomp (w * q + a) w q a hw rfl ⟨ha0, ha⟩).2).symm

end Pixman.Lemmas.FetchProj

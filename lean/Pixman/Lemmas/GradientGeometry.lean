import Pixman.Model.Gradient
import Pixman.Spec.Gradient
/-! Geometry of the gradient model against the Spec: linear projection (G3), radial root selection
    (G4), guarded degenerate branches (G5).  Exact arithmetic over `Rat`. -/
namespace Pixman.Model.Gradient
open Pixman.Matrix (Vec wrapS32 fixed1)
namespace S
export Pixman.Spec.Gradient (linearT IsRadialRoot radialAdmissible Repeat)
end S

/-- a `(T)(double)` conversion is off by less than one unit -/
theorem truncZ_close (q : Rat) : (truncZ q : Rat) - q < 1 ∧ q - (truncZ q : Rat) < 1 := by
  unfold truncZ
  split
  · have h1 := Rat.floor_le q
    have h2 := Rat.lt_floor_add_one q
    simp [Rat.intCast_add] at h2
    constructor <;> grind
  · have h1 := Rat.floor_le (-q)
    have h2 := Rat.lt_floor_add_one (-q)
    simp [Rat.intCast_add, Rat.intCast_neg] at h2 ⊢
    constructor <;> grind

theorem truncZ_int (z : Int) : truncZ (z : Rat) = z := by
  unfold truncZ
  split
  · exact Rat.floor_intCast z
  · rw [← Rat.intCast_neg, Rat.floor_intCast]; omega

/-! ### linear -/

theorem lin_alg (dx dy p1x p1y vx vy vz : Rat) (hL0 : dx*dx + dy*dy ≠ 0) (hz : vz ≠ 0) :
    ((dx*vx + dy*vy) - (dx*p1x + dy*p1y)*(vz*(1/65536))) * (65536*65536/((dx*dx + dy*dy)*vz)) =
    65536 * (((vx/vz - p1x/65536)*(dx/65536) + (vy/vz - p1y/65536)*(dy/65536)) /
      ((dx/65536)*(dx/65536) + (dy/65536)*(dy/65536))) := by
  have h1 : (dx/65536)*(dx/65536) + (dy/65536)*(dy/65536) = (dx*dx + dy*dy) / (65536*65536) := by grind
  rw [h1]
  generalize dx*dx + dy*dy = L at *
  have h2 : (vx/vz - p1x/65536)*(dx/65536) + (vy/vz - p1y/65536)*(dy/65536)
      = ((dx*vx + dy*vy) - (dx*p1x + dy*p1y)*(vz*(1/65536))) / (65536 * vz) := by grind
  rw [h2]
  generalize (dx*vx + dy*vy) - (dx*p1x + dy*p1y)*(vz*(1/65536)) = N
  grind

/-- 16.16 value in pixels -/
def px (v : Int) : Rat := (v : Rat) / 65536

/-- the `double` parameter of `linear_get_scanline`, in 16.16 units, is 65536 times the projection
    parameter of the point `(v.x / v.z, v.y / v.z)` onto `p1 p2` -/
theorem linearTQ_eq_projection (l : Linear) (v : Vec) (hl : l.len2 ≠ 0) (hz : v.z ≠ 0) :
    linearTQ l v = 65536 * S.linearT (px l.p1x) (px l.p1y) (px l.p2x) (px l.p2y)
      ((v.x : Rat) / (v.z : Rat)) ((v.y : Rat) / (v.z : Rat)) := by
  have hz' : (v.z : Rat) ≠ 0 := by
    intro h; apply hz; exact_mod_cast h
  have hl' : ((l.len2 : Int) : Rat) ≠ 0 := by
    intro h; apply hl; exact_mod_cast h
  unfold linearTQ S.linearT px
  unfold Linear.len2 Linear.dx Linear.dy at *
  simp only [Rat.intCast_add, Rat.intCast_mul, Rat.intCast_sub] at *
  have := lin_alg ((l.p2x : Rat) - l.p1x) ((l.p2y : Rat) - l.p1y) l.p1x l.p1y v.x v.y v.z hl' hz'
  rw [this]
  grind

/-- affine case (`unit.z = 0`): the parameter of pixel `i` is `t₀ + i · inc` exactly -/
theorem linear_affine_increment (l : Linear) (v unit : Vec) (i : Nat) (hl : l.len2 ≠ 0) (hz : v.z ≠ 0) :
    linearTQ l ⟨v.x + i * unit.x, v.y + i * unit.y, v.z⟩ = linearTQ l v + (i : Rat) * linearIncQ l v unit := by
  have hz' : (v.z : Rat) ≠ 0 := by
    intro h; apply hz; exact_mod_cast h
  have hl' : ((l.len2 : Int) : Rat) ≠ 0 := by
    intro h; apply hl; exact_mod_cast h
  unfold linearTQ linearIncQ
  unfold Linear.len2 Linear.dx Linear.dy at *
  simp only [Rat.intCast_add, Rat.intCast_mul, Rat.intCast_sub, Rat.intCast_natCast] at *
  grind

/-! ### radial -/

/-- the quadratic `a τ² - 2 b τ + c` of the two-circle equation is the difference of its two sides -/
theorem radial_quadratic (c1x c1y r1 c2x c2y r2 px py τ : Rat) :
    let dx := c2x - c1x; let dy := c2y - c1y; let dr := r2 - r1
    let pdx := px - c1x; let pdy := py - c1y
    let a := dx * dx + dy * dy - dr * dr
    let b := pdx * dx + pdy * dy + r1 * dr
    let c := pdx * pdx + pdy * pdy - r1 * r1
    a * τ * τ - 2 * b * τ + c =
      ((px - (c1x + τ * (c2x - c1x))) * (px - (c1x + τ * (c2x - c1x))) +
       (py - (c1y + τ * (c2y - c1y))) * (py - (c1y + τ * (c2y - c1y)))) -
      (r1 + τ * (r2 - r1)) * (r1 + τ * (r2 - r1)) := by
  intro dx dy dr pdx pdy a b c
  grind

/-- hence: root of the quadratic ⇔ `IsRadialRoot` -/
theorem radial_root_iff (c1x c1y r1 c2x c2y r2 px py τ : Rat) :
    let dx := c2x - c1x; let dy := c2y - c1y; let dr := r2 - r1
    let pdx := px - c1x; let pdy := py - c1y
    let a := dx * dx + dy * dy - dr * dr
    let b := pdx * dx + pdy * dy + r1 * dr
    let c := pdx * pdx + pdy * pdy - r1 * r1
    a * τ * τ - 2 * b * τ + c = 0 ↔ S.IsRadialRoot c1x c1y r1 c2x c2y r2 px py τ := by
  intro dx dy dr pdx pdy a b c
  have h := radial_quadratic c1x c1y r1 c2x c2y r2 px py τ
  simp only [] at h
  unfold S.IsRadialRoot
  constructor <;> intro h' <;> grind

end Pixman.Model.Gradient

namespace Pixman.Model.Gradient

/-- the admissibility test of `radial_write_color` on a parameter in 16.16 units -/
def admC (rep : Repeat) (dr mindr t : Rat) : Prop :=
  if rep = .none then 0 ≤ t ∧ t ≤ 65536 else t * dr ≥ mindr

instance (rep : Repeat) (dr mindr t : Rat) : Decidable (admC rep dr mindr t) := by unfold admC; exact inferInstance

theorem root_of_sqrt (a b c s : Rat) (ha : a ≠ 0) (hs : s * s = b * b - a * c) (σ : Rat) (hσ : σ = s ∨ σ = -s) :
    a * ((b + σ) / a) * ((b + σ) / a) - 2 * b * ((b + σ) / a) + c = 0 := by
  have h1 : a * ((b + σ) / a) = b + σ := by grind
  rw [h1]
  have h2 : (b + σ) * ((b + σ) / a) - 2 * b * ((b + σ) / a) + c = ((b + σ) * (b + σ) - 2 * b * (b + σ) + a * c) / a := by grind
  rw [h2]
  have h3 : (b + σ) * (b + σ) - 2 * b * (b + σ) + a * c = 0 := by
    rcases hσ with h | h <;> subst h <;> grind
  rw [h3]; grind

/-- every root of `a τ² - 2 b τ + c` is one of the two the code computes -/
theorem roots_are_the_two (a b c s τ : Rat) (ha : a ≠ 0) (hs : s * s = b * b - a * c)
    (hτ : a * τ * τ - 2 * b * τ + c = 0) : τ = (b + s) / a ∨ τ = (b - s) / a := by
  have h1 : (a * τ - b - s) * (a * τ - b + s) = 0 := by grind
  have h2 : a * τ - b - s = 0 ∨ a * τ - b + s = 0 := by
    rcases Rat.mul_eq_zero.mp h1 with h | h
    · exact Or.inl h
    · exact Or.inr h
  rcases h2 with h | h
  · left; grind
  · right; grind

theorem sq_nonneg (x : Rat) : 0 ≤ x * x := by
  rcases (Rat.le_total : (0 : Rat) ≤ x ∨ x ≤ 0) with h | h
  · exact Rat.mul_nonneg h h
  · have h' : 0 ≤ -x := by grind
    have := Rat.mul_nonneg h' h'
    grind

/-- a negative discriminant leaves no root -/
theorem no_root_of_neg_discr (a b c τ : Rat) (hd : b * b - a * c < 0) : a * τ * τ - 2 * b * τ + c ≠ 0 := by
  intro h
  have h1 : (a * τ - b) * (a * τ - b) = b * b - a * c := by grind
  have h2 : 0 ≤ (a * τ - b) * (a * τ - b) := sq_nonneg _
  grind

end Pixman.Model.Gradient

namespace Pixman.Model.Gradient

/-- `radial_write_color` for `a ≠ 0`, with the two repeat-dependent tests folded into `admC` -/
theorem radialT_ne_zero (a b c inva dr mindr s : Rat) (rep : Repeat) (ha : a ≠ 0) :
    radialT a b c inva dr mindr s rep =
      if b * b - a * c ≥ 0 then
        (if admC rep dr mindr ((b + s) * inva) then some ((b + s) * inva)
         else if admC rep dr mindr ((b - s) * inva) then some ((b - s) * inva) else none)
      else none := by
  unfold radialT admC
  by_cases hr : rep = .none <;> simp [ha, hr]

/-- `radial_write_color` for `a = 0`, `b ≠ 0` -/
theorem radialT_zero (b c inva dr mindr s : Rat) (rep : Repeat) (hb : b ≠ 0) :
    radialT 0 b c inva dr mindr s rep =
      if admC rep dr mindr (32768 * c / b) then some (32768 * c / b) else none := by
  unfold radialT admC
  by_cases hr : rep = .none <;> simp [hb, hr]

theorem tau_of (a b σ : Rat) (ha : a ≠ 0) : (b + σ) * (65536 / a) / 65536 = (b + σ) / a := by grind

/-- G4 (soundness): what `radial_write_color` selects is a root of the quadratic and passes the
    admissibility test -/
theorem radialT_sound (a b c inva dr mindr s t : Rat) (rep : Repeat) (ha : a ≠ 0) (hinva : inva = 65536 / a)
    (hs : s * s = b * b - a * c) (h : radialT a b c inva dr mindr s rep = some t) :
    a * (t / 65536) * (t / 65536) - 2 * b * (t / 65536) + c = 0 ∧ admC rep dr mindr t := by
  rw [radialT_ne_zero _ _ _ _ _ _ _ _ ha] at h
  subst hinva
  split at h
  · split at h
    · injection h with h; subst h
      rename_i hadm
      refine ⟨?_, hadm⟩
      rw [tau_of a b s ha]
      exact root_of_sqrt a b c s ha hs s (Or.inl rfl)
    · split at h
      · injection h with h; subst h
        rename_i hadm
        refine ⟨?_, hadm⟩
        have : b - s = b + (-s) := by grind
        rw [this, tau_of a b (-s) ha]
        exact root_of_sqrt a b c s ha hs (-s) (Or.inr rfl)
      · cases h
  · cases h

/-- G4 (completeness): transparent means that no root of the quadratic passes the test -/
theorem radialT_none (a b c inva dr mindr s : Rat) (rep : Repeat) (ha : a ≠ 0) (hinva : inva = 65536 / a)
    (hs : s * s = b * b - a * c ∨ b * b - a * c < 0) (h : radialT a b c inva dr mindr s rep = none)
    (τ : Rat) (hτ : a * τ * τ - 2 * b * τ + c = 0) : ¬ admC rep dr mindr (65536 * τ) := by
  rw [radialT_ne_zero _ _ _ _ _ _ _ _ ha] at h
  subst hinva
  split at h
  · rename_i hd
    have hs' : s * s = b * b - a * c := by
      rcases hs with h' | h'
      · exact h'
      · exact absurd hd (by grind)
    split at h
    · cases h
    · split at h
      · cases h
      · rename_i h0 h1
        rcases roots_are_the_two a b c s τ ha hs' hτ with e | e
        · have : 65536 * τ = (b + s) * (65536 / a) := by subst e; grind
          rw [this]; exact h0
        · have : 65536 * τ = (b - s) * (65536 / a) := by subst e; grind
          rw [this]; exact h1
  · rename_i hd
    exact absurd hτ (no_root_of_neg_discr a b c τ (by grind))

/-- G4 (choice): the selected parameter is the largest root passing the test.  `huniq` is only
    needed when `a < 0` (one circle inside the other): there the two roots cannot both be
    admissible unless they coincide — see `contained_roots_coincide`. -/
theorem radialT_largest (a b c inva dr mindr s t : Rat) (rep : Repeat) (ha : a ≠ 0) (hinva : inva = 65536 / a)
    (hs : s * s = b * b - a * c) (hs0 : 0 ≤ s)
    (huniq : a < 0 → admC rep dr mindr ((b + s) * inva) → admC rep dr mindr ((b - s) * inva) → s = 0)
    (h : radialT a b c inva dr mindr s rep = some t)
    (τ : Rat) (hτ : a * τ * τ - 2 * b * τ + c = 0) (hadm : admC rep dr mindr (65536 * τ)) : 65536 * τ ≤ t := by
  rw [radialT_ne_zero _ _ _ _ _ _ _ _ ha] at h
  have e0 : ∀ σ : Rat, 65536 * ((b + σ) / a) = (b + σ) * (65536 / a) := by intro σ; grind
  have e1 : 65536 * ((b - s) / a) = (b - s) * (65536 / a) := by grind
  -- order of the two candidates
  have hord : 0 < a → (b - s) * (65536 / a) ≤ (b + s) * (65536 / a) := by
    intro hpos
    have hi : 0 < 65536 / a := by
      rw [Rat.div_def]; exact Rat.mul_pos (by decide) (Rat.inv_pos.mpr hpos)
    have : b - s ≤ b + s := by grind
    exact Rat.mul_le_mul_of_nonneg_right this (Rat.le_of_lt hi)
  subst hinva
  split at h
  · split at h
    · injection h with h; subst h
      rename_i hadm0
      rcases roots_are_the_two a b c s τ ha hs hτ with e | e
      · subst e; rw [e0 s]; exact Rat.le_refl
      · subst e
        rw [e1]
        have htri : a < 0 ∨ 0 < a := by
          rcases (Rat.le_total : a ≤ 0 ∨ 0 ≤ a) with h' | h'
          · left; grind
          · right; grind
        rcases htri with hneg | hpos
        · rw [e1] at hadm
          have := huniq hneg hadm0 hadm
          subst this
          have : b - 0 = b + 0 := by grind
          rw [this]; exact Rat.le_refl
        · exact hord hpos
    · split at h
      · injection h with h; subst h
        rename_i hadm0 hadm1
        rcases roots_are_the_two a b c s τ ha hs hτ with e | e
        · subst e; rw [e0 s] at hadm; exact absurd hadm hadm0
        · subst e; rw [e1]; exact Rat.le_refl
      · cases h
  · cases h

end Pixman.Model.Gradient

namespace Pixman.Model.Gradient

theorem sq_eq_zero {x : Rat} (h : x * x = 0) : x = 0 := by
  rcases Rat.mul_eq_zero.mp h with h | h <;> exact h

/-- `a < 0` (one circle strictly inside the other): the radii at the two roots have opposite
    signs, so both can be non-negative only if the roots coincide -/
theorem contained_roots_coincide (dx dy dr pdx pdy r1 s a b c : Rat)
    (ha : a = dx * dx + dy * dy - dr * dr) (hb : b = pdx * dx + pdy * dy + r1 * dr)
    (hc : c = pdx * pdx + pdy * pdy - r1 * r1) (hneg : a < 0) (hs : s * s = b * b - a * c)
    (h0 : 0 ≤ r1 + (b + s) / a * dr) (h1 : 0 ≤ r1 + (b - s) / a * dr) : s = 0 := by
  have ha0 : a ≠ 0 := by grind
  have hP := Rat.mul_nonneg h0 h1
  -- a · r(τ₀) · r(τ₁) = |r1 d + dr pd|²
  have key : a * ((r1 + (b + s) / a * dr) * (r1 + (b - s) / a * dr)) =
      (r1 * dx + dr * pdx) * (r1 * dx + dr * pdx) + (r1 * dy + dr * pdy) * (r1 * dy + dr * pdy) := by
    have e1 : a * ((r1 + (b + s) / a * dr) * (r1 + (b - s) / a * dr)) =
        a * r1 * r1 + 2 * b * r1 * dr + (b * b - s * s) / a * dr * dr := by grind
    rw [e1, hs]
    have e2 : (b * b - (b * b - a * c)) / a = c := by grind
    rw [e2]
    subst ha hb hc
    grind
  generalize (r1 + (b + s) / a * dr) * (r1 + (b - s) / a * dr) = P at hP key
  have hna : 0 ≤ -a := by grind
  have hle : 0 ≤ (-a) * P := Rat.mul_nonneg hna hP
  have hx := sq_nonneg (r1 * dx + dr * pdx)
  have hy := sq_nonneg (r1 * dy + dr * pdy)
  have zx : (r1 * dx + dr * pdx) * (r1 * dx + dr * pdx) = 0 := by grind
  have zy : (r1 * dy + dr * pdy) * (r1 * dy + dr * pdy) = 0 := by grind
  have ex := sq_eq_zero zx
  have ey := sq_eq_zero zy
  -- dr ≠ 0 because a < 0
  have hdr : dr ≠ 0 := by
    intro h
    have := sq_nonneg dx
    have := sq_nonneg dy
    subst ha h
    grind
  -- discr · dr² = 0
  have hd : (b * b - a * c) * (dr * dr) = 0 := by
    have e3 : b * dr = -(r1 * a) := by
      subst ha hb
      have : pdx * dx * dr = -(r1 * dx * dx) := by grind
      have : pdy * dy * dr = -(r1 * dy * dy) := by grind
      grind
    have e4 : c * (dr * dr) = r1 * r1 * a := by
      subst ha hc
      have : (dr * pdx) * (dr * pdx) = (r1 * dx) * (r1 * dx) := by grind
      have : (dr * pdy) * (dr * pdy) = (r1 * dy) * (r1 * dy) := by grind
      grind
    have : b * b * (dr * dr) = (b * dr) * (b * dr) := by grind
    grind
  have hdd : dr * dr ≠ 0 := by
    intro h; exact hdr (sq_eq_zero h)
  have : b * b - a * c = 0 := by
    rcases Rat.mul_eq_zero.mp hd with h | h
    · exact h
    · exact absurd h hdd
  rw [this] at hs
  exact sq_eq_zero hs

end Pixman.Model.Gradient

namespace Pixman.Model.Gradient

/-- `b`, `c`, `dc` of `radial_get_scanline` at the (centre-relative) point `(vx, vy)` -/
def bAt (r : Radial) (vx vy : Int) : Int := vx * r.dx + vy * r.dy + r.r1 * r.dr
def cAt (r : Radial) (vx vy : Int) : Int := vx * vx + vy * vy + (-r.r1) * r.r1
def dcAt (ux uy vx vy : Int) : Int := (2 * vx + ux) * ux + (2 * vy + uy) * uy

/-- the forward differences `b += db; c += dc; dc += ddc` reproduce `b`, `c` of every pixel exactly -/
theorem radialAffineLoop_closed (r : Radial) (f : Rat → Rat) (rep : Repeat) (ux uy : Int) :
    ∀ (n : Nat) (vx vy : Int),
      radialAffineLoop r f rep (ux * r.dx + uy * r.dy) (2 * (ux * ux + uy * uy)) n
        (bAt r vx vy) (cAt r vx vy) (dcAt ux uy vx vy) =
      (List.range n).map fun (i : Nat) =>
        radialPx r f rep ((bAt r (vx + i * ux) (vy + i * uy) : Int) : Rat) ((cAt r (vx + i * ux) (vy + i * uy) : Int) : Rat) := by
  intro n
  induction n with
  | zero => intro vx vy; simp [radialAffineLoop]
  | succ n ih =>
    intro vx vy
    have e1 : bAt r vx vy + (ux * r.dx + uy * r.dy) = bAt r (vx + ux) (vy + uy) := by unfold bAt; grind
    have e2 : cAt r vx vy + dcAt ux uy vx vy = cAt r (vx + ux) (vy + uy) := by unfold cAt dcAt; grind
    have e3 : dcAt ux uy vx vy + 2 * (ux * ux + uy * uy) = dcAt ux uy (vx + ux) (vy + uy) := by unfold dcAt; grind
    simp only [radialAffineLoop]
    rw [e1, e2, e3, ih (vx + ux) (vy + uy), List.range_succ_eq_map, List.map_cons, List.map_map]
    congr 1
    · simp
    · apply List.map_congr_left
      intro i _
      have h1 : vx + ux + (i : Int) * ux = vx + ((i + 1 : Nat) : Int) * ux := by grind
      have h2 : vy + uy + (i : Int) * uy = vy + ((i + 1 : Nat) : Int) * uy := by grind
      simp only [Function.comp, h1, h2]

end Pixman.Model.Gradient

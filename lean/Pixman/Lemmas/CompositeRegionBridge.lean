import Pixman.Lemmas.CompositeRegion
import Pixman.Props.C07
/-! How the hypothesis bundle `RegionAlgebra` of C03 is discharged from the region theorems.
    `translate` and `not_empty` come from Props/C07 as they stand (the `validate` facts are the
    hypotheses C07 still carries); the `intersect` facts are C05's. Not imported by Props/C03. -/
namespace Pixman.CompositeRegion
open Pixman.Region

theorem regionAlgebra_of
    (hinter : ∀ a b : Region, Canon a → Canon b →
      (intersect false a a b).2 = true ∧ Canon (intersect false a a b).1 ∧
      ∀ x y, (intersect false a a b).1.Mem x y ↔ a.Mem x y ∧ b.Mem x y)
    (hvmem : ∀ l : List Box, (∀ b ∈ l, goodRect b = true) →
      ∀ x y, (validateRects l).Mem x y ↔ MemL l x y)
    (hvcanon : ∀ l : List Box, (∀ b ∈ l, goodRect b = true) → 2 ≤ l.length →
      Canon (validateRects l)) : RegionAlgebra where
  intersect_ok a b ha hb := (hinter a b ha hb).1
  intersect_canon a b ha hb := (hinter a b ha hb).2.1
  intersect_mem a b ha hb := (hinter a b ha hb).2.2
  translate_canon r dx dy hr := Pixman.Props.C07.translate_canon_partial c32 (by decide) hr dx dy hvcanon
  translate_mem r dx dy hr x y := Pixman.Props.C07.translate_mem_partial c32 (by decide) hr dx dy hvmem x y
  notEmpty_iff r hr := Pixman.Props.C07.notEmpty_iff hr

end Pixman.CompositeRegion

namespace Pixman.CompositeRegion
open Pixman.Region

/-- `RegionAlgebra` holds outright: the intersect facts are `Props.C05.intersect_exact`, the
    validate facts `Props.C05.validateRects_exact`. -/
theorem regionAlgebra : RegionAlgebra :=
  regionAlgebra_of
    (fun a b ha hb => Pixman.Props.C05.intersect_exact false a a b ha hb (fun e => by cases e))
    (fun l hg => (Pixman.Props.C05.validateRects_exact l hg).2)
    (fun l hg _ => (Pixman.Props.C05.validateRects_exact l hg).1)

end Pixman.CompositeRegion

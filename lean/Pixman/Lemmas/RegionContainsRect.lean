import Pixman.Lemmas.RegionQuery
/-! Lemmas for `pixman_region_contains_rectangle` (C07): the part_in / part_out scan. -/
namespace Pixman.Region

/-- the x-tests of one loop iteration, once `p.y1 ≤ s.y < p.y2`;
    `inl` = break with the final state, `inr` = go on with the next box -/
def crBand (prect p : Box) (s1 : CRState) : CRState ⊕ CRState :=
  if p.x2 ≤ s1.x then .inr s1 else
  let s2 : CRState := if p.x1 > s1.x then { s1 with partOut := true } else s1
  if p.x1 > s1.x && s1.partIn then .inl s2 else
  let s3 : CRState := if p.x1 < prect.x2 then { s2 with partIn := true } else s2
  if p.x1 < prect.x2 && s2.partOut then .inl s3 else
  if p.x2 ≥ prect.x2 then
    let s4 : CRState := { s3 with y := p.y2 }
    if p.y2 ≥ prect.y2 then .inl s4
    else .inr { s4 with x := prect.x1 }
  else .inl { s3 with partOut := true }

/-- one loop iteration on the box `p` (after `find_box_for_y`) -/
def crStep (prect p : Box) (s : CRState) : CRState ⊕ CRState :=
  let brk1 := p.y1 > s.y && (s.partIn || p.y1 ≥ prect.y2)
  let s1 : CRState := if p.y1 > s.y then { s with partOut := true } else s
  if brk1 then .inl s1 else
  let s1 : CRState := if p.y1 > s.y then { s1 with y := p.y1 } else s1
  crBand prect p s1

/-- the loop body with the recursive call abstracted -/
def crStepK (prect p : Box) (s : CRState) (k : CRState → CRState) : CRState :=
  let brk1 := p.y1 > s.y && (s.partIn || p.y1 ≥ prect.y2)
  let s1 : CRState := if p.y1 > s.y then { s with partOut := true } else s
  if brk1 then s1 else
  let s1 : CRState := if p.y1 > s.y then { s1 with y := p.y1 } else s1
  if p.x2 ≤ s1.x then k s1 else
  let s2 : CRState := if p.x1 > s1.x then { s1 with partOut := true } else s1
  if p.x1 > s1.x && s1.partIn then s2 else
  let s3 : CRState := if p.x1 < prect.x2 then { s2 with partIn := true } else s2
  if p.x1 < prect.x2 && s2.partOut then s3 else
  if p.x2 ≥ prect.x2 then
    let s4 : CRState := { s3 with y := p.y2 }
    if p.y2 ≥ prect.y2 then s4
    else k { s4 with x := prect.x1 }
  else { s3 with partOut := true }

theorem crStepK_eq (prect p : Box) (s : CRState) (k : CRState → CRState) :
    crStepK prect p s k =
      match crStep prect p s with
      | .inl s' => s'
      | .inr s' => k s' := by
  obtain ⟨x, y, pin, pout⟩ := s
  by_cases h1 : p.y1 > y <;> by_cases h2 : p.x2 ≤ x <;> by_cases h3 : p.x1 > x <;>
    by_cases h4 : p.x1 < prect.x2 <;> by_cases h5 : p.x2 ≥ prect.x2 <;>
    by_cases h6 : p.y2 ≥ prect.y2 <;> by_cases h7 : p.y1 ≥ prect.y2 <;>
    cases pin <;> cases pout <;>
    simp [crStepK, crStep, crBand, h1, h2, h3, h4, h5, h6, h7]

/-- the loop, iteration by iteration -/
theorem containsRectLoop_succ (prect : Box) (fuel : Nat) (a : Box) (l0 : List Box)
    (s : CRState) (mono : (a :: l0).Pairwise (fun p q => p.y2 ≤ q.y2)) :
    containsRectLoop prect (fuel + 1) (a :: l0) s =
      match findBoxForY (a :: l0) s.y with
      | [] => s
      | p :: t =>
        match crStep prect p s with
        | .inl s' => s'
        | .inr s' => containsRectLoop prect fuel t s' := by
  have hl : (if a.y2 ≤ s.y then
      (a :: l0).drop (findBoxForYIdx (a :: l0).toArray s.y 0 (a :: l0).toArray.size)
      else a :: l0) = findBoxForY (a :: l0) s.y := by
    split
    · exact drop_findBoxForYIdx _ _ mono
    · next h =>
      unfold findBoxForY
      rw [List.dropWhile_cons, if_neg]
      simpa using h
  rw [containsRectLoop]
  simp only
  rw [hl]
  generalize findBoxForY (a :: l0) s.y = l'
  cases l' with
  | nil => rfl
  | cons p t =>
    simp only
    rw [← crStepK_eq]
    rfl

/-! ### what the scan knows -/

/-- the part of the query box `q` from row `y` down -/
def InQ (q : Box) (y u v : Int) : Prop := q.x1 ≤ u ∧ u < q.x2 ∧ y ≤ v ∧ v < q.y2

def AllIn (q : Box) (l : List Box) (y : Int) : Prop := ∀ u v, InQ q y u v → MemL l u v
def AnyIn (q : Box) (l : List Box) (y : Int) : Prop := ∃ u v, InQ q y u v ∧ MemL l u v

/-- the answer computed from the final state -/
def crRes (q : Box) (s : CRState) : Overlap :=
  if s.partIn then (if s.y < q.y2 then .part else .inn) else .out

def CRInv (q : Box) (s : CRState) : Prop :=
  s.x = q.x1 ∧ s.y < q.y2 ∧ ¬ (s.partIn = true ∧ s.partOut = true)

/-- "the answer will be IN" / "the answer will be OUT", seen from state `s` with `l` to go -/
def InnC (q : Box) (s : CRState) (l : List Box) : Prop := s.partOut = false ∧ AllIn q l s.y
def OutC (q : Box) (s : CRState) (l : List Box) : Prop := s.partIn = false ∧ ¬ AnyIn q l s.y

def StepSpec (q : Box) (s : CRState) (l t : List Box) (r : CRState ⊕ CRState) : Prop :=
  match r with
  | .inl s' => (crRes q s' = .inn ↔ InnC q s l) ∧ (crRes q s' = .out ↔ OutC q s l)
  | .inr s' => CRInv q s' ∧ (InnC q s' t ↔ InnC q s l) ∧ (OutC q s' t ↔ OutC q s l)

theorem stepSpec_transfer {q : Box} {s s1 : CRState} {l t : List Box} {r : CRState ⊕ CRState}
    (h1 : InnC q s1 l ↔ InnC q s l) (h2 : OutC q s1 l ↔ OutC q s l)
    (h : StepSpec q s1 l t r) : StepSpec q s l t r := by
  cases r with
  | inl s' => exact ⟨h.1.trans h1, h.2.trans h2⟩
  | inr s' => exact ⟨h.1, h.2.1.trans h1, h.2.2.trans h2⟩

theorem banded_tail_mem {p : Box} {t : List Box} (hb : Banded (p :: t)) {u v : Int}
    (m : MemL t u v) : p.y1 ≤ v ∧ (p.y2 ≤ v ∨ p.x2 < u) := by
  obtain ⟨b, hbt, m1, m2, m3, m4⟩ := m
  have hg := hb.2 p (List.mem_cons_self ..)
  rcases banded_head hb b hbt with h | h
  · exact ⟨by omega, .inr (by omega)⟩
  · exact ⟨by omega, .inl (by omega)⟩

section facts
variable {q p : Box} {t : List Box} {Y : Int}

theorem cr_skip (h : ∀ u v, InQ q Y u v → ¬ p.Mem u v) :
    (AllIn q (p :: t) Y ↔ AllIn q t Y) ∧ (AnyIn q (p :: t) Y ↔ AnyIn q t Y) := by
  constructor
  · constructor
    · intro ha u v hq
      rcases (memL_cons ..).1 (ha u v hq) with m | m
      · exact absurd m (h u v hq)
      · exact m
    · intro ha u v hq
      exact (memL_cons ..).2 (.inr (ha u v hq))
  · constructor
    · rintro ⟨u, v, hq, m⟩
      rcases (memL_cons ..).1 m with m | m
      · exact absurd m (h u v hq)
      · exact ⟨u, v, hq, m⟩
    · rintro ⟨u, v, hq, m⟩
      exact ⟨u, v, hq, (memL_cons ..).2 (.inr m)⟩

theorem cr_F1 (hx : p.x2 ≤ q.x1) :
    (AllIn q (p :: t) Y ↔ AllIn q t Y) ∧ (AnyIn q (p :: t) Y ↔ AnyIn q t Y) := by
  apply cr_skip
  rintro u v ⟨_, _, _, _⟩ ⟨_, _, _, _⟩
  omega

theorem cr_F2 (hb : Banded (p :: t)) (h2 : Y < p.y2) (hq : q.x1 < q.x2) (hY : Y < q.y2)
    (hx : p.x1 > q.x1) : ¬ AllIn q (p :: t) Y := by
  intro ha
  have hg := hb.2 p (List.mem_cons_self ..)
  rcases (memL_cons ..).1 (ha q.x1 Y ⟨Int.le_refl _, hq, Int.le_refl _, hY⟩) with m | m
  · obtain ⟨_, _, _, _⟩ := m; omega
  · have := banded_tail_mem hb m; omega

theorem cr_F3 (hg : p.x1 < p.x2) (h1 : p.y1 ≤ Y) (h2 : Y < p.y2) (hq : q.x1 < q.x2) (hY : Y < q.y2)
    (hx : p.x1 < q.x2) (hx' : q.x1 < p.x2) : AnyIn q (p :: t) Y := by
  by_cases hc : p.x1 ≤ q.x1
  · exact ⟨q.x1, Y, ⟨Int.le_refl _, hq, Int.le_refl _, hY⟩, (memL_cons ..).2
      (.inl ⟨hc, hx', h1, h2⟩)⟩
  · exact ⟨p.x1, Y, ⟨by omega, hx, Int.le_refl _, hY⟩, (memL_cons ..).2
      (.inl ⟨Int.le_refl _, by omega, h1, h2⟩)⟩

theorem cr_F4 (h1 : p.y1 ≤ Y) (hx : p.x1 ≤ q.x1) (hx' : q.x2 ≤ p.x2) (hy : q.y2 ≤ p.y2) :
    AllIn q (p :: t) Y := by
  rintro u v ⟨_, _, _, _⟩
  exact (memL_cons ..).2 (.inl ⟨by omega, by omega, by omega, by omega⟩)

theorem cr_F5 (h1 : p.y1 ≤ Y) (h2 : Y < p.y2) (hx : p.x1 ≤ q.x1) (hx' : q.x2 ≤ p.x2) :
    AllIn q (p :: t) Y ↔ AllIn q t p.y2 := by
  constructor
  · rintro ha u v ⟨a1, a2, a3, a4⟩
    rcases (memL_cons ..).1 (ha u v ⟨a1, a2, by omega, a4⟩) with m | m
    · obtain ⟨_, _, _, _⟩ := m; omega
    · exact m
  · rintro ha u v ⟨a1, a2, a3, a4⟩
    by_cases hv : v < p.y2
    · exact (memL_cons ..).2 (.inl ⟨by omega, by omega, by omega, hv⟩)
    · exact (memL_cons ..).2 (.inr (ha u v ⟨a1, a2, by omega, a4⟩))

theorem cr_F6 (hb : Banded (p :: t)) (hx : q.x2 ≤ p.x1) (hy : q.y2 ≤ p.y2) :
    ¬ AnyIn q (p :: t) Y := by
  have hg := hb.2 p (List.mem_cons_self ..)
  rintro ⟨u, v, ⟨a1, a2, a3, a4⟩, m⟩
  rcases (memL_cons ..).1 m with m | m
  · obtain ⟨_, _, _, _⟩ := m; omega
  · have := banded_tail_mem hb m; omega

theorem cr_F7 (hb : Banded (p :: t)) (h2 : Y < p.y2) (hx : q.x2 ≤ p.x1) :
    AnyIn q (p :: t) Y ↔ AnyIn q t p.y2 := by
  have hg := hb.2 p (List.mem_cons_self ..)
  constructor
  · rintro ⟨u, v, ⟨a1, a2, a3, a4⟩, m⟩
    rcases (memL_cons ..).1 m with m | m
    · obtain ⟨_, _, _, _⟩ := m; omega
    · have := banded_tail_mem hb m
      exact ⟨u, v, ⟨a1, a2, by omega, a4⟩, m⟩
  · rintro ⟨u, v, ⟨a1, a2, a3, a4⟩, m⟩
    exact ⟨u, v, ⟨a1, a2, by omega, a4⟩, (memL_cons ..).2 (.inr m)⟩

theorem cr_F8 (hb : Banded (p :: t)) (h2 : Y < p.y2) (hY : Y < q.y2)
    (hx : q.x1 < p.x2) (hx' : p.x2 < q.x2) : ¬ AllIn q (p :: t) Y := by
  intro ha
  rcases (memL_cons ..).1 (ha p.x2 Y ⟨by omega, hx', Int.le_refl _, hY⟩) with m | m
  · obtain ⟨_, _, _, _⟩ := m; omega
  · have := banded_tail_mem hb m; omega

/-- a band starting below row `Y`: rows `[Y, p.y1)` are uncovered -/
theorem cr_above (hb : Banded (p :: t)) (h1 : Y < p.y1) (hq : q.x1 < q.x2) (hY : Y < q.y2) :
    ¬ AllIn q (p :: t) Y ∧ (p.y1 < q.y2 → (AnyIn q (p :: t) Y ↔ AnyIn q (p :: t) p.y1)) ∧
      (q.y2 ≤ p.y1 → ¬ AnyIn q (p :: t) Y) := by
  have hlow : ∀ u v, MemL (p :: t) u v → p.y1 ≤ v := by
    intro u v m
    rcases (memL_cons ..).1 m with m | m
    · exact m.2.2.1
    · exact (banded_tail_mem hb m).1
  refine ⟨?_, ?_, ?_⟩
  · intro ha
    have := hlow _ _ (ha q.x1 Y ⟨Int.le_refl _, hq, Int.le_refl _, hY⟩)
    omega
  · intro _
    constructor
    · rintro ⟨u, v, ⟨a1, a2, a3, a4⟩, m⟩
      exact ⟨u, v, ⟨a1, a2, hlow _ _ m, a4⟩, m⟩
    · rintro ⟨u, v, ⟨a1, a2, a3, a4⟩, m⟩
      exact ⟨u, v, ⟨a1, a2, by omega, a4⟩, m⟩
  · rintro h ⟨u, v, ⟨a1, a2, a3, a4⟩, m⟩
    have := hlow _ _ m
    omega

end facts

/-! ### one iteration -/

theorem crBand_spec {q p : Box} {t : List Box} (s : CRState) (hb : Banded (p :: t))
    (h1 : p.y1 ≤ s.y) (h2 : s.y < p.y2) (hq : q.x1 < q.x2) (hi : CRInv q s) :
    StepSpec q s (p :: t) t (crBand q p s) := by
  obtain ⟨x, Y, pin, pout⟩ := s
  obtain ⟨hx, hY, hnb⟩ := hi
  simp only at hx hY hnb h1 h2
  subst hx
  have hg := hb.2 p (List.mem_cons_self ..)
  by_cases c1 : p.x2 ≤ q.x1
  · -- not far enough over yet
    have e : crBand q p ⟨q.x1, Y, pin, pout⟩ = .inr ⟨q.x1, Y, pin, pout⟩ := by
      simp [crBand, c1]
    rw [e]
    have f := cr_F1 (q := q) (p := p) (t := t) (Y := Y) c1
    exact ⟨⟨rfl, hY, hnb⟩, by simp only [InnC, f.1], by simp only [OutC, f.2]⟩
  · have c1' : q.x1 < p.x2 := by omega
    by_cases c2 : p.x1 > q.x1
    · have nall := cr_F2 hb h2 hq hY c2
      cases pin with
      | true =>
        have e : crBand q p ⟨q.x1, Y, true, pout⟩ = .inl ⟨q.x1, Y, true, true⟩ := by
          simp [crBand, c1, c2]
        rw [e]
        simp [StepSpec, crRes, InnC, OutC, hY, nall]
      | false =>
        by_cases c3 : p.x1 < q.x2
        · have e : crBand q p ⟨q.x1, Y, false, pout⟩ = .inl ⟨q.x1, Y, true, true⟩ := by
            simp [crBand, c1, c2, c3]
          rw [e]
          have any := cr_F3 (t := t) hg.1 h1 h2 hq hY c3 c1'
          simp [StepSpec, crRes, InnC, OutC, hY, nall, any]
        · have c4 : p.x2 ≥ q.x2 := by omega
          by_cases c5 : p.y2 ≥ q.y2
          · have e : crBand q p ⟨q.x1, Y, false, pout⟩ = .inl ⟨q.x1, p.y2, false, true⟩ := by
              simp [crBand, c1, c2, c3, c4, c5]
            rw [e]
            have nany := cr_F6 (q := q) (Y := Y) hb (by omega) c5
            simp [StepSpec, crRes, InnC, OutC, nall, nany]
          · have e : crBand q p ⟨q.x1, Y, false, pout⟩ = .inr ⟨q.x1, p.y2, false, true⟩ := by
              simp [crBand, c1, c2, c3, c4, c5]
            rw [e]
            have f := cr_F7 (q := q) hb h2 (by omega)
            refine ⟨⟨rfl, by simp only; omega, by simp⟩, ?_, ?_⟩
            · simp [InnC, nall]
            · simp [OutC, f]
    · have c3 : p.x1 < q.x2 := by omega
      have any := cr_F3 (t := t) hg.1 h1 h2 hq hY c3 c1'
      cases pout with
      | true =>
        have e : crBand q p ⟨q.x1, Y, pin, true⟩ = .inl ⟨q.x1, Y, true, true⟩ := by
          simp [crBand, c1, c2, c3]
        rw [e]
        simp [StepSpec, crRes, InnC, OutC, hY, any]
      | false =>
        by_cases c4 : p.x2 ≥ q.x2
        · by_cases c5 : p.y2 ≥ q.y2
          · have e : crBand q p ⟨q.x1, Y, pin, false⟩ = .inl ⟨q.x1, p.y2, true, false⟩ := by
              simp [crBand, c1, c2, c3, c4, c5]
            rw [e]
            have all := cr_F4 (t := t) h1 (by omega) c4 c5
            have : ¬ p.y2 < q.y2 := by omega
            simp [StepSpec, crRes, InnC, OutC, this, all, any]
          · have e : crBand q p ⟨q.x1, Y, pin, false⟩ = .inr ⟨q.x1, p.y2, true, false⟩ := by
              simp [crBand, c1, c2, c3, c4, c5]
            rw [e]
            have f := cr_F5 (t := t) h1 h2 (q := q) (by omega) c4
            refine ⟨⟨rfl, by simp only; omega, by simp⟩, ?_, ?_⟩
            · simp [InnC, f]
            · simp [OutC, any]
        · have e : crBand q p ⟨q.x1, Y, pin, false⟩ = .inl ⟨q.x1, Y, true, true⟩ := by
            simp [crBand, c1, c2, c3, c4]
          rw [e]
          have nall := cr_F8 hb h2 hY c1' (by omega)
          simp [StepSpec, crRes, InnC, OutC, hY, nall, any]

theorem crStep_spec {q p : Box} {t : List Box} (s : CRState) (hb : Banded (p :: t))
    (h2 : s.y < p.y2) (hq : q.x1 < q.x2) (hi : CRInv q s) :
    StepSpec q s (p :: t) t (crStep q p s) := by
  by_cases h1 : p.y1 ≤ s.y
  · have e : crStep q p s = crBand q p s := by
      have : ¬ p.y1 > s.y := by omega
      simp [crStep, this]
    rw [e]
    exact crBand_spec s hb h1 h2 hq hi
  · obtain ⟨x, Y, pin, pout⟩ := s
    obtain ⟨hx, hY, hnb⟩ := hi
    simp only at hx hY hnb h1 h2
    subst hx
    have h1' : p.y1 > Y := by omega
    obtain ⟨nall, any1, any2⟩ := cr_above (q := q) hb h1' hq hY
    have hg := hb.2 p (List.mem_cons_self ..)
    cases pin with
    | true =>
      have e : crStep q p ⟨q.x1, Y, true, pout⟩ = .inl ⟨q.x1, Y, true, true⟩ := by
        simp [crStep, h1']
      rw [e]
      simp [StepSpec, crRes, InnC, OutC, hY, nall]
    | false =>
      by_cases c : p.y1 ≥ q.y2
      · have e : crStep q p ⟨q.x1, Y, false, pout⟩ = .inl ⟨q.x1, Y, false, true⟩ := by
          simp [crStep, h1', c]
        rw [e]
        simp [StepSpec, crRes, InnC, OutC, nall, any2 c]
      · have e : crStep q p ⟨q.x1, Y, false, pout⟩ = crBand q p ⟨q.x1, p.y1, false, true⟩ := by
          simp [crStep, h1', c]
        rw [e]
        apply stepSpec_transfer _ _ (crBand_spec ⟨q.x1, p.y1, false, true⟩ hb (Int.le_refl _)
          hg.2 hq ⟨rfl, by simp only; omega, by simp⟩)
        · simp [InnC, nall]
        · simp [OutC, any1 (by omega)]

/-! ### the loop -/

theorem memL_findBoxForY_ge (l : List Box) {y v : Int} (hv : y ≤ v) (u : Int) :
    MemL (findBoxForY l y) u v ↔ MemL l u v := by
  unfold findBoxForY
  induction l with
  | nil => exact Iff.rfl
  | cons p t ih =>
    rw [List.dropWhile_cons]
    split
    · next hp =>
      simp only [gt_iff_lt, Bool.not_eq_eq_eq_not, Bool.not_true, decide_eq_false_iff_not,
        Int.not_lt] at hp
      rw [ih, memL_cons]
      constructor
      · exact .inr
      · rintro (m | m)
        · have := m.2.2.2; omega
        · exact m
    · exact Iff.rfl

theorem crRes_nil {q : Box} (hq : q.x1 < q.x2) {s : CRState} (hi : CRInv q s) :
    (crRes q s = .inn ↔ InnC q s []) ∧ (crRes q s = .out ↔ OutC q s []) := by
  obtain ⟨hx, hY, _⟩ := hi
  have nall : ¬ AllIn q [] s.y := fun ha =>
    memL_nil _ _ (ha q.x1 s.y ⟨Int.le_refl _, hq, Int.le_refl _, hY⟩)
  have nany : ¬ AnyIn q [] s.y := fun ⟨u, v, _, m⟩ => memL_nil _ _ m
  cases hp : s.partIn <;> simp [crRes, InnC, OutC, hp, hY, nall, nany]

theorem containsRectLoop_spec {q : Box} (hq : q.x1 < q.x2) :
    ∀ (fuel : Nat) (l : List Box) (s : CRState), Banded l → l.length < fuel → CRInv q s →
      (crRes q (containsRectLoop q fuel l s) = .inn ↔ InnC q s l) ∧
      (crRes q (containsRectLoop q fuel l s) = .out ↔ OutC q s l)
  | 0, _, _, _, hf, _ => by omega
  | fuel + 1, [], s, _, _, hi => by
    rw [show containsRectLoop q (fuel + 1) [] s = s by simp [containsRectLoop]]
    exact crRes_nil hq hi
  | fuel + 1, a :: l0, s, hb, hf, hi => by
    rw [containsRectLoop_succ q fuel a l0 s (banded_y2_mono hb)]
    have hbl := findBoxForY_banded hb s.y
    have hgt := findBoxForY_gt hb s.y
    have hlen : (findBoxForY (a :: l0) s.y).length ≤ (a :: l0).length :=
      (List.dropWhile_sublist _).length_le
    have hall : AllIn q (findBoxForY (a :: l0) s.y) s.y ↔ AllIn q (a :: l0) s.y := by
      constructor
      · intro h u v hq'; exact (memL_findBoxForY_ge _ hq'.2.2.1 u).1 (h u v hq')
      · intro h u v hq'; exact (memL_findBoxForY_ge _ hq'.2.2.1 u).2 (h u v hq')
    have hany : AnyIn q (findBoxForY (a :: l0) s.y) s.y ↔ AnyIn q (a :: l0) s.y := by
      constructor
      · rintro ⟨u, v, hq', m⟩; exact ⟨u, v, hq', (memL_findBoxForY_ge _ hq'.2.2.1 u).1 m⟩
      · rintro ⟨u, v, hq', m⟩; exact ⟨u, v, hq', (memL_findBoxForY_ge _ hq'.2.2.1 u).2 m⟩
    have hI : InnC q s (findBoxForY (a :: l0) s.y) ↔ InnC q s (a :: l0) := by
      simp only [InnC, hall]
    have hO : OutC q s (findBoxForY (a :: l0) s.y) ↔ OutC q s (a :: l0) := by
      simp only [OutC, hany]
    revert hbl hgt hlen hI hO
    generalize findBoxForY (a :: l0) s.y = l'
    intro hbl hgt hlen hI hO
    cases l' with
    | nil =>
      have := crRes_nil hq hi
      exact ⟨this.1.trans hI, this.2.trans hO⟩
    | cons p t =>
      have hs := crStep_spec s hbl (hgt p (List.mem_cons_self ..)) hq hi
      dsimp only
      revert hs
      cases crStep q p s with
      | inl s' =>
        intro hs
        exact ⟨hs.1.trans hI, hs.2.trans hO⟩
      | inr s' =>
        intro hs
        obtain ⟨hi', h1, h2⟩ := hs
        have ih := containsRectLoop_spec hq fuel t s' (banded_tail hbl)
          (by simp only [List.length_cons] at hlen hf; omega) hi'
        exact ⟨ih.1.trans (h1.trans hI), ih.2.trans (h2.trans hO)⟩

/-! ### contains_rectangle -/

theorem extentCheck_iff (e q : Box) :
    extentCheck e q = true ↔ (e.x1 < q.x2 ∧ q.x1 < e.x2 ∧ e.y1 < q.y2 ∧ q.y1 < e.y2) := by
  simp only [extentCheck, Bool.not_eq_true', Bool.or_eq_false_iff, decide_eq_false_iff_not,
    Int.not_le, ge_iff_le]
  omega

theorem subsumes_iff (e q : Box) :
    subsumes e q = true ↔ (e.x1 ≤ q.x1 ∧ q.x2 ≤ e.x2 ∧ e.y1 ≤ q.y1 ∧ q.y2 ≤ e.y2) := by
  simp only [subsumes, Bool.and_eq_true, decide_eq_true_eq, ge_iff_le]
  omega

/-- `contains_rectangle` on a canonical region and a non-empty query box -/
theorem containsRectangle_spec {r : Region} (h : Canon r) {q : Box} (hq : goodRect q = true) :
    (containsRectangle r q = .inn ↔ ∀ x y, q.Mem x y → r.Mem x y) ∧
    (containsRectangle r q = .out ↔ ∀ x y, q.Mem x y → ¬ r.Mem x y) := by
  simp only [goodRect, Bool.and_eq_true, decide_eq_true_eq] at hq
  obtain ⟨hqx, hqy⟩ := hq
  obtain ⟨e, d⟩ := r
  cases d with
  | broken => exact h.elim
  | emptyStatic =>
    have e1 : containsRectangle ⟨e, .emptyStatic⟩ q = .out := by
      simp [containsRectangle, Region.numRects, Region.rects]
    rw [e1]
    constructor
    · simp only [reduceCtorEq, false_iff]
      intro ha
      obtain ⟨b, hb, _⟩ := ha q.x1 q.y1 ⟨Int.le_refl _, hqx, Int.le_refl _, hqy⟩
      cases hb
    · simp only [true_iff]
      rintro x y _ ⟨b, hb, _⟩
      cases hb
  | single =>
    have hg : e.x1 < e.x2 ∧ e.y1 < e.y2 := by
      simpa [Canon, goodRect] using h
    have hm : ∀ x y, (⟨e, .single⟩ : Region).Mem x y ↔ e.Mem x y := by
      intro x y
      simp [Region.Mem, Region.rects, MemL]
    simp only [hm]
    by_cases hc : extentCheck e q = true
    · have hc' := (extentCheck_iff e q).1 hc
      -- a common point
      have hpt : ∃ x y, q.Mem x y ∧ e.Mem x y := by
        refine ⟨if q.x1 ≤ e.x1 then e.x1 else q.x1, if q.y1 ≤ e.y1 then e.y1 else q.y1, ?_, ?_⟩
        · unfold Box.Mem; split <;> split <;> omega
        · unfold Box.Mem; split <;> split <;> omega
      by_cases hs : subsumes e q = true
      · have e1 : containsRectangle ⟨e, .single⟩ q = .inn := by
          simp [containsRectangle, Region.numRects, Region.rects, hc, hs]
        have hs' := (subsumes_iff e q).1 hs
        rw [e1]
        constructor
        · simp only [true_iff]
          rintro x y ⟨_, _, _, _⟩
          exact ⟨by omega, by omega, by omega, by omega⟩
        · simp only [reduceCtorEq, false_iff]
          intro hn
          obtain ⟨x, y, m1, m2⟩ := hpt
          exact hn x y m1 m2
      · have e1 : containsRectangle ⟨e, .single⟩ q = .part := by
          simp [containsRectangle, Region.numRects, Region.rects, hc, hs]
        rw [e1]
        constructor
        · simp only [reduceCtorEq, false_iff]
          intro ha
          apply hs
          rw [subsumes_iff]
          have a1 := ha q.x1 q.y1 ⟨Int.le_refl _, hqx, Int.le_refl _, hqy⟩
          have a2 := ha (q.x2 - 1) (q.y2 - 1) ⟨by omega, by omega, by omega, by omega⟩
          obtain ⟨_, _, _, _⟩ := a1
          obtain ⟨_, _, _, _⟩ := a2
          omega
        · simp only [reduceCtorEq, false_iff]
          intro hn
          obtain ⟨x, y, m1, m2⟩ := hpt
          exact hn x y m1 m2
    · have e1 : containsRectangle ⟨e, .single⟩ q = .out := by
        simp [containsRectangle, Region.numRects, Region.rects, hc]
      rw [e1]
      rw [extentCheck_iff] at hc
      constructor
      · simp only [reduceCtorEq, false_iff]
        intro ha
        have a1 := ha q.x1 q.y1 ⟨Int.le_refl _, hqx, Int.le_refl _, hqy⟩
        have a2 := ha (q.x2 - 1) (q.y2 - 1) ⟨by omega, by omega, by omega, by omega⟩
        obtain ⟨_, _, _, _⟩ := a1
        obtain ⟨_, _, _, _⟩ := a2
        omega
      · simp only [true_iff]
        rintro x y ⟨_, _, _, _⟩ ⟨_, _, _, _⟩
        omega
  | heap l =>
    obtain ⟨hlen, hcl, hbb⟩ := h
    have hbd := canonList_banded hcl
    simp only at hbb
    have h0 : (l.length == 0) = false := by rw [beq_eq_false_iff_ne]; omega
    have h1 : (l.length == 1) = false := by rw [beq_eq_false_iff_ne]; omega
    have hm : ∀ x y, (⟨e, .heap l⟩ : Region).Mem x y ↔ MemL l x y := fun _ _ => Iff.rfl
    simp only [hm]
    by_cases hc : extentCheck e q = true
    · have e1 : containsRectangle ⟨e, .heap l⟩ q =
          crRes q (containsRectLoop q (l.length + 1) l ⟨q.x1, q.y1, false, false⟩) := by
        simp only [containsRectangle, Region.numRects, Region.rects, h0, h1, hc]
        rfl
      rw [e1]
      have := containsRectLoop_spec hqx (l.length + 1) l ⟨q.x1, q.y1, false, false⟩ hbd
        (by omega) ⟨rfl, hqy, by simp⟩
      rw [this.1, this.2]
      simp only [InnC, OutC, AllIn, AnyIn, InQ, true_and]
      constructor
      · constructor
        · rintro ha x y ⟨m1, m2, m3, m4⟩; exact ha x y ⟨m1, m2, m3, m4⟩
        · rintro ha x y ⟨m1, m2, m3, m4⟩; exact ha x y ⟨m1, m2, m3, m4⟩
      · constructor
        · rintro hn x y ⟨m1, m2, m3, m4⟩ m; exact hn ⟨x, y, ⟨m1, m2, m3, m4⟩, m⟩
        · rintro hn ⟨x, y, ⟨m1, m2, m3, m4⟩, m⟩; exact hn x y ⟨m1, m2, m3, m4⟩ m
    · have e1 : containsRectangle ⟨e, .heap l⟩ q = .out := by
        simp [containsRectangle, Region.numRects, Region.rects, hc]
      rw [e1]
      rw [extentCheck_iff] at hc
      obtain ⟨x0, y0, hp0⟩ := canonList_point hcl (by intro hn; rw [hn] at hlen; simp at hlen)
      constructor
      · simp only [reduceCtorEq, false_iff]
        intro ha
        have a1 := isBBox_mem hbb (ha q.x1 q.y1 ⟨Int.le_refl _, hqx, Int.le_refl _, hqy⟩)
        have a2 := isBBox_mem hbb
          (ha (q.x2 - 1) (q.y2 - 1) ⟨by omega, by omega, by omega, by omega⟩)
        obtain ⟨_, _, _, _⟩ := a1
        obtain ⟨_, _, _, _⟩ := a2
        omega
      · simp only [true_iff]
        rintro x y ⟨_, _, _, _⟩ m
        obtain ⟨_, _, _, _⟩ := isBBox_mem hbb m
        omega

end Pixman.Region

import Pixman.Model.Alloc
import Pixman.Lemmas.ExtentPad
/-! helper arithmetic for the `a >= LIMIT / b` overflow tests -/
namespace Pixman.Lemmas.ExtentAlloc
open Pixman.Model.Alloc Pixman.Lemmas.ExtentPad

/-- `a < M / b` (the test did NOT fire) ⇒ `a·b + b ≤ M`: the product is at least `b` below the limit -/
theorem lt_div_mul (a b M : Int) (hb : 0 < b) (h : a < M / b) : a * b + b ≤ M := by
  have h1 := (ediv_bounds M b hb).1
  have h2 : (a + 1) * b ≤ (M / b) * b := Int.mul_le_mul_of_nonneg_right (by omega) (by omega)
  rw [Int.add_mul, Int.one_mul] at h2
  omega

/-- `a ≥ M / b` (the test fired) ⇒ `a·b > M - b`: nothing that fits comfortably is refused -/
theorem ge_div_mul (a b M : Int) (hb : 0 < b) (h : a ≥ M / b) : M < a * b + b := by
  have h1 := (ediv_bounds M b hb).2
  have h2 : (M / b) * b ≤ a * b := Int.mul_le_mul_of_nonneg_right h (by omega)
  omega

theorem wrapU32_of_range (x : Int) (h : 0 ≤ x ∧ x < 4294967296) : wrapU32 x = x := by
  unfold wrapU32; omega
theorem wrapI32_of_range (x : Int) (h : -2147483648 ≤ x ∧ x ≤ 2147483647) : wrapI32 x = x := by
  unfold wrapI32; omega

end Pixman.Lemmas.ExtentAlloc

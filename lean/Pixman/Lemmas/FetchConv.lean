import Pixman.Model.Fetch
import Pixman.Spec.Sampling
import Pixman.Lemmas.FetchBits
import Pixman.Lemmas.Matrix
/-! C08: accumulate / reduce of the convolution filters. -/
namespace Pixman.Lemmas.FetchConv
open Pixman.Sample Pixman.Matrix Pixman.Model.Fetch Pixman.Lemmas.FetchBits
open Pixman.Spec.Sampling (reduceChannel)

/-- one channel of `reduce_32` on a total that, read as a signed 32-bit number plus the rounding
    constant, does not wrap: round to nearest (ties up), then clamp — in particular a negative
    total gives 0 (the repair 151778e) -/
theorem reduceChan_spec (tot : Int) (h : -2147483648 ≤ tot + 32768 ∧ tot + 32768 ≤ 2147483647) :
    reduceChan (wrapU32 tot) = reduceChannel tot := by
  have e : wrapS32 (wrapU32 tot + 32768) = tot + 32768 := by
    unfold wrapS32 wrapU32
    have : (tot % 4294967296 + 32768 + 2147483648) % 4294967296 = (tot + 32768 + 2147483648) % 4294967296 := by
      rw [Int.add_assoc, Int.emod_add_emod, ← Int.add_assoc]
    rw [this]
    omega
  unfold reduceChan reduceChannel CLIP
  rw [e]

theorem wrapU32_add (s c : Int) : wrapU32 (wrapU32 s + c) = wrapU32 (s + c) := by
  unfold wrapU32; exact Int.emod_add_emod s 4294967296 c

/-- generic relational invariant for `foldl` -/
theorem foldl_rel {α β γ : Type} (R : β → γ → Prop) (f : β → α → β) (g : γ → α → γ) (l : List α)
    (h : ∀ b c a, R b c → R (f b a) (g c a)) (b0 : β) (c0 : γ) (h0 : R b0 c0) :
    R (l.foldl f b0) (l.foldl g c0) := by
  induction l generalizing b0 c0 with
  | nil => exact h0
  | cons a t ih => exact ih _ _ (h _ _ _ h0)

/-- the totals after accumulating a constant pixel `p` with total weight `s` -/
def constAcc (p : Nat) (s : Int) : Acc :=
  ⟨wrapU32 (ALPHA_8 p * s), wrapU32 (RED_8 p * s), wrapU32 (GREEN_8 p * s), wrapU32 (BLUE_8 p * s)⟩

theorem accum32_const (p : Nat) (s f : Int) : accum32 (constAcc p s) p f = constAcc p (s + f) := by
  unfold accum32 constAcc
  simp only [wrapU32_add, Int.mul_add]

theorem chan_bounds (p : Nat) (hp : p < 4294967296) :
    (0 ≤ ALPHA_8 p ∧ ALPHA_8 p ≤ 255) ∧ (0 ≤ RED_8 p ∧ RED_8 p ≤ 255) ∧
    (0 ≤ GREEN_8 p ∧ GREEN_8 p ≤ 255) ∧ (0 ≤ BLUE_8 p ∧ BLUE_8 p ≤ 255) := by
  unfold ALPHA_8 RED_8 GREEN_8 BLUE_8
  simp only [Nat.shiftRight_eq_div_pow, and_255, Nat.reducePow]
  omega

theorem reduceChan_unit (c : Int) (h : 0 ≤ c ∧ c ≤ 255) : reduceChan (wrapU32 (c * 65536)) = c := by
  rw [reduceChan_spec _ (by omega)]
  unfold reduceChannel
  have : (c * 65536 + 32768) / 65536 = c := by omega
  rw [this]
  simp only
  split <;> (try split) <;> omega

/-- total weight 1.0 reproduces the pixel -/
theorem reduce32_const (p : Nat) (hp : p < 4294967296) : reduce32 (constAcc p 65536) = p := by
  obtain ⟨ha, hr, hg, hb⟩ := chan_bounds p hp
  unfold reduce32 constAcc
  simp only
  rw [reduceChan_unit _ ha, reduceChan_unit _ hr, reduceChan_unit _ hg, reduceChan_unit _ hb]
  unfold ALPHA_8 RED_8 GREEN_8 BLUE_8
  simp only [Int.toNat_natCast, Nat.shiftRight_eq_div_pow, Nat.shiftLeft_eq, and_255, Nat.reducePow]
  have e1 := or_disjoint (p / 256 % 256) (p % 256) 8 (by simp only [Nat.reducePow]; omega)
  have e2 := or_disjoint (p / 65536 % 256) (p / 256 % 256 * 256 + p % 256) 16 (by simp only [Nat.reducePow]; omega)
  have e3 := or_disjoint (p / 16777216) (p / 65536 % 256 * 65536 + (p / 256 % 256 * 256 + p % 256)) 24 (by simp only [Nat.reducePow]; omega)
  simp only [Nat.reducePow] at e1 e2 e3
  rw [Nat.or_assoc, Nat.or_assoc, e1, e2, e3]
  omega


/-! ### constant images -/

theorem tap_const (b : Bits) (p : Nat) (hconst : ∀ i j, b.fetch i j = p) (hrep : b.rep ≠ .none) (x y : Int) :
    tap b x y = p := by
  unfold tap getPixel
  simp [hrep, hconst]

theorem constAcc_zero (p : Nat) : (⟨0, 0, 0, 0⟩ : Acc) = constAcc p 0 := by
  unfold constAcc wrapU32; simp

theorem accumTap_const (b : Bits) (p : Nat) (hconst : ∀ i j, b.fetch i j = p) (hrep : b.rep ≠ .none)
    (s rx ry f : Int) : accumTap b (constAcc p s) rx ry f = constAcc p (s + f) := by
  unfold accumTap
  split
  · rw [tap_const b p hconst hrep, accum32_const]
  · rename_i h
    have : f = 0 := by omega
    rw [this, Int.add_zero]

/-- sum of the coefficients of a CONVOLUTION kernel `params = [w·65536, h·65536, k_00, k_01, …]` -/
def kernelSum (params : List Int) : Int :=
  let cwidth := fixedToInt (param params 0)
  let cheight := fixedToInt (param params 1)
  (List.range cheight.toNat).foldl (fun s (i : Nat) =>
    (List.range cwidth.toNat).foldl (fun s (j : Nat) => s + param params (2 + (i : Int) * cwidth + j)) s) 0

theorem fetchConvolution_const (b : Bits) (p : Nat) (x y : Int) (hp : p < 4294967296)
    (hconst : ∀ i j, b.fetch i j = p) (hrep : b.rep ≠ .none) (hsum : kernelSum b.params = 65536) :
    fetchConvolution b x y = p := by
  unfold fetchConvolution
  simp only
  have key := foldl_rel (fun (acc : Acc) (s : Int) => acc = constAcc p s)
    (fun acc (i : Nat) =>
      (List.range (fixedToInt (param b.params 0)).toNat).foldl (fun acc (j : Nat) =>
        accumTap b acc (convOrigin (param b.params 0) x + j) (convOrigin (param b.params 1) y + i)
          (param b.params (2 + (i : Int) * fixedToInt (param b.params 0) + j))) acc)
    (fun s (i : Nat) =>
      (List.range (fixedToInt (param b.params 0)).toNat).foldl (fun s (j : Nat) =>
        s + param b.params (2 + (i : Int) * fixedToInt (param b.params 0) + j)) s)
    (List.range (fixedToInt (param b.params 1)).toNat)
    (by
      intro acc s i hR
      exact foldl_rel (fun (acc : Acc) (s : Int) => acc = constAcc p s) _ _ _
        (by intro acc s j hR; rw [hR]; exact accumTap_const b p hconst hrep _ _ _ _) acc s hR)
    ⟨0, 0, 0, 0⟩ 0 (constAcc_zero p)
  rw [key]
  have : kernelSum b.params = 65536 := hsum
  unfold kernelSum at this
  simp only at this
  rw [this]
  exact reduce32_const p hp

/-- sum of the products `(fy·fx + 0x8000) >> 16` of the phase `(px, py)` of a separable filter -/
def sepKernelSum (params : List Int) (px py : Int) : Int :=
  let cwidth := fixedToInt (param params 0)
  let cheight := fixedToInt (param params 1)
  let xbits := fixedToInt (param params 2)
  let yBase := 4 + (2 ^ xbits.toNat : Int) * cwidth + py * cheight
  let xBase := 4 + px * cwidth
  (List.range cheight.toNat).foldl (fun s (i : Nat) =>
    (List.range cwidth.toNat).foldl (fun s (j : Nat) =>
      s + (if param params (yBase + i) ≠ 0 ∧ param params (xBase + j) ≠ 0
           then sepWeight (param params (yBase + i)) (param params (xBase + j)) else 0)) s) 0


theorem foldl_noop {α β : Type} (l : List α) (g : β → α → β) (h : ∀ s a, g s a = s) (s : β) :
    l.foldl g s = s := by
  induction l generalizing s with
  | nil => rfl
  | cons a t ih => rw [List.foldl_cons, h, ih]

theorem fetchSeparable_const (b : Bits) (p : Nat) (x y : Int) (hp : p < 4294967296)
    (hconst : ∀ i j, b.fetch i j = p) (hrep : b.rep ≠ .none)
    (hsum : ∀ px py, sepKernelSum b.params px py = 65536) :
    fetchSeparable b x y = p := by
  unfold fetchSeparable
  simp only
  generalize hpx : phaseIndex (phaseRound x (16 - fixedToInt (param b.params 2)).toNat) (16 - fixedToInt (param b.params 2)).toNat = px
  generalize hpy : phaseIndex (phaseRound y (16 - fixedToInt (param b.params 3)).toNat) (16 - fixedToInt (param b.params 3)).toNat = py
  generalize hx1 : convOrigin (fixedToInt (param b.params 0) * 65536) (phaseRound x (16 - fixedToInt (param b.params 2)).toNat) = x1
  generalize hy1 : convOrigin (fixedToInt (param b.params 1) * 65536) (phaseRound y (16 - fixedToInt (param b.params 3)).toNat) = y1
  have key := foldl_rel (fun (acc : Acc) (s : Int) => acc = constAcc p s)
    (fun acc (i : Nat) =>
      if param b.params (4 + (2 ^ (fixedToInt (param b.params 2)).toNat : Int) * fixedToInt (param b.params 0) + py * fixedToInt (param b.params 1) + i) ≠ 0 then
        (List.range (fixedToInt (param b.params 0)).toNat).foldl (fun acc (j : Nat) =>
          if param b.params (4 + px * fixedToInt (param b.params 0) + j) ≠ 0 then
            accum32 acc (tap b (x1 + j) (y1 + i))
              (sepWeight (param b.params (4 + (2 ^ (fixedToInt (param b.params 2)).toNat : Int) * fixedToInt (param b.params 0) + py * fixedToInt (param b.params 1) + i))
                (param b.params (4 + px * fixedToInt (param b.params 0) + j)))
          else acc) acc
      else acc)
    (fun s (i : Nat) =>
      (List.range (fixedToInt (param b.params 0)).toNat).foldl (fun s (j : Nat) =>
        s + (if param b.params (4 + (2 ^ (fixedToInt (param b.params 2)).toNat : Int) * fixedToInt (param b.params 0) + py * fixedToInt (param b.params 1) + i) ≠ 0 ∧
                param b.params (4 + px * fixedToInt (param b.params 0) + j) ≠ 0
             then sepWeight (param b.params (4 + (2 ^ (fixedToInt (param b.params 2)).toNat : Int) * fixedToInt (param b.params 0) + py * fixedToInt (param b.params 1) + i))
                    (param b.params (4 + px * fixedToInt (param b.params 0) + j)) else 0)) s)
    (List.range (fixedToInt (param b.params 1)).toNat)
    (by
      intro acc s i hR
      by_cases hfy : param b.params (4 + (2 ^ (fixedToInt (param b.params 2)).toNat : Int) * fixedToInt (param b.params 0) + py * fixedToInt (param b.params 1) + i) ≠ 0
      · simp only [ne_eq, hfy, not_false_eq_true, ↓reduceIte, true_and]
        refine foldl_rel (fun (acc : Acc) (s : Int) => acc = constAcc p s) _ _ _ ?_ acc s hR
        intro acc s j hR
        by_cases hfx : param b.params (4 + px * fixedToInt (param b.params 0) + j) ≠ 0
        · simp only [hfx, not_false_eq_true, ↓reduceIte]
          rw [hR, tap_const b p hconst hrep, accum32_const]
        · have h0 := Decidable.not_not.mp hfx
          simp only [h0, not_true_eq_false, ↓reduceIte, Int.add_zero]
          exact hR
      · have h0 := Decidable.not_not.mp hfy
        simp only [h0, ne_eq, not_true_eq_false, ↓reduceIte, false_and]
        rw [foldl_noop _ _ (by intro s a; exact Int.add_zero s)]
        exact hR)
    ⟨0, 0, 0, 0⟩ 0 (constAcc_zero p)
  rw [key]
  have := hsum px py
  unfold sepKernelSum at this
  simp only at this
  rw [this]
  exact reduce32_const p hp


/-! ### exact channel totals -/

/-- `(a << 24) | (r << 16) | (g << 8) | b` of four bytes -/
theorem or_pack4 (a r g b : Nat) (hr : r < 256) (hg : g < 256) (hb : b < 256) :
    a <<< 24 ||| r <<< 16 ||| g <<< 8 ||| b = pack4 a r g b := by
  simp only [Nat.shiftLeft_eq, Nat.reducePow]
  have e1 := or_disjoint g b 8 (by simp only [Nat.reducePow]; omega)
  have e2 := or_disjoint r (g * 256 + b) 16 (by simp only [Nat.reducePow]; omega)
  have e3 := or_disjoint a (r * 65536 + (g * 256 + b)) 24 (by simp only [Nat.reducePow]; omega)
  simp only [Nat.reducePow] at e1 e2 e3
  rw [Nat.or_assoc, Nat.or_assoc, e1, e2, e3]
  unfold pack4; omega

theorem reduceChannel_byte (t : Int) : 0 ≤ reduceChannel t ∧ reduceChannel t ≤ 255 := by
  unfold reduceChannel
  simp only
  split <;> (try split) <;> omega

def wrapAcc (e : Acc) : Acc := ⟨wrapU32 e.a, wrapU32 e.r, wrapU32 e.g, wrapU32 e.b⟩

/-- the accumulation step over ℤ (no wrap); a zero coefficient contributes nothing -/
def exactTap (b : Bits) (e : Acc) (rx ry f : Int) : Acc :=
  ⟨e.a + ALPHA_8 (tap b rx ry) * f, e.r + RED_8 (tap b rx ry) * f,
   e.g + GREEN_8 (tap b rx ry) * f, e.b + BLUE_8 (tap b rx ry) * f⟩

theorem accumTap_exact (b : Bits) (e : Acc) (rx ry f : Int) :
    accumTap b (wrapAcc e) rx ry f = wrapAcc (exactTap b e rx ry f) := by
  unfold accumTap
  split
  · unfold accum32 wrapAcc exactTap
    simp only [wrapU32_add]
  · rename_i h
    have : f = 0 := by omega
    subst this
    unfold exactTap
    simp only [Int.mul_zero, Int.add_zero]

/-- the channel totals of the CONVOLUTION filter at `(x, y)` over ℤ:
    `Σ_i Σ_j channel (pixel (k_x + j, k_y + i)) · kernel[i][j]` -/
def convTotals (b : Bits) (x y : Int) : Acc :=
  let params := b.params
  let cwidth := fixedToInt (param params 0)
  let cheight := fixedToInt (param params 1)
  (List.range cheight.toNat).foldl (fun acc (i : Nat) =>
      (List.range cwidth.toNat).foldl (fun acc (j : Nat) =>
        exactTap b acc (convOrigin (param params 0) x + j) (convOrigin (param params 1) y + i)
          (param params (2 + (i : Int) * cwidth + j))) acc)
    (⟨0, 0, 0, 0⟩ : Acc)

theorem fetchConvolution_exact (b : Bits) (x y : Int) :
    fetchConvolution b x y = reduce32 (wrapAcc (convTotals b x y)) := by
  unfold fetchConvolution convTotals
  simp only
  congr 1
  refine foldl_rel (fun (acc e : Acc) => acc = wrapAcc e) _ _ _ ?_ _ _ (by unfold wrapAcc wrapU32; simp)
  intro acc e i hR
  refine foldl_rel (fun (acc e : Acc) => acc = wrapAcc e) _ _ _ ?_ acc e hR
  intro acc e j hR
  rw [hR]
  exact accumTap_exact b e _ _ _

/-- `reduce_32` on totals that fit the signed 32-bit reading: each channel is the Spec's
    round-to-nearest-and-clamp of its own total -/
theorem reduce32_channels (e : Acc)
    (ha : -2147483648 ≤ e.a + 32768 ∧ e.a + 32768 ≤ 2147483647) (hr : -2147483648 ≤ e.r + 32768 ∧ e.r + 32768 ≤ 2147483647)
    (hg : -2147483648 ≤ e.g + 32768 ∧ e.g + 32768 ≤ 2147483647) (hb : -2147483648 ≤ e.b + 32768 ∧ e.b + 32768 ≤ 2147483647) :
    reduce32 (wrapAcc e) =
      pack4 (reduceChannel e.a).toNat (reduceChannel e.r).toNat (reduceChannel e.g).toNat (reduceChannel e.b).toNat := by
  unfold reduce32 wrapAcc
  simp only
  rw [reduceChan_spec _ ha, reduceChan_spec _ hr, reduceChan_spec _ hg, reduceChan_spec _ hb]
  have b1 := reduceChannel_byte e.r
  have b2 := reduceChannel_byte e.g
  have b3 := reduceChannel_byte e.b
  exact or_pack4 _ _ _ _ (by omega) (by omega) (by omega)

end Pixman.Lemmas.FetchConv

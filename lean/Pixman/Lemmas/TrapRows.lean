import Pixman.Model.Trap
import Pixman.Spec.SampleGrid
import Pixman.Lemmas.Trap
import Pixman.Lemmas.TrapRow
import Pixman.Lemmas.TrapFill
/-! Lemmas for C12, R3 continued: the row loops of `rasterize_edges_N` over all sample rows
    (`edgesLoop`, `edgesLoop8`, `edgesLoop8Naive`, `walkRows`).
    The property theorems are restated in `Pixman/Props/C12.lean`. -/
namespace Pixman.Lemmas.TrapRows
open Pixman.Trap
open Pixman.Gen.SampleGrid
open Pixman.Spec.SampleGrid
open Pixman.Lemmas.Trap
open Pixman.Lemmas.TrapRow
open Pixman.Lemmas.TrapFill

/-- the depths the rasteriser supports -/
def Depth (n : Nat) : Prop := n = 1 ∨ n = 4 ∨ n = 8

/-! ### the grid rows and the stepping `y += STEP_Y_SMALL / STEP_Y_BIG` -/

theorem isGridRow_iff (n : Nat) (hn : Depth n) (y : Int) :
    IsGridRow n y ↔ (yFracFirst n ≤ y % 65536 ∧ y % 65536 ≤ yFracLast n ∧ (y % 65536 - yFracFirst n) % stepYSmall n = 0) := by
  constructor
  · rintro ⟨r, k, hk, rfl⟩
    rcases hn with h | h | h <;> subst h <;> simp only [rowPos, yFracFirst, yFracLast, stepYSmall, nYFrac] at *
    · have := emod_pixel r (32768 + (k : Int) * 65536) (by omega) (by omega); rw [Int.add_assoc, this]; omega
    · have := emod_pixel r (10923 + (k : Int) * 21845) (by omega) (by omega); rw [Int.add_assoc, this]; omega
    · have := emod_pixel r (2185 + (k : Int) * 4369) (by omega) (by omega); rw [Int.add_assoc, this]; omega
  · intro h
    refine ⟨y / 65536, ((y % 65536 - yFracFirst n) / stepYSmall n).toNat, ?_, ?_⟩ <;>
    rcases hn with h | h | h <;> subst h <;> simp only [rowPos, yFracFirst, yFracLast, stepYSmall, nYFrac] at * <;> omega

/-- the `y` of the next iteration of the row loop of `rasterize_edges_N` (before `wrap32`) -/
def nextY (n : Nat) (y : Int) : Int :=
  if n != 1 && fixedFrac y != yFracLast n then y + stepYSmall n else y + stepYBig n

theorem div_step (y s : Int) (h0 : 0 ≤ s) (h : y % 65536 + s < 65536) :
    (y + s) / 65536 = y / 65536 ∧ (y + s) % 65536 = y % 65536 + s := by
  have h1 : (y + s) / 65536 = y / 65536 := by
    by_cases hr : (y + s) / 65536 ≤ y / 65536 - 1
    · omega
    · by_cases hr2 : (y + s) / 65536 ≤ y / 65536
      · omega
      · omega
  omega

theorem div_step_big (y s : Int) (h0 : 65536 ≤ y % 65536 + s) (h : y % 65536 + s < 131072) :
    (y + s) / 65536 = y / 65536 + 1 ∧ (y + s) % 65536 = y % 65536 + s - 65536 := by
  have h1 : (y + s) / 65536 = y / 65536 + 1 := by
    by_cases hr : (y + s) / 65536 ≤ y / 65536
    · omega
    · by_cases hr2 : (y + s) / 65536 ≤ y / 65536 + 1
      · omega
      · omega
  omega

/-- from a grid row below the last one, the loop steps to the next grid row: nothing is skipped, the
    pixel row stays (small step) or advances by one (big step) -/
theorem nextY_grid (n : Nat) (hn : Depth n) (y b : Int) (hy : IsGridRow n y) (hb : IsGridRow n b) (hlt : y < b) :
    IsGridRow n (nextY n y) ∧ y < nextY n y ∧ nextY n y ≤ b ∧ stepYSmall n ≤ nextY n y - y ∧
    (∀ g, IsGridRow n g → y < g → nextY n y ≤ g) ∧
    (nextY n y / 65536 = y / 65536 ∨ (nextY n y / 65536 = y / 65536 + 1 ∧ y % 65536 = yFracLast n)) := by
  have key : ∀ g, IsGridRow n g → y < g → nextY n y ≤ g := by
    intro g hg hyg
    rw [isGridRow_iff n hn] at hy hg
    rcases hn with h | h | h <;> subst h <;>
      simp only [nextY, fixedFrac, yFracFirst, yFracLast, stepYSmall, stepYBig, bne_iff_ne, ne_eq, Bool.and_eq_true,
        not_true_eq_false, false_and, if_false] at * <;>
      (try split) <;>
      (by_cases hr : g / 65536 ≤ y / 65536 - 1
       · omega
       · by_cases hr2 : g / 65536 ≤ y / 65536
         · omega
         · omega)
  have hb' := key b hb hlt
  refine ⟨?_, ?_, hb', ?_, key, ?_⟩
  all_goals
    clear key hb hb' hlt
    rw [isGridRow_iff n hn] at *
    rcases hn with h | h | h <;> subst h <;>
      simp only [nextY, fixedFrac, yFracFirst, yFracLast, stepYSmall, stepYBig, bne_iff_ne, ne_eq, Bool.and_eq_true,
        not_true_eq_false, false_and, if_false] at *
  all_goals
    first
      | omega
      | (have hS := div_step_big y 65536 (by omega) (by omega); omega)
      | (split
         · first
            | omega
            | (have hS := div_step y 21845 (by omega) (by omega); omega)
            | (have hS := div_step y 4369 (by omega) (by omega); omega)
         · first
            | omega
            | (have hS := div_step_big y 21846 (by omega) (by omega); omega)
            | (have hS := div_step_big y 4370 (by omega) (by omega); omega))

/-! ### arrays of rows -/

theorem set!_getD_eq_modify {α} (rows : Array α) (k : Nat) (d : α) (H : α → α) :
    rows.set! k (H (rows[k]?.getD d)) = rows.modify k H := by
  apply Array.ext_getElem?
  intro i
  simp only [Array.set!_eq_setIfInBounds, Array.getElem?_setIfInBounds, Array.getElem?_modify]
  by_cases h : k = i
  · subst h
    by_cases h2 : k < rows.size
    · simp [h2]
    · simp [h2]
  · simp [h]

theorem modify_set! {α} (rows : Array α) (k : Nat) (v : α) (G : α → α) :
    (rows.set! k v).modify k G = rows.set! k (G v) := by
  apply Array.ext_getElem?
  intro i
  simp only [Array.set!_eq_setIfInBounds, Array.getElem?_setIfInBounds, Array.getElem?_modify]
  by_cases h : k = i
  · subst h
    by_cases h2 : k < rows.size
    · simp [h2]
    · simp [h2]
  · simp [h]

theorem modify_modify {α} (rows : Array α) (k : Nat) (F G : α → α) :
    (rows.modify k F).modify k G = rows.modify k (fun x => G (F x)) := by
  apply Array.ext_getElem?
  intro i
  simp only [Array.getElem?_modify]
  by_cases h : k = i
  · simp [h]; rfl
  · simp [h]

theorem modify_id {α} (rows : Array α) (k : Nat) (F : α → α) (hF : ∀ x, F x = x) : rows.modify k F = rows := by
  apply Array.ext_getElem?
  intro i
  simp only [Array.getElem?_modify]
  by_cases h : k = i
  · have : F = id := funext hF
    simp [h, this]
  · simp [h]

/-! ### the a8 span-fill loop equals the naive loop -/

/-- the image in which the pending fill of the current pixel row has been applied -/
def withPending (img : Img) (line : Int) (fs : Fill) : Img :=
  if 0 ≤ line ∧ line < img.height then
    { img with rows := img.rows.modify line.toNat fun row => applyFill row fs }
  else img

theorem withPending_init (img : Img) (line : Int) : withPending img line {} = img := by
  simp only [withPending]
  split
  · rw [modify_id _ _ _ applyFill_init]
  · rfl

theorem fuel_pos (b y : Int) (fuel : Nat) (hyb : y ≤ b) (hf : (b - y) / 4369 + 1 ≤ (fuel : Int)) : fuel ≠ 0 := by
  have : 0 ≤ (b - y) / 4369 := Int.ediv_nonneg (by omega) (by decide)
  omega

/-- one iteration of `edgesLoop8` against one iteration of `edgesLoop8Naive` -/
theorem iter8 (img : Img) (line lx rx : Int) (fs fs' : Fill) (row' : Array Nat) (hinv : FillInv fs)
    (hp : row8Fill (if decide (0 ≤ line ∧ line < (img.height : Int)) = true then img.rows[line.toNat]?.getD #[] else #[])
            img.width lx rx fs = (row', fs')) :
    (if decide (0 ≤ line ∧ line < (img.height : Int)) = true then
        { img with rows := img.rows.set! line.toNat (flushFill row' fs') }
      else { img with oob := true }) =
      (withPending img line fs).modifyRow line (fun row => row8 row (withPending img line fs).width lx rx) ∧
    withPending (if decide (0 ≤ line ∧ line < (img.height : Int)) = true then
        { img with rows := img.rows.set! line.toNat row' }
      else { img with oob := true }) line fs' =
      (withPending img line fs).modifyRow line (fun row => row8 row (withPending img line fs).width lx rx) ∧
    FillInv fs' := by
  by_cases hin : 0 ≤ line ∧ line < (img.height : Int)
  · simp only [hin, and_self, decide_true, if_true] at hp ⊢
    obtain ⟨h1, h2⟩ := row8Fill_step (img.rows[line.toNat]?.getD #[]) img.width lx rx fs hinv
    rw [hp] at h1 h2
    simp only at h1 h2
    have hrows : img.rows.set! line.toNat (applyFill row' fs') =
        (img.rows.modify line.toNat fun row => applyFill row fs).modify line.toNat (fun row => row8 row img.width lx rx) := by
      rw [modify_modify, h1]
      exact set!_getD_eq_modify img.rows line.toNat #[] (fun x => row8 (applyFill x fs) img.width lx rx)
    simp only [withPending, Img.modifyRow, hin, and_self, if_true]
    refine ⟨?_, ?_, h2⟩
    · rw [flushFill_eq, hrows]
    · rw [modify_set!, hrows]
  · simp only [hin, decide_false, if_false, Bool.false_eq_true] at hp ⊢
    have h2 := (row8Fill_step #[] img.width lx rx fs hinv).2
    rw [hp] at h2
    simp only [withPending, Img.modifyRow, hin, if_false]
    exact ⟨trivial, trivial, h2⟩

theorem edgesLoop8_eq_naive_aux (b : Int) (hb : IsGridRow 8 b) (hb2 : b ≤ 2147483647) :
    ∀ (fuel : Nat) (y : Int) (l r : Edge) (fs : Fill) (img : Img), FillInv fs → IsGridRow 8 y → y ≤ b →
      -2147483648 ≤ y → (b - y) / 4369 + 1 ≤ (fuel : Int) →
      edgesLoop8 b fuel y l r fs img = edgesLoop8Naive b fuel y l r (withPending img (fixedToInt y) fs) := by
  intro fuel
  induction fuel with
  | zero => intro y l r fs img _ _ hyb _ hf; exact absurd rfl (fuel_pos b y 0 hyb hf)
  | succ fuel ih =>
    intro y l r fs img hinv hy hyb hy0 hf
    simp only [edgesLoop8, edgesLoop8Naive]
    generalize hp : row8Fill ((if (decide (0 ≤ fixedToInt y ∧ fixedToInt y < (img.height : Int))) = true
        then img.rows[(fixedToInt y).toNat]?.getD #[] else #[])) img.width l.x r.x fs = p
    obtain ⟨row', fs'⟩ := p
    obtain ⟨hA, hB, hinv'⟩ := iter8 img (fixedToInt y) l.x r.x fs fs' row' hinv hp
    simp only
    by_cases hyeq : y = b
    · simp only [hyeq, beq_self_eq_true, if_true] at hA ⊢
      exact hA
    · have hne : (y == b) = false := by simp [hyeq]
      simp only [hne, Bool.false_eq_true, if_false]
      obtain ⟨g1, g2, g3, g4, _, g6⟩ := nextY_grid 8 (Or.inr (Or.inr rfl)) y b hy hb (by omega)
      simp only [nextY, show ((8 : Nat) != 1) = true from rfl, Bool.true_and] at g1 g2 g3 g4 g6
      have hf' : (b - y - 4369) / 4369 + 1 ≤ (fuel : Int) := by omega
      rcases Bool.eq_false_or_eq_true (fixedFrac y != yFracLast 8) with hfr | hfr
      · simp only [hfr, if_true] at g1 g2 g3 g4 g6 ⊢
        simp only [stepYSmall] at g1 g2 g3 g4 g6 ⊢
        have hfr' : y % 65536 ≠ yFracLast 8 := by simpa [fixedFrac] using hfr
        have hw : wrap32 (y + 4369) = y + 4369 := wrap32_id _ (by omega) (by omega)
        have hline : fixedToInt (y + 4369) = fixedToInt y := by
          simp only [fixedToInt]
          rcases g6 with g6 | g6
          · exact g6
          · exact absurd g6.2 hfr'
        rw [hw, ih (y + 4369) _ _ fs' _ hinv' g1 g3 (by omega) (by
          have : (b - (y + 4369)) / 4369 ≤ (b - y - 4369) / 4369 := Int.ediv_le_ediv (by decide) (by omega)
          omega), hline, hB]
      · simp only [hfr, Bool.false_eq_true, if_false] at g1 g2 g3 g4 g6 ⊢
        simp only [stepYBig, stepYSmall] at g1 g2 g3 g4 g6 ⊢
        have hw : wrap32 (y + 4370) = y + 4370 := wrap32_id _ (by omega) (by omega)
        rw [hw, ih (y + 4370) _ _ {} _ fillInv_init g1 g3 (by omega) (by
          have : (b - (y + 4370)) / 4369 ≤ (b - y - 4369) / 4369 := Int.ediv_le_ediv (by decide) (by omega)
          omega), withPending_init, hA]

/-- `rasterize_edges_8` with the span-fill bookkeeping = the naive per-sub-row loop, for every pair of
    edges, between grid rows `t ≤ b` -/
theorem edgesLoop8_eq_naive (t b : Int) (l r : Edge) (img : Img) (ht : IsGridRow 8 t) (hb : IsGridRow 8 b)
    (htb : t ≤ b) (ht0 : -2147483648 ≤ t) (hb2 : b ≤ 2147483647) :
    edgesLoop8 b (rowFuel 8 t b) t l r {} img = edgesLoop8Naive b (rowFuel 8 t b) t l r img := by
  have h := edgesLoop8_eq_naive_aux b hb hb2 (rowFuel 8 t b) t l r {} img fillInv_init ht htb ht0 (by
    simp only [rowFuel, stepYSmall]
    have : 0 ≤ (b - t) / 4369 := Int.ediv_nonneg (by omega) (by decide)
    omega)
  rw [h, withPending_init]

end Pixman.Lemmas.TrapRows

import Pixman.Model.Fill
/-! Bit-level facts about the word memory of `Pixman.Model.Fill`: what a word store, a masked
word update and a sub-word store do to every bit. -/
namespace Pixman.Lemmas.Fill
open Pixman.Model.Fill

theorem get_set (m : Mem) (a : Int) (v : Nat) (b : Int) :
    (m.set a v).get b = if b = a then v else m.get b := rfl

theorem bit_set (m : Mem) (a : Int) (v : Nat) (i : Int) :
    (m.set a v).bit i = if i / 32 = a then v.testBit (i % 32).toNat else m.bit i := by
  unfold Mem.bit
  rw [get_set]
  split <;> rfl

theorem toNat_mod32_lt (i : Int) : (i % 32).toNat < 32 := by omega

/-- bit `j < 32` of `A1_FILL_MASK (n, offs)` -/
theorem a1FillMask_testBit (n offs j : Nat) (hj : j < 32) :
    (a1FillMask n offs).testBit j = (decide (offs ≤ j) && decide (j - offs < n)) := by
  unfold a1FillMask U32
  have e : (4294967296 : Nat) = 2 ^ 32 := by decide
  rw [e, Nat.testBit_mod_two_pow, Nat.testBit_shiftLeft, Nat.one_shiftLeft,
    Nat.testBit_two_pow_sub_one]
  simp [hj]

theorem not32_testBit (x j : Nat) (hj : j < 32) : (not32 x).testBit j = !x.testBit j := by
  unfold not32
  have e : (0xFFFFFFFF : Nat) = 2 ^ 32 - 1 := by decide
  rw [Nat.testBit_xor, e, Nat.testBit_two_pow_sub_one]
  simp [hj]

theorem maskBit_true (n offs j : Nat) (h : offs ≤ j ∧ j - offs < n) :
    (decide (offs ≤ j) && decide (j - offs < n)) = true := by simp [h]

theorem maskBit_false (n offs j : Nat) (h : ¬ (offs ≤ j ∧ j - offs < n)) :
    (decide (offs ≤ j) && decide (j - offs < n)) = false := by
  rw [Bool.and_eq_false_iff]
  by_cases h3 : offs ≤ j
  · right; simp; omega
  · left; simp; omega

/-- `*dst |= A1_FILL_MASK (n, offs)` / `*dst &= ~A1_FILL_MASK (n, offs)` sets exactly bits
`[offs, offs+n)` of word `dst` to `v` -/
theorem maskWord_bit (m : Mem) (dst : Int) (n offs : Nat) (v : Bool) (i : Int) :
    (maskWord m dst (a1FillMask n offs) v).bit i =
      if i / 32 = dst ∧ (offs : Int) ≤ i % 32 ∧ i % 32 < offs + n then v else m.bit i := by
  have hj := toNat_mod32_lt i
  unfold maskWord
  by_cases h : i / 32 = dst
  · by_cases h2 : (offs : Int) ≤ i % 32 ∧ i % 32 < offs + n
    · have hb := maskBit_true n offs (i % 32).toNat (by omega)
      cases v
      · simp only [Bool.false_eq_true, if_false]
        rw [bit_set, if_pos h, if_pos ⟨h, h2⟩, Nat.testBit_and, not32_testBit _ _ hj,
          a1FillMask_testBit _ _ _ hj, hb]
        simp
      · simp only [if_true]
        rw [bit_set, if_pos h, if_pos ⟨h, h2⟩, Nat.testBit_or, a1FillMask_testBit _ _ _ hj, hb]
        simp
    · have hb := maskBit_false n offs (i % 32).toNat (by omega)
      have hn : ¬ (i / 32 = dst ∧ (offs : Int) ≤ i % 32 ∧ i % 32 < offs + n) := fun hh => h2 hh.2
      cases v
      · simp only [Bool.false_eq_true, if_false]
        rw [bit_set, if_pos h, if_neg hn, Nat.testBit_and, not32_testBit _ _ hj,
          a1FillMask_testBit _ _ _ hj, hb]
        unfold Mem.bit; rw [h]; simp
      · simp only [if_true]
        rw [bit_set, if_pos h, if_neg hn, Nat.testBit_or, a1FillMask_testBit _ _ _ hj, hb]
        unfold Mem.bit; rw [h]; simp
  · have hn : ¬ (i / 32 = dst ∧ (offs : Int) ≤ i % 32 ∧ i % 32 < offs + n) := fun hh => h hh.1
    cases v
    · simp only [Bool.false_eq_true, if_false]
      rw [bit_set, if_neg h, if_neg hn]
    · simp only [if_true]
      rw [bit_set, if_neg h, if_neg hn]

theorem fullWord_testBit (v : Bool) (j : Nat) (hj : j < 32) :
    (if v then 0xFFFFFFFF else 0 : Nat).testBit j = v := by
  cases v
  · simp
  · have e : (0xFFFFFFFF : Nat) = 2 ^ 32 - 1 := by decide
    simp only [if_true]
    rw [e, Nat.testBit_two_pow_sub_one]; simp [hj]

/-- the aligned part of `pixman_fill1_line` sets exactly bits `[32 dst, 32 dst + width)` -/
theorem fill1LineTail_bit (m : Mem) (dst : Int) (width : Nat) (v : Bool) (i : Int) :
    (fill1LineTail m dst width v).bit i =
      if dst * 32 ≤ i ∧ i < dst * 32 + width then v else m.bit i := by
  induction width using Nat.strongRecOn generalizing m dst with
  | _ width ih =>
    rw [fill1LineTail]
    by_cases h : width ≥ 32
    · rw [if_pos h, ih (width - 32) (by omega), bit_set]
      have hj := toNat_mod32_lt i
      by_cases h1 : (dst + 1) * 32 ≤ i ∧ i < (dst + 1) * 32 + ((width - 32 : Nat) : Int)
      · rw [if_pos h1, if_pos (by omega)]
      · rw [if_neg h1]
        by_cases h2 : i / 32 = dst
        · rw [if_pos h2, fullWord_testBit v _ hj, if_pos (by omega)]
        · rw [if_neg h2, if_neg (by omega)]
    · rw [if_neg h]
      by_cases h2 : width > 0
      · rw [if_pos h2, maskWord_bit]
        by_cases h1 : dst * 32 ≤ i ∧ i < dst * 32 + (width : Int)
        · rw [if_pos h1, if_pos (by omega)]
        · rw [if_neg h1, if_neg (by omega)]
      · rw [if_neg h2, if_neg (by omega)]

/-- `pixman_fill1_line (dst, offs, width, v)` sets exactly bits `[32 dst + offs, 32 dst + offs + width)` -/
theorem fill1Line_bit (m : Mem) (dst : Int) (offs width : Nat) (v : Bool) (hoffs : offs < 32)
    (i : Int) :
    (fill1Line m dst offs width v).bit i =
      if dst * 32 + offs ≤ i ∧ i < dst * 32 + offs + width then v else m.bit i := by
  unfold fill1Line
  by_cases h0 : offs ≠ 0
  · rw [if_pos h0]
    simp only []
    by_cases h1 : 32 - offs ≥ width
    · rw [if_pos h1, maskWord_bit]
      by_cases h2 : dst * 32 + (offs : Int) ≤ i ∧ i < dst * 32 + offs + width
      · rw [if_pos h2, if_pos (by omega)]
      · rw [if_neg h2, if_neg (by omega)]
    · rw [if_neg h1, fill1LineTail_bit, maskWord_bit]
      by_cases h2 : dst * 32 + (offs : Int) ≤ i ∧ i < dst * 32 + offs + width
      · rw [if_pos h2]
        by_cases h3 : (dst + 1) * 32 ≤ i ∧ i < (dst + 1) * 32 + ((width - (32 - offs) : Nat) : Int)
        · rw [if_pos h3]
        · rw [if_neg h3, if_pos (by omega)]
      · rw [if_neg h2, if_neg (by omega), if_neg (by omega)]
  · rw [if_neg h0, fill1LineTail_bit]
    have : offs = 0 := by omega
    subst this
    simp

/-! ### the row loop -/

/-- `while (height--) { row (dst); dst += stride; }` when one row sets exactly the bits `S dst` to
`val`: bits of some row get `val`, all others stay -/
theorem rows_bit (row : Mem → Int → Mem) (stride : Int) (val : Int → Bool) (S : Int → Int → Prop)
    (hin : ∀ m d i, S d i → (row m d).bit i = val i)
    (hout : ∀ m d i, ¬ S d i → (row m d).bit i = m.bit i) (i : Int) :
    ∀ (h : Nat) (m : Mem) (d : Int),
      ((∃ r : Nat, r < h ∧ S (d + r * stride) i) → (rows row stride h m d).bit i = val i) ∧
      ((¬ ∃ r : Nat, r < h ∧ S (d + r * stride) i) → (rows row stride h m d).bit i = m.bit i) := by
  intro h
  induction h with
  | zero =>
    intro m d
    refine ⟨fun ⟨r, hr, _⟩ => absurd hr (by omega), fun _ => rfl⟩
  | succ h ih =>
    intro m d
    have e : ∀ r : Nat, d + ((r + 1 : Nat) : Int) * stride = d + stride + r * stride := by
      intro r; grind
    have e0 : d + ((0 : Nat) : Int) * stride = d := by simp
    obtain ⟨ih1, ih2⟩ := ih (row m d) (d + stride)
    constructor
    · rintro ⟨r, hr, hs⟩
      show (rows row stride h (row m d) (d + stride)).bit i = val i
      by_cases hq : ∃ r : Nat, r < h ∧ S (d + stride + r * stride) i
      · exact ih1 hq
      · rw [ih2 hq]
        cases r with
        | zero => rw [e0] at hs; exact hin m d i hs
        | succ r' => rw [e r'] at hs; exact absurd ⟨r', by omega, hs⟩ hq
    · intro hn
      show (rows row stride h (row m d) (d + stride)).bit i = m.bit i
      have hq : ¬ ∃ r : Nat, r < h ∧ S (d + stride + r * stride) i := by
        rintro ⟨r, hr, hs⟩
        exact hn ⟨r + 1, by omega, by rw [e r]; exact hs⟩
      rw [ih2 hq]
      apply hout
      intro hs
      exact hn ⟨0, by omega, by rw [e0]; exact hs⟩

/-- the same with an invariant `P` of the row pointer (e.g. pixel alignment) -/
theorem rows_bit_inv (row : Mem → Int → Mem) (stride : Int) (val : Int → Bool) (S : Int → Int → Prop)
    (P : Int → Prop) (hP : ∀ d, P d → P (d + stride))
    (hin : ∀ m d i, P d → S d i → (row m d).bit i = val i)
    (hout : ∀ m d i, P d → ¬ S d i → (row m d).bit i = m.bit i) (i : Int) :
    ∀ (h : Nat) (m : Mem) (d : Int), P d →
      ((∃ r : Nat, r < h ∧ S (d + r * stride) i) → (rows row stride h m d).bit i = val i) ∧
      ((¬ ∃ r : Nat, r < h ∧ S (d + r * stride) i) → (rows row stride h m d).bit i = m.bit i) := by
  intro h
  induction h with
  | zero =>
    intro m d _
    refine ⟨fun ⟨r, hr, _⟩ => absurd hr (by omega), fun _ => rfl⟩
  | succ h ih =>
    intro m d hd
    have e : ∀ r : Nat, d + ((r + 1 : Nat) : Int) * stride = d + stride + r * stride := by
      intro r; grind
    have e0 : d + ((0 : Nat) : Int) * stride = d := by simp
    obtain ⟨ih1, ih2⟩ := ih (row m d) (d + stride) (hP d hd)
    constructor
    · rintro ⟨r, hr, hs⟩
      show (rows row stride h (row m d) (d + stride)).bit i = val i
      by_cases hq : ∃ r : Nat, r < h ∧ S (d + stride + r * stride) i
      · exact ih1 hq
      · rw [ih2 hq]
        cases r with
        | zero => rw [e0] at hs; exact hin m d i hd hs
        | succ r' => rw [e r'] at hs; exact absurd ⟨r', by omega, hs⟩ hq
    · intro hn
      show (rows row stride h (row m d) (d + stride)).bit i = m.bit i
      have hq : ¬ ∃ r : Nat, r < h ∧ S (d + stride + r * stride) i := by
        rintro ⟨r, hr, hs⟩
        exact hn ⟨r + 1, by omega, by rw [e r]; exact hs⟩
      rw [ih2 hq]
      apply hout _ _ _ hd
      intro hs
      exact hn ⟨0, by omega, by rw [e0]; exact hs⟩

/-! ### sub-word stores -/

theorem fieldMask_testBit (n s j : Nat) (hj : j < 32) :
    ((((1 <<< n) - 1) <<< s) % U32).testBit j = (decide (s ≤ j) && decide (j - s < n)) :=
  a1FillMask_testBit n s j hj

/-- `storeField` replaces exactly bits `[s, s+n)` of word `w` by the bits of `v` -/
theorem storeField_bit (m : Mem) (w : Int) (s n v : Nat) (i : Int) :
    (storeField m w s n v).bit i =
      if i / 32 = w ∧ (s : Int) ≤ i % 32 ∧ i % 32 < s + n then v.testBit ((i % 32).toNat - s)
      else m.bit i := by
  have hj := toNat_mod32_lt i
  unfold storeField
  rw [bit_set]
  by_cases h : i / 32 = w
  · rw [if_pos h, Nat.testBit_or, Nat.testBit_and, not32_testBit _ _ hj, fieldMask_testBit _ _ _ hj]
    have e : (4294967296 : Nat) = 2 ^ 32 := by decide
    unfold U32
    rw [e, Nat.testBit_mod_two_pow, Nat.testBit_shiftLeft, Nat.testBit_mod_two_pow]
    by_cases h2 : (s : Int) ≤ i % 32 ∧ i % 32 < s + n
    · have hb := maskBit_true n s (i % 32).toNat (by omega)
      rw [if_pos ⟨h, h2⟩, hb]
      have h3 : (i % 32).toNat ≥ s := by omega
      have h4 : (i % 32).toNat - s < n := by omega
      simp [hj, h3, h4]
    · have hb := maskBit_false n s (i % 32).toNat (by omega)
      rw [if_neg (fun hh => h2 hh.2), hb]
      unfold Mem.bit
      rw [h]
      by_cases h3 : (i % 32).toNat ≥ s
      · have h4 : ¬ (i % 32).toNat - s < n := by omega
        simp [h4]
      · simp [h3]
  · rw [if_neg h, if_neg (fun hh => h hh.1)]

/-- byte store: exactly the 8 bits of byte `a` -/
theorem store8_bit (m : Mem) (a : Int) (v : Nat) (i : Int) :
    (store8 m a v).bit i = if i / 8 = a then v.testBit (i % 8).toNat else m.bit i := by
  unfold store8
  rw [storeField_bit]
  by_cases h : i / 8 = a
  · rw [if_pos h, if_pos (by omega)]
    congr 1; omega
  · rw [if_neg h, if_neg (by omega)]

/-- halfword store: exactly the 16 bits of halfword `h` -/
theorem store16_bit (m : Mem) (a : Int) (v : Nat) (i : Int) :
    (store16 m a v).bit i = if i / 16 = a then v.testBit (i % 16).toNat else m.bit i := by
  unfold store16
  rw [storeField_bit]
  by_cases h : i / 16 = a
  · rw [if_pos h, if_pos (by omega)]
    congr 1; omega
  · rw [if_neg h, if_neg (by omega)]

/-- word store -/
theorem store32_bit (m : Mem) (a : Int) (v : Nat) (i : Int) :
    (store32 m a v).bit i = if i / 32 = a then v.testBit (i % 32).toNat else m.bit i := by
  unfold store32
  rw [bit_set]
  have hj := toNat_mod32_lt i
  have e : (4294967296 : Nat) = 2 ^ 32 := by decide
  unfold U32
  rw [e, Nat.testBit_mod_two_pow]
  simp [hj]

/-- `for (i = 0; i < n; ++i) dst[i] = v` for a store of `k`-bit units: exactly units
`[dst, dst+n)` hold `v` -/
theorem forStore_bit (store : Mem → Int → Nat → Mem) (k : Int) (hk : 0 < k)
    (hstore : ∀ m a v i, (store m a v).bit i =
      if i / k = a then v.testBit (i % k).toNat else m.bit i)
    (v : Nat) (dst : Int) (n : Nat) (m : Mem) (i : Int) :
    (forStore store v dst n m).bit i =
      if dst ≤ i / k ∧ i / k < dst + n then v.testBit (i % k).toNat else m.bit i := by
  induction n with
  | zero => rw [forStore, if_neg (by omega)]
  | succ n ih =>
    rw [forStore, hstore, ih]
    by_cases h : i / k = dst + n
    · rw [if_pos h, if_pos (by omega)]
    · rw [if_neg h]
      by_cases h2 : dst ≤ i / k ∧ i / k < dst + n
      · rw [if_pos h2, if_pos (by omega)]
      · rw [if_neg h2, if_neg (by omega)]

end Pixman.Lemmas.Fill

import Pixman.Model.Binary32
import Pixman.Lemmas.FormatWide
/-! Tables of the exact binary32 model of `unorm_to_float` / `float_to_unorm` (C10), checked by kernel evaluation
(`decide +kernel`, one theorem per width so that no step is long), and what follows from them. -/
namespace Pixman.Lemmas.Binary32
open Pixman.Model.Format Pixman.Model.Binary32

/-- `p` holds on `[lo, lo + 2^k)`, by halving (recursion depth `k`) -/
def allPow (p : Nat → Bool) : Nat → Nat → Bool
  | 0, lo => p lo
  | k + 1, lo => allPow p k lo && allPow p k (lo + 2 ^ k)

theorem allPow_spec (p : Nat → Bool) (k lo : Nat) (h : allPow p k lo = true) (u : Nat) (h1 : lo ≤ u) (h2 : u < lo + 2 ^ k) :
    p u = true := by
  induction k generalizing lo with
  | zero =>
    have : u = lo := by simp only [Nat.pow_zero] at h2; omega
    rw [this]; exact h
  | succ k ih =>
    simp only [allPow, Bool.and_eq_true] at h
    rw [Nat.pow_succ] at h2
    by_cases hu : u < lo + 2 ^ k
    · exact ih lo h.1 h1 hu
    · exact ih (lo + 2 ^ k) h.2 (by omega) (by omega)

/-- the rounded reciprocal `1.f / (float) (2^n - 1)` -/
def recip32 (n : Nat) : F32 := div32 one (ofNat32 ((1 <<< n) - 1))

/-- `unorm_to_float` with the reciprocal given -/
def scale32 (c u : Nat) : F32 := mul32 (ofNat32 u) c

theorem unormToFloat32_eq (u n : Nat) (hn : n ≤ 16) (hu : u < 2 ^ n) : unormToFloat32 u n = scale32 (recip32 n) u := by
  unfold unormToFloat32 scale32 recip32
  simp only [force_eq]
  have h16 : u < 65536 := Nat.lt_of_lt_of_le hu (Nat.pow_le_pow_right (by decide) hn)
  rw [Nat.mod_eq_of_lt h16, Nat.one_shiftLeft, Nat.and_two_pow_sub_one_eq_mod, Nat.mod_eq_of_lt hu]

/-- per value: round trip, end points, strict growth of the bit pattern (= of the value: the patterns are positive),
and the distance from the rational `u / m`: with `x = mant · 2^(ebias - 150)`,
`|x - u/m| ≤ (u/m) · 2^-23` is `|mant · m · 2^ebias - u · 2^150| · 2^23 ≤ u · 2^150` -/
def chk (n c u : Nat) : Bool :=
  force (scale32 c u) fun x =>
  force (scale32 c (u + 1)) fun y =>
  force ((1 <<< n) - 1) fun m =>
  floatToUnorm32 x n == u && (u != 0 || x == 0) && (u != m || x == one) && (u == m || x < y) && x < 0x7f800000 &&
  (force (mant x * m * 2 ^ ebias x) fun a => force (u * 2 ^ 150) fun b => (if a ≥ b then a - b else b - a) * 2 ^ 23 ≤ b)

/-- one block of 256 consecutive values (the kernel's evaluation slows down superlinearly with the size of a single
check, so the tables are cut into blocks) -/
def block (n j : Nat) : Bool := force (recip32 n) fun c => allPow (chk n c) 8 (256 * j)
/-- all `2^n` values of a narrow width in one block -/
def small (n : Nat) : Bool := force (recip32 n) fun c => allPow (chk n c) n 0

theorem block_spec (n j : Nat) (h : block n j = true) (u : Nat) (h1 : 256 * j ≤ u) (h2 : u < 256 * j + 256) :
    chk n (recip32 n) u = true := by
  unfold block at h
  rw [force_eq] at h
  exact allPow_spec _ 8 _ h u h1 (by simpa using h2)

theorem small_spec (n : Nat) (h : small n = true) (u : Nat) (h2 : u < 2 ^ n) : chk n (recip32 n) u = true := by
  unfold small at h
  rw [force_eq] at h
  exact allPow_spec _ n 0 h u (Nat.zero_le _) (by simpa using h2)

theorem small1 : small 1 = true := by decide +kernel
theorem small2 : small 2 = true := by decide +kernel
theorem small3 : small 3 = true := by decide +kernel
theorem small4 : small 4 = true := by decide +kernel
theorem small5 : small 5 = true := by decide +kernel
theorem small6 : small 6 = true := by decide +kernel
theorem small7 : small 7 = true := by decide +kernel
theorem small8 : small 8 = true := by decide +kernel
theorem block9_0 : block 9 0 = true := by decide +kernel
theorem block9_1 : block 9 1 = true := by decide +kernel
theorem block10_0 : block 10 0 = true := by decide +kernel
theorem block10_1 : block 10 1 = true := by decide +kernel
theorem block10_2 : block 10 2 = true := by decide +kernel
theorem block10_3 : block 10 3 = true := by decide +kernel
theorem block11_0 : block 11 0 = true := by decide +kernel
theorem block11_1 : block 11 1 = true := by decide +kernel
theorem block11_2 : block 11 2 = true := by decide +kernel
theorem block11_3 : block 11 3 = true := by decide +kernel
theorem block11_4 : block 11 4 = true := by decide +kernel
theorem block11_5 : block 11 5 = true := by decide +kernel
theorem block11_6 : block 11 6 = true := by decide +kernel
theorem block11_7 : block 11 7 = true := by decide +kernel

/-- every width 1..11, every value: the per-value facts hold -/
theorem chk_all (n u : Nat) (h1 : 1 ≤ n) (h2 : n ≤ 11) (hu : u < 2 ^ n) : chk n (recip32 n) u = true := by
  have hn : n = 1 ∨ n = 2 ∨ n = 3 ∨ n = 4 ∨ n = 5 ∨ n = 6 ∨ n = 7 ∨ n = 8 ∨ n = 9 ∨ n = 10 ∨ n = 11 := by omega
  rcases hn with h | h | h | h | h | h | h | h | h | h | h <;> subst h
  · exact small_spec 1 small1 u hu
  · exact small_spec 2 small2 u hu
  · exact small_spec 3 small3 u hu
  · exact small_spec 4 small4 u hu
  · exact small_spec 5 small5 u hu
  · exact small_spec 6 small6 u hu
  · exact small_spec 7 small7 u hu
  · exact small_spec 8 small8 u hu
  · simp only [Nat.reducePow] at hu
    have hj : (256 * 0 ≤ u ∧ u < 256 * 0 + 256) ∨ (256 * 1 ≤ u ∧ u < 256 * 1 + 256) := by omega
    rcases hj with h | h
    · exact block_spec 9 0 block9_0 u h.1 h.2
    · exact block_spec 9 1 block9_1 u h.1 h.2
  · simp only [Nat.reducePow] at hu
    have hj : (256 * 0 ≤ u ∧ u < 256 * 0 + 256) ∨ (256 * 1 ≤ u ∧ u < 256 * 1 + 256) ∨ (256 * 2 ≤ u ∧ u < 256 * 2 + 256) ∨ (256 * 3 ≤ u ∧ u < 256 * 3 + 256) := by omega
    rcases hj with h | h | h | h
    · exact block_spec 10 0 block10_0 u h.1 h.2
    · exact block_spec 10 1 block10_1 u h.1 h.2
    · exact block_spec 10 2 block10_2 u h.1 h.2
    · exact block_spec 10 3 block10_3 u h.1 h.2
  · simp only [Nat.reducePow] at hu
    have hj : (256 * 0 ≤ u ∧ u < 256 * 0 + 256) ∨ (256 * 1 ≤ u ∧ u < 256 * 1 + 256) ∨ (256 * 2 ≤ u ∧ u < 256 * 2 + 256) ∨ (256 * 3 ≤ u ∧ u < 256 * 3 + 256) ∨ (256 * 4 ≤ u ∧ u < 256 * 4 + 256) ∨ (256 * 5 ≤ u ∧ u < 256 * 5 + 256) ∨ (256 * 6 ≤ u ∧ u < 256 * 6 + 256) ∨ (256 * 7 ≤ u ∧ u < 256 * 7 + 256) := by omega
    rcases hj with h | h | h | h | h | h | h | h
    · exact block_spec 11 0 block11_0 u h.1 h.2
    · exact block_spec 11 1 block11_1 u h.1 h.2
    · exact block_spec 11 2 block11_2 u h.1 h.2
    · exact block_spec 11 3 block11_3 u h.1 h.2
    · exact block_spec 11 4 block11_4 u h.1 h.2
    · exact block_spec 11 5 block11_5 u h.1 h.2
    · exact block_spec 11 6 block11_6 u h.1 h.2
    · exact block_spec 11 7 block11_7 u h.1 h.2

end Pixman.Lemmas.Binary32

import Pixman.Model.Fill
/-! The SIMD row programs of `sse2_fill`, `mmx_fill`, `sse2_blt`, `mmx_blt` as address-range
programs: invariants of the guarded store steps.  Staged: `emit` → `emitMany` → `ifBlock` /
`whileBlock` rules → one chain of assertions per program (Props/C19). -/
namespace Pixman.Lemmas.FillSimd
open Pixman.Model.Fill

/-- the stores (most recent first) tile `[a, d)`: consecutive, non-empty, starting at `a` -/
def TilesRev (a : Int) : List Store → Int → Prop
  | [], d => d = a
  | st :: rest, d => st.addr + st.size = d ∧ 0 < st.size ∧ TilesRev a rest st.addr

/-- the stores (in program order) tile `[a, b)` -/
def Tiles : Int → List Store → Int → Prop
  | a, [], b => a = b
  | a, st :: rest, b => st.addr = a ∧ 0 < st.size ∧ Tiles (a + st.size) rest b

theorem tiles_snoc (a b : Int) (l : List Store) (size : Nat) (h : Tiles a l b) (hs : 0 < size) :
    Tiles a (l ++ [⟨b, size⟩]) (b + size) := by
  induction l generalizing a with
  | nil => simp only [Tiles] at h; subst h; exact ⟨rfl, hs, rfl⟩
  | cons st rest ih => exact ⟨h.1, h.2.1, ih _ h.2.2⟩

theorem tiles_of_rev (a : Int) (out : List Store) (d : Int) (h : TilesRev a out d) :
    Tiles a out.reverse d := by
  induction out generalizing d with
  | nil => simp only [TilesRev] at h; subst h; exact rfl
  | cons st rest ih =>
    obtain ⟨h1, h2, h3⟩ := h
    rw [List.reverse_cons, ← h1]
    have := tiles_snoc a st.addr rest.reverse st.size (ih _ h3) h2
    exact this

/-- invariant of a row program working on `[a, a + W)` for pixels of `B` bytes; `al` is the machine
address of byte 0 -/
structure Inv (al a : Int) (W B : Nat) (s : RowSt) : Prop where
  tiles : TilesRev a s.out s.d
  total : s.d + s.w = a + W
  aligned : ∀ st ∈ s.out, (al + st.addr) % (st.size : Int) = 0
  sizes : ∀ st ∈ s.out, B ∣ st.size
  unitD : (B : Int) ∣ al + s.d
  unitW : B ∣ s.w

theorem inv_init (al a : Int) (W B : Nat) (hd : (B : Int) ∣ al + a) (hw : B ∣ W) :
    Inv al a W B ⟨a, W, []⟩ :=
  ⟨rfl, rfl, fun _ h => absurd h (by simp), fun _ h => absurd h (by simp), hd, hw⟩

theorem emit_inv {al a : Int} {W B : Nat} {s : RowSt} (size : Nat) (h : Inv al a W B s)
    (hw : size ≤ s.w) (hs : 0 < size) (hal : (al + s.d) % (size : Int) = 0) (hB : B ∣ size) :
    Inv al a W B (s.emit size) := by
  refine ⟨⟨rfl, hs, h.tiles⟩, ?_, ?_, ?_, ?_, ?_⟩
  · show s.d + size + ((s.w - size : Nat) : Int) = a + W
    have := h.total; omega
  · intro st hst
    simp only [RowSt.emit, List.mem_cons] at hst
    rcases hst with rfl | hst
    · exact hal
    · exact h.aligned st hst
  · intro st hst
    simp only [RowSt.emit, List.mem_cons] at hst
    rcases hst with rfl | hst
    · exact hB
    · exact h.sizes st hst
  · show (B : Int) ∣ al + (s.d + size)
    have : al + (s.d + size) = (al + s.d) + (size : Int) := by omega
    rw [this]
    exact Int.dvd_add h.unitD (Int.natCast_dvd_natCast.2 hB)
  · show B ∣ s.w - size
    exact Nat.dvd_sub h.unitW hB

theorem emitMany_d (s : RowSt) (size k : Nat) :
    (s.emitMany size k).d = s.d + ((k * size : Nat) : Int) := by
  induction k with
  | zero => simp [RowSt.emitMany]
  | succ k ih =>
    simp only [RowSt.emitMany, RowSt.emit, ih]
    rw [Nat.add_mul, Nat.one_mul]; omega

theorem emitMany_inv {al a : Int} {W B : Nat} {s : RowSt} (size k : Nat) (h : Inv al a W B s)
    (hw : k * size ≤ s.w) (hs : 0 < size) (hal : (al + s.d) % (size : Int) = 0) (hB : B ∣ size) :
    Inv al a W B (s.emitMany size k) := by
  induction k with
  | zero => exact h
  | succ k ih =>
    have hk : k * size ≤ s.w := by rw [Nat.add_mul] at hw; omega
    have h1 := ih hk
    simp only [RowSt.emitMany]
    apply emit_inv size h1
    · rw [emitMany_w]; rw [Nat.add_mul, Nat.one_mul] at hw; omega
    · exact hs
    · rw [emitMany_d]
      have : al + (s.d + ((k * size : Nat) : Int)) = (al + s.d) + (k : Int) * (size : Int) := by
        rw [Int.natCast_mul]; omega
      rw [this, Int.add_mul_emod_self_right]
      exact hal
    · exact hB

/-- Hoare rule for `ifBlock` -/
theorem ifBlock_rule (Q R : RowSt → Prop) (c : RowSt → Bool) (k size : Nat) (s : RowSt)
    (hq : Q s)
    (step : k * size ≤ s.w → c s = true → R (s.emitMany size k))
    (skip : ¬ (k * size ≤ s.w ∧ c s = true) → R s) :
    R (ifBlock c k size s) := by
  unfold ifBlock
  by_cases h : k * size ≤ s.w ∧ c s = true
  · rw [if_pos h]; exact step h.1 h.2
  · rw [if_neg h]; exact skip h

/-- Hoare rule for `whileBlock`: an invariant holds afterwards together with the negated guard -/
theorem whileBlock_rule (Q : RowSt → Prop) (c : RowSt → Bool) (k size : Nat)
    (step : ∀ s, Q s → 0 < k * size → k * size ≤ s.w → c s = true → Q (s.emitMany size k)) :
    ∀ s, Q s → Q (whileBlock c k size s) ∧
      ¬ (0 < k * size ∧ k * size ≤ (whileBlock c k size s).w ∧ c (whileBlock c k size s) = true) := by
  intro s
  induction hw : s.w using Nat.strongRecOn generalizing s with
  | _ n ih =>
    intro hq
    rw [whileBlock]
    by_cases h : 0 < k * size ∧ k * size ≤ s.w ∧ c s = true
    · rw [dif_pos h]
      apply ih (s.emitMany size k).w _ (s.emitMany size k) rfl
      · exact step s hq h.1 h.2.1 h.2.2
      · rw [emitMany_w]; omega
    · rw [dif_neg h]
      exact ⟨hq, h⟩

theorem misaligned_iff (al n : Int) (s : RowSt) : misaligned al n s = true ↔ (al + s.d) % n ≠ 0 := by
  unfold misaligned; simp

/-- what a finished row program satisfies -/
structure Done (al a : Int) (W B : Nat) (l : List Store) : Prop where
  tiles : Tiles a l (a + W)
  aligned : ∀ st ∈ l, (al + st.addr) % (st.size : Int) = 0
  sizes : ∀ st ∈ l, B ∣ st.size

theorem done_of_inv {al a : Int} {W B : Nat} {s : RowSt} (h : Inv al a W B s) (hw : s.w = 0) :
    Done al a W B s.out.reverse := by
  have hd : s.d = a + W := by have := h.total; omega
  refine ⟨hd ▸ tiles_of_rev a s.out s.d h.tiles, ?_, ?_⟩
  · intro st hst; exact h.aligned st (List.mem_reverse.1 hst)
  · intro st hst; exact h.sizes st (List.mem_reverse.1 hst)

theorem always_eq (s : RowSt) : always s = true := rfl

/-- one guarded step: the invariant after `k` stores of `size` bytes, plus the facts about the new
pointer and count (linear arithmetic) -/
macro "simd_step" hi:ident hw:ident k:num size:num : tactic =>
  `(tactic| (have hu := ($hi).unitD
             have hv := ($hi).unitW
             show _ ∧ _
             refine ⟨emitMany_inv $size $k $hi $hw (by decide) (by omega)
               (by first | decide | (exfalso; omega)), ?_⟩
             simp only [emitMany_d, emitMany_w]
             omega))

macro "simd_norm" "at" h:ident : tactic =>
  `(tactic| try simp only [misaligned_iff, always_eq, ne_eq, and_true, true_and, not_true_eq_false,
      not_false_eq_true] at $h:ident)

/-- `sse2_fill`, one row: for pixels of `B ∈ {1,2,4}` bytes, a row start that is a multiple of `B` (as a machine address) and a byte width that is a multiple of `B`, the stores tile the row exactly, each is aligned to its size and is a whole number of pixels -/
theorem sse2FillRow_done (al d : Int) (W B : Nat) (hB : B = 1 ∨ B = 2 ∨ B = 4)
    (hd : (B : Int) ∣ al + d) (hw : B ∣ W) : Done al d W B (sse2FillRow al d W) := by
  have i0 := inv_init al d W B hd hw
  unfold sse2FillRow
  simp only []
  generalize (⟨d, W, []⟩ : RowSt) = s0 at i0 ⊢
  have f0 : 0 ≤ s0.w := by omega
  rcases hB with rfl | rfl | rfl
  all_goals
    -- if (w >= 1 && misaligned 2) 1 x 1-byte store
    obtain ⟨i1, f1⟩ := ifBlock_rule (fun _ => True) (fun t => Inv al d W _ t ∧ (((al + t.d) % 2 = 0 ∨ t.w < 1))) (misaligned al 2) 1 1 s0 trivial
      (fun hw hc => by simd_norm at hc; simd_step i0 hw 1 1)
      (fun hn => by simd_norm at hn; exact ⟨i0, by omega⟩)
    generalize ifBlock (misaligned al 2) 1 1 s0 = s1 at i1 f1 ⊢
    clear i0 f0
    -- while (w >= 2 && misaligned 4) 1 x 2-byte store
    obtain ⟨⟨i2, q2⟩, n2⟩ := whileBlock_rule (fun t => Inv al d W _ t ∧ (((al + t.d) % 2 = 0 ∨ t.w < 1)))
      (misaligned al 4) 1 2 (fun t ⟨hi, hf⟩ _ hw hc => by simd_norm at hc; simd_step hi hw 1 2) s1 ⟨i1, by omega⟩
    simd_norm at n2
    generalize whileBlock (misaligned al 4) 1 2 s1 = s2 at i2 q2 n2 ⊢
    have f2 : ((al + s2.d) % 2 = 0 ∨ s2.w < 1) ∧ ((al + s2.d) % 4 = 0 ∨ s2.w < 2) := by
      have hu := i2.unitD
      have hv := i2.unitW
      omega
    clear i1 f1 q2 n2
    -- while (w >= 4 && misaligned 16) 1 x 4-byte store
    obtain ⟨⟨i3, q3⟩, n3⟩ := whileBlock_rule (fun t => Inv al d W _ t ∧ (((al + t.d) % 2 = 0 ∨ t.w < 1) ∧ ((al + t.d) % 4 = 0 ∨ t.w < 2)))
      (misaligned al 16) 1 4 (fun t ⟨hi, hf⟩ _ hw hc => by simd_norm at hc; simd_step hi hw 1 4) s2 ⟨i2, by omega⟩
    simd_norm at n3
    generalize whileBlock (misaligned al 16) 1 4 s2 = s3 at i3 q3 n3 ⊢
    have f3 : ((al + s3.d) % 2 = 0 ∨ s3.w < 1) ∧ ((al + s3.d) % 4 = 0 ∨ s3.w < 2) ∧ ((al + s3.d) % 16 = 0 ∨ s3.w < 4) := by
      have hu := i3.unitD
      have hv := i3.unitW
      omega
    clear i2 f2 q3 n3
    -- while (w >= 128) 8 x 16-byte store
    obtain ⟨⟨i4, q4⟩, n4⟩ := whileBlock_rule (fun t => Inv al d W _ t ∧ (((al + t.d) % 2 = 0 ∨ t.w < 1) ∧ ((al + t.d) % 4 = 0 ∨ t.w < 2) ∧ ((al + t.d) % 16 = 0 ∨ t.w < 4)))
      always 8 16 (fun t ⟨hi, hf⟩ _ hw hc => by simd_step hi hw 8 16) s3 ⟨i3, by omega⟩
    simd_norm at n4
    generalize whileBlock always 8 16 s3 = s4 at i4 q4 n4 ⊢
    have f4 : ((al + s4.d) % 2 = 0 ∨ s4.w < 1) ∧ ((al + s4.d) % 4 = 0 ∨ s4.w < 2) ∧ ((al + s4.d) % 16 = 0 ∨ s4.w < 4) := by
      have hu := i4.unitD
      have hv := i4.unitW
      omega
    clear i3 f3 q4 n4
    -- if (w >= 64) 4 x 16-byte store
    obtain ⟨i5, f5⟩ := ifBlock_rule (fun _ => True) (fun t => Inv al d W _ t ∧ (((al + t.d) % 2 = 0 ∨ t.w < 1) ∧ ((al + t.d) % 4 = 0 ∨ t.w < 2) ∧ ((al + t.d) % 16 = 0 ∨ t.w < 4))) always 4 16 s4 trivial
      (fun hw hc => by simd_step i4 hw 4 16)
      (fun hn => by simd_norm at hn; exact ⟨i4, by omega⟩)
    generalize ifBlock always 4 16 s4 = s5 at i5 f5 ⊢
    clear i4 f4
    -- if (w >= 32) 2 x 16-byte store
    obtain ⟨i6, f6⟩ := ifBlock_rule (fun _ => True) (fun t => Inv al d W _ t ∧ (((al + t.d) % 2 = 0 ∨ t.w < 1) ∧ ((al + t.d) % 4 = 0 ∨ t.w < 2) ∧ ((al + t.d) % 16 = 0 ∨ t.w < 4))) always 2 16 s5 trivial
      (fun hw hc => by simd_step i5 hw 2 16)
      (fun hn => by simd_norm at hn; exact ⟨i5, by omega⟩)
    generalize ifBlock always 2 16 s5 = s6 at i6 f6 ⊢
    clear i5 f5
    -- if (w >= 16) 1 x 16-byte store
    obtain ⟨i7, f7⟩ := ifBlock_rule (fun _ => True) (fun t => Inv al d W _ t ∧ (((al + t.d) % 2 = 0 ∨ t.w < 1) ∧ ((al + t.d) % 4 = 0 ∨ t.w < 2) ∧ ((al + t.d) % 16 = 0 ∨ t.w < 4))) always 1 16 s6 trivial
      (fun hw hc => by simd_step i6 hw 1 16)
      (fun hn => by simd_norm at hn; exact ⟨i6, by omega⟩)
    generalize ifBlock always 1 16 s6 = s7 at i7 f7 ⊢
    clear i6 f6
    -- while (w >= 4) 1 x 4-byte store
    obtain ⟨⟨i8, q8⟩, n8⟩ := whileBlock_rule (fun t => Inv al d W _ t ∧ (((al + t.d) % 2 = 0 ∨ t.w < 1) ∧ ((al + t.d) % 4 = 0 ∨ t.w < 2)))
      always 1 4 (fun t ⟨hi, hf⟩ _ hw hc => by simd_step hi hw 1 4) s7 ⟨i7, by omega⟩
    simd_norm at n8
    generalize whileBlock always 1 4 s7 = s8 at i8 q8 n8 ⊢
    have f8 : ((al + s8.d) % 2 = 0 ∨ s8.w < 1) ∧ ((al + s8.d) % 4 = 0 ∨ s8.w < 2) ∧ s8.w < 4 := by
      have hu := i8.unitD
      have hv := i8.unitW
      omega
    clear i7 f7 q8 n8
    -- if (w >= 2) 1 x 2-byte store
    obtain ⟨i9, f9⟩ := ifBlock_rule (fun _ => True) (fun t => Inv al d W _ t ∧ (((al + t.d) % 2 = 0 ∨ t.w < 1) ∧ t.w < 2)) always 1 2 s8 trivial
      (fun hw hc => by simd_step i8 hw 1 2)
      (fun hn => by simd_norm at hn; exact ⟨i8, by omega⟩)
    generalize ifBlock always 1 2 s8 = s9 at i9 f9 ⊢
    clear i8 f8
    -- if (w >= 1) 1 x 1-byte store
    obtain ⟨i10, f10⟩ := ifBlock_rule (fun _ => True) (fun t => Inv al d W _ t ∧ (t.w < 1)) always 1 1 s9 trivial
      (fun hw hc => by simd_step i9 hw 1 1)
      (fun hn => by simd_norm at hn; exact ⟨i9, by omega⟩)
    generalize ifBlock always 1 1 s9 = s10 at i10 f10 ⊢
    clear i9 f9
    exact done_of_inv i10 (by have hv := i10.unitW; omega)

/-- `mmx_fill`, one row -/
theorem mmxFillRow_done (al d : Int) (W B : Nat) (hB : B = 1 ∨ B = 2 ∨ B = 4)
    (hd : (B : Int) ∣ al + d) (hw : B ∣ W) : Done al d W B (mmxFillRow al d W) := by
  have i0 := inv_init al d W B hd hw
  unfold mmxFillRow
  simp only []
  generalize (⟨d, W, []⟩ : RowSt) = s0 at i0 ⊢
  have f0 : 0 ≤ s0.w := by omega
  rcases hB with rfl | rfl | rfl
  all_goals
    -- if (w >= 1 && misaligned 2) 1 x 1-byte store
    obtain ⟨i1, f1⟩ := ifBlock_rule (fun _ => True) (fun t => Inv al d W _ t ∧ (((al + t.d) % 2 = 0 ∨ t.w < 1))) (misaligned al 2) 1 1 s0 trivial
      (fun hw hc => by simd_norm at hc; simd_step i0 hw 1 1)
      (fun hn => by simd_norm at hn; exact ⟨i0, by omega⟩)
    generalize ifBlock (misaligned al 2) 1 1 s0 = s1 at i1 f1 ⊢
    clear i0 f0
    -- if (w >= 2 && misaligned 4) 1 x 2-byte store
    obtain ⟨i2, f2⟩ := ifBlock_rule (fun _ => True) (fun t => Inv al d W _ t ∧ (((al + t.d) % 2 = 0 ∨ t.w < 1) ∧ ((al + t.d) % 4 = 0 ∨ t.w < 2))) (misaligned al 4) 1 2 s1 trivial
      (fun hw hc => by simd_norm at hc; simd_step i1 hw 1 2)
      (fun hn => by simd_norm at hn; exact ⟨i1, by omega⟩)
    generalize ifBlock (misaligned al 4) 1 2 s1 = s2 at i2 f2 ⊢
    clear i1 f1
    -- while (w >= 4 && misaligned 8) 1 x 4-byte store
    obtain ⟨⟨i3, q3⟩, n3⟩ := whileBlock_rule (fun t => Inv al d W _ t ∧ (((al + t.d) % 2 = 0 ∨ t.w < 1) ∧ ((al + t.d) % 4 = 0 ∨ t.w < 2)))
      (misaligned al 8) 1 4 (fun t ⟨hi, hf⟩ _ hw hc => by simd_norm at hc; simd_step hi hw 1 4) s2 ⟨i2, by omega⟩
    simd_norm at n3
    generalize whileBlock (misaligned al 8) 1 4 s2 = s3 at i3 q3 n3 ⊢
    have f3 : ((al + s3.d) % 2 = 0 ∨ s3.w < 1) ∧ ((al + s3.d) % 4 = 0 ∨ s3.w < 2) ∧ ((al + s3.d) % 8 = 0 ∨ s3.w < 4) := by
      have hu := i3.unitD
      have hv := i3.unitW
      omega
    clear i2 f2 q3 n3
    -- while (w >= 64) 8 x 8-byte store
    obtain ⟨⟨i4, q4⟩, n4⟩ := whileBlock_rule (fun t => Inv al d W _ t ∧ (((al + t.d) % 2 = 0 ∨ t.w < 1) ∧ ((al + t.d) % 4 = 0 ∨ t.w < 2) ∧ ((al + t.d) % 8 = 0 ∨ t.w < 4)))
      always 8 8 (fun t ⟨hi, hf⟩ _ hw hc => by simd_step hi hw 8 8) s3 ⟨i3, by omega⟩
    simd_norm at n4
    generalize whileBlock always 8 8 s3 = s4 at i4 q4 n4 ⊢
    have f4 : ((al + s4.d) % 2 = 0 ∨ s4.w < 1) ∧ ((al + s4.d) % 4 = 0 ∨ s4.w < 2) ∧ ((al + s4.d) % 8 = 0 ∨ s4.w < 4) := by
      have hu := i4.unitD
      have hv := i4.unitW
      omega
    clear i3 f3 q4 n4
    -- while (w >= 4) 1 x 4-byte store
    obtain ⟨⟨i5, q5⟩, n5⟩ := whileBlock_rule (fun t => Inv al d W _ t ∧ (((al + t.d) % 2 = 0 ∨ t.w < 1) ∧ ((al + t.d) % 4 = 0 ∨ t.w < 2)))
      always 1 4 (fun t ⟨hi, hf⟩ _ hw hc => by simd_step hi hw 1 4) s4 ⟨i4, by omega⟩
    simd_norm at n5
    generalize whileBlock always 1 4 s4 = s5 at i5 q5 n5 ⊢
    have f5 : ((al + s5.d) % 2 = 0 ∨ s5.w < 1) ∧ ((al + s5.d) % 4 = 0 ∨ s5.w < 2) ∧ s5.w < 4 := by
      have hu := i5.unitD
      have hv := i5.unitW
      omega
    clear i4 f4 q5 n5
    -- if (w >= 2) 1 x 2-byte store
    obtain ⟨i6, f6⟩ := ifBlock_rule (fun _ => True) (fun t => Inv al d W _ t ∧ (((al + t.d) % 2 = 0 ∨ t.w < 1) ∧ t.w < 2)) always 1 2 s5 trivial
      (fun hw hc => by simd_step i5 hw 1 2)
      (fun hn => by simd_norm at hn; exact ⟨i5, by omega⟩)
    generalize ifBlock always 1 2 s5 = s6 at i6 f6 ⊢
    clear i5 f5
    -- if (w >= 1) 1 x 1-byte store
    obtain ⟨i7, f7⟩ := ifBlock_rule (fun _ => True) (fun t => Inv al d W _ t ∧ (t.w < 1)) always 1 1 s6 trivial
      (fun hw hc => by simd_step i6 hw 1 1)
      (fun hn => by simd_norm at hn; exact ⟨i6, by omega⟩)
    generalize ifBlock always 1 1 s6 = s7 at i7 f7 ⊢
    clear i6 f6
    exact done_of_inv i7 (by have hv := i7.unitW; omega)

/-- `sse2_blt`, one row (16 and 32 bpp: `B ∈ {2,4}`) -/
theorem sse2BltRow_done (al d : Int) (W B : Nat) (hB : B = 2 ∨ B = 4)
    (hd : (B : Int) ∣ al + d) (hw : B ∣ W) : Done al d W B (sse2BltRow al d W) := by
  have i0 := inv_init al d W B hd hw
  unfold sse2BltRow
  simp only []
  generalize (⟨d, W, []⟩ : RowSt) = s0 at i0 ⊢
  have f0 : 0 ≤ s0.w := by omega
  rcases hB with rfl | rfl
  all_goals
    -- while (w >= 2 && misaligned 4) 1 x 2-byte store
    obtain ⟨⟨i1, q1⟩, n1⟩ := whileBlock_rule (fun t => Inv al d W _ t ∧ (0 ≤ t.w))
      (misaligned al 4) 1 2 (fun t ⟨hi, hf⟩ _ hw hc => by simd_norm at hc; simd_step hi hw 1 2) s0 ⟨i0, by omega⟩
    simd_norm at n1
    generalize whileBlock (misaligned al 4) 1 2 s0 = s1 at i1 q1 n1 ⊢
    have f1 : ((al + s1.d) % 4 = 0 ∨ s1.w < 2) := by
      have hu := i1.unitD
      have hv := i1.unitW
      omega
    clear i0 f0 q1 n1
    -- while (w >= 4 && misaligned 16) 1 x 4-byte store
    obtain ⟨⟨i2, q2⟩, n2⟩ := whileBlock_rule (fun t => Inv al d W _ t ∧ (((al + t.d) % 4 = 0 ∨ t.w < 2)))
      (misaligned al 16) 1 4 (fun t ⟨hi, hf⟩ _ hw hc => by simd_norm at hc; simd_step hi hw 1 4) s1 ⟨i1, by omega⟩
    simd_norm at n2
    generalize whileBlock (misaligned al 16) 1 4 s1 = s2 at i2 q2 n2 ⊢
    have f2 : ((al + s2.d) % 4 = 0 ∨ s2.w < 2) ∧ ((al + s2.d) % 16 = 0 ∨ s2.w < 4) := by
      have hu := i2.unitD
      have hv := i2.unitW
      omega
    clear i1 f1 q2 n2
    -- while (w >= 64) 4 x 16-byte store
    obtain ⟨⟨i3, q3⟩, n3⟩ := whileBlock_rule (fun t => Inv al d W _ t ∧ (((al + t.d) % 4 = 0 ∨ t.w < 2) ∧ ((al + t.d) % 16 = 0 ∨ t.w < 4)))
      always 4 16 (fun t ⟨hi, hf⟩ _ hw hc => by simd_step hi hw 4 16) s2 ⟨i2, by omega⟩
    simd_norm at n3
    generalize whileBlock always 4 16 s2 = s3 at i3 q3 n3 ⊢
    have f3 : ((al + s3.d) % 4 = 0 ∨ s3.w < 2) ∧ ((al + s3.d) % 16 = 0 ∨ s3.w < 4) := by
      have hu := i3.unitD
      have hv := i3.unitW
      omega
    clear i2 f2 q3 n3
    -- while (w >= 16) 1 x 16-byte store
    obtain ⟨⟨i4, q4⟩, n4⟩ := whileBlock_rule (fun t => Inv al d W _ t ∧ (((al + t.d) % 4 = 0 ∨ t.w < 2) ∧ ((al + t.d) % 16 = 0 ∨ t.w < 4)))
      always 1 16 (fun t ⟨hi, hf⟩ _ hw hc => by simd_step hi hw 1 16) s3 ⟨i3, by omega⟩
    simd_norm at n4
    generalize whileBlock always 1 16 s3 = s4 at i4 q4 n4 ⊢
    have f4 : ((al + s4.d) % 4 = 0 ∨ s4.w < 2) ∧ ((al + s4.d) % 16 = 0 ∨ s4.w < 4) := by
      have hu := i4.unitD
      have hv := i4.unitW
      omega
    clear i3 f3 q4 n4
    -- while (w >= 4) 1 x 4-byte store
    obtain ⟨⟨i5, q5⟩, n5⟩ := whileBlock_rule (fun t => Inv al d W _ t ∧ (((al + t.d) % 4 = 0 ∨ t.w < 2)))
      always 1 4 (fun t ⟨hi, hf⟩ _ hw hc => by simd_step hi hw 1 4) s4 ⟨i4, by omega⟩
    simd_norm at n5
    generalize whileBlock always 1 4 s4 = s5 at i5 q5 n5 ⊢
    have f5 : ((al + s5.d) % 4 = 0 ∨ s5.w < 2) ∧ s5.w < 4 := by
      have hu := i5.unitD
      have hv := i5.unitW
      omega
    clear i4 f4 q5 n5
    -- if (w >= 2) 1 x 2-byte store
    obtain ⟨i6, f6⟩ := ifBlock_rule (fun _ => True) (fun t => Inv al d W _ t ∧ (t.w < 2)) always 1 2 s5 trivial
      (fun hw hc => by simd_step i5 hw 1 2)
      (fun hn => by simd_norm at hn; exact ⟨i5, by omega⟩)
    generalize ifBlock always 1 2 s5 = s6 at i6 f6 ⊢
    clear i5 f5
    exact done_of_inv i6 (by have hv := i6.unitW; omega)

/-- `mmx_blt`, one row (16 and 32 bpp: `B ∈ {2,4}`) -/
theorem mmxBltRow_done (al d : Int) (W B : Nat) (hB : B = 2 ∨ B = 4)
    (hd : (B : Int) ∣ al + d) (hw : B ∣ W) : Done al d W B (mmxBltRow al d W) := by
  have i0 := inv_init al d W B hd hw
  unfold mmxBltRow
  simp only []
  generalize (⟨d, W, []⟩ : RowSt) = s0 at i0 ⊢
  have f0 : 0 ≤ s0.w := by omega
  rcases hB with rfl | rfl
  all_goals
    -- if (w >= 1 && misaligned 2) 1 x 1-byte store
    obtain ⟨i1, f1⟩ := ifBlock_rule (fun _ => True) (fun t => Inv al d W _ t ∧ (((al + t.d) % 2 = 0 ∨ t.w < 1))) (misaligned al 2) 1 1 s0 trivial
      (fun hw hc => by simd_norm at hc; simd_step i0 hw 1 1)
      (fun hn => by simd_norm at hn; exact ⟨i0, by omega⟩)
    generalize ifBlock (misaligned al 2) 1 1 s0 = s1 at i1 f1 ⊢
    clear i0 f0
    -- if (w >= 2 && misaligned 4) 1 x 2-byte store
    obtain ⟨i2, f2⟩ := ifBlock_rule (fun _ => True) (fun t => Inv al d W _ t ∧ (((al + t.d) % 2 = 0 ∨ t.w < 1) ∧ ((al + t.d) % 4 = 0 ∨ t.w < 2))) (misaligned al 4) 1 2 s1 trivial
      (fun hw hc => by simd_norm at hc; simd_step i1 hw 1 2)
      (fun hn => by simd_norm at hn; exact ⟨i1, by omega⟩)
    generalize ifBlock (misaligned al 4) 1 2 s1 = s2 at i2 f2 ⊢
    clear i1 f1
    -- while (w >= 4 && misaligned 8) 1 x 4-byte store
    obtain ⟨⟨i3, q3⟩, n3⟩ := whileBlock_rule (fun t => Inv al d W _ t ∧ (((al + t.d) % 2 = 0 ∨ t.w < 1) ∧ ((al + t.d) % 4 = 0 ∨ t.w < 2)))
      (misaligned al 8) 1 4 (fun t ⟨hi, hf⟩ _ hw hc => by simd_norm at hc; simd_step hi hw 1 4) s2 ⟨i2, by omega⟩
    simd_norm at n3
    generalize whileBlock (misaligned al 8) 1 4 s2 = s3 at i3 q3 n3 ⊢
    have f3 : ((al + s3.d) % 2 = 0 ∨ s3.w < 1) ∧ ((al + s3.d) % 4 = 0 ∨ s3.w < 2) ∧ ((al + s3.d) % 8 = 0 ∨ s3.w < 4) := by
      have hu := i3.unitD
      have hv := i3.unitW
      omega
    clear i2 f2 q3 n3
    -- while (w >= 64) 8 x 8-byte store
    obtain ⟨⟨i4, q4⟩, n4⟩ := whileBlock_rule (fun t => Inv al d W _ t ∧ (((al + t.d) % 2 = 0 ∨ t.w < 1) ∧ ((al + t.d) % 4 = 0 ∨ t.w < 2) ∧ ((al + t.d) % 8 = 0 ∨ t.w < 4)))
      always 8 8 (fun t ⟨hi, hf⟩ _ hw hc => by simd_step hi hw 8 8) s3 ⟨i3, by omega⟩
    simd_norm at n4
    generalize whileBlock always 8 8 s3 = s4 at i4 q4 n4 ⊢
    have f4 : ((al + s4.d) % 2 = 0 ∨ s4.w < 1) ∧ ((al + s4.d) % 4 = 0 ∨ s4.w < 2) ∧ ((al + s4.d) % 8 = 0 ∨ s4.w < 4) := by
      have hu := i4.unitD
      have hv := i4.unitW
      omega
    clear i3 f3 q4 n4
    -- while (w >= 4) 1 x 4-byte store
    obtain ⟨⟨i5, q5⟩, n5⟩ := whileBlock_rule (fun t => Inv al d W _ t ∧ (((al + t.d) % 2 = 0 ∨ t.w < 1) ∧ ((al + t.d) % 4 = 0 ∨ t.w < 2)))
      always 1 4 (fun t ⟨hi, hf⟩ _ hw hc => by simd_step hi hw 1 4) s4 ⟨i4, by omega⟩
    simd_norm at n5
    generalize whileBlock always 1 4 s4 = s5 at i5 q5 n5 ⊢
    have f5 : ((al + s5.d) % 2 = 0 ∨ s5.w < 1) ∧ ((al + s5.d) % 4 = 0 ∨ s5.w < 2) ∧ s5.w < 4 := by
      have hu := i5.unitD
      have hv := i5.unitW
      omega
    clear i4 f4 q5 n5
    -- if (w >= 2) 1 x 2-byte store
    obtain ⟨i6, f6⟩ := ifBlock_rule (fun _ => True) (fun t => Inv al d W _ t ∧ (t.w < 2)) always 1 2 s5 trivial
      (fun hw hc => by simd_step i5 hw 1 2)
      (fun hn => by simd_norm at hn; exact ⟨i5, by omega⟩)
    generalize ifBlock always 1 2 s5 = s6 at i6 f6 ⊢
    clear i5 f5
    exact done_of_inv i6 (by have hv := i6.unitW; omega)

end Pixman.Lemmas.FillSimd

import Pixman.Lemmas.RegionSweep
/-! Bounding boxes as a property of the point set; `setExtents`; canonical region objects. -/
set_option linter.unusedSimpArgs false
set_option linter.unusedVariables false
namespace Pixman.Region

/-- `e` is the tight bounding box of the (non-empty) point set `S` -/
def PtBBox (e : Box) (S : Int → Int → Prop) : Prop :=
  (∀ x y, S x y → e.Mem x y) ∧ (∃ y, S e.x1 y) ∧ (∃ y, S (e.x2 - 1) y) ∧
  (∃ x, S x e.y1) ∧ (∃ x, S x (e.y2 - 1))

theorem PtBBox.congr {e : Box} {S S' : Int → Int → Prop} (h : PtBBox e S)
    (hs : ∀ x y, S x y ↔ S' x y) : PtBBox e S' := by
  obtain ⟨h1, ⟨a, ha⟩, ⟨b, hb⟩, ⟨c, hc⟩, ⟨d, hd⟩⟩ := h
  exact ⟨fun x y h => h1 x y ((hs x y).2 h), ⟨a, (hs _ _).1 ha⟩, ⟨b, (hs _ _).1 hb⟩,
    ⟨c, (hs _ _).1 hc⟩, ⟨d, (hs _ _).1 hd⟩⟩

theorem Box.ext' {a b : Box} (h1 : a.x1 = b.x1) (h2 : a.y1 = b.y1) (h3 : a.x2 = b.x2)
    (h4 : a.y2 = b.y2) : a = b := by
  cases a; cases b; simp only at *; simp [*]

theorem PtBBox.unique {e e' : Box} {S : Int → Int → Prop} (h : PtBBox e S) (h' : PtBBox e' S) :
    e = e' := by
  obtain ⟨h1, ⟨a, ha⟩, ⟨b, hb⟩, ⟨c, hc⟩, ⟨d, hd⟩⟩ := h
  obtain ⟨h1', ⟨a', ha'⟩, ⟨b', hb'⟩, ⟨c', hc'⟩, ⟨d', hd'⟩⟩ := h'
  have p1 := h1' _ _ ha; have p2 := h1' _ _ hb; have p3 := h1' _ _ hc; have p4 := h1' _ _ hd
  have q1 := h1 _ _ ha'; have q2 := h1 _ _ hb'; have q3 := h1 _ _ hc'; have q4 := h1 _ _ hd'
  simp only [Box.Mem] at *
  apply Box.ext' <;> omega

theorem goodRect_iff (b : Box) : goodRect b = true ↔ b.x1 < b.x2 ∧ b.y1 < b.y2 := by
  simp [goodRect]

theorem ptBBox_single {e : Box} (h : goodRect e = true) : PtBBox e (MemL [e]) := by
  have ⟨h1, h2⟩ := (goodRect_iff e).1 h
  simp only [PtBBox, memL_cons', memL_nil', or_false, Box.Mem]
  exact ⟨fun x y h => h, ⟨e.y1, by omega⟩, ⟨e.y1, by omega⟩, ⟨e.x1, by omega⟩, ⟨e.x1, by omega⟩⟩

/-- bounding box of two boxes -/
def bboxUnion (e1 e2 : Box) : Box :=
  ⟨min e1.x1 e2.x1, min e1.y1 e2.y1, max e1.x2 e2.x2, max e1.y2 e2.y2⟩

theorem ptBBox_union {e1 e2 : Box} {S1 S2 S : Int → Int → Prop} (h1 : PtBBox e1 S1)
    (h2 : PtBBox e2 S2) (hs : ∀ x y, S x y ↔ S1 x y ∨ S2 x y) : PtBBox (bboxUnion e1 e2) S := by
  obtain ⟨c1, ⟨a, ha⟩, ⟨b, hb⟩, ⟨c, hc⟩, ⟨d, hd⟩⟩ := h1
  obtain ⟨c2, ⟨a', ha'⟩, ⟨b', hb'⟩, ⟨c', hc'⟩, ⟨d', hd'⟩⟩ := h2
  refine ⟨fun x y h => ?_, ?_, ?_, ?_, ?_⟩
  · rcases (hs x y).1 h with h | h
    · have := c1 x y h; simp only [Box.Mem, bboxUnion] at *; omega
    · have := c2 x y h; simp only [Box.Mem, bboxUnion] at *; omega
  · simp only [bboxUnion]
    by_cases h : e1.x1 ≤ e2.x1
    · rw [Int.min_eq_left h]; exact ⟨a, (hs _ _).2 (Or.inl ha)⟩
    · rw [Int.min_eq_right (by omega)]; exact ⟨a', (hs _ _).2 (Or.inr ha')⟩
  · simp only [bboxUnion]
    by_cases h : e1.x2 ≤ e2.x2
    · rw [Int.max_eq_right h]; exact ⟨b', (hs _ _).2 (Or.inr hb')⟩
    · rw [Int.max_eq_left (by omega)]; exact ⟨b, (hs _ _).2 (Or.inl hb)⟩
  · simp only [bboxUnion]
    by_cases h : e1.y1 ≤ e2.y1
    · rw [Int.min_eq_left h]; exact ⟨c, (hs _ _).2 (Or.inl hc)⟩
    · rw [Int.min_eq_right (by omega)]; exact ⟨c', (hs _ _).2 (Or.inr hc')⟩
  · simp only [bboxUnion]
    by_cases h : e1.y2 ≤ e2.y2
    · rw [Int.max_eq_right h]; exact ⟨d', (hs _ _).2 (Or.inr hd')⟩
    · rw [Int.max_eq_left (by omega)]; exact ⟨d, (hs _ _).2 (Or.inl hd)⟩

/-! ### canonical lists: every box is good; bounding boxes by points -/

theorem mem_flat' {bs : List Band'} {q : Box} : q ∈ flat' bs ↔ ∃ b ∈ bs, q ∈ b.2.2 := by
  simp only [flat', List.mem_flatten, List.mem_map]
  constructor
  · rintro ⟨l, ⟨b, hb, rfl⟩, hq⟩; exact ⟨b, hb, hq⟩
  · rintro ⟨b, hb, hq⟩; exact ⟨_, ⟨b, hb, rfl⟩, hq⟩

theorem IsBand'.good {b : Band'} (h : IsBand' b) {q : Box} (hq : q ∈ b.2.2) :
    goodRect q = true ∧ q.y1 = b.1 ∧ q.y2 = b.2.1 := by
  have ⟨e1, e2⟩ := h.allY q hq
  obtain ⟨v, hv⟩ := (spansSep_iff _).1 h.sep
  have hx := (hv.mem hq).2
  have := h.lt
  exact ⟨(goodRect_iff q).2 ⟨hx, by omega⟩, e1, e2⟩

theorem canonList_good' {l : List Box} (h : CanonList l) : ∀ q ∈ l, goodRect q = true := by
  obtain ⟨bs, hB, rfl⟩ := h
  intro q hq
  obtain ⟨b, hb, hq⟩ := mem_flat'.1 hq
  exact ((bandsOK_isBand hB b hb).good hq).1

theorem memL_corner {l : List Box} {q : Box} (hq : q ∈ l) (hg : goodRect q = true) :
    MemL l q.x1 q.y1 ∧ MemL l (q.x2 - 1) q.y1 ∧ MemL l q.x1 (q.y2 - 1) := by
  have ⟨h1, h2⟩ := (goodRect_iff q).1 hg
  exact ⟨⟨q, hq, by simp only [Box.Mem]; omega⟩, ⟨q, hq, by simp only [Box.Mem]; omega⟩,
    ⟨q, hq, by simp only [Box.Mem]; omega⟩⟩

theorem isBBox_iff_ptBBox {l : List Box} (hg : ∀ q ∈ l, goodRect q = true) (e : Box) :
    IsBBox e l ↔ PtBBox e (MemL l) := by
  constructor
  · rintro ⟨h1, ⟨a, ha, ea⟩, ⟨b, hb, eb⟩, ⟨c, hc, ec⟩, ⟨d, hd, ed⟩⟩
    refine ⟨?_, ?_, ?_, ?_, ?_⟩
    · rintro x y ⟨q, hq, hm⟩
      have := h1 q hq
      simp only [Box.Mem] at *; omega
    · exact ⟨a.y1, ea ▸ (memL_corner ha (hg a ha)).1⟩
    · exact ⟨b.y1, eb ▸ (memL_corner hb (hg b hb)).2.1⟩
    · exact ⟨c.x1, ec ▸ (memL_corner hc (hg c hc)).1⟩
    · exact ⟨d.x1, ed ▸ (memL_corner hd (hg d hd)).2.2⟩
  · rintro ⟨h1, ⟨a, q1, hq1, m1⟩, ⟨b, q2, hq2, m2⟩, ⟨c, q3, hq3, m3⟩, ⟨d, q4, hq4, m4⟩⟩
    have hin : ∀ q ∈ l, e.x1 ≤ q.x1 ∧ q.x2 ≤ e.x2 ∧ e.y1 ≤ q.y1 ∧ q.y2 ≤ e.y2 := by
      intro q hq
      have ⟨c1, c2, c3⟩ := memL_corner hq (hg q hq)
      have := h1 _ _ c1; have := h1 _ _ c2; have := h1 _ _ c3
      simp only [Box.Mem] at *; omega
    have := hin q1 hq1; have := hin q2 hq2; have := hin q3 hq3; have := hin q4 hq4
    simp only [Box.Mem] at m1 m2 m3 m4
    exact ⟨hin, ⟨q1, hq1, by omega⟩, ⟨q2, hq2, by omega⟩, ⟨q3, hq3, by omega⟩, ⟨q4, hq4, by omega⟩⟩


/-! ### pixman_set_extents -/

theorem foldl_minX1 (l : List Box) (init : Int) :
    l.foldl (fun m q => if q.x1 < m then q.x1 else m) init ≤ init ∧
    (∀ q ∈ l, l.foldl (fun m q => if q.x1 < m then q.x1 else m) init ≤ q.x1) ∧
    (l.foldl (fun m q => if q.x1 < m then q.x1 else m) init = init ∨
      ∃ q ∈ l, q.x1 = l.foldl (fun m q => if q.x1 < m then q.x1 else m) init) := by
  induction l generalizing init with
  | nil => simp
  | cons a t ih =>
    simp only [List.foldl_cons]
    have ⟨h1, h2, h3⟩ := ih (if a.x1 < init then a.x1 else init)
    by_cases c : a.x1 < init
    · simp only [c, if_true] at h1 h2 h3 ⊢
      refine ⟨by omega, ?_, ?_⟩
      · intro q hq
        rcases List.mem_cons.1 hq with rfl | hq
        · omega
        · exact h2 q hq
      · rcases h3 with h3 | ⟨q, hq, e⟩
        · exact Or.inr ⟨a, List.mem_cons_self, h3.symm⟩
        · exact Or.inr ⟨q, List.mem_cons_of_mem _ hq, e⟩
    · simp only [c, if_false] at h1 h2 h3 ⊢
      refine ⟨by omega, ?_, ?_⟩
      · intro q hq
        rcases List.mem_cons.1 hq with rfl | hq
        · omega
        · exact h2 q hq
      · rcases h3 with h3 | ⟨q, hq, e⟩
        · exact Or.inl h3
        · exact Or.inr ⟨q, List.mem_cons_of_mem _ hq, e⟩

theorem foldl_maxX2 (l : List Box) (init : Int) :
    init ≤ l.foldl (fun m q => if q.x2 > m then q.x2 else m) init ∧
    (∀ q ∈ l, q.x2 ≤ l.foldl (fun m q => if q.x2 > m then q.x2 else m) init) ∧
    (l.foldl (fun m q => if q.x2 > m then q.x2 else m) init = init ∨
      ∃ q ∈ l, q.x2 = l.foldl (fun m q => if q.x2 > m then q.x2 else m) init) := by
  induction l generalizing init with
  | nil => simp
  | cons a t ih =>
    simp only [List.foldl_cons]
    have ⟨h1, h2, h3⟩ := ih (if a.x2 > init then a.x2 else init)
    by_cases c : a.x2 > init
    · simp only [c, if_true] at h1 h2 h3 ⊢
      refine ⟨by omega, ?_, ?_⟩
      · intro q hq
        rcases List.mem_cons.1 hq with rfl | hq
        · omega
        · exact h2 q hq
      · rcases h3 with h3 | ⟨q, hq, e⟩
        · exact Or.inr ⟨a, List.mem_cons_self, h3.symm⟩
        · exact Or.inr ⟨q, List.mem_cons_of_mem _ hq, e⟩
    · simp only [c, if_false] at h1 h2 h3 ⊢
      refine ⟨by omega, ?_, ?_⟩
      · intro q hq
        rcases List.mem_cons.1 hq with rfl | hq
        · omega
        · exact h2 q hq
      · rcases h3 with h3 | ⟨q, hq, e⟩
        · exact Or.inl h3
        · exact Or.inr ⟨q, List.mem_cons_of_mem _ hq, e⟩

/-- in a canonical list the first box is topmost and the last box is bottommost -/
theorem canonList_head_last {l : List Box} (h : CanonList l) {b e : Box} {rest : List Box}
    (hl : l = b :: rest) (he : l.getLast? = some e) :
    ∀ q ∈ l, b.y1 ≤ q.y1 ∧ q.y2 ≤ e.y2 := by
  obtain ⟨bs, hB, hl0⟩ := h
  have hl0 : l = flat' bs := hl0
  subst hl0
  intro q hq
  obtain ⟨d, hd, hqd⟩ := mem_flat'.1 hq
  have hdB := bandsOK_isBand hB d hd
  have ⟨_, hq1, hq2⟩ := hdB.good hqd
  constructor
  · cases bs with
    | nil => cases hd
    | cons b0 t =>
      have hb0 := bandsOK_isBand hB b0 List.mem_cons_self
      have hby : b.y1 = b0.1 := by
        rw [flat_cons'] at hl
        cases hs : b0.2.2 with
        | nil => exact absurd hs hb0.ne_nil
        | cons d0 ds =>
          rw [hs] at hl
          simp only [List.cons_append, List.cons.injEq] at hl
          have := (hb0.allY d0 (by rw [hs]; exact List.mem_cons_self)).1
          rw [← hl.1]; exact this
      rcases List.mem_cons.1 hd with rfl | hd
      · omega
      · have := bandsOK_y1_le hB d hd
        have := hb0.lt
        omega
  · rcases List.eq_nil_or_concat bs with rfl | ⟨bs', c, rfl⟩
    · cases hd
    · rw [List.concat_eq_append] at hB hd he
      have hc := ((bandsOK_snoc' _ _).1 hB).2.1
      have hey : e.y2 = c.2.1 := by
        rw [flat_append', flat_cons', flat_nil', List.append_nil, List.getLast?_append] at he
        cases hs : c.2.2.getLast? with
        | none =>
          exact absurd (List.getLast?_eq_none_iff.1 hs) hc.ne_nil
        | some e' =>
          rw [hs] at he
          simp only [Option.some_or, Option.some.injEq] at he
          subst he
          exact (hc.allY e' (List.mem_of_getLast? hs)).2
      rcases List.mem_append.1 hd with hd | hd
      · have := bandsOK_snoc_y2_le hB d hd
        have := hc.lt
        omega
      · simp only [List.mem_singleton] at hd
        subst hd; omega

/-- a region whose rectangle data is canonical, whatever its extents -/
def CanonData (r : Region) : Prop :=
  match r.data with
  | .single => goodRect r.extents = true
  | .emptyStatic => True
  | .broken => False
  | .heap l => 2 ≤ l.length ∧ CanonList l

theorem Canon.canonData {r : Region} (h : Canon r) : CanonData r := by
  unfold Canon at h; unfold CanonData
  split <;> simp_all

theorem setExtents_rects (r : Region) : (setExtents r).rects = r.rects := by
  unfold setExtents
  split
  · rfl
  · rename_i h; simp only [Region.rects, h]
  · rename_i h; simp only [Region.rects, h]
  · rename_i l h
    split
    · simp only [Region.rects, h]
    · rfl

theorem setExtents_canon {r : Region} (h : CanonData r) : Canon (setExtents r) := by
  unfold CanonData at h
  unfold setExtents
  split
  · rename_i hd; simp only [hd] at h; simp only [Canon, hd]; exact h
  · rename_i hd; simp only [Canon, hd]
  · rename_i hd; simp only [hd] at h
  · rename_i l hd
    simp only [hd] at h
    obtain ⟨hlen, hC⟩ := h
    split
    · rename_i b rest e he
      simp only [Canon, hd]
      refine ⟨hlen, hC, ?_⟩
      have hhl := canonList_head_last hC rfl he
      have hb : b ∈ b :: rest := List.mem_cons_self
      have hemem : e ∈ b :: rest := List.mem_of_getLast? he
      have ⟨m1, m2, m3⟩ := foldl_minX1 (b :: rest) b.x1
      have ⟨n1, n2, n3⟩ := foldl_maxX2 (b :: rest) e.x2
      refine ⟨fun q hq => ⟨m2 q hq, n2 q hq, (hhl q hq).1, (hhl q hq).2⟩, ?_, ?_, ⟨b, hb, rfl⟩,
        ⟨e, hemem, rfl⟩⟩
      · rcases m3 with m3 | m3
        · exact ⟨b, hb, m3.symm⟩
        · exact m3
      · rcases n3 with n3 | n3
        · exact ⟨e, hemem, n3.symm⟩
        · exact n3
    · rename_i l' _ _ hne
      exfalso
      cases l' with
      | nil => simp at hlen
      | cons b rest =>
        cases hg : (b :: rest).getLast? with
        | none => simp at hg
        | some e => exact hne b rest e rfl hg

end Pixman.Region

import Pixman.Model.GlyphDraw
import Pixman.Props.C03Final
import Pixman.Lemmas.RegionDisjoint
/-!
  Glyph drawing decomposes per glyph (model level).  Every composite loop (the box loop of
  pixman_image_composite32, the glyph × region-box loop of pixman_composite_glyphs_no_mask, the
  glyph loop of add_glyphs) is reduced to `paintSet`: the per-pixel combiner applied once to each
  pixel of a point set, with source and mask sampled at a fixed offset from the pixel.
-/
namespace Pixman.GlyphDraw
open Pixman.Region Pixman.CompositeRegion

/-- the per-pixel combiner applied to exactly the pixels of `P`; source sampled at
    `(x + sox, y + soy)`, mask at `(x + mox, y + moy)` -/
noncomputable def paintSet (comb : Comb) (sA mA : Sampler) (P : Int → Int → Prop)
    (sox soy mox moy : Int) (d : Canvas) : Canvas := fun x y =>
  open Classical in
  if P x y then comb (sA (x + sox) (y + soy)) (mA (x + mox) (y + moy)) (d x y) else d x y

theorem paintSet_congr {comb : Comb} {sA mA : Sampler} {P Q : Int → Int → Prop}
    (h : ∀ x y, P x y ↔ Q x y) (sox soy mox moy : Int) (d : Canvas) :
    paintSet comb sA mA P sox soy mox moy d = paintSet comb sA mA Q sox soy mox moy d := by
  funext x y
  unfold paintSet
  by_cases hp : P x y
  · rw [if_pos hp, if_pos ((h x y).1 hp)]
  · rw [if_neg hp, if_neg (fun hq => hp ((h x y).2 hq))]

theorem paintSet_empty {comb : Comb} {sA mA : Sampler} {P : Int → Int → Prop}
    (h : ∀ x y, ¬ P x y) (sox soy mox moy : Int) (d : Canvas) :
    paintSet comb sA mA P sox soy mox moy d = d := by
  funext x y
  unfold paintSet
  rw [if_neg (h x y)]

/-- the rectangle of an info -/
def InfoRect (i : Info) (x y : Int) : Prop := InRect i.destX i.destY i.width i.height x y

/-- source and mask origins move with the box -/
def Consistent (sox soy mox moy : Int) (i : Info) : Prop :=
  i.srcX - i.destX = sox ∧ i.srcY - i.destY = soy ∧ i.maskX - i.destX = mox ∧ i.maskY - i.destY = moy

/-- a loop of composite-function calls over pairwise disjoint rectangles with consistent origins
    paints the union of the rectangles once -/
theorem foldl_paintRect (comb : Comb) (sA mA : Sampler) (sox soy mox moy : Int) :
    ∀ (L : List Info) (d : Canvas), (∀ i ∈ L, Consistent sox soy mox moy i) →
      L.Pairwise (fun i j => ∀ x y, ¬(InfoRect i x y ∧ InfoRect j x y)) →
      L.foldl (fun d i => paintRect comb sA mA i d) d =
        paintSet comb sA mA (fun x y => ∃ i ∈ L, InfoRect i x y) sox soy mox moy d := by
  intro L
  induction L with
  | nil =>
    intro d _ _
    exact (paintSet_empty (fun x y h => by obtain ⟨i, hi, _⟩ := h; cases hi) _ _ _ _ d).symm
  | cons i L ih =>
    intro d hc hd
    rw [List.foldl_cons, ih _ (fun j hj => hc j (List.mem_cons_of_mem _ hj)) (List.pairwise_cons.1 hd).2]
    have hci := hc i List.mem_cons_self
    have hdi := (List.pairwise_cons.1 hd).1
    funext x y
    unfold paintSet
    by_cases hi : InfoRect i x y
    · have hnot : ¬ ∃ j ∈ L, InfoRect j x y := fun ⟨j, hj, hjr⟩ => hdi j hj x y ⟨hi, hjr⟩
      rw [if_neg hnot, if_pos ⟨i, List.mem_cons_self, hi⟩]
      unfold paintRect
      have hi' : i.destX ≤ x ∧ x < i.destX + i.width ∧ i.destY ≤ y ∧ y < i.destY + i.height := hi
      rw [if_pos hi']
      obtain ⟨c1, c2, c3, c4⟩ := hci
      rw [show i.srcX + (x - i.destX) = x + sox by omega, show i.srcY + (y - i.destY) = y + soy by omega,
        show i.maskX + (x - i.destX) = x + mox by omega, show i.maskY + (y - i.destY) = y + moy by omega]
    · have hpr : paintRect comb sA mA i d x y = d x y := by
        have hi' : ¬(i.destX ≤ x ∧ x < i.destX + i.width ∧ i.destY ≤ y ∧ y < i.destY + i.height) := hi
        unfold paintRect; rw [if_neg hi']
      rw [hpr]
      by_cases hL : ∃ j ∈ L, InfoRect j x y
      · obtain ⟨j, hj, hjr⟩ := hL
        rw [if_pos ⟨j, hj, hjr⟩, if_pos ⟨j, List.mem_cons_of_mem _ hj, hjr⟩]
      · rw [if_neg hL, if_neg]
        rintro ⟨j, hj, hjr⟩
        rcases List.mem_cons.1 hj with rfl | hj
        · exact hi hjr
        · exact hL ⟨j, hj, hjr⟩

/-! ### pixman_image_composite32 paints exactly `R` -/

/-- source / mask origins relative to the destination origin stay `int`s over the destination -/
def OffsetsOK (W H sx sy mx my dx dy : Int) : Prop :=
  ∀ t u, 0 ≤ t → t ≤ W → 0 ≤ u → u ≤ H →
    c32.min ≤ t + sx - dx ∧ t + sx - dx ≤ c32.max ∧ c32.min ≤ u + sy - dy ∧ u + sy - dy ≤ c32.max ∧
    c32.min ≤ t + mx - dx ∧ t + mx - dx ≤ c32.max ∧ c32.min ≤ u + my - dy ∧ u + my - dy ≤ c32.max

theorem infoRect_boxInfo {b : Box} (hb : 0 ≤ b.x1 ∧ b.x1 ≤ b.x2 ∧ b.x2 ≤ c32.max ∧ 0 ≤ b.y1 ∧ b.y1 ≤ b.y2 ∧ b.y2 ≤ c32.max)
    (sx sy mx my dx dy x y : Int) : InfoRect (boxInfo sx sy mx my dx dy b) x y ↔ b.Mem x y := by
  rw [c32_max] at hb
  unfold InfoRect InRect boxInfo
  simp only
  rw [wrap32_id (by omega) (by omega), wrap32_id (by omega) (by omega), box_mem_iff]
  omega

/-- C01 × C03 at the model level: the box loop of pixman_image_composite32 applies the per-pixel
    combiner exactly once to every pixel of the intersection `R` of C03 and to no other pixel;
    pixel `(x,y)` is combined with the source sample at `(x + src_x - dest_x, y + src_y - dest_y)`
    and the mask sample at `(x + mask_x - dest_x, y + mask_y - dest_y)` -/
theorem imageComposite_eq_paint {src : Image} {mask : Option Image} {dest : Image}
    {sx sy mx my dx dy w h : Int} (comb : Comb) (sA mA : Sampler)
    (H : RangeOK src mask dest sx sy mx my dx dy w h) (na : NoAlphaClips src mask dest)
    (ho : OffsetsOK dest.width dest.height sx sy mx my dx dy) (d : Canvas) :
    imageComposite comb src sA mask mA dest sx sy mx my dx dy w h d =
      paintSet comb sA mA (R src mask dest sx sy mx my dx dy w h) (sx - dx) (sy - dy) (mx - dx) (my - dy) d := by
  unfold imageComposite
  simp only
  cases ht : (computeCompositeRegion32 src mask dest sx sy mx my dx dy w h).2 with
  | false =>
    rw [if_neg (by simp)]
    exact (paintSet_empty ((Pixman.Props.C03.composite_region_false_iff_empty H na).1 ht) _ _ _ _ d).symm
  | true =>
    rw [if_pos rfl]
    have hcanon := Pixman.Props.C03.composite_region_canon H ht
    have hmem := Pixman.Props.C03.composite_region_exact H na ht
    have hin : ∀ x y, (computeCompositeRegion32 src mask dest sx sy mx my dx dy w h).1.Mem x y →
        0 ≤ x ∧ x < dest.width ∧ 0 ≤ y ∧ y < dest.height := by
      intro x y hm
      have := ((hmem x y).1 hm).2.1
      unfold InRect at this
      omega
    have hb32 := Pixman.Props.C03.boxesIn32_of_bounded hcanon H.dest_w H.dest_h hin
    have hgood := canonList_good (canon_canonList hcanon)
    rw [foldl_paintRect comb sA mA (sx - dx) (sy - dy) (mx - dx) (my - dy)]
    · exact paintSet_congr (fun x y => Pixman.Props.C03.composite_boxes_cover_R H na ht x y) _ _ _ _ d
    · intro i hi
      apply Pixman.Props.C03.loop_origins_consistent sx sy mx my dx dy _ i hi
      intro b hbm
      have hg := hgood b hbm
      have p1 := hin b.x1 b.y1 ⟨b, hbm, by rw [box_mem_iff]; omega⟩
      have := ho b.x1 b.y1 (by omega) (by omega) (by omega) (by omega)
      exact this
    · unfold compositeBoxes
      rw [List.pairwise_map]
      refine (canon_rects_disjoint hcanon).imp_of_mem ?_
      intro a b ha hb hab x y hxy
      exact hab x y ⟨(infoRect_boxInfo (hb32 a ha) sx sy mx my dx dy x y).1 hxy.1,
        (infoRect_boxInfo (hb32 b hb) sx sy mx my dx dy x y).1 hxy.2⟩

/-! ### pixman_composite_glyphs_no_mask, one glyph -/

theorem box32Intersect_some {a b c : Box} (h : box32Intersect a b = some c) (x y : Int) :
    c.Mem x y ↔ a.Mem x y ∧ b.Mem x y := by
  unfold box32Intersect at h
  simp only at h
  split at h
  · simp only [Option.some.injEq] at h
    subst h
    simp only [box_mem_iff]
    omega
  · cases h

theorem box32Intersect_none {a b : Box} (h : box32Intersect a b = none) (x y : Int) :
    ¬(a.Mem x y ∧ b.Mem x y) := by
  unfold box32Intersect at h
  simp only at h
  split at h
  · cases h
  · rename_i hn
    simp only [box_mem_iff]
    omega

theorem infoRect_noMaskInfo (sx sy dx dy : Int) (g : Placed) (cb : Box) (x y : Int) :
    InfoRect (noMaskInfo sx sy dx dy g cb) x y ↔ cb.Mem x y := by
  unfold InfoRect InRect noMaskInfo
  simp only [box_mem_iff]
  omega

theorem mem_noMaskInfos {r : Region} {sx sy dx dy : Int} {g : Placed} {i : Info}
    (hi : i ∈ noMaskInfos r sx sy dx dy g) :
    ∃ pbox ∈ r.rects, ∃ cb, box32Intersect pbox (glyphBox dx dy g) = some cb ∧
      i = noMaskInfo sx sy dx dy g cb := by
  unfold noMaskInfos at hi
  rw [List.mem_filterMap] at hi
  obtain ⟨pbox, hp, hf⟩ := hi
  cases hb : box32Intersect pbox (glyphBox dx dy g) with
  | none => rw [hb] at hf; cases hf
  | some cb =>
    rw [hb] at hf
    simp only [Option.map_some, Option.some.injEq] at hf
    exact ⟨pbox, hp, cb, hb, hf.symm⟩

/-- the glyph × region-box loop paints `region ∩ glyph box` once, the source sampled at
    `(x + src_x - dest_x, …)`, the glyph image at `(x - (dest_x + glyph.x - origin_x), …)` -/
theorem noMask_eq_paint (comb : Comb) (sA mA : Sampler) {r : Region}
    (hdisj : r.rects.Pairwise BoxDisj) (sx sy dx dy : Int) (g : Placed) (d : Canvas) :
    (noMaskInfos r sx sy dx dy g).foldl (fun d i => paintRect comb sA mA i d) d =
      paintSet comb sA mA (fun x y => r.Mem x y ∧ (glyphBox dx dy g).Mem x y)
        (sx - dx) (sy - dy) (0 - (dx + (g.x - g.originX))) (0 - (dy + (g.y - g.originY))) d := by
  rw [foldl_paintRect comb sA mA (sx - dx) (sy - dy) (0 - (dx + (g.x - g.originX))) (0 - (dy + (g.y - g.originY)))]
  · apply paintSet_congr
    intro x y
    constructor
    · rintro ⟨i, hi, hr⟩
      obtain ⟨pbox, hp, cb, hcb, rfl⟩ := mem_noMaskInfos hi
      have := (box32Intersect_some hcb x y).1 ((infoRect_noMaskInfo sx sy dx dy g cb x y).1 hr)
      exact ⟨⟨pbox, hp, this.1⟩, this.2⟩
    · rintro ⟨⟨pbox, hp, hm⟩, hg⟩
      cases hb : box32Intersect pbox (glyphBox dx dy g) with
      | none => exact absurd ⟨hm, hg⟩ (box32Intersect_none hb x y)
      | some cb =>
        refine ⟨noMaskInfo sx sy dx dy g cb, ?_, ?_⟩
        · unfold noMaskInfos
          rw [List.mem_filterMap]
          exact ⟨pbox, hp, by rw [hb]; rfl⟩
        · exact (infoRect_noMaskInfo sx sy dx dy g cb x y).2 ((box32Intersect_some hb x y).2 ⟨hm, hg⟩)
  · intro i hi
    obtain ⟨pbox, hp, cb, hcb, rfl⟩ := mem_noMaskInfos hi
    unfold Consistent noMaskInfo
    simp only
    omega
  · unfold noMaskInfos
    refine List.Pairwise.filterMap _ ?_ hdisj
    intro a a' haa' i hi i' hi' x y hxy
    cases hb : box32Intersect a (glyphBox dx dy g) with
    | none => rw [hb] at hi; cases hi
    | some cb =>
      cases hb' : box32Intersect a' (glyphBox dx dy g) with
      | none => rw [hb'] at hi'; cases hi'
      | some cb' =>
        rw [hb] at hi; rw [hb'] at hi'
        simp only [Option.map_some, Option.some.injEq] at hi hi'
        subst hi; subst hi'
        have h1 := (box32Intersect_some hb x y).1 ((infoRect_noMaskInfo sx sy dx dy g cb x y).1 hxy.1)
        have h2 := (box32Intersect_some hb' x y).1 ((infoRect_noMaskInfo sx sy dx dy g cb' x y).1 hxy.2)
        exact haa' x y ⟨h1.1, h2.1⟩

/-! ### pixman_composite_glyphs_no_mask = fold of per-glyph composites -/

theorem foldl_ext_mem {α β : Type} (f g : β → α → β) : ∀ (l : List α) (d : β),
    (∀ a ∈ l, ∀ d, f d a = g d a) → l.foldl f d = l.foldl g d := by
  intro l
  induction l with
  | nil => intro d _; rfl
  | cons a t ih =>
    intro d h
    rw [List.foldl_cons, List.foldl_cons, h a List.mem_cons_self d]
    exact ih _ (fun b hb => h b (List.mem_cons_of_mem _ hb))

theorem foldl_id_mem {α β : Type} (g : β → α → β) : ∀ (l : List α) (d : β),
    (∀ a ∈ l, ∀ d, g d a = d) → l.foldl g d = d := by
  intro l
  induction l with
  | nil => intro d _; rfl
  | cons a t ih =>
    intro d h
    rw [List.foldl_cons, h a List.mem_cons_self d]
    exact ih _ (fun b hb => h b (List.mem_cons_of_mem _ hb))

theorem glyphBox_mem (dx dy : Int) (g : Placed) (x y : Int) :
    (glyphBox dx dy g).Mem x y ↔
      InRect (dx + (g.x - g.originX)) (dy + (g.y - g.originY)) g.img.width g.img.height x y := by
  unfold glyphBox InRect
  simp only [box_mem_iff]
  omega

/-- the composite region of "composite this glyph image at (x - origin_x, y - origin_y)" is the
    region pixman_composite_glyphs_no_mask computes once, cut to the glyph box -/
theorem R_glyph_iff (src dest : Image) (sx sy dx dy X Y : Int) (gi : GlyphImg) (x y : Int) :
    R src (some gi.image) dest (sx + X) (sy + Y) 0 0 (dx + X) (dy + Y) gi.width gi.height x y ↔
      R src none dest (sx - dx) (sy - dy) 0 0 0 0 dest.width dest.height x y ∧
        InRect (dx + X) (dy + Y) gi.width gi.height x y := by
  have e1 : x - (dx + X - (sx + X)) = x - (0 - (sx - dx)) := by omega
  have e2 : y - (dy + Y - (sy + Y)) = y - (0 - (sy - dy)) := by omega
  unfold R
  constructor
  · rintro ⟨h1, h2, h3, h4, h5, _⟩
    refine ⟨⟨h2, h2, h3, h4, fun hc => ?_, fun m hm => by cases hm⟩, h1⟩
    have := h5 hc
    rw [e1, e2] at this
    exact this
  · rintro ⟨⟨_, h2, h3, h4, h5, _⟩, h1⟩
    refine ⟨h1, h2, h3, h4, fun hc => ?_, fun m hm hc => ?_⟩
    · have := h5 hc
      rw [e1, e2]
      exact this
    · cases hm
      exact absurd hc.1 (by show ¬ (false = true); decide)

theorem noAlphaClips_glyph {src dest : Image} (na : NoAlphaClips src none dest) (gi : GlyphImg) :
    NoAlphaClips src (some gi.image) dest :=
  ⟨na.1, na.2.1, fun m a hm ha => by cases hm; cases ha⟩

/-- range hypotheses of the decomposition: those of C03 for the one region computation of
    pixman_composite_glyphs_no_mask and for each per-glyph reference request -/
structure NoMaskOK (src dest : Image) (sx sy dx dy : Int) (glyphs : List Placed) : Prop where
  region : RangeOK src none dest (sx - dx) (sy - dy) 0 0 0 0 dest.width dest.height
  na : NoAlphaClips src none dest
  perGlyph : ∀ g ∈ glyphs, RangeOK src (some g.img.image) dest
    (sx + (g.x - g.originX)) (sy + (g.y - g.originY)) 0 0
    (dx + (g.x - g.originX)) (dy + (g.y - g.originY)) g.img.width g.img.height
  offsets : ∀ g ∈ glyphs, OffsetsOK dest.width dest.height
    (sx + (g.x - g.originX)) (sy + (g.y - g.originY)) 0 0
    (dx + (g.x - g.originX)) (dy + (g.y - g.originY))

/-- the reference: composite the glyph image at (x - origin_x, y - origin_y) -/
def perGlyphComposite (comb : Nat → Comb) (src : Image) (sA : Sampler) (dest : Image)
    (sx sy dx dy : Int) (d : Canvas) (g : Placed) : Canvas :=
  imageComposite (comb g.img.fmt) src sA (some g.img.image) g.img.pix dest
    (sx + (g.x - g.originX)) (sy + (g.y - g.originY)) 0 0
    (dx + (g.x - g.originX)) (dy + (g.y - g.originY)) g.img.width g.img.height d

theorem perGlyphComposite_eq_paint (comb : Nat → Comb) {src dest : Image} (sA : Sampler)
    {sx sy dx dy : Int} {glyphs : List Placed} (ok : NoMaskOK src dest sx sy dx dy glyphs)
    (g : Placed) (hg : g ∈ glyphs) (d : Canvas) :
    perGlyphComposite comb src sA dest sx sy dx dy d g =
      paintSet (comb g.img.fmt) sA g.img.pix
        (fun x y => R src none dest (sx - dx) (sy - dy) 0 0 0 0 dest.width dest.height x y ∧
          (glyphBox dx dy g).Mem x y)
        (sx - dx) (sy - dy) (0 - (dx + (g.x - g.originX))) (0 - (dy + (g.y - g.originY))) d := by
  unfold perGlyphComposite
  rw [imageComposite_eq_paint _ _ _ (ok.perGlyph g hg) (noAlphaClips_glyph ok.na _) (ok.offsets g hg)]
  rw [show sx + (g.x - g.originX) - (dx + (g.x - g.originX)) = sx - dx by omega,
    show sy + (g.y - g.originY) - (dy + (g.y - g.originY)) = sy - dy by omega]
  apply paintSet_congr
  intro x y
  rw [R_glyph_iff, glyphBox_mem]

/-- **pixman_composite_glyphs_no_mask draws exactly what compositing each glyph image at
    (x - origin_x, y - origin_y) draws**, glyph after glyph, for every per-pixel combiner. -/
theorem compositeGlyphsNoMask_eq_fold (comb : Nat → Comb) {src dest : Image} (sA : Sampler)
    {sx sy dx dy : Int} {glyphs : List Placed} (ok : NoMaskOK src dest sx sy dx dy glyphs)
    (d : Canvas) :
    compositeGlyphsNoMask comb src sA dest sx sy dx dy glyphs d =
      glyphs.foldl (perGlyphComposite comb src sA dest sx sy dx dy) d := by
  unfold compositeGlyphsNoMask
  simp only
  cases ht : (computeCompositeRegion32 src none dest (sx - dx) (sy - dy) 0 0 0 0 dest.width dest.height).2 with
  | false =>
    rw [if_neg (by simp)]
    symm
    apply foldl_id_mem
    intro g hg d
    rw [perGlyphComposite_eq_paint comb sA ok g hg]
    apply paintSet_empty
    intro x y h
    exact (Pixman.Props.C03.composite_region_false_iff_empty ok.region ok.na).1 ht x y h.1
  | true =>
    rw [if_pos rfl]
    apply foldl_ext_mem
    intro g hg d
    have hcanon := Pixman.Props.C03.composite_region_canon ok.region ht
    rw [noMask_eq_paint _ _ _ (canon_rects_disjoint hcanon), perGlyphComposite_eq_paint comb sA ok g hg]
    apply paintSet_congr
    intro x y
    rw [Pixman.Props.C03.composite_region_exact ok.region ok.na ht]

/-! ### add_glyphs = ADD-accumulation of the glyphs, one reference composite per glyph -/

/-- the solid white source of add_glyphs / of the reference (no clip, no alpha map) -/
def whiteImage : Image :=
  { width := 1, height := 1, clip := ⟨⟨0, 0, 0, 0⟩, .emptyStatic⟩, haveClip := false,
    clipSources := false, clientClip := false, alphaMap := none }

def white : Sampler := fun _ _ => 0xffffffff

/-- the reference: `pixman_image_composite32 (ADD, white, glyph_img, mask, 0, 0, 0, 0,
    x - origin_x - mask_x, y - origin_y - mask_y, glyph_width, glyph_height)` -/
def perGlyphAdd (addWhite : Nat → Comb) (maskW maskH offX offY : Int) (m : Canvas) (g : Placed) : Canvas :=
  imageComposite (addWhite g.img.fmt) whiteImage white (some g.img.image) g.img.pix
    (maskImage maskW maskH) 0 0 0 0 (offX + (g.x - g.originX)) (offY + (g.y - g.originY))
    g.img.width g.img.height m

/-- numeric range of add_glyphs (everything is an `int`) -/
structure AddOK (maskW maskH offX offY : Int) (glyphs : List Placed) : Prop where
  w : maskW ≤ c32.max
  h : maskH ≤ c32.max
  glyph : ∀ g ∈ glyphs,
    c32.min ≤ offX + (g.x - g.originX) ∧ offX + (g.x - g.originX) + g.img.width ≤ c32.max ∧
    c32.min ≤ offY + (g.y - g.originY) ∧ offY + (g.y - g.originY) + g.img.height ≤ c32.max ∧
    c32.min ≤ offX + (g.x - g.originX) + g.img.width ∧ c32.min ≤ offY + (g.y - g.originY) + g.img.height ∧
    c32.min ≤ 0 - (offX + (g.x - g.originX)) ∧ maskW - (offX + (g.x - g.originX)) ≤ c32.max ∧
    c32.min ≤ 0 - (offY + (g.y - g.originY)) ∧ maskH - (offY + (g.y - g.originY)) ≤ c32.max

theorem addOK_rangeOK {maskW maskH offX offY : Int} {glyphs : List Placed}
    (ok : AddOK maskW maskH offX offY glyphs) (g : Placed) (hg : g ∈ glyphs) :
    RangeOK whiteImage (some g.img.image) (maskImage maskW maskH) 0 0 0 0
      (offX + (g.x - g.originX)) (offY + (g.y - g.originY)) g.img.width g.img.height where
  dest_w := ok.w
  dest_h := ok.h
  req_x := by have := ok.glyph g hg; omega
  req_y := by have := ok.glyph g hg; omega
  dest_clip := fun hc => by cases hc
  dest_alpha := fun a ha => by cases ha
  src_clip := fun hc => by cases hc.1
  src_alpha := fun a ha => by cases ha
  mask_clip := fun m hm hc => by cases hm; cases hc.1
  mask_alpha := fun m a hm hc => by cases hm; cases hc

theorem addOK_offsetsOK {maskW maskH offX offY : Int} {glyphs : List Placed}
    (ok : AddOK maskW maskH offX offY glyphs) (g : Placed) (hg : g ∈ glyphs) :
    OffsetsOK (maskImage maskW maskH).width (maskImage maskW maskH).height 0 0 0 0
      (offX + (g.x - g.originX)) (offY + (g.y - g.originY)) := by
  intro t u ht0 ht hu0 hu
  have := ok.glyph g hg
  have hw : (maskImage maskW maskH).width = maskW := rfl
  have hh : (maskImage maskW maskH).height = maskH := rfl
  rw [hw] at ht; rw [hh] at hu
  omega

theorem noAlphaClips_add (gi : GlyphImg) (maskW maskH : Int) :
    NoAlphaClips whiteImage (some gi.image) (maskImage maskW maskH) :=
  ⟨fun a ha => (by cases ha), fun a ha => (by cases ha), fun m a hm ha => (by cases hm; cases ha)⟩

theorem R_add_iff (gi : GlyphImg) (maskW maskH X Y x y : Int) :
    R whiteImage (some gi.image) (maskImage maskW maskH) 0 0 0 0 X Y gi.width gi.height x y ↔
      InRect X Y gi.width gi.height x y ∧ InRect 0 0 maskW maskH x y := by
  unfold R
  constructor
  · rintro ⟨h1, h2, _⟩; exact ⟨h1, h2⟩
  · rintro ⟨h1, h2⟩
    exact ⟨h1, h2, fun hc => (by cases hc), fun a ha => (by cases ha), fun hc => (by cases hc.1),
      fun m hm hc => (by cases hm; cases hc.1)⟩

theorem perGlyphAdd_eq_paint (addWhite : Nat → Comb) {maskW maskH offX offY : Int} {glyphs : List Placed}
    (ok : AddOK maskW maskH offX offY glyphs) (g : Placed) (hg : g ∈ glyphs) (m : Canvas) :
    perGlyphAdd addWhite maskW maskH offX offY m g =
      paintSet (addWhite g.img.fmt) white g.img.pix
        (fun x y => (glyphBox offX offY g).Mem x y ∧ InRect 0 0 maskW maskH x y)
        (0 - (offX + (g.x - g.originX))) (0 - (offY + (g.y - g.originY)))
        (0 - (offX + (g.x - g.originX))) (0 - (offY + (g.y - g.originY))) m := by
  unfold perGlyphAdd
  rw [imageComposite_eq_paint _ _ _ (addOK_rangeOK ok g hg) (noAlphaClips_add _ _ _) (addOK_offsetsOK ok g hg)]
  apply paintSet_congr
  intro x y
  rw [R_add_iff, glyphBox_mem]

/-- one glyph of add_glyphs with an arbitrary composite function -/
theorem addInfos_eq_paint (comb : Comb) (sA mA : Sampler) (maskW maskH offX offY : Int) (g : Placed)
    (m : Canvas) :
    (addInfos maskW maskH offX offY g).foldl (fun m i => paintRect comb sA mA i m) m =
      paintSet comb sA mA
        (fun x y => (glyphBox offX offY g).Mem x y ∧ InRect 0 0 maskW maskH x y)
        (0 - (offX + (g.x - g.originX))) (0 - (offY + (g.y - g.originY)))
        (0 - (offX + (g.x - g.originX))) (0 - (offY + (g.y - g.originY))) m := by
  have hbox : ∀ x y, (⟨0, 0, maskW, maskH⟩ : Box).Mem x y ↔ InRect 0 0 maskW maskH x y := by
    intro x y; unfold InRect; simp only [box_mem_iff]; omega
  unfold addInfos
  cases hb : box32Intersect (glyphBox offX offY g) ⟨0, 0, maskW, maskH⟩ with
  | none =>
    simp only [List.foldl_nil]
    symm
    apply paintSet_empty
    intro x y h
    exact box32Intersect_none hb x y ⟨h.1, (hbox x y).2 h.2⟩
  | some cb =>
    simp only
    rw [foldl_paintRect comb sA mA (0 - (offX + (g.x - g.originX))) (0 - (offY + (g.y - g.originY)))
      (0 - (offX + (g.x - g.originX))) (0 - (offY + (g.y - g.originY)))]
    · apply paintSet_congr
      intro x y
      have hcb := box32Intersect_some hb x y
      rw [hbox] at hcb
      rw [← hcb]
      constructor
      · rintro ⟨i, hi, hr⟩
        rw [List.mem_singleton] at hi
        subst hi
        unfold InfoRect InRect at hr
        simp only at hr
        rw [box_mem_iff]; omega
      · intro hm
        refine ⟨_, List.mem_singleton.2 rfl, ?_⟩
        unfold InfoRect InRect
        simp only
        rw [box_mem_iff] at hm; omega
    · intro i hi
      rw [List.mem_singleton] at hi
      subst hi
      unfold Consistent glyphBox
      simp only
      omega
    · exact List.pairwise_singleton _ _

/-- **add_glyphs ADD-accumulates the glyphs into the mask exactly as one
    `pixman_image_composite32 (ADD, white, glyph, mask, …)` per glyph would**, in glyph order.
    `hsame`: for a glyph in the mask's own format add_glyphs uses the glyph as the SOURCE of an
    unmasked ADD; that must equal `white IN glyph ADD mask` per pixel (true of pixman's ADD:
    `MUL_UN8 (0xff, m) = m`, see `mulUn8_255` of C01 and `a8_same_format` below). -/
theorem addGlyphs_eq_fold (addSame : Comb) (addWhite : Nat → Comb) (maskFmt : Nat)
    (hsame : ∀ v d, addSame v 0 d = addWhite maskFmt 0xffffffff v d)
    {maskW maskH offX offY : Int} {glyphs : List Placed}
    (ok : AddOK maskW maskH offX offY glyphs) (m : Canvas) :
    addGlyphs addSame addWhite maskFmt maskW maskH offX offY glyphs m =
      glyphs.foldl (perGlyphAdd addWhite maskW maskH offX offY) m := by
  unfold addGlyphs
  apply foldl_ext_mem
  intro g hg m
  rw [perGlyphAdd_eq_paint addWhite ok g hg]
  by_cases hf : g.img.fmt = maskFmt
  · have : (fun (m : Canvas) (i : Info) =>
        if g.img.fmt = maskFmt then paintRect addSame g.img.pix (fun _ _ => 0) i m
        else paintRect (addWhite g.img.fmt) (fun _ _ => 0xffffffff) g.img.pix i m) =
        fun m i => paintRect addSame g.img.pix (fun _ _ => 0) i m := by
      funext m i; rw [if_pos hf]
    rw [this, addInfos_eq_paint]
    funext x y
    unfold paintSet white
    split
    · rw [hsame, hf]
    · rfl
  · have : (fun (m : Canvas) (i : Info) =>
        if g.img.fmt = maskFmt then paintRect addSame g.img.pix (fun _ _ => 0) i m
        else paintRect (addWhite g.img.fmt) (fun _ _ => 0xffffffff) g.img.pix i m) =
        fun m i => paintRect (addWhite g.img.fmt) (fun _ _ => 0xffffffff) g.img.pix i m := by
      funext m i; rw [if_neg hf]
    rw [this, addInfos_eq_paint]
    rfl

/-- **pixman_composite_glyphs draws exactly what ADD-accumulating the glyphs into a mask and
    compositing that mask draws** -/
theorem compositeGlyphs_eq (comb addSame : Comb) (addWhite : Nat → Comb) (maskFmt : Nat)
    (hsame : ∀ v d, addSame v 0 d = addWhite maskFmt 0xffffffff v d)
    (src : Image) (sA : Sampler) (dest : Image) (sx sy mx my dx dy w h : Int) {glyphs : List Placed}
    (ok : AddOK w h (-mx) (-my) glyphs) (d : Canvas) :
    compositeGlyphs comb addSame addWhite maskFmt src sA dest sx sy mx my dx dy w h glyphs d =
      imageComposite comb src sA (some (maskImage w h))
        (glyphs.foldl (perGlyphAdd addWhite w h (-mx) (-my)) (fun _ _ => 0))
        dest sx sy 0 0 dx dy w h d := by
  unfold compositeGlyphs
  simp only
  rw [addGlyphs_eq_fold addSame addWhite maskFmt hsame ok]

end Pixman.GlyphDraw

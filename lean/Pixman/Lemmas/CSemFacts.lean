import Pixman.Lemmas.CSem
/-!
  Facts about the C-semantics helpers of `Pixman.CSem`, used by the bridge proofs
  (`Pixman/Props/Bridges.lean`).  Core Lean only.
-/
namespace Pixman.CSem

theorem s64_u64 (x : Int) : s64 (u64 x) = s64 x := by unfold s64 u64; omega
theorem s32_s32_add (a b : Int) : s32 (a + s32 b) = s32 (a + b) := by unfold s32; omega
theorem s32_s32_sub (a b : Int) : s32 (a - s32 b) = s32 (a - b) := by unfold s32; omega
theorem s32_id (x : Int) (h1 : -2147483648 ≤ x) (h2 : x ≤ 2147483647) : s32 x = x := by unfold s32; omega
theorem s64_id (x : Int) (h1 : -9223372036854775808 ≤ x) (h2 : x ≤ 9223372036854775807) : s64 x = x := by
  unfold s64; omega

/-- C `/` with a positive divisor, in terms of floor division -/
theorem tdiv_pos (a b : Int) : Int.tdiv a b = if 0 ≤ a then a / b else -((-a) / b) := by
  split
  · exact Int.tdiv_eq_ediv_of_nonneg ‹_›
  · rename_i h
    have h2 : Int.tdiv (-a) b = (-a) / b := Int.tdiv_eq_ediv_of_nonneg (by omega)
    rw [← h2, Int.neg_tdiv, Int.neg_neg]

/-- `i | f` on `int32_t`/`int64_t` when `i` has its low 16 bits clear and `f` fits in them -/
theorem sbor_low16 (i f : Int) (hi : i % 65536 = 0) (hf0 : 0 ≤ f) (hf : f < 65536)
    (h1 : -9223372036854775808 ≤ i) (h2 : i + f ≤ 9223372036854775807) : sbor i f = i + f := by
  unfold sbor
  have hI : 0 ≤ u64 i := by unfold u64; omega
  have hF : u64 f = f := by unfold u64; omega
  have hIm : (u64 i) % 65536 = 0 := by unfold u64; omega
  rw [hF]
  have e1 : (u64 i).toNat = 2 ^ 16 * ((u64 i).toNat / 65536) := by omega
  have e2 : f.toNat < 2 ^ 16 := by omega
  rw [e1, ← Nat.two_pow_add_eq_or_of_lt e2, ← e1]
  have : (((u64 i).toNat + f.toNat : Nat) : Int) = u64 i + f := by omega
  rw [this]
  unfold s64 u64; omega

end Pixman.CSem

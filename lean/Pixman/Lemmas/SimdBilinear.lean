import Pixman.Model.Simd
import Pixman.Lemmas.Simd
/-! The SSE2 / SSSE3 bilinear lane arithmetic against the channel of `bilinear_interpolation`. -/
namespace Pixman.Lemmas.SimdBilinear
open Pixman.Model.Simd Pixman.Lemmas.Simd

theorem s16_small (x : Nat) (h : x < 32768) : s16 x = (x : Int) := by
  unfold s16
  have e : x % 65536 = x := by omega
  rw [e]
  have : x < 32768 := h
  simp only [this, if_true]

theorem madd16_small (a b c d : Nat) (ha : a < 32768) (hb : b < 32768) (hc : c < 32768) (hd : d < 32768)
    (hs : a * b + c * d < 4294967296) : madd16 a b c d = a * b + c * d := by
  unfold madd16
  rw [s16_small a ha, s16_small b hb, s16_small c hc, s16_small d hd]
  have e : ((a : Int) * (b : Int) + (c : Int) * (d : Int)) = ((a * b + c * d : Nat) : Int) := by
    push_cast; rfl
  rw [e]
  generalize a * b + c * d = n at hs ⊢
  omega

theorem packs32_small (v : Nat) (h : v ≤ 32767) : packs32 v = v := by
  unfold packs32 s32
  have e : v % 4294967296 = v := by omega
  simp only [e]
  have h1 : v < 2147483648 := by omega
  simp only [h1, if_true]
  have h2 : ¬ ((v : Int) > 32767) := by omega
  have h3 : ¬ ((v : Int) < -32768) := by omega
  simp only [h2, h3, if_false]
  omega

/-- the lane weights: `(-(vx+1) >> 9) + 1 = 128 - distx`, `vx >> 9 = distx` -/
theorem weights (vx : Nat) :
    add16 1 (((65536 - (vx + 1) % 65536) % 65536) >>> 9) = 128 - vx % 65536 / 512 ∧
    add16 0 ((vx % 65536) >>> 9) = vx % 65536 / 512 := by
  unfold add16
  simp only [Nat.shiftRight_eq_div_pow, Nat.reducePow]
  omega

theorem vsum_le (t b wt wb : Nat) (ht : t ≤ 255) (hb : b ≤ 255) (hw : wt + wb = 128) :
    t * wt + b * wb ≤ 32640 := by
  have h1 : t * wt ≤ 255 * wt := Nat.mul_le_mul_right wt ht
  have h2 : b * wb ≤ 255 * wb := Nat.mul_le_mul_right wb hb
  omega

theorem vertical_lane (t b wt wb : Nat) (ht : t ≤ 255) (hb : b ≤ 255) (hw : wt + wb = 128) :
    add16 (mullo16 t wt) (mullo16 b wb) = t * wt + b * wb := by
  have h := vsum_le t b wt wb ht hb hw
  unfold add16 mullo16
  have h1 : t * wt ≤ 32640 := by omega
  have h2 : b * wb ≤ 32640 := by omega
  generalize t * wt = p at *
  generalize b * wb = q at *
  omega

theorem hsum_le (aL aR i d : Nat) (hL : aL ≤ 32640) (hR : aR ≤ 32640) (hid : i + d = 128) :
    aL * i + aR * d ≤ 4177920 := by
  have h1 : aL * i ≤ 32640 * i := Nat.mul_le_mul_right i hL
  have h2 : aR * d ≤ 32640 * d := Nat.mul_le_mul_right d hR
  omega

/-- the algebra: four times the two-pass sum is the sum with the 8-bit-scaled weight products -/
theorem weight_identity (tl tr bl br wt wb i d : Nat) :
    tl * ((2 * i) * (2 * wt)) + tr * ((2 * d) * (2 * wt)) + bl * ((2 * i) * (2 * wb)) + br * ((2 * d) * (2 * wb))
      = 4 * ((tl * wt + bl * wb) * i + (tr * wt + br * wb) * d) := by
  grind

theorem sse2_channel_eq (tl tr bl br wt wb vx : Nat)
    (h1 : tl ≤ 255) (h2 : tr ≤ 255) (h3 : bl ≤ 255) (h4 : br ≤ 255) (hw : wt + wb = 128) :
    Sse2.bilinearChannel tl tr bl br wt wb vx = bilinearChannel tl tr bl br (vx % 65536 / 512) wb := by
  unfold Sse2.bilinearChannel bilinearChannel
  simp only []
  rw [vertical_lane tl bl wt wb h1 h3 hw, vertical_lane tr br wt wb h2 h4 hw, (weights vx).1, (weights vx).2]
  have hd : vx % 65536 / 512 < 128 := by omega
  generalize vx % 65536 / 512 = d at hd ⊢
  have hL := vsum_le tl bl wt wb h1 h3 hw
  have hR := vsum_le tr br wt wb h2 h4 hw
  have hs := hsum_le (tl * wt + bl * wb) (tr * wt + br * wb) (128 - d) d hL hR (by omega)
  rw [madd16_small _ _ _ _ (by omega) (by omega) (by omega) (by omega) (by omega)]
  have e1 : 256 - d <<< 1 = 2 * (128 - d) := by simp only [Nat.shiftLeft_eq, Nat.pow_one]; omega
  have e2 : 256 - wb <<< 1 = 2 * wt := by simp only [Nat.shiftLeft_eq, Nat.pow_one]; omega
  have e3 : d <<< 1 = 2 * d := by simp only [Nat.shiftLeft_eq, Nat.pow_one]; omega
  have e4 : wb <<< 1 = 2 * wb := by simp only [Nat.shiftLeft_eq, Nat.pow_one]; omega
  rw [e1, e2, e3, e4]
  have id := weight_identity tl tr bl br wt wb (128 - d) d
  have e5 : tl * (2 * (128 - d) * (2 * wt)) + tr * (2 * d * (2 * wt)) + bl * (2 * (128 - d) * (2 * wb)) + br * (2 * d * (2 * wb))
      = 4 * ((tl * wt + bl * wb) * (128 - d) + (tr * wt + br * wb) * d) := id
  rw [e5]
  generalize (tl * wt + bl * wb) * (128 - d) + (tr * wt + br * wb) * d = n at hs ⊢
  simp only [Nat.shiftRight_eq_div_pow, Nat.reducePow]
  have hq : n / 16384 ≤ 255 := by omega
  rw [packs32_small (n / 16384) (by omega), packus_byte (n / 16384) hq]
  omega

theorem hsum_le' (l r i d : Nat) (hl : l ≤ 255) (hr : r ≤ 255) (hid : i + d = 128) : l * i + r * d ≤ 32640 := by
  have h1 : l * i ≤ 255 * i := Nat.mul_le_mul_right i hl
  have h2 : r * d ≤ 255 * d := Nat.mul_le_mul_right d hr
  omega

theorem ssse3_horizontal_eq (l r x : Nat) (hl : l ≤ 255) (hr : r ≤ 255) :
    Ssse3.horizontal l r x = l * (128 - x % 65536 / 512) + r * (x % 65536 / 512) := by
  unfold Ssse3.horizontal
  simp only []
  rw [(weights x).1, (weights x).2]
  have hd : x % 65536 / 512 < 128 := by omega
  generalize x % 65536 / 512 = d at hd ⊢
  rw [packus_byte d (by omega), packus_byte (128 - d) (by omega)]
  have hdl : d < 128 := hd
  simp only [hdl, if_true]
  by_cases h0 : d = 0
  · subst h0
    have e : ¬ (128 - 0 < 128) := by omega
    simp only [e, if_false, Nat.sub_zero, Nat.mul_zero, Nat.add_zero]
    have hs : ((l : Int) * (((128 : Nat) : Int) - 256) + (r : Int) * ((0 : Nat) : Int)) = -(((l * 128 : Nat)) : Int) := by
      push_cast; omega
    rw [hs]
    have hl' : l * 128 ≤ 32640 := by omega
    generalize l * 128 = n at hl' ⊢
    have h1 : ¬ (-(n : Int) > 32767) := by omega
    have h2 : ¬ (-(n : Int) < -32768) := by omega
    simp only [h1, h2, if_false, Int.natAbs_neg, Int.natAbs_natCast]
    omega
  · have e : 128 - d < 128 := by omega
    simp only [e, if_true]
    have hb := hsum_le' l r (128 - d) d hl hr (by omega)
    have hs : ((l : Int) * ((128 - d : Nat) : Int) + (r : Int) * ((d : Nat) : Int)) = ((l * (128 - d) + r * d : Nat) : Int) := by
      push_cast; rfl
    rw [hs]
    generalize l * (128 - d) + r * d = n at hb ⊢
    have h1 : ¬ ((n : Int) > 32767) := by omega
    have h2 : ¬ ((n : Int) < -32768) := by omega
    simp only [h1, h2, if_false, Int.natAbs_natCast]
    omega

end Pixman.Lemmas.SimdBilinear

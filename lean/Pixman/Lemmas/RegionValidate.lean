import Pixman.Lemmas.RegionOps
/-! `validate` / `init_rects`: sort, scatter into regions under construction, pairwise union. -/
set_option linter.unusedSimpArgs false
set_option linter.unusedVariables false
namespace Pixman.Region

/-! ### step 1: the sort (insertion sort standing for quick_sort_rects) -/

/-- the sort key order: (y1, x1) lexicographic -/
def KeyLe (a b : Box) : Prop := a.y1 < b.y1 ∨ (a.y1 = b.y1 ∧ a.x1 ≤ b.x1)

theorem rectLe_iff (a b : Box) : rectLe a b = true ↔ KeyLe a b := by
  simp only [rectLe, rectLt, KeyLe, Bool.not_eq_true', Bool.or_eq_false_iff, decide_eq_false_iff_not,
    Bool.and_eq_false_iff, beq_eq_false_iff_ne, ne_eq]
  omega

theorem KeyLe.trans {a b c : Box} (h1 : KeyLe a b) (h2 : KeyLe b c) : KeyLe a c := by
  simp only [KeyLe] at *; omega

theorem KeyLe.total (a b : Box) : KeyLe a b ∨ KeyLe b a := by
  simp only [KeyLe]
  by_cases h1 : a.y1 < b.y1
  · exact Or.inl (Or.inl h1)
  · by_cases h2 : b.y1 < a.y1
    · exact Or.inr (Or.inl h2)
    · by_cases h3 : a.x1 ≤ b.x1
      · exact Or.inl (Or.inr ⟨by omega, h3⟩)
      · exact Or.inr (Or.inr ⟨by omega, by omega⟩)

theorem KeyLe.refl (a : Box) : KeyLe a a := Or.inr ⟨rfl, Int.le_refl _⟩

theorem mem_insertRect (b q : Box) (l : List Box) : q ∈ insertRect b l ↔ q = b ∨ q ∈ l := by
  induction l with
  | nil => simp [insertRect]
  | cons a t ih =>
    simp only [insertRect]
    split
    · simp
    · simp only [List.mem_cons, ih]
      constructor
      · rintro (h | h | h) <;> simp [h]
      · rintro (h | h | h) <;> simp [h]

theorem mem_sortRects (q : Box) (l : List Box) : q ∈ sortRects l ↔ q ∈ l := by
  induction l with
  | nil => simp [sortRects]
  | cons a t ih => simp only [sortRects, mem_insertRect, ih, List.mem_cons]

theorem insertRect_sorted (b : Box) (l : List Box) (h : l.Pairwise KeyLe) :
    (insertRect b l).Pairwise KeyLe := by
  induction l with
  | nil => simp [insertRect]
  | cons a t ih =>
    have ⟨h1, h2⟩ := List.pairwise_cons.1 h
    simp only [insertRect]
    split
    · rename_i hle
      have hle := (rectLe_iff b a).1 hle
      refine List.pairwise_cons.2 ⟨fun q hq => ?_, h⟩
      rcases List.mem_cons.1 hq with rfl | hq
      · exact hle
      · exact hle.trans (h1 q hq)
    · rename_i hle
      have hle : ¬ KeyLe b a := fun e => hle ((rectLe_iff b a).2 e)
      refine List.pairwise_cons.2 ⟨fun q hq => ?_, ih h2⟩
      rcases (mem_insertRect b q t).1 hq with rfl | hq
      · exact (KeyLe.total a q).resolve_right hle
      · exact h1 q hq

theorem sortRects_sorted (l : List Box) : (sortRects l).Pairwise KeyLe := by
  induction l with
  | nil => simp [sortRects]
  | cons a t ih => exact insertRect_sorted a _ ih

theorem memL_sortRects (l : List Box) (x y : Int) : MemL (sortRects l) x y ↔ MemL l x y := by
  simp only [MemL, mem_sortRects]

/-! ### descending span lists (the current band is kept reversed) -/

/-- `l` reversed is a separated span list: head is the rightmost box -/
def RSep : List Box → Prop
  | [] => True
  | [a] => a.x1 < a.x2
  | a :: b :: t => a.x1 < a.x2 ∧ b.x2 < a.x1 ∧ RSep (b :: t)

theorem sep_snoc (v : Int) (m : List Box) (a : Box) :
    Sep v (m ++ [a]) ↔ Sep v m ∧ a.x1 < a.x2 ∧ (m = [] → v < a.x1) ∧
      (∀ last, m.getLast? = some last → last.x2 < a.x1) := by
  induction m generalizing v with
  | nil => simp [Sep]; omega
  | cons c t ih =>
    simp only [List.cons_append, Sep, ih, reduceCtorEq, false_implies, true_and]
    cases t with
    | nil => simp [Sep, and_assoc]
    | cons d u =>
      simp only [List.getLast?_cons_cons, reduceCtorEq, false_implies, true_and, and_assoc]

theorem rsep_iff (l : List Box) : RSep l ↔ SpansSep l.reverse := by
  induction l with
  | nil => simp [RSep, SpansSep]
  | cons a t ih =>
    cases t with
    | nil => simp [RSep, SpansSep]
    | cons b u =>
      simp only [RSep, ih]
      rw [List.reverse_cons (a := a), spansSep_iff, spansSep_iff]
      constructor
      · rintro ⟨h1, h2, v, hv⟩
        refine ⟨v, (sep_snoc v _ a).2 ⟨hv, h1, fun e => by simp at e, fun last hl => ?_⟩⟩
        simp only [List.reverse_cons, List.getLast?_append, List.getLast?_singleton, Option.some_or,
          Option.some.injEq] at hl
        subst hl; exact h2
      · rintro ⟨v, hv⟩
        have ⟨a1, a2, _, a4⟩ := (sep_snoc v _ a).1 hv
        exact ⟨a2, a4 b (by simp), v, a1⟩

theorem RSep.tail {a : Box} {t : List Box} (h : RSep (a :: t)) : RSep t := by
  cases t with
  | nil => trivial
  | cons b u => exact h.2.2

theorem RSep.head_good {a : Box} {t : List Box} (h : RSep (a :: t)) : a.x1 < a.x2 := by
  cases t with
  | nil => exact h
  | cons b u => exact h.1

/-- every box of a descending list lies to the left of the head's right edge -/
theorem RSep.x2_le {a : Box} {t : List Box} (h : RSep (a :: t)) : ∀ q ∈ a :: t, q.x2 ≤ a.x2 := by
  induction t generalizing a with
  | nil => intro q hq; simp at hq; subst hq; omega
  | cons b u ih =>
    intro q hq
    rcases List.mem_cons.1 hq with rfl | hq
    · omega
    · have := ih h.2.2 q hq
      have := h.1; have := h.2.1; have := h.2.2.head_good
      omega

theorem memL_reverse (l : List Box) (x y : Int) : MemL l.reverse x y ↔ MemL l x y := by
  simp [MemL]


/-! ### step 2: regions under construction -/

/-- points held by a region under construction -/
def RI.pts (r : RI) (x y : Int) : Prop := MemL r.out.toList x y ∨ MemL r.cur x y

/-- invariant of a region under construction; `K` is the last box handed to the scatter loop -/
def RIOK (r : RI) (K : Box) : Prop :=
  ∃ rb rest Y1 Y2, r.cur = rb :: rest ∧ AllY Y1 Y2 (rb :: rest) ∧ Y1 < Y2 ∧ RSep (rb :: rest) ∧
    OutOK r.out Y1 ∧ (Y1 < K.y1 ∨ (Y1 = K.y1 ∧ rb.x1 ≤ K.x1)) ∧
    (∀ x y, r.pts x y → r.extents.x1 ≤ x ∧ r.extents.y1 ≤ y) ∧
    (∃ y, r.pts r.extents.x1 y) ∧ (∃ x, r.pts x r.extents.y1) ∧
    (∀ x y, MemL r.out.toList x y → x < r.extents.x2) ∧
    ((∃ y, MemL r.out.toList (r.extents.x2 - 1) y) ∨ r.extents.x2 ≤ rb.x2)

theorem RIOK.mono {r : RI} {K K' : Box} (h : RIOK r K) (hk : KeyLe K K') : RIOK r K' := by
  obtain ⟨rb, rest, Y1, Y2, h1, h2, h3, h4, h5, h6, h7⟩ := h
  refine ⟨rb, rest, Y1, Y2, h1, h2, h3, h4, h5, ?_, h7⟩
  simp only [KeyLe] at hk; omega

/-- the extents after closing a band with last box `rb` and opening one with `box` -/
def newExt (E rb box : Box) : Box :=
  let e := E
  let e := if e.x2 < rb.x2 then { e with x2 := rb.x2 } else e
  let e := if e.x1 > box.x1 then { e with x1 := box.x1 } else e
  e

theorem newExt_fields (E rb box : Box) :
    (newExt E rb box).x1 = min E.x1 box.x1 ∧ (newExt E rb box).y1 = E.y1 ∧
    (newExt E rb box).x2 = max E.x2 rb.x2 := by
  simp only [newExt]
  split <;> split <;> refine ⟨?_, ?_, ?_⟩ <;> (try simp only at *) <;> omega

theorem RI.place_eq (r : RI) (box rb : Box) (rest : List Box) (h : r.cur = rb :: rest) :
    r.place box =
      if box.y1 == rb.y1 && box.y2 == rb.y2 then
        if box.x1 ≤ rb.x2 then
          some { r with cur := (if box.x2 > rb.x2 then { rb with x2 := box.x2 } else rb) :: rest }
        else some { r with cur := box :: rb :: rest }
      else if box.y1 ≥ rb.y2 then
        some { extents := newExt r.extents rb box, out := r.close, cur := [box] }
      else none := by
  simp only [RI.place, h, newExt]

theorem rsep_replace_head {a a' : Box} {t : List Box} (h : RSep (a :: t)) (h1 : a'.x1 = a.x1)
    (h2 : a'.x1 < a'.x2) : RSep (a' :: t) := by
  cases t with
  | nil => exact h2
  | cons b u => exact ⟨h2, by rw [h1]; exact h.2.1, h.2.2⟩

theorem close_spec (r : RI) (rb : Box) (rest : List Box) (Y1 Y2 : Int) (hc : r.cur = rb :: rest)
    (hY : AllY Y1 Y2 (rb :: rest)) (hlt : Y1 < Y2) (hS : RSep (rb :: rest)) (ho : OutOK r.out Y1) :
    OutOK r.close Y2 ∧ ∀ x y, MemL r.close.toList x y ↔ r.pts x y := by
  have hY' : AllY Y1 Y2 (rb :: rest).reverse := fun q hq => hY q (List.mem_reverse.1 hq)
  have := coalesce_spec r.out (rb :: rest).reverse Y1 Y2 Y1 ho (Int.le_refl _) hlt hY'
    ((rsep_iff _).1 hS)
  simp only [RI.close, hc]
  refine ⟨this.1, fun x y => ?_⟩
  rw [this.2.1, ← memL_of_allY hY', memL_reverse, RI.pts, hc]

theorem place_spec (r : RI) (K box : Box) (h : RIOK r K) (hk : KeyLe K box)
    (hg : goodRect box = true) :
    ∀ r', r.place box = some r' → RIOK r' box ∧ ∀ x y, r'.pts x y ↔ r.pts x y ∨ box.Mem x y := by
  obtain ⟨rb, rest, Y1, Y2, hc, hY, hlt, hS, ho, hkey, e1, e2, e3, e4, e5⟩ := h
  have ⟨gx, gy⟩ := (goodRect_iff box).1 hg
  have ⟨hrb1, hrb2⟩ := hY rb List.mem_cons_self
  have hrbg := hS.head_good
  have hrbpt : r.pts rb.x1 Y1 := Or.inr (by
    rw [hc]; exact ⟨rb, List.mem_cons_self, by simp only [Box.Mem]; omega⟩)
  have hE := e1 _ _ hrbpt
  intro r' hr'
  rw [RI.place_eq r box rb rest hc] at hr'
  by_cases c1 : (box.y1 == rb.y1 && box.y2 == rb.y2) = true
  · rw [if_pos c1] at hr'
    simp only [Bool.and_eq_true, beq_iff_eq] at c1
    obtain ⟨c1a, c1b⟩ := c1
    simp only [KeyLe] at hk
    have hx : rb.x1 ≤ box.x1 := by omega
    by_cases c2 : box.x1 ≤ rb.x2
    · rw [if_pos c2] at hr'
      cases hr'
      -- horizontal merge into the last box
      have hnew : ∀ rb' : Box, rb'.x1 = rb.x1 → rb'.y1 = rb.y1 → rb'.y2 = rb.y2 →
          rb'.x2 = max rb.x2 box.x2 →
          RIOK { r with cur := rb' :: rest } box ∧
          ∀ x y, RI.pts { r with cur := rb' :: rest } x y ↔ r.pts x y ∨ box.Mem x y := by
        intro rb' q1 q2 q3 q4
        have hpts : ∀ x y, RI.pts { r with cur := rb' :: rest } x y ↔ r.pts x y ∨ box.Mem x y := by
          intro x y
          simp only [RI.pts, hc, memL_cons', Box.Mem, q1, q2, q3, q4]
          by_cases hA : MemL r.out.toList x y <;> by_cases hB : MemL rest x y <;>
            simp only [hA, hB, true_or, or_true, false_or, or_false] <;> omega
        refine ⟨⟨rb', rest, Y1, Y2, rfl, ?_, hlt, rsep_replace_head hS q1 (by omega), ho, ?_, ?_, ?_,
          ?_, e4, ?_⟩, hpts⟩
        · intro q hq
          rcases List.mem_cons.1 hq with rfl | hq
          · exact ⟨by omega, by omega⟩
          · exact hY q (List.mem_cons_of_mem _ hq)
        · right; exact ⟨by omega, by omega⟩
        · intro x y hp
          show r.extents.x1 ≤ x ∧ r.extents.y1 ≤ y
          rcases (hpts x y).1 hp with hp | hp
          · exact e1 x y hp
          · simp only [Box.Mem] at hp; constructor <;> omega
        · obtain ⟨y, hy⟩ := e2; exact ⟨y, (hpts _ _).2 (Or.inl hy)⟩
        · obtain ⟨x, hx⟩ := e3; exact ⟨x, (hpts _ _).2 (Or.inl hx)⟩
        · rcases e5 with e5 | e5
          · exact Or.inl e5
          · right; show r.extents.x2 ≤ rb'.x2; omega
      apply hnew
      · split <;> rfl
      · split <;> rfl
      · split <;> rfl
      · split <;> (try simp only) <;> omega
    · rw [if_neg c2] at hr'
      cases hr'
      have hpts : ∀ x y, RI.pts { r with cur := box :: rb :: rest } x y ↔ r.pts x y ∨ box.Mem x y := by
        intro x y
        simp only [RI.pts, hc, memL_cons']
        by_cases hA : MemL r.out.toList x y <;> by_cases hB : MemL rest x y <;>
          by_cases hC : rb.Mem x y <;> by_cases hD : box.Mem x y <;>
          simp only [hA, hB, hC, hD, true_or, or_true, false_or, or_false]
      refine ⟨⟨box, rb :: rest, Y1, Y2, rfl, ?_, hlt, ⟨gx, by omega, hS⟩, ho, ?_, ?_, ?_, ?_, e4, ?_⟩,
        hpts⟩
      · intro q hq
        rcases List.mem_cons.1 hq with rfl | hq
        · exact ⟨by omega, by omega⟩
        · exact hY q hq
      · right; exact ⟨by omega, Int.le_refl _⟩
      · intro x y hp
        show r.extents.x1 ≤ x ∧ r.extents.y1 ≤ y
        rcases (hpts x y).1 hp with hp | hp
        · exact e1 x y hp
        · simp only [Box.Mem] at hp; constructor <;> omega
      · obtain ⟨y, hy⟩ := e2; exact ⟨y, (hpts _ _).2 (Or.inl hy)⟩
      · obtain ⟨x, hx⟩ := e3; exact ⟨x, (hpts _ _).2 (Or.inl hx)⟩
      · rcases e5 with e5 | e5
        · exact Or.inl e5
        · right; show r.extents.x2 ≤ box.x2; omega
  · rw [if_neg c1] at hr'
    by_cases c3 : box.y1 ≥ rb.y2
    · rw [if_pos c3] at hr'
      cases hr'
      have ⟨hcO, hcM⟩ := close_spec r rb rest Y1 Y2 hc hY hlt hS ho
      have ⟨f1, f2, f3⟩ := newExt_fields r.extents rb box
      have hpts : ∀ x y, RI.pts { extents := newExt r.extents rb box, out := r.close, cur := [box] } x y ↔
          r.pts x y ∨ box.Mem x y := by
        intro x y
        simp only [RI.pts, hcM, memL_cons', memL_nil', or_false]
      have hcur : ∀ x y, MemL r.cur x y → x < rb.x2 := by
        intro x y ⟨q, hq, hm⟩
        rw [hc] at hq
        have := hS.x2_le q hq
        simp only [Box.Mem] at hm; omega
      have hrb2pt : r.pts (rb.x2 - 1) Y1 := Or.inr (by
        rw [hc]; exact ⟨rb, List.mem_cons_self, by simp only [Box.Mem]; omega⟩)
      refine ⟨⟨box, [], box.y1, box.y2, rfl, ?_, gy, gx, hcO.mono (by omega), ?_, ?_, ?_, ?_, ?_, ?_⟩,
        hpts⟩
      · intro q hq; simp only [List.mem_singleton] at hq; subst hq; exact ⟨rfl, rfl⟩
      · right; exact ⟨rfl, Int.le_refl _⟩
      · intro x y hp
        simp only [f1, f2]
        rcases (hpts x y).1 hp with hp | hp
        · have := e1 x y hp; constructor <;> omega
        · simp only [Box.Mem] at hp; constructor <;> omega
      · simp only [f1]
        by_cases hm : r.extents.x1 ≤ box.x1
        · rw [Int.min_eq_left hm]
          obtain ⟨y, hy⟩ := e2; exact ⟨y, (hpts _ _).2 (Or.inl hy)⟩
        · rw [Int.min_eq_right (by omega)]
          exact ⟨box.y1, (hpts _ _).2 (Or.inr (by simp only [Box.Mem]; omega))⟩
      · simp only [f2]
        obtain ⟨x, hx⟩ := e3; exact ⟨x, (hpts _ _).2 (Or.inl hx)⟩
      · intro x y hm
        simp only [f3]
        rcases (hcM x y).1 hm with hm | hm
        · have := e4 x y hm; omega
        · have := hcur x y hm; omega
      · left
        simp only [f3]
        by_cases hm : r.extents.x2 < rb.x2
        · rw [Int.max_eq_right (by omega)]
          exact ⟨Y1, (hcM _ _).2 hrb2pt⟩
        · rw [Int.max_eq_left (by omega)]
          rcases e5 with ⟨y, hy⟩ | e5
          · exact ⟨y, (hcM _ _).2 (Or.inl hy)⟩
          · have : r.extents.x2 = rb.x2 := by omega
            rw [this]; exact ⟨Y1, (hcM _ _).2 hrb2pt⟩
    · rw [if_neg c3] at hr'
      cases hr'


/-- all points held by the regions under construction -/
def AllPts (ris : List RI) (x y : Int) : Prop := ∃ r ∈ ris, r.pts x y

theorem riok_init (b : Box) (hg : goodRect b = true) :
    RIOK { extents := b, out := ⟨[], []⟩, cur := [b] } b ∧
    ∀ x y, RI.pts { extents := b, out := ⟨[], []⟩, cur := [b] } x y ↔ b.Mem x y := by
  have ⟨gx, gy⟩ := (goodRect_iff b).1 hg
  have hpts : ∀ x y, RI.pts { extents := b, out := ⟨[], []⟩, cur := [b] } x y ↔ b.Mem x y := by
    intro x y
    simp only [RI.pts, Out.toList, List.reverse_nil, List.append_nil, memL_nil', false_or, memL_cons',
      or_false]
  refine ⟨⟨b, [], b.y1, b.y2, rfl, ?_, gy, gx, OutOK.init _, Or.inr ⟨rfl, Int.le_refl _⟩, ?_, ?_, ?_, ?_,
    Or.inr (Int.le_refl _)⟩, hpts⟩
  · intro q hq; simp only [List.mem_singleton] at hq; subst hq; exact ⟨rfl, rfl⟩
  · intro x y hp
    have := (hpts x y).1 hp
    simp only [Box.Mem] at this
    exact ⟨this.1, this.2.2.1⟩
  · exact ⟨b.y1, (hpts _ _).2 (by simp only [Box.Mem]; omega)⟩
  · exact ⟨b.x1, (hpts _ _).2 (by simp only [Box.Mem]; omega)⟩
  · intro x y hm
    simp only [Out.toList, List.reverse_nil, List.append_nil, memL_nil'] at hm

theorem scatterOne_spec (box K : Box) (ris : List RI) (h : ∀ r ∈ ris, RIOK r K)
    (hk : KeyLe K box) (hg : goodRect box = true) :
    (∀ r ∈ scatterOne box ris, RIOK r box) ∧
    ∀ x y, AllPts (scatterOne box ris) x y ↔ AllPts ris x y ∨ box.Mem x y := by
  induction ris with
  | nil =>
    have ⟨a, b⟩ := riok_init box hg
    refine ⟨fun r hr => ?_, fun x y => ?_⟩
    · simp only [scatterOne, List.mem_singleton] at hr; subst hr; exact a
    · simp only [scatterOne, AllPts, List.mem_singleton, exists_eq_left, b, List.not_mem_nil,
        false_and, exists_false, false_or]
  | cons r rs ih =>
    have hr := h r List.mem_cons_self
    have hrs := fun q hq => h q (List.mem_cons_of_mem _ hq)
    simp only [scatterOne]
    cases hp : r.place box with
    | some r' =>
      have ⟨a, b⟩ := place_spec r K box hr hk hg r' hp
      refine ⟨fun q hq => ?_, fun x y => ?_⟩
      · rcases List.mem_cons.1 hq with rfl | hq
        · exact a
        · exact (hrs q hq).mono hk
      · simp only [AllPts, List.mem_cons, exists_eq_or_imp, b]
        by_cases hA : r.pts x y <;> by_cases hB : box.Mem x y <;>
          simp only [hA, hB, true_or, or_true, false_or, or_false]
    | none =>
      have ⟨a, b⟩ := ih hrs
      refine ⟨fun q hq => ?_, fun x y => ?_⟩
      · rcases List.mem_cons.1 hq with rfl | hq
        · exact hr.mono hk
        · exact a q hq
      · have := b x y
        simp only [AllPts, List.mem_cons, exists_eq_or_imp] at this ⊢
        rw [this, or_assoc]

theorem scatterOne_ne_nil (box : Box) (ris : List RI) : scatterOne box ris ≠ [] := by
  cases ris with
  | nil => simp [scatterOne]
  | cons r rs => simp only [scatterOne]; split <;> simp

theorem scatter_fold (t : List Box) (K : Box) (ris : List RI) (h : ∀ r ∈ ris, RIOK r K)
    (hs : (K :: t).Pairwise KeyLe) (hg : ∀ b ∈ t, goodRect b = true) (hne : ris ≠ []) :
    (∃ K', ∀ r ∈ t.foldl (fun acc box => scatterOne box acc) ris, RIOK r K') ∧
    (∀ x y, AllPts (t.foldl (fun acc box => scatterOne box acc) ris) x y ↔
      AllPts ris x y ∨ MemL t x y) ∧
    t.foldl (fun acc box => scatterOne box acc) ris ≠ [] := by
  induction t generalizing K ris with
  | nil => exact ⟨⟨K, h⟩, fun x y => by simp [memL_nil'], hne⟩
  | cons b t ih =>
    have ⟨h1, h2⟩ := List.pairwise_cons.1 hs
    have hkb := h1 b List.mem_cons_self
    have ⟨a, c⟩ := scatterOne_spec b K ris h hkb (hg b List.mem_cons_self)
    have ⟨i1, i2, i3⟩ := ih b (scatterOne b ris) a h2 (fun q hq => hg q (List.mem_cons_of_mem _ hq))
      (scatterOne_ne_nil b ris)
    refine ⟨i1, fun x y => ?_, i3⟩
    simp only [List.foldl_cons]
    rw [i2, c, memL_cons', or_assoc]

/-! ### the final pass over one region -/

/-- the extents `RI.finish` computes -/
def finExt (E rb : Box) : Box :=
  let e := { E with y2 := rb.y2 }
  if e.x2 < rb.x2 then { e with x2 := rb.x2 } else e

theorem finExt_fields (E rb : Box) :
    (finExt E rb).x1 = E.x1 ∧ (finExt E rb).y1 = E.y1 ∧ (finExt E rb).x2 = max E.x2 rb.x2 ∧
    (finExt E rb).y2 = rb.y2 := by
  simp only [finExt]
  split <;> refine ⟨?_, ?_, ?_, ?_⟩ <;> (try simp only at *) <;> omega

theorem RI.finish_single (r : RI) (rb : Box) (rest : List Box) (h : r.cur = rb :: rest) (q : Box)
    (hl : r.close.toList = [q]) : r.finish = ⟨finExt r.extents rb, .single⟩ := by
  simp only [RI.finish, h, finExt, hl]

theorem RI.finish_heap (r : RI) (rb : Box) (rest : List Box) (h : r.cur = rb :: rest)
    (hl : ∀ q, r.close.toList ≠ [q]) : r.finish = ⟨finExt r.extents rb, .heap r.close.toList⟩ := by
  simp only [RI.finish, h, finExt]

theorem finish_spec (r : RI) (K : Box) (h : RIOK r K) :
    Canon r.finish ∧ (∀ x y, r.finish.Mem x y ↔ r.pts x y) ∧ ∃ x y, r.pts x y := by
  obtain ⟨rb, rest, Y1, Y2, hc, hY, hlt, hS, ho, hkey, e1, e2, e3, e4, e5⟩ := h
  have ⟨hrb1, hrb2⟩ := hY rb List.mem_cons_self
  have hrbg := hS.head_good
  have ⟨hcO, hcM⟩ := close_spec r rb rest Y1 Y2 hc hY hlt hS ho
  have ⟨f1, f2, f3, f4⟩ := finExt_fields r.extents rb
  have hrbmem : ∀ x y, rb.Mem x y → r.pts x y := fun x y hm =>
    Or.inr (by rw [hc]; exact ⟨rb, List.mem_cons_self, hm⟩)
  have hcur : ∀ x y, MemL r.cur x y → x < rb.x2 ∧ Y1 ≤ y ∧ y < Y2 := by
    intro x y ⟨q, hq, hm⟩
    rw [hc] at hq
    have := hS.x2_le q hq
    have := hY q hq
    simp only [Box.Mem] at hm; omega
  have hbb : PtBBox (finExt r.extents rb) r.pts := by
    refine ⟨fun x y hp => ?_, ?_, ?_, ?_, ?_⟩
    · simp only [Box.Mem, f1, f2, f3, f4]
      have := e1 x y hp
      rcases hp with hp | hp
      · have := e4 x y hp
        have := ho.memL_lt hp
        omega
      · have := hcur x y hp; omega
    · rw [f1]; exact e2
    · rw [f3]
      by_cases hm : r.extents.x2 < rb.x2
      · rw [Int.max_eq_right (by omega)]
        exact ⟨Y1, hrbmem _ _ (by simp only [Box.Mem]; omega)⟩
      · rw [Int.max_eq_left (by omega)]
        rcases e5 with ⟨y, hy⟩ | e5
        · exact ⟨y, Or.inl hy⟩
        · have : r.extents.x2 = rb.x2 := by omega
          rw [this]; exact ⟨Y1, hrbmem _ _ (by simp only [Box.Mem]; omega)⟩
    · rw [f2]; exact e3
    · rw [f4]; exact ⟨rb.x1, hrbmem _ _ (by simp only [Box.Mem]; omega)⟩
  have hne : ∃ x y, r.pts x y := ⟨rb.x1, Y1, hrbmem _ _ (by simp only [Box.Mem]; omega)⟩
  have hcan := hcO.canon
  cases hl : r.close.toList with
  | nil =>
    obtain ⟨x, y, hp⟩ := hne
    have := (hcM x y).2 hp
    rw [hl] at this
    exact absurd this (by simp [memL_nil'])
  | cons q t =>
    cases t with
    | nil =>
      rw [RI.finish_single r rb rest hc q hl]
      rw [hl] at hcM hcan
      have hq := canonList_good' hcan q List.mem_cons_self
      have := (hbb.congr (fun x y => (hcM x y).symm)).unique (ptBBox_single hq)
      refine ⟨?_, fun x y => ?_, hne⟩
      · show goodRect (finExt r.extents rb) = true
        rw [this]; exact hq
      · rw [mem_single, this, ← hcM, memL_cons', memL_nil', or_false]
    | cons q2 t =>
      have hl' : ∀ q', r.close.toList ≠ [q'] := by intro q' e; rw [hl] at e; simp at e
      rw [RI.finish_heap r rb rest hc hl']
      refine ⟨⟨by rw [hl]; simp, hcan, (isBBox_iff_ptBBox (canonList_good' hcan) _).2
        (hbb.congr (fun x y => (hcM x y).symm))⟩, fun x y => ?_, hne⟩
      rw [← hcM]; rfl


/-! ### step 3: pairwise union -/

/-- canonical and non-empty -/
def GoodReg (r : Region) : Prop := Canon r ∧ ∃ x y, r.Mem x y

theorem GoodReg.nil_false {r : Region} (h : GoodReg r) : r.nil = false := by
  obtain ⟨hc, x, y, hm⟩ := h
  cases hn : r.nil with
  | false => rfl
  | true => exact absurd hm (hc.not_mem_of_nil hn x y)

theorem growExtents_eq (p h : Region) : growExtents p h = bboxUnion p.extents h.extents := by
  simp only [growExtents, bboxUnion]
  apply Box.ext' <;> simp only <;> split <;> omega

theorem unionPair_spec (reg hreg : Region) (h1 : GoodReg reg) (h2 : GoodReg hreg) :
    GoodReg (unionPair reg hreg) ∧
    ∀ x y, (unionPair reg hreg).Mem x y ↔ reg.Mem x y ∨ hreg.Mem x y := by
  have n1 := h1.nil_false
  have n2 := h2.nil_false
  have ⟨pa, pb, pc, pd⟩ := pixmanOp_spec .union true true (Or.inl ⟨rfl, rfl, rfl⟩) reg reg hreg
    h1.1 h2.1 n1 n2
  simp only [unionPair, growExtents_eq]
  generalize pixmanOp .union true true reg reg hreg = p at pa pb pc pd
  have hU : PtBBox (bboxUnion reg.extents hreg.extents) (fun x y => reg.Mem x y ∨ hreg.Mem x y) :=
    ptBBox_union (h1.1.ptBBox n1) (h2.1.ptBBox n2) (fun _ _ => Iff.rfl)
  have hpc : ∀ x y, p.1.Mem x y ↔ reg.Mem x y ∨ hreg.Mem x y := pc
  have hsingle : p.1.data = .single → p.1.extents = bboxUnion reg.extents hreg.extents := by
    intro hd
    have hg : goodRect p.1.extents = true := by
      have := pb; unfold CanonData at this; simp only [hd] at this; exact this
    have hb : PtBBox p.1.extents p.1.Mem :=
      (ptBBox_single hg).congr (fun x y => by rw [mem_of_single hd]; simp [memL_cons', memL_nil'])
    exact (hb.congr hpc).unique hU
  have hbox : bboxUnion p.1.extents hreg.extents = bboxUnion reg.extents hreg.extents := by
    by_cases hd : p.1.data = .single
    · rw [hsingle hd]; simp only [bboxUnion]; apply Box.ext' <;> simp only <;> omega
    · rw [pd hd]
  rw [hbox]
  have hR := region_with_bbox p.1 (bboxUnion reg.extents hreg.extents)
    (fun x y => reg.Mem x y ∨ hreg.Mem x y) pb hpc hU hsingle
  obtain ⟨x, y, hm⟩ := h1.2
  exact ⟨⟨hR.1, x, y, (hR.2 x y).2 (Or.inl hm)⟩, hR.2⟩

/-- the points of a list of regions -/
def RegsPts (l : List Region) (x y : Int) : Prop := ∃ r ∈ l, r.Mem x y

theorem regsPts_append (l1 l2 : List Region) (x y : Int) :
    RegsPts (l1 ++ l2) x y ↔ RegsPts l1 x y ∨ RegsPts l2 x y := by
  simp [RegsPts, or_and_right, exists_or]

theorem zipWith_unionPair_spec (B C : List Region) (hlen : B.length = C.length)
    (hB : ∀ r ∈ B, GoodReg r) (hC : ∀ r ∈ C, GoodReg r) :
    (∀ r ∈ List.zipWith unionPair B C, GoodReg r) ∧
    ∀ x y, RegsPts (List.zipWith unionPair B C) x y ↔ RegsPts B x y ∨ RegsPts C x y := by
  induction B generalizing C with
  | nil =>
    cases C with
    | nil => simp [RegsPts]
    | cons c cs => simp at hlen
  | cons b bs ih =>
    cases C with
    | nil => simp at hlen
    | cons c cs =>
      have ⟨i1, i2⟩ := ih cs (by simpa using hlen) (fun r hr => hB r (List.mem_cons_of_mem _ hr))
        (fun r hr => hC r (List.mem_cons_of_mem _ hr))
      have ⟨u1, u2⟩ := unionPair_spec b c (hB b List.mem_cons_self) (hC c List.mem_cons_self)
      refine ⟨fun r hr => ?_, fun x y => ?_⟩
      · simp only [List.zipWith_cons_cons, List.mem_cons] at hr
        rcases hr with rfl | hr
        · exact u1
        · exact i1 r hr
      · have := i2 x y
        simp only [RegsPts, List.zipWith_cons_cons, List.mem_cons, exists_eq_or_imp, u2] at this ⊢
        rw [this]
        by_cases p1 : b.Mem x y <;> by_cases p2 : c.Mem x y <;>
          simp only [p1, p2, true_or, or_true, false_or, or_false]

theorem mergeRound_spec (ri : List Region) (h : ∀ r ∈ ri, GoodReg r) :
    (∀ r ∈ mergeRound ri, GoodReg r) ∧
    (∀ x y, RegsPts (mergeRound ri) x y ↔ RegsPts ri x y) ∧
    (mergeRound ri).length = ri.length / 2 + ri.length % 2 := by
  have hsplit : ri = (ri.take (ri.length / 2 + ri.length % 2)).take (ri.length % 2) ++
      ((ri.take (ri.length / 2 + ri.length % 2)).drop (ri.length % 2) ++
        ri.drop (ri.length / 2 + ri.length % 2)) := by
    rw [← List.append_assoc, List.take_append_drop, List.take_append_drop]
  have hmem : ∀ (n : Nat) (l : List Region) (r : Region), (r ∈ l.take n → r ∈ l) ∧ (r ∈ l.drop n → r ∈ l) :=
    fun n l r => ⟨List.mem_of_mem_take, List.mem_of_mem_drop⟩
  have hA : ∀ r ∈ (ri.take (ri.length / 2 + ri.length % 2)).take (ri.length % 2), GoodReg r :=
    fun r hr => h r ((hmem _ _ r).1 ((hmem _ _ r).1 hr))
  have hB : ∀ r ∈ (ri.take (ri.length / 2 + ri.length % 2)).drop (ri.length % 2), GoodReg r :=
    fun r hr => h r ((hmem _ _ r).1 ((hmem _ _ r).2 hr))
  have hC : ∀ r ∈ ri.drop (ri.length / 2 + ri.length % 2), GoodReg r :=
    fun r hr => h r ((hmem _ _ r).2 hr)
  have hlen : ((ri.take (ri.length / 2 + ri.length % 2)).drop (ri.length % 2)).length =
      (ri.drop (ri.length / 2 + ri.length % 2)).length := by
    simp only [List.length_drop, List.length_take]; omega
  have ⟨z1, z2⟩ := zipWith_unionPair_spec _ _ hlen hB hC
  simp only [mergeRound]
  refine ⟨fun r hr => ?_, fun x y => ?_, ?_⟩
  · rcases List.mem_append.1 hr with hr | hr
    · exact hA r hr
    · exact z1 r hr
  · rw [regsPts_append, z2]
    conv => rhs; rw [hsplit]
    rw [regsPts_append, regsPts_append]
  · simp only [List.length_append, List.length_zipWith, List.length_drop, List.length_take]
    omega

theorem mergeAllRounds_spec (fuel : Nat) (ri : List Region) (h : ∀ r ∈ ri, GoodReg r)
    (hne : ri ≠ []) (hf : ri.length ≤ fuel + 1) :
    ∃ r, mergeAllRounds fuel ri = [r] ∧ GoodReg r ∧ ∀ x y, r.Mem x y ↔ RegsPts ri x y := by
  induction fuel generalizing ri with
  | zero =>
    match ri, hne, hf, h with
    | [r], _, _, h =>
      exact ⟨r, rfl, h r List.mem_cons_self, fun x y => by simp [RegsPts]⟩
    | _ :: _ :: _, _, hf, _ => simp at hf
  | succ n ih =>
    simp only [mergeAllRounds]
    by_cases hl : ri.length > 1
    · rw [if_pos hl]
      have ⟨m1, m2, m3⟩ := mergeRound_spec ri h
      have hne' : mergeRound ri ≠ [] := by
        intro e; rw [e] at m3; simp only [List.length_nil] at m3; omega
      obtain ⟨r, e, g, p⟩ := ih (mergeRound ri) m1 hne' (by omega)
      exact ⟨r, e, g, fun x y => (p x y).trans (m2 x y)⟩
    · rw [if_neg hl]
      match ri, hne, hl, h with
      | [r], _, _, h =>
        exact ⟨r, rfl, h r List.mem_cons_self, fun x y => by simp [RegsPts]⟩
      | _ :: _ :: _, _, hl, _ => simp at hl

/-! ### validate -/

theorem validateRects_spec (l : List Box) (hg : ∀ b ∈ l, goodRect b = true) :
    Canon (validateRects l) ∧ ∀ x y, (validateRects l).Mem x y ↔ MemL l x y := by
  unfold validateRects
  have hsorted := sortRects_sorted l
  have hmemS := memL_sortRects l
  have hgS : ∀ b ∈ sortRects l, goodRect b = true := fun b hb => hg b ((mem_sortRects b l).1 hb)
  generalize sortRects l = sl at hsorted hmemS hgS
  cases sl with
  | nil =>
    refine ⟨canon_init, fun x y => ?_⟩
    rw [← hmemS]
    simp only [memL_nil', iff_false]
    exact not_mem_init x y
  | cons b t =>
    simp only
    have ⟨i1, i2⟩ := riok_init b (hgS b List.mem_cons_self)
    have ⟨⟨K', f1⟩, f2, f3⟩ := scatter_fold t b [{ extents := b, out := ⟨[], []⟩, cur := [b] }]
      (fun r hr => by simp only [List.mem_singleton] at hr; subst hr; exact i1) hsorted
      (fun q hq => hgS q (List.mem_cons_of_mem _ hq)) (by simp)
    generalize t.foldl (fun acc box => scatterOne box acc)
      [{ extents := b, out := ⟨[], []⟩, cur := [b] }] = ris at f1 f2 f3
    have hregs : ∀ r ∈ ris.map RI.finish, GoodReg r := by
      intro r hr
      obtain ⟨ri, hri, rfl⟩ := List.mem_map.1 hr
      have ⟨a, b', x, y, c⟩ := finish_spec ri K' (f1 ri hri)
      exact ⟨a, x, y, (b' x y).2 c⟩
    have hpts : ∀ x y, RegsPts (ris.map RI.finish) x y ↔ AllPts ris x y := by
      intro x y
      simp only [RegsPts, AllPts, List.mem_map]
      constructor
      · rintro ⟨r, ⟨ri, hri, rfl⟩, hm⟩
        exact ⟨ri, hri, ((finish_spec ri K' (f1 ri hri)).2.1 x y).1 hm⟩
      · rintro ⟨ri, hri, hm⟩
        exact ⟨_, ⟨ri, hri, rfl⟩, ((finish_spec ri K' (f1 ri hri)).2.1 x y).2 hm⟩
    obtain ⟨r, e, g, p⟩ := mergeAllRounds_spec (ris.map RI.finish).length (ris.map RI.finish) hregs
      (by simpa using f3) (by omega)
    rw [e]
    refine ⟨g.1, fun x y => ?_⟩
    rw [p, hpts, f2, ← hmemS, memL_cons']
    simp only [AllPts, List.mem_singleton, exists_eq_left, i2]


/-! ### pixman_region_init_rects -/

theorem wrapS_add_mul (n : Nat) (v m : Int) : wrapS n (v + m * 2 ^ n) = wrapS n v := by
  simp only [wrapS, Int.add_mul_emod_self_right]

/-- all four coordinates of the box are representable in the coordinate type -/
def BoxInRange (c : Cfg) (b : Box) : Prop :=
  c.min ≤ b.x1 ∧ b.x1 ≤ c.max ∧ c.min ≤ b.y1 ∧ b.y1 ≤ c.max ∧
  c.min ≤ b.x2 ∧ b.x2 ≤ c.max ∧ c.min ≤ b.y2 ∧ b.y2 ≤ c.max

theorem wrapS_wsum (n : Nat) (hn1 : 1 ≤ n) (hn : n ≤ 32) (a b : Int)
    (h1 : -(2 ^ (n - 1) : Int) ≤ b) (h2 : b < (2 ^ (n - 1) : Int)) :
    wrapS n (a + (((b - a) % (2 ^ 32 : Int)).toNat : Int)) = b := by
  have hpos : (0 : Int) ≤ (b - a) % (2 ^ 32 : Int) := Int.emod_nonneg _ (by decide)
  rw [Int.toNat_of_nonneg hpos]
  have hsplit : (2 ^ 32 : Int) = 2 ^ (32 - n) * 2 ^ n := by
    rw [← Int.pow_add]; congr 1; omega
  have e : a + (b - a) % (2 ^ 32 : Int) = b + (-((b - a) / (2 ^ 32 : Int)) * 2 ^ (32 - n)) * 2 ^ n := by
    have := Int.emod_add_mul_ediv (b - a) (2 ^ 32 : Int)
    rw [Int.mul_assoc, ← hsplit]
    generalize (b - a) % (2 ^ 32 : Int) = r at *
    generalize (b - a) / (2 ^ 32 : Int) = q at *
    generalize (2 ^ 32 : Int) = P at *
    have : -q * P = -(P * q) := by rw [Int.neg_mul, Int.mul_comm]
    omega
  rw [e, wrapS_add_mul, wrapS_id' n hn1 b h1 h2]

theorem rectBox_of_box (c : Cfg) (hb1 : 1 ≤ c.bits) (hb2 : c.bits ≤ 32) (b : Box)
    (hr : BoxInRange c b) :
    rectBox c b.x1 b.y1 ((b.x2 - b.x1) % (2 ^ 32 : Int)).toNat ((b.y2 - b.y1) % (2 ^ 32 : Int)).toNat
      = b := by
  obtain ⟨r1, r2, r3, r4, r5, r6, r7, r8⟩ := hr
  rw [Cfg.min_eq] at r1 r3 r5 r7
  rw [Cfg.max_eq] at r2 r4 r6 r8
  simp only [rectBox]
  rw [wrapS_id' _ hb1 b.x1 (by omega) (by omega), wrapS_id' _ hb1 b.y1 (by omega) (by omega),
    wrapS_wsum _ hb1 hb2 b.x1 b.x2 (by omega) (by omega),
    wrapS_wsum _ hb1 hb2 b.y1 b.y2 (by omega) (by omega)]

theorem memL_filter_good (boxes : List Box) (x y : Int) :
    MemL (boxes.filter fun b => !(decide (b.x1 ≥ b.x2) || decide (b.y1 ≥ b.y2))) x y ↔ MemL boxes x y := by
  simp only [MemL, List.mem_filter, Bool.not_eq_true', Bool.or_eq_false_iff, decide_eq_false_iff_not]
  constructor
  · rintro ⟨b, ⟨hb, _⟩, hm⟩; exact ⟨b, hb, hm⟩
  · rintro ⟨b, hb, hm⟩
    refine ⟨b, ⟨hb, ?_⟩, hm⟩
    simp only [Box.Mem] at hm; omega

theorem good_of_filter (boxes : List Box) :
    ∀ b ∈ boxes.filter (fun b => !(decide (b.x1 ≥ b.x2) || decide (b.y1 ≥ b.y2))), goodRect b = true := by
  intro b hb
  simp only [List.mem_filter, Bool.not_eq_true', Bool.or_eq_false_iff, decide_eq_false_iff_not] at hb
  rw [goodRect_iff]; omega

theorem initRects_spec (c : Cfg) (hb1 : 1 ≤ c.bits) (hb2 : c.bits ≤ 32) (boxes : List Box)
    (hr : ∀ b ∈ boxes, BoxInRange c b) :
    (initRects c boxes).2 = true ∧ Canon (initRects c boxes).1 ∧
    ∀ x y, (initRects c boxes).1.Mem x y ↔ MemL boxes x y := by
  match boxes, hr with
  | [], _ =>
    exact ⟨rfl, canon_init, fun x y => by simp [initRects, memL_nil', not_mem_init]⟩
  | [b], hr =>
    have ⟨a, d⟩ := initRect_spec c b.x1 b.y1 ((b.x2 - b.x1) % (2 ^ 32 : Int)).toNat
      ((b.y2 - b.y1) % (2 ^ 32 : Int)).toNat
    rw [rectBox_of_box c hb1 hb2 b (hr b List.mem_cons_self)] at d
    refine ⟨rfl, a, fun x y => ?_⟩
    show (initRect c b.x1 b.y1 _ _).Mem x y ↔ _
    rw [d, memL_cons', memL_nil', or_false]
  | b1 :: b2 :: t, _ =>
    have hM := memL_filter_good (b1 :: b2 :: t)
    have hG := good_of_filter (b1 :: b2 :: t)
    simp only [initRects]
    generalize (b1 :: b2 :: t).filter (fun b => !(decide (b.x1 ≥ b.x2) || decide (b.y1 ≥ b.y2))) = l at hM hG
    match l, hM, hG with
    | [], hM, _ =>
      exact ⟨rfl, canon_init, fun x y => by rw [← hM]; simp [memL_nil', not_mem_init]⟩
    | [q], hM, hG =>
      refine ⟨rfl, canon_single (hG q List.mem_cons_self), fun x y => ?_⟩
      rw [← hM]; exact mem_single q x y |>.trans (by simp [memL_cons', memL_nil'])
    | q1 :: q2 :: u, hM, hG =>
      have ⟨a, d⟩ := validateRects_spec (q1 :: q2 :: u) hG
      exact ⟨rfl, a, fun x y => (d x y).trans (hM x y)⟩

end Pixman.Region

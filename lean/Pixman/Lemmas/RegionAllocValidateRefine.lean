/-
  validate does not depend on which sort is used (C15): its body on an already sorted list
  (`validateCore`) is exact for every list sorted by the key, and two sorted permutations of the
  same non-degenerate rectangles give the very same region (canonical form is unique, C06).
-/
import Pixman.Lemmas.RegionAllocSort
import Pixman.Props.C06
namespace Pixman.Model.RegionAlloc
open Pixman.Region

/-- steps 2 and 3 of validate on a list that step 1 has sorted -/
def validateCore (sl : List Box) : Region :=
  match sl with
  | [] => init
  | b :: t =>
    let ris := t.foldl (fun acc box => scatterOne box acc)
      [{ extents := b, out := ⟨[], []⟩, cur := [b] }]
    let regs := ris.map RI.finish
    match mergeAllRounds regs.length regs with
    | r :: _ => r
    | [] => init

theorem validateRects_eq_core (l : List Box) : validateRects l = validateCore (sortRects l) := rfl

theorem validateCore_spec (sl : List Box) (hsorted : sl.Pairwise KeyLe)
    (hgS : ∀ b ∈ sl, goodRect b = true) :
    Canon (validateCore sl) ∧ ∀ x y, (validateCore sl).Mem x y ↔ MemL sl x y := by
  unfold validateCore
  cases sl with
  | nil =>
    refine ⟨canon_init, fun x y => ?_⟩
    simp only [memL_nil', iff_false]
    exact not_mem_init x y
  | cons b t =>
    simp only
    have ⟨i1, i2⟩ := riok_init b (hgS b List.mem_cons_self)
    have ⟨⟨K', f1⟩, f2, f3⟩ := scatter_fold t b [{ extents := b, out := ⟨[], []⟩, cur := [b] }]
      (fun r hr => by simp only [List.mem_singleton] at hr; subst hr; exact i1) hsorted
      (fun q hq => hgS q (List.mem_cons_of_mem _ hq)) (by simp)
    generalize t.foldl (fun acc box => scatterOne box acc)
      [{ extents := b, out := ⟨[], []⟩, cur := [b] }] = ris at f1 f2 f3
    have hregs : ∀ r ∈ ris.map RI.finish, GoodReg r := by
      intro r hr
      obtain ⟨ri, hri, rfl⟩ := List.mem_map.1 hr
      have ⟨a, b', x, y, c⟩ := finish_spec ri K' (f1 ri hri)
      exact ⟨a, x, y, (b' x y).2 c⟩
    have hpts : ∀ x y, RegsPts (ris.map RI.finish) x y ↔ AllPts ris x y := by
      intro x y
      simp only [RegsPts, AllPts, List.mem_map]
      constructor
      · rintro ⟨r, ⟨ri, hri, rfl⟩, hm⟩
        exact ⟨ri, hri, ((finish_spec ri K' (f1 ri hri)).2.1 x y).1 hm⟩
      · rintro ⟨ri, hri, hm⟩
        exact ⟨_, ⟨ri, hri, rfl⟩, ((finish_spec ri K' (f1 ri hri)).2.1 x y).2 hm⟩
    obtain ⟨r, e, g, p⟩ := mergeAllRounds_spec (ris.map RI.finish).length (ris.map RI.finish) hregs
      (by simpa using f3) (by omega)
    rw [e]
    refine ⟨g.1, fun x y => ?_⟩
    rw [p, hpts, f2, memL_cons']
    simp only [AllPts, List.mem_singleton, exists_eq_left, i2]

theorem memL_of_perm {l l' : List Box} (p : l.Perm l') (x y : Int) : MemL l x y ↔ MemL l' x y := by
  simp only [MemL]
  constructor
  · rintro ⟨b, hb, hm⟩; exact ⟨b, (p.mem_iff).1 hb, hm⟩
  · rintro ⟨b, hb, hm⟩; exact ⟨b, (p.mem_iff).2 hb, hm⟩

/-- validate with the literal quick sort gives the same region as with `sortRects` -/
theorem validateCore_quickSort (l : List Box) (hg : ∀ b ∈ l, goodRect b = true) (hne : l ≠ []) :
    validateCore (quickSortRects l) = validateRects l := by
  have ⟨qp, qs⟩ := quickSortRects_spec l
  have hq := validateCore_spec (quickSortRects l) qs (fun b hb => hg b ((qp.mem_iff).1 hb))
  have hv := validateRects_spec l hg
  apply Pixman.Props.C06.canon_unique hq.1 hv.1
  · intro x y
    rw [hq.2, hv.2]; exact memL_of_perm qp x y
  · obtain ⟨b, t, rfl⟩ : ∃ b t, l = b :: t := by
      cases l with
      | nil => exact absurd rfl hne
      | cons b t => exact ⟨b, t, rfl⟩
    have hb := (goodRect_iff b).1 (hg b List.mem_cons_self)
    refine ⟨b.x1, b.y1, (hq.2 _ _).2 ((memL_of_perm qp _ _).2 ⟨b, List.mem_cons_self, ?_⟩)⟩
    simp only [Box.Mem]; omega

end Pixman.Model.RegionAlloc

import Pixman.Lemmas.Blend
import Pixman.Spec.PdfBlendInt
/-! Lemmas tying the model's `blend_<mode>` functions and `PDF_SEPARABLE_BLEND_MODE` numerators
(`Lemmas.pdfNumC`, `uint32_t` arithmetic with an `int32_t` blend term added) to the exact integer
numerators of `Spec.PdfInt`: no wrap-around, no negative value, for ALL 8-bit channel values
(premultiplied or not).

Proof style: every non-linear fact is `Int.mul_nonneg` on two linear forms, expanded into the four
products `s*da`, `d*sa`, `s*d`, `sa*da` by a ring identity (`grind`), then `omega` with the
products as atoms. -/
namespace Pixman.Lemmas
open Pixman.Arith Pixman.Spec Pixman.Combine32 Pixman.Spec.PdfInt

/-! ### `int32_t` / `uint32_t` conversions -/

theorem toU32_eq (x : Int) (h0 : 0 ≤ x) (h1 : x < 4294967296) : toU32 x = x.toNat := by
  unfold toU32; rw [Int.emod_eq_of_lt h0 h1]

theorem toI32_toU32 (x : Int) (h0 : -2147483648 ≤ x) (h1 : x < 2147483648) :
    toI32 (toU32 x) = x := by
  unfold toI32 toU32
  have hm : (x % 4294967296).toNat % 4294967296 = (x % 4294967296).toNat := by
    apply Nat.mod_eq_of_lt; omega
  rw [hm]
  split <;> omega

/-! ### the model's blend function of a mode -/

/-- `blend_<mode>` of `pixman-combine32.c` (the model's transcription) -/
def modeBlend : Mode → Int → Int → Int → Int → Int
  | .screen => blendScreen | .overlay => blendOverlay | .darken => blendDarken
  | .lighten => blendLighten | .hardLight => blendHardLight | .difference => blendDifference
  | .exclusion => blendExclusion

/-- four 8-bit quantities -/
structure Ch8 (d da s sa : Int) : Prop where
  d0 : 0 ≤ d
  d1 : d ≤ 255
  a0 : 0 ≤ da
  a1 : da ≤ 255
  s0 : 0 ≤ s
  s1 : s ≤ 255
  t0 : 0 ≤ sa
  t1 : sa ≤ 255

theorem Ch8.ofNat (d da s sa : Nat) (hd : d ≤ 255) (hda : da ≤ 255) (hs : s ≤ 255) (hsa : sa ≤ 255) :
    Ch8 d da s sa := ⟨by omega, by omega, by omega, by omega, by omega, by omega, by omega, by omega⟩

theorem prod_bounds (x y : Int) (hx0 : 0 ≤ x) (hx : x ≤ 255) (hy0 : 0 ≤ y) (hy : y ≤ 255) :
    0 ≤ x * y ∧ x * y ≤ 65025 := by
  have h1 := Int.mul_nonneg hx0 hy0
  have h2 : x * y ≤ 255 * 255 := Int.mul_le_mul hx hy hy0 (by omega)
  omega

/-- bounds of the four products every numerator is linear in -/
theorem Ch8.atoms {d da s sa : Int} (h : Ch8 d da s sa) :
    (0 ≤ s * da ∧ s * da ≤ 65025) ∧ (0 ≤ d * sa ∧ d * sa ≤ 65025) ∧
    (0 ≤ s * d ∧ s * d ≤ 65025) ∧ (0 ≤ sa * da ∧ sa * da ≤ 65025) ∧
    s * d ≤ 255 * s ∧ s * d ≤ 255 * d ∧ s * da ≤ 255 * s ∧ s * da ≤ 255 * da ∧
    d * sa ≤ 255 * d ∧ d * sa ≤ 255 * sa ∧ sa * da ≤ 255 * sa ∧ sa * da ≤ 255 * da := by
  obtain ⟨d0, d1, a0, a1, s0, s1, t0, t1⟩ := h
  refine ⟨prod_bounds _ _ s0 s1 a0 a1, prod_bounds _ _ d0 d1 t0 t1, prod_bounds _ _ s0 s1 d0 d1,
    prod_bounds _ _ t0 t1 a0 a1, ?_, ?_, ?_, ?_, ?_, ?_, ?_, ?_⟩
  · have k := Int.mul_nonneg s0 (show 0 ≤ 255 - d by omega)
    have e : s * (255 - d) = 255 * s - s * d := by grind
    omega
  · have k := Int.mul_nonneg (show 0 ≤ 255 - s by omega) d0
    have e : (255 - s) * d = 255 * d - s * d := by grind
    omega
  · have k := Int.mul_nonneg s0 (show 0 ≤ 255 - da by omega)
    have e : s * (255 - da) = 255 * s - s * da := by grind
    omega
  · have k := Int.mul_nonneg (show 0 ≤ 255 - s by omega) a0
    have e : (255 - s) * da = 255 * da - s * da := by grind
    omega
  · have k := Int.mul_nonneg d0 (show 0 ≤ 255 - sa by omega)
    have e : d * (255 - sa) = 255 * d - d * sa := by grind
    omega
  · have k := Int.mul_nonneg (show 0 ≤ 255 - d by omega) t0
    have e : (255 - d) * sa = 255 * sa - d * sa := by grind
    omega
  · have k := Int.mul_nonneg t0 (show 0 ≤ 255 - da by omega)
    have e : sa * (255 - da) = 255 * sa - sa * da := by grind
    omega
  · have k := Int.mul_nonneg (show 0 ≤ 255 - sa by omega) a0
    have e : (255 - sa) * da = 255 * da - sa * da := by grind
    omega

/-- the second branch of Overlay / HardLight, `as·ad − 2·(ad − d)·(as − s)`, in the four products -/
theorem hl2_expand (d da s sa : Int) :
    sa * da - 2 * (da - d) * (sa - s) = 2 * (s * da) + 2 * (d * sa) - 2 * (s * d) - sa * da := by
  grind

theorem two_mul_expand (s d : Int) : 2 * s * d = 2 * (s * d) := by grind

/-- the model's `blend_<mode>` is the Spec polynomial on 8-bit operands (Overlay: the detour
through a `uint32_t` local and back to `int32_t` loses nothing) -/
theorem modeBlend_eq (m : Mode) (d da s sa : Int) (h : Ch8 d da s sa) :
    modeBlend m d da s sa = blendNum m d da s sa := by
  obtain ⟨⟨a1, a2⟩, ⟨b1, b2⟩, ⟨c1, c2⟩, ⟨e1, e2⟩, _⟩ := h.atoms
  cases m
  · rfl
  · simp only [modeBlend, blendOverlay, blendNum]
    split
    · apply toI32_toU32 <;> rw [two_mul_expand] <;> omega
    · apply toI32_toU32 <;> rw [hl2_expand] <;> omega
  · simp only [modeBlend, blendDarken, blendNum]
    rw [Int.mul_comm da s, Int.mul_comm sa d]
    split <;> omega
  · simp only [modeBlend, blendLighten, blendNum]
    rw [Int.mul_comm da s, Int.mul_comm sa d]
    split <;> omega
  · rfl
  · simp only [modeBlend, blendDifference, blendNum]
    rw [Int.mul_comm da s, Int.mul_comm sa d]
  · rfl

/-! ### the exact numerator on `Int` operands -/

/-- `Spec.PdfInt.num` on `Int` operands -/
def numZ (m : Mode) (d da s sa : Int) : Int :=
  (255 - sa) * d + (255 - da) * s + blendNum m d da s sa

theorem num_eq_numZ (m : Mode) (d da s sa : Nat) : num m d da s sa = numZ m d da s sa := rfl

theorem base_expand (d da s sa : Int) :
    (255 - sa) * d + (255 - da) * s = 255 * d + 255 * s - d * sa - s * da := by grind

/-- non-negativity of the Overlay / HardLight second branch plus the two complement terms, in the
four products: needs a branch condition (`2d ≥ ad` for Overlay, `2s ≥ as` for HardLight) -/
theorem hl2_nonneg (d da s sa : Int) (h : Ch8 d da s sa) (hb : da ≤ 2 * d ∨ sa ≤ 2 * s) :
    0 ≤ 255 * d + 255 * s - d * sa - s * da + (2 * (s * da) + 2 * (d * sa) - 2 * (s * d) - sa * da) := by
  obtain ⟨⟨a1, a2⟩, ⟨b1, b2⟩, ⟨c1, c2⟩, ⟨e1, e2⟩, f1, f2, f3, f4, f5, f6, f7, f8⟩ := h.atoms
  obtain ⟨d0, d1, a0, a1', s0, s1, t0, t1⟩ := h
  by_cases c1 : d ≤ da <;> by_cases c2 : s ≤ sa
  · -- both premultiplied: the branch condition bounds the subtracted product
    rcases hb with hb | hb
    · have k := Int.mul_nonneg (show 0 ≤ 2 * d - da by omega) (show 0 ≤ sa - s by omega)
      have e : (2 * d - da) * (sa - s) = 2 * (d * sa) - 2 * (s * d) - sa * da + s * da := by grind
      omega
    · have k := Int.mul_nonneg (show 0 ≤ da - d by omega) (show 0 ≤ 2 * s - sa by omega)
      have e : (da - d) * (2 * s - sa) = 2 * (s * da) - sa * da - 2 * (s * d) + d * sa := by grind
      omega
  · have k := Int.mul_nonneg (show 0 ≤ da - d by omega) (show 0 ≤ s - sa by omega)
    have e : (da - d) * (s - sa) = s * da - sa * da - s * d + d * sa := by grind
    omega
  · have k := Int.mul_nonneg (show 0 ≤ d - da by omega) (show 0 ≤ sa - s by omega)
    have e : (d - da) * (sa - s) = d * sa - s * d - sa * da + s * da := by grind
    omega
  · -- both super-luminescent: x = d − da ≤ 255 − da, y = s − sa ≤ 255 − sa
    have k1 := Int.mul_nonneg (show 0 ≤ 255 - s by omega) (show 0 ≤ d - da by omega)
    have e1 : (255 - s) * (d - da) = 255 * d - 255 * da - s * d + s * da := by grind
    have k2 := Int.mul_nonneg (show 0 ≤ 255 - d by omega) (show 0 ≤ s - sa by omega)
    have e2 : (255 - d) * (s - sa) = 255 * s - 255 * sa - s * d + d * sa := by grind
    omega

/-- the numerator is never negative and far below 2³²: no `uint32_t` wrap, for ALL 8-bit operands -/
theorem numZ_range (m : Mode) (d da s sa : Int) (h : Ch8 d da s sa) :
    0 ≤ numZ m d da s sa ∧ numZ m d da s sa ≤ 5 * 65025 := by
  obtain ⟨⟨a1, a2⟩, ⟨b1, b2⟩, ⟨c1, c2⟩, ⟨e1, e2⟩, f1, f2, f3, f4, f5, f6, f7, f8⟩ := h.atoms
  have hh := h
  obtain ⟨d0, d1, a0, a1', s0, s1, t0, t1⟩ := h
  unfold numZ
  rw [base_expand]
  cases m <;> simp only [blendNum]
  · omega
  · split
    · rw [two_mul_expand]; omega
    · next hb =>
      rw [hl2_expand]
      have := hl2_nonneg d da s sa hh (Or.inl (by omega))
      omega
  · rw [Int.mul_comm da s, Int.mul_comm sa d]; omega
  · rw [Int.mul_comm da s, Int.mul_comm sa d]; omega
  · split
    · rw [two_mul_expand]; omega
    · next hb =>
      rw [hl2_expand]
      have := hl2_nonneg d da s sa hh (Or.inr (by omega))
      omega
  · rw [Int.mul_comm da s, Int.mul_comm sa d]; split <;> omega
  · rw [two_mul_expand, Int.mul_comm d s]; omega

/-- premultiplied operands: the numerator is at most the alpha numerator, hence never clamps -/
theorem numZ_le_premult (m : Mode) (d da s sa : Int) (h : Ch8 d da s sa) (hd : d ≤ da) (hs : s ≤ sa) :
    numZ m d da s sa ≤ 255 * da + 255 * sa - sa * da ∧ 255 * da + 255 * sa - sa * da ≤ 65025 := by
  obtain ⟨⟨a1, a2⟩, ⟨b1, b2⟩, ⟨c1, c2⟩, ⟨e1, e2⟩, f1, f2, f3, f4, f5, f6, f7, f8⟩ := h.atoms
  obtain ⟨d0, d1, a0, a1', s0, s1, t0, t1⟩ := h
  -- (255 − sa)(da − d) ≥ 0, (255 − da)(sa − s) ≥ 0, (sa − s)(da − d) ≥ 0, (255 − sa)(255 − da) ≥ 0
  have k1 := Int.mul_nonneg (show 0 ≤ 255 - sa by omega) (show 0 ≤ da - d by omega)
  have x1 : (255 - sa) * (da - d) = 255 * da - 255 * d - sa * da + d * sa := by grind
  have k2 := Int.mul_nonneg (show 0 ≤ 255 - da by omega) (show 0 ≤ sa - s by omega)
  have x2 : (255 - da) * (sa - s) = 255 * sa - 255 * s - sa * da + s * da := by grind
  have k3 := Int.mul_nonneg (show 0 ≤ sa - s by omega) (show 0 ≤ da - d by omega)
  have x3 : (sa - s) * (da - d) = sa * da - d * sa - s * da + s * d := by grind
  have k4 := Int.mul_nonneg (show 0 ≤ 255 - sa by omega) (show 0 ≤ 255 - da by omega)
  have x4 : (255 - sa) * (255 - da) = 65025 - 255 * da - 255 * sa + sa * da := by grind
  have k5 := Int.mul_nonneg s0 (show 0 ≤ da - d by omega)
  have x5 : s * (da - d) = s * da - s * d := by grind
  have k6 := Int.mul_nonneg (show 0 ≤ sa - s by omega) d0
  have x6 : (sa - s) * d = d * sa - s * d := by grind
  refine ⟨?_, by omega⟩
  unfold numZ
  rw [base_expand]
  cases m <;> simp only [blendNum]
  · omega
  · split
    · rw [two_mul_expand]
      -- 2 s d ≤ s da  (2d < da)  ≤ sa da
      next hb =>
      have k7 := Int.mul_nonneg s0 (show 0 ≤ da - 2 * d by omega)
      have x7 : s * (da - 2 * d) = s * da - 2 * (s * d) := by grind
      omega
    · rw [hl2_expand]; omega
  · rw [Int.mul_comm da s, Int.mul_comm sa d]; omega
  · rw [Int.mul_comm da s, Int.mul_comm sa d]; omega
  · split
    · rw [two_mul_expand]
      next hb =>
      have k7 := Int.mul_nonneg (show 0 ≤ sa - 2 * s by omega) d0
      have x7 : (sa - 2 * s) * d = d * sa - 2 * (s * d) := by grind
      omega
    · rw [hl2_expand]; omega
  · rw [Int.mul_comm da s, Int.mul_comm sa d]; split <;> omega
  · rw [two_mul_expand, Int.mul_comm d s]; omega

/-! ### `Nat` operands: the `uint32_t` numerator of the code is the exact numerator -/

theorem num_nonneg (m : Mode) (d da s sa : Nat) (hd : d ≤ 255) (hda : da ≤ 255) (hs : s ≤ 255)
    (hsa : sa ≤ 255) : 0 ≤ num m d da s sa :=
  (numZ_range m d da s sa (Ch8.ofNat d da s sa hd hda hs hsa)).1

theorem num_le (m : Mode) (d da s sa : Nat) (hd : d ≤ 255) (hda : da ≤ 255) (hs : s ≤ 255)
    (hsa : sa ≤ 255) : num m d da s sa ≤ 5 * 65025 :=
  (numZ_range m d da s sa (Ch8.ofNat d da s sa hd hda hs hsa)).2

theorem numAlpha_cast (da sa : Nat) (hda : da ≤ 255) (hsa : sa ≤ 255) :
    ((numAlpha da sa : Nat) : Int) = 255 * (da : Int) + 255 * sa - sa * da ∧ numAlpha da sa ≤ 65025 := by
  have h := Ch8.ofNat da da sa sa hda hda hsa hsa
  obtain ⟨_, _, _, ⟨e1, e2⟩, _, _, _, _, _, _, f7, f8⟩ := h.atoms
  have k4 := Int.mul_nonneg (show 0 ≤ 255 - (sa : Int) by omega) (show 0 ≤ 255 - (da : Int) by omega)
  have x4 : (255 - (sa : Int)) * (255 - da) = 65025 - 255 * da - 255 * sa + sa * da := by grind
  unfold numAlpha
  have hc : ((sa * da : Nat) : Int) = (sa : Int) * da := Int.natCast_mul sa da
  generalize sa * da = p at hc ⊢
  generalize (sa : Int) * da = q at *
  omega

theorem num_le_premult (m : Mode) (d da s sa : Nat) (hda : da ≤ 255) (hsa : sa ≤ 255)
    (hd : d ≤ da) (hs : s ≤ sa) : num m d da s sa ≤ numAlpha da sa ∧ numAlpha da sa ≤ 65025 := by
  have h := numZ_le_premult m d da s sa (Ch8.ofNat d da s sa (by omega) hda (by omega) hsa)
    (by omega) (by omega)
  have c := numAlpha_cast da sa hda hsa
  rw [num_eq_numZ]
  omega

/-- `uint32_t rc = isa·C(d) + ida·C(s); rc += blend_<mode>(…)` is the exact numerator -/
theorem pdfNumC_eq (m : Mode) (d da s sa : Nat) (hd : d ≤ 255) (hda : da ≤ 255) (hs : s ≤ 255)
    (hsa : sa ≤ 255) : pdfNumC (modeBlend m) d da s sa = (num m d da s sa).toNat := by
  have h := Ch8.ofNat d da s sa hd hda hs hsa
  have r := numZ_range m d da s sa h
  unfold pdfNumC
  rw [modeBlend_eq m d da s sa h]
  have e : ((((255 - sa) * d + (255 - da) * s : Nat) : Int)) = (255 - (sa : Int)) * d + (255 - (da : Int)) * s := by
    rw [Int.natCast_add, Int.natCast_mul, Int.natCast_mul, Int.natCast_sub hsa, Int.natCast_sub hda]
    rfl
  rw [e]
  have : (255 - (sa : Int)) * d + (255 - (da : Int)) * s + blendNum m d da s sa = numZ m d da s sa := rfl
  rw [this, toU32_eq _ r.1 (by omega)]
  rfl

theorem pdfNumA_eq (da sa : Nat) (hda : da ≤ 255) (hsa : sa ≤ 255) : pdfNumA da sa = numAlpha da sa := by
  obtain ⟨c, hle⟩ := numAlpha_cast da sa hda hsa
  unfold pdfNumA
  have : (da : Int) * 0xff + (sa : Int) * 0xff - (sa : Int) * (da : Int) = ((numAlpha da sa : Nat) : Int) := by
    rw [c]; omega
  rw [this, toU32_eq _ (by omega) (by omega), Int.toNat_natCast]

/-- `DIV_ONE_UN8` on the clamped range is `x/255` to nearest -/
theorem divOneUn8_rndDiv255 (x : Nat) (hx : x ≤ 65025) : divOneUn8 x = rndDiv255 x := by
  unfold divOneUn8 rndDiv255
  simp only [Nat.shiftRight_eq_div_pow, Nat.reducePow]
  have e2 : (x + 128) % 4294967296 = x + 128 := Nat.mod_eq_of_lt (by omega)
  rw [e2]
  have e3 : ((x + 128) + (x + 128) / 256) % 4294967296 = (x + 128) + (x + 128) / 256 :=
    Nat.mod_eq_of_lt (by omega)
  rw [e3]
  clear e2 e3
  omega

/-- `CLAMP (v, 0, 255*255); DIV_ONE_UN8 (v)` on a `uint32_t` -/
theorem pdfFinish_eq (v : Nat) : pdfFinish v = rndDiv255 (min 65025 v) := by
  unfold pdfFinish clampU
  simp only [Nat.not_lt_zero, if_false]
  split
  · next h =>
    rw [divOneUn8_rndDiv255 _ (by omega)]
    congr 1; omega
  · next h =>
    rw [divOneUn8_rndDiv255 _ (by omega)]
    congr 1; omega

theorem pdfFinish_channel (m : Mode) (d da s sa : Nat) (hd : d ≤ 255) (hda : da ≤ 255) (hs : s ≤ 255)
    (hsa : sa ≤ 255) : pdfFinish (pdfNumC (modeBlend m) d da s sa) = channel m d da s sa := by
  rw [pdfFinish_eq, pdfNumC_eq m d da s sa hd hda hs hsa]; rfl

theorem pdfFinish_alpha (da sa : Nat) (hda : da ≤ 255) (hsa : sa ≤ 255) :
    pdfFinish (pdfNumA da sa) = alpha da sa := by
  rw [pdfFinish_eq, pdfNumA_eq da sa hda hsa]
  have := (numAlpha_cast da sa hda hsa).2
  unfold alpha
  congr 1; omega

/-- rounding to nearest: within 127/255 of a step -/
theorem rndDiv255_nearest (x : Nat) : 255 * rndDiv255 x ≤ x + 127 ∧ x ≤ 255 * rndDiv255 x + 127 := by
  unfold rndDiv255; omega

theorem rndDiv255_le (x : Nat) (hx : x ≤ 65025) : rndDiv255 x ≤ 255 := by
  unfold rndDiv255; omega

theorem channel_le255 (m : Mode) (d da s sa : Nat) : channel m d da s sa ≤ 255 :=
  rndDiv255_le _ (by omega)

theorem alpha_le255 (da sa : Nat) (hda : da ≤ 255) (hsa : sa ≤ 255) : alpha da sa ≤ 255 :=
  rndDiv255_le _ (numAlpha_cast da sa hda hsa).2

end Pixman.Lemmas

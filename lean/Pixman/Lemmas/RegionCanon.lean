import Pixman.Spec.Canon
/-! Lemmas about the canonical banded form (C06): a span list is determined by its x-set,
    a band list is determined by its point set, a decidable checker for `CanonList`. -/
namespace Pixman.Region

/-! ### spans -/

theorem spansSep_tail {a : Box} {t : List Box} (h : SpansSep (a :: t)) : SpansSep t := by
  cases t with
  | nil => trivial
  | cons b t => exact h.2.2

theorem spansSep_head {a : Box} {t : List Box} (h : SpansSep (a :: t)) : a.x1 < a.x2 := by
  cases t with
  | nil => exact h
  | cons b t => exact h.1

theorem spansSep_lt {a : Box} {t : List Box} (h : SpansSep (a :: t)) :
    ∀ b ∈ t, a.x2 < b.x1 := by
  induction t generalizing a with
  | nil => intro b hb; cases hb
  | cons c t ih =>
    intro b hb
    obtain ⟨_, h2, h3⟩ := h
    rcases List.mem_cons.1 hb with rfl | hb
    · exact h2
    · have := ih h3 b hb
      have := spansSep_head h3
      omega

theorem spansSep_good {l : List Box} (h : SpansSep l) : ∀ b ∈ l, b.x1 < b.x2 := by
  induction l with
  | nil => intro b hb; cases hb
  | cons a t ih =>
    intro b hb
    rcases List.mem_cons.1 hb with rfl | hb
    · exact spansSep_head h
    · exact ih (spansSep_tail h) b hb

theorem spansSep_cons {a : Box} {t : List Box} (h1 : a.x1 < a.x2)
    (h2 : ∀ b ∈ t, a.x2 < b.x1) (h3 : SpansSep t) : SpansSep (a :: t) := by
  cases t with
  | nil => exact h1
  | cons b t => exact ⟨h1, h2 b (List.mem_cons_self ..), h3⟩

theorem inSpans_nil (x : Int) : ¬ InSpans [] x := by
  simp [InSpans]

theorem inSpans_cons (a : Box) (t : List Box) (x : Int) :
    InSpans (a :: t) x ↔ (a.x1 ≤ x ∧ x < a.x2) ∨ InSpans t x := by
  simp [InSpans]

theorem inSpans_lb {a : Box} {t : List Box} (h : SpansSep (a :: t)) {x : Int}
    (hx : InSpans t x) : a.x2 < x := by
  obtain ⟨b, hb, h1, _⟩ := hx
  have := spansSep_lt h b hb
  omega

/-- A separated span list is determined by the set of x it covers. -/
theorem spans_unique : ∀ {l l' : List Box}, SpansSep l → SpansSep l' →
    (∀ x, InSpans l x ↔ InSpans l' x) → SameSpans l l'
  | [], [], _, _, _ => trivial
  | [], a :: t, _, h', h => by
    have : InSpans (a :: t) a.x1 := (inSpans_cons ..).2 (.inl ⟨Int.le_refl _, spansSep_head h'⟩)
    exact absurd ((h _).2 this) (inSpans_nil _)
  | a :: t, [], h', _, h => by
    have : InSpans (a :: t) a.x1 := (inSpans_cons ..).2 (.inl ⟨Int.le_refl _, spansSep_head h'⟩)
    exact absurd ((h _).1 this) (inSpans_nil _)
  | a :: t, a' :: t', hs, hs', h => by
    have ha := spansSep_head hs
    have ha' := spansSep_head hs'
    -- least covered x
    have e1 : a.x1 = a'.x1 := by
      have m1 : InSpans (a' :: t') a.x1 :=
        (h _).1 ((inSpans_cons ..).2 (.inl ⟨Int.le_refl _, ha⟩))
      have m2 : InSpans (a :: t) a'.x1 :=
        (h _).2 ((inSpans_cons ..).2 (.inl ⟨Int.le_refl _, ha'⟩))
      rcases (inSpans_cons ..).1 m1 with m1 | m1 <;> rcases (inSpans_cons ..).1 m2 with m2 | m2
      · omega
      · have := inSpans_lb hs m2; omega
      · have := inSpans_lb hs' m1; omega
      · have := inSpans_lb hs m2; have := inSpans_lb hs' m1; omega
    -- first uncovered x after it
    have nin : ¬ InSpans (a :: t) a.x2 := by
      intro m
      rcases (inSpans_cons ..).1 m with m | m
      · omega
      · have := inSpans_lb hs m; omega
    have nin' : ¬ InSpans (a' :: t') a'.x2 := by
      intro m
      rcases (inSpans_cons ..).1 m with m | m
      · omega
      · have := inSpans_lb hs' m; omega
    have e2 : a.x2 = a'.x2 := by
      rcases Int.lt_trichotomy a.x2 a'.x2 with lt | eq | gt
      · exact absurd ((h _).2 ((inSpans_cons ..).2 (.inl ⟨by omega, lt⟩))) nin
      · exact eq
      · exact absurd ((h _).1 ((inSpans_cons ..).2 (.inl ⟨by omega, gt⟩))) nin'
    refine ⟨e1, e2, spans_unique (spansSep_tail hs) (spansSep_tail hs') ?_⟩
    intro x
    constructor
    · intro m
      have lb := inSpans_lb hs m
      rcases (inSpans_cons ..).1 ((h x).1 ((inSpans_cons ..).2 (.inr m))) with m' | m'
      · omega
      · exact m'
    · intro m
      have lb := inSpans_lb hs' m
      rcases (inSpans_cons ..).1 ((h x).2 ((inSpans_cons ..).2 (.inr m))) with m' | m'
      · omega
      · exact m'

theorem sameSpans_inSpans : ∀ {l l' : List Box}, SameSpans l l' → ∀ x, InSpans l x ↔ InSpans l' x
  | [], [], _, x => Iff.rfl
  | [], _ :: _, h, _ => h.elim
  | _ :: _, [], h, _ => h.elim
  | a :: t, a' :: t', h, x => by
    obtain ⟨h1, h2, h3⟩ := h
    rw [inSpans_cons, inSpans_cons, h1, h2, sameSpans_inSpans h3 x]

/-- Same spans and the same vertical extent: the same boxes. -/
theorem sameSpans_eq {y1 y2 : Int} : ∀ {l l' : List Box}, SameSpans l l' →
    (∀ b ∈ l, b.y1 = y1 ∧ b.y2 = y2) → (∀ b ∈ l', b.y1 = y1 ∧ b.y2 = y2) → l = l'
  | [], [], _, _, _ => rfl
  | [], _ :: _, h, _, _ => h.elim
  | _ :: _, [], h, _, _ => h.elim
  | a :: t, a' :: t', h, hy, hy' => by
    obtain ⟨h1, h2, h3⟩ := h
    have := hy a (List.mem_cons_self ..)
    have := hy' a' (List.mem_cons_self ..)
    have e : a = a' := by
      cases a; cases a'; simp_all
    rw [e, sameSpans_eq h3 (fun b hb => hy b (List.mem_cons_of_mem _ hb))
      (fun b hb => hy' b (List.mem_cons_of_mem _ hb))]

/-! ### band lists -/

abbrev Band := Int × Int × List Box

/-- the rectangle list of a band list -/
def flat (bs : List Band) : List Box := (bs.map (·.2.2)).flatten

theorem flat_nil : flat [] = [] := rfl
theorem flat_cons (a : Band) (t : List Band) : flat (a :: t) = a.2.2 ++ flat t := by
  simp [flat]

theorem canonList_iff (l : List Box) : CanonList l ↔ ∃ bs, BandsOK bs ∧ l = flat bs := Iff.rfl

theorem bandsOK_head {a : Band} {t : List Band} (h : BandsOK (a :: t)) :
    IsBand a.1 a.2.1 a.2.2 := by
  obtain ⟨y1, y2, l⟩ := a
  cases t with
  | nil => exact h
  | cons b t => obtain ⟨y1', y2', l'⟩ := b; exact h.1

theorem bandsOK_tail {a : Band} {t : List Band} (h : BandsOK (a :: t)) : BandsOK t := by
  obtain ⟨y1, y2, l⟩ := a
  cases t with
  | nil => trivial
  | cons b t => obtain ⟨y1', y2', l'⟩ := b; exact h.2.2.2

theorem bandsOK_all {bs : List Band} (h : BandsOK bs) : ∀ a ∈ bs, IsBand a.1 a.2.1 a.2.2 := by
  induction bs with
  | nil => intro a ha; cases ha
  | cons c t ih =>
    intro a ha
    rcases List.mem_cons.1 ha with rfl | ha
    · exact bandsOK_head h
    · exact ih (bandsOK_tail h) a ha

/-- later bands start at or below the end of the first one -/
theorem bandsOK_lb {a : Band} {t : List Band} (h : BandsOK (a :: t)) :
    ∀ b ∈ t, a.2.1 ≤ b.1 := by
  induction t generalizing a with
  | nil => intro b hb; cases hb
  | cons c t ih =>
    intro b hb
    obtain ⟨y1, y2, l⟩ := a
    obtain ⟨y1', y2', l'⟩ := c
    have hc : BandsOK ((y1', y2', l') :: t) := h.2.2.2
    have h2 : y2 ≤ y1' := h.2.1
    rcases List.mem_cons.1 hb with rfl | hb
    · exact h2
    · have := ih hc b hb
      have := (bandsOK_head hc).2.1
      simp only at *
      omega

theorem bandsOK_cons {a : Band} {t : List Band} (h1 : IsBand a.1 a.2.1 a.2.2)
    (h2 : match t with
      | [] => True
      | b :: _ => a.2.1 ≤ b.1 ∧ (a.2.1 = b.1 → ¬ SameSpans a.2.2 b.2.2))
    (h3 : BandsOK t) : BandsOK (a :: t) := by
  obtain ⟨y1, y2, l⟩ := a
  cases t with
  | nil => exact h1
  | cons b t => obtain ⟨y1', y2', l'⟩ := b; exact ⟨h1, h2.1, h2.2, h3⟩

/-- point set of a band list, band by band -/
def PM (bs : List Band) (x y : Int) : Prop :=
  ∃ a ∈ bs, a.1 ≤ y ∧ y < a.2.1 ∧ InSpans a.2.2 x

theorem pm_nil (x y : Int) : ¬ PM [] x y := by simp [PM]

theorem pm_cons (a : Band) (t : List Band) (x y : Int) :
    PM (a :: t) x y ↔ (a.1 ≤ y ∧ y < a.2.1 ∧ InSpans a.2.2 x) ∨ PM t x y := by
  simp [PM]

theorem memL_nil (x y : Int) : ¬ MemL [] x y := by simp [MemL]

theorem memL_cons (a : Box) (t : List Box) (x y : Int) :
    MemL (a :: t) x y ↔ a.Mem x y ∨ MemL t x y := by
  simp [MemL]

theorem memL_append (l l' : List Box) (x y : Int) :
    MemL (l ++ l') x y ↔ MemL l x y ∨ MemL l' x y := by
  simp only [MemL, List.mem_append]
  constructor
  · rintro ⟨b, hb | hb, m⟩
    · exact .inl ⟨b, hb, m⟩
    · exact .inr ⟨b, hb, m⟩
  · rintro (⟨b, hb, m⟩ | ⟨b, hb, m⟩)
    · exact ⟨b, .inl hb, m⟩
    · exact ⟨b, .inr hb, m⟩

theorem memL_band {y1 y2 : Int} {l : List Box} (h : ∀ b ∈ l, b.y1 = y1 ∧ b.y2 = y2)
    (x y : Int) : MemL l x y ↔ (y1 ≤ y ∧ y < y2 ∧ InSpans l x) := by
  constructor
  · rintro ⟨b, hb, m1, m2, m3, m4⟩
    have := h b hb
    exact ⟨by omega, by omega, b, hb, m1, m2⟩
  · rintro ⟨m3, m4, b, hb, m1, m2⟩
    have := h b hb
    exact ⟨b, hb, m1, m2, by omega, by omega⟩

theorem memL_flat {bs : List Band} (h : BandsOK bs) (x y : Int) :
    MemL (flat bs) x y ↔ PM bs x y := by
  induction bs with
  | nil => simp [flat, MemL, PM]
  | cons a t ih =>
    rw [flat_cons, memL_append, pm_cons, ih (bandsOK_tail h),
      memL_band (bandsOK_head h).2.2.1]

theorem pm_lb {a : Band} {t : List Band} (h : BandsOK (a :: t)) {x y : Int}
    (m : PM t x y) : a.2.1 ≤ y := by
  obtain ⟨b, hb, m1, _⟩ := m
  have := bandsOK_lb h b hb
  omega

theorem isBand_point {y1 y2 : Int} {l : List Box} (h : IsBand y1 y2 l) : ∃ x, InSpans l x := by
  obtain ⟨hne, _, _, hs⟩ := h
  cases l with
  | nil => exact absurd rfl hne
  | cons a t => exact ⟨a.x1, (inSpans_cons ..).2 (.inl ⟨Int.le_refl _, spansSep_head hs⟩)⟩

/-- A band list is determined by its point set. -/
theorem bands_unique : ∀ {bs bs' : List Band}, BandsOK bs → BandsOK bs' →
    (∀ x y, PM bs x y ↔ PM bs' x y) → bs = bs'
  | [], [], _, _, _ => rfl
  | [], a :: t, _, h', h => by
    have hb := bandsOK_head h'
    obtain ⟨x, hx⟩ := isBand_point hb
    have : PM (a :: t) x a.1 := (pm_cons ..).2 (.inl ⟨Int.le_refl _, hb.2.1, hx⟩)
    exact absurd ((h _ _).2 this) (pm_nil _ _)
  | a :: t, [], h', _, h => by
    have hb := bandsOK_head h'
    obtain ⟨x, hx⟩ := isBand_point hb
    have : PM (a :: t) x a.1 := (pm_cons ..).2 (.inl ⟨Int.le_refl _, hb.2.1, hx⟩)
    exact absurd ((h _ _).1 this) (pm_nil _ _)
  | a :: t, a' :: t', hk, hk', h => by
    have hb := bandsOK_head hk
    have hb' := bandsOK_head hk'
    obtain ⟨x0, hx0⟩ := isBand_point hb
    obtain ⟨x0', hx0'⟩ := isBand_point hb'
    have hlt := hb.2.1
    have hlt' := hb'.2.1
    -- top row
    have e1 : a.1 = a'.1 := by
      have m1 : PM (a' :: t') x0 a.1 := (h _ _).1 ((pm_cons ..).2 (.inl ⟨Int.le_refl _, hlt, hx0⟩))
      have m2 : PM (a :: t) x0' a'.1 :=
        (h _ _).2 ((pm_cons ..).2 (.inl ⟨Int.le_refl _, hlt', hx0'⟩))
      rcases (pm_cons ..).1 m1 with m1 | m1 <;> rcases (pm_cons ..).1 m2 with m2 | m2
      · omega
      · have := pm_lb hk m2; omega
      · have := pm_lb hk' m1; omega
      · have := pm_lb hk m2; have := pm_lb hk' m1; omega
    -- rows of the first band
    have row : ∀ {y}, a.1 ≤ y → y < a.2.1 → ∀ x, PM (a :: t) x y ↔ InSpans a.2.2 x := by
      intro y h1 h2 x
      rw [pm_cons]
      constructor
      · rintro (m | m)
        · exact m.2.2
        · have := pm_lb hk m; omega
      · intro m; exact .inl ⟨h1, h2, m⟩
    have row' : ∀ {y}, a'.1 ≤ y → y < a'.2.1 → ∀ x, PM (a' :: t') x y ↔ InSpans a'.2.2 x := by
      intro y h1 h2 x
      rw [pm_cons]
      constructor
      · rintro (m | m)
        · exact m.2.2
        · have := pm_lb hk' m; omega
      · intro m; exact .inl ⟨h1, h2, m⟩
    have es : SameSpans a.2.2 a'.2.2 := by
      apply spans_unique hb.2.2.2 hb'.2.2.2
      intro x
      rw [← row (Int.le_refl _) hlt, ← row' (Int.le_refl _) hlt', ← e1]
      exact h x a.1
    -- the row just below a shorter first band would repeat its spans
    have key : ∀ {a a' : Band} {t t' : List Band}, BandsOK (a :: t) → BandsOK (a' :: t') →
        (∀ x y, PM (a :: t) x y ↔ PM (a' :: t') x y) → a.1 = a'.1 → SameSpans a.2.2 a'.2.2 →
        (∀ {y}, a'.1 ≤ y → y < a'.2.1 → ∀ x, PM (a' :: t') x y ↔ InSpans a'.2.2 x) →
        ¬ a.2.1 < a'.2.1 := by
      intro a a' t t' hk hk' h e1 es row' lt
      have hb := bandsOK_head hk
      have hb' := bandsOK_head hk'
      have hlt := hb.2.1
      obtain ⟨x0', hx0'⟩ := isBand_point hb'
      have r2 : ∀ x, PM (a :: t) x a.2.1 ↔ InSpans a'.2.2 x := by
        intro x; rw [h]; exact row' (by omega) lt x
      cases t with
      | nil =>
        have := (r2 x0').2 hx0'
        rcases (pm_cons ..).1 this with m | m
        · omega
        · exact pm_nil _ _ m
      | cons c u =>
        have hc : BandsOK (c :: u) := bandsOK_tail hk
        have hcb := bandsOK_head hc
        have hle : a.2.1 ≤ c.1 := bandsOK_lb hk c (List.mem_cons_self ..)
        have m0 := (r2 x0').2 hx0'
        have hm0 : PM (c :: u) x0' a.2.1 := by
          rcases (pm_cons ..).1 m0 with m | m
          · omega
          · exact m
        have hceq : c.1 = a.2.1 := by
          rcases (pm_cons ..).1 hm0 with m | m
          · omega
          · have := pm_lb hc m; have := hcb.2.1; omega
        have : SameSpans a.2.2 c.2.2 := by
          apply spans_unique hb.2.2.2 hcb.2.2.2
          intro x
          rw [sameSpans_inSpans es x, ← r2 x, pm_cons]
          constructor
          · rintro (m | m)
            · omega
            · rcases (pm_cons ..).1 m with m | m
              · exact m.2.2
              · have := pm_lb hc m; have := hcb.2.1; omega
          · intro m
            exact .inr ((pm_cons ..).2 (.inl ⟨by omega, by have := hcb.2.1; omega, m⟩))
        obtain ⟨y1, y2, l⟩ := a
        obtain ⟨y1', y2', l'⟩ := c
        exact hk.2.2.1 hceq.symm this
    have sameSpans_symm : ∀ {l l' : List Box}, SameSpans l l' → SameSpans l' l := by
      intro l l' hs
      induction l generalizing l' with
      | nil => cases l' with
        | nil => trivial
        | cons _ _ => exact hs.elim
      | cons p q ih => cases l' with
        | nil => exact hs.elim
        | cons p' q' => exact ⟨hs.1.symm, hs.2.1.symm, ih hs.2.2⟩
    have e2 : a.2.1 = a'.2.1 := by
      have k1 := key hk hk' h e1 es row'
      have k2 := key hk' hk (fun x y => (h x y).symm) e1.symm (sameSpans_symm es) row
      omega
    have el : a.2.2 = a'.2.2 :=
      sameSpans_eq es hb.2.2.1 (by rw [e1, e2]; exact hb'.2.2.1)
    have et : t = t' := by
      apply bands_unique (bandsOK_tail hk) (bandsOK_tail hk')
      intro x y
      constructor
      · intro m
        have := pm_lb hk m
        rcases (pm_cons ..).1 ((h x y).1 ((pm_cons ..).2 (.inr m))) with m' | m'
        · omega
        · exact m'
      · intro m
        have := pm_lb hk' m
        rcases (pm_cons ..).1 ((h x y).2 ((pm_cons ..).2 (.inr m))) with m' | m'
        · omega
        · exact m'
    obtain ⟨y1, y2, l⟩ := a
    obtain ⟨y1', y2', l'⟩ := a'
    simp only at e1 e2 el
    rw [e1, e2, el, et]

/-- Uniqueness of the canonical rectangle list of a point set. -/
theorem canonList_unique {a b : List Box} (ha : CanonList a) (hb : CanonList b)
    (h : ∀ x y, MemL a x y ↔ MemL b x y) : a = b := by
  obtain ⟨bs, hk, rfl⟩ := ha
  obtain ⟨bs', hk', rfl⟩ := hb
  have : bs = bs' := by
    apply bands_unique hk hk'
    intro x y
    rw [← memL_flat hk, ← memL_flat hk']
    exact h x y
  rw [this]

/-! ### canonical region objects -/

theorem canonList_nil : CanonList [] := ⟨[], trivial, rfl⟩

theorem canonList_single {e : Box} (h : goodRect e = true) : CanonList [e] := by
  refine ⟨[(e.y1, e.y2, [e])], ?_, by simp⟩
  simp only [goodRect, Bool.and_eq_true, decide_eq_true_eq] at h
  refine ⟨by simp, h.2, ?_, h.1⟩
  intro b hb
  rw [List.mem_singleton.1 hb]
  exact ⟨rfl, rfl⟩

theorem canon_canonList {r : Region} (h : Canon r) : CanonList r.rects := by
  obtain ⟨e, d⟩ := r
  cases d <;> simp only [Canon, Region.rects] at h ⊢
  · exact canonList_single h
  · exact canonList_nil
  · exact h.2.1

theorem mem_flat {bs : List Band} {b : Box} : b ∈ flat bs ↔ ∃ a ∈ bs, b ∈ a.2.2 := by
  simp only [flat, List.mem_flatten, List.mem_map]
  constructor
  · rintro ⟨l, ⟨a, ha, rfl⟩, hb⟩; exact ⟨a, ha, hb⟩
  · rintro ⟨a, ha, hb⟩; exact ⟨_, ⟨a, ha, rfl⟩, hb⟩

theorem canonList_good {l : List Box} (h : CanonList l) :
    ∀ b ∈ l, b.x1 < b.x2 ∧ b.y1 < b.y2 := by
  obtain ⟨bs, hk, rfl⟩ := h
  intro b hb
  obtain ⟨a, ha, hb⟩ := mem_flat.1 hb
  have hband := bandsOK_all hk a ha
  have := hband.2.2.1 b hb
  have := hband.2.1
  exact ⟨spansSep_good hband.2.2.2 b hb, by omega⟩

theorem canonList_point {l : List Box} (h : CanonList l) (hne : l ≠ []) : ∃ x y, MemL l x y := by
  cases l with
  | nil => exact absurd rfl hne
  | cons b t =>
    have := canonList_good h b (List.mem_cons_self ..)
    exact ⟨b.x1, b.y1, b, List.mem_cons_self .., Int.le_refl _, this.1, Int.le_refl _, this.2⟩

theorem isBBox_unique {e e' : Box} {l : List Box} (h : IsBBox e l) (h' : IsBBox e' l) :
    e = e' := by
  obtain ⟨a, ⟨b1, m1, q1⟩, ⟨b2, m2, q2⟩, ⟨b3, m3, q3⟩, ⟨b4, m4, q4⟩⟩ := h
  obtain ⟨a', ⟨b1', m1', q1'⟩, ⟨b2', m2', q2'⟩, ⟨b3', m3', q3'⟩, ⟨b4', m4', q4'⟩⟩ := h'
  have := a b1' m1'; have := a b2' m2'; have := a b3' m3'; have := a b4' m4'
  have := a' b1 m1; have := a' b2 m2; have := a' b3 m3; have := a' b4 m4
  cases e; cases e'
  simp only [Box.mk.injEq] at *
  omega

theorem canon_nil_iff {r : Region} (h : Canon r) : r.nil = true ↔ r.rects = [] := by
  obtain ⟨e, d⟩ := r
  cases d <;> simp only [Canon, Region.rects, Region.nil] at h ⊢ <;> simp

/-- Canonical objects with the same non-empty rectangle list have the same extents. -/
theorem canon_extents_eq {a b : Region} (ha : Canon a) (hb : Canon b)
    (h : a.rects = b.rects) (hne : a.rects ≠ []) : a.extents = b.extents := by
  obtain ⟨ea, da⟩ := a
  obtain ⟨eb, db⟩ := b
  cases da <;> cases db <;> simp only [Canon, Region.rects] at ha hb h hne ⊢
  case single.single => simpa using h
  case single.emptyStatic => cases h
  case single.heap => rw [← h] at hb; simp at hb
  case emptyStatic.emptyStatic => exact absurd rfl hne
  case emptyStatic.single => cases h
  case emptyStatic.heap => exact absurd rfl hne
  case heap.single => rw [h] at ha; simp at ha
  case heap.emptyStatic => exact absurd h hne
  case heap.heap => rw [h] at ha; exact isBBox_unique ha.2.2 hb.2.2

theorem boxesEq_iff : ∀ {a b : List Box}, boxesEq a b = true ↔ a = b
  | [], [] => by simp [boxesEq]
  | [], _ :: _ => by simp [boxesEq]
  | _ :: _, [] => by simp [boxesEq]
  | p :: a, q :: b => by
    simp only [boxesEq, Bool.and_eq_true, beq_iff_eq, boxesEq_iff, List.cons.injEq]
    cases p; cases q
    simp only [Box.mk.injEq]
    constructor
    · rintro ⟨⟨⟨⟨h1, h2⟩, h3⟩, h4⟩, h5⟩; exact ⟨⟨h1, h3, h2, h4⟩, h5⟩
    · rintro ⟨⟨h1, h3, h2, h4⟩, h5⟩; exact ⟨⟨⟨⟨h1, h2⟩, h3⟩, h4⟩, h5⟩

/-! ### a decidable checker for `CanonList` -/

/-- group consecutive boxes with the same `(y1, y2)` -/
def bandsOf : List Box → List Band
  | [] => []
  | b :: t =>
    match bandsOf t with
    | [] => [(b.y1, b.y2, [b])]
    | (y1, y2, l) :: r =>
      if b.y1 = y1 ∧ b.y2 = y2 then (y1, y2, b :: l) :: r
      else (b.y1, b.y2, [b]) :: (y1, y2, l) :: r

theorem flat_bandsOf (l : List Box) : flat (bandsOf l) = l := by
  induction l with
  | nil => rfl
  | cons b t ih =>
    simp only [bandsOf]
    split
    · next h => rw [h] at ih; rw [← ih]; simp [flat]
    · next y1 y2 l r h =>
      rw [h] at ih
      split
      · rw [← ih]; simp [flat]
      · rw [← ih]; simp [flat]

theorem bandsOf_band {y1 y2 : Int} {rest : List Box}
    (hr : ∀ a ∈ (bandsOf rest).head?, a.1 ≠ y1) :
    ∀ {l : List Box}, l ≠ [] → (∀ b ∈ l, b.y1 = y1 ∧ b.y2 = y2) →
      bandsOf (l ++ rest) = (y1, y2, l) :: bandsOf rest
  | [], hne, _ => absurd rfl hne
  | [b], _, hy => by
    have hb := hy b (List.mem_singleton.2 rfl)
    cases h : bandsOf rest with
    | nil => simp only [List.singleton_append, bandsOf, h, hb.1, hb.2]
    | cons c r =>
      obtain ⟨y1', y2', l'⟩ := c
      have := hr (y1', y2', l') (by rw [h]; simp)
      simp only at this
      simp only [List.singleton_append, bandsOf, h]
      rw [if_neg (by omega), hb.1, hb.2]
  | b :: b' :: t, _, hy => by
    have hb := hy b (List.mem_cons_self ..)
    have ih := bandsOf_band hr (l := b' :: t) (by simp)
      (fun c hc => hy c (List.mem_cons_of_mem _ hc))
    show bandsOf (b :: ((b' :: t) ++ rest)) = _
    simp only [bandsOf] at ih ⊢
    rw [ih]
    simp only [hb, and_self, if_true]

theorem bandsOf_flat {bs : List Band} (h : BandsOK bs) : bandsOf (flat bs) = bs := by
  induction bs with
  | nil => rfl
  | cons a t ih =>
    have hb := bandsOK_head h
    have ih := ih (bandsOK_tail h)
    rw [flat_cons, bandsOf_band (y1 := a.1) (y2 := a.2.1) ?_ hb.1 hb.2.2.1, ih]
    rw [ih]
    intro c hc
    cases t with
    | nil => simp at hc
    | cons d u =>
      simp only [List.head?_cons, Option.mem_def, Option.some.injEq] at hc
      have := bandsOK_lb h d (List.mem_cons_self ..)
      have := hb.2.1
      rw [← hc]; omega

def spansSepB : List Box → Bool
  | [] => true
  | [a] => a.x1 < a.x2
  | a :: b :: t => a.x1 < a.x2 && a.x2 < b.x1 && spansSepB (b :: t)

theorem spansSepB_iff : ∀ {l : List Box}, spansSepB l = true ↔ SpansSep l
  | [] => by simp [spansSepB, SpansSep]
  | [a] => by simp [spansSepB, SpansSep]
  | a :: b :: t => by
    simp only [spansSepB, SpansSep, Bool.and_eq_true, decide_eq_true_eq, spansSepB_iff (l := b :: t),
      and_assoc]

theorem sameSpans_iff : ∀ {l l' : List Box}, sameSpans l l' = true ↔ SameSpans l l'
  | [], [] => by simp [sameSpans, SameSpans]
  | [], _ :: _ => by simp [sameSpans, SameSpans]
  | _ :: _, [] => by simp [sameSpans, SameSpans]
  | a :: t, b :: u => by
    simp only [sameSpans, SameSpans, Bool.and_eq_true, beq_iff_eq, sameSpans_iff (l := t), and_assoc]

def isBandB (y1 y2 : Int) (l : List Box) : Bool :=
  !l.isEmpty && decide (y1 < y2) && l.all (fun b => b.y1 == y1 && b.y2 == y2) && spansSepB l

theorem isBandB_iff {y1 y2 : Int} {l : List Box} : isBandB y1 y2 l = true ↔ IsBand y1 y2 l := by
  simp only [isBandB, IsBand, Bool.and_eq_true, Bool.not_eq_true', List.isEmpty_eq_false_iff,
    decide_eq_true_eq, List.all_eq_true, beq_iff_eq, spansSepB_iff, and_assoc, ne_eq]

def bandsOKB : List Band → Bool
  | [] => true
  | [(y1, y2, l)] => isBandB y1 y2 l
  | (y1, y2, l) :: (y1', y2', l') :: t =>
    isBandB y1 y2 l && decide (y2 ≤ y1') && (decide (y2 ≠ y1') || !sameSpans l l') &&
      bandsOKB ((y1', y2', l') :: t)

theorem bandsOKB_iff : ∀ {bs : List Band}, bandsOKB bs = true ↔ BandsOK bs
  | [] => by simp [bandsOKB, BandsOK]
  | [(y1, y2, l)] => by simp [bandsOKB, BandsOK, isBandB_iff]
  | (y1, y2, l) :: (y1', y2', l') :: t => by
    simp only [bandsOKB, BandsOK, Bool.and_eq_true, Bool.or_eq_true, decide_eq_true_eq,
      Bool.not_eq_true', isBandB_iff, bandsOKB_iff (bs := (y1', y2', l') :: t), and_assoc]
    have : (y2 ≠ y1' ∨ sameSpans l l' = false) ↔ (y2 = y1' → ¬ SameSpans l l') := by
      rw [← sameSpans_iff]
      constructor
      · rintro (h | h) e
        · exact absurd e h
        · simp [h]
      · intro h
        by_cases e : y2 = y1'
        · right; simpa using h e
        · left; exact e
    rw [this]

/-- decidable check of the canonical banded form -/
def canonListB (l : List Box) : Bool := bandsOKB (bandsOf l)

theorem canonListB_iff {l : List Box} : canonListB l = true ↔ CanonList l := by
  unfold canonListB
  rw [bandsOKB_iff]
  constructor
  · intro h; exact ⟨bandsOf l, h, (flat_bandsOf l).symm⟩
  · rintro ⟨bs, hk, rfl⟩
    show BandsOK (bandsOf (flat bs))
    rw [bandsOf_flat hk]; exact hk

instance (l : List Box) : Decidable (CanonList l) :=
  decidable_of_iff _ canonListB_iff

instance (e : Box) (l : List Box) : Decidable (IsBBox e l) := by
  unfold IsBBox; infer_instance

instance (r : Region) : Decidable (Canon r) :=
  match r with
  | ⟨e, .single⟩ => inferInstanceAs (Decidable (goodRect e = true))
  | ⟨_, .emptyStatic⟩ => isTrue trivial
  | ⟨_, .broken⟩ => isFalse (fun h => h)
  | ⟨e, .heap l⟩ => inferInstanceAs (Decidable (2 ≤ l.length ∧ CanonList l ∧ IsBBox e l))

instance (l : List Box) (x y : Int) : Decidable (MemL l x y) := by
  unfold MemL; infer_instance

instance (r : Region) (x y : Int) : Decidable (r.Mem x y) := by
  unfold Region.Mem; infer_instance

end Pixman.Region

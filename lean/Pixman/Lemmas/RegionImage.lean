import Pixman.Lemmas.RegionQuery
/-! Lemmas for `pixman_region_init_from_image` (C07): runs of a row, row coalescing. -/
namespace Pixman.Region

/-- bit `u` of a row is set -/
def Bit (row : List Bool) (u : Int) : Prop := 0 ≤ u ∧ row[u.toNat]? = some true

/-- bit `(x, y)` of an image given as rows is set -/
def ImgBit (rows : List (List Bool)) (x y : Int) : Prop :=
  0 ≤ y ∧ ∃ row, rows[y.toNat]? = some row ∧ Bit row x

def InRuns (R : List (Int × Int)) (u : Int) : Prop := ∃ p ∈ R, p.1 ≤ u ∧ u < p.2

/-- the rectangles of scan line `h` -/
def lineOf (h : Int) (R : List (Int × Int)) : List Box := R.map fun p => Box.mk p.1 h p.2 (h + 1)

theorem cons_bit (b : Bool) (t : List Bool) (x u : Int) :
    (x ≤ u ∧ (b :: t)[(u - x).toNat]? = some true) ↔
      ((u = x ∧ b = true) ∨ (x + 1 ≤ u ∧ t[(u - (x + 1)).toNat]? = some true)) := by
  constructor
  · rintro ⟨h1, h2⟩
    by_cases hu : u = x
    · subst hu
      simp only [Int.sub_self, Int.toNat_zero, List.getElem?_cons_zero, Option.some.injEq] at h2
      exact .inl ⟨rfl, h2⟩
    · have e : (u - x).toNat = (u - (x + 1)).toNat + 1 := by omega
      rw [e, List.getElem?_cons_succ] at h2
      exact .inr ⟨by omega, h2⟩
  · rintro (⟨rfl, hb⟩ | ⟨h1, h2⟩)
    · simp [hb]
    · have e : (u - x).toNat = (u - (x + 1)).toNat + 1 := by omega
      rw [e, List.getElem?_cons_succ]
      exact ⟨by omega, h2⟩

theorem inRuns_nil (u : Int) : ¬ InRuns [] u := by simp [InRuns]

theorem inRuns_cons (p : Int × Int) (R : List (Int × Int)) (u : Int) :
    InRuns (p :: R) u ↔ (p.1 ≤ u ∧ u < p.2) ∨ InRuns R u := by
  simp [InRuns]

/-- the runs cover exactly the set bits (plus the run that was open on entry) -/
theorem go_mem : ∀ (l : List Bool) (x : Int) (start : Option Int),
    (∀ s, start = some s → s < x) → ∀ u,
    InRuns (rowRuns.go x start l) u ↔
      ((∃ s, start = some s ∧ s ≤ u ∧ u < x) ∨ (x ≤ u ∧ l[(u - x).toNat]? = some true))
  | [], x, none, _, u => by simp [rowRuns.go, InRuns]
  | [], x, some s, _, u => by simp [rowRuns.go, InRuns]
  | true :: t, x, none, _, u => by
    simp only [rowRuns.go]
    rw [go_mem t (x + 1) (some x) (by intro s hs; cases hs; omega), cons_bit]
    simp only [Option.some.injEq, exists_eq_left', reduceCtorEq, false_and, exists_false,
      false_or, and_true]
    by_cases hP : t[(u - (x + 1)).toNat]? = some true <;>
      simp only [hP, and_true, and_false, or_false] <;> omega
  | false :: t, x, none, _, u => by
    simp only [rowRuns.go]
    rw [go_mem t (x + 1) none (by intro s hs; cases hs), cons_bit]
    simp
  | true :: t, x, some s, hs, u => by
    have := hs s rfl
    simp only [rowRuns.go]
    rw [go_mem t (x + 1) (some s) (by intro s' hs'; cases hs'; omega), cons_bit]
    simp only [Option.some.injEq, exists_eq_left', and_true]
    by_cases hP : t[(u - (x + 1)).toNat]? = some true <;>
      simp only [hP, and_true, and_false, or_false] <;> omega
  | false :: t, x, some s, hs, u => by
    have := hs s rfl
    simp only [rowRuns.go]
    rw [inRuns_cons, go_mem t (x + 1) none (by intro s' hs'; cases hs'), cons_bit]
    simp

theorem mem_lineOf {h : Int} {R : List (Int × Int)} {b : Box} :
    b ∈ lineOf h R ↔ ∃ p ∈ R, b = Box.mk p.1 h p.2 (h + 1) := by
  simp only [lineOf, List.mem_map]
  constructor
  · rintro ⟨p, hp, rfl⟩; exact ⟨p, hp, rfl⟩
  · rintro ⟨p, hp, rfl⟩; exact ⟨p, hp, rfl⟩

/-- the runs are non-empty, separated by gaps, and lie inside the row -/
theorem go_sep (h : Int) : ∀ (l : List Bool) (x : Int) (start : Option Int),
    (∀ s, start = some s → s < x) →
    SpansSep (lineOf h (rowRuns.go x start l)) ∧
    ∀ p ∈ rowRuns.go x start l,
      (match start with | none => x ≤ p.1 | some s => s ≤ p.1) ∧ p.1 < p.2 ∧ p.2 ≤ x + l.length
  | [], x, none, _ => by simp [rowRuns.go, lineOf, SpansSep]
  | [], x, some s, hs => by
    have := hs s rfl
    simp [rowRuns.go, lineOf, SpansSep, this]
  | true :: t, x, none, _ => by
    simp only [rowRuns.go]
    obtain ⟨i1, i2⟩ := go_sep h t (x + 1) (some x) (by intro s hs; cases hs; omega)
    refine ⟨i1, fun p hp => ?_⟩
    have := i2 p hp
    simp only [List.length_cons, Int.natCast_add, Int.cast_ofNat_Int] at this ⊢
    omega
  | false :: t, x, none, _ => by
    simp only [rowRuns.go]
    obtain ⟨i1, i2⟩ := go_sep h t (x + 1) none (by intro s hs; cases hs)
    refine ⟨i1, fun p hp => ?_⟩
    have := i2 p hp
    simp only [List.length_cons, Int.natCast_add, Int.cast_ofNat_Int] at this ⊢
    omega
  | true :: t, x, some s, hs => by
    have := hs s rfl
    simp only [rowRuns.go]
    obtain ⟨i1, i2⟩ := go_sep h t (x + 1) (some s) (by intro s' hs'; cases hs'; omega)
    refine ⟨i1, fun p hp => ?_⟩
    have := i2 p hp
    simp only [List.length_cons, Int.natCast_add, Int.cast_ofNat_Int] at this ⊢
    omega
  | false :: t, x, some s, hs => by
    have := hs s rfl
    simp only [rowRuns.go]
    obtain ⟨i1, i2⟩ := go_sep h t (x + 1) none (by intro s' hs'; cases hs')
    constructor
    · show SpansSep (Box.mk s h x (h + 1) :: lineOf h (rowRuns.go (x + 1) none t))
      apply spansSep_cons this _ i1
      intro b hb
      obtain ⟨p, hp, rfl⟩ := mem_lineOf.1 hb
      have := i2 p hp
      simp only at this ⊢
      omega
    · intro p hp
      simp only [List.length_cons, Int.natCast_add, Int.cast_ofNat_Int]
      rcases List.mem_cons.1 hp with rfl | hp
      · simp only; omega
      · have := i2 p hp
        simp only at this
        omega

theorem rowRuns_mem (row : List Bool) (u : Int) : InRuns (rowRuns row) u ↔ Bit row u := by
  unfold rowRuns Bit
  rw [go_mem row 0 none (by intro s hs; cases hs)]
  simp

theorem rowRuns_sep (h : Int) (row : List Bool) :
    SpansSep (lineOf h (rowRuns row)) ∧
      ∀ p ∈ rowRuns row, 0 ≤ p.1 ∧ p.1 < p.2 ∧ p.2 ≤ row.length := by
  unfold rowRuns
  obtain ⟨i1, i2⟩ := go_sep h row 0 none (by intro s hs; cases hs)
  refine ⟨i1, fun p hp => ?_⟩
  have := i2 p hp
  simp only at this
  omega

theorem inSpans_lineOf (h : Int) (R : List (Int × Int)) (u : Int) :
    InSpans (lineOf h R) u ↔ InRuns R u := by
  unfold InSpans InRuns
  constructor
  · rintro ⟨b, hb, m⟩
    obtain ⟨p, hp, rfl⟩ := mem_lineOf.1 hb
    exact ⟨p, hp, m⟩
  · rintro ⟨p, hp, m⟩
    exact ⟨_, mem_lineOf.2 ⟨p, hp, rfl⟩, m⟩

/-! ### band-list bookkeeping -/

theorem flat_append (a b : List Band) : flat (a ++ b) = flat a ++ flat b := by simp [flat]

theorem flat_single (b : Band) : flat [b] = b.2.2 := by simp [flat]

theorem bandsOK_snoc : ∀ {bs : List Band} {b : Band}, BandsOK bs → IsBand b.1 b.2.1 b.2.2 →
    (∀ a, bs.getLast? = some a → a.2.1 ≤ b.1 ∧ (a.2.1 = b.1 → ¬ SameSpans a.2.2 b.2.2)) →
    BandsOK (bs ++ [b])
  | [], b, _, hb, _ => by obtain ⟨y1, y2, l⟩ := b; exact hb
  | [a], b, ha, hb, hl => by
    obtain ⟨y1, y2, l⟩ := a
    obtain ⟨y1', y2', l'⟩ := b
    have := hl _ rfl
    exact ⟨ha, this.1, this.2, hb⟩
  | a :: a' :: t, b, ha, hb, hl => by
    obtain ⟨y1, y2, l⟩ := a
    obtain ⟨y1', y2', l'⟩ := a'
    have ih := bandsOK_snoc (bs := (y1', y2', l') :: t) ha.2.2.2 hb
      (by intro c hc; apply hl; rw [List.getLast?_cons_cons]; exact hc)
    exact ⟨ha.1, ha.2.1, ha.2.2.1, ih⟩

/-- `g` keeps the x-span of every box -/
def KeepsX (g : Box → Box) : Prop := ∀ b, (g b).x1 = b.x1 ∧ (g b).x2 = b.x2

theorem sameSpans_map_right {g : Box → Box} (hg : KeepsX g) :
    ∀ (a l : List Box), SameSpans a (l.map g) ↔ SameSpans a l
  | [], [] => Iff.rfl
  | [], _ :: _ => Iff.rfl
  | _ :: _, [] => Iff.rfl
  | p :: a, q :: l => by
    simp only [List.map_cons, SameSpans, (hg q).1, (hg q).2, sameSpans_map_right hg a l]

theorem sameSpans_map_self {g : Box → Box} (hg : KeepsX g) : ∀ l : List Box, SameSpans l (l.map g)
  | [] => trivial
  | q :: l => ⟨(hg q).1.symm, (hg q).2.symm, sameSpans_map_self hg l⟩

theorem spansSep_map {g : Box → Box} (hg : KeepsX g) :
    ∀ (l : List Box), SpansSep l → SpansSep (l.map g)
  | [], _ => trivial
  | [a], h => by simp only [List.map_cons, List.map_nil, SpansSep, (hg a).1, (hg a).2]; exact h
  | a :: b :: t, h => by
    have ih := spansSep_map hg (b :: t) h.2.2
    simp only [List.map_cons] at ih ⊢
    exact ⟨by rw [(hg a).1, (hg a).2]; exact h.1, by rw [(hg a).2, (hg b).1]; exact h.2.1, ih⟩

theorem sameSpans_mem_right : ∀ {l l' : List Box}, SameSpans l l' →
    ∀ b' ∈ l', ∃ b ∈ l, b.x1 = b'.x1 ∧ b.x2 = b'.x2
  | [], [], _, b', hb' => by cases hb'
  | [], _ :: _, h, _, _ => h.elim
  | _ :: _, [], h, _, _ => h.elim
  | a :: t, a' :: t', h, b', hb' => by
    rcases List.mem_cons.1 hb' with rfl | hb'
    · exact ⟨a, List.mem_cons_self .., h.1, h.2.1⟩
    · obtain ⟨b, hb, e⟩ := sameSpans_mem_right h.2.2 b' hb'
      exact ⟨b, List.mem_cons_of_mem _ hb, e⟩

theorem sameSpans_length : ∀ {l l' : List Box}, SameSpans l l' → l.length = l'.length
  | [], [], _ => rfl
  | [], _ :: _, h => h.elim
  | _ :: _, [], h => h.elim
  | _ :: _, _ :: _, h => by simp [sameSpans_length h.2.2]

/-! ### folding the x-extents -/

theorem foldMin_spec : ∀ (R : List (Int × Int)) (m : Int),
    R.foldl (fun m p => if p.1 < m then p.1 else m) m ≤ m ∧
    (∀ p ∈ R, R.foldl (fun m p => if p.1 < m then p.1 else m) m ≤ p.1) ∧
    (R.foldl (fun m p => if p.1 < m then p.1 else m) m = m ∨
      ∃ p ∈ R, p.1 = R.foldl (fun m p => if p.1 < m then p.1 else m) m)
  | [], m => by simp
  | q :: R, m => by
    obtain ⟨i1, i2, i3⟩ := foldMin_spec R (if q.1 < m then q.1 else m)
    simp only [List.foldl_cons]
    generalize R.foldl (fun m p => if p.1 < m then p.1 else m) (if q.1 < m then q.1 else m) = m'
      at *
    refine ⟨by split at i1 <;> omega, ?_, ?_⟩
    · intro p hp
      rcases List.mem_cons.1 hp with rfl | hp
      · split at i1 <;> omega
      · exact i2 p hp
    · rcases i3 with i3 | ⟨p, hp, e⟩
      · split at i3
        · exact .inr ⟨q, List.mem_cons_self .., i3.symm⟩
        · exact .inl i3
      · exact .inr ⟨p, List.mem_cons_of_mem _ hp, e⟩

theorem foldMax_spec : ∀ (R : List (Int × Int)) (m : Int),
    m ≤ R.foldl (fun m p => if p.2 > m then p.2 else m) m ∧
    (∀ p ∈ R, p.2 ≤ R.foldl (fun m p => if p.2 > m then p.2 else m) m) ∧
    (R.foldl (fun m p => if p.2 > m then p.2 else m) m = m ∨
      ∃ p ∈ R, p.2 = R.foldl (fun m p => if p.2 > m then p.2 else m) m)
  | [], m => by simp
  | q :: R, m => by
    obtain ⟨i1, i2, i3⟩ := foldMax_spec R (if q.2 > m then q.2 else m)
    simp only [List.foldl_cons]
    generalize R.foldl (fun m p => if p.2 > m then p.2 else m) (if q.2 > m then q.2 else m) = m'
      at *
    refine ⟨by split at i1 <;> omega, ?_, ?_⟩
    · intro p hp
      rcases List.mem_cons.1 hp with rfl | hp
      · split at i1 <;> omega
      · exact i2 p hp
    · rcases i3 with i3 | ⟨p, hp, e⟩
      · split at i3
        · exact .inr ⟨q, List.mem_cons_self .., i3.symm⟩
        · exact .inl i3
      · exact .inr ⟨p, List.mem_cons_of_mem _ hp, e⟩

/-- the x-extent bookkeeping, abstractly: `(e1, e2)` bound the boxes of `L`, and are attained
    unless still at their initial values -/
def XInv (w : Nat) (e1 e2 : Int) (L : List Box) : Prop :=
  (∀ b ∈ L, e1 ≤ b.x1 ∧ b.x2 ≤ e2 ∧ 0 ≤ b.x1 ∧ b.x1 < b.x2 ∧ b.x2 ≤ w) ∧
  (e1 = (w : Int) - 1 ∨ ∃ b ∈ L, b.x1 = e1) ∧ (e2 = 0 ∨ ∃ b ∈ L, b.x2 = e2)

theorem xinv_step {w : Nat} {e1 e2 : Int} {L L' : List Box} {R : List (Int × Int)}
    (h : XInv w e1 e2 L) (hR : ∀ p ∈ R, 0 ≤ p.1 ∧ p.1 < p.2 ∧ p.2 ≤ w)
    (h1 : ∀ b' ∈ L', (∃ b ∈ L, b.x1 = b'.x1 ∧ b.x2 = b'.x2) ∨ (∃ p ∈ R, p.1 = b'.x1 ∧ p.2 = b'.x2))
    (h2 : ∀ b ∈ L, ∃ b' ∈ L', b'.x1 = b.x1 ∧ b'.x2 = b.x2)
    (h3 : ∀ p ∈ R, ∃ b' ∈ L', b'.x1 = p.1 ∧ b'.x2 = p.2) :
    XInv w (R.foldl (fun m p => if p.1 < m then p.1 else m) e1)
      (R.foldl (fun m p => if p.2 > m then p.2 else m) e2) L' := by
  obtain ⟨a1, a2, a3⟩ := foldMin_spec R e1
  obtain ⟨b1, b2, b3⟩ := foldMax_spec R e2
  generalize R.foldl (fun m p => if p.1 < m then p.1 else m) e1 = m1 at *
  generalize R.foldl (fun m p => if p.2 > m then p.2 else m) e2 = m2 at *
  obtain ⟨x1, x2, x3⟩ := h
  refine ⟨?_, ?_, ?_⟩
  · intro b' hb'
    rcases h1 b' hb' with ⟨b, hb, e, e'⟩ | ⟨p, hp, e, e'⟩
    · have := x1 b hb; omega
    · have := hR p hp; have := a2 p hp; have := b2 p hp; omega
  · rcases a3 with rfl | ⟨p, hp, e⟩
    · rcases x2 with x2 | ⟨b, hb, e⟩
      · exact .inl x2
      · obtain ⟨b', hb', e', _⟩ := h2 b hb
        exact .inr ⟨b', hb', by omega⟩
    · obtain ⟨b', hb', e', _⟩ := h3 p hp
      exact .inr ⟨b', hb', by omega⟩
  · rcases b3 with rfl | ⟨p, hp, e⟩
    · rcases x3 with x3 | ⟨b, hb, e⟩
      · exact .inl x3
      · obtain ⟨b', hb', _, e'⟩ := h2 b hb
        exact .inr ⟨b', hb', by omega⟩
    · obtain ⟨b', hb', _, e'⟩ := h3 p hp
      exact .inr ⟨b', hb', by omega⟩

/-! ### one scan line -/

def ImgSt.list (s : ImgSt) : List Box := s.done.reverse ++ s.prev

/-- `y2 := y2 + 1` on every box -/
def growY (b : Box) : Box := { b with y2 := b.y2 + 1 }

theorem growY_keepsX : KeepsX growY := fun _ => ⟨rfl, rfl⟩

/-- the test of `imgRow` -/
def imgSame (s : ImgSt) (h : Int) (row : List Bool) : Bool :=
  s.havePrev && s.prev.length != 0 && s.prev.length == (lineOf h (rowRuns row)).length &&
    sameSpans s.prev (lineOf h (rowRuns row))

theorem imgRow_same {s : ImgSt} {h : Int} {row : List Bool} (hc : imgSame s h row = true) :
    imgRow s h row = { s with
      prev := s.prev.map growY,
      ex1 := (rowRuns row).foldl (fun m p => if p.1 < m then p.1 else m) s.ex1,
      ex2 := (rowRuns row).foldl (fun m p => if p.2 > m then p.2 else m) s.ex2 } := by
  unfold imgSame lineOf at hc
  unfold imgRow
  simp only [hc, if_true]
  rfl

theorem imgRow_diff {s : ImgSt} {h : Int} {row : List Bool} (hc : imgSame s h row = false) :
    imgRow s h row = {
      done := s.prev.reverse ++ s.done, prev := lineOf h (rowRuns row), havePrev := true,
      ex1 := (rowRuns row).foldl (fun m p => if p.1 < m then p.1 else m) s.ex1,
      ex2 := (rowRuns row).foldl (fun m p => if p.2 > m then p.2 else m) s.ex2 } := by
  unfold imgSame lineOf at hc
  unfold imgRow
  simp only [hc, Bool.false_eq_true, if_false]
  rfl

/-- invariant of the row loop before scan line `h` -/
structure ImgInv (w : Nat) (s : ImgSt) (h : Int) : Prop where
  bands : ∃ bs, s.done.reverse = flat bs ∧ BandsOK bs ∧
    (s.prev = [] → ∀ a, bs.getLast? = some a → a.2.1 < h) ∧
    (s.prev ≠ [] → ∃ y1, IsBand y1 h s.prev ∧
      ∀ a, bs.getLast? = some a → a.2.1 ≤ y1 ∧ (a.2.1 = y1 → ¬ SameSpans a.2.2 s.prev))
  hp : s.prev ≠ [] → s.havePrev = true
  xs : XInv w s.ex1 s.ex2 s.list

theorem isBand_lineOf {h : Int} {row : List Bool} (hne : lineOf h (rowRuns row) ≠ []) :
    IsBand h (h + 1) (lineOf h (rowRuns row)) := by
  refine ⟨hne, by omega, ?_, (rowRuns_sep h row).1⟩
  intro b hb
  obtain ⟨p, _, rfl⟩ := mem_lineOf.1 hb
  exact ⟨rfl, rfl⟩

theorem imgSame_spec {s : ImgSt} {h : Int} {row : List Bool} (hc : imgSame s h row = true) :
    s.prev ≠ [] ∧ SameSpans s.prev (lineOf h (rowRuns row)) := by
  unfold imgSame at hc
  simp only [Bool.and_eq_true, bne_iff_ne, ne_eq, List.length_eq_zero_iff, beq_iff_eq] at hc
  exact ⟨hc.1.1.2, sameSpans_iff.1 hc.2⟩

theorem imgSame_false {s : ImgSt} {h : Int} {row : List Bool} (hc : imgSame s h row = false)
    (hp : s.prev ≠ [] → s.havePrev = true) (hne : s.prev ≠ []) :
    ¬ SameSpans s.prev (lineOf h (rowRuns row)) := by
  intro hs
  have hl := sameSpans_length hs
  have : imgSame s h row = true := by
    unfold imgSame
    simp only [Bool.and_eq_true, bne_iff_ne, ne_eq, List.length_eq_zero_iff, beq_iff_eq]
    exact ⟨⟨⟨hp hne, hne⟩, hl⟩, sameSpans_iff.2 hs⟩
  rw [this] at hc
  cases hc

theorem imgRow_inv {w : Nat} {s : ImgSt} {h : Int} {row : List Bool} (hi : ImgInv w s h)
    (hw : row.length ≤ w) : ImgInv w (imgRow s h row) (h + 1) := by
  obtain ⟨⟨bs, hd, hk, hnil, hcons⟩, hp, hx⟩ := hi
  have hR : ∀ p ∈ rowRuns row, 0 ≤ p.1 ∧ p.1 < p.2 ∧ p.2 ≤ w := by
    intro p hp
    have := (rowRuns_sep h row).2 p hp
    omega
  cases hc : imgSame s h row with
  | true =>
    obtain ⟨hne, hs⟩ := imgSame_spec hc
    obtain ⟨y1, hb, hl⟩ := hcons hne
    rw [imgRow_same hc]
    refine ⟨⟨bs, hd, hk, ?_, ?_⟩, ?_, ?_⟩
    · intro he
      simp only [List.map_eq_nil_iff] at he
      exact absurd he hne
    · intro _
      refine ⟨y1, ⟨by simpa using hne, by have := hb.2.1; omega, ?_,
        spansSep_map growY_keepsX _ hb.2.2.2⟩, ?_⟩
      · intro b hb'
        obtain ⟨b0, hb0, rfl⟩ := List.mem_map.1 hb'
        have := hb.2.2.1 b0 hb0
        simp only [growY]
        omega
      · intro a ha
        have := hl a ha
        refine ⟨this.1, fun e hss => this.2 e ?_⟩
        exact (sameSpans_map_right growY_keepsX _ _).1 hss
    · intro _; exact hp hne
    · apply xinv_step hx hR
      · intro b' hb'
        simp only [ImgSt.list, List.mem_append] at hb'
        rcases hb' with hb' | hb'
        · exact .inl ⟨b', by simp only [ImgSt.list, List.mem_append]; exact .inl hb', rfl, rfl⟩
        · obtain ⟨b0, hb0, rfl⟩ := List.mem_map.1 hb'
          exact .inl ⟨b0, by simp only [ImgSt.list, List.mem_append]; exact .inr hb0, rfl, rfl⟩
      · intro b hb'
        simp only [ImgSt.list, List.mem_append] at hb' ⊢
        rcases hb' with hb' | hb'
        · exact ⟨b, .inl hb', rfl, rfl⟩
        · exact ⟨growY b, .inr (List.mem_map.2 ⟨b, hb', rfl⟩), rfl, rfl⟩
      · intro p hp'
        obtain ⟨b, hb', e1, e2⟩ := sameSpans_mem_right hs _ (mem_lineOf.2 ⟨p, hp', rfl⟩)
        simp only [ImgSt.list, List.mem_append]
        exact ⟨growY b, .inr (List.mem_map.2 ⟨b, hb', rfl⟩), e1, e2⟩
  | false =>
    rw [imgRow_diff hc]
    -- the band list after closing the previous band
    have hbs : ∃ bs', (s.prev.reverse ++ s.done).reverse = flat bs' ∧ BandsOK bs' ∧
        (∀ a, bs'.getLast? = some a → a.2.1 ≤ h ∧
          (a.2.1 = h → s.prev ≠ [] ∧ a.2.2 = s.prev)) := by
      by_cases hne : s.prev = []
      · refine ⟨bs, by simp [hne, hd], hk, fun a ha => ?_⟩
        have := hnil hne a ha
        exact ⟨by omega, fun e => by omega⟩
      · obtain ⟨y1, hb, hl⟩ := hcons hne
        refine ⟨bs ++ [(y1, h, s.prev)], ?_, bandsOK_snoc hk hb hl, ?_⟩
        · rw [flat_append, flat_single, ← hd]; simp
        · intro a ha
          rw [List.getLast?_append] at ha
          simp only [List.getLast?_singleton, Option.some_or, Option.some.injEq] at ha
          rw [← ha]
          exact ⟨Int.le_refl _, fun _ => ⟨hne, rfl⟩⟩
    obtain ⟨bs', hd', hk', hl'⟩ := hbs
    refine ⟨⟨bs', hd', hk', ?_, ?_⟩, fun _ => rfl, ?_⟩
    · intro _ a ha
      have := (hl' a ha).1
      omega
    · intro hne
      refine ⟨h, isBand_lineOf hne, fun a ha => ⟨(hl' a ha).1, fun e => ?_⟩⟩
      obtain ⟨hne', e'⟩ := (hl' a ha).2 e
      rw [e']
      exact imgSame_false hc hp hne'
    · apply xinv_step hx hR
      · intro b' hb'
        simp only [ImgSt.list, List.mem_append, List.reverse_append, List.reverse_reverse] at hb'
        rcases hb' with (hb' | hb') | hb'
        · exact .inl ⟨b', by simp only [ImgSt.list, List.mem_append]; exact .inl hb', rfl, rfl⟩
        · exact .inl ⟨b', by simp only [ImgSt.list, List.mem_append]; exact .inr hb', rfl, rfl⟩
        · obtain ⟨p, hp', rfl⟩ := mem_lineOf.1 hb'
          exact .inr ⟨p, hp', rfl, rfl⟩
      · intro b hb'
        simp only [ImgSt.list, List.mem_append, List.reverse_append, List.reverse_reverse]
          at hb' ⊢
        exact ⟨b, .inl hb', rfl, rfl⟩
      · intro p hp'
        simp only [ImgSt.list, List.mem_append]
        exact ⟨_, .inr (mem_lineOf.2 ⟨p, hp', rfl⟩), rfl, rfl⟩

theorem cons_idx {α : Type} (b : α) (t : List α) (x u : Int) (v : α) :
    (x ≤ u ∧ (b :: t)[(u - x).toNat]? = some v) ↔
      ((u = x ∧ b = v) ∨ (x + 1 ≤ u ∧ t[(u - (x + 1)).toNat]? = some v)) := by
  constructor
  · rintro ⟨h1, h2⟩
    by_cases hu : u = x
    · subst hu
      simp only [Int.sub_self, Int.toNat_zero, List.getElem?_cons_zero, Option.some.injEq] at h2
      exact .inl ⟨rfl, h2⟩
    · have e : (u - x).toNat = (u - (x + 1)).toNat + 1 := by omega
      rw [e, List.getElem?_cons_succ] at h2
      exact .inr ⟨by omega, h2⟩
  · rintro (⟨rfl, hb⟩ | ⟨h1, h2⟩)
    · simp [hb]
    · have e : (u - x).toNat = (u - (x + 1)).toNat + 1 := by omega
      rw [e, List.getElem?_cons_succ]
      exact ⟨by omega, h2⟩

theorem memL_growY {l : List Box} {h : Int} (hl : ∀ b ∈ l, b.y1 < h ∧ b.y2 = h) (x y : Int) :
    MemL (l.map growY) x y ↔ (MemL l x y ∨ (y = h ∧ InSpans l x)) := by
  constructor
  · rintro ⟨b', hb', m⟩
    obtain ⟨b, hb, rfl⟩ := List.mem_map.1 hb'
    have := hl b hb
    obtain ⟨m1, m2, m3, m4⟩ := m
    simp only [growY] at m1 m2 m3 m4
    by_cases hy : y = h
    · exact .inr ⟨hy, b, hb, m1, m2⟩
    · exact .inl ⟨b, hb, m1, m2, m3, by omega⟩
  · rintro (⟨b, hb, m1, m2, m3, m4⟩ | ⟨rfl, b, hb, m1, m2⟩)
    · exact ⟨growY b, List.mem_map.2 ⟨b, hb, rfl⟩, m1, m2, m3, by simp only [growY]; omega⟩
    · have := hl b hb
      exact ⟨growY b, List.mem_map.2 ⟨b, hb, rfl⟩, m1, m2, by simp only [growY]; omega,
        by simp only [growY]; omega⟩

theorem memL_lineOf (h : Int) (row : List Bool) (x y : Int) :
    MemL (lineOf h (rowRuns row)) x y ↔ (y = h ∧ Bit row x) := by
  rw [memL_band (y1 := h) (y2 := h + 1), inSpans_lineOf, rowRuns_mem]
  · constructor
    · rintro ⟨_, _, m⟩; exact ⟨by omega, m⟩
    · rintro ⟨rfl, m⟩; exact ⟨Int.le_refl _, by omega, m⟩
  · intro b hb
    obtain ⟨p, _, rfl⟩ := mem_lineOf.1 hb
    exact ⟨rfl, rfl⟩

theorem imgRow_mem {w : Nat} {s : ImgSt} {h : Int} {row : List Bool} (hi : ImgInv w s h)
    (x y : Int) :
    MemL (imgRow s h row).list x y ↔ (MemL s.list x y ∨ (y = h ∧ Bit row x)) := by
  obtain ⟨⟨bs, hd, hk, hnil, hcons⟩, hp, hx⟩ := hi
  cases hc : imgSame s h row with
  | true =>
    obtain ⟨hne, hs⟩ := imgSame_spec hc
    obtain ⟨y1, hb, hl⟩ := hcons hne
    rw [imgRow_same hc]
    simp only [ImgSt.list]
    rw [memL_append, memL_append, memL_growY (h := h), sameSpans_inSpans hs, inSpans_lineOf,
      rowRuns_mem, or_assoc]
    intro b hb'
    have := hb.2.2.1 b hb'
    have := hb.2.1
    omega
  | false =>
    rw [imgRow_diff hc]
    simp only [ImgSt.list, List.reverse_append, List.reverse_reverse]
    simp only [memL_append, memL_lineOf]

theorem imgRows_inv {w : Nat} : ∀ (rows : List (List Bool)) {s : ImgSt} {h : Int},
    ImgInv w s h → (∀ row ∈ rows, row.length ≤ w) →
    ImgInv w (imgRows s h rows) (h + rows.length)
  | [], s, h, hi, _ => by simpa [imgRows] using hi
  | r :: t, s, h, hi, hw => by
    have := imgRows_inv t (imgRow_inv hi (hw r (List.mem_cons_self ..)))
      (fun row hr => hw row (List.mem_cons_of_mem _ hr))
    simp only [imgRows, List.length_cons, Int.natCast_add, Int.cast_ofNat_Int]
    rw [show h + ((t.length : Int) + 1) = h + 1 + t.length by omega]
    exact this

theorem imgRows_mem {w : Nat} : ∀ (rows : List (List Bool)) {s : ImgSt} {h : Int},
    ImgInv w s h → (∀ row ∈ rows, row.length ≤ w) → ∀ x y,
    MemL (imgRows s h rows).list x y ↔
      (MemL s.list x y ∨ (h ≤ y ∧ ∃ row, rows[(y - h).toNat]? = some row ∧ Bit row x))
  | [], s, h, _, _, x, y => by simp [imgRows]
  | r :: t, s, h, hi, hw, x, y => by
    simp only [imgRows]
    rw [imgRows_mem t (imgRow_inv hi (hw r (List.mem_cons_self ..)))
      (fun row hr => hw row (List.mem_cons_of_mem _ hr)), imgRow_mem hi, or_assoc]
    apply or_congr Iff.rfl
    constructor
    · rintro (⟨rfl, hb⟩ | ⟨h1, row, h2, hb⟩)
      · exact ⟨Int.le_refl _, r, by simp, hb⟩
      · exact ⟨by omega, row, ((cons_idx r t h y row).2 (.inr ⟨h1, h2⟩)).2, hb⟩
    · rintro ⟨h1, row, h2, hb⟩
      rcases (cons_idx r t h y row).1 ⟨h1, h2⟩ with ⟨e, rfl⟩ | ⟨h3, h4⟩
      · exact .inl ⟨e, hb⟩
      · exact .inr ⟨h3, row, h4, hb⟩

/-! ### the whole image -/

def imgInit (w : Nat) : ImgSt := ⟨[], [], false, (w : Int) - 1, 0⟩

theorem imgInit_inv (w : Nat) : ImgInv w (imgInit w) 0 := by
  refine ⟨⟨[], rfl, trivial, ?_, ?_⟩, ?_, ?_⟩
  · intro _ a ha; cases ha
  · intro h; exact absurd rfl h
  · intro h; exact absurd rfl h
  · unfold XInv
    exact ⟨fun b hb => by simp [ImgSt.list, imgInit] at hb, .inl rfl, .inl rfl⟩

theorem imgInv_canonList {w : Nat} {s : ImgSt} {h : Int} (hi : ImgInv w s h) :
    CanonList s.list := by
  obtain ⟨⟨bs, hd, hk, hnil, hcons⟩, _, _⟩ := hi
  by_cases hne : s.prev = []
  · exact ⟨bs, hk, by rw [ImgSt.list, hne, hd, List.append_nil]; rfl⟩
  · obtain ⟨y1, hb, hl⟩ := hcons hne
    refine ⟨bs ++ [(y1, h, s.prev)], bandsOK_snoc hk hb hl, ?_⟩
    show s.list = flat _
    rw [flat_append, flat_single, ← hd]
    rfl

theorem banded_first_y1 {b : Box} {t : List Box} (h : Banded (b :: t)) :
    ∀ q ∈ b :: t, b.y1 ≤ q.y1 := by
  intro q hq
  rcases List.mem_cons.1 hq with rfl | hq
  · exact Int.le_refl _
  · have := h.2 b (List.mem_cons_self ..)
    rcases banded_head h q hq with hb | hb <;> omega

theorem banded_last_y2 {l : List Box} {e : Box} (h : Banded l) (he : l.getLast? = some e) :
    ∀ q ∈ l, q.y2 ≤ e.y2 := by
  obtain ⟨ys, rfl⟩ := List.getLast?_eq_some_iff.1 he
  have hm := banded_y2_mono h
  rw [List.pairwise_append] at hm
  intro q hq
  rcases List.mem_append.1 hq with hq | hq
  · exact hm.2.2 q hq e (List.mem_singleton.2 rfl)
  · rw [List.mem_singleton.1 hq]; exact Int.le_refl _

/-- what `initFromImage` returns, in terms of the final loop state -/
theorem initFromImage_spec (w : Nat) (rows : List (List Bool))
    (hw : ∀ row ∈ rows, row.length ≤ w) :
    (initFromImage w rows).rects = (imgRows (imgInit w) 0 rows).list ∧
      Canon (initFromImage w rows) := by
  have hi := imgRows_inv rows (imgInit_inv w) hw
  have hc := imgInv_canonList hi
  have hbd := canonList_banded hc
  obtain ⟨hx1, hx2, hx3⟩ := hi.xs
  unfold initFromImage
  simp only
  show (match (imgRows (imgInit w) 0 rows).list, (imgRows (imgInit w) 0 rows).list.getLast? with
    | [], _ => (⟨⟨0, 0, 0, 0⟩, .emptyStatic⟩ : Region)
    | [b], _ => ⟨⟨(imgRows (imgInit w) 0 rows).ex1, b.y1, (imgRows (imgInit w) 0 rows).ex2, b.y2⟩,
        .single⟩
    | b :: _, some e => ⟨⟨(imgRows (imgInit w) 0 rows).ex1, b.y1,
        (imgRows (imgInit w) 0 rows).ex2, e.y2⟩, .heap (imgRows (imgInit w) 0 rows).list⟩
    | _, none => init).rects = _ ∧ Canon (match (imgRows (imgInit w) 0 rows).list,
      (imgRows (imgInit w) 0 rows).list.getLast? with
    | [], _ => (⟨⟨0, 0, 0, 0⟩, .emptyStatic⟩ : Region)
    | [b], _ => ⟨⟨(imgRows (imgInit w) 0 rows).ex1, b.y1, (imgRows (imgInit w) 0 rows).ex2, b.y2⟩,
        .single⟩
    | b :: _, some e => ⟨⟨(imgRows (imgInit w) 0 rows).ex1, b.y1,
        (imgRows (imgInit w) 0 rows).ex2, e.y2⟩, .heap (imgRows (imgInit w) 0 rows).list⟩
    | _, none => init)
  generalize (imgRows (imgInit w) 0 rows).ex1 = e1 at *
  generalize (imgRows (imgInit w) 0 rows).ex2 = e2 at *
  generalize hl : (imgRows (imgInit w) 0 rows).list = l at *
  match l, hc, hbd, hx1, hx2, hx3 with
  | [], _, _, _, _, _ => exact ⟨rfl, trivial⟩
  | [b], hc, _, hx1, hx2, hx3 =>
    have hb := hx1 b (List.mem_singleton.2 rfl)
    have e1' : e1 = b.x1 := by
      rcases hx2 with h | ⟨b', hb', h⟩
      · omega
      · rw [List.mem_singleton.1 hb'] at h; exact h.symm
    have e2' : e2 = b.x2 := by
      rcases hx3 with h | ⟨b', hb', h⟩
      · omega
      · rw [List.mem_singleton.1 hb'] at h; exact h.symm
    have hg := canonList_good hc b (List.mem_singleton.2 rfl)
    subst e1' e2'
    refine ⟨rfl, ?_⟩
    show goodRect _ = true
    simp only [goodRect, Bool.and_eq_true, decide_eq_true_eq]
    exact hg
  | b :: c :: t, hc, hbd, hx1, hx2, hx3 =>
    have hb := hx1 b (List.mem_cons_self ..)
    cases hlast : (b :: c :: t).getLast? with
    | none => simp at hlast
    | some e =>
      refine ⟨rfl, ?_⟩
      show 2 ≤ (b :: c :: t).length ∧ CanonList (b :: c :: t) ∧ IsBBox _ (b :: c :: t)
      refine ⟨by simp, hc, ?_, ?_, ?_, ⟨b, List.mem_cons_self .., rfl⟩,
        ⟨e, List.mem_of_getLast? hlast, rfl⟩⟩
      · intro q hq
        have := hx1 q hq
        have := banded_first_y1 hbd q hq
        have := banded_last_y2 hbd hlast q hq
        simp only
        omega
      · rcases hx2 with h | h
        · exact ⟨b, List.mem_cons_self .., by simp only; omega⟩
        · exact h
      · rcases hx3 with h | h
        · exact ⟨b, List.mem_cons_self .., by simp only; omega⟩
        · exact h

theorem initFromImage_mem' (w : Nat) (rows : List (List Bool))
    (hw : ∀ row ∈ rows, row.length ≤ w) (x y : Int) :
    (initFromImage w rows).Mem x y ↔ ImgBit rows x y := by
  unfold Region.Mem
  rw [(initFromImage_spec w rows hw).1, imgRows_mem rows (imgInit_inv w) hw]
  unfold ImgBit
  simp only [Int.sub_zero]
  constructor
  · rintro (⟨b, hb, _⟩ | h)
    · cases hb
    · exact h
  · exact .inr

end Pixman.Region

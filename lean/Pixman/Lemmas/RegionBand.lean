import Pixman.Spec.Canon
/-! 1-D lemmas on band span lists: `interO`, `unionO`/`mergeAll`, `subO` compute exact set algebra
    on the x-projections, keep the y-extent, and produce separated (maximal) spans. -/
set_option linter.unusedSimpArgs false
set_option linter.unusedVariables false
namespace Pixman.Region

/-- spans strictly to the right of `v`, non-empty, separated by gaps -/
def Sep (v : Int) : List Box → Prop
  | [] => True
  | a :: t => v < a.x1 ∧ a.x1 < a.x2 ∧ Sep a.x2 t

/-- every box has the vertical extent `(y1,y2)` -/
def AllY (y1 y2 : Int) (l : List Box) : Prop := ∀ b ∈ l, b.y1 = y1 ∧ b.y2 = y2

theorem spansSep_cons' (a : Box) (t : List Box) : SpansSep (a :: t) ↔ a.x1 < a.x2 ∧ Sep a.x2 t := by
  induction t generalizing a with
  | nil => simp [SpansSep, Sep]
  | cons b t ih => simp only [SpansSep, Sep, ih]

theorem Sep.mono {v w : Int} {l : List Box} (h : Sep v l) (hw : w ≤ v) : Sep w l := by
  cases l with
  | nil => trivial
  | cons a t => exact ⟨by have := h.1; omega, h.2.1, h.2.2⟩

theorem Sep.spansSep {v : Int} {l : List Box} (h : Sep v l) : SpansSep l := by
  cases l with
  | nil => trivial
  | cons a t => exact (spansSep_cons' a t).2 ⟨h.2.1, h.2.2⟩

theorem spansSep_iff (l : List Box) : SpansSep l ↔ ∃ v, Sep v l := by
  constructor
  · intro h
    cases l with
    | nil => exact ⟨0, trivial⟩
    | cons a t =>
      have := (spansSep_cons' a t).1 h
      exact ⟨a.x1 - 1, by omega, this.1, this.2⟩
  · rintro ⟨v, h⟩; exact h.spansSep

theorem Sep.mem {v : Int} {l : List Box} (h : Sep v l) {b : Box} (hb : b ∈ l) :
    v < b.x1 ∧ b.x1 < b.x2 := by
  induction l generalizing v with
  | nil => cases hb
  | cons a t ih =>
    rcases List.mem_cons.1 hb with rfl | hb
    · exact ⟨h.1, h.2.1⟩
    · have := ih h.2.2 hb; have := h.1; have := h.2.1; omega

theorem inSpans_nil' (x : Int) : InSpans [] x ↔ False := by simp [InSpans]

theorem inSpans_cons' (a : Box) (t : List Box) (x : Int) :
    InSpans (a :: t) x ↔ (a.x1 ≤ x ∧ x < a.x2) ∨ InSpans t x := by
  simp [InSpans]

theorem inSpans_append (l1 l2 : List Box) (x : Int) :
    InSpans (l1 ++ l2) x ↔ InSpans l1 x ∨ InSpans l2 x := by
  simp [InSpans, or_and_right, exists_or]

theorem inSpans_ite (c : Prop) [Decidable c] (b : Box) (x : Int) :
    InSpans (if c then [b] else []) x ↔ c ∧ b.x1 ≤ x ∧ x < b.x2 := by
  split <;> simp [InSpans, *]

theorem Sep.lt_of_inSpans {v : Int} {l : List Box} (h : Sep v l) {x : Int} (hx : InSpans l x) :
    v < x := by
  rcases hx with ⟨b, hb, h1, _⟩
  have := (h.mem hb).1; omega

theorem allY_nil (y1 y2 : Int) : AllY y1 y2 [] := by intro b hb; cases hb

theorem allY_cons {y1 y2 : Int} {a : Box} {t : List Box} :
    AllY y1 y2 (a :: t) ↔ (a.y1 = y1 ∧ a.y2 = y2) ∧ AllY y1 y2 t := by
  simp [AllY]

theorem allY_append {y1 y2 : Int} {l1 l2 : List Box} :
    AllY y1 y2 (l1 ++ l2) ↔ AllY y1 y2 l1 ∧ AllY y1 y2 l2 := by
  simp only [AllY, List.mem_append]
  constructor
  · intro h; exact ⟨fun b hb => h b (Or.inl hb), fun b hb => h b (Or.inr hb)⟩
  · rintro ⟨h1, h2⟩ b (hb | hb); exact h1 b hb; exact h2 b hb

/-! ### intersect_o -/

theorem interO_inSpans (y1 y2 : Int) (a b : List Box) (v w : Int) (ha : Sep v a) (hb : Sep w b)
    (x : Int) : InSpans (interO y1 y2 a b) x ↔ InSpans a x ∧ InSpans b x := by
  fun_induction interO y1 y2 a b generalizing v w with
  | case1 => simp [inSpans_nil']
  | case2 => simp [inSpans_nil']
  | case3 a as b bs x1 x2 out h1 h2 ih =>
    have ih := ih _ _ ha.2.2 hb.2.2
    have hA := fun h => Sep.lt_of_inSpans ha.2.2 (x := x) h
    have hB := fun h => Sep.lt_of_inSpans hb.2.2 (x := x) h
    have ⟨ha1, ha2, _⟩ := ha
    have ⟨hb1, hb2, _⟩ := hb
    simp only [out, dite_eq_ite, inSpans_append, inSpans_cons', inSpans_ite, ih]
    simp only [x2] at h1 h2
    by_cases hA' : InSpans as x <;> by_cases hB' : InSpans bs x <;>
      simp only [hA', hB', true_and, and_true, false_and, and_false, or_false, false_or, or_true,
        true_or, forall_const, false_implies, iff_true] at hA hB ⊢ <;> omega
  | case4 a as b bs x1 x2 out h1 h2 ih =>
    have ih := ih _ _ ha.2.2 hb
    have hA := fun h => Sep.lt_of_inSpans ha.2.2 (x := x) h
    have hB := fun h => Sep.lt_of_inSpans hb.2.2 (x := x) h
    have ⟨ha1, ha2, _⟩ := ha
    have ⟨hb1, hb2, _⟩ := hb
    simp only [out, dite_eq_ite, inSpans_append, inSpans_cons', inSpans_ite, ih]
    simp only [x2] at h1 h2
    by_cases hA' : InSpans as x <;> by_cases hB' : InSpans bs x <;>
      simp only [hA', hB', true_and, and_true, false_and, and_false, or_false, false_or, or_true,
        true_or, forall_const, false_implies, iff_true] at hA hB ⊢ <;> omega
  | case5 a as b bs x1 x2 out h1 h2 ih =>
    have ih := ih _ _ ha hb.2.2
    have hA := fun h => Sep.lt_of_inSpans ha.2.2 (x := x) h
    have hB := fun h => Sep.lt_of_inSpans hb.2.2 (x := x) h
    have ⟨ha1, ha2, _⟩ := ha
    have ⟨hb1, hb2, _⟩ := hb
    simp only [out, dite_eq_ite, inSpans_append, inSpans_cons', inSpans_ite, ih]
    simp only [x2] at h1 h2
    by_cases hA' : InSpans as x <;> by_cases hB' : InSpans bs x <;>
      simp only [hA', hB', true_and, and_true, false_and, and_false, or_false, false_or, or_true,
        true_or, forall_const, false_implies, iff_true] at hA hB ⊢ <;> omega
  | case6 a as b bs x1 x2 out h1 h2 ih =>
    exfalso; simp only [x2] at h1 h2; omega


theorem sep_ite_append {c : Prop} [Decidable c] {v : Int} {b : Box} {l : List Box}
    (h1 : c → v < b.x1 ∧ b.x1 < b.x2 ∧ Sep b.x2 l) (h2 : ¬ c → Sep v l) :
    Sep v ((if c then [b] else []) ++ l) := by
  split
  · rename_i hc; exact h1 hc
  · rename_i hc; exact h2 hc

theorem interO_sep (y1 y2 : Int) (a b : List Box) (v w : Int) (ha : Sep v a) (hb : Sep w b) :
    Sep (max v w) (interO y1 y2 a b) := by
  fun_induction interO y1 y2 a b generalizing v w with
  | case1 => trivial
  | case2 => trivial
  | case3 a as b bs x1 x2 out h1 h2 ih =>
    have ih := ih _ _ ha.2.2 hb.2.2
    have ⟨ha1, ha2, _⟩ := ha
    have ⟨hb1, hb2, _⟩ := hb
    simp only [out, dite_eq_ite]
    simp only [x2] at h1 h2
    refine sep_ite_append (fun hc => ⟨?_, hc, ih.mono ?_⟩) (fun _ => ih.mono ?_) <;>
      (try simp only [x1, x2] at *) <;> omega
  | case4 a as b bs x1 x2 out h1 h2 ih =>
    have ih := ih _ _ ha.2.2 hb
    have ⟨ha1, ha2, _⟩ := ha
    have ⟨hb1, hb2, _⟩ := hb
    simp only [out, dite_eq_ite]
    simp only [x2] at h1 h2
    refine sep_ite_append (fun hc => ⟨?_, hc, ih.mono ?_⟩) (fun _ => ih.mono ?_) <;>
      (try simp only [x1, x2] at *) <;> omega
  | case5 a as b bs x1 x2 out h1 h2 ih =>
    have ih := ih _ _ ha hb.2.2
    have ⟨ha1, ha2, _⟩ := ha
    have ⟨hb1, hb2, _⟩ := hb
    simp only [out, dite_eq_ite]
    simp only [x2] at h1 h2
    refine sep_ite_append (fun hc => ⟨?_, hc, ih.mono ?_⟩) (fun _ => ih.mono ?_) <;>
      (try simp only [x1, x2] at *) <;> omega
  | case6 a as b bs x1 x2 out h1 h2 ih =>
    exfalso; simp only [x2] at h1 h2; omega

theorem allY_ite (c : Prop) [Decidable c] (y1 y2 x1 x2 : Int) :
    AllY y1 y2 (if c then [Box.mk x1 y1 x2 y2] else []) := by
  split <;> simp [AllY]

theorem interO_allY (y1 y2 : Int) (a b : List Box) : AllY y1 y2 (interO y1 y2 a b) := by
  fun_induction interO y1 y2 a b with
  | case1 => exact allY_nil _ _
  | case2 => exact allY_nil _ _
  | case3 a as b bs x1 x2 out h1 h2 ih => exact allY_append.2 ⟨by simp only [out, dite_eq_ite]; exact allY_ite _ _ _ _ _, ih⟩
  | case4 a as b bs x1 x2 out h1 h2 ih => exact allY_append.2 ⟨by simp only [out, dite_eq_ite]; exact allY_ite _ _ _ _ _, ih⟩
  | case5 a as b bs x1 x2 out h1 h2 ih => exact allY_append.2 ⟨by simp only [out, dite_eq_ite]; exact allY_ite _ _ _ _ _, ih⟩
  | case6 a as b bs x1 x2 out h1 h2 ih => exact allY_append.2 ⟨by simp only [out, dite_eq_ite]; exact allY_ite _ _ _ _ _, ih⟩


/-! ### union_o (MERGERECT) -/

theorem ite_lt_eq_max (a b : Int) : (if a < b then b else a) = max a b := by
  split <;> omega

theorem Sep.cons_of_lt {v w : Int} {b : Box} {bs : List Box} (h : Sep v (b :: bs)) (hw : w < b.x1) :
    Sep w (b :: bs) := ⟨hw, h.2.1, h.2.2⟩

theorem mergeAll_inSpans (y1 y2 cx1 cx2 : Int) (as bs : List Box) (hc : cx1 < cx2)
    (ha : Sep (cx1 - 1) as) (hb : Sep (cx1 - 1) bs) (x : Int) :
    InSpans (mergeAll y1 y2 cx1 cx2 as bs) x ↔
      (cx1 ≤ x ∧ x < cx2) ∨ InSpans as x ∨ InSpans bs x := by
  fun_induction mergeAll y1 y2 cx1 cx2 as bs with
  | case1 => simp [inSpans_cons', inSpans_nil']
  | case2 cx1 cx2 a as h ih =>
    have ⟨ha1, ha2, ha3⟩ := ha
    simp only [dite_eq_ite, ite_lt_eq_max] at ih ⊢
    rw [ih (by omega) (ha3.mono (by omega)) trivial]
    simp only [inSpans_cons', inSpans_nil']
    by_cases hA' : InSpans as x <;> simp only [hA', or_true, true_or, or_false, false_or] <;> omega
  | case3 cx1 cx2 a as h ih =>
    have ⟨ha1, ha2, ha3⟩ := ha
    simp only [inSpans_cons', inSpans_nil', ih ha2 (ha3.mono (by omega)) trivial]
    by_cases hA' : InSpans as x <;> simp only [hA', or_true, true_or, or_false, false_or]
  | case4 cx1 cx2 b bs h ih =>
    have ⟨hb1, hb2, hb3⟩ := hb
    simp only [dite_eq_ite, ite_lt_eq_max] at ih ⊢
    rw [ih (by omega) trivial (hb3.mono (by omega))]
    simp only [inSpans_cons', inSpans_nil']
    by_cases hB' : InSpans bs x <;> simp only [hB', or_true, true_or, or_false, false_or] <;> omega
  | case5 cx1 cx2 b bs h ih =>
    have ⟨hb1, hb2, hb3⟩ := hb
    simp only [inSpans_cons', inSpans_nil', ih hb2 trivial (hb3.mono (by omega))]
    by_cases hB' : InSpans bs x <;> simp only [hB', or_true, true_or, or_false, false_or]
  | case6 cx1 cx2 a as b bs h1 h2 ih =>
    have ⟨ha1, ha2, ha3⟩ := ha
    simp only [dite_eq_ite, ite_lt_eq_max] at ih ⊢
    rw [ih (by omega) (ha3.mono (by omega)) hb]
    simp only [inSpans_cons']
    by_cases hA' : InSpans as x <;> by_cases hB' : InSpans bs x <;>
      simp only [hA', hB', or_true, true_or, or_false, false_or] <;> omega
  | case7 cx1 cx2 a as b bs h1 h2 ih =>
    have ⟨ha1, ha2, ha3⟩ := ha
    simp only [inSpans_cons', ih ha2 (ha3.mono (by omega)) (hb.cons_of_lt (by omega))]
    by_cases hA' : InSpans as x <;> by_cases hB' : InSpans bs x <;>
      simp only [hA', hB', or_true, true_or, or_false, false_or] <;> omega
  | case8 cx1 cx2 a as b bs h1 h2 ih =>
    have ⟨hb1, hb2, hb3⟩ := hb
    simp only [dite_eq_ite, ite_lt_eq_max] at ih ⊢
    rw [ih (by omega) ha (hb3.mono (by omega))]
    simp only [inSpans_cons']
    by_cases hA' : InSpans as x <;> by_cases hB' : InSpans bs x <;>
      simp only [hA', hB', or_true, true_or, or_false, false_or] <;> omega
  | case9 cx1 cx2 a as b bs h1 h2 ih =>
    have ⟨hb1, hb2, hb3⟩ := hb
    simp only [inSpans_cons', ih hb2 (ha.cons_of_lt (by omega)) (hb3.mono (by omega))]
    by_cases hA' : InSpans as x <;> by_cases hB' : InSpans bs x <;>
      simp only [hA', hB', or_true, true_or, or_false, false_or] <;> omega


theorem mergeAll_sep (y1 y2 cx1 cx2 : Int) (as bs : List Box) (v : Int) (hv : v < cx1)
    (hc : cx1 < cx2) (ha : Sep (cx1 - 1) as) (hb : Sep (cx1 - 1) bs) :
    Sep v (mergeAll y1 y2 cx1 cx2 as bs) := by
  fun_induction mergeAll y1 y2 cx1 cx2 as bs generalizing v with
  | case1 => exact ⟨hv, hc, trivial⟩
  | case2 cx1 cx2 a as h ih =>
    have ⟨ha1, ha2, ha3⟩ := ha
    simp only [dite_eq_ite, ite_lt_eq_max] at ih ⊢
    exact ih v hv (by omega) (ha3.mono (by omega)) trivial
  | case3 cx1 cx2 a as h ih =>
    have ⟨ha1, ha2, ha3⟩ := ha
    exact ⟨hv, hc, ih cx2 (by omega) ha2 (ha3.mono (by omega)) trivial⟩
  | case4 cx1 cx2 b bs h ih =>
    have ⟨hb1, hb2, hb3⟩ := hb
    simp only [dite_eq_ite, ite_lt_eq_max] at ih ⊢
    exact ih v hv (by omega) trivial (hb3.mono (by omega))
  | case5 cx1 cx2 b bs h ih =>
    have ⟨hb1, hb2, hb3⟩ := hb
    exact ⟨hv, hc, ih cx2 (by omega) hb2 trivial (hb3.mono (by omega))⟩
  | case6 cx1 cx2 a as b bs h1 h2 ih =>
    have ⟨ha1, ha2, ha3⟩ := ha
    simp only [dite_eq_ite, ite_lt_eq_max] at ih ⊢
    exact ih v hv (by omega) (ha3.mono (by omega)) hb
  | case7 cx1 cx2 a as b bs h1 h2 ih =>
    have ⟨ha1, ha2, ha3⟩ := ha
    exact ⟨hv, hc, ih cx2 (by omega) ha2 (ha3.mono (by omega)) (hb.cons_of_lt (by omega))⟩
  | case8 cx1 cx2 a as b bs h1 h2 ih =>
    have ⟨hb1, hb2, hb3⟩ := hb
    simp only [dite_eq_ite, ite_lt_eq_max] at ih ⊢
    exact ih v hv (by omega) ha (hb3.mono (by omega))
  | case9 cx1 cx2 a as b bs h1 h2 ih =>
    have ⟨hb1, hb2, hb3⟩ := hb
    exact ⟨hv, hc, ih cx2 (by omega) hb2 (ha.cons_of_lt (by omega)) (hb3.mono (by omega))⟩

theorem mergeAll_allY (y1 y2 cx1 cx2 : Int) (as bs : List Box) :
    AllY y1 y2 (mergeAll y1 y2 cx1 cx2 as bs) := by
  fun_induction mergeAll y1 y2 cx1 cx2 as bs <;>
    first
      | assumption
      | exact allY_cons.2 ⟨⟨rfl, rfl⟩, by first | assumption | exact allY_nil _ _⟩

theorem mergeAll_ne_nil (y1 y2 cx1 cx2 : Int) (as bs : List Box) :
    mergeAll y1 y2 cx1 cx2 as bs ≠ [] := by
  fun_induction mergeAll y1 y2 cx1 cx2 as bs <;> first | assumption | exact List.cons_ne_nil _ _

theorem unionO_inSpans (y1 y2 : Int) (a b : List Box) (ha : SpansSep a) (hb : SpansSep b)
    (hna : a ≠ []) (hnb : b ≠ []) (x : Int) :
    InSpans (unionO y1 y2 a b) x ↔ InSpans a x ∨ InSpans b x := by
  cases a with
  | nil => exact absurd rfl hna
  | cons a as =>
  cases b with
  | nil => exact absurd rfl hnb
  | cons b bs =>
  have ⟨ha2, ha3⟩ := (spansSep_cons' _ _).1 ha
  have ⟨hb2, hb3⟩ := (spansSep_cons' _ _).1 hb
  simp only [unionO]
  split
  · rw [mergeAll_inSpans y1 y2 a.x1 a.x2 as (b :: bs) ha2 (ha3.mono (by omega)) ⟨by omega, hb2, hb3⟩]
    simp only [inSpans_cons', or_assoc]
  · rw [mergeAll_inSpans y1 y2 b.x1 b.x2 (a :: as) bs hb2 ⟨by omega, ha2, ha3⟩ (hb3.mono (by omega))]
    simp only [inSpans_cons']
    by_cases hA' : InSpans as x <;> by_cases hB' : InSpans bs x <;>
      simp only [hA', hB', or_true, true_or, or_false, false_or] <;> omega

theorem unionO_sep (y1 y2 : Int) (a b : List Box) (v : Int) (ha : Sep v a) (hb : Sep v b)
    (hna : a ≠ []) (hnb : b ≠ []) : Sep v (unionO y1 y2 a b) := by
  cases a with
  | nil => exact absurd rfl hna
  | cons a as =>
  cases b with
  | nil => exact absurd rfl hnb
  | cons b bs =>
  have ⟨ha1, ha2, ha3⟩ := ha
  have ⟨hb1, hb2, hb3⟩ := hb
  simp only [unionO]
  split
  · exact mergeAll_sep y1 y2 a.x1 a.x2 as (b :: bs) v ha1 ha2 (ha3.mono (by omega)) ⟨by omega, hb2, hb3⟩
  · exact mergeAll_sep y1 y2 b.x1 b.x2 (a :: as) bs v hb1 hb2 ⟨by omega, ha2, ha3⟩ (hb3.mono (by omega))

theorem unionO_allY (y1 y2 : Int) (a b : List Box) : AllY y1 y2 (unionO y1 y2 a b) := by
  unfold unionO
  split
  · split <;> exact mergeAll_allY _ _ _ _ _ _
  · exact allY_nil _ _

theorem unionO_ne_nil (y1 y2 : Int) (a b : List Box) (hna : a ≠ []) (hnb : b ≠ []) :
    unionO y1 y2 a b ≠ [] := by
  cases a with
  | nil => exact absurd rfl hna
  | cons a as =>
  cases b with
  | nil => exact absurd rfl hnb
  | cons b bs =>
  simp only [unionO]
  split <;> exact mergeAll_ne_nil _ _ _ _ _ _


/-! ### subtract_o -/

/-- precondition on the minuend seen through the fence `x1` -/
def SubPre (x1 : Int) : List Box → Prop
  | [] => True
  | a :: as => x1 < a.x2 ∧ Sep a.x2 as

/-- the points of the minuend to the right of the fence `x1` -/
def SubSem (x1 : Int) (l : List Box) (x : Int) : Prop :=
  match l with
  | [] => False
  | a :: as => (x1 ≤ x ∧ x < a.x2) ∨ InSpans as x

theorem subO_inSpans (y1 y2 x1 : Int) (l bs : List Box) (w : Int) (hl : SubPre x1 l)
    (hb : Sep w bs) (x : Int) :
    InSpans (subO y1 y2 x1 l bs) x ↔ SubSem x1 l x ∧ ¬ InSpans bs x := by
  fun_induction subO y1 y2 x1 l bs generalizing w with
  | case1 => simp [inSpans_nil', SubSem]
  | case2 x1 a as ih =>
    cases as with
    | nil => simp only [inSpans_cons', inSpans_nil', SubSem, not_false_eq_true, and_true]
    | cons c t =>
      have ⟨h1, h2, h3, h4⟩ := hl
      have ih := ih w ⟨h3, h4⟩ trivial
      simp only [inSpans_cons', inSpans_nil', SubSem, not_false_eq_true, and_true] at ih ⊢
      rw [ih]
  | case3 x1 a as b bs h ih =>
    have ⟨hb1, hb2, hb3⟩ := hb
    have hB := fun h => Sep.lt_of_inSpans hb3 (x := x) h
    have hA := fun h => Sep.lt_of_inSpans hl.2 (x := x) h
    have hl1 := hl.1
    rw [ih _ hl hb3]
    simp only [SubSem, inSpans_cons']
    grind
  | case4 x1 a b bs h1 h2 x1' h3 =>
    have ⟨hb1, hb2, hb3⟩ := hb
    have hB := fun h => Sep.lt_of_inSpans hb3 (x := x) h
    have hl1 := hl.1
    simp only [SubSem, inSpans_cons', inSpans_nil', x1'] at *
    grind
  | case5 x1 a b bs h1 h2 x1' h3 c t ih =>
    have ⟨hb1, hb2, hb3⟩ := hb
    have hB := fun h => Sep.lt_of_inSpans hb3 (x := x) h
    have ⟨hl1, hl2, hl3, hl4⟩ := hl
    have hA := fun h => Sep.lt_of_inSpans hl4 (x := x) h
    rw [ih _ ⟨hl3, hl4⟩ hb]
    simp only [SubSem, inSpans_cons', inSpans_nil', x1'] at *
    grind
  | case6 x1 a as b bs h1 h2 x1' h3 ih =>
    have ⟨hb1, hb2, hb3⟩ := hb
    have hB := fun h => Sep.lt_of_inSpans hb3 (x := x) h
    have hA := fun h => Sep.lt_of_inSpans hl.2 (x := x) h
    have hl1 := hl.1
    simp only [x1'] at *
    rw [ih _ ⟨by omega, hl.2⟩ hb3]
    simp only [SubSem, inSpans_cons']
    grind
  | case7 x1 a b bs h1 h2 h3 r x1' h4 =>
    have ⟨hb1, hb2, hb3⟩ := hb
    have hB := fun h => Sep.lt_of_inSpans hb3 (x := x) h
    have hl1 := hl.1
    simp only [SubSem, inSpans_cons', inSpans_nil', x1', r] at *
    grind
  | case8 x1 a b bs h1 h2 h3 r x1' h4 c t ih =>
    have ⟨hb1, hb2, hb3⟩ := hb
    have hB := fun h => Sep.lt_of_inSpans hb3 (x := x) h
    have ⟨hl1, hl2, hl3, hl4⟩ := hl
    have hA := fun h => Sep.lt_of_inSpans hl4 (x := x) h
    simp only [inSpans_cons']
    rw [ih _ ⟨hl3, hl4⟩ hb]
    simp only [SubSem, inSpans_cons', inSpans_nil', x1', r] at *
    grind
  | case9 x1 a as b bs h1 h2 h3 r x1' h4 ih =>
    have ⟨hb1, hb2, hb3⟩ := hb
    have hB := fun h => Sep.lt_of_inSpans hb3 (x := x) h
    have hA := fun h => Sep.lt_of_inSpans hl.2 (x := x) h
    have hl1 := hl.1
    simp only [x1'] at *
    simp only [inSpans_cons']
    rw [ih _ ⟨by omega, hl.2⟩ hb3]
    simp only [SubSem, inSpans_cons', r]
    grind
  | case10 x1 a b bs h1 h2 h3 pre =>
    have ⟨hb1, hb2, hb3⟩ := hb
    have hB := fun h => Sep.lt_of_inSpans hb3 (x := x) h
    have hl1 := hl.1
    simp only [SubSem, inSpans_cons', inSpans_nil', pre, dite_eq_ite, inSpans_ite] at *
    grind
  | case11 x1 a b bs h1 h2 h3 pre c t ih =>
    have ⟨hb1, hb2, hb3⟩ := hb
    have hB := fun h => Sep.lt_of_inSpans hb3 (x := x) h
    have ⟨hl1, hl2, hl3, hl4⟩ := hl
    have hA := fun h => Sep.lt_of_inSpans hl4 (x := x) h
    simp only [inSpans_append, pre, dite_eq_ite, inSpans_ite]
    rw [ih _ ⟨hl3, hl4⟩ hb]
    simp only [SubSem, inSpans_cons', inSpans_nil', pre, dite_eq_ite, inSpans_ite] at *
    grind



theorem subO_sep (y1 y2 x1 : Int) (l bs : List Box) (v w : Int) (hv : v < x1) (hl : SubPre x1 l)
    (hb : Sep w bs) : Sep v (subO y1 y2 x1 l bs) := by
  fun_induction subO y1 y2 x1 l bs generalizing v w with
  | case1 => trivial
  | case2 x1 a as ih =>
    cases as with
    | nil => exact ⟨hv, hl.1, trivial⟩
    | cons c t =>
      have ⟨h1, h2, h3, h4⟩ := hl
      exact ⟨hv, h1, ih a.x2 w h2 ⟨h3, h4⟩ trivial⟩
  | case3 x1 a as b bs h ih => exact ih v _ hv hl hb.2.2
  | case4 => trivial
  | case5 x1 a b bs h1 h2 x1' h3 c t ih =>
    have ⟨hl1, hl2, hl3, hl4⟩ := hl
    exact ih v w (by omega) ⟨hl3, hl4⟩ hb
  | case6 x1 a as b bs h1 h2 x1' h3 ih =>
    simp only [x1'] at *
    exact ih v _ (by omega) ⟨by omega, hl.2⟩ hb.2.2
  | case7 x1 a b bs h1 h2 h3 r x1' h4 => exact ⟨hv, by simp only [r]; omega, trivial⟩
  | case8 x1 a b bs h1 h2 h3 r x1' h4 c t ih =>
    have ⟨hl1, hl2, hl3, hl4⟩ := hl
    exact ⟨hv, by simp only [r]; omega, ih _ w (by simp only [r]; omega) ⟨hl3, hl4⟩ hb⟩
  | case9 x1 a as b bs h1 h2 h3 r x1' h4 ih =>
    have ⟨hb1, hb2, hb3⟩ := hb
    simp only [x1'] at *
    exact ⟨hv, by simp only [r]; omega, ih _ _ (by simp only [r]; omega) ⟨by omega, hl.2⟩ hb3⟩
  | case10 x1 a b bs h1 h2 h3 pre =>
    simp only [pre, dite_eq_ite]
    split
    · exact ⟨hv, hl.1, trivial⟩
    · trivial
  | case11 x1 a b bs h1 h2 h3 pre c t ih =>
    have ⟨hl1, hl2, hl3, hl4⟩ := hl
    simp only [pre, dite_eq_ite]
    exact sep_ite_append (fun _ => ⟨hv, hl1, ih _ w hl2 ⟨hl3, hl4⟩ hb⟩)
      (fun _ => ih _ w (by omega) ⟨hl3, hl4⟩ hb)

theorem subO_allY (y1 y2 x1 : Int) (l bs : List Box) : AllY y1 y2 (subO y1 y2 x1 l bs) := by
  fun_induction subO y1 y2 x1 l bs with
  | case1 => exact allY_nil _ _
  | case2 x1 a as ih =>
    cases as with
    | nil => exact allY_cons.2 ⟨⟨rfl, rfl⟩, allY_nil _ _⟩
    | cons c t => exact allY_cons.2 ⟨⟨rfl, rfl⟩, ih⟩
  | case3 x1 a as b bs h ih => exact ih
  | case4 => exact allY_nil _ _
  | case5 x1 a b bs h1 h2 x1' h3 c t ih => exact ih
  | case6 x1 a as b bs h1 h2 x1' h3 ih => exact ih
  | case7 x1 a b bs h1 h2 h3 r x1' h4 => exact allY_cons.2 ⟨⟨rfl, rfl⟩, allY_nil _ _⟩
  | case8 x1 a b bs h1 h2 h3 r x1' h4 c t ih => exact allY_cons.2 ⟨⟨rfl, rfl⟩, ih⟩
  | case9 x1 a as b bs h1 h2 h3 r x1' h4 ih => exact allY_cons.2 ⟨⟨rfl, rfl⟩, ih⟩
  | case10 x1 a b bs h1 h2 h3 pre => simp only [pre, dite_eq_ite]; exact allY_ite _ _ _ _ _
  | case11 x1 a b bs h1 h2 h3 pre c t ih =>
    simp only [pre, dite_eq_ite]; exact allY_append.2 ⟨allY_ite _ _ _ _ _, ih⟩

/-! ### the three overlap procedures behind `overlapO` -/

/-- point-set meaning of the three operations -/
def OpKind.sem : OpKind → Prop → Prop → Prop
  | .inter, p, q => p ∧ q
  | .union, p, q => p ∨ q
  | .sub, p, q => p ∧ ¬ q

theorem overlapO_inSpans (k : OpKind) (y1 y2 : Int) (a b : List Box) (ha : SpansSep a)
    (hb : SpansSep b) (hna : a ≠ []) (hnb : b ≠ []) (x : Int) :
    InSpans (overlapO k y1 y2 a b) x ↔ k.sem (InSpans a x) (InSpans b x) := by
  obtain ⟨v, hv⟩ := (spansSep_iff a).1 ha
  obtain ⟨w, hw⟩ := (spansSep_iff b).1 hb
  cases k with
  | inter => exact interO_inSpans y1 y2 a b v w hv hw x
  | union => exact unionO_inSpans y1 y2 a b ha hb hna hnb x
  | sub =>
    cases a with
    | nil => exact absurd rfl hna
    | cons a0 as =>
      have ⟨h1, h2⟩ := (spansSep_cons' _ _).1 ha
      simp only [overlapO, OpKind.sem]
      rw [subO_inSpans y1 y2 a0.x1 (a0 :: as) b w ⟨h1, h2⟩ hw x]
      simp only [SubSem, inSpans_cons']

theorem overlapO_sep (k : OpKind) (y1 y2 : Int) (a b : List Box) (ha : SpansSep a)
    (hb : SpansSep b) (hna : a ≠ []) (hnb : b ≠ []) : SpansSep (overlapO k y1 y2 a b) := by
  obtain ⟨v, hv⟩ := (spansSep_iff a).1 ha
  obtain ⟨w, hw⟩ := (spansSep_iff b).1 hb
  cases k with
  | inter => exact (interO_sep y1 y2 a b v w hv hw).spansSep
  | union =>
    exact (unionO_sep y1 y2 a b (min v w) (hv.mono (by omega)) (hw.mono (by omega)) hna hnb).spansSep
  | sub =>
    cases a with
    | nil => exact absurd rfl hna
    | cons a0 as =>
      have ⟨h1, h2⟩ := (spansSep_cons' _ _).1 ha
      exact (subO_sep y1 y2 a0.x1 (a0 :: as) b (a0.x1 - 1) w (by omega) ⟨h1, h2⟩ hw).spansSep

theorem overlapO_allY (k : OpKind) (y1 y2 : Int) (a b : List Box) :
    AllY y1 y2 (overlapO k y1 y2 a b) := by
  cases k with
  | inter => exact interO_allY y1 y2 a b
  | union => exact unionO_allY y1 y2 a b
  | sub =>
    cases a with
    | nil => exact allY_nil _ _
    | cons a0 as => exact subO_allY y1 y2 a0.x1 (a0 :: as) b

end Pixman.Region

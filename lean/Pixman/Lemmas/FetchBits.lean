import Pixman.Model.Fetch
/-! Bit-level facts for C08: byte masks as div/mod, disjoint `|||` as `+`, a8r8g8b8 words. -/
namespace Pixman.Lemmas.FetchBits

/-- four 8-bit channels of an a8r8g8b8 word -/
def pack4 (a r g b : Nat) : Nat := a * 16777216 + r * 65536 + g * 256 + b

theorem and_255 (x : Nat) : x &&& 255 = x % 256 := Nat.and_two_pow_sub_one_eq_mod x 8

/-- a byte mask at bit `k` -/
theorem and_byte_at (x k : Nat) : x &&& (255 * 2 ^ k) = (x / 2 ^ k % 256) * 2 ^ k := by
  have hpos : 0 < 2 ^ k := Nat.two_pow_pos _
  have hd : (x &&& (255 * 2 ^ k)) / 2 ^ k = x / 2 ^ k % 256 := by
    rw [Nat.and_div_two_pow, Nat.mul_div_cancel _ hpos, and_255]
  have hm : (x &&& (255 * 2 ^ k)) % 2 ^ k = 0 := by
    rw [Nat.and_mod_two_pow, Nat.mul_mod_left, Nat.and_zero]
  have := Nat.div_add_mod (x &&& (255 * 2 ^ k)) (2 ^ k)
  rw [hd, hm, Nat.mul_comm] at this
  omega

/-- `|||` of a multiple of `2^k` and something below `2^k` is `+` -/
theorem or_disjoint (a b k : Nat) (hb : b < 2 ^ k) : a * 2 ^ k ||| b = a * 2 ^ k + b := by
  have := Nat.two_pow_add_eq_or_of_lt hb a
  rw [Nat.mul_comm]; exact this.symm

/-- two byte masks, `j` above `k` -/
theorem and_two_bytes (x j k : Nat) (h : k + 8 ≤ j) :
    x &&& (255 * 2 ^ j ||| 255 * 2 ^ k) = (x / 2 ^ j % 256) * 2 ^ j + (x / 2 ^ k % 256) * 2 ^ k := by
  rw [Nat.and_or_distrib_left, and_byte_at, and_byte_at]
  apply or_disjoint
  have h1 : x / 2 ^ k % 256 < 2 ^ 8 := by
    have : x / 2 ^ k % 256 < 256 := Nat.mod_lt _ (by omega)
    simpa using this
  calc x / 2 ^ k % 256 * 2 ^ k < 2 ^ 8 * 2 ^ k := Nat.mul_lt_mul_of_pos_right h1 (Nat.two_pow_pos _)
    _ = 2 ^ (8 + k) := (Nat.pow_add 2 8 k).symm
    _ ≤ 2 ^ j := Nat.pow_le_pow_right (by omega) (by omega)

theorem and_ff0000ff (x : Nat) : x &&& 0xff0000ff = (x / 16777216 % 256) * 16777216 + x % 256 := by
  have := and_two_bytes x 24 0 (by omega)
  simpa using this

theorem and_ff00 (x : Nat) : x &&& 0xff00 = (x / 256 % 256) * 256 := by
  have := and_byte_at x 8
  simpa using this

theorem and_ff000000 (x : Nat) : x &&& 0xff000000 = (x / 16777216 % 256) * 16777216 := by
  have := and_byte_at x 24
  simpa using this

theorem and_ff_at32 (x : Nat) : x &&& 0x000000ff00000000 = (x / 4294967296 % 256) * 4294967296 := by
  have := and_byte_at x 32
  simpa using this

theorem and_ff_at40_16 (x : Nat) :
    x &&& 0x0000ff0000ff0000 = (x / 1099511627776 % 256) * 1099511627776 + (x / 65536 % 256) * 65536 := by
  have := and_two_bytes x 40 16 (by omega)
  simpa using this

/-- an a8r8g8b8 word is its four channels -/
theorem word_eq_pack4 (p : Nat) (_hp : p < 4294967296) :
    p = pack4 (p / 16777216) (p / 65536 % 256) (p / 256 % 256) (p % 256) := by
  unfold pack4; omega

end Pixman.Lemmas.FetchBits

import Pixman.Lemmas.Lifetime
/-! The reference-counting invariant of the lifetime model and its preservation by the
    elementary heap changes (`dec`, `releaseH`, record-local updates). -/
namespace Pixman.Model.Lifetime

/-- `p` is a live image whose alpha map is `m` (the edge out of `x`, if given, is ignored:
    inside `pixman_image_set_alpha_map` the field of the image being changed is stale) -/
def edgeB (h : Heap) (x : Option Nat) (m p : Nat) : Bool :=
  decide (some p ≠ x) && decide ((h.img p).freed = 0) && decide ((h.img p).alphaMap = some m)

/-- number of live images whose alpha map is `m` -/
def parentsX (h : Heap) (x : Option Nat) (m : Nat) : Nat := (List.range h.nimg).countP (edgeB h x m)

/-- number of glyph-cache entries whose private image is `g` -/
def hold (h : Heap) (g : Nat) : Nat :=
  match h.cache with
  | some c => c.entries.countP (fun e => e.image == g)
  | none => 0

theorem countP_range_congr (P Q : Nat → Bool) (n : Nat) (hagree : ∀ j, j < n → P j = Q j) :
    (List.range n).countP P = (List.range n).countP Q := by
  induction n with
  | zero => rfl
  | succ n ih =>
    rw [List.range_succ, List.countP_append, List.countP_append, ih (fun j hj => hagree j (by omega))]
    simp only [List.countP_singleton, hagree n (by omega)]

theorem countP_range_diff (P Q : Nat → Bool) (n q : Nat) (hq : q < n)
    (hagree : ∀ j, j < n → j ≠ q → P j = Q j) :
    (List.range n).countP P + (Q q).toNat = (List.range n).countP Q + (P q).toNat := by
  induction n with
  | zero => omega
  | succ n ih =>
    rw [List.range_succ, List.countP_append, List.countP_append]
    simp only [List.countP_singleton]
    by_cases hqn : q = n
    · subst hqn
      rw [countP_range_congr P Q q (fun j hj => hagree j (by omega) (by omega))]
      cases P q <;> cases Q q <;> simp
    · have := ih (by omega) (fun j hj hne => hagree j (by omega) hne)
      rw [hagree n (by omega) (fun e => hqn e.symm)]
      omega

theorem countP_range_false (P : Nat → Bool) (n : Nat) (hP : ∀ j, j < n → P j = false) :
    (List.range n).countP P = 0 := by
  rw [countP_range_congr P (fun _ => false) n hP]; simp

/-- The structural invariant.  `pend i` references to `i` are in flight (already given up by their
    holder, `pixman_image_unref` not yet run); `x` is the image whose alpha-map field is stale. -/
structure InvA (h : Heap) (pend : Nat → Nat) (x : Option Nat) : Prop where
  uaf : h.uaf = 0
  stuck : h.stuck = 0
  unborn : ∀ i, h.nimg ≤ i → h.ext i = 0 ∧ pend i = 0
  state : ∀ i, i < h.nimg → ((h.img i).freed = 0 ∧ 1 ≤ (h.img i).refCount) ∨
                            ((h.img i).freed = 1 ∧ (h.img i).refCount = 0)
  count : ∀ i, i < h.nimg → (h.img i).freed = 0 →
            (h.img i).refCount = (h.ext i : Int) + parentsX h x i + hold h i + pend i
  dead : ∀ i, i < h.nimg → (h.img i).freed ≠ 0 → h.ext i = 0 ∧ hold h i = 0 ∧ pend i = 0
  edge : ∀ p m, p < h.nimg → (h.img p).freed = 0 → some p ≠ x → (h.img p).alphaMap = some m →
            m < h.nimg ∧ (h.img m).freed = 0 ∧ (h.img m).alphaMap = none ∧ (h.img m).kind = .bits
  acount : ∀ i, i < h.nimg → (h.img i).freed = 0 → (parentsX h x i : Int) ≤ (h.img i).alphaCount
  centries : ∀ c, h.cache = some c → ∀ g, g ∈ c.entries → g.image < h.nimg ∧ h.ext g.image = 0
  fired : ∀ i, (h.fired.map Prod.fst).count i =
            if i < h.nimg ∧ (h.img i).freed ≠ 0 ∧ (h.img i).destroyFunc = true then 1 else 0

/-- heaps that differ only in fields the structural invariant does not read -/
theorem InvA.local {h h' : Heap} {pend : Nat → Nat} {x : Option Nat} (hI : InvA h pend x)
    (e1 : h'.nimg = h.nimg) (e2 : h'.ext = h.ext) (e3 : h'.fired = h.fired) (e4 : h'.uaf = h.uaf)
    (e5 : h'.stuck = h.stuck) (e6 : h'.cache = h.cache)
    (himg : ∀ j, (h'.img j).freed = (h.img j).freed ∧ (h'.img j).refCount = (h.img j).refCount ∧
        (h'.img j).alphaMap = (h.img j).alphaMap ∧ (h'.img j).alphaCount = (h.img j).alphaCount ∧
        (h'.img j).kind = (h.img j).kind ∧
        ((h'.img j).destroyFunc = (h.img j).destroyFunc ∨ (h.img j).freed = 0)) :
    InvA h' pend x := by
  have hpar : ∀ m, parentsX h' x m = parentsX h x m := by
    intro m; unfold parentsX; rw [e1]
    apply countP_range_congr; intro j _
    simp only [edgeB, (himg j).1, (himg j).2.2.1]
  have hhold : ∀ g, hold h' g = hold h g := by intro g; simp only [hold, e6]
  constructor
  · rw [e4]; exact hI.uaf
  · rw [e5]; exact hI.stuck
  · intro i hi; rw [e2]; exact hI.unborn i (e1 ▸ hi)
  · intro i hi; rw [(himg i).1, (himg i).2.1]; exact hI.state i (e1 ▸ hi)
  · intro i hi hf; rw [(himg i).2.1, e2, hpar, hhold]; exact hI.count i (e1 ▸ hi) ((himg i).1 ▸ hf)
  · intro i hi hf; rw [e2, hhold]; exact hI.dead i (e1 ▸ hi) ((himg i).1 ▸ hf)
  · intro p m hp hf hx ha
    rw [(himg m).1, (himg m).2.2.1, (himg m).2.2.2.2.1, e1]
    exact hI.edge p m (e1 ▸ hp) ((himg p).1 ▸ hf) hx ((himg p).2.2.1 ▸ ha)
  · intro i hi hf; rw [hpar, (himg i).2.2.2.1]; exact hI.acount i (e1 ▸ hi) ((himg i).1 ▸ hf)
  · intro c hc g hg; rw [e1, e2]; exact hI.centries c (e6 ▸ hc) g hg
  · intro i
    rw [e3, hI.fired i, e1, (himg i).1]
    rcases (himg i).2.2.2.2.2 with hd | hz
    · rw [hd]
    · simp [hz]

/-- a record-local update of one image -/
theorem InvA.modify_local {h : Heap} {pend : Nat → Nat} {x : Option Nat} (hI : InvA h pend x)
    (i : Nat) (f : Image → Image)
    (hf : ∀ im, (f im).freed = im.freed ∧ (f im).refCount = im.refCount ∧ (f im).alphaMap = im.alphaMap ∧
        (f im).alphaCount = im.alphaCount ∧ (f im).kind = im.kind)
    (hd : (∀ im, (f im).destroyFunc = im.destroyFunc) ∨ (h.img i).freed = 0) :
    InvA (h.modify i f) pend x := by
  apply hI.local <;> try rfl
  intro j
  by_cases hj : j = i
  · subst hj
    simp only [modify_img_same]
    refine ⟨(hf _).1, (hf _).2.1, (hf _).2.2.1, (hf _).2.2.2.1, (hf _).2.2.2.2, ?_⟩
    rcases hd with hd | hd
    · exact Or.inl (hd _)
    · exact Or.inr hd
  · simp [hj]

theorem InvA.congr_pend {h : Heap} {pend pend' : Nat → Nat} {x : Option Nat} (hI : InvA h pend x)
    (hp : ∀ j, pend' j = pend j) : InvA h pend' x := by
  have : pend' = pend := funext hp
  subst this; exact hI

theorem InvA.live_of_pend {h : Heap} {pend : Nat → Nat} {x : Option Nat} (hI : InvA h pend x)
    {m : Nat} (hp : 1 ≤ pend m) : m < h.nimg ∧ (h.img m).freed = 0 := by
  have hm : m < h.nimg := by
    by_cases hm : m < h.nimg
    · exact hm
    · have := (hI.unborn m (by omega)).2; omega
  refine ⟨hm, ?_⟩
  by_cases hf : (h.img m).freed = 0
  · exact hf
  · have := (hI.dead m hm hf).2.2; omega

theorem parentsX_pos {h : Heap} {x : Option Nat} {p m : Nat} (hp : p < h.nimg)
    (hf : (h.img p).freed = 0) (hx : some p ≠ x) (ha : (h.img p).alphaMap = some m) :
    1 ≤ parentsX h x m := by
  unfold parentsX
  apply List.countP_pos_iff.2
  exact ⟨p, List.mem_range.2 hp, by simp [edgeB, hf, hx, ha]⟩

/-- one in-flight reference to `m` is dropped and others remain -/
theorem InvA.dec {h : Heap} {pend pend' : Nat → Nat} {x : Option Nat} (hI : InvA h pend x) {m : Nat}
    (hp : 1 ≤ pend m) (hr : (h.img m).refCount ≠ 1)
    (hpend : ∀ j, pend' j = if j = m then pend j - 1 else pend j) :
    InvA (h.modify m Image.dec) pend' x := by
  obtain ⟨hm, hf⟩ := hI.live_of_pend hp
  have hpar : ∀ t, parentsX (h.modify m Image.dec) x t = parentsX h x t := by
    intro t; unfold parentsX; simp only [modify_nimg]
    apply countP_range_congr; intro j _
    by_cases hj : j = m
    · subst hj; simp [edgeB]
    · simp [edgeB, hj]
  have hhold : ∀ g, hold (h.modify m Image.dec) g = hold h g := fun g => rfl
  have hc := hI.count m hm hf
  constructor
  · exact hI.uaf
  · exact hI.stuck
  · intro i hi
    have := hI.unborn i hi
    have hne : i ≠ m := by simp only [modify_nimg] at hi; omega
    simp [hpend, hne, this]
  · intro i hi
    by_cases hj : i = m
    · subst hj; simp only [modify_img_same, dec_freed, dec_refCount]; left
      refine ⟨hf, ?_⟩
      have : (0:Int) ≤ (h.ext i : Int) + parentsX h x i + hold h i := by omega
      omega
    · simp only [modify_img_other _ _ _ _ hj]; exact hI.state i hi
  · intro i hi hfi
    rw [hpar, hhold]
    by_cases hj : i = m
    · subst hj; simp only [modify_img_same, dec_refCount, modify_ext, hpend, if_true]; omega
    · simp only [modify_img_other _ _ _ _ hj] at hfi ⊢
      simp only [modify_ext, hpend, if_neg hj]; exact hI.count i hi hfi
  · intro i hi hfi
    rw [hhold]
    by_cases hj : i = m
    · subst hj; simp only [modify_img_same, dec_freed] at hfi; exact absurd hf hfi
    · simp only [modify_img_other _ _ _ _ hj] at hfi
      simp only [modify_ext, hpend, if_neg hj]; exact hI.dead i hi hfi
  · intro p t hp' hfp hx ha
    have hfp' : (h.img p).freed = 0 := by
      by_cases hj : p = m
      · subst hj; exact hf
      · simpa [hj] using hfp
    have ha' : (h.img p).alphaMap = some t := by
      by_cases hj : p = m
      · subst hj; simpa using ha
      · simpa [hj] using ha
    have := hI.edge p t hp' hfp' hx ha'
    by_cases ht : t = m
    · subst ht; simpa using this
    · simpa [ht] using this
  · intro i hi hfi
    rw [hpar]
    by_cases hj : i = m
    · subst hj; simp only [modify_img_same, dec_alphaCount]; exact hI.acount i hi hf
    · simp only [modify_img_other _ _ _ _ hj] at hfi ⊢; exact hI.acount i hi hfi
  · exact hI.centries
  · intro i
    rw [modify_fired, hI.fired i]
    by_cases hj : i = m
    · subst hj; simp
    · simp [hj]

/-- the last reference to `m` is dropped: `m` is released and the reference it held on its alpha
    map is now in flight -/
theorem InvA.release {h : Heap} {pend pend' : Nat → Nat} {x : Option Nat} (hI : InvA h pend x) {m : Nat}
    (hp : 1 ≤ pend m) (hr : (h.img m).refCount = 1)
    (hx : some m ≠ x ∨ (h.img m).alphaMap = none)
    (hpend : ∀ j, pend' j = if j = m then 0 else if (h.img m).alphaMap = some j then pend j + 1 else pend j) :
    InvA (releaseH h m) pend' x := by
  obtain ⟨hm, hf⟩ := hI.live_of_pend hp
  have hc := hI.count m hm hf
  have hext : h.ext m = 0 := by omega
  have hpar0 : parentsX h x m = 0 := by omega
  have hhold0 : hold h m = 0 := by omega
  have hpm : pend m = 1 := by omega
  -- parents after the release
  have hpar : ∀ t, parentsX (releaseH h m) x t + (if some m ≠ x ∧ (h.img m).alphaMap = some t then 1 else 0)
                = parentsX h x t := by
    intro t; unfold parentsX; simp only [releaseH_nimg]
    have := countP_range_diff (edgeB (releaseH h m) x t) (edgeB h x t) h.nimg m hm
      (by intro j _ hj; simp [edgeB, hj])
    have e1 : edgeB (releaseH h m) x t m = false := by simp [edgeB]
    have e2 : edgeB h x t m = decide (some m ≠ x ∧ (h.img m).alphaMap = some t) := by
      simp [edgeB, hf]
    rw [e1, e2] at this
    by_cases hc : some m ≠ x ∧ (h.img m).alphaMap = some t
    · rw [if_pos hc]; rw [decide_eq_true hc] at this
      simp only [Bool.toNat_true, Bool.toNat_false] at this; omega
    · rw [if_neg hc]; rw [decide_eq_false hc] at this
      simp only [Bool.toNat_false] at this; omega
  have hparle : ∀ t, parentsX (releaseH h m) x t ≤ parentsX h x t := by intro t; have := hpar t; omega
  have hhold : ∀ g, hold (releaseH h m) g = hold h g := fun g => rfl
  -- nobody points to m
  have hnomap : ∀ p, p < h.nimg → (h.img p).freed = 0 → some p ≠ x → (h.img p).alphaMap ≠ some m := by
    intro p hp' hfp hxp ha
    have := parentsX_pos hp' hfp hxp ha; omega
  -- the alpha map of m, if any, is a live image other than m
  have hmap : ∀ a, (h.img m).alphaMap = some a → a < h.nimg ∧ (h.img a).freed = 0 ∧ a ≠ m ∧ some m ≠ x := by
    intro a ha
    have hx' : some m ≠ x := by
      rcases hx with hx | hx
      · exact hx
      · rw [hx] at ha; cases ha
    have := hI.edge m a hm hf hx' ha
    refine ⟨this.1, this.2.1, ?_, hx'⟩
    intro e; subst e; rw [this.2.2.1] at ha; cases ha
  constructor
  · exact hI.uaf
  · exact hI.stuck
  · intro i hi
    simp only [releaseH_nimg] at hi
    have := hI.unborn i hi
    have hne : i ≠ m := by omega
    have hna : (h.img m).alphaMap ≠ some i := by
      intro ha; have := (hmap i ha).1; omega
    simp [hpend, hne, hna, this]
  · intro i hi
    by_cases hj : i = m
    · subst hj; right; simp only [releaseH_img_same, fin_freed, fin_refCount]; omega
    · simp only [releaseH_img_other _ _ _ hj]; exact hI.state i hi
  · intro i hi hfi
    by_cases hj : i = m
    · subst hj; simp only [releaseH_img_same, fin_freed] at hfi; omega
    · simp only [releaseH_img_other _ _ _ hj] at hfi ⊢
      rw [hhold, releaseH_ext, hpend, if_neg hj]
      have h1 := hI.count i hi hfi
      have h2 := hpar i
      by_cases ha : (h.img m).alphaMap = some i
      · have := (hmap i ha).2.2.2
        simp only [ha, this, ne_eq, not_false_eq_true, and_self, if_true] at h2 ⊢
        omega
      · simp only [ha, and_false, if_false] at h2 ⊢
        omega
  · intro i hi hfi
    rw [hhold, releaseH_ext]
    by_cases hj : i = m
    · subst hj; simp [hpend, hext, hhold0]
    · simp only [releaseH_img_other _ _ _ hj] at hfi
      have hna : (h.img m).alphaMap ≠ some i := by
        intro ha; exact hfi (hmap i ha).2.1
      have := hI.dead i hi hfi
      simp [hpend, hj, hna, this]
  · intro p t hp' hfp hxp ha
    have hpm' : p ≠ m := by
      intro e; subst e; simp only [releaseH_img_same, fin_freed] at hfp; omega
    simp only [releaseH_img_other _ _ _ hpm'] at hfp ha
    have := hI.edge p t hp' hfp hxp ha
    have htm : t ≠ m := by
      intro e; subst e; exact hnomap p hp' hfp hxp ha
    simpa [htm] using this
  · intro i hi hfi
    have hj : i ≠ m := by
      intro e; subst e; simp only [releaseH_img_same, fin_freed] at hfi; omega
    simp only [releaseH_img_other _ _ _ hj] at hfi ⊢
    have := hI.acount i hi hfi
    have := hparle i
    omega
  · exact hI.centries
  · intro i
    rw [releaseH_fired, List.map_append, List.count_append, hI.fired i]
    by_cases hj : i = m
    · subst hj
      simp only [releaseH_nimg, releaseH_img_same, fin_freed, fin_destroyFunc, hf]
      unfold fireOf
      by_cases hd : (h.img i).destroyFunc = true
      · simp [hd, hm]
      · simp [hd]
    · simp only [releaseH_nimg, releaseH_img_other _ _ _ hj]
      unfold fireOf
      by_cases hd : (h.img m).destroyFunc = true
      · simp [hd, Ne.symm hj]
      · simp [hd]

theorem InvA.isLive {h : Heap} {pend : Nat → Nat} {x : Option Nat} (_hI : InvA h pend x) {m : Nat}
    (hm : m < h.nimg) (hf : (h.img m).freed = 0) : h.live m := ⟨hm, hf⟩

/-- `pixman_image_unref (m)` consumes one in-flight reference to `m`; it returns TRUE exactly when
    that was the last reference; the recursion budget `f + 2` is enough. -/
theorem InvA.unrefF {h : Heap} {pend pend' : Nat → Nat} {x : Option Nat} (hI : InvA h pend x) {m : Nat}
    (f : Nat) (hp : 1 ≤ pend m) (hx : some m ≠ x ∨ (h.img m).alphaMap = none)
    (hpend : ∀ j, pend' j = if j = m then pend j - 1 else pend j) :
    InvA (unrefF (f + 2) h m).1 pend' x ∧
      ((unrefF (f + 2) h m).2 = decide ((h.img m).refCount = 1)) := by
  obtain ⟨hm, hf⟩ := hI.live_of_pend hp
  have hl : h.live m := ⟨hm, hf⟩
  have hc := hI.count m hm hf
  cases ha : (h.img m).alphaMap with
  | none =>
    rw [unrefF_leaf (f + 1) h m hl ha]
    by_cases hr : (h.img m).refCount = 1
    · rw [if_pos hr]
      refine ⟨hI.release hp hr (Or.inr ha) ?_, by simp [hr]⟩
      intro j; rw [hpend]
      by_cases hj : j = m
      · subst hj; simp; omega
      · simp [hj, ha]
    · rw [if_neg hr]
      exact ⟨hI.dec hp hr hpend, by simp [hr]⟩
  | some a =>
    have hx' : some m ≠ x := by
      rcases hx with hx | hx
      · exact hx
      · rw [hx] at ha; cases ha
    obtain ⟨ham, haf, han, _⟩ := hI.edge m a hm hf hx' ha
    have hne : a ≠ m := by intro e; subst e; rw [han] at ha; cases ha
    rw [unrefF_parent f h m a hl ha hne ⟨ham, haf⟩ han]
    by_cases hr : (h.img m).refCount = 1
    · rw [if_pos hr]
      -- m is released; the reference it held on a is in flight
      have hI1 := hI.release (pend' := fun j => if j = m then 0 else if (h.img m).alphaMap = some j then pend j + 1 else pend j)
        hp hr (Or.inl hx') (fun j => rfl)
      have hl1 : (releaseH h m).live a := (live_releaseH_other hne).2 ⟨ham, haf⟩
      have hn1 : ((releaseH h m).img a).alphaMap = none := by simpa [hne] using han
      have hp1 : 1 ≤ (fun j => if j = m then 0 else if (h.img m).alphaMap = some j then pend j + 1 else pend j) a := by
        simp [hne, ha]
      have hpm : pend m = 1 := by
        have : (0:Int) ≤ (h.ext m : Int) + parentsX h x m + hold h m := by omega
        omega
      rw [unrefF_leaf f _ a hl1 hn1]
      refine ⟨?_, by simp [hr]⟩
      by_cases hr1 : ((releaseH h m).img a).refCount = 1
      · rw [if_pos hr1]
        have hpa : pend a = 0 := by
          have := hI1.count a ham (by simpa [hne] using haf)
          simp only [hne, ha, if_false, if_true] at this
          rw [hr1] at this
          have h0 : (0:Int) ≤ ((releaseH h m).ext a : Int) + parentsX (releaseH h m) x a + hold (releaseH h m) a := by omega
          omega
        apply hI1.release hp1 hr1 (Or.inr hn1)
        intro j; rw [hpend]
        by_cases hj : j = a
        · subst hj; simp [hne, hpa]
        · by_cases hjm : j = m
          · subst hjm; simp [hj, hn1, hpm]
          · simp [hj, hjm, hn1, ha]
            intro e; exact absurd e.symm hj
      · rw [if_neg hr1]
        apply hI1.dec hp1 hr1
        intro j; rw [hpend]
        by_cases hj : j = a
        · subst hj; simp [hne, ha]
        · by_cases hjm : j = m
          · subst hjm; simp [hj, hpm]
          · simp [hj, hjm, ha]
            intro e; exact absurd e.symm hj
    · rw [if_neg hr]
      exact ⟨hI.dec hp hr hpend, by simp [hr]⟩

/-- the struct of `m` is freed by `pixman_image_unref (m)` exactly when the count was 1, and then
    its destroy callback (if any) is the next one to fire -/
theorem unrefF_freed_of_inv {h : Heap} {pend : Nat → Nat} {x : Option Nat} (hI : InvA h pend x) {m : Nat}
    (f : Nat) (hp : 1 ≤ pend m) (hx : some m ≠ x ∨ (h.img m).alphaMap = none) :
    ((unrefF (f + 2) h m).1.img m).freed = (if (h.img m).refCount = 1 then 1 else 0) ∧
    ((h.img m).refCount = 1 → ∃ rest, (unrefF (f + 2) h m).1.fired = h.fired ++ fireOf h m ++ rest) := by
  obtain ⟨hm, hf⟩ := hI.live_of_pend hp
  have hl : h.live m := ⟨hm, hf⟩
  cases ha : (h.img m).alphaMap with
  | none =>
    rw [unrefF_leaf (f + 1) h m hl ha]
    by_cases hr : (h.img m).refCount = 1
    · rw [if_pos hr, if_pos hr]
      exact ⟨by simp [hf], fun _ => ⟨[], by simp⟩⟩
    · rw [if_neg hr, if_neg hr]
      exact ⟨by simp [hf], fun e => absurd e hr⟩
  | some a =>
    have hx' : some m ≠ x := by
      rcases hx with hx | hx
      · exact hx
      · rw [hx] at ha; cases ha
    obtain ⟨ham, haf, han, _⟩ := hI.edge m a hm hf hx' ha
    have hne : a ≠ m := by intro e; subst e; rw [han] at ha; cases ha
    have hne' : m ≠ a := fun e => hne e.symm
    rw [unrefF_parent f h m a hl ha hne ⟨ham, haf⟩ han]
    by_cases hr : (h.img m).refCount = 1
    · rw [if_pos hr, if_pos hr]
      have hl1 : (releaseH h m).live a := (live_releaseH_other hne).2 ⟨ham, haf⟩
      have hn1 : ((releaseH h m).img a).alphaMap = none := by simpa [hne] using han
      rw [unrefF_leaf f _ a hl1 hn1]
      split
      · exact ⟨by simp [hne', hf], fun _ => ⟨fireOf (releaseH h m) a, by simp⟩⟩
      · exact ⟨by simp [hne', hf], fun _ => ⟨[], by simp⟩⟩
    · rw [if_neg hr, if_neg hr]
      exact ⟨by simp [hf], fun e => absurd e hr⟩

end Pixman.Model.Lifetime

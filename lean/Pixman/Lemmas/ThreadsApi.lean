import Pixman.Lemmas.Threads
/-! The API steps of `Pixman.Model.Threads` honour their footprints (C16: T2 and the bridge from the
    request discipline to T1). -/
namespace Pixman.Model.Threads

theorem set_same (σ : State) (l : Loc) (v : Val) : σ.set l v l = v := by simp [State.set]
theorem set_other (σ : State) (l l' : Loc) (v : Val) (h : l' ≠ l) : σ.set l v l' = σ l' := by
  simp [State.set, h]

/-! ### validate -/

/-- **T2**: `_pixman_image_validate` on an image that is not dirty changes nothing -/
theorem validate_clean (derive : Val → Val) (i : Obj) (σ : State)
    (h : isDirty (σ (.imgDerived i)) = false) : validate derive i σ = σ := by
  funext l
  unfold validate validateCell State.set
  by_cases hl : l = .imgDerived i
  · subst hl; simp [h]
  · simp [hl]

theorem validateCell_not_dirty (derive : Val → Val) (p d : Val) :
    isDirty (validateCell derive p d) = false := by
  unfold validateCell isDirty
  by_cases h : d = 0 <;> simp [h]

theorem validateCell_idem (derive : Val → Val) (p d : Val) :
    validateCell derive p (validateCell derive p d) = validateCell derive p d := by
  unfold validateCell isDirty
  by_cases h : d = 0 <;> simp [h]

/-- pointwise description of validating a list of images -/
theorem validateAll_apply (F : Fns) (clean : Clean) :
    ∀ (is : List Obj) (σ : State) (l : Loc),
      validateAll F clean is σ l =
        match l with
        | .imgDerived i =>
            if i ∈ is ∧ clean i = false then validateCell F.derive (σ (.imgProps i)) (σ (.imgDerived i))
            else σ l
        | _ => σ l := by
  intro is
  induction is with
  | nil => intro σ l; cases l <;> simp [validateAll]
  | cons j is ih =>
    intro σ l
    simp only [validateAll]
    rw [ih]
    by_cases hc : clean j = true
    · -- j is declared clean: skipped
      simp only [hc, if_true]
      cases l with
      | imgDerived i =>
        simp only [List.mem_cons]
        by_cases hi : i = j
        · subst hi; simp [hc]
        · simp [hi]
      | _ => rfl
    · have hc' : clean j = false := by simpa using hc
      simp only [hc', Bool.false_eq_true, if_false]
      cases l with
      | imgDerived i =>
        have hp : validate F.derive j σ (.imgProps i) = σ (.imgProps i) := by
          simp [validate, State.set]
        simp only [hp, List.mem_cons]
        by_cases hi : i = j
        · subst hi
          have hd : validate F.derive i σ (.imgDerived i) =
              validateCell F.derive (σ (.imgProps i)) (σ (.imgDerived i)) := by simp [validate, State.set]
          rw [hd]
          by_cases hm : i ∈ is
          · simp [hm, hc', validateCell_idem]
          · simp [hm, hc']
        · have hd : validate F.derive j σ (.imgDerived i) = σ (.imgDerived i) := by
            simp [validate, State.set, hi]
          rw [hd]; simp [hi]
      | _ => simp [validate, State.set]

/-! ### stores -/

theorem applyOuts_frame : ∀ (os : List (Loc × Val)) (σ : State) (l : Loc),
    l ∉ os.map Prod.fst → applyOuts os σ l = σ l
  | [], _, _, _ => rfl
  | (l₀, v) :: os, σ, l, h => by
      simp only [List.map_cons, List.mem_cons, not_or] at h
      rw [applyOuts, applyOuts_frame os _ l h.2, set_other _ _ _ _ h.1]

theorem applyOuts_congr : ∀ (os : List (Loc × Val)) (σ σ' : State) (l : Loc),
    (l ∈ os.map Prod.fst ∨ σ l = σ' l) → applyOuts os σ l = applyOuts os σ' l
  | [], σ, σ', l, h => by
      cases h with
      | inl h => simp at h
      | inr h => exact h
  | (l₀, v) :: os, σ, σ', l, h => by
      rw [applyOuts, applyOuts]
      apply applyOuts_congr os
      by_cases hl : l = l₀
      · right; subst hl; rw [set_same, set_same]
      · cases h with
        | inl h =>
          simp only [List.map_cons, List.mem_cons] at h
          cases h with
          | inl h => exact absurd h hl
          | inr h => exact Or.inl h
        | inr h => right; rw [set_other _ _ _ _ hl, set_other _ _ _ _ hl]; exact h

/-! ### per-request footprint facts -/

/-- the store locations of a request (independent of the values) -/
def Req.outLocs (t : Tid) : Req → List Loc
  | .composite d _ _ => [.imgPixels d, .tlsCache t]
  | .fill d => [.imgPixels d]
  | .regionOp d _ _ => [.region d]
  | .glyphs c d _ => [.imgPixels d, .glyphCache c, .tlsCache t]
  | .setProp i _ => [.imgProps i, .imgDerived i]
  | .badCall => [.logCounter]

theorem outs_locs (F : Fns) (t : Tid) (r : Req) (vals : List Val) :
    (r.outs F t vals).map Prod.fst = r.outLocs t := by
  cases r <;> rfl

theorem mem_useWrites (clean : Clean) (i : Obj) (l : Loc) :
    l ∈ useWrites clean i ↔ (l = .imgDerived i ∧ clean i = false) := by
  unfold useWrites
  by_cases h : clean i = true <;> simp [h]

/-- the write footprint is exactly: the stores, plus the derived state of every used image that is
    not declared clean -/
theorem mem_writes (clean : Clean) (t : Tid) (r : Req) (l : Loc) :
    l ∈ r.writes clean t ↔ (l ∈ r.outLocs t ∨ ∃ i ∈ r.uses, l = .imgDerived i ∧ clean i = false) := by
  cases r with
  | composite d s m =>
    cases m <;>
      simp [Req.writes, Req.outLocs, Req.uses, maskList, mem_useWrites] <;> grind
  | fill d => simp [Req.writes, Req.outLocs, Req.uses, mem_useWrites]
  | regionOp d a b => simp [Req.writes, Req.outLocs, Req.uses]
  | glyphs c d s => simp [Req.writes, Req.outLocs, Req.uses, mem_useWrites]; grind
  | setProp i a => simp [Req.writes, Req.outLocs, Req.uses]
  | badCall => simp [Req.writes, Req.outLocs, Req.uses]

/-- the properties and the derived state of every used image are in the read footprint -/
theorem uses_in_reads (t : Tid) (r : Req) (i : Obj) (h : i ∈ r.uses) :
    Loc.imgProps i ∈ r.reads t ∧ Loc.imgDerived i ∈ r.reads t := by
  cases r with
  | composite d s m =>
    cases m <;> simp [Req.uses, maskList] at h <;>
      simp [Req.reads, srcReads, maskList] <;> grind
  | fill d => simp [Req.uses] at h; simp [Req.reads, srcReads, h]
  | regionOp d a b => simp [Req.uses] at h
  | glyphs c d s => simp [Req.uses] at h; simp [Req.reads, srcReads]; grind
  | setProp i a => simp [Req.uses] at h
  | badCall => simp [Req.uses] at h

/-- validated state at a location of the read footprint depends only on the read footprint -/
theorem validateAll_congr_reads (F : Fns) (clean : Clean) (t : Tid) (r : Req) (σ σ' : State)
    (h : ∀ l ∈ r.reads t, σ l = σ' l) (l : Loc) (hl : σ l = σ' l) :
    validateAll F clean r.uses σ l = validateAll F clean r.uses σ' l := by
  rw [validateAll_apply, validateAll_apply]
  cases l with
  | imgDerived i =>
    by_cases hi : i ∈ r.uses ∧ clean i = false
    · have := uses_in_reads t r i hi.1
      simp only [hi, and_self, if_true]
      rw [h _ this.1, h _ this.2]
    · simp only [hi, if_false]; exact hl
  | _ => exact hl

/-- **the API steps honour their footprints** on the states in which the images declared clean are
    clean -/
theorem step_respects (F : Fns) (clean : Clean) (t : Tid) (r : Req) (hwf : r.wf clean = true) :
    (r.step F clean t).Respects (CleanInv clean) := by
  have hframe : ∀ σ l, l ∉ r.writes clean t → r.eff F clean t σ l = σ l := by
    intro σ l hl
    rw [mem_writes] at hl
    simp only [not_or] at hl
    unfold Req.eff
    rw [applyOuts_frame _ _ _ (by rw [outs_locs]; exact hl.1), validateAll_apply]
    cases l with
    | imgDerived i =>
      have : ¬ (i ∈ r.uses ∧ clean i = false) := fun hh => hl.2 ⟨i, hh.1, rfl, hh.2⟩
      simp [this]
    | _ => rfl
  have hdep : ∀ σ σ', (∀ l ∈ r.reads t, σ l = σ' l) → ∀ l ∈ r.writes clean t,
      r.eff F clean t σ l = r.eff F clean t σ' l := by
    intro σ σ' hag l hl
    unfold Req.eff
    have hvals : (r.reads t).map (validateAll F clean r.uses σ) = (r.reads t).map (validateAll F clean r.uses σ') := by
      apply List.map_congr_left
      intro x hx
      exact validateAll_congr_reads F clean t r σ σ' hag x (hag x hx)
    rw [hvals]
    apply applyOuts_congr
    rw [outs_locs]
    rw [mem_writes] at hl
    cases hl with
    | inl h => exact Or.inl h
    | inr h =>
      right
      obtain ⟨i, hi, rfl, hc⟩ := h
      rw [validateAll_apply, validateAll_apply]
      have := uses_in_reads t r i hi
      simp only [hi, hc, and_self, if_true]
      rw [hag _ this.1, hag _ this.2]
  refine ⟨fun σ l _ hl => hframe σ l hl, ?_, ?_⟩
  · intro σ σ' _ _ hag
    refine ⟨hdep σ σ' hag, ?_⟩
    show r.obs F clean t σ = r.obs F clean t σ'
    unfold Req.obs
    cases htg : r.target with
    | none => rfl
    | some l =>
      simp only
      apply hdep σ σ' hag
      rw [mem_writes]; left
      cases r <;> simp [Req.target] at htg <;> subst htg <;> simp [Req.outLocs]
  · intro σ hσ i hi
    show isDirty (r.eff F clean t σ (.imgDerived i)) = false
    rw [hframe σ _ ?_]; exact hσ i hi
    rw [mem_writes]
    simp only [not_or, not_exists, not_and]
    constructor
    · cases r with
      | setProp j a =>
        simp only [Req.wf, Bool.not_eq_true'] at hwf
        simp only [Req.outLocs, List.mem_cons, Loc.imgDerived.injEq, reduceCtorEq, List.not_mem_nil, or_false, false_or]
        intro h; subst h; rw [hwf] at hi; exact absurd hi (by simp)
      | _ => simp [Req.outLocs]
    · intro j _ hj hc
      injection hj with hj
      subst hj; rw [hc] at hi; exact absurd hi (by simp)

end Pixman.Model.Threads

import Pixman.Lemmas.Combine
import Pixman.Model.CompositePixel
/-! What the request model needs to know about fetching: a fetch to a8r8g8b8 is a 32-bit word, and
a format without alpha bits (or a solid colour with alpha 255) fetches alpha 255. -/
namespace Pixman.Lemmas
open Pixman.Spec Pixman.CompositePixel

/-- `convert_channel` into an 8-bit field at `sh`: a byte shifted into place -/
theorem convertChannel_to8 (pixel defv nFrom fromShift sh : Nat) (hsh : sh ≤ 24) :
    ∃ v, v ≤ 255 ∧ convertChannel pixel defv nFrom fromShift 8 sh = v * 2 ^ sh := by
  unfold convertChannel
  simp only []
  generalize (if nFrom ≠ 0 ∧ 8 ≠ 0 then unormToUnorm (pixel >>> fromShift) nFrom 8
    else if 8 ≠ 0 then defv else 0) = w
  have e : w &&& ((1 <<< 8) - 1) = w % 256 := Nat.and_two_pow_sub_one_eq_mod w 8
  rw [e, Nat.shiftLeft_eq]
  refine ⟨w % 256, by omega, ?_⟩
  apply Nat.mod_eq_of_lt
  have h1 : w % 256 < 256 := Nat.mod_lt _ (by decide)
  have h2 : 2 ^ sh ≤ 2 ^ 24 := Nat.pow_le_pow_right (by decide) hsh
  calc w % 256 * 2 ^ sh ≤ 255 * 2 ^ 24 := Nat.mul_le_mul (by omega) h2
    _ < 4294967296 := by decide

/-- a missing alpha field fetches as 255 -/
theorem convertChannel_noalpha (pixel fromShift : Nat) :
    convertChannel pixel 4294967295 0 fromShift 8 24 = 255 * 2 ^ 24 := by
  simp [convertChannel]

theorem or4_bytes (a r g b : Nat) (_ha : a ≤ 255) (hr : r ≤ 255) (hg : g ≤ 255) (hb : b ≤ 255) :
    a * 2 ^ 24 ||| r * 2 ^ 16 ||| g * 2 ^ 8 ||| b * 2 ^ 0 = pack4 a r g b := by
  simp only [Nat.pow_zero, Nat.mul_one]
  rw [Nat.or_assoc, Nat.or_assoc]
  have e1 : g * 2 ^ 8 ||| b = g * 2 ^ 8 + b := by
    have := Nat.two_pow_add_eq_or_of_lt (i := 8) (b := b) (by omega) g
    rw [Nat.mul_comm]; exact this.symm
  have e2 : r * 2 ^ 16 ||| (g * 2 ^ 8 + b) = r * 2 ^ 16 + (g * 2 ^ 8 + b) := by
    have := Nat.two_pow_add_eq_or_of_lt (i := 16) (b := g * 2 ^ 8 + b) (by omega) r
    rw [Nat.mul_comm]; exact this.symm
  have e3 : a * 2 ^ 24 ||| (r * 2 ^ 16 + (g * 2 ^ 8 + b)) = a * 2 ^ 24 + (r * 2 ^ 16 + (g * 2 ^ 8 + b)) := by
    have := Nat.two_pow_add_eq_or_of_lt (i := 24) (b := r * 2 ^ 16 + (g * 2 ^ 8 + b)) (by omega) a
    rw [Nat.mul_comm]; exact this.symm
  rw [e1, e2, e3]
  unfold pack4
  omega

/-- a fetch is four bytes -/
theorem fetch_bytes (f : Fmt) (p : Nat) :
    ∃ a r g b, a ≤ 255 ∧ r ≤ 255 ∧ g ≤ 255 ∧ b ≤ 255 ∧ f.fetch p = pack4 a r g b ∧
      (f.a = 0 → a = 255) := by
  unfold Fmt.fetch convertPixel
  generalize f.shifts = sh
  obtain ⟨sa, sr, sg, sb⟩ := sh
  have hs : argb32.shifts = (24, 16, 8, 0) := by decide
  rw [hs]
  simp only [argb32]
  obtain ⟨a, ha, ea⟩ := convertChannel_to8 p 4294967295 f.a sa 24 (by omega)
  obtain ⟨r, hr, er⟩ := convertChannel_to8 p 0 f.r sr 16 (by omega)
  obtain ⟨g, hg, eg⟩ := convertChannel_to8 p 0 f.g sg 8 (by omega)
  obtain ⟨b, hb, eb⟩ := convertChannel_to8 p 0 f.b sb 0 (by omega)
  refine ⟨a, r, g, b, ha, hr, hg, hb, ?_, ?_⟩
  · rw [ea, er, eg, eb]; exact or4_bytes a r g b ha hr hg hb
  · intro h0
    rw [h0, convertChannel_noalpha] at ea
    omega

theorem fetch_lt (f : Fmt) (p : Nat) : f.fetch p < 4294967296 := by
  obtain ⟨a, r, g, b, ha, hr, hg, hb, e, _⟩ := fetch_bytes f p
  rw [e]; exact pack4_lt a r g b ha hr hg hb

theorem fetch_alpha_opaque (f : Fmt) (p : Nat) (h : f.a = 0) : chan .a (f.fetch p) = 255 := by
  obtain ⟨a, r, g, b, ha, hr, hg, hb, e, h255⟩ := fetch_bytes f p
  rw [e, chan_pack4 .a a r g b ha hr hg hb]
  exact h255 h

theorem presFetch_lt (pr : Pres) (v : Nat) : pr.fetch v < 4294967296 := by
  cases pr with
  | none => simp [Pres.fetch]
  | solid => simp only [Pres.fetch]; omega
  | bits f rep => exact fetch_lt f v

/-- a source or mask flagged opaque fetches alpha 255 -/
theorem srcOpaque_alpha (pr : Pres) (v : Nat) (ca : Bool) (hp : pr ≠ .none)
    (h : pr.srcOpaque v ca = true) : chan .a (pr.fetch v) = 255 := by
  cases pr with
  | none => exact absurd rfl hp
  | solid =>
    simp only [Pres.srcOpaque, Bool.and_eq_true, Bool.not_eq_true', beq_iff_eq] at h
    simp only [Pres.fetch, chan]
    have h2 := h.2
    simp only [Nat.shiftRight_eq_div_pow, Nat.reducePow] at h2
    omega
  | bits f rep =>
    simp only [Pres.srcOpaque, Bool.and_eq_true, Bool.not_eq_true', beq_iff_eq] at h
    exact fetch_alpha_opaque f v h.2

end Pixman.Lemmas

import Pixman.Model.Extent
import Pixman.Lemmas.Matrix
/-! `pad_repeat_get_scanline_bounds`: arithmetic of the two truncating divisions. -/
namespace Pixman.Lemmas.ExtentPad
open Pixman.Matrix Pixman.Model.Extent

/-- floor division facts in the multiplicative form `omega` can use once the product is an atom -/
theorem ediv_bounds (n d : Int) (hd : 0 < d) : (n / d) * d ≤ n ∧ n < (n / d) * d + d := by
  obtain ⟨h1, h2, h3⟩ := divmod_spec n d hd
  rw [Int.mul_comm] at h1
  omega

theorem tdiv_nonneg_eq (n d : Int) (hn : 0 ≤ n) : Int.tdiv n d = n / d :=
  Int.tdiv_eq_ediv_of_nonneg hn

theorem tdiv_neg_nonpos (n d : Int) (hn : n < 0) (hd : 0 < d) : Int.tdiv n d ≤ 0 := by
  have h : Int.tdiv n d = -(Int.tdiv (-n) d) := by rw [Int.neg_tdiv]; omega
  rw [h, tdiv_nonneg_eq (-n) d (by omega)]
  have := Int.ediv_nonneg (by omega : 0 ≤ -n) (by omega : 0 ≤ d)
  omega

/-- the left part: `0 ≤ left ≤ width`, the two parts add up, and the first pixel after the left pad
    (if any pixel remains) has a non-negative coordinate; the last padded pixel has a negative one -/
theorem padLeft_spec (vx ux width : Int) (hux : 0 < ux) (hw : 0 ≤ width ∧ width ≤ 2147483647) :
    let lw := padLeft vx ux width
    0 ≤ lw.1 ∧ 0 ≤ lw.2 ∧ lw.1 + lw.2 = width ∧
    (lw.2 > 0 → 0 ≤ vx + lw.1 * ux) ∧ (lw.1 > 0 → vx + (lw.1 - 1) * ux < 0) ∧ (0 ≤ vx → lw.1 = 0) := by
  unfold padLeft
  split
  · rename_i hneg
    have hq := ediv_bounds (ux - 1 - vx) ux hux
    rw [tdiv_nonneg_eq _ _ (by omega : 0 ≤ ux - 1 - vx)]
    have hq0 : 0 ≤ (ux - 1 - vx) / ux := Int.ediv_nonneg (by omega) (by omega)
    generalize hqq : (ux - 1 - vx) / ux = q at *
    simp only
    split
    · rename_i hgt
      simp only
      refine ⟨hw.1, Int.le_refl _, by omega, by omega, ?_, by omega⟩
      intro _
      -- width - 1 < q, so (width - 1) * ux ≤ (q - 1) * ux < -vx
      have h1 : (width - 1) * ux ≤ (q - 1) * ux := Int.mul_le_mul_of_nonneg_right (by omega) (by omega)
      simp only [Int.sub_mul, Int.one_mul] at h1 ⊢
      generalize width * ux = wu at *
      generalize q * ux = qu at *
      omega
    · rename_i hle
      have e1 : wrapS32 q = q := wrapS32_of_range q (by omega)
      rw [e1]
      have e2 : wrapS32 (width - q) = width - q := wrapS32_of_range _ (by omega)
      rw [e2]
      simp only
      refine ⟨hq0, by omega, by omega, ?_, ?_, by omega⟩
      · intro _; generalize q * ux = qu at *; omega
      · intro _; rw [Int.sub_mul, Int.one_mul]; generalize q * ux = qu at *; omega
  · rename_i hpos
    simp only
    refine ⟨Int.le_refl _, hw.1, by omega, ?_, by omega, ?_⟩
    · intro _; omega
    · intro _; trivial

end Pixman.Lemmas.ExtentPad

import Pixman.Model.DispatchCache
/-! Cache invariant of `_pixman_implementation_lookup_composite`: every occupied slot holds the
table's answer for its key. -/
namespace Pixman.Model.DispatchCache

def CacheInv (W : Wild) (table : List Entry) (c : Cache) : Prop :=
  ∀ s, s ∈ c → s.func ≠ 0 → lookupTable W table s.key = some (s.imp, s.func)

theorem findSlot_spec : ∀ (c : Cache) (k : Key) (i : Nat) (r : Nat × Entry), findSlot c k i = some r →
    r.2 ∈ c ∧ r.2.key = k ∧ r.2.func ≠ 0 ∧ i ≤ r.1 ∧ r.1 < i + c.length := by
  intro c
  induction c with
  | nil => intro k i r h; simp [findSlot] at h
  | cons s rest ih =>
    intro k i r h
    unfold findSlot at h
    split at h
    · rename_i hc
      cases h
      exact ⟨List.mem_cons_self, hc.1, hc.2, Nat.le_refl _, by simp⟩
    · obtain ⟨a, b, c, d, e⟩ := ih k (i + 1) r h
      exact ⟨List.mem_cons_of_mem _ a, b, c, by omega, by simp; omega⟩

theorem mem_moveToFront (c : Cache) (i : Nat) (s x : Entry) (h : x ∈ moveToFront c i s) : x = s ∨ x ∈ c := by
  unfold moveToFront at h
  split at h
  · exact Or.inr h
  · rcases List.mem_cons.mp h with h | h
    · exact Or.inl h
    · rcases List.mem_append.mp h with h | h
      · exact Or.inr (List.mem_of_mem_take h)
      · exact Or.inr (List.mem_of_mem_drop h)

theorem length_moveToFront (c : Cache) (i : Nat) (s : Entry) (h : i < c.length) : (moveToFront c i s).length = c.length := by
  unfold moveToFront
  split
  · rfl
  · simp [List.length_take, List.length_drop]; omega

end Pixman.Model.DispatchCache

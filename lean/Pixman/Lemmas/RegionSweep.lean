import Pixman.Lemmas.RegionCoalesce
/-! The sweep of pixman_op: invariant, one step, fuel, tail. -/
set_option linter.unusedSimpArgs false
set_option linter.unusedVariables false
namespace Pixman.Region

/-- the append flags pixman_op is called with for each operation -/
def Compat (k : OpKind) (app1 app2 : Bool) : Prop :=
  (k = .union ∧ app1 = true ∧ app2 = true) ∨ (k = .inter ∧ app1 = false ∧ app2 = false) ∨
  (k = .sub ∧ app1 = true ∧ app2 = false)

/-- the arithmetic heart of one sweep step: the two bands emitted between `ybot` and the new
    `ybot'` are exactly the result there, and below `ybot'` nothing changes. -/
theorem step_arith (k : OpKind) (app1 app2 : Bool) (hk : Compat k app1 app2)
    (Y1 Z1 Y2 Z2 ybot y : Int) (A1 A2 T1 T2 : Prop)
    (hY1 : Y1 < Z1) (hY2 : Y2 < Z2) (hy1 : ybot < Z1) (hy2 : ybot < Z2)
    (hy : ybot ≤ Y1 ∨ ybot ≤ Y2) (hT1 : T1 → Z1 ≤ y) (hT2 : T2 → Z2 ≤ y) :
    (((Y1 < Y2 ∧ app1 = true ∧ max Y1 ybot ≤ y ∧ y < min Z1 Y2 ∧ A1) ∨
      (Y2 < Y1 ∧ app2 = true ∧ max Y2 ybot ≤ y ∧ y < min Z2 Y1 ∧ A2)) ∨
     (max Y1 Y2 ≤ y ∧ y < min Z1 Z2 ∧ k.sem A1 A2) ∨
     (min Z1 Z2 ≤ y ∧ k.sem (if Z1 ≤ Z2 then T1 else (Y1 ≤ y ∧ y < Z1 ∧ A1) ∨ T1)
                            (if Z2 ≤ Z1 then T2 else (Y2 ≤ y ∧ y < Z2 ∧ A2) ∨ T2))) ↔
    (ybot ≤ y ∧ k.sem ((Y1 ≤ y ∧ y < Z1 ∧ A1) ∨ T1) ((Y2 ≤ y ∧ y < Z2 ∧ A2) ∨ T2)) := by
  rcases hk with ⟨rfl, rfl, rfl⟩ | ⟨rfl, rfl, rfl⟩ | ⟨rfl, rfl, rfl⟩ <;>
  simp only [OpKind.sem, Bool.false_eq_true, false_and, and_false, or_false, false_or, true_and] <;>
  by_cases hz1 : Z1 ≤ Z2 <;> by_cases hz2 : Z2 ≤ Z1 <;>
  simp only [hz1, hz2, if_true, if_false] <;>
  by_cases hA1 : A1 <;> by_cases hA2 : A2 <;> by_cases hT1' : T1 <;> by_cases hT2' : T2 <;>
  simp only [hA1, hA2, hT1', hT2', true_and, and_true, false_and, and_false, or_false, false_or, or_true,
      true_or, forall_const, false_implies, not_true_eq_false, not_false_eq_true, true_implies,
      false_iff, iff_false, true_iff, iff_true] at hT1 hT2 ⊢ <;>
  omega


theorem keepsX_setY (t b : Int) : KeepsX' (fun r : Box => Box.mk r.x1 t r.x2 b) := fun _ => ⟨rfl, rfl⟩

theorem appendNonO_allY (S : List Box) (t b : Int) : AllY t b (appendNonO S t b) := by
  intro q hq
  obtain ⟨q', _, rfl⟩ := List.mem_map.1 hq
  exact ⟨rfl, rfl⟩

theorem appendNonO_sep (S : List Box) (t b : Int) (h : SpansSep S) : SpansSep (appendNonO S t b) :=
  (spansSep_map' (keepsX_setY t b) S).2 h

theorem appendNonO_inSpans (S : List Box) (t b x : Int) : InSpans (appendNonO S t b) x ↔ InSpans S x :=
  inSpans_map (keepsX_setY t b) S x

theorem appendNonO_sameSpans (S : List Box) (t b : Int) : SameSpans (appendNonO S t b) S :=
  sameSpans_refl_map (keepsX_setY t b) S

/-- the non-overlapping part of a step -/
theorem phase1_spec (app : Bool) (o : Out) (S : List Box) (hS : SpansSep S) (top bot ybot : Int)
    (ho : OutOK o ybot) (h1 : ybot ≤ top) (h2 : top ≤ bot) :
    OutOK (if app then (if top != bot then coalesce o (appendNonO S top bot) else o) else o) bot ∧
    ∀ x y, MemL (if app then (if top != bot then coalesce o (appendNonO S top bot) else o) else o).toList x y ↔
      MemL o.toList x y ∨ (app = true ∧ top ≤ y ∧ y < bot ∧ InSpans S x) := by
  cases app with
  | false =>
    simp only [Bool.false_eq_true, if_false, false_and, or_false, implies_true, and_true]
    exact ho.mono (by omega)
  | true =>
    by_cases e : top = bot
    · subst e
      simp only [bne_self_eq_false, Bool.false_eq_true, if_false, if_true, true_and]
      refine ⟨ho.mono h1, fun x y => ?_⟩
      constructor
      · exact Or.inl
      · rintro (h | ⟨_, _, _⟩)
        · exact h
        · omega
    · have hne : (top != bot) = true := by simp [e]
      simp only [hne, if_true, true_and]
      have := coalesce_spec o (appendNonO S top bot) top bot ybot ho h1 (by omega)
        (appendNonO_allY S top bot) (appendNonO_sep S top bot hS)
      refine ⟨this.1, fun x y => ?_⟩
      rw [this.2.1, appendNonO_inSpans]

/-- the overlapping part of a step -/
theorem phase2_spec (k : OpKind) (o : Out) (S1 S2 : List Box) (hS1 : SpansSep S1)
    (hS2 : SpansSep S2) (hn1 : S1 ≠ []) (hn2 : S2 ≠ []) (ytop ybot' m : Int) (ho : OutOK o m)
    (h1 : m ≤ ytop) (h2 : m ≤ ybot') :
    OutOK (if ybot' > ytop then coalesce o (overlapO k ytop ybot' S1 S2) else o) ybot' ∧
    ∀ x y, MemL (if ybot' > ytop then coalesce o (overlapO k ytop ybot' S1 S2) else o).toList x y ↔
      MemL o.toList x y ∨ (ytop ≤ y ∧ y < ybot' ∧ k.sem (InSpans S1 x) (InSpans S2 x)) := by
  by_cases e : ybot' > ytop
  · simp only [e, if_true]
    have := coalesce_spec o (overlapO k ytop ybot' S1 S2) ytop ybot' m ho h1 e
      (overlapO_allY k ytop ybot' S1 S2) (overlapO_sep k ytop ybot' S1 S2 hS1 hS2 hn1 hn2)
    refine ⟨this.1, fun x y => ?_⟩
    rw [this.2.1, overlapO_inSpans k ytop ybot' S1 S2 hS1 hS2 hn1 hn2]
  · simp only [e, if_false]
    refine ⟨ho.mono h2, fun x y => ?_⟩
    constructor
    · exact Or.inl
    · rintro (h | ⟨_, _, _⟩)
      · exact h
      · omega

/-- structural invariant of the sweep state -/
def SInv (s : St) : Prop :=
  ∃ bs1 bs2, s.r1 = flat' bs1 ∧ BandsOK bs1 ∧ s.r2 = flat' bs2 ∧ BandsOK bs2 ∧
    (∀ b t, bs1 = b :: t → s.ybot < b.2.1) ∧ (∀ b t, bs2 = b :: t → s.ybot < b.2.1) ∧
    (∀ b1 t1 b2 t2, bs1 = b1 :: t1 → bs2 = b2 :: t2 → s.ybot ≤ b1.1 ∨ s.ybot ≤ b2.1) ∧
    OutOK s.out s.ybot

/-- what the finished operation will contain, seen from state `s` -/
def Sem (k : OpKind) (s : St) (x y : Int) : Prop :=
  MemL s.out.toList x y ∨ (s.ybot ≤ y ∧ k.sem (MemL s.r1 x y) (MemL s.r2 x y))

theorem beq_min_left (a b : Int) : (a == min a b) = decide (a ≤ b) := by
  by_cases h : a ≤ b
  · simp [h, Int.min_eq_left h]
  · have : min a b = b := Int.min_eq_right (by omega)
    simp only [h, decide_false, this, beq_eq_false_iff_ne, ne_eq]; omega

theorem beq_min_right (a b : Int) : (b == min a b) = decide (b ≤ a) := by
  rw [Int.min_comm]; exact beq_min_left b a

theorem memL_ite (c : Prop) [Decidable c] (l1 l2 : List Box) (x y : Int) :
    MemL (if c then l1 else l2) x y ↔ if c then MemL l1 x y else MemL l2 x y := by
  split <;> exact Iff.rfl


/-- the first half of `sweepStep` on band data -/
def stepP (app1 app2 : Bool) (out : Out) (ybot Y1 Z1 Y2 Z2 : Int) (S1 S2 : List Box) : Out × Int :=
  if Y1 < Y2 then
    (if app1 then
        (if max Y1 ybot != min Z1 Y2 then coalesce out (appendNonO S1 (max Y1 ybot) (min Z1 Y2)) else out)
      else out, Y2)
  else if Y2 < Y1 then
    (if app2 then
        (if max Y2 ybot != min Z2 Y1 then coalesce out (appendNonO S2 (max Y2 ybot) (min Z2 Y1)) else out)
      else out, Y1)
  else (out, Y1)

theorem sweepStep_eq (k : OpKind) (app1 app2 : Bool) (s : St)
    (Y1 Z1 : Int) (S1 : List Box) (t1 : List Band') (Y2 Z2 : Int) (S2 : List Box) (t2 : List Band')
    (h1 : s.r1 = flat' ((Y1, Z1, S1) :: t1)) (hB1 : BandsOK ((Y1, Z1, S1) :: t1))
    (h2 : s.r2 = flat' ((Y2, Z2, S2) :: t2)) (hB2 : BandsOK ((Y2, Z2, S2) :: t2)) :
    sweepStep k app1 app2 s =
      { r1 := flat' (if Z1 ≤ Z2 then t1 else (Y1, Z1, S1) :: t1),
        r2 := flat' (if Z2 ≤ Z1 then t2 else (Y2, Z2, S2) :: t2),
        ybot := min Z1 Z2,
        out := if min Z1 Z2 > (stepP app1 app2 s.out s.ybot Y1 Z1 Y2 Z2 S1 S2).2 then
            coalesce (stepP app1 app2 s.out s.ybot Y1 Z1 Y2 Z2 S1 S2).1
              (overlapO k (stepP app1 app2 s.out s.ybot Y1 Z1 Y2 Z2 S1 S2).2 (min Z1 Z2) S1 S2)
          else (stepP app1 app2 s.out s.ybot Y1 Z1 Y2 Z2 S1 S2).1 } := by
  simp only [sweepStep, h1, h2, splitBand_flat hB1, splitBand_flat hB2, headY1_flat hB1,
    headY1_flat hB2, headY2_flat hB1, headY2_flat hB2, beq_min_left, beq_min_right, stepP,
    decide_eq_true_eq]
  congr 1
  · split <;> rfl
  · split <;> rfl


theorem stepP_spec (app1 app2 : Bool) (out : Out) (ybot Y1 Z1 Y2 Z2 : Int) (S1 S2 : List Box)
    (hS1 : SpansSep S1) (hS2 : SpansSep S2) (hY1 : Y1 < Z1) (hY2 : Y2 < Z2) (hy1 : ybot < Z1)
    (hy2 : ybot < Z2) (hy : ybot ≤ Y1 ∨ ybot ≤ Y2) (ho : OutOK out ybot) :
    (stepP app1 app2 out ybot Y1 Z1 Y2 Z2 S1 S2).2 = max Y1 Y2 ∧
    OutOK (stepP app1 app2 out ybot Y1 Z1 Y2 Z2 S1 S2).1 (min (max Y1 Y2) (min Z1 Z2)) ∧
    ∀ x y, MemL (stepP app1 app2 out ybot Y1 Z1 Y2 Z2 S1 S2).1.toList x y ↔
      MemL out.toList x y ∨
        ((Y1 < Y2 ∧ app1 = true ∧ max Y1 ybot ≤ y ∧ y < min Z1 Y2 ∧ InSpans S1 x) ∨
         (Y2 < Y1 ∧ app2 = true ∧ max Y2 ybot ≤ y ∧ y < min Z2 Y1 ∧ InSpans S2 x)) := by
  rcases Int.lt_trichotomy Y1 Y2 with h | h | h
  · have hn : ¬ Y2 < Y1 := by omega
    simp only [stepP, h, if_true, hn, false_and, or_false, true_and]
    have := phase1_spec app1 out S1 hS1 (max Y1 ybot) (min Z1 Y2) ybot ho (by omega) (by omega)
    exact ⟨by omega, this.1.mono (by omega), this.2⟩
  · subst h
    have hn : ¬ Y1 < Y1 := by omega
    simp only [stepP, hn, if_false, false_and, or_false]
    exact ⟨by omega, ho.mono (by omega), fun _ _ => trivial⟩
  · have hn : ¬ Y1 < Y2 := by omega
    simp only [stepP, h, if_true, hn, if_false, false_and, false_or, true_and]
    have := phase1_spec app2 out S2 hS2 (max Y2 ybot) (min Z2 Y1) ybot ho (by omega) (by omega)
    exact ⟨by omega, this.1.mono (by omega), this.2⟩

theorem sweepStep_spec (k : OpKind) (app1 app2 : Bool) (hk : Compat k app1 app2) (s : St)
    (b1 : Band') (t1 : List Band') (b2 : Band') (t2 : List Band')
    (h1 : s.r1 = flat' (b1 :: t1)) (hB1 : BandsOK (b1 :: t1))
    (h2 : s.r2 = flat' (b2 :: t2)) (hB2 : BandsOK (b2 :: t2))
    (hy1 : s.ybot < b1.2.1) (hy2 : s.ybot < b2.2.1) (hy : s.ybot ≤ b1.1 ∨ s.ybot ≤ b2.1)
    (ho : OutOK s.out s.ybot) :
    SInv (sweepStep k app1 app2 s) ∧
    (∀ x y, Sem k (sweepStep k app1 app2 s) x y ↔ Sem k s x y) ∧
    (sweepStep k app1 app2 s).r1.length + (sweepStep k app1 app2 s).r2.length <
      s.r1.length + s.r2.length := by
  obtain ⟨Y1, Z1, S1⟩ := b1
  obtain ⟨Y2, Z2, S2⟩ := b2
  simp only at hy1 hy2 hy
  have ⟨hb1, hadj1, hT1⟩ := (bandsOK_cons' _ _).1 hB1
  have ⟨hb2, hadj2, hT2⟩ := (bandsOK_cons' _ _).1 hB2
  have hY1 : Y1 < Z1 := hb1.lt
  have hY2 : Y2 < Z2 := hb2.lt
  have hS1 : SpansSep S1 := hb1.sep
  have hS2 : SpansSep S2 := hb2.sep
  have hn1 : S1 ≠ [] := hb1.ne_nil
  have hn2 : S2 ≠ [] := hb2.ne_nil
  rw [sweepStep_eq k app1 app2 s Y1 Z1 S1 t1 Y2 Z2 S2 t2 h1 hB1 h2 hB2]
  obtain ⟨hp2, hpo, hpm⟩ := stepP_spec app1 app2 s.out s.ybot Y1 Z1 Y2 Z2 S1 S2 hS1 hS2 hY1 hY2
    hy1 hy2 hy ho
  rw [hp2]
  obtain ⟨ho2, hm2⟩ := phase2_spec k (stepP app1 app2 s.out s.ybot Y1 Z1 Y2 Z2 S1 S2).1 S1 S2
    hS1 hS2 hn1 hn2 (max Y1 Y2) (min Z1 Z2) _ hpo (by omega) (by omega)
  refine ⟨?_, ?_, ?_⟩
  · refine ⟨if Z1 ≤ Z2 then t1 else (Y1, Z1, S1) :: t1, if Z2 ≤ Z1 then t2 else (Y2, Z2, S2) :: t2,
      rfl, by split <;> assumption, rfl, by split <;> assumption, ?_, ?_, ?_, ho2⟩
    · intro b t e
      simp only
      split at e
      · have := (hadj1 b (by rw [e]; rfl)).1
        have := (bandsOK_isBand hT1 b (by rw [e]; exact List.mem_cons_self)).lt
        simp only at *; omega
      · cases e; simp only; omega
    · intro b t e
      simp only
      split at e
      · have := (hadj2 b (by rw [e]; rfl)).1
        have := (bandsOK_isBand hT2 b (by rw [e]; exact List.mem_cons_self)).lt
        simp only at *; omega
      · cases e; simp only; omega
    · intro c1 u1 c2 u2 e1 e2
      simp only
      by_cases hz : Z1 ≤ Z2
      · rw [if_pos hz] at e1
        have := (hadj1 c1 (by rw [e1]; rfl)).1
        simp only at this
        left; omega
      · have hz' : Z2 ≤ Z1 := by omega
        rw [if_pos hz'] at e2
        have := (hadj2 c2 (by rw [e2]; rfl)).1
        simp only at this
        right; omega
  · intro x y
    simp only [Sem, hm2, hpm, h1, h2]
    have e1 : MemL (flat' (if Z1 ≤ Z2 then t1 else (Y1, Z1, S1) :: t1)) x y ↔
        if Z1 ≤ Z2 then MemL (flat' t1) x y
        else (Y1 ≤ y ∧ y < Z1 ∧ InSpans S1 x) ∨ MemL (flat' t1) x y := by
      split
      · exact Iff.rfl
      · exact memL_flat_cons hb1 t1 x y
    have e2 : MemL (flat' (if Z2 ≤ Z1 then t2 else (Y2, Z2, S2) :: t2)) x y ↔
        if Z2 ≤ Z1 then MemL (flat' t2) x y
        else (Y2 ≤ y ∧ y < Z2 ∧ InSpans S2 x) ∨ MemL (flat' t2) x y := by
      split
      · exact Iff.rfl
      · exact memL_flat_cons hb2 t2 x y
    rw [e1, e2, memL_flat_cons hb1 t1 x y, memL_flat_cons hb2 t2 x y]
    have := step_arith k app1 app2 hk Y1 Z1 Y2 Z2 s.ybot y (InSpans S1 x) (InSpans S2 x)
      (MemL (flat' t1) x y) (MemL (flat' t2) x y) hY1 hY2 hy1 hy2 hy
      (fun h => memL_flat_tail_ge hB1 h) (fun h => memL_flat_tail_ge hB2 h)
    simp only at this ⊢
    rw [← this]
    simp only [or_assoc]
  · simp only [h1, h2]
    have l1 := flat_length_lt hB1
    have l2 := flat_length_lt hB2
    by_cases hz : Z1 ≤ Z2
    · rw [if_pos hz]
      by_cases hz' : Z2 ≤ Z1
      · rw [if_pos hz']; omega
      · rw [if_neg hz']; omega
    · have hz' : Z2 ≤ Z1 := by omega
      rw [if_neg hz, if_pos hz']; omega


/-! ### the loop -/

theorem sweep_nil_left (k : OpKind) (app1 app2 : Bool) (fuel : Nat) (s : St) (h : s.r1 = []) :
    sweep k app1 app2 fuel s = s := by
  cases fuel with
  | zero => rfl
  | succ n => unfold sweep; split <;> simp_all

theorem sweep_nil_right (k : OpKind) (app1 app2 : Bool) (fuel : Nat) (s : St) (h : s.r2 = []) :
    sweep k app1 app2 fuel s = s := by
  cases fuel with
  | zero => rfl
  | succ n => unfold sweep; split <;> simp_all

theorem sweep_succ_cons (k : OpKind) (app1 app2 : Bool) (fuel : Nat) (s : St)
    (h1 : s.r1 ≠ []) (h2 : s.r2 ≠ []) :
    sweep k app1 app2 (fuel + 1) s = sweep k app1 app2 fuel (sweepStep k app1 app2 s) := by
  rw [sweep]
  split <;> simp_all

theorem sweep_spec (k : OpKind) (app1 app2 : Bool) (hk : Compat k app1 app2) (fuel : Nat) (s : St)
    (hI : SInv s) (hf : s.r1.length + s.r2.length ≤ fuel) :
    SInv (sweep k app1 app2 fuel s) ∧
    ((sweep k app1 app2 fuel s).r1 = [] ∨ (sweep k app1 app2 fuel s).r2 = []) ∧
    ∀ x y, Sem k (sweep k app1 app2 fuel s) x y ↔ Sem k s x y := by
  induction fuel generalizing s with
  | zero =>
    have : s.r1 = [] := List.eq_nil_of_length_eq_zero (by omega)
    exact ⟨hI, Or.inl this, fun _ _ => Iff.rfl⟩
  | succ n ih =>
    obtain ⟨bs1, bs2, h1, hB1, h2, hB2, hy1, hy2, hy, ho⟩ := hI
    cases bs1 with
    | nil =>
      rw [sweep_nil_left _ _ _ _ _ h1]
      exact ⟨⟨[], bs2, h1, hB1, h2, hB2, hy1, hy2, hy, ho⟩, Or.inl h1, fun _ _ => Iff.rfl⟩
    | cons b1 t1 =>
    cases bs2 with
    | nil =>
      rw [sweep_nil_right _ _ _ _ _ h2]
      exact ⟨⟨b1 :: t1, [], h1, hB1, h2, hB2, hy1, hy2, hy, ho⟩, Or.inr h2, fun _ _ => Iff.rfl⟩
    | cons b2 t2 =>
      have hn1 : s.r1 ≠ [] := h1 ▸ flat_cons_ne_nil hB1
      have hn2 : s.r2 ≠ [] := h2 ▸ flat_cons_ne_nil hB2
      rw [sweep_succ_cons _ _ _ _ _ hn1 hn2]
      obtain ⟨hI', hS', hl'⟩ := sweepStep_spec k app1 app2 hk s b1 t1 b2 t2 h1 hB1 h2 hB2
        (hy1 b1 t1 rfl) (hy2 b2 t2 rfl) (hy b1 t1 b2 t2 rfl rfl) ho
      obtain ⟨a, b, c⟩ := ih (sweepStep k app1 app2 s) hI' (by omega)
      exact ⟨a, b, fun x y => (c x y).trans (hS' x y)⟩

/-! ### the tail of pixman_op -/

theorem tail_spec (app : Bool) (o : Out) (ybot : Int) (c : Band') (u : List Band')
    (hB : BandsOK (c :: u)) (ho : OutOK o ybot) (hy : ybot < c.2.1) :
    CanonList (if app then
        (coalesce o (appendNonO c.2.2 (max c.1 ybot) c.2.1)).toList ++ flat' u else o.toList) ∧
    ∀ x y, MemL (if app then
        (coalesce o (appendNonO c.2.2 (max c.1 ybot) c.2.1)).toList ++ flat' u else o.toList) x y ↔
      MemL o.toList x y ∨ (ybot ≤ y ∧ app = true ∧ MemL (flat' (c :: u)) x y) := by
  cases app with
  | false =>
    simp only [Bool.false_eq_true, if_false, false_and, and_false, or_false, implies_true, and_true]
    exact ho.canon
  | true =>
    obtain ⟨Y, Z, S⟩ := c
    have ⟨hb, hadj, hU⟩ := (bandsOK_cons' _ _).1 hB
    have hlt : Y < Z := hb.lt
    simp only at hy
    simp only [if_true, true_and]
    obtain ⟨hO, hM, hP⟩ := coalesce_spec o (appendNonO S (max Y ybot) Z) (max Y ybot) Z ybot ho
      (by omega) (by omega) (appendNonO_allY S _ _) (appendNonO_sep S _ _ hb.sep)
    have hne : appendNonO S (max Y ybot) Z ≠ [] := by
      have := hb.ne_nil
      simp only [appendNonO, ne_eq, List.map_eq_nil_iff]; exact this
    obtain ⟨hp1, hp2, hp3⟩ := hP hne
    constructor
    · obtain ⟨bs, hd, _, hc⟩ := hO
      obtain ⟨y1, y2, hBB, _⟩ := hc hp1
      refine ⟨(bs ++ [(y1, y2, (coalesce o (appendNonO S (max Y ybot) Z)).prev)]) ++ u, ?_, ?_⟩
      · refine (bandsOK_append _ _).2 ⟨hBB, hU, fun a d ha hd' => ?_⟩
        simp only [List.getLast?_append, List.getLast?_singleton, Option.some_or,
          Option.some.injEq] at ha
        subst ha
        have hPb := ((bandsOK_snoc' _ _).1 hBB).2.1
        have hy2 : y2 = Z := by
          cases hpp : (coalesce o (appendNonO S (max Y ybot) Z)).prev with
          | nil => exact absurd hpp hp1
          | cons q qs =>
            have h1 := (hPb.allY q (by simp only; rw [hpp]; exact List.mem_cons_self)).2
            have h2 := hp3 q (by rw [hpp]; exact List.mem_cons_self)
            simp only at h1; omega
        have := hadj d hd'
        refine ⟨by simp only; have := this.1; simp only at this; omega, fun e hss => this.2 (by simp only at e ⊢; omega) ?_⟩
        simp only at hss ⊢
        exact (SameSpans.congr_left (appendNonO_sameSpans S _ _) _).1
          ((SameSpans.congr_left hp2 _).1 hss)
      · show _ = flat' _
        simp only [Out.toList, hd, flat_append', flat_cons', flat_nil', List.append_nil]
    · intro x y
      rw [memL_append', hM, appendNonO_inSpans, memL_flat_cons hb u x y]
      have := fun h => memL_flat_tail_ge hB (x := x) (y := y) h
      simp only at this ⊢
      by_cases hA : InSpans S x <;> by_cases hT : MemL (flat' u) x y <;>
        by_cases hD : MemL o.toList x y <;>
        simp only [hA, hT, hD, true_and, and_true, false_and, and_false, or_false, false_or, or_true,
          true_or, forall_const, false_implies, iff_true, iff_false, true_iff] at this ⊢ <;> omega


/-! ### pixman_op on canonical lists -/

theorem sem_false_right {k : OpKind} {app1 app2 : Bool} (hk : Compat k app1 app2) (p : Prop) :
    k.sem p False ↔ (app1 = true ∧ p) := by
  rcases hk with ⟨rfl, rfl, rfl⟩ | ⟨rfl, rfl, rfl⟩ | ⟨rfl, rfl, rfl⟩ <;> simp [OpKind.sem]

theorem sem_false_left {k : OpKind} {app1 app2 : Bool} (hk : Compat k app1 app2) (q : Prop) :
    k.sem False q ↔ (app2 = true ∧ q) := by
  rcases hk with ⟨rfl, rfl, rfl⟩ | ⟨rfl, rfl, rfl⟩ | ⟨rfl, rfl, rfl⟩ <;> simp [OpKind.sem]

theorem sem_or {k : OpKind} {p q : Prop} (h : k.sem p q) : p ∨ q := by
  cases k <;> simp only [OpKind.sem] at h
  · exact Or.inl h.1
  · exact h
  · exact Or.inl h.1

theorem memL_flat_ge_first {b : Band'} {t : List Band'} (hB : BandsOK (b :: t)) {x y : Int}
    (h : MemL (flat' (b :: t)) x y) : b.1 ≤ y := by
  have ⟨hb, _, _⟩ := (bandsOK_cons' _ _).1 hB
  rcases (memL_flat_cons hb t x y).1 h with h | h
  · exact h.1
  · have := memL_flat_tail_ge hB h
    have := hb.lt
    omega

/-- the part of `pixmanOpRects` after the loop -/
def opTail (app1 app2 : Bool) (s : St) : List Box :=
  match s.r1, s.r2 with
  | r1@(_ :: _), _ =>
    if app1 then
      let sb := splitBand r1
      let o := coalesce s.out (appendNonO sb.1 (max (headY1 r1) s.ybot) (headY2 r1))
      o.toList ++ sb.2
    else s.out.toList
  | [], r2@(_ :: _) =>
    if app2 then
      let sb := splitBand r2
      let o := coalesce s.out (appendNonO sb.1 (max (headY1 r2) s.ybot) (headY2 r2))
      o.toList ++ sb.2
    else s.out.toList
  | [], [] => s.out.toList

theorem pixmanOpRects_eq (k : OpKind) (app1 app2 : Bool) (a b : List Box) :
    pixmanOpRects k app1 app2 a b =
      opTail app1 app2 (sweep k app1 app2 (2 * (a.length + b.length) + 2)
        ⟨a, b, min (headY1 a) (headY1 b), ⟨[], []⟩⟩) := rfl

theorem opTail_left (app1 app2 : Bool) (s : St) (h : s.r1 ≠ []) :
    opTail app1 app2 s =
      if app1 then
        (coalesce s.out (appendNonO (splitBand s.r1).1 (max (headY1 s.r1) s.ybot) (headY2 s.r1))).toList
          ++ (splitBand s.r1).2
      else s.out.toList := by
  cases h' : s.r1 with
  | nil => exact absurd h' h
  | cons d r => simp only [opTail, h']

theorem opTail_right (app1 app2 : Bool) (s : St) (h1 : s.r1 = []) (h : s.r2 ≠ []) :
    opTail app1 app2 s =
      if app2 then
        (coalesce s.out (appendNonO (splitBand s.r2).1 (max (headY1 s.r2) s.ybot) (headY2 s.r2))).toList
          ++ (splitBand s.r2).2
      else s.out.toList := by
  cases h' : s.r2 with
  | nil => exact absurd h' h
  | cons d r => simp only [opTail, h', h1]

theorem opTail_nil (app1 app2 : Bool) (s : St) (h1 : s.r1 = []) (h2 : s.r2 = []) :
    opTail app1 app2 s = s.out.toList := by
  simp only [opTail, h1, h2]

theorem pixmanOpRects_spec (k : OpKind) (app1 app2 : Bool) (hk : Compat k app1 app2)
    (a b : List Box) (ha : CanonList a) (hb : CanonList b) (hna : a ≠ []) (hnb : b ≠ []) :
    CanonList (pixmanOpRects k app1 app2 a b) ∧
    ∀ x y, MemL (pixmanOpRects k app1 app2 a b) x y ↔ k.sem (MemL a x y) (MemL b x y) := by
  obtain ⟨bsa, hBa, rfl⟩ := ha
  obtain ⟨bsb, hBb, rfl⟩ := hb
  cases bsa with
  | nil => exact absurd rfl hna
  | cons ba ta =>
  cases bsb with
  | nil => exact absurd rfl hnb
  | cons bb tb =>
  change CanonList (pixmanOpRects k app1 app2 (flat' (ba :: ta)) (flat' (bb :: tb))) ∧
    ∀ x y, MemL (pixmanOpRects k app1 app2 (flat' (ba :: ta)) (flat' (bb :: tb))) x y ↔
      k.sem (MemL (flat' (ba :: ta)) x y) (MemL (flat' (bb :: tb)) x y)
  rw [pixmanOpRects_eq, headY1_flat hBa, headY1_flat hBb]
  have hla := ((bandsOK_cons' _ _).1 hBa).1.lt
  have hlb := ((bandsOK_cons' _ _).1 hBb).1.lt
  have hI0 : SInv ⟨flat' (ba :: ta), flat' (bb :: tb), min ba.1 bb.1, ⟨[], []⟩⟩ :=
    ⟨ba :: ta, bb :: tb, rfl, hBa, rfl, hBb,
      fun b t e => by cases e; simp only; omega, fun b t e => by cases e; simp only; omega,
      fun b1 t1 b2 t2 e1 e2 => by cases e1; cases e2; simp only; omega, OutOK.init _⟩
  obtain ⟨hI, hE, hS⟩ := sweep_spec k app1 app2 hk
    (2 * ((flat' (ba :: ta)).length + (flat' (bb :: tb)).length) + 2) _ hI0 (by simp only; omega)
  have hS0 : ∀ x y, Sem k ⟨flat' (ba :: ta), flat' (bb :: tb), min ba.1 bb.1, ⟨[], []⟩⟩ x y ↔
      k.sem (MemL (flat' (ba :: ta)) x y) (MemL (flat' (bb :: tb)) x y) := by
    intro x y
    simp only [Sem, Out.toList, List.reverse_nil, List.append_nil, memL_nil', false_or]
    constructor
    · exact fun h => h.2
    · intro h
      refine ⟨?_, h⟩
      rcases sem_or h with h | h
      · have := memL_flat_ge_first hBa h; omega
      · have := memL_flat_ge_first hBb h; omega
  generalize sweep k app1 app2 _ _ = s at hI hE hS ⊢
  obtain ⟨bs1, bs2, h1, hB1, h2, hB2, hy1, hy2, hy, ho⟩ := hI
  cases bs1 with
  | cons c1 u1 =>
    have hn1 : s.r1 ≠ [] := h1 ▸ flat_cons_ne_nil hB1
    have h2' : s.r2 = [] := by
      rcases hE with e | e
      · exact absurd e hn1
      · exact e
    rw [opTail_left _ _ _ hn1, h1, splitBand_flat hB1, headY1_flat hB1, headY2_flat hB1]
    have ⟨hC, hM⟩ := tail_spec app1 s.out s.ybot c1 u1 hB1 ho (hy1 c1 u1 rfl)
    refine ⟨hC, fun x y => ?_⟩
    rw [hM, ← hS0, ← hS]
    simp only [Sem, h1, h2', memL_nil', sem_false_right hk]
  | nil =>
    have h1' : s.r1 = [] := h1
    cases bs2 with
    | cons c2 u2 =>
      have hn2 : s.r2 ≠ [] := h2 ▸ flat_cons_ne_nil hB2
      rw [opTail_right _ _ _ h1' hn2, h2, splitBand_flat hB2, headY1_flat hB2, headY2_flat hB2]
      have ⟨hC, hM⟩ := tail_spec app2 s.out s.ybot c2 u2 hB2 ho (hy2 c2 u2 rfl)
      refine ⟨hC, fun x y => ?_⟩
      rw [hM, ← hS0, ← hS]
      simp only [Sem, h1', h2, memL_nil', sem_false_left hk]
    | nil =>
      have h2' : s.r2 = [] := h2
      rw [opTail_nil _ _ _ h1' h2']
      refine ⟨ho.canon, fun x y => ?_⟩
      rw [← hS0, ← hS]
      simp only [Sem, h1', h2', memL_nil', sem_false_left hk, and_false, or_false]

end Pixman.Region

/-
  validate (steps 2 and 3 with capacities and the ri[] array), init_rects, translate,
  init_from_image and the 16<->32 conversions (C15):
    * ownership transfer for every failure schedule, the bail paths included (F3);
    * when no request is refused on the way (status TRUE) the regions under construction are those
      of the failure-free model (F1).
-/
import Pixman.Lemmas.RegionAllocValidateRefine
import Pixman.Lemmas.RegionAllocMisc
namespace Pixman.Model.RegionAlloc
open Pixman.Region

/-- permutation goals between concatenations of the same pieces -/
macro "perm_solve" : tactic =>
  `(tactic| (rw [List.perm_iff_count]; intro a;
             simp only [List.count_append, List.count_cons, List.count_nil]; omega))

@[simp] theorem regIds_nil : regIds [] = [] := rfl
@[simp] theorem regIds_cons (x : RegionA) (t : List RegionA) : regIds (x :: t) = x.ids ++ regIds t := by
  simp [regIds]

/-! ### one region of step 2 -/

theorem placeNeed_id {r : RIA} {box : Box} {b0 : Blk} (h : placeNeed r box = some b0) : b0.id = r.blk.id := by
  unfold placeNeed at h
  split at h
  · cases h
  · split at h
    · split at h
      · cases h
      · injection h with h; rw [← h]
    · injection h with h; rw [← h]; split <;> rfl

/-- what the C loop body does to one region, against `RI.place` -/
theorem placeA_erase (c : Cfg) (s : Sched) (r : RIA) (box : Box) (h : Heap) :
    match placeA c s r box h with
    | (.placed r', _) => r.ri.place box = some r'.ri
    | (.fail, _) => True
    | (.reject, h') => r.ri.place box = none ∧ h' = h := by
  cases hp : r.ri.place box with
  | none => simp only [placeA, hp]; exact ⟨trivial, trivial⟩
  | some ri' =>
    cases hn : placeNeed r box with
    | none => simp only [placeA, hp, hn]
    | some b0 =>
      cases hab : addBlk c s b0 1 h with
      | mk ob h1 => cases ob <;> simp only [placeA, hp, hn, hab]

theorem placeA_own (c : Cfg) (s : Sched) (r : RIA) (box : Box) (h : Heap) {rest : List Nat}
    (o : Own h (r.blk.id :: rest)) :
    match placeA c s r box h with
    | (.placed r', h') => r'.blk.id = r.blk.id ∧ Own h' (r.blk.id :: rest)
    | (.fail, h') => Own h' rest
    | (.reject, h') => h' = h := by
  cases hp : r.ri.place box with
  | none => simp only [placeA, hp]
  | some ri' =>
    cases hn : placeNeed r box with
    | none => simp only [placeA, hp, hn]; exact ⟨trivial, o⟩
    | some b0 =>
      have hid := placeNeed_id hn
      have ha := Own.addBlk (c := c) (s := s) (b := b0) (n := 1) (h := h) (rest := rest) (by rw [hid]; exact o)
      cases hab : addBlk c s b0 1 h with
      | mk ob h1 =>
        rw [hab] at ha
        cases ob with
        | none => simp only [placeA, hp, hn, hab]; exact ha
        | some b => simp only [placeA, hp, hn, hab]; exact ⟨ha.1.trans hid, by rw [← hid]; exact ha.2⟩

/-! ### the search over the regions (`for j`) -/

def newRI (box : Box) : RI := { extents := box, out := ⟨[], []⟩, cur := [box] }

theorem tryPlace_erase (c : Cfg) (s : Sched) (box : Box) :
    ∀ (ris pre : List RIA) (h : Heap),
      match tryPlace c s box pre ris h with
      | (.placed l, _) => l.map RIA.ri = pre.reverse.map RIA.ri ++ scatterOne box (ris.map RIA.ri)
      | (.failed _, _) => True
      | (.nobody, h') => scatterOne box (ris.map RIA.ri) = ris.map RIA.ri ++ [newRI box] ∧ h' = h
  | [], pre, h => by simp [tryPlace, scatterOne, newRI]
  | r :: rs, pre, h => by
    have hp := placeA_erase c s r box h
    cases hpl : placeA c s r box h with
    | mk res h1 =>
      rw [hpl] at hp
      cases res with
      | placed r' =>
        simp only [tryPlace, hpl]
        simp only at hp
        simp [scatterOne, hp]
      | fail => simp only [tryPlace, hpl]
      | reject =>
        simp only [tryPlace, hpl]
        simp only at hp
        obtain ⟨hp1, hp2⟩ := hp
        subst hp2
        have ih := tryPlace_erase c s box rs (r :: pre) h1
        cases htp : tryPlace c s box (r :: pre) rs h1 with
        | mk tr h2 =>
          rw [htp] at ih
          cases tr with
          | placed l => simp only at ih ⊢; rw [ih]; simp [scatterOne, hp1]
          | failed id => trivial
          | nobody => simp only at ih ⊢; simp [scatterOne, hp1, ih.1, ih.2]

theorem blkIds_cons (r : RIA) (rs : List RIA) : blkIds (r :: rs) = r.blk.id :: blkIds rs := rfl
theorem blkIds_append (a b : List RIA) : blkIds (a ++ b) = blkIds a ++ blkIds b := by simp [blkIds]

theorem tryPlace_own (c : Cfg) (s : Sched) (box : Box) {rest : List Nat} :
    ∀ (ris pre : List RIA) (h : Heap), Own h (blkIds ris ++ rest) →
      match tryPlace c s box pre ris h with
      | (.placed l, h') => blkIds l = blkIds (pre.reverse ++ ris) ∧ Own h' (blkIds ris ++ rest)
      | (.failed id, h') => id ∈ blkIds ris ∧ Own h' ((blkIds ris).erase id ++ rest)
      | (.nobody, h') => h' = h
  | [], pre, h, o => by simp only [tryPlace]
  | r :: rs, pre, h, o => by
    have o' : Own h (r.blk.id :: (blkIds rs ++ rest)) := o
    have hp := placeA_own c s r box h o'
    cases hpl : placeA c s r box h with
    | mk res h1 =>
      rw [hpl] at hp
      cases res with
      | placed r' =>
        simp only [tryPlace, hpl]
        simp only at hp
        refine ⟨?_, hp.2⟩
        simp [blkIds, hp.1]
      | fail =>
        simp only [tryPlace, hpl]
        simp only at hp
        refine ⟨by simp [blkIds], ?_⟩
        simp only [blkIds_cons, List.erase_cons_head]; exact hp
      | reject =>
        simp only [tryPlace, hpl]
        simp only at hp
        subst hp
        have o2 : Own h1 (blkIds rs ++ (r.blk.id :: rest)) := o'.of_perm List.perm_middle.symm
        have ih := tryPlace_own c s box rs (r :: pre) h1 o2
        cases htp : tryPlace c s box (r :: pre) rs h1 with
        | mk tr h2 =>
          rw [htp] at ih
          cases tr with
          | placed l =>
            simp only at ih ⊢
            refine ⟨by rw [ih.1]; simp [blkIds], ?_⟩
            exact ih.2.of_perm List.perm_middle
          | failed id =>
            simp only at ih ⊢
            have hne : r.blk.id ≠ id := by
              intro e
              have hnd := (List.nodup_cons.1 o'.nodup).1
              exact hnd (List.mem_append_left _ (e ▸ ih.1))
            refine ⟨List.mem_cons_of_mem _ ih.1, ?_⟩
            rw [blkIds_cons, List.erase_cons_tail (by simpa using hne)]
            exact ih.2.of_perm List.perm_middle
          | nobody => exact ih

/-! ### creating a region, one step, the whole scatter -/

def vIds (st : VSt) : List Nat := blkIds st.ris ++ st.arr.toList

theorem growRi_own (s : Sched) (st : VSt) (h : Heap) {rest : List Nat} (o : Own h (vIds st ++ rest)) :
    match growRi s st h with
    | (some g, h') => Own h' (blkIds st.ris ++ g.2.toList ++ rest)
    | (none, h') => Own h' (vIds st ++ rest) := by
  unfold growRi
  by_cases hc : (st.cap == st.ris.length) = true
  · simp only [hc, if_true]
    cases ha : st.arr with
    | none =>
      simp only
      have o1 : Own h (blkIds st.ris ++ rest) := by simpa [vIds, ha] using o
      cases hm : h.malloc s with
      | mk oid h1 =>
        cases oid with
        | none => simp only; simpa [vIds, ha] using o1.malloc_none hm
        | some id =>
          simp only [Option.toList]
          exact (o1.malloc_some hm).of_perm (by simpa using List.perm_middle.symm)
    | some id =>
      simp only
      have hid : id ∈ vIds st ++ rest := by simp [vIds, ha]
      have hr := o.realloc s hid
      cases hre : h.realloc s id with
      | mk ok h1 =>
        rw [hre] at hr
        cases ok
        · simpa [vIds, ha] using hr
        · simpa [vIds, ha] using hr
  · simp only [hc, if_false]
    simpa [vIds] using o

theorem newRi_own (c : Cfg) (s : Sched) (st : VSt) (i : Nat) (box : Box) (h : Heap) {rest : List Nat}
    (o : Own h (vIds st ++ rest)) :
    match newRi c s st i box h with
    | (.ok st', h') => Own h' (vIds st' ++ rest)
    | (.bail live arr, h') => Own h' (live ++ arr.toList ++ rest) := by
  have hg := growRi_own s st h o
  unfold newRi
  cases hgr : growRi s st h with
  | mk og h1 =>
    rw [hgr] at hg
    cases og with
    | none => simpa [vIds] using hg
    | some g =>
      simp only at hg ⊢
      cases hal : allocData c s ((i + (st.ris.length + 1)) / (st.ris.length + 1) + 1) h1 with
      | mk oid h2 =>
        cases oid with
        | none => simp only; exact hg.allocData_none hal
        | some id =>
          simp only [vIds]
          have := hg.allocData_some hal
          refine this.of_perm ?_
          simp only [blkIds, List.map_append, List.map_cons, List.map_nil, List.append_assoc, List.cons_append,
            List.nil_append]
          exact List.perm_middle.symm

theorem newRi_erase (c : Cfg) (s : Sched) (st : VSt) (i : Nat) (box : Box) (h : Heap) :
    match newRi c s st i box h with
    | (.ok st', _) => st'.ris.map RIA.ri = st.ris.map RIA.ri ++ [newRI box]
    | (.bail _ _, _) => True := by
  unfold newRi
  cases hgr : growRi s st h with
  | mk og h1 =>
    cases og with
    | none => trivial
    | some g =>
      simp only
      cases hal : allocData c s ((i + (st.ris.length + 1)) / (st.ris.length + 1) + 1) h1 with
      | mk oid h2 => cases oid <;> simp [newRI]

theorem scatterStepA_own (c : Cfg) (s : Sched) (st : VSt) (i : Nat) (box : Box) (h : Heap) {rest : List Nat}
    (o : Own h (vIds st ++ rest)) :
    match scatterStepA c s st i box h with
    | (.ok st', h') => Own h' (vIds st' ++ rest)
    | (.bail live arr, h') => Own h' (live ++ arr.toList ++ rest) := by
  have o1 : Own h (blkIds st.ris ++ (st.arr.toList ++ rest)) := by simpa [vIds] using o
  have ht := tryPlace_own c s box st.ris [] h o1
  unfold scatterStepA
  cases htp : tryPlace c s box [] st.ris h with
  | mk tr h1 =>
    rw [htp] at ht
    cases tr with
    | placed l =>
      simp only at ht ⊢
      have : blkIds l = blkIds st.ris := by simpa using ht.1
      simpa [vIds, this] using ht.2
    | failed id => simp only at ht ⊢; simpa using ht.2
    | nobody => simp only at ht ⊢; subst ht; exact newRi_own c s st i box h1 o

theorem scatterStepA_erase (c : Cfg) (s : Sched) (st : VSt) (i : Nat) (box : Box) (h : Heap) :
    match scatterStepA c s st i box h with
    | (.ok st', _) => st'.ris.map RIA.ri = scatterOne box (st.ris.map RIA.ri)
    | (.bail _ _, _) => True := by
  have ht := tryPlace_erase c s box st.ris [] h
  unfold scatterStepA
  cases htp : tryPlace c s box [] st.ris h with
  | mk tr h1 =>
    rw [htp] at ht
    cases tr with
    | placed l => simp only at ht ⊢; simpa using ht
    | failed id => trivial
    | nobody =>
      simp only at ht ⊢
      have hn := newRi_erase c s st i box h1
      cases hnr : newRi c s st i box h1 with
      | mk sr h2 =>
        rw [hnr] at hn
        cases sr with
        | ok st' => simp only at hn ⊢; rw [hn, ht.1]
        | bail live arr => trivial

theorem scatterA_own (c : Cfg) (s : Sched) {rest : List Nat} :
    ∀ (t : List Box) (st : VSt) (h : Heap), Own h (vIds st ++ rest) →
      match scatterA c s st t h with
      | (.ok st', h') => Own h' (vIds st' ++ rest)
      | (.bail live arr, h') => Own h' (live ++ arr.toList ++ rest)
  | [], st, h, o => by simp only [scatterA]; exact o
  | box :: t, st, h, o => by
    have hs := scatterStepA_own c s st (t.length + 1) box h o
    simp only [scatterA]
    cases hst : scatterStepA c s st (t.length + 1) box h with
    | mk sr h1 =>
      rw [hst] at hs
      cases sr with
      | ok st' => simp only at hs ⊢; exact scatterA_own c s t st' h1 hs
      | bail live arr => simp only at hs ⊢; exact hs

theorem scatterA_erase (c : Cfg) (s : Sched) :
    ∀ (t : List Box) (st : VSt) (h : Heap),
      match scatterA c s st t h with
      | (.ok st', _) => st'.ris.map RIA.ri = t.foldl (fun acc box => scatterOne box acc) (st.ris.map RIA.ri)
      | (.bail _ _, _) => True
  | [], st, h => by simp only [scatterA, List.foldl_nil]
  | box :: t, st, h => by
    have hs := scatterStepA_erase c s st (t.length + 1) box h
    simp only [scatterA]
    cases hst : scatterStepA c s st (t.length + 1) box h with
    | mk sr h1 =>
      rw [hst] at hs
      cases sr with
      | ok st' =>
        simp only at hs ⊢
        have ih := scatterA_erase c s t st' h1
        cases hsa : scatterA c s st' t h1 with
        | mk sr2 h2 =>
          rw [hsa] at ih
          cases sr2 with
          | ok st2 => simp only at ih ⊢; rw [ih, hs]; rfl
          | bail live arr => trivial
      | bail live arr => trivial

/-! ### the final pass -/

theorem finishA_erase (r : RIA) (h : Heap) : (finishA r h).1.erase = r.ri.finish := by
  unfold finishA
  cases hg : r.ri.finish with
  | mk e d => cases d <;> simp [RegionA.erase, DataA.erase]

theorem finishA_own (r : RIA) (h : Heap) {rest : List Nat} (o : Own h (r.blk.id :: rest)) :
    Own (finishA r h).2 ((finishA r h).1.ids ++ rest) := by
  unfold finishA
  cases hg : r.ri.finish with
  | mk e d =>
    cases d with
    | heap l => simpa [RegionA.ids] using o
    | single => simpa [RegionA.ids] using Own.free o
    | emptyStatic => simpa [RegionA.ids] using Own.free o
    | broken => simpa [RegionA.ids] using Own.free o

theorem regIds_append (a b : List RegionA) : regIds (a ++ b) = regIds a ++ regIds b := by
  simp [regIds]

theorem finishAll_erase : ∀ (ris : List RIA) (h : Heap),
    (finishAll ris h).1.map RegionA.erase = (ris.map RIA.ri).map RI.finish
  | [], _ => rfl
  | r :: t, h => by simp [finishAll, finishA_erase, finishAll_erase t]

theorem finishAll_own {rest : List Nat} : ∀ (ris : List RIA) (h : Heap), Own h (blkIds ris ++ rest) →
    Own (finishAll ris h).2 (regIds (finishAll ris h).1 ++ rest)
  | [], _, o => o
  | r :: t, h, o => by
    simp only [finishAll]
    have o1 : Own h (r.blk.id :: (blkIds t ++ rest)) := o
    have o2 := finishA_own r h o1
    have o3 : Own (finishA r h).2 (blkIds t ++ ((finishA r h).1.ids ++ rest)) :=
      o2.of_perm (by perm_solve)
    have o4 := finishAll_own t _ o3
    refine o4.of_perm ?_
    simp only [regIds_cons]
    perm_solve

/-! ### step 3: the binary merge -/

theorem unionPairA_own (c : Cfg) (s : Sched) (reg hreg : RegionA) (h : Heap) {rest : List Nat}
    (o : Own h (reg.ids ++ (hreg.ids ++ rest))) :
    Own (unionPairA c s reg hreg h).2.2 ((unionPairA c s reg hreg h).2.1.ids ++ rest) := by
  unfold unionPairA
  have o1 := Own.pixmanOpA (c := c) (s := s) (k := .union) (app1 := true) (app2 := true) (al := .first)
    (reg1 := reg) (reg2 := hreg) o
  simp only
  rw [ids_mk_data _ (pixmanOpA c s .union true true .first reg reg hreg h).2.1.extents]
  have o2 : Own (pixmanOpA c s .union true true .first reg reg hreg h).2.2
      (hreg.ids ++ ((pixmanOpA c s .union true true .first reg reg hreg h).2.1.ids ++ rest)) :=
    o1.of_perm (by perm_solve)
  exact o2.freeData

theorem unionPairA_erase (c : Cfg) (s : Sched) (reg hreg : RegionA) (h : Heap)
    (ht : (unionPairA c s reg hreg h).1 = true) :
    (unionPairA c s reg hreg h).2.1.erase = unionPair reg.erase hreg.erase := by
  unfold unionPairA at ht ⊢
  simp only at ht ⊢
  have hp := pixmanOpA_true ht
  unfold unionPair
  rw [← hp]
  rfl

theorem zipPairsA_own (c : Cfg) (s : Sched) {rest : List Nat} :
    ∀ (rs gs : List RegionA) (h : Heap), rs.length = gs.length → Own h (regIds rs ++ (regIds gs ++ rest)) →
      Own (zipPairsA c s rs gs h).2.2 (regIds (zipPairsA c s rs gs h).2.1 ++ rest)
  | [], [], h, _, o => by simpa [zipPairsA, regIds] using o
  | [], _ :: _, _, hl, _ => by simp at hl
  | _ :: _, [], _, hl, _ => by simp at hl
  | r :: rs, g :: gs, h, hl, o => by
    simp only [zipPairsA]
    have o1 : Own h (r.ids ++ (g.ids ++ (regIds rs ++ (regIds gs ++ rest)))) := by
      refine o.of_perm ?_
      simp only [regIds_cons]
      perm_solve
    have o2 := unionPairA_own c s r g h o1
    have o3 : Own (unionPairA c s r g h).2.2
        (regIds rs ++ (regIds gs ++ ((unionPairA c s r g h).2.1.ids ++ rest))) := by
      refine o2.of_perm ?_
      perm_solve
    have o4 := zipPairsA_own c s rs gs _ (by simpa using hl) o3
    refine o4.of_perm ?_
    simp only [regIds_cons]
    perm_solve

theorem zipPairsA_erase (c : Cfg) (s : Sched) :
    ∀ (rs gs : List RegionA) (h : Heap), (zipPairsA c s rs gs h).1 = true →
      (zipPairsA c s rs gs h).2.1.map RegionA.erase =
        List.zipWith unionPair (rs.map RegionA.erase) (gs.map RegionA.erase)
  | [], _, _, _ => by simp [zipPairsA]
  | _ :: _, [], _, _ => by simp [zipPairsA]
  | r :: rs, g :: gs, h, ht => by
    simp only [zipPairsA, Bool.and_eq_true] at ht ⊢
    simp only [List.map_cons, List.zipWith_cons_cons]
    rw [unionPairA_erase c s r g h ht.1, zipPairsA_erase c s rs gs _ ht.2]

theorem zipPairsA_length (c : Cfg) (s : Sched) :
    ∀ (rs gs : List RegionA) (h : Heap), (zipPairsA c s rs gs h).2.1.length = min rs.length gs.length
  | [], _, _ => by simp [zipPairsA]
  | _ :: _, [], _ => by simp [zipPairsA]
  | r :: rs, g :: gs, h => by
    simp only [zipPairsA, List.length_cons, zipPairsA_length c s rs gs]
    omega

theorem mergeRoundA_own (c : Cfg) (s : Sched) (ri : List RegionA) (h : Heap) {rest : List Nat}
    (o : Own h (regIds ri ++ rest)) :
    Own (mergeRoundA c s ri h).2.2 (regIds (mergeRoundA c s ri h).2.1 ++ rest) := by
  unfold mergeRoundA
  simp only
  generalize hk : ri.take (ri.length / 2 + ri.length % 2) = keep
  generalize hh : ri.drop (ri.length / 2 + ri.length % 2) = hs
  have hsplit : ri = keep.take (ri.length % 2) ++ (keep.drop (ri.length % 2) ++ hs) := by
    rw [← List.append_assoc, List.take_append_drop, ← hk, ← hh, List.take_append_drop]
  have hlen : (keep.drop (ri.length % 2)).length = hs.length := by
    rw [← hk, ← hh]; simp only [List.length_drop, List.length_take]; omega
  have o1 : Own h (regIds (keep.drop (ri.length % 2)) ++ (regIds hs ++ (regIds (keep.take (ri.length % 2)) ++ rest))) := by
    refine o.of_perm ?_
    conv => lhs; rw [hsplit]
    simp only [regIds_append]
    perm_solve
  have o2 := zipPairsA_own c s _ _ h hlen o1
  refine o2.of_perm ?_
  simp only [regIds_append]
  perm_solve

theorem mergeRoundA_erase (c : Cfg) (s : Sched) (ri : List RegionA) (h : Heap)
    (ht : (mergeRoundA c s ri h).1 = true) :
    (mergeRoundA c s ri h).2.1.map RegionA.erase = mergeRound (ri.map RegionA.erase) := by
  unfold mergeRoundA at ht ⊢
  simp only at ht ⊢
  unfold mergeRound
  simp only [List.map_append, List.length_map, ← List.map_take, ← List.map_drop]
  rw [zipPairsA_erase c s _ _ h ht]

theorem mergeRoundA_length (c : Cfg) (s : Sched) (ri : List RegionA) (h : Heap) :
    (mergeRoundA c s ri h).2.1.length = ri.length / 2 + ri.length % 2 := by
  unfold mergeRoundA
  simp only [List.length_append, zipPairsA_length, List.length_take, List.length_drop]
  omega

theorem mergeAllA_own (c : Cfg) (s : Sched) {rest : List Nat} :
    ∀ (fuel : Nat) (ri : List RegionA) (h : Heap), Own h (regIds ri ++ rest) →
      match mergeAllA c s fuel ri h with
      | (some l, h') => Own h' (regIds l ++ rest)
      | (none, h') => Own h' rest
  | 0, ri, h, o => by simp only [mergeAllA]; exact o
  | fuel + 1, ri, h, o => by
    simp only [mergeAllA]
    by_cases hl : ri.length > 1
    · simp only [hl, if_true]
      have o1 := mergeRoundA_own c s ri h o
      by_cases hok : (mergeRoundA c s ri h).1 = true
      · simp only [hok, if_true]
        exact mergeAllA_own c s fuel _ _ o1
      · simp only [hok, Bool.false_eq_true, if_false]
        exact Own.freeAll _ _ o1
    · simp only [hl, if_false]; exact o

theorem mergeAllA_erase (c : Cfg) (s : Sched) :
    ∀ (fuel : Nat) (ri : List RegionA) (h : Heap),
      match mergeAllA c s fuel ri h with
      | (some l, _) => l.map RegionA.erase = mergeAllRounds fuel (ri.map RegionA.erase)
      | (none, _) => True
  | 0, ri, h => by simp only [mergeAllA, mergeAllRounds]
  | fuel + 1, ri, h => by
    simp only [mergeAllA, mergeAllRounds, List.length_map]
    by_cases hl : ri.length > 1
    · simp only [hl, if_true]
      by_cases hok : (mergeRoundA c s ri h).1 = true
      · simp only [hok, if_true]
        rw [← mergeRoundA_erase c s ri h hok]
        exact mergeAllA_erase c s fuel _ _
      · simp only [hok, Bool.false_eq_true, if_false]
    · simp only [hl, if_false]

theorem mergeAllA_length (c : Cfg) (s : Sched) :
    ∀ (fuel : Nat) (ri : List RegionA) (h : Heap), ri.length ≤ fuel + 1 →
      match mergeAllA c s fuel ri h with
      | (some l, _) => l.length ≤ 1 ∨ l.length = ri.length ∧ ri.length ≤ 1
      | (none, _) => True
  | 0, ri, h, hf => by simp only [mergeAllA]; left; omega
  | fuel + 1, ri, h, hf => by
    simp only [mergeAllA]
    by_cases hl : ri.length > 1
    · simp only [hl, if_true]
      by_cases hok : (mergeRoundA c s ri h).1 = true
      · simp only [hok, if_true]
        have hlen := mergeRoundA_length c s ri h
        have ih := mergeAllA_length c s fuel (mergeRoundA c s ri h).2.1 (mergeRoundA c s ri h).2.2 (by omega)
        cases hm : mergeAllA c s fuel (mergeRoundA c s ri h).2.1 (mergeRoundA c s ri h).2.2 with
        | mk ol h2 =>
          rw [hm] at ih
          cases ol with
          | none => trivial
          | some l => simp only at ih ⊢; left; omega
      · simp only [hok, Bool.false_eq_true, if_false]
    · simp only [hl, if_false]; left; omega

/-! ### validate -/

theorem quickSortRects_ne_nil {l : List Box} (h : l ≠ []) : quickSortRects l ≠ [] := by
  intro e
  have := (quickSortRects_spec l).1
  rw [e] at this
  exact h (List.Perm.eq_nil this.symm)

theorem validateA_own (c : Cfg) (s : Sched) (id size : Nat) (l : List Box) (h : Heap) {rest : List Nat}
    (hne : l ≠ []) (o : Own h (id :: rest)) :
    Own (validateA c s id size l h).2.2 ((validateA c s id size l h).2.1.ids ++ rest) := by
  unfold validateA
  cases hq : quickSortRects l with
  | nil => exact absurd hq (quickSortRects_ne_nil hne)
  | cons b t =>
    simp only
    have o0 : Own h (vIds { ris := [⟨newRI b, ⟨id, size, 1⟩⟩], cap := 64, arr := none } ++ rest) := by
      simpa [vIds, blkIds] using o
    have hs := scatterA_own c s t _ h o0
    simp only [newRI] at hs
    cases hsc : scatterA c s { ris := [⟨{ extents := b, out := ⟨[], []⟩, cur := [b] }, ⟨id, size, 1⟩⟩], cap := 64, arr := none } t h with
    | mk sr h1 =>
      rw [hsc] at hs
      cases sr with
      | bail live arr =>
        simp only at hs ⊢
        have o1 : Own h1 (live ++ (arr.toList ++ rest)) := by simpa using hs
        simpa using (Own.freeAll live _ o1).freeOld
      | ok st =>
        simp only at hs ⊢
        have o1 : Own h1 (blkIds st.ris ++ (st.arr.toList ++ rest)) := by simpa [vIds] using hs
        have o2 := finishAll_own st.ris h1 o1
        have hm := mergeAllA_own c s (finishAll st.ris h1).1.length (finishAll st.ris h1).1 (finishAll st.ris h1).2 o2
        have hlen := mergeAllA_length c s (finishAll st.ris h1).1.length (finishAll st.ris h1).1 (finishAll st.ris h1).2 (by omega)
        cases hma : mergeAllA c s (finishAll st.ris h1).1.length (finishAll st.ris h1).1 (finishAll st.ris h1).2 with
        | mk ol h2 =>
          rw [hma] at hm hlen
          cases ol with
          | none => simp only at hm ⊢; simpa using hm.freeOld
          | some rl =>
            simp only at hm hlen ⊢
            cases rl with
            | nil => simpa using (show Own h2 (st.arr.toList ++ rest) from by simpa using hm).freeOld
            | cons r tl =>
              have htl : tl = [] := by
                cases tl with
                | nil => rfl
                | cons x y => simp at hlen; omega
              subst htl
              simp only
              have o3 : Own h2 (st.arr.toList ++ (r.ids ++ rest)) := hm.of_perm (by simp only [regIds_cons, regIds_nil]; perm_solve)
              exact o3.freeOld

theorem validateA_erase (c : Cfg) (s : Sched) (id size : Nat) (l : List Box) (h : Heap)
    (ht : (validateA c s id size l h).1 = true) :
    (validateA c s id size l h).2.1.erase = validateCore (quickSortRects l) := by
  revert ht
  unfold validateA validateCore
  cases hq : quickSortRects l with
  | nil => intro _; rfl
  | cons b t =>
    simp only
    have hs := scatterA_erase c s t { ris := [⟨{ extents := b, out := ⟨[], []⟩, cur := [b] }, ⟨id, size, 1⟩⟩], cap := 64, arr := none } h
    cases hsc : scatterA c s { ris := [⟨{ extents := b, out := ⟨[], []⟩, cur := [b] }, ⟨id, size, 1⟩⟩], cap := 64, arr := none } t h with
    | mk sr h1 =>
      rw [hsc] at hs
      cases sr with
      | bail live arr => intro ht; simp at ht
      | ok st =>
        simp only [List.map_cons, List.map_nil] at hs ⊢
        have hf := finishAll_erase st.ris h1
        have hm := mergeAllA_erase c s (finishAll st.ris h1).1.length (finishAll st.ris h1).1 (finishAll st.ris h1).2
        cases hma : mergeAllA c s (finishAll st.ris h1).1.length (finishAll st.ris h1).1 (finishAll st.ris h1).2 with
        | mk ol h2 =>
          rw [hma] at hm
          cases ol with
          | none => intro ht; simp at ht
          | some rl =>
            simp only at hm ⊢
            intro _
            have hlen : (finishAll st.ris h1).1.length = (List.map RI.finish
                (List.foldl (fun acc box => scatterOne box acc) [{ extents := b, out := ⟨[], []⟩, cur := [b] }] t)).length := by
              rw [← hs, ← hf]; simp
            rw [hf, hs] at hm
            rw [← hlen, ← hm]
            cases rl <;> rfl

/-! ### init_rects -/

theorem good_of_filter {boxes : List Box} {b : Box}
    (hb : b ∈ boxes.filter fun b => !(decide (b.x1 ≥ b.x2) || decide (b.y1 ≥ b.y2))) : goodRect b = true := by
  have := (List.mem_filter.1 hb).2
  simp only [Bool.not_eq_true', Bool.or_eq_false_iff, decide_eq_false_iff_not] at this
  rw [goodRect_iff]; omega

theorem initRectsA_own (c : Cfg) (s : Sched) (boxes : List Box) (h : Heap) {rest : List Nat} (o : Own h rest) :
    Own (initRectsA c s boxes h).2.2 ((initRectsA c s boxes h).2.1.ids ++ rest) := by
  unfold initRectsA
  split
  · simp only
    cases (initRect c _ _ _ _).data <;> simpa [RegionA.ids] using o
  · simpa using o
  · cases hal : allocData c s boxes.length h with
    | mk oid h1 =>
      cases oid with
      | none => simpa using o.allocData_none hal
      | some id =>
        simp only
        have o1 := o.allocData_some hal
        generalize hfl : List.filter _ boxes = fl
        split
        · simpa using Own.free o1
        · simpa using Own.free o1
        · next hn1 hn2 =>
          exact validateA_own c s id boxes.length fl h1 (by intro e; exact hn1 e) o1

theorem initRect_data (c : Cfg) (x y : Int) (w hh : Nat) :
    (initRect c x y w hh).data = .single ∨ (initRect c x y w hh) = init := by
  simp only [initRect]
  split
  · right; rfl
  · left; rfl

theorem initRectsA_true (c : Cfg) (s : Sched) (boxes : List Box) (h : Heap)
    (ht : (initRectsA c s boxes h).1 = true) :
    ((initRectsA c s boxes h).2.1.erase, true) = initRects c boxes := by
  revert ht
  unfold initRectsA initRects
  split
  · intro _
    simp only
    rcases initRect_data c _ _ _ _ with hd | hd
    · rw [hd]
      generalize initRect c _ _ _ _ = r at hd
      obtain ⟨e, d⟩ := r
      simp only at hd; subst hd; rfl
    · rw [hd]; rfl
  · intro _; rfl
  · next hn1 hn2 =>
    cases hal : allocData c s boxes.length h with
    | mk oid h1 =>
      cases oid with
      | none => intro ht; simp at ht
      | some id =>
        simp only
        generalize hfl : List.filter _ boxes = fl
        have hgood : ∀ b ∈ fl, goodRect b = true := fun b hb => good_of_filter (hfl ▸ hb)
        cases fl with
        | nil => intro _; rfl
        | cons a t =>
          cases t with
          | nil => intro _; rfl
          | cons b t' =>
            simp only
            intro ht
            rw [validateA_erase c s id boxes.length _ h1 ht, validateCore_quickSort _ hgood (by simp)]

/-! ### translate -/

@[simp] theorem erase_mk_heap (e : Box) (id sz : Nat) (l : List Box) :
    (RegionA.mk e (.heap id sz l)).erase = ⟨e, .heap l⟩ := rfl

theorem translateTail_own (c : Cfg) (s : Sched) (e : Box) (id sz : Nat) (l' : List Box) (h : Heap)
    {rest : List Nat} (o : Own h (id :: rest)) :
    Own (translateTail c s e id sz l' h).2 ((translateTail c s e id sz l' h).1.ids ++ rest) := by
  unfold translateTail
  split
  · simpa using Own.free o
  · simpa using Own.free o
  · next hn1 hn2 => exact validateA_own c s id sz l' h (by intro e; exact hn1 e) o

theorem translateTail_refines (c : Cfg) (s : Sched) (e : Box) (id sz : Nat) (l' : List Box) (h : Heap)
    (hg : ∀ b ∈ l', goodRect b = true) :
    (translateTail c s e id sz l' h).1 = brkA ∨
    (translateTail c s e id sz l' h).1.erase =
      (match (motive := List Box → Region) l' with
       | [] => ⟨⟨e.x1, e.y1, e.x1, e.y1⟩, .emptyStatic⟩
       | [b] => ⟨b, .single⟩
       | _ => validateRects l') := by
  unfold translateTail
  cases l' with
  | nil => right; rfl
  | cons a t =>
    cases t with
    | nil => right; rfl
    | cons b t' =>
      simp only
      by_cases hv : (validateA c s id sz (a :: b :: t') h).1 = true
      · right
        rw [validateA_erase c s id sz _ h hv, validateCore_quickSort _ hg (by simp)]
      · left
        exact validateA_false (by simpa using hv)

theorem translateA_own (c : Cfg) (s : Sched) (r : RegionA) (dx dy : Int) (h : Heap) {rest : List Nat}
    (o : Own h (r.ids ++ rest)) :
    Own (translateA c s r dx dy h).2 ((translateA c s r dx dy h).1.ids ++ rest) := by
  obtain ⟨e, d⟩ := r
  unfold translateA
  simp only
  split
  · cases d <;> simpa [RegionA.ids] using o
  · split
    · split
      · cases d <;> simp_all [RegionA.ids, RegionA.nar, RegionA.erase, DataA.erase, Region.nar]
      · exact o.freeData
    · cases d with
      | heap id sz l =>
        simp only
        split
        · exact o
        · exact translateTail_own c s _ id sz _ h o
      | single => simpa [RegionA.ids] using o
      | emptyStatic => simpa [RegionA.ids] using o
      | broken => simpa [RegionA.ids] using o

theorem cfg_min_lt_max (c : Cfg) : c.min < c.max := by
  unfold Cfg.min Cfg.max
  have : (0 : Int) < 2 ^ (c.bits - 1) := Int.pow_pos (by decide)
  omega

theorem good_clampList (c : Cfg) (dx dy : Int) (l : List Box) (hg : ∀ b ∈ l, goodRect b = true) :
    ∀ b ∈ clampList c dx dy l, goodRect b = true := by
  intro b hb
  unfold clampList at hb
  obtain ⟨a, ha, hab⟩ := List.mem_filterMap.1 hb
  have hga := (goodRect_iff a).1 (hg a ha)
  simp only at hab
  split at hab
  · cases hab
  · next ho =>
    injection hab with hab
    subst hab
    have ho' : ¬ (a.x2 + dx ≤ c.min) ∧ ¬ (a.y2 + dy ≤ c.min) ∧ ¬ (a.x1 + dx ≥ c.max) ∧ ¬ (a.y1 + dy ≥ c.max) := by
      simpa [outOfRange, not_or, and_assoc] using ho
    have := cfg_min_lt_max c
    rw [goodRect_iff]
    simp only [clampBox]
    constructor <;> (repeat' split) <;> omega

/-- translate (void): the result is the broken region (validate ran out of memory) or the
    failure-free `Region.translate` -/
theorem translateA_refines (c : Cfg) (s : Sched) (r : RegionA) (dx dy : Int) (h : Heap)
    (hg : ∀ b ∈ r.rects, goodRect b = true) :
    (translateA c s r dx dy h).1 = brkA ∨ (translateA c s r dx dy h).1.erase = translate c r.erase dx dy := by
  obtain ⟨e, d⟩ := r
  by_cases h1 : orSign [e.x1 + dx - c.min, e.y1 + dy - c.min, c.max - (e.x2 + dx), c.max - (e.y2 + dy)] ≥ 0
  · right
    cases d <;> simp only [translateA, translate, erase_extents, h1, if_true] <;> rfl
  · by_cases h2 : outOfRange c (e.x1 + dx) (e.y1 + dy) (e.x2 + dx) (e.y2 + dy) = true
    · right
      cases d <;> simp only [translateA, translate, erase_extents, h1, h2, if_true, if_false] <;> rfl
    · cases d with
      | heap id sz l =>
        simp only [translateA, translate, erase_mk_heap, h1, h2, if_false, Bool.false_eq_true]
        by_cases hl : l.isEmpty = true
        · right; simp only [hl, if_true, erase_mk_heap]
        · simp only [hl, Bool.false_eq_true, if_false]
          have hgl : ∀ b ∈ l, goodRect b = true := by
            simpa [RegionA.rects, RegionA.erase, DataA.erase, Region.rects] using hg
          exact translateTail_refines c s _ id sz _ h (good_clampList c dx dy l hgl)
      | single => right; simp only [translateA, translate, erase_extents, h1, h2, if_false, Bool.false_eq_true]; rfl
      | emptyStatic => right; simp only [translateA, translate, erase_extents, h1, h2, if_false, Bool.false_eq_true]; rfl
      | broken => right; simp only [translateA, translate, erase_extents, h1, h2, if_false, Bool.false_eq_true]; rfl

/-! ### init_from_image -/

theorem runEventsFromEmpty_own (c : Cfg) (s : Sched) {rest : List Nat} :
    ∀ (evs : List Ev) (h : Heap), Own h rest →
      match runEventsFromEmpty c s evs h with
      | (none, h') => Own h' rest
      | (some none, h') => Own h' rest
      | (some (some b), h') => Own h' (b.id :: rest)
  | [], h, o => by simp only [runEventsFromEmpty]; exact o
  | .sub n :: t, h, o => by simp only [runEventsFromEmpty]; exact runEventsFromEmpty_own c s t h o
  | .add n :: t, h, o => by
    simp only [runEventsFromEmpty]
    by_cases hn : (n == 0) = true
    · simp only [hn, if_true]; exact runEventsFromEmpty_own c s t h o
    · simp only [hn, Bool.false_eq_true, if_false]
      cases hal : allocData c s n h with
      | mk oid h1 =>
        cases oid with
        | none => exact o.allocData_none hal
        | some id =>
          simp only
          have hr := Own.runEvents (c := c) (s := s) t ⟨id, n, n⟩ h1 (o.allocData_some hal)
          cases hre : runEvents c s t ⟨id, n, n⟩ h1 with
          | mk ob h2 =>
            rw [hre] at hr
            cases ob with
            | none => exact hr
            | some b => simp only at hr ⊢; rw [hr.1]; exact hr.2

theorem initFromImageA_own (c : Cfg) (s : Sched) (w : Nat) (rows : List (List Bool)) (h : Heap)
    {rest : List Nat} (o : Own h rest) :
    Own (initFromImageA c s w rows h).2 ((initFromImageA c s w rows h).1.ids ++ rest) := by
  unfold initFromImageA
  simp only
  have hr := runEventsFromEmpty_own c s (imgRowsEv ⟨[], [], false, (w : Int) - 1, 0⟩ 0 rows) h o
  cases hre : runEventsFromEmpty c s (imgRowsEv ⟨[], [], false, (w : Int) - 1, 0⟩ 0 rows) h with
  | mk oo h1 =>
    rw [hre] at hr
    cases oo with
    | none => simpa using hr
    | some ob =>
      cases ob with
      | none => simpa using hr
      | some b =>
        simp only at hr ⊢
        cases (initFromImage w rows).data with
        | heap l => simpa [RegionA.ids] using hr
        | single => simpa [RegionA.ids] using Own.free hr
        | emptyStatic => simpa [RegionA.ids] using Own.free hr
        | broken => simpa [RegionA.ids] using Own.free hr

/-- every capacity demand of the list is void -/
def NoAdd (evs : List Ev) : Prop := ∀ n, Ev.add n ∈ evs → n = 0

theorem runEventsFromEmpty_static (c : Cfg) (s : Sched) :
    ∀ (evs : List Ev) (h : Heap),
      match runEventsFromEmpty c s evs h with
      | (some none, _) => NoAdd evs
      | (some (some _), _) => ¬ NoAdd evs
      | (none, _) => True
  | [], h => by simp [runEventsFromEmpty, NoAdd]
  | .sub n :: t, h => by
    have ih := runEventsFromEmpty_static c s t h
    simp only [runEventsFromEmpty]
    have e : NoAdd (.sub n :: t) ↔ NoAdd t := by simp [NoAdd]
    cases hr : runEventsFromEmpty c s t h with
    | mk oo h1 =>
      rw [hr] at ih
      cases oo with
      | none => trivial
      | some ob => cases ob <;> simp only at ih ⊢ <;> rw [e] <;> exact ih
  | .add n :: t, h => by
    simp only [runEventsFromEmpty]
    by_cases hn : (n == 0) = true
    · have hn0 : n = 0 := by simpa using hn
      subst hn0
      simp only [hn, if_true]
      have ih := runEventsFromEmpty_static c s t h
      have e : NoAdd (.add 0 :: t) ↔ NoAdd t := by
        simp only [NoAdd, List.mem_cons]
        constructor
        · intro a m hm; exact a m (Or.inr hm)
        · intro a m hm
          rcases hm with hm | hm
          · injection hm with hm
          · exact a m hm
      cases hr : runEventsFromEmpty c s t h with
      | mk oo h1 =>
        rw [hr] at ih
        cases oo with
        | none => trivial
        | some ob => cases ob <;> simp only at ih ⊢ <;> rw [e] <;> exact ih
    · simp only [hn, Bool.false_eq_true, if_false]
      have hne : n ≠ 0 := by simpa using hn
      have hna : ¬ NoAdd (.add n :: t) := fun a => hne (a n List.mem_cons_self)
      cases hal : allocData c s n h with
      | mk oid h1 =>
        cases oid with
        | none => trivial
        | some id =>
          simp only
          cases hre : runEvents c s t ⟨id, n, n⟩ h1 with
          | mk ob h2 => cases ob <;> simp only <;> first | trivial | exact hna

def tot (st : ImgSt) : Nat := st.done.length + st.prev.length

theorem imgRowEv_noAdd (st : ImgSt) (y : Int) (row : List Bool) :
    NoAdd (imgRowEv st y row) ↔ rowRuns row = [] := by
  unfold imgRowEv NoAdd
  simp only [List.length_map]
  cases hr : rowRuns row with
  | nil => simp
  | cons p t =>
    simp only [List.length_cons, reduceCtorEq, iff_false]
    intro a
    have := a 1 (by simp [List.replicate_succ])
    omega

theorem tot_imgRow (st : ImgSt) (y : Int) (row : List Bool) :
    tot st ≤ tot (imgRow st y row) ∧ (rowRuns row ≠ [] → 0 < tot (imgRow st y row)) ∧
    (rowRuns row = [] → tot st = 0 → tot (imgRow st y row) = 0) := by
  unfold imgRow tot
  simp only
  split
  · next hs =>
    simp only [List.length_map]
    refine ⟨Nat.le_refl _, fun _ => ?_, fun _ h0 => h0⟩
    simp only [Bool.and_eq_true, bne_iff_ne, ne_eq] at hs
    omega
  · simp only [List.length_append, List.length_reverse, List.length_map]
    refine ⟨by omega, fun hne => ?_, fun he h0 => by rw [he]; simp only [List.length_nil]; omega⟩
    cases hr : rowRuns row with
    | nil => exact absurd hr hne
    | cons p t => simp only [List.length_cons]; omega

theorem noAdd_append {a b : List Ev} : NoAdd (a ++ b) ↔ NoAdd a ∧ NoAdd b := by
  simp only [NoAdd, List.mem_append]
  constructor
  · intro h; exact ⟨fun n hn => h n (Or.inl hn), fun n hn => h n (Or.inr hn)⟩
  · rintro ⟨h1, h2⟩ n (hn | hn)
    · exact h1 n hn
    · exact h2 n hn

theorem tot_imgRows : ∀ (rows : List (List Bool)) (st : ImgSt) (y : Int),
    tot st ≤ tot (imgRows st y rows) ∧
    (¬ NoAdd (imgRowsEv st y rows) → 0 < tot (imgRows st y rows)) ∧
    (NoAdd (imgRowsEv st y rows) → tot st = 0 → tot (imgRows st y rows) = 0)
  | [], st, y => by simp [imgRows, imgRowsEv, NoAdd]
  | r :: t, st, y => by
    have h1 := tot_imgRow st y r
    have ih := tot_imgRows t (imgRow st y r) (y + 1)
    simp only [imgRows, imgRowsEv, noAdd_append, imgRowEv_noAdd]
    refine ⟨by omega, fun hna => ?_, fun hna h0 => ih.2.2 hna.2 (h1.2.2 hna.1 h0)⟩
    by_cases hr : rowRuns r = []
    · exact ih.2.1 (fun x => hna ⟨hr, x⟩)
    · have := h1.2.1 hr; omega

/-- init_from_image (void): the broken region, or exactly `Region.initFromImage` -/
theorem initFromImageA_exact (c : Cfg) (s : Sched) (w : Nat) (rows : List (List Bool)) (h : Heap) :
    (initFromImageA c s w rows h).1 = brkA ∨ (initFromImageA c s w rows h).1.erase = initFromImage w rows := by
  have hst := runEventsFromEmpty_static c s (imgRowsEv ⟨[], [], false, (w : Int) - 1, 0⟩ 0 rows) h
  have ht := tot_imgRows rows ⟨[], [], false, (w : Int) - 1, 0⟩ 0
  unfold initFromImageA
  simp only
  cases hre : runEventsFromEmpty c s (imgRowsEv ⟨[], [], false, (w : Int) - 1, 0⟩ 0 rows) h with
  | mk oo h1 =>
    rw [hre] at hst
    cases oo with
    | none => left; rfl
    | some ob =>
      right
      cases ob with
      | none =>
        simp only at hst ⊢
        have h0 := ht.2.2 hst (by simp [tot])
        have hl : (imgRows ⟨[], [], false, (w : Int) - 1, 0⟩ 0 rows).done.reverse ++
            (imgRows ⟨[], [], false, (w : Int) - 1, 0⟩ 0 rows).prev = [] := by
          simp only [tot] at h0
          have a : (imgRows ⟨[], [], false, (w : Int) - 1, 0⟩ 0 rows).done = [] := List.eq_nil_of_length_eq_zero (by omega)
          have b : (imgRows ⟨[], [], false, (w : Int) - 1, 0⟩ 0 rows).prev = [] := List.eq_nil_of_length_eq_zero (by omega)
          simp [a, b]
        simp only [initFromImage, hl]
        rfl
      | some b =>
        simp only at hst ⊢
        have hpos := ht.2.1 hst
        have hl : (imgRows ⟨[], [], false, (w : Int) - 1, 0⟩ 0 rows).done.reverse ++
            (imgRows ⟨[], [], false, (w : Int) - 1, 0⟩ 0 rows).prev ≠ [] := by
          intro e
          have := congrArg List.length e
          simp only [List.length_append, List.length_reverse, List.length_nil] at this
          simp only [tot] at hpos
          omega
        have hd : (initFromImage w rows).data = .single ∨ ∃ l, (initFromImage w rows).data = .heap l := by
          simp only [initFromImage]
          generalize (imgRows ⟨[], [], false, (w : Int) - 1, 0⟩ 0 rows).done.reverse ++
            (imgRows ⟨[], [], false, (w : Int) - 1, 0⟩ 0 rows).prev = l at hl
          cases l with
          | nil => exact absurd rfl hl
          | cons x t =>
            cases t with
            | nil => left; rfl
            | cons y t' =>
              right
              have : ((x :: y :: t').getLast?).isSome = true := by simp
              cases hg : (x :: y :: t').getLast? with
              | none => rw [hg] at this; cases this
              | some e => exact ⟨_, rfl⟩
        generalize initFromImage w rows = g at hd
        obtain ⟨ge, gd⟩ := g
        rcases hd with hd | ⟨l, hd⟩ <;> simp only at hd <;> subst hd <;> rfl

/-! ### pixman-utils.c conversions -/

theorem convBody_own (c : Cfg) (s : Sched) (boxes : List Box) (dst : RegionA) (tmp : Nat) (h : Heap)
    {rest : List Nat} (o : Own h (tmp :: (dst.ids ++ rest))) :
    Own ((initRectsA c s boxes (finiA dst h)).2.2.free tmp) ((initRectsA c s boxes (finiA dst h)).2.1.ids ++ rest) := by
  have o1 : Own h (dst.ids ++ (tmp :: rest)) := o.of_perm (by perm_solve)
  have o2 := initRectsA_own c s boxes _ (Own.finiA o1)
  have o3 : Own (initRectsA c s boxes (finiA dst h)).2.2 (tmp :: ((initRectsA c s boxes (finiA dst h)).2.1.ids ++ rest)) :=
    o2.of_perm (by perm_solve)
  exact Own.free o3

theorem region16From32A_own (s : Sched) (dst src : RegionA) (h : Heap) {rest : List Nat}
    (o : Own h (dst.ids ++ rest)) :
    Own (region16From32A s dst src h).2.2 ((region16From32A s dst src h).2.1.ids ++ rest) := by
  unfold region16From32A
  cases hm : h.malloc s with
  | mk oid h1 =>
    cases oid with
    | none => exact o.malloc_none hm
    | some tmp => exact convBody_own c16 s _ dst tmp h1 (o.malloc_some hm)

theorem region32From16A_own (s : Sched) (dst src : RegionA) (h : Heap) {rest : List Nat}
    (o : Own h (dst.ids ++ rest)) :
    Own (region32From16A s dst src h).2.2 ((region32From16A s dst src h).2.1.ids ++ rest) := by
  unfold region32From16A
  split
  · cases hm : h.malloc s with
    | mk oid h1 =>
      cases oid with
      | none => exact o.malloc_none hm
      | some tmp => exact convBody_own c32 s _ dst tmp h1 (o.malloc_some hm)
  · exact initRectsA_own c32 s _ _ (Own.finiA o)

/-- conversion 32→16: TRUE ⇒ the failure-free conversion; FALSE ⇒ the destination is broken, or —
    when the temporary box array was refused — left exactly as it was -/
theorem region16From32A_outcome (s : Sched) (dst src : RegionA) (h : Heap) :
    ((region16From32A s dst src h).1 = true →
      ((region16From32A s dst src h).2.1.erase, true) = region16FromRegion32 src.erase) ∧
    ((region16From32A s dst src h).1 = false →
      (region16From32A s dst src h).2.1 = brkA ∨ (region16From32A s dst src h).2.1 = dst) := by
  unfold region16From32A region16FromRegion32
  cases hm : h.malloc s with
  | mk oid h1 =>
    cases oid with
    | none => exact ⟨fun ht => by simp at ht, fun _ => Or.inr rfl⟩
    | some tmp => exact ⟨fun ht => initRectsA_true c16 s _ _ ht, fun hf => Or.inl (initRectsA_false hf)⟩

theorem region32From16A_outcome (s : Sched) (dst src : RegionA) (h : Heap) :
    ((region32From16A s dst src h).1 = true →
      ((region32From16A s dst src h).2.1.erase, true) = region32FromRegion16 src.erase) ∧
    ((region32From16A s dst src h).1 = false →
      (region32From16A s dst src h).2.1 = brkA ∨ (region32From16A s dst src h).2.1 = dst) := by
  unfold region32From16A region32FromRegion16
  split
  · cases hm : h.malloc s with
    | mk oid h1 =>
      cases oid with
      | none => exact ⟨fun ht => by simp at ht, fun _ => Or.inr rfl⟩
      | some tmp => exact ⟨fun ht => initRectsA_true c32 s _ _ ht, fun hf => Or.inl (initRectsA_false hf)⟩
  · exact ⟨fun ht => initRectsA_true c32 s _ _ ht, fun hf => Or.inl (initRectsA_false hf)⟩

end Pixman.Model.RegionAlloc

import Pixman.Model.Gradient
import Pixman.Spec.Gradient
import Pixman.Lemmas.GradientGeometry
import Pixman.Lemmas.GradientWalker
import Pixman.Lemmas.GradientCompose
/-! Which pixels a radial gradient paints (a < 0: all; a = 0: an open half plane; a > 0: nothing
    outside the cone), opaque stops paint alpha 1, the conical parameter, the projective linear loop. -/
namespace Pixman.Model.Gradient
open Pixman.Matrix (Vec wrapS32 fixed1)

/-! ### radial: the radii at the two roots -/

theorem lt_or_eq_of_le' {a b : Rat} (h : a ≤ b) : a < b ∨ a = b := by
  by_cases e : a = b
  · exact Or.inr e
  · left; grind

theorem mul_pos_of_neg_neg {x y : Rat} (hx : x < 0) (hy : y < 0) : 0 < x * y := by
  have h1 : 0 < -x := by grind
  have h2 : 0 < -y := by grind
  have := Rat.mul_pos h1 h2
  grind

theorem mul_neg_of_neg_pos {x y : Rat} (hx : x < 0) (hy : 0 < y) : x * y < 0 := by
  have h1 : 0 < -x := by grind
  have := Rat.mul_pos h1 hy
  grind

/-- `a · r(τ₀) · r(τ₁) = |r1·d + dr·pd|²`: the product of the radii at the two roots has the sign of `a` -/
theorem radii_product (dx dy dr pdx pdy r1 s a b c : Rat)
    (ha : a = dx * dx + dy * dy - dr * dr) (hb : b = pdx * dx + pdy * dy + r1 * dr)
    (hc : c = pdx * pdx + pdy * pdy - r1 * r1) (ha0 : a ≠ 0) (hs : s * s = b * b - a * c) :
    a * ((r1 + (b + s) / a * dr) * (r1 + (b - s) / a * dr)) =
      (r1 * dx + dr * pdx) * (r1 * dx + dr * pdx) + (r1 * dy + dr * pdy) * (r1 * dy + dr * pdy) := by
  have e1 : a * ((r1 + (b + s) / a * dr) * (r1 + (b - s) / a * dr)) =
      a * r1 * r1 + 2 * b * r1 * dr + (b * b - s * s) / a * dr * dr := by grind
  rw [e1, hs]
  have e2 : (b * b - (b * b - a * c)) / a = c := by grind
  rw [e2]
  subst ha hb hc
  grind

/-- one circle strictly inside the other (`a < 0`): the discriminant is never negative -/
theorem contained_discr_nonneg (dx dy dr pdx pdy r1 a b c : Rat)
    (ha : a = dx * dx + dy * dy - dr * dr) (hb : b = pdx * dx + pdy * dy + r1 * dr)
    (hc : c = pdx * pdx + pdy * pdy - r1 * r1) (hneg : a < 0) : 0 ≤ b * b - a * c := by
  have hid : dr * dr * (b * b - a * c) = (a * r1 + b * dr) * (a * r1 + b * dr) -
      a * ((r1 * dx + dr * pdx) * (r1 * dx + dr * pdx) + (r1 * dy + dr * pdy) * (r1 * dy + dr * pdy)) := by
    subst ha hb hc; grind
  have h1 := sq_nonneg (a * r1 + b * dr)
  have h2 := sq_nonneg (r1 * dx + dr * pdx)
  have h3 := sq_nonneg (r1 * dy + dr * pdy)
  have hna : 0 ≤ -a := by grind
  have h4 := Rat.mul_nonneg hna (show 0 ≤ (r1 * dx + dr * pdx) * (r1 * dx + dr * pdx) + (r1 * dy + dr * pdy) * (r1 * dy + dr * pdy) by grind)
  have hrhs : 0 ≤ dr * dr * (b * b - a * c) := by rw [hid]; grind
  have hdr : 0 < dr * dr := by
    have h5 := sq_nonneg dx
    have h6 := sq_nonneg dy
    have h7 := sq_nonneg dr
    rcases (Rat.le_total : dr * dr ≤ 0 ∨ 0 ≤ dr * dr) with h | h
    · subst ha; grind
    · rcases lt_or_eq_of_le' h with h' | h'
      · exact h'
      · subst ha; grind
  rcases (Rat.le_total : 0 ≤ b * b - a * c ∨ b * b - a * c ≤ 0) with h | h
  · exact h
  · rcases lt_or_eq_of_le' h with h' | h'
    · have := mul_neg_of_neg_pos h' hdr
      grind
    · rw [h']; exact Rat.le_refl

/-- `a < 0`: the radius at one of the two roots is not negative -/
theorem contained_some_radius_nonneg (dx dy dr pdx pdy r1 s a b c : Rat)
    (ha : a = dx * dx + dy * dy - dr * dr) (hb : b = pdx * dx + pdy * dy + r1 * dr)
    (hc : c = pdx * pdx + pdy * pdy - r1 * r1) (hneg : a < 0) (hs : s * s = b * b - a * c) :
    0 ≤ r1 + (b + s) / a * dr ∨ 0 ≤ r1 + (b - s) / a * dr := by
  have key := radii_product dx dy dr pdx pdy r1 s a b c ha hb hc (by grind) hs
  have h2 := sq_nonneg (r1 * dx + dr * pdx)
  have h3 := sq_nonneg (r1 * dy + dr * pdy)
  rcases (Rat.le_total : 0 ≤ r1 + (b + s) / a * dr ∨ r1 + (b + s) / a * dr ≤ 0) with h | h
  · exact Or.inl h
  · rcases (Rat.le_total : 0 ≤ r1 + (b - s) / a * dr ∨ r1 + (b - s) / a * dr ≤ 0) with h' | h'
    · exact Or.inr h'
    · rcases lt_or_eq_of_le' h with g | g
      · rcases lt_or_eq_of_le' h' with g' | g'
        · have hp := mul_pos_of_neg_neg g g'
          have := mul_neg_of_neg_pos hneg hp
          grind
        · right; rw [g']; exact Rat.le_refl
      · left; rw [g]; exact Rat.le_refl

/-- `a < 0`, a repeat mode other than NONE: `radial_write_color` always finds an admissible root -/
theorem radialT_contained_isSome (dx dy dr pdx pdy r1 s a b c : Rat) (rep : Repeat)
    (ha : a = dx * dx + dy * dy - dr * dr) (hb : b = pdx * dx + pdy * dy + r1 * dr)
    (hc : c = pdx * pdx + pdy * pdy - r1 * r1) (hneg : a < 0) (hs : s * s = b * b - a * c) (hrep : rep ≠ .none) :
    ∃ t, radialT a b c (65536 / a) dr (-1 * 65536 * r1) s rep = some t := by
  have ha0 : a ≠ 0 := by grind
  have hd := contained_discr_nonneg dx dy dr pdx pdy r1 a b c ha hb hc hneg
  have hr := contained_some_radius_nonneg dx dy dr pdx pdy r1 s a b c ha hb hc hneg hs
  rw [radialT_ne_zero _ _ _ _ _ _ _ _ ha0]
  have hge : b * b - a * c ≥ 0 := hd
  simp only [hge, if_true]
  have adm : ∀ σ : Rat, 0 ≤ r1 + (b + σ) / a * dr → admC rep dr (-1 * 65536 * r1) ((b + σ) * (65536 / a)) := by
    intro σ h
    unfold admC
    simp only [hrep, if_false]
    have : (b + σ) * (65536 / a) * dr = 65536 * ((b + σ) / a * dr) := by grind
    rw [ge_iff_le, this]
    grind
  rcases hr with h | h
  · have := adm s h
    simp only [this, if_true]
    exact ⟨_, rfl⟩
  · have h' : 0 ≤ r1 + (b + -s) / a * dr := by
      have : b + -s = b - s := by grind
      rw [this]; exact h
    have := adm (-s) h'
    have e : b + -s = b - s := by grind
    rw [e] at this
    by_cases h0 : admC rep dr (-1 * 65536 * r1) ((b + s) * (65536 / a))
    · simp only [h0, if_true]; exact ⟨_, rfl⟩
    · simp only [h0, if_false, this, if_true]; exact ⟨_, rfl⟩


/-- what is asked of the `sqrt` parameter: on non-negative arguments a non-negative square root -/
def IsSqrt (f : Rat → Rat) : Prop := ∀ q, 0 ≤ q → 0 ≤ f q ∧ f q * f q = q

/-- `radial_write_color` for the point at `(pdx, pdy)` from the first centre (any unit; the model uses
    16.16): with `a < 0` and a repeat mode other than NONE a colour is written (never `memset 0`) -/
theorem radialPx_contained (r : Radial) (f : Rat → Rat) (hf : IsSqrt f) (rep : Repeat) (hrep : rep ≠ .none)
    (ha : r.a < 0) (pdx pdy : Rat) :
    ∃ t, radialPx r f rep (pdx * (r.dx : Rat) + pdy * (r.dy : Rat) + (r.r1 : Rat) * (r.dr : Rat))
      (pdx * pdx + pdy * pdy - (r.r1 : Rat) * (r.r1 : Rat)) = Px.pos t := by
  have haq : ((r.a : Int) : Rat) = (r.dx : Rat) * (r.dx : Rat) + (r.dy : Rat) * (r.dy : Rat) - (r.dr : Rat) * (r.dr : Rat) := by
    simp only [Radial.a, Rat.intCast_sub, Rat.intCast_add, Rat.intCast_mul]
  have hneg : ((r.a : Int) : Rat) < 0 := by exact_mod_cast ha
  have ha0 : r.a ≠ 0 := by omega
  have hd := contained_discr_nonneg (r.dx : Rat) (r.dy : Rat) (r.dr : Rat) pdx pdy (r.r1 : Rat) _ _ _ haq rfl rfl hneg
  obtain ⟨hs0, hs⟩ := hf _ hd
  obtain ⟨t, ht⟩ := radialT_contained_isSome (r.dx : Rat) (r.dy : Rat) (r.dr : Rat) pdx pdy (r.r1 : Rat) _ _ _ _ rep haq rfl rfl hneg hs hrep
  refine ⟨truncZ t, ?_⟩
  unfold radialPx
  simp only [Radial.inva, ha0, if_false, Radial.mindr]
  rw [ht]

/-- the affine row loop: every pixel gets a colour -/
theorem radialAffineLoop_contained (r : Radial) (f : Rat → Rat) (hf : IsSqrt f) (rep : Repeat) (hrep : rep ≠ .none)
    (ha : r.a < 0) (ux uy vx vy : Int) (n : Nat) :
    ∀ p ∈ radialAffineLoop r f rep (ux * r.dx + uy * r.dy) (2 * (ux * ux + uy * uy)) n
        (bAt r vx vy) (cAt r vx vy) (dcAt ux uy vx vy), ∃ t, p = Px.pos t := by
  rw [radialAffineLoop_closed]
  intro p hp
  rw [List.mem_map] at hp
  obtain ⟨i, _, rfl⟩ := hp
  have h := radialPx_contained r f hf rep hrep ha ((vx + (i : Int) * ux : Int) : Rat) ((vy + (i : Int) * uy : Int) : Rat)
  have eb : ((bAt r (vx + (i : Int) * ux) (vy + (i : Int) * uy) : Int) : Rat) =
      ((vx + (i : Int) * ux : Int) : Rat) * (r.dx : Rat) + ((vy + (i : Int) * uy : Int) : Rat) * (r.dy : Rat) + (r.r1 : Rat) * (r.dr : Rat) := by
    simp only [bAt, Rat.intCast_add, Rat.intCast_mul]
  have ec : ((cAt r (vx + (i : Int) * ux) (vy + (i : Int) * uy) : Int) : Rat) =
      ((vx + (i : Int) * ux : Int) : Rat) * ((vx + (i : Int) * ux : Int) : Rat) +
        ((vy + (i : Int) * uy : Int) : Rat) * ((vy + (i : Int) * uy : Int) : Rat) - (r.r1 : Rat) * (r.r1 : Rat) := by
    simp only [cAt, Rat.intCast_add, Rat.intCast_mul, Rat.intCast_neg]; grind
  rw [eb, ec]
  exact h

/-- the projective row loop: a pixel whose homogeneous coordinate is not 0 gets a colour (one with
    `v.z = 0` is cleared: `radial_wzero_cleared`) -/
theorem radialProjLoop_contained (r : Radial) (f : Rat → Rat) (hf : IsSqrt f) (rep : Repeat) (hrep : rep ≠ .none)
    (ha : r.a < 0) (unit v : Vec) (n : Nat) (hz : v.z ≠ 0) :
    ∃ t, (radialProjLoop r f rep unit (n + 1) v).head? = some (Px.pos t) := by
  simp only [radialProjLoop, hz, ne_eq, not_false_eq_true, if_true, List.head?_cons]
  have h := radialPx_contained r f hf rep hrep ha
    ((v.x : Rat) * (65536 / (v.z : Rat)) - (r.c1x : Rat)) ((v.y : Rat) * (65536 / (v.z : Rat)) - (r.c1y : Rat))
  obtain ⟨t, ht⟩ := h
  refine ⟨t, ?_⟩
  have e : ∀ (p q : Rat), p * p + q * q + -(r.r1 : Rat) * (r.r1 : Rat) = p * p + q * q - (r.r1 : Rat) * (r.r1 : Rat) := by
    intro p q; grind
  rw [e, ht]

/-! ### radial: `a = 0` (the circles touch from inside) and `a > 0` -/

/-- `a = 0`, `dr ≠ 0`, repeat other than NONE: a colour is written exactly on the open half plane
    `b · dr > 0`, i.e. `((p - c1)·(c2 - c1) + r1 (r2 - r1)) (r2 - r1) > 0` -/
theorem radialT_tangent_half_plane (dx dy dr pdx pdy r1 s b c : Rat) (rep : Repeat)
    (ha : dx * dx + dy * dy - dr * dr = 0) (hb : b = pdx * dx + pdy * dy + r1 * dr)
    (hc : c = pdx * pdx + pdy * pdy - r1 * r1) (hdr : dr ≠ 0) (hrep : rep ≠ .none) (inva : Rat) :
    (∃ t, radialT 0 b c inva dr (-1 * 65536 * r1) s rep = some t) ↔ 0 < b * dr := by
  -- 2 b r1 + dr c = |dr pd + r1 d|² / dr
  have hN : dr * (2 * b * r1 + dr * c) =
      (r1 * dx + dr * pdx) * (r1 * dx + dr * pdx) + (r1 * dy + dr * pdy) * (r1 * dy + dr * pdy) := by
    have hd : dx * dx + dy * dy = dr * dr := by grind
    subst hb hc
    have : (r1 * dx + dr * pdx) * (r1 * dx + dr * pdx) + (r1 * dy + dr * pdy) * (r1 * dy + dr * pdy) =
        r1 * r1 * (dx * dx + dy * dy) + 2 * r1 * dr * (pdx * dx + pdy * dy) + dr * dr * (pdx * pdx + pdy * pdy) := by grind
    rw [this, hd]; grind
  have h2 := sq_nonneg (r1 * dx + dr * pdx)
  have h3 := sq_nonneg (r1 * dy + dr * pdy)
  by_cases hb0 : b = 0
  · subst hb0
    constructor
    · intro ⟨t, ht⟩; simp [radialT] at ht
    · intro h; have : (0 : Rat) * dr = 0 := by grind
      rw [this] at h; exact absurd h (by decide)
  · rw [radialT_zero _ _ _ _ _ _ _ hb0]
    have hadm : admC rep dr (-1 * 65536 * r1) (32768 * c / b) ↔ 0 ≤ (2 * b * r1 + dr * c) / (2 * b) := by
      unfold admC
      simp only [hrep, if_false, ge_iff_le]
      have h1 : (2 * b * r1 + dr * c) / (2 * b) = r1 + dr * c / (2 * b) := by grind
      have h2 : dr * c / (2 * b) = c / b * dr / 2 := by grind
      have e : 32768 * c / b * dr = 65536 * ((2 * b * r1 + dr * c) / (2 * b)) - 65536 * r1 := by
        rw [h1, h2]
        have : 32768 * c / b * dr = 32768 * (c / b * dr) := by grind
        rw [this]; grind
      rw [e]
      constructor <;> intro h <;> grind
    -- N > 0 because b ≠ 0
    have hNpos : 0 < dr * (2 * b * r1 + dr * c) := by
      rw [hN]
      rcases lt_or_eq_of_le' (show (0 : Rat) ≤ (r1 * dx + dr * pdx) * (r1 * dx + dr * pdx) + (r1 * dy + dr * pdy) * (r1 * dy + dr * pdy) by grind) with h | h
      · exact h
      · exfalso
        have zx : (r1 * dx + dr * pdx) * (r1 * dx + dr * pdx) = 0 := by grind
        have zy : (r1 * dy + dr * pdy) * (r1 * dy + dr * pdy) = 0 := by grind
        have ex := sq_eq_zero zx
        have ey := sq_eq_zero zy
        have hd : dx * dx + dy * dy = dr * dr := by grind
        have : b * dr = 0 := by
          subst hb
          have e1 : pdx * dx * dr = -(r1 * dx * dx) := by grind
          have e2 : pdy * dy * dr = -(r1 * dy * dy) := by grind
          have : (pdx * dx + pdy * dy + r1 * dr) * dr = pdx * dx * dr + pdy * dy * dr + r1 * (dr * dr) := by grind
          rw [this, e1, e2, ← hd]; grind
        rcases Rat.mul_eq_zero.mp this with h' | h'
        · exact hb0 h'
        · exact hdr h'
    -- sign analysis of (2 b r1 + dr c) / (2 b) = N / (2 b dr)
    have hbd : b * dr ≠ 0 := by
      intro h; rcases Rat.mul_eq_zero.mp h with h' | h'
      · exact hb0 h'
      · exact hdr h'
    have hq : (2 * b * r1 + dr * c) / (2 * b) = (dr * (2 * b * r1 + dr * c)) / (2 * (b * dr)) := by
      generalize 2 * b * r1 + dr * c = X
      have e1 : 2 * (b * dr) = (2 * b) * dr := by grind
      rw [e1]
      have h2b : 2 * b ≠ 0 := by grind
      grind
    constructor
    · intro ⟨t, ht⟩
      by_cases hA : admC rep dr (-1 * 65536 * r1) (32768 * c / b)
      · have h0 := hadm.mp hA
        rw [hq] at h0
        rcases (Rat.le_total : 0 ≤ b * dr ∨ b * dr ≤ 0) with h | h
        · rcases lt_or_eq_of_le' h with g | g
          · exact g
          · exact absurd g.symm hbd
        · exfalso
          rcases lt_or_eq_of_le' h with g | g
          · have hy : 0 ≤ -(2 * (b * dr)) := by grind
            have hmul := Rat.mul_nonneg h0 hy
            have hy0 : 2 * (b * dr) ≠ 0 := by grind
            have e : dr * (2 * b * r1 + dr * c) / (2 * (b * dr)) * -(2 * (b * dr)) = -(dr * (2 * b * r1 + dr * c)) := by
              generalize dr * (2 * b * r1 + dr * c) = N
              generalize 2 * (b * dr) = y at hy0
              grind
            rw [e] at hmul
            grind
          · exact hbd g
      · simp [hA] at ht
    · intro hpos
      have hinv : 0 < (2 * (b * dr))⁻¹ := Rat.inv_pos.mpr (by grind)
      have := Rat.mul_pos hNpos hinv
      have hA : admC rep dr (-1 * 65536 * r1) (32768 * c / b) := by
        rw [hadm, hq, Rat.div_def]; exact Rat.le_of_lt this
      simp only [hA, if_true]
      exact ⟨_, rfl⟩

/-- `a ≠ 0`: outside the cone swept by the two circles (`discr < 0`) nothing is written -/
theorem radialT_exterior_transparent (a b c inva dr mindr s : Rat) (rep : Repeat) (ha : a ≠ 0)
    (hd : b * b - a * c < 0) : radialT a b c inva dr mindr s rep = none := by
  rw [radialT_ne_zero _ _ _ _ _ _ _ _ ha]
  have : ¬ (b * b - a * c ≥ 0) := by grind
  simp only [this, if_false]


/-! ### opaque stops paint alpha 1 (any stop list, any repeat mode but NONE, any walk) -/

/-- every stop has alpha 0xffff -/
def AllOpaque (stops : Array Stop) : Prop := ∀ i, i < stops.size → (stops.getD i default).c.a = 65535

theorem coeffs_alpha_one (s : Sel) (h1 : s.leftC.a = 65535) (h2 : s.rightC.a = 65535) :
    (resetCoeffs s).aS = 0 ∧ (resetCoeffs s).aB = 1 := by
  unfold resetCoeffs
  simp only [h1, h2]
  split
  · refine ⟨rfl, ?_⟩
    simp only [chan]; decide +kernel
  · refine ⟨?_, ?_⟩
    · simp only [slope, chan]; grind
    · simp only [offset, chan]; decide +kernel

theorem sentinel_alpha (rep : Repeat) (stops : Array Stop) (hrep : rep ≠ .none) (hne : 0 < stops.size)
    (ho : AllOpaque stops) : (sentinels rep stops).1.c.a = 65535 ∧ (sentinels rep stops).2.c.a = 65535 := by
  have h0 := ho 0 hne
  have h1 := ho (stops.size - 1) (by omega)
  cases rep
  · exact absurd rfl hrep
  · exact ⟨h1, h0⟩
  · exact ⟨h0, h1⟩
  · exact ⟨h0, h1⟩

theorem resetSel_alpha (rep : Repeat) (stops : Array Stop) (pos : Int) (hrep : rep ≠ .none) (hne : 0 < stops.size)
    (ho : AllOpaque stops) :
    (resetSel (walkerInit rep stops) pos).leftC.a = 65535 ∧ (resetSel (walkerInit rep stops) pos).rightC.a = 65535 := by
  rw [resetSel_init]
  obtain ⟨hn, _, _⟩ := search_brackets rep stops (foldPos rep pos)
  simp only [stopAt_left rep stops _ hn, stopAt_right rep stops _ hn]
  obtain ⟨s1, s2⟩ := sentinel_alpha rep stops hrep hne ho
  generalize searchFrom (extStops rep stops) stops.size (foldPos rep pos) 0 = n at hn
  have hl : (if n = 0 then (sentinels rep stops).1 else stops.getD (n - 1) default).c.a = 65535 := by
    by_cases h : n = 0
    · simp only [h, if_true]; exact s1
    · simp only [h, if_false]; exact ho (n - 1) (by omega)
  have hr : (if n < stops.size then stops.getD n default else (sentinels rep stops).2).c.a = 65535 := by
    by_cases h : n < stops.size
    · simp only [h, if_true]; exact ho n h
    · simp only [h, if_false]; exact s2
  cases rep
  · exact absurd rfl hrep
  · exact ⟨hl, hr⟩
  · exact ⟨hl, hr⟩
  · simp only []
    split
    · exact ⟨hr, hl⟩
    · exact ⟨hl, hr⟩

/-- the walker belongs to this gradient and its alpha coefficients, if valid, are those of alpha 1 -/
structure OpaqueInv (rep : Repeat) (stops : Array Stop) (w : Walker) : Prop where
  ext : w.ext = extStops rep stops
  num : w.numStops = stops.size
  rep : w.rep = rep
  alpha : w.needReset = true ∨ (w.aS = 0 ∧ w.aB = 1)

theorem walkerInit_opaqueInv (rep : Repeat) (stops : Array Stop) : OpaqueInv rep stops (walkerInit rep stops) :=
  ⟨rfl, rfl, rfl, Or.inl rfl⟩

theorem walkerSeek_opaque (rep : Repeat) (stops : Array Stop) (w : Walker) (x : Int) (hrep : rep ≠ .none)
    (hne : 0 < stops.size) (ho : AllOpaque stops) (hi : OpaqueInv rep stops w) :
    OpaqueInv rep stops (walkerSeek w x) ∧ (walkerSeek w x).aS = 0 ∧ (walkerSeek w x).aB = 1 := by
  unfold walkerSeek
  split
  · -- reset: the same selection as for a fresh walker of this gradient
    have hw : resetSel w x = resetSel (walkerInit rep stops) x := by
      obtain ⟨he, hn, hr, _⟩ := hi
      rcases w with ⟨ns, ext, rp, _, _, _, _, _, _, _, _, _, _, _, _⟩
      simp only at he hn hr
      subst he hn hr
      rfl
    have ha := resetSel_alpha rep stops x hrep hne ho
    rw [← hw] at ha
    have hc := coeffs_alpha_one _ ha.1 ha.2
    refine ⟨⟨hi.ext, hi.num, hi.rep, Or.inr ⟨hc.1, hc.2⟩⟩, hc.1, hc.2⟩
  · rename_i hcond
    have hnr : w.needReset = false := by
      cases h : w.needReset
      · rfl
      · simp [h] at hcond
    rcases hi.alpha with h | h
    · rw [hnr] at h; cases h
    · exact ⟨hi, h.1, h.2⟩

theorem walkerEval_alpha (w : Walker) (x : Int) (h1 : w.aS = 0) (h2 : w.aB = 1) : (walkerEval w x).a = 1 := by
  simp only [walkerEval, h1, h2]; grind

/-- wide pipeline: every written pixel has alpha exactly 1 -/
theorem rowWide_opaque (rep : Repeat) (stops : Array Stop) (hrep : rep ≠ .none) (hne : 0 < stops.size)
    (ho : AllOpaque stops) : ∀ (ps : List Px) (w : Walker), OpaqueInv rep stops w → (∀ p ∈ ps, ∃ t, p = Px.pos t) →
      ∀ c ∈ (rowWide w ps).2, c.a = 1 := by
  intro ps
  induction ps with
  | nil => intro w _ _ c hc; simp [rowWide] at hc
  | cons p r ih =>
    intro w hi hall c hc
    obtain ⟨t, rfl⟩ := hall p (List.mem_cons_self)
    have hs := walkerSeek_opaque rep stops w t hrep hne ho hi
    simp only [rowWide, walkerPixelFloat, List.mem_cons] at hc
    rcases hc with rfl | hc
    · exact walkerEval_alpha _ t hs.2.1 hs.2.2
    · exact ih _ hs.1 (fun q hq => hall q (List.mem_cons_of_mem _ hq)) c hc

theorem toByte_255 : toByte (255 * 1) = 255 := by decide +kernel

theorem pack32_alpha (a r g b : Nat) (hr : r < 256) (hg : g < 256) (hb : b < 256) : pack32 a r g b / 16777216 = a := by
  unfold pack32; omega

theorem toByte_lt (f : Rat) : toByte f < 256 := by
  unfold toByte; omega

/-- narrow pipeline: every written pixel has alpha byte 0xff -/
theorem rowNarrow_opaque (rep : Repeat) (stops : Array Stop) (hrep : rep ≠ .none) (hne : 0 < stops.size)
    (ho : AllOpaque stops) : ∀ (ps : List Px) (w : Walker), OpaqueInv rep stops w → (∀ p ∈ ps, ∃ t, p = Px.pos t) →
      ∀ c ∈ (rowNarrow w ps).2, c / 16777216 = 255 := by
  intro ps
  induction ps with
  | nil => intro w _ _ c hc; simp [rowNarrow] at hc
  | cons p r ih =>
    intro w hi hall c hc
    obtain ⟨t, rfl⟩ := hall p (List.mem_cons_self)
    have hs := walkerSeek_opaque rep stops w t hrep hne ho hi
    simp only [rowNarrow, walkerPixel32, List.mem_cons] at hc
    rcases hc with rfl | hc
    · unfold walkerEval32
      simp only []
      rw [pack32_alpha _ _ _ _ (toByte_lt _) (toByte_lt _) (toByte_lt _), walkerEval_alpha _ t hs.2.1 hs.2.2]
      exact toByte_255
    · exact ih _ hs.1 (fun q hq => hall q (List.mem_cons_of_mem _ hq)) c hc


/-! ### linear and conical rows always write a colour -/

theorem linearProjLoop_all_pos (l : Linear) (unit : Vec) : ∀ (n : Nat) (v : Vec) (t : Rat),
    ∀ p ∈ linearProjLoop l unit n v t, ∃ q, p = Px.pos q := by
  intro n
  induction n with
  | zero => intro v t p hp; simp [linearProjLoop] at hp
  | succ n ih =>
    intro v t p hp
    simp only [linearProjLoop, List.mem_cons] at hp
    rcases hp with rfl | hp
    · exact ⟨_, rfl⟩
    · exact ih _ _ p hp

theorem linearScanline_all_pos (l : Linear) (tr : Option Pixman.Matrix.Transform) (x y : Int) (w : Nat) (ps : List Px)
    (h : linearScanline l tr x y w = some ps) : ∀ p ∈ ps, ∃ q, p = Px.pos q := by
  unfold linearScanline at h
  split at h
  · cases h
  · rename_i v unit _
    split at h
    · split at h
      split at h
      · injection h with h; subst h
        intro p hp; rw [List.mem_replicate] at hp; exact ⟨_, hp.2⟩
      · injection h with h; subst h
        intro p hp; rw [List.mem_map] at hp; obtain ⟨i, _, rfl⟩ := hp; exact ⟨_, rfl⟩
    · injection h with h; subst h
      exact linearProjLoop_all_pos l unit w v 0

theorem conicalScanline_all_pos (c : Conical) (turns : List Rat) : ∀ p ∈ conicalScanline c turns, ∃ q, p = Px.pos q := by
  intro p hp
  unfold conicalScanline at hp
  rw [List.mem_map] at hp
  obtain ⟨τ, _, rfl⟩ := hp
  exact ⟨_, rfl⟩

/-- the affine radial row as a whole -/
theorem radialScanline_affine_contained (r : Radial) (f : Rat → Rat) (hf : IsSqrt f) (rep : Repeat) (hrep : rep ≠ .none)
    (ha : r.a < 0) (tr : Option Pixman.Matrix.Transform) (x y : Int) (w : Nat) (v unit : Vec)
    (hs : setupVec tr x y = some (v, unit)) (hu : unit.z = 0) (hz : v.z = fixed1) :
    ∃ ps, radialScanline r f rep tr x y w = some ps ∧ ps.length = w ∧ ∀ p ∈ ps, ∃ q, p = Px.pos q := by
  unfold radialScanline
  simp only [hs, hu, hz, and_self, if_true]
  refine ⟨_, rfl, ?_, ?_⟩
  · have := radialAffineLoop_closed r f rep unit.x unit.y w (wrapS32 (v.x - r.c1x)) (wrapS32 (v.y - r.c1y))
    simp only [bAt, cAt, dcAt] at this
    rw [this]; simp
  · exact radialAffineLoop_contained r f hf rep hrep ha unit.x unit.y (wrapS32 (v.x - r.c1x)) (wrapS32 (v.y - r.c1y)) w


/-! ### conical -/

/-- fractional part -/
def fracQ (q : Rat) : Rat := q - (q.floor : Rat)

theorem fracQ_range (q : Rat) : 0 ≤ fracQ q ∧ fracQ q < 1 := by
  have h1 := Rat.floor_le q
  have h2 := Rat.lt_floor_add_one q
  simp only [Rat.intCast_add] at h2
  have : ((1 : Int) : Rat) = 1 := rfl
  rw [this] at h2
  unfold fracQ
  constructor <;> grind

theorem fracQ_add_int (q : Rat) (k : Int) : fracQ (q + (k : Rat)) = fracQ q := by
  unfold fracQ
  rw [Rat.floor_add_intCast, Rat.intCast_add]
  grind

theorem fracQ_of_range (q : Rat) (h0 : 0 ≤ q) (h1 : q < 1) : fracQ q = q := by
  have hf : q.floor = 0 := by
    apply Int.le_antisymm
    · have : q.floor < 1 := by
        rw [Rat.floor_lt_iff]; exact h1
      omega
    · rw [Rat.le_floor_iff]; exact h0
  unfold fracQ; rw [hf]
  have : ((0 : Int) : Rat) = 0 := rfl
  rw [this]; grind

theorem truncZ_nonneg_range (q : Rat) (h0 : 0 ≤ q) (h1 : q ≤ 65536) : 0 ≤ truncZ q ∧ truncZ q ≤ 65536 := by
  unfold truncZ
  simp only [h0, if_true]
  constructor
  · rw [Rat.le_floor_iff]; exact h0
  · have : q.floor < 65536 + 1 := by
      rw [Rat.floor_lt_iff]
      have : ((65536 + 1 : Int) : Rat) = 65537 := rfl
      rw [this]; grind
    omega

theorem truncZ_mono (p q : Rat) (h0 : 0 ≤ p) (h : p ≤ q) : truncZ p ≤ truncZ q := by
  unfold truncZ
  have hq : 0 ≤ q := Rat.le_trans h0 h
  simp only [h0, hq, if_true]
  exact Rat.floor_monotone h

/-- the model's parameter: `(1 - frac (turn + angle)) · 65536` truncated, within `[0, 65536]` (no wrap) -/
theorem conicalT_eq (turn a : Rat) :
    conicalT turn a = truncZ ((1 - fracQ (turn + a)) * 65536) ∧ 0 ≤ conicalT turn a ∧ conicalT turn a ≤ 65536 := by
  have hr := fracQ_range (turn + a)
  have hb := truncZ_nonneg_range ((1 - fracQ (turn + a)) * 65536) (by grind) (by grind)
  have : conicalT turn a = truncZ ((1 - fracQ (turn + a)) * 65536) := by
    unfold conicalT
    simp only []
    rw [show turn + a - ((turn + a).floor : Rat) = fracQ (turn + a) from rfl]
    unfold wrapS32; omega
  rw [this]; exact ⟨rfl, hb⟩

/-- on the seam (`turn + angle` a whole number of turns) the parameter is 1 -/
theorem conicalT_seam (turn a : Rat) (h : fracQ (turn + a) = 0) : conicalT turn a = 65536 := by
  rw [(conicalT_eq turn a).1, h]
  have : ((1 : Rat) - 0) * 65536 = ((65536 : Int) : Rat) := by
    have : ((65536 : Int) : Rat) = 65536 := rfl
    rw [this]; grind
  rw [this, truncZ_int]

/-- the parameter decreases as the angle grows within a period -/
theorem conicalT_antitone (t1 t2 a : Rat) (h : fracQ (t1 + a) ≤ fracQ (t2 + a)) : conicalT t2 a ≤ conicalT t1 a := by
  rw [(conicalT_eq t1 a).1, (conicalT_eq t2 a).1]
  have h2 := fracQ_range (t2 + a)
  exact truncZ_mono _ _ (by grind) (by grind)


/-- what `atan2 (y, x) / 2π` (the angle of the vector `(x, y)` in turns) has to satisfy; `atan2` itself is
    not modelled: it is a parameter with these defining properties -/
structure IsTurn (turn : Rat → Rat → Rat) : Prop where
  /-- range `(-1/2, 1/2]`, i.e. `(-π, π]` -/
  range : ∀ y x, -1 / 2 < turn y x ∧ turn y x ≤ 1 / 2
  /-- the angle does not depend on the length of the vector -/
  scale : ∀ y x k, 0 < k → turn (k * y) (k * x) = turn y x
  pos_x : ∀ x, 0 < x → turn 0 x = 0
  pos_y : ∀ y, 0 < y → turn y 0 = 1 / 4
  neg_x : ∀ x, x < 0 → turn 0 x = 1 / 2
  neg_y : ∀ y, y < 0 → turn y 0 = -1 / 4
  /-- the open upper half plane has angles in `(0, π)`, the lower one in `(-π, 0)` -/
  upper : ∀ y x, 0 < y → 0 < turn y x ∧ turn y x < 1 / 2
  lower : ∀ y x, y < 0 → -1 / 2 < turn y x ∧ turn y x < 0

/-- the parameter depends on the direction of `(dx, dy)` only -/
theorem conicalT_scale_invariant (turn : Rat → Rat → Rat) (h : IsTurn turn) (y x k a : Rat) (hk : 0 < k) :
    conicalT (turn (k * y) (k * x)) a = conicalT (turn y x) a := by
  rw [h.scale y x k hk]

/-- gradient angle 0: on the positive x axis from the centre the parameter is 1 (the seam) -/
theorem conicalT_on_seam (turn : Rat → Rat → Rat) (h : IsTurn turn) (x : Rat) (hx : 0 < x) :
    conicalT (turn 0 x) 0 = 65536 := by
  apply conicalT_seam
  rw [h.pos_x x hx]
  have : (0 : Rat) + 0 = ((0 : Int) : Rat) := by
    have : ((0 : Int) : Rat) = 0 := rfl
    rw [this]; grind
  rw [this]
  unfold fracQ
  rw [Rat.floor_intCast]; grind

/-- gradient angle 0, just above the seam (`y > 0`): the parameter is `1 - turn`, in the upper half `[1/2, 1)` -/
theorem conicalT_above_seam (turn : Rat → Rat → Rat) (h : IsTurn turn) (y x : Rat) (hy : 0 < y) :
    conicalT (turn y x) 0 = truncZ ((1 - turn y x) * 65536) ∧ 32768 ≤ conicalT (turn y x) 0 := by
  have hu := h.upper y x hy
  have hf : fracQ (turn y x + 0) = turn y x := by
    have : turn y x + 0 = turn y x := by grind
    rw [this]; exact fracQ_of_range _ (by grind) (by grind)
  have he := (conicalT_eq (turn y x) 0).1
  rw [hf] at he
  refine ⟨he, ?_⟩
  rw [he]
  have : ((32768 : Int) : Rat) ≤ (1 - turn y x) * 65536 := by
    have : ((32768 : Int) : Rat) = 32768 := rfl
    rw [this]; grind
  have hm := truncZ_mono _ _ (by have : ((32768 : Int) : Rat) = 32768 := rfl; rw [this]; decide) this
  rwa [truncZ_int] at hm

/-- gradient angle 0, just below the seam (`y < 0`): the parameter is `-turn`, in the lower half `[0, 1/2]`:
    crossing the positive x axis upwards it jumps from about 0 to 1 -/
theorem conicalT_below_seam (turn : Rat → Rat → Rat) (h : IsTurn turn) (y x : Rat) (hy : y < 0) :
    conicalT (turn y x) 0 = truncZ ((-turn y x) * 65536) ∧ conicalT (turn y x) 0 ≤ 32768 := by
  have hl := h.lower y x hy
  have hf : fracQ (turn y x + 0) = turn y x + 1 := by
    have e : turn y x + 0 = (turn y x + 1) + ((-1 : Int) : Rat) := by
      have : ((-1 : Int) : Rat) = -1 := rfl
      rw [this]; grind
    rw [e, fracQ_add_int]; exact fracQ_of_range _ (by grind) (by grind)
  have he := (conicalT_eq (turn y x) 0).1
  rw [hf] at he
  have e2 : (1 - (turn y x + 1)) * 65536 = (-turn y x) * 65536 := by grind
  rw [e2] at he
  refine ⟨he, ?_⟩
  rw [he]
  have : (-turn y x) * 65536 ≤ ((32768 : Int) : Rat) := by
    have : ((32768 : Int) : Rat) = 32768 := rfl
    rw [this]; grind
  have hm := truncZ_mono _ _ (by grind) this
  rwa [truncZ_int] at hm

/-- the model's parameter against the Spec's (`1 - frac (turn + angle / 360)`): `MOD (angle, 360)` changes
    nothing, and the 16.16 truncation loses less than one unit -/
theorem conicalT_close_to_spec (c : Conical) (turn : Rat) :
    let spec := Pixman.Spec.Gradient.conicalT turn ((c.angle : Rat) / 65536)
    ((conicalT turn c.angleTurns : Int) : Rat) ≤ spec * 65536 ∧ spec * 65536 - ((conicalT turn c.angleTurns : Int) : Rat) < 1 ∧
    0 < spec ∧ spec ≤ 1 := by
  intro spec
  -- the angle modulo 360 degrees differs by a whole number of turns
  have hmod : c.angleTurns = (c.angle : Rat) / 65536 / 360 + ((-(c.angle / (360 * 65536)) : Int) : Rat) := by
    unfold Conical.angleTurns Conical.angleMod
    have h1 : c.angle % (360 * 65536) = c.angle - (360 * 65536) * (c.angle / (360 * 65536)) := by omega
    rw [h1]
    simp only [Rat.intCast_sub, Rat.intCast_mul, Rat.intCast_neg]
    have : ((360 : Int) : Rat) = 360 := rfl
    rw [this]
    have : ((65536 : Int) : Rat) = 65536 := rfl
    rw [this]; grind
  have hfr : fracQ (turn + c.angleTurns) = fracQ (turn + (c.angle : Rat) / 65536 / 360) := by
    rw [hmod, ← Rat.add_assoc, fracQ_add_int]
  have hspec : spec = 1 - fracQ (turn + (c.angle : Rat) / 65536 / 360) := rfl
  have hr := fracQ_range (turn + (c.angle : Rat) / 65536 / 360)
  have he := (conicalT_eq turn c.angleTurns).1
  rw [hfr, ← hspec] at he
  have hc := truncZ_close (spec * 65536)
  have hnn : 0 ≤ spec * 65536 := by rw [hspec]; grind
  have hle : ((truncZ (spec * 65536) : Int) : Rat) ≤ spec * 65536 := by
    unfold truncZ; simp only [hnn, if_true]; exact Rat.floor_le _
  rw [he]
  refine ⟨hle, hc.2, ?_, ?_⟩ <;> rw [hspec] <;> grind


/-! ### the hypotheses of `IsTurn` are satisfiable: the "diamond angle" (a rational pseudo-angle) -/

def absR (x : Rat) : Rat := if x < 0 then -x else x

theorem absR_nonneg (x : Rat) : 0 ≤ absR x := by unfold absR; split <;> grind
theorem absR_ge (x : Rat) : x ≤ absR x ∧ -x ≤ absR x := by unfold absR; split <;> constructor <;> grind

theorem absR_scale (k x : Rat) (hk : 0 < k) : absR (k * x) = k * absR x := by
  unfold absR
  by_cases hx : x < 0
  · have : k * x < 0 := by have := mul_neg_of_neg_pos hx hk; grind
    simp only [hx, this, if_true]; grind
  · have hx' : 0 ≤ x := Rat.not_lt.mp hx
    have : ¬ (k * x < 0) := by
      have := Rat.mul_nonneg (Rat.le_of_lt hk) hx'
      grind
    simp only [hx, this, if_false]

/-- `x / D` lies strictly between -1 and 1 when `|x| < D` -/
theorem ratio_range (x D : Rat) (hD : 0 < D) (h1 : x < D) (h2 : -D < x) : -1 < x / D ∧ x / D < 1 := by
  constructor
  · rw [Rat.lt_div_iff hD]; grind
  · rw [Rat.div_lt_iff hD]; grind

def diamondTurn (y x : Rat) : Rat :=
  if y = 0 then (if x < 0 then 1 / 2 else 0)
  else if 0 < y then 1 / 4 * (1 - x / (absR x + y))
  else -(1 / 4 * (1 - x / (absR x - y)))

theorem diamond_upper (y x : Rat) (hy : 0 < y) : 0 < diamondTurn y x ∧ diamondTurn y x < 1 / 2 := by
  have hne : y ≠ 0 := by grind
  have ha := absR_ge x
  have hr := ratio_range x (absR x + y) (by have := absR_nonneg x; grind) (by grind) (by grind)
  simp only [diamondTurn, hne, hy, if_true, if_false]
  constructor <;> grind

theorem diamond_lower (y x : Rat) (hy : y < 0) : -1 / 2 < diamondTurn y x ∧ diamondTurn y x < 0 := by
  have hne : y ≠ 0 := by grind
  have hnp : ¬ (0 < y) := by grind
  have ha := absR_ge x
  have hr := ratio_range x (absR x - y) (by have := absR_nonneg x; grind) (by grind) (by grind)
  simp only [diamondTurn, hne, hnp, if_false]
  constructor <;> grind

theorem diamond_isTurn : IsTurn diamondTurn where
  range := by
    intro y x
    by_cases h0 : y = 0
    · subst h0
      simp only [diamondTurn, if_true]
      split <;> constructor <;> grind
    · rcases (Rat.le_total : y ≤ 0 ∨ 0 ≤ y) with h | h
      · have := diamond_lower y x (by grind); constructor <;> grind
      · have := diamond_upper y x (by grind); constructor <;> grind
  scale := by
    intro y x k hk
    have hk0 : k ≠ 0 := by grind
    by_cases h0 : y = 0
    · subst h0
      have e : k * 0 = 0 := by grind
      simp only [diamondTurn, e, if_true]
      by_cases hx : x < 0
      · have : k * x < 0 := by have := mul_neg_of_neg_pos hx hk; grind
        simp only [hx, this, if_true]
      · have : ¬ (k * x < 0) := by
          have := Rat.mul_nonneg (Rat.le_of_lt hk) (Rat.not_lt.mp hx); grind
        simp only [hx, this, if_false]
    · have hky : k * y ≠ 0 := by
        intro h; rcases Rat.mul_eq_zero.mp h with h' | h'
        · exact hk0 h'
        · exact h0 h'
      by_cases hy : 0 < y
      · have hky' : 0 < k * y := Rat.mul_pos hk hy
        simp only [diamondTurn, h0, hky, hy, hky', if_true, if_false, absR_scale k x hk]
        have hD : absR x + y ≠ 0 := by have := absR_nonneg x; grind
        have : k * x / (k * absR x + k * y) = x / (absR x + y) := by
          have e : k * absR x + k * y = k * (absR x + y) := by grind
          rw [e]; grind
        rw [this]
      · have hy' : y < 0 := by grind
        have hky' : ¬ (0 < k * y) := by
          have := mul_neg_of_neg_pos hy' hk; grind
        simp only [diamondTurn, h0, hky, hy, hky', if_false, absR_scale k x hk]
        have hD : absR x - y ≠ 0 := by have := absR_nonneg x; grind
        have : k * x / (k * absR x - k * y) = x / (absR x - y) := by
          have e : k * absR x - k * y = k * (absR x - y) := by grind
          rw [e]; grind
        rw [this]
  pos_x := by
    intro x hx
    have : ¬ (x < 0) := by grind
    simp only [diamondTurn, this, if_true, if_false]
  neg_x := by
    intro x hx
    simp only [diamondTurn, hx, if_true]
  pos_y := by
    intro y hy
    have hne : y ≠ 0 := by grind
    have h0 : absR 0 = 0 := by unfold absR; simp
    simp only [diamondTurn, hne, hy, if_true, if_false, h0]
    grind
  neg_y := by
    intro y hy
    have hne : y ≠ 0 := by grind
    have hnp : ¬ (0 < y) := by grind
    have h0 : absR 0 = 0 := by unfold absR; simp
    simp only [diamondTurn, hne, hnp, if_false, h0]
    grind
  upper := diamond_upper
  lower := diamond_lower


/-! ### linear gradients under projective transforms: the per-pixel loop -/

/-- `v.vector[k] += unit.vector[k]` in `pixman_fixed_t` -/
def stepV (unit v : Vec) : Vec := ⟨wrapS32 (v.x + unit.x), wrapS32 (v.y + unit.y), wrapS32 (v.z + unit.z)⟩
/-- the homogeneous vector at pixel `i` of the row -/
def iterV (unit : Vec) : Nat → Vec → Vec
  | 0, v => v
  | i + 1, v => iterV unit i (stepV unit v)

/-- pixel `i` of the projective loop: if its homogeneous coordinate is not 0 the walker gets the
    parameter of ITS OWN vector, truncated once (nothing is carried over from the previous pixels) -/
theorem linearProjLoop_get (l : Linear) (unit : Vec) : ∀ (i n : Nat) (v : Vec) (t : Rat), i < n →
    (iterV unit i v).z ≠ 0 →
    (linearProjLoop l unit n v t)[i]? = some (Px.pos (truncZ (linearTQ l (iterV unit i v)))) := by
  intro i
  induction i with
  | zero =>
    intro n v t hn hz
    cases n with
    | zero => omega
    | succ m =>
      simp only [iterV] at hz
      simp only [linearProjLoop, hz, ne_eq, not_false_eq_true, if_true, List.getElem?_cons_zero, iterV]
  | succ j ih =>
    intro n v t hn hz
    cases n with
    | zero => omega
    | succ m =>
      simp only [linearProjLoop, List.getElem?_cons_succ, iterV]
      exact ih m _ _ (by omega) hz

/-- a pixel whose homogeneous coordinate is 0 repeats the previous parameter (`t` is not recomputed) -/
theorem linearProjLoop_wzero (l : Linear) (unit : Vec) (n : Nat) (v : Vec) (t : Rat) (hz : v.z = 0) :
    (linearProjLoop l unit (n + 1) v t).head? = some (Px.pos (truncZ t)) := by
  simp [linearProjLoop, hz]

def inI32 (v : Int) : Prop := -2147483648 ≤ v ∧ v ≤ 2147483647

/-- without `pixman_fixed_t` overflow the vector of pixel `i` is `v + i · unit` -/
theorem iterV_nowrap (unit : Vec) : ∀ (i : Nat) (v : Vec),
    (∀ j : Nat, j ≤ i → inI32 (v.x + j * unit.x) ∧ inI32 (v.y + j * unit.y) ∧ inI32 (v.z + j * unit.z)) →
    iterV unit i v = ⟨v.x + i * unit.x, v.y + i * unit.y, v.z + i * unit.z⟩ := by
  intro i
  induction i with
  | zero => intro v _; simp [iterV]
  | succ k ih =>
    intro v h
    have h1 := h 1 (by omega)
    simp only [inI32] at h1
    have hs : stepV unit v = ⟨v.x + unit.x, v.y + unit.y, v.z + unit.z⟩ := by
      unfold stepV wrapS32
      congr 1 <;> omega
    simp only [iterV, hs]
    rw [ih]
    · congr 1 <;> (simp only [Int.natCast_add, Int.natCast_one]; grind)
    · intro j hj
      have := h (j + 1) (by omega)
      simp only [Int.natCast_add, Int.natCast_one] at this
      refine ⟨?_, ?_, ?_⟩
      · have e : v.x + unit.x + (j : Int) * unit.x = v.x + ((j : Int) + 1) * unit.x := by grind
        rw [e]; exact this.1
      · have e : v.y + unit.y + (j : Int) * unit.y = v.y + ((j : Int) + 1) * unit.y := by grind
        rw [e]; exact this.2.1
      · have e : v.z + unit.z + (j : Int) * unit.z = v.z + ((j : Int) + 1) * unit.z := by grind
        rw [e]; exact this.2.2

end Pixman.Model.Gradient

import Pixman.Lemmas.FormatBinary32
/-! Consequences of the binary32 tables (C10): round trip, end points, monotonicity, distance from `u / (2^n - 1)`,
the packed 10-bit and sRGB codecs, and the float path against bit replication — all in exact IEEE-754 arithmetic. -/
namespace Pixman.Lemmas.Binary32
open Pixman.Model.Format Pixman.Model.Binary32 Pixman.Lemmas.FormatWide Pixman.Lemmas.FormatMem

/-- what `chk` says, as propositions about `unorm_to_float` -/
theorem facts (n u : Nat) (h1 : 1 ≤ n) (h2 : n ≤ 11) (hu : u < 2 ^ n) :
    floatToUnorm32 (unormToFloat32 u n) n = u ∧ (u = 0 → unormToFloat32 u n = 0) ∧
    (u = 2 ^ n - 1 → unormToFloat32 u n = one) ∧
    (u + 1 < 2 ^ n → unormToFloat32 u n < unormToFloat32 (u + 1) n) ∧ unormToFloat32 u n < 0x7f800000 ∧
    (let x := unormToFloat32 u n
     let a := mant x * (2 ^ n - 1) * 2 ^ ebias x
     let b := u * 2 ^ 150
     (if a ≥ b then a - b else b - a) * 2 ^ 23 ≤ b) := by
  have h := chk_all n u h1 h2 hu
  unfold chk at h
  simp only [force_eq, Bool.and_eq_true, Bool.or_eq_true, beq_iff_eq, bne_iff_ne, ne_eq, decide_eq_true_eq,
    Nat.one_shiftLeft] at h
  rw [← unormToFloat32_eq u n (by omega) hu] at h
  obtain ⟨⟨⟨⟨⟨r1, r2⟩, r3⟩, r4⟩, r5⟩, r6⟩ := h
  refine ⟨r1, ?_, ?_, ?_, r5, r6⟩
  · intro h0
    cases r2 with
    | inl h => exact absurd h0 h
    | inr h => exact h
  · intro hm
    cases r3 with
    | inl h => exact absurd hm h
    | inr h => exact h
  · intro hlt
    rw [unormToFloat32_eq (u + 1) n (by omega) hlt]
    cases r4 with
    | inl h => omega
    | inr h => exact h

/-- the end points for every width up to 16: 0 ↦ +0.0f, maximum ↦ exactly 1.0f (`m * (1.f / m) == 1.0f`) -/
theorem ends_table : ∀ n ∈ List.range 17, 1 ≤ n → unormToFloat32 0 n = 0 ∧ unormToFloat32 (2 ^ n - 1) n = one ∧
    floatToUnorm32 zero n = 0 ∧ floatToUnorm32 one n = 2 ^ n - 1 := by decide +kernel

/-- from 12 bits on the round trip is NOT the identity in binary32 (first failing values; the library agrees) -/
theorem roundtrip_fails : floatToUnorm32 (unormToFloat32 4094 12) 12 = 4095 ∧ floatToUnorm32 (unormToFloat32 8190 13) 13 = 8191 ∧
    floatToUnorm32 (unormToFloat32 16376 14) 14 = 16377 ∧ floatToUnorm32 (unormToFloat32 32736 15) 15 = 32737 ∧
    floatToUnorm32 (unormToFloat32 65408 16) 16 = 65409 := by decide +kernel

/-- float widening then 8-bit contraction = bit replication, widths 1..8 -/
def repChk (n : Nat) : Bool := allPow (fun c => floatToUnorm32 (unormToFloat32 c n) 8 == unormToUnorm c n 8) n 0
theorem rep1 : repChk 1 = true := by decide +kernel
theorem rep2 : repChk 2 = true := by decide +kernel
theorem rep3 : repChk 3 = true := by decide +kernel
theorem rep4 : repChk 4 = true := by decide +kernel
theorem rep5 : repChk 5 = true := by decide +kernel
theorem rep6 : repChk 6 = true := by decide +kernel
theorem rep7 : repChk 7 = true := by decide +kernel
theorem rep8 : repChk 8 = true := by decide +kernel

theorem replication (n c : Nat) (h1 : 1 ≤ n) (h2 : n ≤ 8) (hc : c < 2 ^ n) :
    floatToUnorm32 (unormToFloat32 c n) 8 = unormToUnorm c n 8 := by
  have hn : n = 1 ∨ n = 2 ∨ n = 3 ∨ n = 4 ∨ n = 5 ∨ n = 6 ∨ n = 7 ∨ n = 8 := by omega
  have k : ∀ m, repChk m = true → c < 2 ^ m → floatToUnorm32 (unormToFloat32 c m) 8 = unormToUnorm c m 8 := by
    intro m hm hcm
    have := allPow_spec _ m 0 hm c (Nat.zero_le _) (by simpa using hcm)
    simpa using this
  rcases hn with h | h | h | h | h | h | h | h <;> subst h
  · exact k 1 rep1 hc
  · exact k 2 rep2 hc
  · exact k 3 rep3 hc
  · exact k 4 rep4 hc
  · exact k 5 rep5 hc
  · exact k 6 rep6 hc
  · exact k 7 rep7 hc
  · exact k 8 rep8 hc

/-- sRGB: `to_srgb (to_linear[v]) = v` with the float comparisons and the two float subtractions of `to_srgb` -/
theorem srgb32_table : allPow (fun v => toSrgb32 (toLinear32 v) == v) 8 0 = true := by decide +kernel

theorem srgb32_rt (v : Nat) (h : v < 256) : toSrgb32 (toLinear32 v) = v := by
  have := allPow_spec _ 8 0 srgb32_table v (Nat.zero_le _) (by simpa using h)
  simpa using this

theorem rt32_10 (u : Nat) (h : u < 1024) : floatToUnorm32 (unormToFloat32 u 10) 10 = u := (facts 10 u (by decide) (by decide) h).1
theorem rt32_2 (u : Nat) (h : u < 4) : floatToUnorm32 (unormToFloat32 u 2) 2 = u := (facts 2 u (by decide) (by decide) h).1
theorem rt32_8 (u : Nat) (h : u < 256) : floatToUnorm32 (unormToFloat32 u 8) 8 = u := (facts 8 u (by decide) (by decide) h).1

theorem a2r10g10b10_roundtrip32 (p : Nat) (hp : p < 2 ^ 32) : storeA2r10g10b10 (fetchA2r10g10b10 p) = p := by
  unfold storeA2r10g10b10 fetchA2r10g10b10
  simp only [and_3ff, Nat.shiftRight_eq_div_pow, Nat.reducePow] at hp ⊢
  rw [rt32_2 _ (by omega), rt32_10 _ (Nat.mod_lt _ (by decide)), rt32_10 _ (Nat.mod_lt _ (by decide)), rt32_10 _ (Nat.mod_lt _ (by decide))]
  rw [pack10 _ _ _ _ (Nat.mod_lt _ (by decide)) (Nat.mod_lt _ (by decide)) (Nat.mod_lt _ (by decide))]
  simp only [Nat.reducePow]
  omega

theorem a2b10g10r10_roundtrip32 (p : Nat) (hp : p < 2 ^ 32) : storeA2b10g10r10 (fetchA2b10g10r10 p) = p := by
  unfold storeA2b10g10r10 fetchA2b10g10r10
  simp only [and_3ff, Nat.shiftRight_eq_div_pow, Nat.reducePow] at hp ⊢
  rw [rt32_2 _ (by omega), rt32_10 _ (Nat.mod_lt _ (by decide)), rt32_10 _ (Nat.mod_lt _ (by decide)), rt32_10 _ (Nat.mod_lt _ (by decide))]
  rw [pack10 _ _ _ _ (Nat.mod_lt _ (by decide)) (Nat.mod_lt _ (by decide)) (Nat.mod_lt _ (by decide))]
  simp only [Nat.reducePow]
  omega

theorem x2r10g10b10_roundtrip32 (p : Nat) : storeX2r10g10b10 (fetchX2r10g10b10 p) = p % 2 ^ 30 := by
  unfold storeX2r10g10b10 fetchX2r10g10b10
  simp only [and_3ff, Nat.shiftRight_eq_div_pow, Nat.reducePow]
  rw [rt32_10 _ (Nat.mod_lt _ (by decide)), rt32_10 _ (Nat.mod_lt _ (by decide)), rt32_10 _ (Nat.mod_lt _ (by decide))]
  rw [pack10x _ _ _ (Nat.mod_lt _ (by decide)) (Nat.mod_lt _ (by decide)) (Nat.mod_lt _ (by decide))]
  simp only [Nat.reducePow]
  omega

theorem x2b10g10r10_roundtrip32 (p : Nat) : storeX2b10g10r10 (fetchX2b10g10r10 p) = p % 2 ^ 30 := by
  unfold storeX2b10g10r10 fetchX2b10g10r10
  simp only [and_3ff, Nat.shiftRight_eq_div_pow, Nat.reducePow]
  rw [rt32_10 _ (Nat.mod_lt _ (by decide)), rt32_10 _ (Nat.mod_lt _ (by decide)), rt32_10 _ (Nat.mod_lt _ (by decide))]
  rw [pack10x _ _ _ (Nat.mod_lt _ (by decide)) (Nat.mod_lt _ (by decide)) (Nat.mod_lt _ (by decide))]
  simp only [Nat.reducePow]
  omega

theorem srgb_roundtrip32 (p : Nat) (hp : p < 2 ^ 32) : storeSrgb32 (fetchSrgb32 p) = p := by
  unfold storeSrgb32 fetchSrgb32
  simp only [and_ff, Nat.shiftRight_eq_div_pow, Nat.reducePow, Nat.pow_zero, Nat.div_one] at hp ⊢
  rw [rt32_8 _ (Nat.mod_lt _ (by decide)), srgb32_rt _ (Nat.mod_lt _ (by decide)), srgb32_rt _ (Nat.mod_lt _ (by decide)),
    srgb32_rt _ (Nat.mod_lt _ (by decide))]
  rw [pack8 _ _ _ _ (Nat.mod_lt _ (by decide)) (Nat.mod_lt _ (by decide)) (Nat.mod_lt _ (by decide))]
  simp only [Nat.reducePow]
  omega

end Pixman.Lemmas.Binary32

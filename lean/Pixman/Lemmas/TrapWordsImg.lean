import Pixman.Lemmas.TrapWords
/-! Lemmas for C12, "words", whole image: `pixman_rasterize_edges` on byte memory (`rasterizeEdgesW`: the word /
    nibble / byte row bodies over the visited rows) holds the array model's image (`rasterizeEdges`).
    The property theorems are restated in `Pixman/Props/C12.lean`. -/
set_option linter.unusedSimpArgs false
namespace Pixman.Lemmas.TrapWordsImg
open Pixman.Model.Format
open Pixman.Lemmas.FormatMem
open Pixman.Trap
open Pixman.TrapWords
open Pixman.Gen.SampleGrid
open Pixman.Lemmas.TrapRow
open Pixman.Lemmas.TrapFill
open Pixman.Lemmas.TrapBounds
open Pixman.Lemmas.TrapShape
open Pixman.Lemmas.TrapWords

/-- a pixel read depends only on the bytes of its storage unit -/
theorem fetchRaw_congr3 (n : Nat) (hn : n = 1 ∨ n = 4 ∨ n = 8) (m1 m2 : Mem) (line c : Nat)
    (h : ∀ a, unitLo line c n ≤ a → a < unitLo line c n + unitLen n → m1 a = m2 a) :
    fetchRaw m1 line c n = fetchRaw m2 line c n := by
  rcases hn with rfl | rfl | rfl
  · simp only [unitLo, unitLen, if_true] at h
    rw [fetchRaw1, fetchRaw1]
    unfold fetch1 read32
    rw [shr5, h _ (by omega) (by omega), h _ (by omega) (by omega), h _ (by omega) (by omega), h _ (by omega) (by omega)]
  · simp only [unitLo, unitLen, Nat.reduceEqDiff, if_true, if_false] at h
    rw [fetchRaw4, fetchRaw4]
    unfold fetch4 fetch8 read8
    rw [shr3_4, h _ (by omega) (by omega)]
  · simp only [unitLo, unitLen, Nat.reduceEqDiff, if_true, if_false] at h
    rw [fetchRaw8, fetchRaw8]
    exact h _ (by omega) (by omega)

/-- memory `m` holds the image `img` of depth `n` stored at `bits` with rowstride `stride` (in `uint32_t`) -/
structure HoldsImg (n bits stride : Nat) (m : Mem) (img : Img) : Prop where
  bytes : m.Bytes
  pix : ∀ r c, r < img.height → c < img.width → fetchRaw m (bits + 4 * (r * stride)) c n = px img.rows r c

/-- `m'` differs from `m` only in pixels of the `w × h` image: the pixel positions `≥ w` of every row (padding) read the
    same, the bytes before the image and after its last row are the same -/
structure FrameImg (n bits stride w h : Nat) (m m' : Mem) : Prop where
  pad : ∀ r c, r < h → w ≤ c → (c + 1) * n ≤ 32 * stride →
    fetchRaw m' (bits + 4 * (r * stride)) c n = fetchRaw m (bits + 4 * (r * stride)) c n
  out : ∀ a, a < bits ∨ bits + 4 * (h * stride) ≤ a → m' a = m a

theorem FrameImg.refl (n bits stride w h : Nat) (m : Mem) : FrameImg n bits stride w h m m := ⟨fun _ _ _ _ _ => rfl, fun _ _ => rfl⟩

theorem FrameImg.trans {n bits stride w h : Nat} {m1 m2 m3 : Mem} (a : FrameImg n bits stride w h m1 m2)
    (b : FrameImg n bits stride w h m2 m3) : FrameImg n bits stride w h m1 m3 :=
  ⟨fun r c hr hc hf => (b.pad r c hr hc hf).trans (a.pad r c hr hc hf), fun x hx => (b.out x hx).trans (a.out x hx)⟩

/-! ### the array loops as folds over the visited rows -/

/-- `edgesLoop` (a1 / a4) over the visited rows -/
def foldA (n : Nat) (rows : List (Int × Int × Int)) (img : Img) : Img :=
  rows.foldl (fun img p => img.modifyRow (fixedToInt p.1) fun row =>
    if n == 1 then row1 row img.width p.2.1 p.2.2 else row4 row img.width p.2.1 p.2.2) img

/-- `edgesLoop8` over the visited rows -/
def fold8A : List (Int × Int × Int) → Fill → Img → Img
  | [], _, img => img
  | p :: rest, fs, img =>
    let line := fixedToInt p.1
    let inb : Bool := 0 ≤ line ∧ line < img.height
    let row := if inb then img.rows[line.toNat]?.getD #[] else #[]
    let q := row8Fill row img.width p.2.1 p.2.2 fs
    if rest.isEmpty || fixedFrac p.1 == yFracLast 8 then
      fold8A rest {} (if inb then { img with rows := img.rows.set! line.toNat (flushFill q.1 q.2) } else { img with oob := true })
    else
      fold8A rest q.2 (if inb then { img with rows := img.rows.set! line.toNat q.1 } else { img with oob := true })

theorem foldA_runaway (n : Nat) (rows : List (Int × Int × Int)) : ∀ img : Img, (foldA n rows img).runaway = img.runaway := by
  induction rows with
  | nil => intro img; rfl
  | cons p rest ih =>
    intro img
    simp only [foldA, List.foldl_cons] at ih ⊢
    rw [ih]
    simp only [Img.modifyRow]; split <;> rfl

theorem edgesLoop_runaway_mono (n : Nat) (b : Int) : ∀ (fuel : Nat) (y : Int) (l r : Edge) (img : Img),
    img.runaway = true → (edgesLoop n b fuel y l r img).runaway = true := by
  intro fuel
  induction fuel with
  | zero => intro y l r img _; rfl
  | succ fuel ih =>
    intro y l r img h
    have h1 : ∀ F, (img.modifyRow (fixedToInt y) F).runaway = true := by
      intro F; simp only [Img.modifyRow]; split <;> exact h
    simp only [edgesLoop]
    split
    · exact h1 _
    · split
      · exact ih _ _ _ _ (h1 _)
      · exact ih _ _ _ _ (h1 _)

/-- when the loop ends (`y == b` reached within the fuel), `edgesLoop` is the fold over `walkRows` -/
theorem edgesLoop_eq_fold (n : Nat) (b : Int) : ∀ (fuel : Nat) (y : Int) (l r : Edge) (img : Img),
    (edgesLoop n b fuel y l r img).runaway = false → edgesLoop n b fuel y l r img = foldA n (walkRows n b fuel y l r) img := by
  intro fuel
  induction fuel with
  | zero => intro y l r img h; simp [edgesLoop] at h
  | succ fuel ih =>
    intro y l r img h
    simp only [edgesLoop, walkRows, foldA, List.foldl_cons] at h ⊢
    by_cases hyb : (y == b) = true
    · simp only [hyb, if_true, List.foldl_nil] at h ⊢
    · have hyb' : (y == b) = false := by simpa using hyb
      simp only [hyb', Bool.false_eq_true, if_false] at h ⊢
      split
      · rename_i hc
        simp only [hc, if_true] at h
        exact ih _ _ _ _ h
      · rename_i hc
        simp only [hc, if_false] at h
        exact ih _ _ _ _ h

theorem walkRows_ne_nil (n : Nat) (b : Int) (fuel : Nat) (y : Int) (l r : Edge) (h : fuel ≠ 0) :
    (walkRows n b fuel y l r).isEmpty = false := by
  cases fuel with
  | zero => exact absurd rfl h
  | succ k => simp [walkRows]

/-- when the loop ends, `edgesLoop8` is the fold over `walkRows` -/
theorem edgesLoop8_eq_fold (b : Int) : ∀ (fuel : Nat) (y : Int) (l r : Edge) (fs : Fill) (img : Img),
    (edgesLoop8 b fuel y l r fs img).runaway = false →
    edgesLoop8 b fuel y l r fs img = fold8A (walkRows 8 b fuel y l r) fs img := by
  intro fuel
  induction fuel with
  | zero => intro y l r fs img h; simp [edgesLoop8] at h
  | succ fuel ih =>
    intro y l r fs img h
    simp only [edgesLoop8, walkRows, fold8A] at h ⊢
    by_cases hyb : (y == b) = true
    · simp only [hyb, if_true, List.isEmpty_nil, Bool.true_or, fold8A] at h ⊢
    · have hyb' : (y == b) = false := by simpa using hyb
      simp only [hyb', Bool.false_eq_true, if_false] at h ⊢
      have h81 : ((8 : Nat) != 1) = true := rfl
      simp only [h81, Bool.true_and]
      by_cases hfr : (fixedFrac y != yFracLast 8) = true
      · simp only [hfr, if_true] at h ⊢
        have hfr' : (fixedFrac y == yFracLast 8) = false := by
          simp only [bne_iff_ne, ne_eq] at hfr; simp [hfr]
        have hfuel : fuel ≠ 0 := by
          intro e; subst e; simp [edgesLoop8] at h
        rw [walkRows_ne_nil 8 b fuel _ _ _ hfuel, hfr']
        simp only [Bool.or_false, Bool.false_eq_true, if_false]
        exact ih _ _ _ _ _ h
      · have hfr2 : (fixedFrac y != yFracLast 8) = false := by simpa using hfr
        simp only [hfr2, Bool.false_eq_true, if_false] at h ⊢
        have hfr' : (fixedFrac y == yFracLast 8) = true := by
          simp only [bne_eq_false_iff_eq] at hfr2; simp [hfr2]
        rw [hfr']
        simp only [Bool.or_true, if_true]
        exact ih _ _ _ _ _ h

/-! ### one row of the image -/

theorem rows_apart (bits stride : Nat) {r r' : Nat} (h : r' < r) :
    bits + 4 * (r' * stride) + 4 * stride ≤ bits + 4 * (r * stride) := by
  have : (r' + 1) * stride ≤ r * stride := Nat.mul_le_mul_right _ h
  rw [Nat.add_mul] at this
  omega

/-- a pixel position whose bits end inside the rowstride has its storage unit inside the row's `4·stride` bytes -/
theorem unit_in_stride (n : Nat) (hn : n = 1 ∨ n = 4 ∨ n = 8) (line c stride : Nat) (hc : (c + 1) * n ≤ 32 * stride) :
    line ≤ unitLo line c n ∧ unitLo line c n + unitLen n ≤ line + 4 * stride := by
  have := unit_in n hn line c (c + 1) (by omega)
  have h2 : ((c + 1) * n + 31) / 32 ≤ stride := by omega
  omega

/-- a row update that holds `new` at row `r` and leaves the rest of the memory alone updates the image -/
theorem holdsImg_step (n : Nat) (hn : n = 1 ∨ n = 4 ∨ n = 8) (bits stride : Nat) (m m' : Mem) (img : Img)
    (hfit : img.width * n ≤ 32 * stride) (h : HoldsImg n bits stride m img) (r : Nat) (hr : r < img.height)
    (new : Array Nat) (hnew : new.size = img.width) (rows' : Array (Array Nat))
    (hsame : ∀ c (hc : c < new.size), px rows' r c = new[c]) (hother : ∀ r' c, r' ≠ r → px rows' r' c = px img.rows r' c)
    (hrow : HoldsRow n m (bits + 4 * (r * stride)) m' new) :
    HoldsImg n bits stride m' { img with rows := rows' } ∧ FrameImg n bits stride img.width img.height m m' := by
  have hceil : (new.size * n + 31) / 32 ≤ stride := by rw [hnew]; omega
  have hblock : (r + 1) * stride ≤ img.height * stride := Nat.mul_le_mul_right _ hr
  rw [Nat.add_mul] at hblock
  have other : ∀ r' c, r' ≠ r → (c + 1) * n ≤ 32 * stride →
      fetchRaw m' (bits + 4 * (r' * stride)) c n = fetchRaw m (bits + 4 * (r' * stride)) c n := by
    intro r' c hne hc
    apply fetchRaw_congr3 n hn
    intro a ha1 ha2
    have hu := unit_in_stride n hn (bits + 4 * (r' * stride)) c stride hc
    apply hrow.outside
    rcases Nat.lt_or_gt_of_ne hne with hlt | hgt
    · have := rows_apart bits stride hlt; omega
    · have := rows_apart bits stride hgt; omega
  refine ⟨⟨hrow.bytes, fun r' c hr' hc => ?_⟩, ⟨fun r' c hr' hc hf => ?_, fun a ha => ?_⟩⟩
  · simp only at hr' hc ⊢
    by_cases e : r' = r
    · subst e; rw [hrow.inside c (by omega), hsame c (by omega)]
    · rw [other r' c e (by
        have : (c + 1) * n ≤ img.width * n := Nat.mul_le_mul_right _ hc
        omega), hother r' c e]
      exact h.pix r' c hr' hc
  · by_cases e : r' = r
    · subst e; exact hrow.beyond c (by omega)
    · exact other r' c e hf
  · apply hrow.outside
    omega

/-! ### the loops -/

/-- `height` rows of `width` cells -/
def Shaped (img : Img) : Prop :=
  img.rows.size = img.height ∧ ∀ r, r < img.height → (img.rows[r]?.getD #[]).size = img.width

theorem px_set! (rows : Array (Array Nat)) (k : Nat) (new : Array Nat) (r c : Nat) (hk : k < rows.size) :
    px (rows.set! k new) r c = if k = r then new[c]?.getD 0 else px rows r c := by
  unfold px
  rw [Array.set!_eq_setIfInBounds, Array.getElem?_setIfInBounds]
  by_cases h : k = r
  · subst h; simp [hk]
  · simp [h]

theorem getD_set! (rows : Array (Array Nat)) (k : Nat) (new : Array Nat) (r : Nat) (hk : k < rows.size) :
    (rows.set! k new)[r]?.getD #[] = if k = r then new else rows[r]?.getD #[] := by
  rw [Array.set!_eq_setIfInBounds, Array.getElem?_setIfInBounds]
  by_cases h : k = r
  · subst h; simp [hk]
  · simp [h]

theorem old_row (img : Img) (_hs : Shaped img) (r : Nat) (_hr : r < img.height) (c : Nat)
    (hc : c < (img.rows[r]?.getD #[]).size) : px img.rows r c = (img.rows[r]?.getD #[])[c] := by
  unfold px; simp [hc]

/-- a1 / a4: the row bodies on memory over a list of rows inside the image hold what the array loop computes -/
theorem rowsW_sim (n : Nat) (hn : n = 1 ∨ n = 4) (bits stride : Nat) (rows : List (Int × Int × Int)) :
    ∀ (m : Mem) (img : Img), HoldsImg n bits stride m img → Shaped img → img.width ≤ 32767 →
      img.width * n ≤ 32 * stride →
      (∀ p ∈ rows, 0 ≤ fixedToInt p.1 ∧ fixedToInt p.1 < (img.height : Int)) →
      HoldsImg n bits stride (rowsW id n bits stride img.width rows m) (foldA n rows img) ∧
      FrameImg n bits stride img.width img.height m (rowsW id n bits stride img.width rows m) ∧
      Shaped (foldA n rows img) ∧ (foldA n rows img).width = img.width ∧ (foldA n rows img).height = img.height := by
  have hn3 : n = 1 ∨ n = 4 ∨ n = 8 := by omega
  induction rows with
  | nil => intro m img h hs _ _ _; exact ⟨h, FrameImg.refl .., hs, rfl, rfl⟩
  | cons p rest ih =>
    intro m img h hs hw hfit hin
    obtain ⟨y, lx, rx⟩ := p
    obtain ⟨h0, h1⟩ := hin (y, lx, rx) (List.mem_cons_self ..)
    simp only at h0 h1
    obtain ⟨r, hr⟩ := Int.eq_ofNat_of_zero_le h0
    have hrh : r < img.height := by omega
    have hk : r < img.rows.size := by rw [hs.1]; exact hrh
    simp only [rowsW, foldA, List.foldl_cons, id] at ih ⊢
    have hline : lineAddr bits stride y = bits + 4 * (r * stride) := by simp only [lineAddr, hr, Int.toNat_natCast]
    have hinb : (0 : Int) ≤ fixedToInt y ∧ fixedToInt y < (img.height : Int) := ⟨h0, h1⟩
    have hsz := hs.2 r hrh
    have hold : ∀ c (hc : c < (img.rows[r]?.getD #[]).size),
        fetchRaw m (bits + 4 * (r * stride)) c n = (img.rows[r]?.getD #[])[c] := by
      intro c hc
      rw [h.pix r c hrh (by omega), old_row img hs r hrh c hc]
    -- the new row on both sides
    have key : ∀ (F : Array Nat → Array Nat) (m' : Mem), (F (img.rows[r]?.getD #[])).size = img.width →
        HoldsRow n m (bits + 4 * (r * stride)) m' (F (img.rows[r]?.getD #[])) →
        HoldsImg n bits stride m' (img.modifyRow (fixedToInt y) F) ∧ FrameImg n bits stride img.width img.height m m' ∧
        Shaped (img.modifyRow (fixedToInt y) F) := by
      intro F m' hFs hrow
      have himg : img.modifyRow (fixedToInt y) F = { img with rows := img.rows.modify r F } := by
        simp only [Img.modifyRow, hr, Int.toNat_natCast]
        rw [if_pos (by omega)]
      rw [himg]
      obtain ⟨a1, a2⟩ := holdsImg_step n hn3 bits stride m m' img hfit h r hrh _ hFs (img.rows.modify r F)
        (fun c hc => by rw [px_modify _ _ _ _ _ hk, if_pos rfl]; simp [hc])
        (fun r' c hne => by rw [px_modify _ _ _ _ _ hk, if_neg (fun e => hne e.symm)]) hrow
      refine ⟨a1, a2, ?_, ?_⟩
      · simp only [Array.size_modify]; exact hs.1
      · intro r' hr'
        simp only at hr' ⊢
        rw [getD_modify _ _ _ _ hk]
        split
        · next e => subst e; exact hFs
        · exact hs.2 r' hr'
    rcases hn with rfl | rfl
    · simp only [show ((1 : Nat) == 1) = true from rfl, if_true, hline] at ih ⊢
      obtain ⟨k1, k2, k3⟩ := key (fun row => row1 row img.width lx rx) _ (by rw [row1_size]; exact hsz)
        (row1_words m h.bytes _ _ hold img.width (by rw [hsz]) ⟨by omega, by omega⟩ lx rx)
      have hdims : (img.modifyRow (fixedToInt y) fun row => row1 row img.width lx rx).width = img.width ∧
          (img.modifyRow (fixedToInt y) fun row => row1 row img.width lx rx).height = img.height := by
        simp only [Img.modifyRow]; split <;> exact ⟨rfl, rfl⟩
      obtain ⟨j1, j2, j3, j4, j5⟩ := ih _ _ k1 k3 (by rw [hdims.1]; exact hw) (by rw [hdims.1]; exact hfit)
        (fun p hp => by rw [hdims.2]; exact hin p (List.mem_cons_of_mem _ hp))
      rw [hdims.1] at j1 j2 j4
      rw [hdims.2] at j2 j5
      exact ⟨j1, FrameImg.trans k2 j2, j3, j4, j5⟩
    · simp only [show ((4 : Nat) == 1) = false from rfl, Bool.false_eq_true, if_false, hline] at ih ⊢
      obtain ⟨k1, k2, k3⟩ := key (fun row => row4 row img.width lx rx) _ (by rw [row4_size]; exact hsz)
        (row4_words m h.bytes _ _ hold img.width (by rw [hsz]) ⟨by omega, by omega⟩ lx rx)
      have hdims : (img.modifyRow (fixedToInt y) fun row => row4 row img.width lx rx).width = img.width ∧
          (img.modifyRow (fixedToInt y) fun row => row4 row img.width lx rx).height = img.height := by
        simp only [Img.modifyRow]; split <;> exact ⟨rfl, rfl⟩
      obtain ⟨j1, j2, j3, j4, j5⟩ := ih _ _ k1 k3 (by rw [hdims.1]; exact hw) (by rw [hdims.1]; exact hfit)
        (fun p hp => by rw [hdims.2]; exact hin p (List.mem_cons_of_mem _ hp))
      rw [hdims.1] at j1 j2 j4
      rw [hdims.2] at j2 j5
      exact ⟨j1, FrameImg.trans k2 j2, j3, j4, j5⟩

theorem flushFill_size (row : Array Nat) (fs : Fill) : (flushFill row fs).size = row.size := by
  rw [flushFill_eq, applyFill_size]

/-- a8: the row bodies with the span-fill bookkeeping on memory over a list of rows inside the image hold what the
    array loop computes -/
theorem rows8W_sim (bits stride : Nat) (rows : List (Int × Int × Int)) :
    ∀ (fs : Fill) (m : Mem) (img : Img), HoldsImg 8 bits stride m img → Shaped img → img.width ≤ 32767 →
      img.width * 8 ≤ 32 * stride → FillIn (img.width : Int) fs →
      (∀ p ∈ rows, 0 ≤ fixedToInt p.1 ∧ fixedToInt p.1 < (img.height : Int)) →
      HoldsImg 8 bits stride (rows8W id bits stride img.width rows fs m) (fold8A rows fs img) ∧
      FrameImg 8 bits stride img.width img.height m (rows8W id bits stride img.width rows fs m) ∧
      Shaped (fold8A rows fs img) ∧ (fold8A rows fs img).width = img.width ∧ (fold8A rows fs img).height = img.height := by
  have hn3 : (8 : Nat) = 1 ∨ (8 : Nat) = 4 ∨ (8 : Nat) = 8 := Or.inr (Or.inr rfl)
  induction rows with
  | nil => intro fs m img h hs _ _ _ _; exact ⟨h, FrameImg.refl .., hs, rfl, rfl⟩
  | cons p rest ih =>
    intro fs m img h hs hw hfit hfin hin
    obtain ⟨y, lx, rx⟩ := p
    obtain ⟨h0, h1⟩ := hin (y, lx, rx) (List.mem_cons_self ..)
    simp only at h0 h1
    obtain ⟨r, hr⟩ := Int.eq_ofNat_of_zero_le h0
    have hrh : r < img.height := by omega
    have hk : r < img.rows.size := by rw [hs.1]; exact hrh
    have hline : lineAddr bits stride y = bits + 4 * (r * stride) := by simp only [lineAddr, hr, Int.toNat_natCast]
    have hinb : (decide ((0 : Int) ≤ fixedToInt y ∧ fixedToInt y < (img.height : Int))) = true := by
      simp only [decide_eq_true_eq]; exact ⟨h0, h1⟩
    have hsz := hs.2 r hrh
    have hold : ∀ c (hc : c < (img.rows[r]?.getD #[]).size),
        fetchRaw m (bits + 4 * (r * stride)) c 8 = (img.rows[r]?.getD #[])[c] := by
      intro c hc
      rw [h.pix r c hrh (by omega), old_row img hs r hrh c hc]
    have r8 := r8_of_holds m h.bytes (bits + 4 * (r * stride)) _ hold
    obtain ⟨s1, s2, s3⟩ := row8Fill_words m m (bits + 4 * (r * stride)) _ r8 img.width (by rw [hsz]) ⟨by omega, by omega⟩
      lx rx fs hfin
    have hqs : (row8Fill (img.rows[r]?.getD #[]) img.width lx rx fs).1.size = img.width := by rw [row8Fill_size]; exact hsz
    -- storing a new row `new` (held by memory `m'`) at row `r`
    have key : ∀ (new : Array Nat) (m' : Mem), new.size = img.width →
        HoldsRow 8 m (bits + 4 * (r * stride)) m' new →
        HoldsImg 8 bits stride m' { img with rows := img.rows.set! r new } ∧
        FrameImg 8 bits stride img.width img.height m m' ∧ Shaped { img with rows := img.rows.set! r new } := by
      intro new m' hns hrow
      obtain ⟨a1, a2⟩ := holdsImg_step 8 hn3 bits stride m m' img hfit h r hrh new hns (img.rows.set! r new)
        (fun c hc => by rw [px_set! _ _ _ _ _ hk, if_pos rfl]; simp [hc])
        (fun r' c hne => by rw [px_set! _ _ _ _ _ hk, if_neg (fun e => hne e.symm)]) hrow
      refine ⟨a1, a2, ?_, ?_⟩
      · simp only [Array.set!_eq_setIfInBounds, Array.size_setIfInBounds]; exact hs.1
      · intro r' hr'
        simp only at hr' ⊢
        rw [getD_set! _ _ _ _ hk]
        split
        · exact hns
        · exact hs.2 r' hr'
    have hinb' : (decide ((0 : Int) ≤ (r : Int) ∧ (r : Int) < (img.height : Int))) = true := by
      simp only [decide_eq_true_eq]; omega
    simp only [rows8W, fold8A, id, hline, hr, Int.toNat_natCast, hinb', if_true]
    rw [s2]
    by_cases hc : (rest.isEmpty || fixedFrac y == yFracLast 8) = true
    · simp only [hc, if_true]
      have f := flushFill_words m _ (bits + 4 * (r * stride)) _ s1 img.width (by rw [hqs]) _ s3
      obtain ⟨k1, k2, k3⟩ := key _ _ (by rw [flushFill_size]; exact hqs) (holdsRow_of_R8 f)
      obtain ⟨j1, j2, j3, j4, j5⟩ := ih {} _ _ k1 k3 hw hfit (fillIn_init _)
        (fun p hp => hin p (List.mem_cons_of_mem _ hp))
      exact ⟨j1, FrameImg.trans k2 j2, j3, j4, j5⟩
    · have hc' : (rest.isEmpty || fixedFrac y == yFracLast 8) = false := by simpa using hc
      simp only [hc', Bool.false_eq_true, if_false]
      obtain ⟨k1, k2, k3⟩ := key _ _ hqs (holdsRow_of_R8 s1)
      obtain ⟨j1, j2, j3, j4, j5⟩ := ih _ _ _ k1 k3 hw hfit s3
        (fun p hp => hin p (List.mem_cons_of_mem _ hp))
      exact ⟨j1, FrameImg.trans k2 j2, j3, j4, j5⟩

/-- the rows the loop visits lie between the first and the last sample row -/
theorem walkRows_range (n : Nat) (hn : Pixman.Lemmas.TrapRows.Depth n) (b : Int) (hb : Pixman.Spec.SampleGrid.IsGridRow n b)
    (hb2 : b ≤ 2147483647) :
    ∀ (fuel : Nat) (y : Int) (l r : Edge), Pixman.Spec.SampleGrid.IsGridRow n y → y ≤ b → -2147483648 ≤ y →
      ∀ p ∈ walkRows n b fuel y l r, y ≤ p.1 ∧ p.1 ≤ b := by
  intro fuel
  induction fuel with
  | zero => intro y l r _ _ _ p hp; simp [walkRows] at hp
  | succ fuel ih =>
    intro y l r hy hyb hy0 p hp
    simp only [walkRows, List.mem_cons] at hp
    rcases hp with hp | hp
    · subst hp; exact ⟨Int.le_refl _, hyb⟩
    · by_cases hyeq : y = b
      · simp [hyeq] at hp
      · have hbe : (y == b) = false := by simp [hyeq]
        simp only [hbe, Bool.false_eq_true, if_false] at hp
        obtain ⟨g1, g2, g3, _, _, _⟩ := Pixman.Lemmas.TrapRows.nextY_grid n hn y b hy hb (by omega)
        have hw : wrap32 (Pixman.Lemmas.TrapRows.nextY n y) = Pixman.Lemmas.TrapRows.nextY n y :=
          Pixman.Lemmas.Trap.wrap32_id _ (by omega) (by omega)
        rcases Bool.eq_false_or_eq_true (n != 1 && fixedFrac y != yFracLast n) with hc | hc
        · have hny : Pixman.Lemmas.TrapRows.nextY n y = y + stepYSmall n := by
            simp only [Pixman.Lemmas.TrapRows.nextY, hc, if_true]
          simp only [hc, if_true, ← hny, hw] at hp
          have := ih _ _ _ g1 g3 (by omega) p hp
          omega
        · have hny : Pixman.Lemmas.TrapRows.nextY n y = y + stepYBig n := by
            simp only [Pixman.Lemmas.TrapRows.nextY, hc, Bool.false_eq_true, if_false]
          simp only [hc, Bool.false_eq_true, if_false, ← hny, hw] at hp
          have := ih _ _ _ g1 g3 (by omega) p hp
          omega

/-- **the whole rasteriser on memory**: `pixman_rasterize_edges` run with the word / nibble / byte row bodies on a
    byte memory that holds the image gives a memory that holds the array model's result, and changes nothing outside
    the image's pixels (row padding, bytes before and after the image) -/
theorem rasterizeEdgesW_holds (n : Nat) (hn : Pixman.Lemmas.TrapRows.Depth n) (bits stride : Nat) (m : Mem) (img : Img)
    (h : HoldsImg n bits stride m img) (hs : Shaped img) (hw : img.width ≤ 32767) (hfit : img.width * n ≤ 32 * stride)
    (hrun : img.runaway = false) (l r : Edge) (t b : Int)
    (ht : Pixman.Spec.SampleGrid.IsGridRow n t) (hb : Pixman.Spec.SampleGrid.IsGridRow n b) (htb : t ≤ b) (ht0 : 0 ≤ t)
    (hbh : b / 65536 < (img.height : Int)) (hb2 : b ≤ 2147483647) :
    HoldsImg n bits stride (rasterizeEdgesW id n bits stride img.width m l r t b) (rasterizeEdges n img l r t b) ∧
    FrameImg n bits stride img.width img.height m (rasterizeEdgesW id n bits stride img.width m l r t b) := by
  have hfr := rasterizeEdges_frame n hn img hs.1 l r t b ht hb htb ht0 hbh hb2
  have hnr : (rasterizeEdges n img l r t b).runaway = false := by rw [hfr.runaway]; exact hrun
  have hin : ∀ p ∈ walkRows n b (rowFuel n t b) t l r, 0 ≤ fixedToInt p.1 ∧ fixedToInt p.1 < (img.height : Int) := by
    intro p hp
    obtain ⟨a1, a2⟩ := walkRows_range n hn b hb hb2 _ t l r ht htb (by omega) p hp
    simp only [fixedToInt]
    have : p.1 / 65536 ≤ b / 65536 := Int.ediv_le_ediv (by decide) a2
    have : 0 ≤ p.1 / 65536 := Int.ediv_nonneg (by omega) (by decide)
    omega
  unfold rasterizeEdgesW
  rcases hn with rfl | rfl | rfl
  · simp only [rasterizeEdges] at hnr ⊢
    rw [edgesLoop_eq_fold 1 b _ t l r img hnr]
    simp only [show ((1 : Nat) == 8) = false from rfl, Bool.false_eq_true, if_false]
    obtain ⟨j1, j2, _⟩ := rowsW_sim 1 (Or.inl rfl) bits stride _ m img h hs hw hfit hin
    exact ⟨j1, j2⟩
  · simp only [rasterizeEdges] at hnr ⊢
    rw [edgesLoop_eq_fold 4 b _ t l r img hnr]
    simp only [show ((4 : Nat) == 8) = false from rfl, Bool.false_eq_true, if_false]
    obtain ⟨j1, j2, _⟩ := rowsW_sim 4 (Or.inr rfl) bits stride _ m img h hs hw hfit hin
    exact ⟨j1, j2⟩
  · simp only [rasterizeEdges] at hnr ⊢
    rw [edgesLoop8_eq_fold b _ t l r {} img hnr]
    simp only [show ((8 : Nat) == 8) = true from rfl, if_true]
    obtain ⟨j1, j2, _⟩ := rows8W_sim bits stride _ {} m img h hs hw hfit (fillIn_init _) hin
    exact ⟨j1, j2⟩

/-! ### the array-backed loops the driver runs -/

/-- read the first `total` bytes out and back -/
def snap (total byte : Nat) (m : Mem) : Mem := memOf (bytesOf m total) byte

theorem rowsWB_mem (total byte n bits stride : Nat) (width : Int) (rows : List (Int × Int × Int)) :
    ∀ s : Array Nat, memOf (rowsWB total byte n bits stride width rows s) byte =
      rowsW (snap total byte) n bits stride width rows (memOf s byte) := by
  induction rows with
  | nil => intro s; rfl
  | cons p rest ih => intro s; simp only [rowsWB, rowsW, List.foldl_cons] at ih ⊢; rw [ih]; rfl

theorem rows8WB_mem (total byte bits stride : Nat) (width : Int) (rows : List (Int × Int × Int)) :
    ∀ (fs : Fill) (s : Array Nat), memOf (rows8WB total byte bits stride width rows fs s) byte =
      rows8W (snap total byte) bits stride width rows fs (memOf s byte) := by
  induction rows with
  | nil => intro fs s; rfl
  | cons p rest ih =>
    intro fs s
    simp only [rows8WB, rows8W]
    split
    · rw [ih]; rfl
    · rw [ih]; rfl

/-- the driver's loops compute `rasterizeEdgesW` with `ν = snap` -/
theorem rasterizeEdgesWB_mem (total byte n bits stride : Nat) (width : Int) (s : Array Nat) (l r : Edge) (t b : Int) :
    memOf (rasterizeEdgesWB total byte n bits stride width s l r t b) byte =
      rasterizeEdgesW (snap total byte) n bits stride width (memOf s byte) l r t b := by
  simp only [rasterizeEdgesWB, rasterizeEdgesW]
  split
  · exact rows8WB_mem ..
  · exact rowsWB_mem ..

end Pixman.Lemmas.TrapWordsImg

import Pixman.Lemmas.GlyphRefine
/-!
  The glyph cache under histories that do NOT respect the insertion discipline (a key is inserted
  although a live entry has it — a caller error according to the API, but the code does not check).

  What the code does: `insert_glyph` stores the new object in the first slot of the key's probe
  sequence that is NULL or TOMBSTONE, `lookup_glyph` returns the first entry with the key in probe
  order.  So the table becomes a *multimap*; of several live entries with one key exactly one is
  visible — the first in probe order — and `remove` deletes that one only, after which the next
  becomes visible.  Everything else (accounting, an empty slot exists, termination, reachability)
  is unaffected.

  `Inv0` = `Inv` without `KeysUnique`; it holds after EVERY history.
-/
namespace Pixman.Glyph

structure Inv0 (p : Params) (h : Nat → Nat → Nat) (c : Cache) : Prop where
  counted : Counted p c
  hasEmpty : HasEmpty p c
  reach : Reach p h c

theorem Inv.toInv0 {p : Params} {h : Nat → Nat → Nat} {c : Cache} (hi : Inv p h c) : Inv0 p h c :=
  ⟨hi.counted, hi.hasEmpty, hi.reach⟩

/-- `g` sits `d` probes after `idx`, has the key, and none of the `d` slots probed before it is
    empty or holds an entry with the key: `g` is the first entry with the key in probe order -/
def FirstAt (p : Params) (c : Cache) (font key idx d : Nat) (g : G) : Prop :=
  c.get p (idx + d) = .entry g ∧ g.font = font ∧ g.key = key ∧
    ∀ j, j < d → c.get p (idx + j) ≠ .empty ∧
      ∀ g', c.get p (idx + j) = .entry g' → ¬(g'.font = font ∧ g'.key = key)

theorem firstAt_unique {p : Params} {c : Cache} {font key idx d d' : Nat} {g g' : G}
    (h1 : FirstAt p c font key idx d g) (h2 : FirstAt p c font key idx d' g') : d = d' ∧ g = g' := by
  obtain ⟨a1, a2, a3, a4⟩ := h1
  obtain ⟨b1, b2, b3, b4⟩ := h2
  have hd : d = d' := by
    rcases Nat.lt_trichotomy d d' with hlt | heq | hgt
    · exact absurd ⟨a2, a3⟩ ((b4 d hlt).2 g a1)
    · exact heq
    · exact absurd ⟨b2, b3⟩ ((a4 d' hgt).2 g' b1)
  subst hd
  rw [a1] at b1
  exact ⟨rfl, by simpa using b1⟩

/-- a successful probe walk returns the first entry with the key in probe order (any table) -/
theorem lookupFrom_some_first (p : Params) (c : Cache) (font key : Nat) (g : G) :
    ∀ fuel idx, lookupFrom p c font key fuel idx = some (some g) →
      ∃ d, d < fuel ∧ FirstAt p c font key idx d g := by
  intro fuel
  induction fuel with
  | zero => intro idx h; simp [lookupFrom] at h
  | succ fuel ih =>
    intro idx h
    have shift : c.get p idx ≠ .empty →
        (∀ g', c.get p idx = .entry g' → ¬(g'.font = font ∧ g'.key = key)) →
        (∃ d, d < fuel ∧ FirstAt p c font key (idx + 1) d g) →
        ∃ d, d < fuel + 1 ∧ FirstAt p c font key idx d g := by
      rintro hne hnm ⟨d, hd, f1, f2, f3, f4⟩
      refine ⟨d + 1, by omega, by rw [← f1]; congr 1; omega, f2, f3, fun j hj => ?_⟩
      cases j with
      | zero => exact ⟨hne, hnm⟩
      | succ j =>
        have := f4 j (by omega)
        rw [show idx + (j + 1) = idx + 1 + j by omega]; exact this
    unfold lookupFrom at h
    split at h
    · simp at h
    · rename_i ht
      exact shift (by rw [ht]; simp) (fun g' hg' => by rw [ht] at hg'; cases hg') (ih _ h)
    · rename_i g' hs
      split at h
      · rename_i hfk
        simp only [Option.some.injEq] at h
        subst h
        exact ⟨0, by omega, hs, hfk.1, hfk.2, fun j hj => by omega⟩
      · rename_i hfk
        refine shift (by rw [hs]; simp) (fun g'' hg'' => ?_) (ih _ h)
        rw [hs] at hg''
        simp only [Slot.entry.injEq] at hg''
        subst hg''; exact hfk

/-- a probe walk that answers NULL stopped at an empty slot, having seen no entry with the key -/
theorem lookupFrom_none_stop (p : Params) (c : Cache) (font key : Nat) :
    ∀ fuel idx, lookupFrom p c font key fuel idx = some none →
      ∃ d, d < fuel ∧ c.get p (idx + d) = .empty ∧
        ∀ j, j < d → ∀ g', c.get p (idx + j) = .entry g' → ¬(g'.font = font ∧ g'.key = key) := by
  intro fuel
  induction fuel with
  | zero => intro idx h; simp [lookupFrom] at h
  | succ fuel ih =>
    intro idx h
    have shift : (∀ g', c.get p idx = .entry g' → ¬(g'.font = font ∧ g'.key = key)) →
        (∃ d, d < fuel ∧ c.get p (idx + 1 + d) = .empty ∧
          ∀ j, j < d → ∀ g', c.get p (idx + 1 + j) = .entry g' → ¬(g'.font = font ∧ g'.key = key)) →
        ∃ d, d < fuel + 1 ∧ c.get p (idx + d) = .empty ∧
          ∀ j, j < d → ∀ g', c.get p (idx + j) = .entry g' → ¬(g'.font = font ∧ g'.key = key) := by
      rintro hnm ⟨d, hd, f1, f4⟩
      refine ⟨d + 1, by omega, by rw [← f1]; congr 1; omega, fun j hj => ?_⟩
      cases j with
      | zero => exact hnm
      | succ j =>
        have := f4 j (by omega)
        rw [show idx + (j + 1) = idx + 1 + j by omega]; exact this
    unfold lookupFrom at h
    split at h
    · rename_i he; exact ⟨0, by omega, he, fun j hj => by omega⟩
    · rename_i ht
      exact shift (fun g' hg' => by rw [ht] at hg'; cases hg') (ih _ h)
    · rename_i g' hs
      split at h
      · simp at h
      · rename_i hfk
        refine shift (fun g'' hg'' => ?_) (ih _ h)
        rw [hs] at hg''
        simp only [Slot.entry.injEq] at hg''
        subst hg''; exact hfk

/-- what lookup returns in ANY reachable state (duplicate keys allowed): NULL exactly when no live
    entry has the key, otherwise the live entry with the key that comes first in probe order -/
theorem lookup_general {p : Params} {h : Nat → Nat → Nat} {c : Cache} (hp : 0 < p.hashSize)
    (hi : Inv0 p h c) (font key : Nat) :
    (lookup p h c font key = some none ∧ ∀ g, g ∈ c.mru → ¬(g.font = font ∧ g.key = key)) ∨
    (∃ g d, lookup p h c font key = some (some g) ∧ g ∈ c.mru ∧ d < p.hashSize ∧
        FirstAt p c font key (h font key) d g) := by
  have hc := hi.counted
  cases hl : lookup p h c font key with
  | none => exact absurd hl (lookup_ne_none hp hc.tab hi.hasEmpty font key)
  | some r =>
    cases r with
    | none =>
      left
      refine ⟨rfl, fun g hg hm => ?_⟩
      obtain ⟨d0, hd0, he, hnm⟩ := lookupFrom_none_stop p c font key _ _ hl
      obtain ⟨y, hy⟩ := (mem_mru_iff_get hp hc g).mp hg
      obtain ⟨d, hd, hgd, hpath⟩ := hi.reach y g hy
      rw [hm.1, hm.2] at hgd hpath
      rcases Nat.lt_trichotomy d d0 with hlt | heq | hgt
      · exact hnm d hlt g hgd hm
      · subst heq; rw [he] at hgd; cases hgd
      · exact hpath d0 hgt he
    | some g =>
      right
      obtain ⟨d, hd, hf⟩ := lookupFrom_some_first p c font key g _ _ hl
      have hg : g ∈ c.mru := hc.mru.mem_iff.mpr (lookup_some_mem hp hc.tab hl)
      exact ⟨g, d, rfl, hg, hd, hf⟩

/-- converse direction used below: the first entry with the key in probe order IS what lookup returns -/
theorem lookup_of_firstAt {p : Params} {h : Nat → Nat → Nat} {c : Cache} (hp : 0 < p.hashSize)
    (hi : Inv0 p h c) {font key d : Nat} {g : G}
    (hf : FirstAt p c font key (h font key) d g) : lookup p h c font key = some (some g) := by
  have hc := hi.counted
  rcases lookup_general hp hi font key with ⟨_, hn⟩ | ⟨g', d', hl, _, _, hf'⟩
  · have hg : g ∈ c.mru := (mem_mru_iff_get hp hc g).mpr ⟨_, hf.1⟩
    exact absurd ⟨hf.2.1, hf.2.2.1⟩ (hn g hg)
  · rw [hl, (firstAt_unique hf hf').2]

/-! ### every API call, without the insertion discipline -/

/-- the entry visible under a key: what lookup returns -/
def visible (p : Params) (h : Nat → Nat → Nat) (c : Cache) (font key : Nat) : Option G :=
  (lookup p h c font key).join

/-- effect of an API call on the recency-ordered list of live glyph OBJECTS (a multimap: several
    objects may carry one key); differs from `absStep` only in that `lookup`, `remove` and `touch`
    act on the *visible* entry of the key: `remove` deletes that single object -/
def absStepG (p : Params) (h : Nat → Nat → Nat) (c : Cache) : Op → List G × Res
  | .freeze => (c.mru, .unit)
  | .thaw =>
    (if c.freeze - 1 = 0 ∧ c.nGlyphs + c.nTomb > (p.high : Int) then
       (if c.nTomb > (p.high : Int) then [] else c.mru.take p.low)
     else c.mru, .unit)
  | .insert f k =>
    if c.freeze ≤ 0 ∨ full p c = true then (c.mru, .refused)
    else (⟨c.clock, f, k⟩ :: c.mru, .inserted ⟨c.clock, f, k⟩)
  | .lookup f k => (c.mru, .found (visible p h c f k))
  | .remove f k =>
    (match visible p h c f k with
     | some g => c.mru.filter (· ≠ g)
     | none => c.mru, .unit)
  | .touch f k =>
    (match visible p h c f k with
     | some g => g :: c.mru.filter (· ≠ g)
     | none => c.mru, .unit)
  | .insertFail _ _ => (c.mru, .refused)

theorem stepCore_general {p : Params} {h : Nat → Nat → Nat} {c : Cache} (hp : 0 < p.hashSize)
    (hi : Inv0 p h c) (o : Op) :
    Reach p h (stepCore p h c o).1 ∧
      ((stepCore p h c o).1.mru, (stepCore p h c o).2) = absStepG p h c o := by
  have hc := hi.counted
  cases o with
  | freeze => exact ⟨Reach.of_table rfl hi.reach, rfl⟩
  | insertFail font key =>
    rw [stepCore_insertFail]
    exact ⟨hi.reach, rfl⟩
  | lookup font key =>
    simp only [stepCore, absStepG, visible]
    cases hl : lookup p h c font key with
    | none => exact absurd hl (lookup_ne_none hp hc.tab hi.hasEmpty font key)
    | some r => exact ⟨hi.reach, rfl⟩
  | touch font key =>
    simp only [stepCore, absStepG, visible]
    cases hl : lookup p h c font key with
    | none => exact absurd hl (lookup_ne_none hp hc.tab hi.hasEmpty font key)
    | some r =>
      cases r with
      | none => exact ⟨hi.reach, rfl⟩
      | some g => exact ⟨Reach.of_table rfl hi.reach, rfl⟩
  | remove font key =>
    simp only [stepCore, absStepG, visible]
    cases hl : lookup p h c font key with
    | none => exact absurd hl (lookup_ne_none hp hc.tab hi.hasEmpty font key)
    | some r =>
      cases r with
      | none => exact ⟨hi.reach, rfl⟩
      | some g =>
        have hge : g ∈ entries c.table := lookup_some_mem hp hc.tab hl
        simp only [Option.join]
        cases hrm : removeGlyph p h c g with
        | none => exact absurd hrm (removeGlyph_ne_none hp hc.tab hge)
        | some c1 =>
          obtain ⟨r1, _⟩ := removeGlyph_reach hp hc.tab hi.reach hrm
          obtain ⟨_, m2, _⟩ := removeGlyph_ok hp hc.tab hrm
          refine ⟨Reach.of_table rfl r1, ?_⟩
          simp only [Prod.mk.injEq, and_true]
          show c1.mru.filter (· ≠ g) = _
          rw [m2]
          rfl
  | insert font key =>
    generalize hr : stepCore p h c (.insert font key) = r
    unfold stepCore at hr
    show _ ∧ _ = absStepG p h c _
    unfold absStepG
    simp only
    simp only at hr
    split at hr
    · rename_i hfz
      subst hr
      rw [if_pos (Or.inl hfz)]
      exact ⟨hi.reach, rfl⟩
    · rename_i hfz
      split at hr
      · rename_i hfull
        subst hr
        rw [if_pos (Or.inr hfull)]
        exact ⟨hi.reach, rfl⟩
      · rename_i hnf
        rw [if_neg (by intro hh; rcases hh with hh | hh; exact hfz hh; exact hnf hh)]
        cases hins : insertGlyph p h { c with mru := (⟨c.clock, font, key⟩ : G) :: c.mru } ⟨c.clock, font, key⟩ with
        | none =>
          exact absurd hins (insertGlyph_ne_none hp hc.tab.len ((hasEmpty_iff hc.tab).mp hi.hasEmpty))
        | some c' =>
          rw [hins] at hr; subst hr
          obtain ⟨r1, _⟩ := insertGlyph_reach (c := c) (c0 := { c with mru := (⟨c.clock, font, key⟩ : G) :: c.mru }) hp hc.tab.len rfl hi.reach hins
          refine ⟨r1, ?_⟩
          simp only [Prod.mk.injEq, and_true]
          unfold insertGlyph at hins
          split at hins
          · cases hins
          · simp only [Option.some.injEq] at hins
            rw [← hins]
            simp only [Cache.set]
            split <;> rfl
  | thaw =>
    generalize hr : stepCore p h c .thaw = r
    unfold stepCore at hr
    show _ ∧ _ = absStepG p h c _
    unfold absStepG
    simp only
    simp only at hr
    have hc0 : CountedB p c.clock ({ c with freeze := c.freeze - 1 } : Cache) := hc.congr rfl rfl rfl rfl
    split at hr
    · rename_i hcond
      rw [if_pos hcond]
      generalize hc1e : (if c.nTomb > (p.high : Int) then clearTable p ({ c with freeze := c.freeze - 1 } : Cache)
          else ({ c with freeze := c.freeze - 1 } : Cache)) = c1 at hr
      have hc1 : CountedB p c.clock c1 ∧ Reach p h c1 ∧
          c1.mru = (if c.nTomb > (p.high : Int) then [] else c.mru) := by
        split at hc1e
        · rename_i hgt
          subst hc1e
          exact ⟨clearTable_counted _ _ _, reach_clearTable _ _ _, by rw [if_pos hgt]; rfl⟩
        · rename_i hgt
          subst hc1e
          exact ⟨hc0, Reach.of_table rfl hi.reach, by rw [if_neg hgt]⟩
      obtain ⟨c', e1, e2, e3, e4, e5, e6, e7⟩ := evict_ok (h := h) hp (p.hashSize + 1) c1 hc1.1
      obtain ⟨f1, f2, f3⟩ := evict_refine hp (p.hashSize + 1) c1 c' hc1.1 hc1.2.1 e1
      rw [e1] at hr
      simp only at hr
      subst hr
      refine ⟨f1, ?_⟩
      simp only [Prod.mk.injEq, and_true]
      have hle : c1.nGlyphs ≤ (p.low : Int) + ((p.hashSize + 1 : Nat) : Int) := by
        have := count_total c1.table
        have := hc1.1.tab.len
        have := hc1.1.tab.glyphs
        omega
      rw [f3 hle, hc1.2.2]
      split <;> simp
    · rename_i hcond
      rw [if_neg hcond]
      subst hr
      exact ⟨Reach.of_table rfl hi.reach, rfl⟩

theorem create_inv0 {p : Params} (hp : 0 < p.hashSize) (h : Nat → Nat → Nat) : Inv0 p h (create p) :=
  (create_inv hp h).toInv0

theorem step_general {p : Params} {h : Nat → Nat → Nat} {c : Cache} (hp : 0 < p.hashSize)
    (hi : Inv0 p h c) (o : Op) :
    Inv0 p h (step p h c o).1 ∧ ((step p h c o).1.mru, (step p h c o).2) = absStepG p h c o := by
  obtain ⟨r1, r3⟩ := stepCore_general hp hi o
  obtain ⟨s1, s2⟩ := step_ok (h := h) hp hi.counted o
  exact ⟨⟨s1, (s2 hi.hasEmpty).2, Reach.of_table rfl r1⟩, r3⟩

theorem run_general {p : Params} {h : Nat → Nat → Nat} (hp : 0 < p.hashSize) :
    ∀ (ops : List Op) (c : Cache), Inv0 p h c → Inv0 p h (run p h c ops).1 := by
  intro ops
  induction ops with
  | nil => intro c hi; exact hi
  | cons o os ih =>
    intro c hi
    obtain ⟨s1, _⟩ := step_general hp hi o
    have hnh := ((step_ok (h := h) hp hi.counted o).2 hi.hasEmpty).1
    have := ih _ s1
    unfold run
    simp only
    exact this

/-! ### inserting a key that is already present -/

/-- slot chosen by insert_glyph, exposed: `e` probes after the hash slot, all slots before it hold
    entries, the slot itself does not; the new table differs in that slot only -/
theorem insertGlyph_slot {p : Params} {h : Nat → Nat → Nat} {c c0 c' : Cache} {g : G}
    (hp : 0 < p.hashSize) (hl : c.table.length = p.hashSize) (ht0 : c0.table = c.table)
    (hi : insertGlyph p h c0 g = some c') :
    ∃ e, e < p.hashSize ∧ (c.get p (h g.font g.key + e)).isEntry = false ∧
      (∀ j, j < e → (c.get p (h g.font g.key + j)).isEntry = true) ∧
      ∀ y, c'.get p y =
        if y % p.hashSize = (h g.font g.key + e) % p.hashSize then .entry g else c.get p y := by
  unfold insertGlyph at hi
  split at hi
  · simp at hi
  · rename_i i hf
    simp only [Option.some.injEq] at hi
    have hne : (c.get p i).isEntry = false := by
      rw [← get_of_table (p := p) ht0 i]; exact findFree_some _ _ _ _ _ hf
    obtain ⟨d, hd, hid, hpath⟩ := findFree_first _ _ _ _ _ hf
    subst hid
    refine ⟨d, hd, hne, fun j hj => ?_, fun y => ?_⟩
    · rw [← get_of_table (p := p) ht0]; exact hpath j hj
    · rw [← hi]
      apply get_set' _ hl hp
      show (if (c0.get p (h g.font g.key + d)).isTomb then ({ c0 with nTomb := c0.nTomb - 1 } : Cache) else c0).table = c.table
      split <;> exact ht0

/-- An accepted insertion of a key whose visible entry is `gOld` (a caller error the code does not
    detect) leaves BOTH objects in the cache.  Afterwards lookup of the key returns the NEW object
    if a tombstone lies before `gOld` on the key's probe path (insert_glyph reuses it), and still
    `gOld` otherwise (the new object is stored behind it and stays shadowed until `gOld` is
    removed). -/
theorem duplicate_insert_lookup {p : Params} {h : Nat → Nat → Nat} {c : Cache} (hp : 0 < p.hashSize)
    (hi : Inv0 p h c) {font key d : Nat} {gOld : G}
    (hold : FirstAt p c font key (h font key) d gOld)
    (hfz : 0 < c.freeze) (hnf : full p c = false) :
    let c' := (step p h c (.insert font key)).1
    let gNew : G := ⟨c.clock, font, key⟩
    c'.mru = gNew :: c.mru ∧
    ((∃ j, j < d ∧ c.get p (h font key + j) = .tomb) → lookup p h c' font key = some (some gNew)) ∧
    ((∀ j, j < d → c.get p (h font key + j) ≠ .tomb) → lookup p h c' font key = some (some gOld)) := by
  intro c' gNew
  have hc := hi.counted
  obtain ⟨hi', habs⟩ := step_general hp hi (.insert font key)
  have hmru : c'.mru = gNew :: c.mru := by
    have := congrArg Prod.fst habs
    simp only [absStepG] at this
    rw [if_neg (by intro hh; rcases hh with hh | hh; omega; rw [hnf] at hh; cases hh)] at this
    exact this
  -- the table after the step
  have hins : ∃ c1, insertGlyph p h { c with mru := gNew :: c.mru } gNew = some c1 ∧ c'.table = c1.table := by
    show ∃ c1, _ ∧ (step p h c (.insert font key)).1.table = _
    unfold step
    simp only [stepCore]
    rw [if_neg (by omega)]
    simp only [hnf, Bool.false_eq_true, if_false]
    cases hins : insertGlyph p h { c with mru := gNew :: c.mru } gNew with
    | none => exact absurd hins (insertGlyph_ne_none hp hc.tab.len ((hasEmpty_iff hc.tab).mp hi.hasEmpty))
    | some c1 => exact ⟨c1, rfl, rfl⟩
  obtain ⟨c1, hins, htab⟩ := hins
  obtain ⟨e, he, hne, hpre, hget1⟩ :=
    insertGlyph_slot (c := c) (c0 := { c with mru := gNew :: c.mru }) hp hc.tab.len rfl hins
  have hget : ∀ y, c'.get p y =
      if y % p.hashSize = (h font key + e) % p.hashSize then .entry gNew else c.get p y := by
    intro y; rw [get_of_table (p := p) htab y]; exact hget1 y
  obtain ⟨o1, o2, o3, o4⟩ := hold
  -- slots that hold an entry in the old table are not the chosen slot
  have hkeep : ∀ y, (c.get p y).isEntry = true → c'.get p y = c.get p y := by
    intro y hy
    rw [hget]
    split
    · rename_i heq
      rw [get_congr p c heq] at hy
      rw [hy] at hne; cases hne
    · rfl
  have hed : e ≠ d := by
    intro hh; subst hh
    rw [o1] at hne; cases hne
  refine ⟨hmru, ?_, ?_⟩
  · -- a tombstone before gOld: the chosen slot is before gOld
    rintro ⟨j, hj, htomb⟩
    have hlt : e < d := by
      rcases Nat.lt_trichotomy e d with hlt | heq | hgt
      · exact hlt
      · exact absurd heq hed
      · have hjl : j < e := by omega
        have := hpre j hjl
        rw [htomb] at this; cases this
    apply lookup_of_firstAt hp hi' (d := e)
    refine ⟨by rw [hget, if_pos rfl], rfl, rfl, fun j' hj' => ?_⟩
    have hent := hpre j' hj'
    rw [hkeep _ hent]
    exact o4 j' (by omega)
  · intro hnt
    have hgt : d < e := by
      rcases Nat.lt_trichotomy e d with hlt | heq | hgt
      · -- the chosen slot would be a non-entry before gOld: neither empty (path) nor tombstone
        have h1 := (o4 e hlt).1
        have h2 := hnt e hlt
        cases hs : c.get p (h font key + e) with
        | empty => exact absurd hs h1
        | tomb => exact absurd hs h2
        | entry g => rw [hs] at hne; cases hne
      · exact absurd heq hed
      · exact hgt
    apply lookup_of_firstAt hp hi' (d := d)
    refine ⟨?_, o2, o3, fun j' hj' => ?_⟩
    · rw [hkeep _ (by rw [o1]; rfl)]; exact o1
    · have hent := hpre j' (by omega)
      rw [hkeep _ hent]
      exact o4 j' hj'

/-- the map view needs exactly the discipline: an accepted insertion of a present key destroys
    `KeysUnique` (two live objects with one key) -/
theorem duplicate_insert_not_unique {p : Params} {h : Nat → Nat → Nat} {c : Cache} (hp : 0 < p.hashSize)
    (hi : Inv0 p h c) {font key : Nat} {g : G} (hg : g ∈ c.mru) (hk : g.font = font ∧ g.key = key)
    (hfz : 0 < c.freeze) (hnf : full p c = false) :
    ¬ KeysUnique p (step p h c (.insert font key)).1 := by
  intro hku
  obtain ⟨hi', habs⟩ := step_general hp hi (.insert font key)
  have hmru : (step p h c (.insert font key)).1.mru = (⟨c.clock, font, key⟩ : G) :: c.mru := by
    have := congrArg Prod.fst habs
    simp only [absStepG] at this
    rw [if_neg (by intro hh; rcases hh with hh | hh; omega; rw [hnf] at hh; cases hh)] at this
    exact this
  have hc' := hi'.counted
  obtain ⟨y, hy⟩ := (mem_mru_iff_get hp hc' g).mp (by rw [hmru]; exact List.mem_cons_of_mem _ hg)
  obtain ⟨y', hy'⟩ := (mem_mru_iff_get hp hc' (⟨c.clock, font, key⟩ : G)).mp (by rw [hmru]; exact List.mem_cons_self)
  have heq := hku y y' g ⟨c.clock, font, key⟩ hy hy' hk.1 hk.2
  have hid := hi.counted.tab.ids g (hi.counted.mru.mem_iff.mp hg)
  rw [heq] at hid
  exact Nat.lt_irrefl _ hid

end Pixman.Glyph

import Pixman.Lemmas.Fill
import Pixman.Lemmas.FillSimd
/-! Executing a SIMD fill row program: bit-level result of the replicated-pattern stores. -/
namespace Pixman.Lemmas.FillPattern
open Pixman.Model.Fill Pixman.Lemmas.Fill Pixman.Lemmas.FillSimd

/-- a 16-bit value replicated into both halves of a word -/
theorem rep16_testBit (x t : Nat) (hx : x < 2 ^ 16) (ht : t < 32) :
    (x * 65537).testBit t = x.testBit (t % 16) := by
  have e : x * 65537 = 2 ^ 16 * x ||| x := by
    rw [← Nat.two_pow_add_eq_or_of_lt hx x]; omega
  rw [e, Nat.testBit_or, Nat.mul_comm, Nat.testBit_mul_two_pow]
  by_cases h : 16 ≤ t
  · have h1 : x.testBit t = false := Nat.testBit_lt_two_pow (Nat.lt_of_lt_of_le hx
      (Nat.pow_le_pow_right (by decide) h))
    have h2 : t % 16 = t - 16 := by omega
    simp [h, h1, h2]
  · have h2 : t % 16 = t := by omega
    simp [h, h2]

/-- an 8-bit value replicated into both bytes of a halfword -/
theorem rep8_testBit (b t : Nat) (hb : b < 2 ^ 8) (ht : t < 16) :
    (b * 257).testBit t = b.testBit (t % 8) := by
  have e : b * 257 = 2 ^ 8 * b ||| b := by
    rw [← Nat.two_pow_add_eq_or_of_lt hb b]; omega
  rw [e, Nat.testBit_or, Nat.mul_comm, Nat.testBit_mul_two_pow]
  by_cases h : 8 ≤ t
  · have h1 : b.testBit t = false := Nat.testBit_lt_two_pow (Nat.lt_of_lt_of_le hb
      (Nat.pow_le_pow_right (by decide) h))
    have h2 : t % 8 = t - 8 := by omega
    simp [h, h1, h2]
  · have h2 : t % 8 = t := by omega
    simp [h, h2]

theorem patByte_testBit (f k j : Nat) (hj : j < 8) :
    (patByte f k).testBit j = f.testBit (8 * (k % 4) + j) := by
  unfold patByte
  have e : (256 : Nat) = 2 ^ 8 := by decide
  rw [e, Nat.testBit_mod_two_pow, Nat.testBit_shiftRight]
  simp [hj]

theorem mod_u32 (x : Nat) (h : x < 4294967296) : x % U32 = x := Nat.mod_eq_of_lt h

theorem mmxFiller16 (f : Nat) : mmxFiller 16 f = (f % 65536) * 65537 := by
  unfold mmxFiller
  have e : f &&& 0xffff = f % 65536 := Nat.and_two_pow_sub_one_eq_mod f 16
  simp only [e, show (16 : Nat) ≠ 8 by decide, if_false, if_true]
  apply mod_u32
  have : f % 65536 < 65536 := Nat.mod_lt _ (by decide)
  omega

theorem mmxFiller8 (f : Nat) : mmxFiller 8 f = ((f % 256) * 257) * 65537 := by
  unfold mmxFiller
  have e : f &&& 0xff = f % 256 := Nat.and_two_pow_sub_one_eq_mod f 8
  simp only [e, if_true]
  have : f % 256 < 256 := Nat.mod_lt _ (by decide)
  rw [mod_u32 _ (by omega)]; omega

theorem sse2Filler16 (f : Nat) : sse2Filler 16 f = (f % 65536) * 65537 := by
  unfold sse2Filler
  have e : f &&& 0xffff = f % 65536 := Nat.and_two_pow_sub_one_eq_mod f 16
  simp only [e, show (16 : Nat) ≠ 8 by decide, if_false, if_true]
  apply mod_u32
  have : f % 65536 < 65536 := Nat.mod_lt _ (by decide)
  omega

theorem sse2Filler8 (f : Nat) : sse2Filler 8 f = ((f % 256) * 257) * 65537 := by
  unfold sse2Filler
  have e : f &&& 0xff = f % 256 := Nat.and_two_pow_sub_one_eq_mod f 8
  simp only [e, if_true]
  have hb : f % 256 < 2 ^ 8 := Nat.mod_lt _ (by decide)
  generalize f % 256 = b at hb ⊢
  have e1 : (b <<< 8 ||| b) % U32 = b * 257 := by
    have : b <<< 8 ||| b = b * 257 := by
      rw [Nat.shiftLeft_eq, Nat.mul_comm, ← Nat.two_pow_add_eq_or_of_lt hb]; omega
    rw [this]; exact mod_u32 _ (by omega)
  rw [e1]
  obtain ⟨w, hwe⟩ : ∃ w, w = b * 257 := ⟨_, rfl⟩
  rw [← hwe]
  have hw : w < 2 ^ 16 := by omega
  clear hwe
  have e2 : (w <<< 16) % U32 = 2 ^ 16 * w := by
    rw [Nat.shiftLeft_eq, Nat.mul_comm]; exact mod_u32 _ (by omega)
  rw [e2, ← Nat.two_pow_add_eq_or_of_lt hw]
  omega

/-- the replicated fillers: byte `k` of the pattern is byte `k % B` of the pixel value -/
theorem rep_pattern (rep : Nat → Nat → Nat) (hrep : rep = sse2Filler ∨ rep = mmxFiller)
    (B f k j : Nat) (hB : B = 1 ∨ B = 2 ∨ B = 4) (hj : j < 8) :
    (patByte (rep (8 * B) f) k).testBit j = f.testBit (8 * (k % B) + j) := by
  rw [patByte_testBit _ _ _ hj]
  have h4 : k % 4 < 4 := Nat.mod_lt _ (by decide)
  rcases hB with rfl | rfl | rfl
  · have e : rep (8 * 1) f = ((f % 256) * 257) * 65537 := by
      rcases hrep with rfl | rfl
      · exact sse2Filler8 f
      · exact mmxFiller8 f
    have hb : f % 256 < 2 ^ 8 := Nat.mod_lt _ (by decide)
    rw [e, rep16_testBit _ _ (by omega) (by omega), rep8_testBit _ _ hb (Nat.mod_lt _ (by decide))]
    have e2 : (f % 256) = f % 2 ^ 8 := rfl
    rw [e2, Nat.testBit_mod_two_pow]
    have h3 : (8 * (k % 4) + j) % 16 % 8 = j := by omega
    have h5 : 8 * (k % 1) + j = j := by omega
    simp [h3, h5, hj]
  · have e : rep (8 * 2) f = (f % 65536) * 65537 := by
      rcases hrep with rfl | rfl
      · exact sse2Filler16 f
      · exact mmxFiller16 f
    have hx : f % 65536 < 2 ^ 16 := Nat.mod_lt _ (by decide)
    rw [e, rep16_testBit _ _ hx (by omega)]
    have e2 : (f % 65536) = f % 2 ^ 16 := rfl
    rw [e2, Nat.testBit_mod_two_pow]
    have h3 : (8 * (k % 4) + j) % 16 = 8 * (k % 2) + j := by omega
    have h5 : 8 * (k % 2) + j < 16 := by omega
    simp [h3, h5]
  · have e : rep (8 * 4) f = f := by
      rcases hrep with rfl | rfl <;> rfl
    rw [e]

/-- an `n`-byte store of the pattern -/
theorem storePat_bit (f : Nat) (a : Int) (n : Nat) (m : Mem) (i : Int) :
    (storePat f a n m).bit i =
      if a ≤ i / 8 ∧ i / 8 < a + n then (patByte f (i / 8 - a).toNat).testBit (i % 8).toNat
      else m.bit i := by
  induction n with
  | zero => rw [storePat, if_neg (by omega)]
  | succ n ih =>
    rw [storePat, store8_bit, ih]
    by_cases h : i / 8 = a + n
    · rw [if_pos h, if_pos (by omega)]
      have : (i / 8 - a).toNat = n := by omega
      rw [this]
    · rw [if_neg h]
      by_cases h2 : a ≤ i / 8 ∧ i / 8 < a + n
      · rw [if_pos h2, if_pos (by omega)]
      · rw [if_neg h2, if_neg (by omega)]

theorem tiles_le (a b : Int) (l : List Store) (h : Tiles a l b) : a ≤ b := by
  induction l generalizing a with
  | nil => simp only [Tiles] at h; omega
  | cons st rest ih => have := ih _ h.2.2; omega

/-- executing a tiling whose stores are whole pixels and start on pixel boundaries: exactly the
bytes of `[a, b)` hold the pixel value, byte `k % B` of it at byte address `k` -/
theorem execFill_bit (F f B : Nat) (hB : B = 1 ∨ B = 2 ∨ B = 4)
    (hpat : ∀ k j, j < 8 → (patByte F k).testBit j = f.testBit (8 * (k % B) + j)) (i : Int) :
    ∀ (l : List Store) (a b : Int) (m : Mem), Tiles a l b → (∀ st ∈ l, B ∣ st.size) → (B : Int) ∣ a →
      (execFill F l m).bit i =
        if a ≤ i / 8 ∧ i / 8 < b then f.testBit (8 * ((i / 8) % (B : Int)).toNat + (i % 8).toNat)
        else m.bit i := by
  intro l
  induction l with
  | nil =>
    intro a b m ht _ _
    simp only [Tiles] at ht
    rw [execFill, if_neg (by omega)]
  | cons st rest ih =>
    intro a b m ht hs ha
    obtain ⟨h1, h2, h3⟩ := ht
    have hsz : B ∣ st.size := hs st List.mem_cons_self
    have hle := tiles_le _ _ _ h3
    have ha' : (B : Int) ∣ a + st.size := Int.dvd_add ha (Int.natCast_dvd_natCast.2 hsz)
    rw [execFill, ih (a + st.size) b _ h3 (fun s hs' => hs s (List.mem_cons_of_mem _ hs')) ha',
      h1, storePat_bit]
    by_cases c1 : a + (st.size : Int) ≤ i / 8 ∧ i / 8 < b
    · rw [if_pos c1, if_pos (by omega)]
    · rw [if_neg c1]
      by_cases c2 : a ≤ i / 8 ∧ i / 8 < a + st.size
      · rw [if_pos c2, if_pos (by omega), hpat _ _ (by omega)]
        congr 2
        rcases hB with rfl | rfl | rfl <;> omega
      · rw [if_neg c2, if_neg (by omega)]

end Pixman.Lemmas.FillPattern

import Pixman.Lemmas.ImageState
import Pixman.Lemmas.ImageStateSpec
/-! Well-formedness of alpha-map links over histories: `alpha_count` is the exact number of users,
no alpha map has an alpha map; hence `_pixman_image_validate` recurses at most once. -/
namespace Pixman.Model.ImageState
open Pixman.Spec.ImageState

def amOf (w : World) (i : Nat) : Option Nat := (w.get i).props.alphaMap

/-- number of images below `n` whose alpha map is `j` -/
def users (w : World) (j : Nat) : Nat → Int
  | 0 => 0
  | n + 1 => users w j n + (if amOf w n = some j then 1 else 0)

structure WF (n : Nat) (w : World) : Prop where
  noChain : ∀ i j, amOf w i = some j → amOf w j = none
  count : ∀ j, (w.get j).alphaCount = users w j n
  bound : ∀ i, n ≤ i → amOf w i = none

/-- the call addresses an image of the pool `0 .. n-1` (only `set_alpha_map` needs it) -/
def OpInRange (n : Nat) : Op → Prop
  | .setAlphaMap i _ _ _ => i < n
  | _ => True

theorem users_nonneg (w : World) (j n : Nat) : 0 ≤ users w j n := by
  induction n with
  | zero => simp [users]
  | succ n ih => unfold users; split <;> omega

theorem users_zero (w : World) (j n : Nat) (h : users w j n = 0) : ∀ i, i < n → amOf w i ≠ some j := by
  induction n with
  | zero => intro i hi; omega
  | succ n ih =>
    intro i hi
    unfold users at h
    have h0 := users_nonneg w j n
    by_cases hn : amOf w n = some j
    · rw [if_pos hn] at h; omega
    · rw [if_neg hn] at h
      by_cases hin : i = n
      · subst hin; exact hn
      · exact ih (by omega) i (by omega)

theorem users_congr (w w' : World) (j n : Nat) (h : ∀ i, i < n → amOf w' i = amOf w i) : users w' j n = users w j n := by
  induction n with
  | zero => rfl
  | succ n ih =>
    unfold users
    rw [ih (fun i hi => h i (by omega)), h n (by omega)]

theorem users_upd (w w' : World) (j i n : Nat) (hi : i < n) (h : ∀ k, k ≠ i → amOf w' k = amOf w k) :
    users w' j n = users w j n - (if amOf w i = some j then 1 else 0) + (if amOf w' i = some j then 1 else 0) := by
  induction n with
  | zero => omega
  | succ n ih =>
    unfold users
    by_cases hin : i = n
    · subst hin
      rw [users_congr w w' j i (fun k hk => h k (by omega))]
      omega
    · rw [ih (by omega), h n (fun hh => hin hh.symm)]
      omega

theorem wf_fresh (n : Nat) (crs : Nat → Creation) (junk : Nat → Derived) : WF n (fresh crs junk) := by
  have ham : ∀ i, amOf (fresh crs junk) i = none := fun i => rfl
  refine ⟨fun i j h => ham j, fun j => ?_, fun i _ => ham i⟩
  show (0 : Int) = _
  induction n with
  | zero => rfl
  | succ n ih => unfold users; rw [← ih, ham n]; simp

theorem wf_of_same (n : Nat) (w w' : World)
    (h : ∀ k, amOf w' k = amOf w k ∧ (w'.get k).alphaCount = (w.get k).alphaCount) (hw : WF n w) : WF n w' := by
  refine ⟨fun i j hij => ?_, fun j => ?_, fun i hi => ?_⟩
  · rw [(h j).1]; rw [(h i).1] at hij; exact hw.noChain i j hij
  · rw [(h j).2, hw.count j, users_congr w w' j n (fun i _ => (h i).1)]
  · rw [(h i).1]; exact hw.bound i hi

/-- what `set_alpha_map` does to links and counts, read off the Spec refinement -/
theorem setAlphaMap_links (w : World) (i : Nat) (am : Option Nat) (x y : Int) (k : Nat) :
    (alphaMapAccepted (toSpec w) i am →
      amOf (setAlphaMap w i am x y) k = (if k = i then am else amOf w k) ∧
      ((setAlphaMap w i am x y).get k).alphaCount = (w.get k).alphaCount
        - (if amOf w i = some k ∧ amOf w i ≠ am then 1 else 0) + (if am = some k ∧ amOf w i ≠ am then 1 else 0)) ∧
    (¬ alphaMapAccepted (toSpec w) i am →
      amOf (setAlphaMap w i am x y) k = amOf w k ∧ ((setAlphaMap w i am x y).get k).alphaCount = (w.get k).alphaCount) := by
  have h := congrFun (refines_setAlphaMap w i am x y) k
  have hp : (toSpec (setAlphaMap w i am x y) k).props.alphaMap = amOf (setAlphaMap w i am x y) k := rfl
  have hc : (toSpec (setAlphaMap w i am x y) k).alphaCount = ((setAlphaMap w i am x y).get k).alphaCount := rfl
  have h' : toSpec (setAlphaMap w i am x y) k = sstep (toSpec w) (.setAlphaMap i am x y) k := h
  constructor
  · intro hacc
    rw [← hp, ← hc, h']
    simp only [sstep, if_pos hacc]
    by_cases hk : k = i
    · subst hk; simp [toSpec, amOf]; rfl
    · simp [hk, toSpec, amOf]; rfl
  · intro hacc
    rw [← hp, ← hc, h']
    simp only [sstep, if_neg hacc]
    simp [toSpec, amOf]

theorem wf_setAlphaMap (n : Nat) (w : World) (i : Nat) (am : Option Nat) (x y : Int) (hi : i < n) (hw : WF n w) :
    WF n (setAlphaMap w i am x y) := by
  by_cases hacc : alphaMapAccepted (toSpec w) i am
  · have hl := fun k => (setAlphaMap_links w i am x y k).1 hacc
    have ham : ∀ k, amOf (setAlphaMap w i am x y) k = if k = i then am else amOf w k := fun k => (hl k).1
    -- when a map is attached nobody uses `i` as an alpha map
    have hnobody : ∀ j, am = some j → ∀ a, amOf w a ≠ some i := by
      intro j hj a
      subst hj
      have hc : ¬ (w.get i).alphaCount > 0 := hacc.2.2.1
      have h0 : users w i n = 0 := by
        have := hw.count i; have := users_nonneg w i n; omega
      by_cases ha : a < n
      · exact users_zero w i n h0 a ha
      · rw [hw.bound a (by omega)]; exact fun h => by cases h
    refine ⟨fun a b hab => ?_, fun j => ?_, fun a ha => ?_⟩
    · rw [ham] at hab
      rw [ham]
      by_cases hai : a = i
      · rw [if_pos hai] at hab
        -- am = some b
        have hacc' : alphaMapAccepted (toSpec w) i (some b) := hab ▸ hacc
        have hbi : b ≠ i := hacc'.2.1
        rw [if_neg hbi]
        exact hacc'.2.2.2
      · rw [if_neg hai] at hab
        by_cases hbi : b = i
        · rw [if_pos hbi]
          cases ham' : am with
          | none => rfl
          | some j => subst hbi; exact absurd hab (hnobody j ham' a)
        · rw [if_neg hbi]; exact hw.noChain a b hab
    · rw [(hl j).2, hw.count j, users_upd w (setAlphaMap w i am x y) j i n hi (fun k hk => by rw [ham, if_neg hk]), ham, if_pos rfl]
      by_cases h1 : amOf w i = am
      · rw [h1]; simp
      · have e : (some j = am) = (am = some j) := propext eq_comm
        by_cases h2 : amOf w i = some j <;> by_cases h3 : am = some j <;> simp [h1, h2, h3, e]
    · rw [ham, if_neg (by omega)]; exact hw.bound a ha
  · exact wf_of_same n w _ (fun k => (setAlphaMap_links w i am x y k).2 hacc) hw

/-- setters of one image that touch neither the alpha-map link nor the count -/
def LinkOK (f : Image → Image) : Prop :=
  ∀ im, (f im).props.alphaMap = im.props.alphaMap ∧ (f im).alphaCount = im.alphaCount

theorem wf_upd (n : Nat) (w : World) (i : Nat) (f : Image → Image) (hf : LinkOK f) (hw : WF n w) : WF n (upd w i f) := by
  refine wf_of_same n w _ (fun k => ?_) hw
  unfold amOf
  by_cases hk : k = i
  · subst hk; rw [upd_same]; exact hf _
  · rw [upd_other _ _ _ _ hk]; exact ⟨rfl, rfl⟩

theorem wf_step (n : Nat) (w : World) (op : Op) (hr : OpInRange n op) (hw : WF n w) : WF n (step w op) := by
  cases op with
  | setAlphaMap i am x y => exact wf_setAlphaMap n w i am x y hr hw
  | use ids =>
    show WF n (useAll w ids)
    exact wf_of_same n w _ (fun k => ⟨by unfold amOf; rw [(useAll_get ids w k).2.1], (useAll_get ids w k).2.2⟩) hw
  | setTransform i t =>
    show WF n (upd w i (fun im => setTransformI im t))
    refine wf_upd n w i _ (fun im => ?_) hw
    simp only [setTransformI, imagePropertyChanged]; repeat' split
    all_goals (first | exact ⟨rfl, rfl⟩ | simp)
  | setRepeat i r =>
    show WF n (upd w i (fun im => setRepeatI im r))
    refine wf_upd n w i _ (fun im => ?_) hw
    simp only [setRepeatI, imagePropertyChanged]; repeat' split
    all_goals (first | exact ⟨rfl, rfl⟩ | simp)
  | setFilter i f p m =>
    show WF n (upd w i (fun im => setFilterI im f p m))
    refine wf_upd n w i _ (fun im => ?_) hw
    simp only [setFilterI, imagePropertyChanged]; repeat' split
    all_goals (first | exact ⟨rfl, rfl⟩ | simp)
  | setClipRegion i r =>
    show WF n (upd w i (fun im => setClipRegionI im r))
    refine wf_upd n w i _ (fun im => ?_) hw
    simp only [setClipRegionI, imagePropertyChanged]; repeat' split
    all_goals (first | exact ⟨rfl, rfl⟩ | simp)
  | setHasClientClip i v =>
    show WF n (upd w i (fun im => setHasClientClipI im v))
    exact wf_upd n w i _ (fun im => ⟨rfl, rfl⟩) hw
  | setSourceClipping i v =>
    show WF n (upd w i (fun im => setSourceClippingI im v))
    refine wf_upd n w i _ (fun im => ?_) hw
    simp only [setSourceClippingI, imagePropertyChanged]; repeat' split
    all_goals (first | exact ⟨rfl, rfl⟩ | simp)
  | setComponentAlpha i v =>
    show WF n (upd w i (fun im => setComponentAlphaI im v))
    refine wf_upd n w i _ (fun im => ?_) hw
    simp only [setComponentAlphaI, imagePropertyChanged]; repeat' split
    all_goals (first | exact ⟨rfl, rfl⟩ | simp)
  | setAccessors i r wr =>
    show WF n (upd w i (fun im => setAccessorsI im r wr))
    refine wf_upd n w i _ (fun im => ?_) hw
    simp only [setAccessorsI, imagePropertyChanged]; repeat' split
    all_goals (first | exact ⟨rfl, rfl⟩ | simp)
  | setIndexed i p =>
    show WF n (upd w i (fun im => setIndexedI im p))
    refine wf_upd n w i _ (fun im => ?_) hw
    simp only [setIndexedI, imagePropertyChanged]; repeat' split
    all_goals (first | exact ⟨rfl, rfl⟩ | simp)
  | setDither i d =>
    show WF n (upd w i (fun im => setDitherI im d))
    refine wf_upd n w i _ (fun im => ?_) hw
    simp only [setDitherI, imagePropertyChanged]; repeat' split
    all_goals (first | exact ⟨rfl, rfl⟩ | simp)
  | setDitherOffset i x y =>
    show WF n (upd w i (fun im => setDitherOffsetI im x y))
    refine wf_upd n w i _ (fun im => ?_) hw
    simp only [setDitherOffsetI, imagePropertyChanged]; repeat' split
    all_goals (first | exact ⟨rfl, rfl⟩ | simp)

/-- with well-formed links the recursion stops after the alpha map -/
theorem validateFuel_enough (n : Nat) (w : World) (hw : WF n w) (i fuel : Nat) :
    validateFuel (fuel + 2) w i = validate w i := by
  unfold validate
  rw [validateFuel_succ, validateFuel_succ 1]
  cases h : ((clean w i).get i).props.alphaMap with
  | none => rfl
  | some j =>
    simp only
    have hj : amOf w j = none := hw.noChain i j (by unfold amOf; rw [← (clean_get w i i).2.1]; exact h)
    have hj' : ((clean (clean w i) j).get j).props.alphaMap = none := by
      rw [(clean_get (clean w i) j j).2.1, (clean_get w i j).2.1]; exact hj
    cases fuel with
    | zero => rfl
    | succ f =>
      rw [validateFuel_succ, validateFuel_succ 0, hj']

end Pixman.Model.ImageState

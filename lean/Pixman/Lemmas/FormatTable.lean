import Pixman.Model.Format
import Pixman.Spec.Format
/-! Bit-field lemmas and the per-width table of `unorm_to_unorm` used by the C10 theorems (kept in its own
file: the table takes ~15 s to check). -/
namespace Pixman.Lemmas.FormatCodec
open Pixman.Model.Format Pixman.Spec.Format

/-! ## bit fields -/

theorem testBit_field (p s w i : Nat) : (field p s w).testBit i = (decide (i < w) && p.testBit (s + i)) := by
  unfold field
  rw [Nat.testBit_and, Nat.testBit_shiftRight, Nat.testBit_two_pow_sub_one, Bool.and_comm]

theorem field_lt (p s w : Nat) : field p s w < 2 ^ w := by
  unfold field
  rw [Nat.and_two_pow_sub_one_eq_mod]
  exact Nat.mod_lt _ (Nat.two_pow_pos w)

theorem field_eq_mod (p s w : Nat) : field p s w = (p >>> s) % 2 ^ w := by
  unfold field; rw [Nat.and_two_pow_sub_one_eq_mod]

theorem field_or (x y s w : Nat) : field (x ||| y) s w = field x s w ||| field y s w := by
  unfold field; rw [Nat.shiftRight_or_distrib, Nat.and_or_distrib_right]

theorem field_shiftLeft_same (c s w : Nat) (h : c < 2 ^ w) : field (c <<< s) s w = c := by
  unfold field
  rw [Nat.shiftLeft_shiftRight, Nat.and_two_pow_sub_one_eq_mod, Nat.mod_eq_of_lt h]

theorem field_shiftLeft_disjoint (c s w s' w' : Nat) (h : c < 2 ^ w) (hd : s + w ≤ s' ∨ s' + w' ≤ s) :
    field (c <<< s) s' w' = 0 := by
  apply Nat.eq_of_testBit_eq
  intro i
  rw [testBit_field, Nat.testBit_shiftLeft, Nat.zero_testBit]
  by_cases h1 : i < w'
  · by_cases h2 : s' + i ≥ s
    · have h3 : s' + i - s ≥ w := by omega
      have h4 : c < 2 ^ (s' + i - s) := Nat.lt_of_lt_of_le h (Nat.pow_le_pow_right (by decide) h3)
      simp [Nat.testBit_lt_two_pow h4]
    · simp [h2]
  · simp [h1]

theorem field_zero (s w : Nat) : field 0 s w = 0 := by
  unfold field; simp

theorem field_shiftLeft_back (p s w : Nat) : field p s w <<< s = p &&& ((2 ^ w - 1) <<< s) := by
  apply Nat.eq_of_testBit_eq
  intro j
  rw [Nat.testBit_shiftLeft, testBit_field, Nat.testBit_and, Nat.testBit_shiftLeft, Nat.testBit_two_pow_sub_one]
  by_cases h : j ≥ s
  · have e : s + (j - s) = j := by omega
    rw [e]
    simp only [h, decide_true, Bool.true_and]
    rw [Bool.and_comm]
  · simp [h]

/-- masking with something that contains the field does not change the field -/
theorem field_and_of_mask (p M s w : Nat) (h : ∀ i, i < w → M.testBit (s + i) = true) :
    field (p &&& M) s w = field p s w := by
  apply Nat.eq_of_testBit_eq
  intro i
  rw [testBit_field, testBit_field, Nat.testBit_and]
  by_cases h1 : i < w
  · simp [h1, h i h1]
  · simp [h1]

theorem testBit_maskAt (s w j : Nat) : ((2 ^ w - 1) <<< s).testBit j = (decide (j ≥ s) && decide (j - s < w)) := by
  rw [Nat.testBit_shiftLeft, Nat.testBit_two_pow_sub_one]

/-- `x <<< s` of a `w`-bit value fits in 32 bits when `s + w ≤ 32` -/
theorem shiftLeft_lt32 (x s w : Nat) (hx : x < 2 ^ w) (h : s + w ≤ 32) : x <<< s < 4294967296 := by
  rw [Nat.shiftLeft_eq]
  calc x * 2 ^ s < 2 ^ w * 2 ^ s := Nat.mul_lt_mul_of_pos_right hx (Nat.two_pow_pos s)
    _ = 2 ^ (w + s) := (Nat.pow_add 2 w s).symm
    _ ≤ 2 ^ 32 := Nat.pow_le_pow_right (by decide) (by omega)

/-! ## `unorm_to_unorm` -/

theorem one_shl (n : Nat) : (1 <<< n) - 1 = 2 ^ n - 1 := by rw [Nat.one_shiftLeft]

/-- only the low `from_bits` bits of the argument matter -/
theorem u2u_mod (v n m : Nat) : unormToUnorm v n m = unormToUnorm (v % 2 ^ n) n m := by
  unfold unormToUnorm
  simp only [one_shl, Nat.and_two_pow_sub_one_eq_mod, Nat.mod_mod]

/-- narrowing keeps the most significant bits -/
theorem u2u_narrow (v n m : Nat) (hn : n ≠ 0) (h : m ≤ n) : unormToUnorm v n m = (v % 2 ^ n) >>> (n - m) := by
  unfold unormToUnorm
  simp only [one_shl, Nat.and_two_pow_sub_one_eq_mod, hn, if_false]
  rw [if_pos h]

theorem u2u_narrow_spec (v n m : Nat) (hn : n ≠ 0) (h : m ≤ n) : unormToUnorm v n m = narrow (field v 0 n) n m := by
  rw [u2u_narrow v n m hn h, field_eq_mod]; rfl

theorem replicate_zero (k m : Nat) : (replicate (0, k) m).1 = 0 := by
  unfold replicate; split <;> simp

/-- 0 ↦ 0 for all widths -/
theorem u2u_zero (n m : Nat) : unormToUnorm 0 n m = 0 := by
  unfold unormToUnorm
  by_cases hn : n = 0
  · simp [hn]
  · simp only [hn, if_false, Nat.zero_and, Nat.zero_shiftRight, Nat.zero_shiftLeft, Nat.zero_mod]
    split
    · rfl
    · have r : ∀ k, replicate (0, k) m = (0, (replicate (0, k) m).2) := by
        intro k; apply Prod.ext; exact replicate_zero k m; rfl
      rw [r n, r, r, r, r]

set_option maxRecDepth 100000 in
/-- the tables: all level pairs `1 ≤ n ≤ m ≤ 8`, all `n`-bit levels -/
theorem widen_table : ∀ m ∈ List.range 9, ∀ n ∈ List.range 9, ∀ c ∈ List.range 256, 1 ≤ n → n ≤ m → c < 2 ^ n →
    unormToUnorm c n m = widen c n m ∧ unormToUnorm c n m < 2 ^ m ∧
    unormToUnorm (unormToUnorm c n m) m n = c ∧
    (c + 1 < 2 ^ n → unormToUnorm c n m < unormToUnorm (c + 1) n m) ∧
    (c + 1 = 2 ^ n → unormToUnorm c n m = 2 ^ m - 1) := by decide




set_option maxRecDepth 100000 in
/-- the read-modify-write of `STORE_4` on a byte `B` with a nibble `y` -/
theorem nibble_table : ∀ B ∈ List.range 256, ∀ y ∈ List.range 16,
    (((B &&& 0x0f) ||| (y <<< 4)) % 256) >>> 4 = y ∧ (((B &&& 0x0f) ||| (y <<< 4)) % 256) &&& 0xf = B &&& 0xf ∧
    (((B &&& 0xf0) ||| y) % 256) &&& 0xf = y ∧ (((B &&& 0xf0) ||| y) % 256) >>> 4 = B >>> 4 := by decide

end Pixman.Lemmas.FormatCodec

import Pixman.Lemmas.Trap
/-! Helper lemmas for C12, part 2: counting samples of a pixel, the per-row span operations of
    `rasterize_edges_1/4/8` against the Spec's `rowCount`, and additivity of the Spec counts.
    The property theorems are restated in `Pixman/Props/C12.lean`. -/
namespace Pixman.Lemmas.TrapRow
open Pixman.Trap
open Pixman.Gen.SampleGrid
open Pixman.Spec.SampleGrid
open Pixman.Lemmas.Trap

theorem countP_lt_range (N k : Nat) : (List.range N).countP (fun j => decide (j < k)) = min k N := by
  induction N with
  | zero => simp
  | succ N ih =>
    rw [List.range_succ, List.countP_append, ih]
    simp only [List.countP_cons, List.countP_nil]
    by_cases h : N < k
    · simp [h]; omega
    · simp [h]; omega

theorem countP_congr_range (N : Nat) (p q : Nat → Bool) (h : ∀ j, j < N → p j = q j) :
    (List.range N).countP p = (List.range N).countP q := by
  apply List.countP_congr
  intro j hj
  rw [List.mem_range] at hj
  rw [h j hj]

/-- number of sample columns of pixel `c` whose threshold is left of `x` -/
def leftCount (n : Nat) (x c : Int) : Nat :=
  (List.range (nXFrac n).toNat).countP fun j => decide (colPos n c j - snapDelta n < x)

theorem leftCount_closed8 (x c : Int) :
    leftCount 8 x c = (min 17 (max 0 ((x - c * 65536 + 1928) / 3855))).toNat := by
  unfold leftCount
  simp only [nXFrac, colPos, xFracFirst, stepXSmall, snapDelta]
  have hk : ∀ j : Nat, decide (c * 65536 + 1928 + (j : Int) * 3855 - (if (8:Nat) = 1 then 0 else 2) < x) =
      decide (j < (max 0 ((x - c * 65536 + 1928) / 3855)).toNat) := by
    intro j
    simp only [show ((8:Nat) = 1) = False by decide, if_false]
    apply decide_eq_decide.mpr
    omega
  rw [countP_congr_range _ _ _ (fun j _ => hk j), show (17 : Int).toNat = 17 by rfl, countP_lt_range]
  omega

theorem countP_diff {α} (l : List α) (a b : α → Bool) (h : ∀ j ∈ l, b j = true → a j = true) :
    l.countP (fun j => a j && !b j) + l.countP b = l.countP a := by
  induction l with
  | nil => simp
  | cons x t ih =>
    have ih' := ih (fun j hj => h j (List.mem_cons_of_mem _ hj))
    have hx := h x (List.mem_cons_self ..)
    simp only [List.countP_cons]
    cases ha : a x <;> cases hb : b x <;> simp_all <;> omega

theorem countP_zero_of_imp {α} (l : List α) (a b : α → Bool) (h : ∀ j ∈ l, a j = true → b j = true) :
    l.countP (fun j => a j && !b j) = 0 ∧ l.countP a ≤ l.countP b := by
  constructor
  · rw [List.countP_eq_zero]
    intro j hj
    have := h j hj
    cases ha : a j <;> cases hb : b j <;> simp_all
  · exact List.countP_mono_left h

theorem rowCount_eq_sub (n : Nat) (lx rx c : Int) :
    rowCount n lx rx c = leftCount n rx c - leftCount n lx c := by
  unfold rowCount leftCount
  have hpred : ∀ j : Nat, decide (lx ≤ colPos n c j - snapDelta n ∧ colPos n c j - snapDelta n < rx) =
      (decide (colPos n c j - snapDelta n < rx) && !decide (colPos n c j - snapDelta n < lx)) := by
    intro j
    by_cases h1 : colPos n c j - snapDelta n < rx <;> by_cases h2 : colPos n c j - snapDelta n < lx <;>
      simp [h1, h2] <;> omega
  rw [List.countP_congr (fun j _ => by rw [hpred j])]
  by_cases hle : lx ≤ rx
  · have := countP_diff (List.range (nXFrac n).toNat)
      (fun j => decide (colPos n c j - snapDelta n < rx)) (fun j => decide (colPos n c j - snapDelta n < lx))
      (fun j _ hb => by simp only [decide_eq_true_eq] at hb ⊢; omega)
    omega
  · have := countP_zero_of_imp (List.range (nXFrac n).toNat)
      (fun j => decide (colPos n c j - snapDelta n < rx)) (fun j => decide (colPos n c j - snapDelta n < lx))
      (fun j _ hb => by simp only [decide_eq_true_eq] at hb ⊢; omega)
    omega

theorem addSaturate8_size (row : Array Nat) (s v len : Nat) : (addSaturate8 row s v len).size = row.size := by
  induction len generalizing row s with
  | zero => rfl
  | succ k ih => simp only [addSaturate8]; rw [ih, Array.size_modify]

theorem addSaturate8_getElem (row : Array Nat) (s v len i : Nat) (h' : i < row.size) :
    (addSaturate8 row s v len)[i]'(by rw [addSaturate8_size]; exact h') =
      if s ≤ i ∧ i < s + len then clip255 (row[i] + v) else row[i] := by
  induction len generalizing row s with
  | zero =>
    simp only [addSaturate8]
    rw [if_neg (by omega)]
  | succ k ih =>
    simp only [addSaturate8]
    rw [ih (row.modify s _) (s + 1) (by rw [Array.size_modify]; exact h')]
    rw [Array.getElem_modify]
    by_cases h1 : s = i
    · subst h1
      have h3 : ¬ (s + 1 ≤ s ∧ s < s + 1 + k) := by omega
      have h4 : s ≤ s ∧ s < s + (k + 1) := by omega
      simp [h3, h4]
    · by_cases h2 : s + 1 ≤ i ∧ i < s + 1 + k
      · have : s ≤ i ∧ i < s + (k + 1) := by omega
        simp [h1, h2, this]
      · have : ¬ (s ≤ i ∧ i < s + (k + 1)) := by omega
        simp [h1, h2, this]

theorem clip255_eq (x : Nat) : clip255 x = min 255 x := by unfold clip255; split <;> omega

theorem row8_size (row : Array Nat) (width lx rx : Int) : (row8 row width lx rx).size = row.size := by
  simp only [row8]
  repeat' split
  all_goals simp only [Array.size_modify, addSaturate8_size]

/-- the part of `row8` after the two clamps -/
def row8Core (row : Array Nat) (lx rx : Int) : Array Nat :=
  if rx > lx then
    let lxi := fixedToInt lx
    let rxi := fixedToInt rx
    let lxs := renderSamplesX lx 8
    let rxs := renderSamplesX rx 8
    if lxi == rxi then
      row.modify lxi.toNat fun o => clip255 (o + (rxs - lxs).toNat)
    else
      let row := row.modify lxi.toNat fun o => clip255 (o + (nXFrac 8 - lxs).toNat)
      let row := addSaturate8 row (lxi.toNat + 1) (nXFrac 8).toNat (rxi - (lxi + 1)).toNat
      row.modify rxi.toNat fun o => clip255 (o + rxs.toNat)
  else row

theorem row8_eq_core (row : Array Nat) (width lx rx : Int) :
    row8 row width lx rx = row8Core row (if lx < 0 then 0 else lx)
      (if fixedToInt rx ≥ width then wrap32 (intToFixed width - 1) else rx) := rfl

theorem row8Core_size (row : Array Nat) (lx rx : Int) : (row8Core row lx rx).size = row.size := by
  simp only [row8Core]
  repeat' split
  all_goals simp only [Array.size_modify, addSaturate8_size]

/-- closed form of `leftCount 8` -/
def lc8 (x : Int) (i : Nat) : Nat := (min 17 (max 0 ((x - (i : Int) * 65536 + 1928) / 3855))).toNat

theorem lc8_right (x : Int) (i : Nat) (h : (i : Int) < x / 65536) : lc8 x i = 17 := by
  unfold lc8; omega
theorem lc8_in (x : Int) (i : Nat) (h : x / 65536 = (i : Int)) : lc8 x i = ((x % 65536 + 1928) / 3855).toNat := by
  unfold lc8; omega
theorem lc8_left (x : Int) (i : Nat) (h : x / 65536 < (i : Int)) : lc8 x i = 0 := by
  unfold lc8; omega
theorem samples8_le (x : Int) : 0 ≤ (x % 65536 + 1928) / 3855 ∧ (x % 65536 + 1928) / 3855 ≤ 17 := by omega
theorem samples8_mono (x y : Int) (h : x / 65536 = y / 65536) (hle : x ≤ y) :
    (x % 65536 + 1928) / 3855 ≤ (y % 65536 + 1928) / 3855 := by omega

theorem row8Core_spec (row : Array Nat) (lx rx : Int) (hlx : 0 ≤ lx) (i : Nat) (hi : i < row.size)
    (hv : row[i] ≤ 255) :
    (row8Core row lx rx)[i]'(by rw [row8Core_size]; exact hi) = min 255 (row[i] + (lc8 rx i - lc8 lx i)) := by
  simp only [row8Core, fixedToInt, renderSamplesX, fixedFrac, nXFrac, xFracFirst, stepXSmall, beq_iff_eq]
  have hsl := samples8_le lx
  have hsr := samples8_le rx
  by_cases hgt : rx > lx
  · simp only [hgt, if_true]
    have hab : lx / 65536 ≤ rx / 65536 := Int.ediv_le_ediv (by decide) (by omega)
    have ha0 : 0 ≤ lx / 65536 := Int.ediv_nonneg hlx (by decide)
    by_cases heq : lx / 65536 = rx / 65536
    · simp only [heq, if_true]
      have hm := samples8_mono lx rx heq (by omega)
      rw [Array.getElem_modify, clip255_eq]
      by_cases hpos : (rx / 65536).toNat = i
      · have h1 : rx / 65536 = (i : Int) := by omega
        rw [if_pos hpos, lc8_in rx i h1, lc8_in lx i (by omega)] <;> omega
      · rw [if_neg hpos]
        by_cases hl : (i : Int) < rx / 65536
        · rw [lc8_right rx i hl, lc8_right lx i (by omega)] <;> omega
        · rw [lc8_left rx i (by omega), lc8_left lx i (by omega)] <;> omega
    · simp only [heq, if_false]
      rw [Array.getElem_modify]
      rw [addSaturate8_getElem _ _ _ _ _ (by rw [Array.size_modify]; exact hi), Array.getElem_modify]
      simp only [clip255_eq, show (17 : Int).toNat = 17 by rfl]
      by_cases h1 : (i : Int) < lx / 65536
      · rw [if_neg (by omega), if_neg (by omega), if_neg (by omega), lc8_right rx i (by omega), lc8_right lx i h1] <;> omega
      · by_cases h2 : (i : Int) = lx / 65536
        · rw [if_neg (by omega), if_neg (by omega), if_pos (by omega), lc8_right rx i (by omega), lc8_in lx i (by omega)] <;> omega
        · by_cases h3 : (i : Int) < rx / 65536
          · rw [if_neg (by omega), if_pos (by omega), if_neg (by omega), lc8_right rx i h3, lc8_left lx i (by omega)] <;> omega
          · by_cases h4 : (i : Int) = rx / 65536
            · rw [if_pos (by omega), if_neg (by omega), if_neg (by omega), lc8_in rx i (by omega), lc8_left lx i (by omega)] <;> omega
            · rw [if_neg (by omega), if_neg (by omega), if_neg (by omega), lc8_left rx i (by omega), lc8_left lx i (by omega)] <;> omega
  · simp only [hgt, if_false]
    have hab : rx / 65536 ≤ lx / 65536 := Int.ediv_le_ediv (by decide) (by omega)
    by_cases h1 : (i : Int) < rx / 65536
    · rw [lc8_right rx i h1, lc8_right lx i (by omega)] <;> omega
    · by_cases h2 : (i : Int) = rx / 65536
      · by_cases h3 : (i : Int) = lx / 65536
        · have hm := samples8_mono rx lx (by omega) (by omega)
          rw [lc8_in rx i (by omega), lc8_in lx i (by omega)] <;> omega
        · rw [lc8_in rx i (by omega), lc8_right lx i (by omega)] <;> omega
      · rw [lc8_left rx i (by omega)] <;> omega

theorem leftCount8_eq_lc8 (x : Int) (i : Nat) : leftCount 8 x (i : Int) = lc8 x i := by
  rw [leftCount_closed8]; rfl

/-- R3 for a8 (span-fill bookkeeping aside): one sample row adds to every pixel of the row exactly
    the Spec's count of samples between the two snapped abscissae, saturating at 255 — including
    the `lx < 0` clamp and the right-edge clamp. -/
theorem row8_spec (row : Array Nat) (width : Nat) (lx rx : Int) (hsize : row.size = width)
    (hw : width ≤ 32767) (i : Nat) (hi : i < width) (hv : row[i]'(by rw [hsize]; exact hi) ≤ 255) :
    (row8 row width lx rx)[i]'(by rw [row8_size, hsize]; exact hi) =
      pixelValue 8 (row[i]'(by rw [hsize]; exact hi)) (rowCount 8 lx rx i) := by
  have hi' : i < row.size := by rw [hsize]; exact hi
  have hwf : wrap32 (intToFixed (width : Int) - 1) = (width : Int) * 65536 - 1 := by
    have : intToFixed (width : Int) = (width : Int) * 65536 := wrap32_id _ (by omega) (by omega)
    rw [this]; exact wrap32_id _ (by omega) (by omega)
  have hcore := row8Core_spec row (if lx < 0 then 0 else lx)
    (if fixedToInt rx ≥ (width : Int) then wrap32 (intToFixed (width : Int) - 1) else rx)
    (by split <;> omega) i hi' hv
  have hL : lc8 (if lx < 0 then 0 else lx) i = lc8 lx i := by
    unfold lc8; split <;> omega
  have hR : lc8 (if fixedToInt rx ≥ (width : Int) then wrap32 (intToFixed (width : Int) - 1) else rx) i = lc8 rx i := by
    rw [hwf]
    by_cases h : fixedToInt rx ≥ (width : Int)
    · rw [if_pos h]; simp only [fixedToInt] at h; unfold lc8; omega
    · rw [if_neg h]
  rw [hL, hR] at hcore
  simp only [row8_eq_core]
  rw [hcore, rowCount_eq_sub, leftCount8_eq_lc8, leftCount8_eq_lc8]
  simp only [pixelValue, maxAlpha]
  rfl

/-! ### a1 -/
theorem setBits1_size (row : Array Nat) (s len : Nat) : (setBits1 row s len).size = row.size := by
  induction len generalizing row s with
  | zero => rfl
  | succ k ih => simp only [setBits1]; rw [ih, Array.size_modify]

theorem setBits1_getElem (row : Array Nat) (s len i : Nat) (h' : i < row.size) :
    (setBits1 row s len)[i]'(by rw [setBits1_size]; exact h') =
      if s ≤ i ∧ i < s + len then row[i] ||| 1 else row[i] := by
  induction len generalizing row s with
  | zero =>
    simp only [setBits1]
    rw [if_neg (by omega)]
  | succ k ih =>
    simp only [setBits1]
    rw [ih (row.modify s _) (s + 1) (by rw [Array.size_modify]; exact h')]
    rw [Array.getElem_modify]
    by_cases h1 : s = i
    · subst h1
      have h3 : ¬ (s + 1 ≤ s ∧ s < s + 1 + k) := by omega
      have h4 : s ≤ s ∧ s < s + (k + 1) := by omega
      simp [h3, h4]
    · by_cases h2 : s + 1 ≤ i ∧ i < s + 1 + k
      · have : s ≤ i ∧ i < s + (k + 1) := by omega
        simp [h1, h2, this]
      · have : ¬ (s ≤ i ∧ i < s + (k + 1)) := by omega
        simp [h1, h2, this]

theorem row1_size (row : Array Nat) (width lx rx : Int) : (row1 row width lx rx).size = row.size := by
  simp only [row1]
  repeat' split
  all_goals simp only [setBits1_size]

/-- the a1 count: 1 iff the pixel centre is in `[lx, rx)` -/
theorem rowCount1 (lx rx : Int) (i : Nat) :
    rowCount 1 lx rx i = if lx ≤ (i : Int) * 65536 + 32768 ∧ (i : Int) * 65536 + 32768 < rx then 1 else 0 := by
  unfold rowCount
  simp only [nXFrac, colPos, xFracFirst, stepXSmall, snapDelta, show (1 : Int).toNat = 1 by rfl,
    List.range_succ, List.range_zero, List.nil_append, List.countP_cons, List.countP_nil]
  split <;> simp_all

/-- the part of `row1` after the adjustment and the clamps -/
def row1Core (row : Array Nat) (lx rx : Int) : Array Nat :=
  if rx > lx then setBits1 row (fixedToInt lx).toNat (fixedToInt rx - fixedToInt lx).toNat else row

theorem row1_eq_core (row : Array Nat) (width lx rx : Int) :
    row1 row width lx rx = row1Core row
      (if wrap32 (lx + (xFracFirst 1 - 1)) < 0 then 0 else wrap32 (lx + (xFracFirst 1 - 1)))
      (if fixedToInt (wrap32 (rx + (xFracFirst 1 - 1))) ≥ width then intToFixed width else wrap32 (rx + (xFracFirst 1 - 1))) := rfl

theorem row1Core_size (row : Array Nat) (lx rx : Int) : (row1Core row lx rx).size = row.size := by
  simp only [row1Core]; split <;> simp only [setBits1_size]

theorem row1Core_spec (row : Array Nat) (lx rx : Int) (hlx : 0 ≤ lx) (i : Nat) (hi : i < row.size) :
    (row1Core row lx rx)[i]'(by rw [row1Core_size]; exact hi) =
      if lx / 65536 ≤ (i : Int) ∧ (i : Int) < rx / 65536 then row[i] ||| 1 else row[i] := by
  simp only [row1Core, fixedToInt]
  have ha0 : 0 ≤ lx / 65536 := Int.ediv_nonneg hlx (by decide)
  by_cases hgt : rx > lx
  · simp only [hgt, if_true]
    rw [setBits1_getElem _ _ _ _ hi]
    by_cases h : lx / 65536 ≤ (i : Int) ∧ (i : Int) < rx / 65536
    · rw [if_pos (by omega), if_pos h]
    · rw [if_neg (by omega), if_neg h]
  · simp only [hgt, if_false]
    have : rx / 65536 ≤ lx / 65536 := Int.ediv_le_ediv (by decide) (by omega)
    have hn : ¬ (lx / 65536 ≤ (i : Int) ∧ (i : Int) < rx / 65536) := by omega
    simp only [hn, if_false]

/-- R3 for a1: a pixel of the row is set iff its centre lies in `[lx, rx)` (snapped abscissae),
    under the no-overflow hypothesis on the `+ X_FRAC_FIRST (1) - e` adjustment -/
theorem row1_spec (row : Array Nat) (width : Nat) (lx rx : Int) (hsize : row.size = width)
    (hw : width ≤ 32767) (hlx : -2147483648 ≤ lx ∧ lx ≤ 2147450880) (hrx : -2147483648 ≤ rx ∧ rx ≤ 2147450880)
    (i : Nat) (hi : i < width) (hv : row[i]'(by rw [hsize]; exact hi) ≤ 1) :
    (row1 row width lx rx)[i]'(by rw [row1_size, hsize]; exact hi) =
      pixelValue 1 (row[i]'(by rw [hsize]; exact hi)) (rowCount 1 lx rx i) := by
  have hi' : i < row.size := by rw [hsize]; exact hi
  have h1 : wrap32 (lx + (xFracFirst 1 - 1)) = lx + 32767 := by
    simp only [xFracFirst]; exact wrap32_id _ (by omega) (by omega)
  have h2 : wrap32 (rx + (xFracFirst 1 - 1)) = rx + 32767 := by
    simp only [xFracFirst]; exact wrap32_id _ (by omega) (by omega)
  have h3 : intToFixed (width : Int) = (width : Int) * 65536 := wrap32_id _ (by omega) (by omega)
  have hor : row[i] ||| 1 = 1 := by
    rcases (by omega : row[i] = 0 ∨ row[i] = 1) with h | h <;> rw [h] <;> rfl
  have hcore := row1Core_spec row
    (if wrap32 (lx + (xFracFirst 1 - 1)) < 0 then 0 else wrap32 (lx + (xFracFirst 1 - 1)))
    (if fixedToInt (wrap32 (rx + (xFracFirst 1 - 1))) ≥ (width : Int) then intToFixed (width : Int) else wrap32 (rx + (xFracFirst 1 - 1)))
    (by split <;> omega) i hi'
  simp only [row1_eq_core]
  rw [hcore, rowCount1, h1, h2, h3, hor]
  simp only [pixelValue, maxAlpha, show (1 : Int).toNat = 1 by rfl]
  by_cases hl : lx + 32767 < 0
  · rw [if_pos hl]
    by_cases hr : fixedToInt (rx + 32767) ≥ (width : Int)
    · rw [if_pos hr]; simp only [fixedToInt] at hr
      rw [if_pos (by omega), if_pos (by omega)]; omega
    · rw [if_neg hr]; simp only [fixedToInt] at hr
      by_cases hin : (i : Int) < (rx + 32767) / 65536
      · rw [if_pos (by omega), if_pos (by omega)]; omega
      · rw [if_neg (by omega), if_neg (by omega)]; omega
  · rw [if_neg hl]
    by_cases hr : fixedToInt (rx + 32767) ≥ (width : Int)
    · rw [if_pos hr]; simp only [fixedToInt] at hr
      by_cases hin : (lx + 32767) / 65536 ≤ (i : Int)
      · rw [if_pos (by omega), if_pos (by omega)]; omega
      · rw [if_neg (by omega), if_neg (by omega)]; omega
    · rw [if_neg hr]; simp only [fixedToInt] at hr
      by_cases hin : (lx + 32767) / 65536 ≤ (i : Int) ∧ (i : Int) < (rx + 32767) / 65536
      · rw [if_pos (by omega), if_pos (by omega)]; omega
      · rw [if_neg (by omega), if_neg (by omega)]; omega

/-! ### a4 -/
theorem addAlpha4Val_eq (o a : Nat) (ho : o ≤ 15) (ha : a ≤ 5) : addAlpha4Val o a = min 15 (o + a) := by
  have h : ∀ o : Fin 16, ∀ a : Fin 6, addAlpha4Val o.val a.val = min 15 (o.val + a.val) := by decide
  exact h ⟨o, by omega⟩ ⟨a, by omega⟩

theorem addAlpha4Span_size (row : Array Nat) (s v len : Nat) : (addAlpha4Span row s v len).size = row.size := by
  induction len generalizing row s with
  | zero => rfl
  | succ k ih => simp only [addAlpha4Span, addAlpha4]; rw [ih, Array.size_modify]

theorem addAlpha4Span_getElem (row : Array Nat) (s v len i : Nat) (h' : i < row.size) :
    (addAlpha4Span row s v len)[i]'(by rw [addAlpha4Span_size]; exact h') =
      if s ≤ i ∧ i < s + len then addAlpha4Val row[i] v else row[i] := by
  induction len generalizing row s with
  | zero =>
    simp only [addAlpha4Span]
    rw [if_neg (by omega)]
  | succ k ih =>
    simp only [addAlpha4Span, addAlpha4]
    rw [ih (row.modify s _) (s + 1) (by rw [Array.size_modify]; exact h')]
    rw [Array.getElem_modify]
    by_cases h1 : s = i
    · subst h1
      have h3 : ¬ (s + 1 ≤ s ∧ s < s + 1 + k) := by omega
      have h4 : s ≤ s ∧ s < s + (k + 1) := by omega
      simp [h3, h4]
    · by_cases h2 : s + 1 ≤ i ∧ i < s + 1 + k
      · have : s ≤ i ∧ i < s + (k + 1) := by omega
        simp [h1, h2, this]
      · have : ¬ (s ≤ i ∧ i < s + (k + 1)) := by omega
        simp [h1, h2, this]

theorem leftCount_closed4 (x c : Int) :
    leftCount 4 x c = (min 5 (max 0 ((x - c * 65536 + 6554) / 13107))).toNat := by
  unfold leftCount
  simp only [nXFrac, colPos, xFracFirst, stepXSmall, snapDelta]
  have hk : ∀ j : Nat, decide (c * 65536 + 6554 + (j : Int) * 13107 - (if (4:Nat) = 1 then 0 else 2) < x) =
      decide (j < (max 0 ((x - c * 65536 + 6554) / 13107)).toNat) := by
    intro j
    simp only [show ((4:Nat) = 1) = False by decide, if_false]
    apply decide_eq_decide.mpr
    omega
  rw [countP_congr_range _ _ _ (fun j _ => hk j), show (5 : Int).toNat = 5 by rfl, countP_lt_range]
  omega

def row4Core (row : Array Nat) (lx rx : Int) : Array Nat :=
  if rx > lx then
    let lxi := fixedToInt lx
    let rxi := fixedToInt rx
    let lxs := renderSamplesX lx 4
    let rxs := renderSamplesX rx 4
    if lxi == rxi then
      addAlpha4 row lxi.toNat (rxs - lxs).toNat
    else
      let row := addAlpha4 row lxi.toNat (nXFrac 4 - lxs).toNat
      let row := addAlpha4Span row (lxi.toNat + 1) (nXFrac 4).toNat (rxi - (lxi + 1)).toNat
      addAlpha4 row rxi.toNat rxs.toNat
  else row

theorem row4_eq_core (row : Array Nat) (width lx rx : Int) :
    row4 row width lx rx = row4Core row (if lx < 0 then 0 else lx)
      (if fixedToInt rx ≥ width then wrap32 (intToFixed width - 1) else rx) := rfl

theorem row4Core_size (row : Array Nat) (lx rx : Int) : (row4Core row lx rx).size = row.size := by
  simp only [row4Core, addAlpha4]
  repeat' split
  all_goals simp only [Array.size_modify, addAlpha4Span_size]

theorem row4_size (row : Array Nat) (width lx rx : Int) : (row4 row width lx rx).size = row.size := by
  rw [row4_eq_core, row4Core_size]

def lc4 (x : Int) (i : Nat) : Nat := (min 5 (max 0 ((x - (i : Int) * 65536 + 6554) / 13107))).toNat

theorem lc4_right (x : Int) (i : Nat) (h : (i : Int) < x / 65536) : lc4 x i = 5 := by
  unfold lc4; omega
theorem lc4_in (x : Int) (i : Nat) (h : x / 65536 = (i : Int)) : lc4 x i = ((x % 65536 + 6554) / 13107).toNat := by
  unfold lc4; omega
theorem lc4_left (x : Int) (i : Nat) (h : x / 65536 < (i : Int)) : lc4 x i = 0 := by
  unfold lc4; omega
theorem samples4_le (x : Int) : 0 ≤ (x % 65536 + 6554) / 13107 ∧ (x % 65536 + 6554) / 13107 ≤ 5 := by omega
theorem samples4_mono (x y : Int) (h : x / 65536 = y / 65536) (hle : x ≤ y) :
    (x % 65536 + 6554) / 13107 ≤ (y % 65536 + 6554) / 13107 := by omega

theorem row4Core_spec (row : Array Nat) (lx rx : Int) (hlx : 0 ≤ lx) (i : Nat) (hi : i < row.size)
    (hv : row[i] ≤ 15) :
    (row4Core row lx rx)[i]'(by rw [row4Core_size]; exact hi) = min 15 (row[i] + (lc4 rx i - lc4 lx i)) := by
  simp only [row4Core, addAlpha4, fixedToInt, renderSamplesX, fixedFrac, nXFrac, xFracFirst, stepXSmall, beq_iff_eq]
  have hsl := samples4_le lx
  have hsr := samples4_le rx
  by_cases hgt : rx > lx
  · simp only [hgt, if_true]
    have hab : lx / 65536 ≤ rx / 65536 := Int.ediv_le_ediv (by decide) (by omega)
    have ha0 : 0 ≤ lx / 65536 := Int.ediv_nonneg hlx (by decide)
    by_cases heq : lx / 65536 = rx / 65536
    · simp only [heq, if_true]
      have hm := samples4_mono lx rx heq (by omega)
      rw [Array.getElem_modify]
      by_cases hpos : (rx / 65536).toNat = i
      · have h1 : rx / 65536 = (i : Int) := by omega
        rw [if_pos hpos, addAlpha4Val_eq _ _ hv (by omega), lc4_in rx i h1, lc4_in lx i (by omega)] <;> omega
      · rw [if_neg hpos]
        by_cases hl : (i : Int) < rx / 65536
        · rw [lc4_right rx i hl, lc4_right lx i (by omega)] <;> omega
        · rw [lc4_left rx i (by omega), lc4_left lx i (by omega)] <;> omega
    · simp only [heq, if_false]
      rw [Array.getElem_modify]
      rw [addAlpha4Span_getElem _ _ _ _ _ (by rw [Array.size_modify]; exact hi), Array.getElem_modify]
      simp only [show (5 : Int).toNat = 5 by rfl]
      by_cases h1 : (i : Int) < lx / 65536
      · rw [if_neg (by omega), if_neg (by omega), if_neg (by omega), lc4_right rx i (by omega), lc4_right lx i h1] <;> omega
      · by_cases h2 : (i : Int) = lx / 65536
        · rw [if_neg (by omega), if_neg (by omega), if_pos (by omega), addAlpha4Val_eq _ _ hv (by omega),
            lc4_right rx i (by omega), lc4_in lx i (by omega)] <;> omega
        · by_cases h3 : (i : Int) < rx / 65536
          · rw [if_neg (by omega), if_pos (by omega), if_neg (by omega), addAlpha4Val_eq _ _ hv (by omega),
              lc4_right rx i h3, lc4_left lx i (by omega)] <;> omega
          · by_cases h4 : (i : Int) = rx / 65536
            · rw [if_pos (by omega), if_neg (by omega), if_neg (by omega), addAlpha4Val_eq _ _ hv (by omega),
                lc4_in rx i (by omega), lc4_left lx i (by omega)] <;> omega
            · rw [if_neg (by omega), if_neg (by omega), if_neg (by omega), lc4_left rx i (by omega), lc4_left lx i (by omega)] <;> omega
  · simp only [hgt, if_false]
    have hab : rx / 65536 ≤ lx / 65536 := Int.ediv_le_ediv (by decide) (by omega)
    by_cases h1 : (i : Int) < rx / 65536
    · rw [lc4_right rx i h1, lc4_right lx i (by omega)] <;> omega
    · by_cases h2 : (i : Int) = rx / 65536
      · by_cases h3 : (i : Int) = lx / 65536
        · have hm := samples4_mono rx lx (by omega) (by omega)
          rw [lc4_in rx i (by omega), lc4_in lx i (by omega)] <;> omega
        · rw [lc4_in rx i (by omega), lc4_right lx i (by omega)] <;> omega
      · rw [lc4_left rx i (by omega)] <;> omega

theorem leftCount4_eq_lc4 (x : Int) (i : Nat) : leftCount 4 x (i : Int) = lc4 x i := by
  rw [leftCount_closed4]; rfl

theorem row4_spec (row : Array Nat) (width : Nat) (lx rx : Int) (hsize : row.size = width)
    (hw : width ≤ 32767) (i : Nat) (hi : i < width) (hv : row[i]'(by rw [hsize]; exact hi) ≤ 15) :
    (row4 row width lx rx)[i]'(by rw [row4_size, hsize]; exact hi) =
      pixelValue 4 (row[i]'(by rw [hsize]; exact hi)) (rowCount 4 lx rx i) := by
  have hi' : i < row.size := by rw [hsize]; exact hi
  have hwf : wrap32 (intToFixed (width : Int) - 1) = (width : Int) * 65536 - 1 := by
    have : intToFixed (width : Int) = (width : Int) * 65536 := wrap32_id _ (by omega) (by omega)
    rw [this]; exact wrap32_id _ (by omega) (by omega)
  have hcore := row4Core_spec row (if lx < 0 then 0 else lx)
    (if fixedToInt rx ≥ (width : Int) then wrap32 (intToFixed (width : Int) - 1) else rx)
    (by split <;> omega) i hi' hv
  have hL : lc4 (if lx < 0 then 0 else lx) i = lc4 lx i := by
    unfold lc4; split <;> omega
  have hR : lc4 (if fixedToInt rx ≥ (width : Int) then wrap32 (intToFixed (width : Int) - 1) else rx) i = lc4 rx i := by
    rw [hwf]
    by_cases h : fixedToInt rx ≥ (width : Int)
    · rw [if_pos h]; simp only [fixedToInt] at h; unfold lc4; omega
    · rw [if_neg h]
  rw [hL, hR] at hcore
  simp only [row4_eq_core]
  rw [hcore, rowCount_eq_sub, leftCount4_eq_lc4, leftCount4_eq_lc4]
  simp only [pixelValue, maxAlpha]
  rfl

/-! ### additivity of the Spec counts -/
theorem countP_split {α} (l : List α) (a b c : α → Bool)
    (h : ∀ j ∈ l, c j = (a j || b j)) (hd : ∀ j ∈ l, ¬ (a j = true ∧ b j = true)) :
    l.countP a + l.countP b = l.countP c := by
  induction l with
  | nil => simp
  | cons x t ih =>
    have ih' := ih (fun j hj => h j (List.mem_cons_of_mem _ hj)) (fun j hj => hd j (List.mem_cons_of_mem _ hj))
    have hx := h x (List.mem_cons_self ..)
    have hdx := hd x (List.mem_cons_self ..)
    simp only [List.countP_cons]
    cases ha : a x <;> cases hb : b x <;> simp_all <;> omega

/-- R4, one sample row: the samples between `lx` and `rx` are those between `lx` and `mx` plus those
    between `mx` and `rx` — each sample is in exactly one part -/
theorem rowCount_split (n : Nat) (lx mx rx c : Int) (h1 : lx ≤ mx) (h2 : mx ≤ rx) :
    rowCount n lx mx c + rowCount n mx rx c = rowCount n lx rx c := by
  unfold rowCount
  apply countP_split
  · intro j _
    by_cases ha : lx ≤ colPos n c j - snapDelta n <;> by_cases hb : colPos n c j - snapDelta n < mx <;>
      by_cases hc : colPos n c j - snapDelta n < rx <;> simp [ha, hb, hc] <;> omega
  · intro j _ h
    simp only [decide_eq_true_eq] at h
    omega

/-- saturating accumulation composes: adding `a` then `b` is adding `a + b` -/
theorem pixelValue_add (n : Nat) (o a b : Nat) : pixelValue n (pixelValue n o a) b = pixelValue n o (a + b) := by
  unfold pixelValue; omega

theorem pixelValue_comm (n : Nat) (o a b : Nat) :
    pixelValue n (pixelValue n o a) b = pixelValue n (pixelValue n o b) a := by
  rw [pixelValue_add, pixelValue_add, Nat.add_comm]

theorem sum_map_add (l : List Nat) (f g h : Nat → Nat) (hh : ∀ k ∈ l, f k + g k = h k) :
    (l.map f).sum + (l.map g).sum = (l.map h).sum := by
  induction l with
  | nil => simp
  | cons x t ih =>
    have := ih (fun k hk => hh k (List.mem_cons_of_mem _ hk))
    have hx := hh x (List.mem_cons_self ..)
    simp only [List.map_cons, List.sum_cons]; omega

/-- R4, shared horizontal line: splitting a shape at `y` (`top ≤ y ≤ bottom`) splits every pixel's
    sample count -/
theorem pixelCount_hsplit (n : Nat) (s : Shape) (y : Int) (h1 : s.top ≤ y) (h2 : y ≤ s.bottom) (c r : Int) :
    pixelCount n { s with bottom := y } c r + pixelCount n { s with top := y } c r = pixelCount n s c r := by
  unfold pixelCount
  apply sum_map_add
  intro k _
  simp only
  by_cases ha : s.top ≤ rowPos n r k <;> by_cases hb : rowPos n r k < y <;> by_cases hc : rowPos n r k < s.bottom <;>
    simp [ha, hb, hc] <;> omega

/-- R4, shared edge: two shapes with the same vertical extent that abut along the edge `m`
    (`left ≤ m ≤ right` in snapped abscissae on every sample row) have sample counts that add up to
    the count of the shape between `left` and `right` -/
theorem pixelCount_edgesplit (n : Nat) (s : Shape) (m : EdgeLine)
    (hm : ∀ y, s.top ≤ y → y < s.bottom → s.left.snapX y ≤ m.snapX y ∧ m.snapX y ≤ s.right.snapX y) (c r : Int) :
    pixelCount n { s with right := m } c r + pixelCount n { s with left := m } c r = pixelCount n s c r := by
  unfold pixelCount
  apply sum_map_add
  intro k _
  simp only
  by_cases ha : s.top ≤ rowPos n r k ∧ rowPos n r k < s.bottom
  · simp only [ha, and_self, if_true]
    exact rowCount_split n _ _ _ c (hm _ ha.1 ha.2).1 (hm _ ha.1 ha.2).2
  · simp only [ha, if_false]

end Pixman.Lemmas.TrapRow

import Pixman.Model.CombineQ
import Pixman.Spec.PdfBlend
/-! Helper lemmas for `Pixman.Props.C01Float` (order facts of `Rat` not in core, the clamp/min
forms of `get_factor`). -/
namespace Pixman.Lemmas.CombineQ
open Pixman.Model.CombineQ Pixman.Spec.PdfBlend

theorem div_nonneg {a b : Rat} (ha : 0 ≤ a) (hb : 0 < b) : 0 ≤ a / b := by
  rw [Rat.div_def]
  exact Rat.mul_nonneg ha (Rat.le_of_lt (Rat.inv_pos.mpr hb))

theorem pos_of_ne {a : Rat} (h : 0 ≤ a) (h' : ¬ a = 0) : 0 < a := by grind

theorem div_mul_cancel {a b : Rat} (hb : b ≠ 0) : a / b * b = a := Rat.div_mul_cancel hb

theorem div_le_one {a b : Rat} (hb : 0 < b) (h : a ≤ b) : a / b ≤ 1 := by
  have h1 : a / b * b = a := Rat.div_mul_cancel (by grind)
  apply Rat.le_of_mul_le_mul_right (c := b) _ hb
  grind

theorem le_div {a b c : Rat} (hb : 0 < b) (h : c * b ≤ a) : c ≤ a / b := by
  have h1 : a / b * b = a := Rat.div_mul_cancel (by grind)
  apply Rat.le_of_mul_le_mul_right (c := b) _ hb
  grind

theorem div_le {a b c : Rat} (hb : 0 < b) (h : a ≤ c * b) : a / b ≤ c := by
  have h1 : a / b * b = a := Rat.div_mul_cancel (by grind)
  apply Rat.le_of_mul_le_mul_right (c := b) _ hb
  grind

theorem clamp_eq_min {x : Rat} (h : 0 ≤ x) : clamp x = min 1 x := by
  unfold clamp; grind

theorem clamp_one_sub {x : Rat} (h : 0 ≤ x) : clamp (1 - x) = max (1 - x) 0 := by
  unfold clamp; grind

theorem clamp_unit (x : Rat) : 0 ≤ clamp x ∧ clamp x ≤ 1 := by
  unfold clamp; grind

theorem minOneDiv_eq {x y : Rat} (hx : 0 ≤ x) (hy : 0 ≤ y) :
    (if y = 0 then 1 else clamp (x / y)) = minOneDiv x y := by
  unfold minOneDiv
  split
  · rfl
  · next h => exact clamp_eq_min (div_nonneg hx (pos_of_ne hy h))

theorem maxZero_eq {x y : Rat} (hx : 0 ≤ x) (hy : 0 ≤ y) :
    (if y = 0 then 0 else clamp (1 - x / y)) = maxZeroOneMinusDiv x y := by
  unfold maxZeroOneMinusDiv
  split
  · rfl
  · next h => exact clamp_one_sub (div_nonneg hx (pos_of_ne hy h))

theorem mul_le_mul_right_iff {a b c : Rat} (hc : 0 < c) : a * c ≤ b * c ↔ a ≤ b := by
  constructor
  · intro h; exact Rat.le_of_mul_le_mul_right h hc
  · intro h; exact Rat.mul_le_mul_of_nonneg_right h (Rat.le_of_lt hc)

/-- write a premultiplied operand as colour × alpha -/
theorem exists_color {c a : Rat} (ha : 0 < a) : ∃ k, c = k * a ∧ c / a = k :=
  ⟨c / a, (div_mul_cancel (by grind)).symm, rfl⟩

theorem mul_lt_mul_right_iff {a b c : Rat} (hc : 0 < c) : a * c < b * c ↔ a < b :=
  Rat.mul_lt_mul_right hc

theorem mul_eq_zero_right {k a : Rat} (ha : 0 < a) : k * a = 0 ↔ k = 0 := by
  constructor
  · intro h
    have : k * a / a = k := Rat.mul_div_cancel (by grind)
    rw [h] at this; grind
  · intro h; subst h; grind

theorem div_self' {a : Rat} (h : a ≠ 0) : a / a = 1 := by
  have := Rat.div_mul_cancel (a := a) (b := a) h
  have h2 : a / a * a = 1 * a := by grind
  grind

theorem mul_div_self {a t : Rat} (h : t ≠ 0) : t * a / t = a := by
  have := Rat.mul_div_cancel (a := a) (b := t) h
  grind

theorem zero_mul_div (s t : Rat) : (0 : Rat) * s / t = 0 := by
  rw [Rat.div_def]; grind

theorem sub_self' (a : Rat) : a - a = 0 := by grind

theorem max3_facts (r g b : Rat) :
    (max (max r g) b = r ∨ max (max r g) b = g ∨ max (max r g) b = b) ∧
    r ≤ max (max r g) b ∧ g ≤ max (max r g) b ∧ b ≤ max (max r g) b := by grind

theorem min3_facts (r g b : Rat) :
    (min (min r g) b = r ∨ min (min r g) b = g ∨ min (min r g) b = b) ∧
    min (min r g) b ≤ r ∧ min (min r g) b ≤ g ∧ min (min r g) b ≤ b := by grind

theorem sat_of_bounds (fr fg fb s : Rat) (hr : 0 ≤ fr ∧ fr ≤ s) (hg : 0 ≤ fg ∧ fg ≤ s)
    (hb : 0 ≤ fb ∧ fb ≤ s) (htop : fr = s ∨ fg = s ∨ fb = s) (hbot : fr = 0 ∨ fg = 0 ∨ fb = 0) :
    max (max fr fg) fb - min (min fr fg) fb = s := by grind

theorem min_scale (k a b : Rat) (hk : 0 < k) : minf (a * k) (b * k) = minf a b * k := by
  have := mul_lt_mul_right_iff (a := a) (b := b) hk
  simp only [minf]; grind

theorem max_scale (k a b : Rat) (hk : 0 < k) : maxf (a * k) (b * k) = maxf a b * k := by
  have := mul_lt_mul_right_iff (a := b) (b := a) hk
  simp only [maxf]; grind

theorem scale_add (c : Rgb) (k d : Rat) :
    (⟨c.r * k + d * k, c.g * k + d * k, c.b * k + d * k⟩ : Rgb) = (⟨c.r + d, c.g + d, c.b + d⟩ : Rgb).scale k := by
  simp only [Rgb.scale, Rgb.mk.injEq]; grind

theorem scale_scale (c : Rgb) (j k : Rat) : (c.scale j).scale k = c.scale (j * k) := by
  simp only [Rgb.scale, Rgb.mk.injEq]; grind

theorem scale_one (c : Rgb) : c.scale 1 = c := by
  simp only [Rgb.scale, Rat.mul_one]

end Pixman.Lemmas.CombineQ

import Pixman.Lemmas.Filter
/-! C18: one phase and one table of `create_1d_filter`. -/
namespace Pixman.Lemmas.Filter
open Pixman.Model.Filter Pixman.Spec.Filter

/-- no 32-bit wrap-around happens in `new_total += t` and in `*(p - width) += pixman_fixed_1 - new_total`
    (the normalised values of a phase add up to 65536 ± a few units, so this holds for every real table) -/
def NoWrap (w : Nat) (pre : Nat → Int) : Prop :=
  (∀ j, j ≤ w → InI32 (sumFrom pre 0 j)) ∧ InI32 (65536 - sumFrom pre 0 w) ∧
    InI32 (pre 0 + (65536 - sumFrom pre 0 w))

/-- memory after the two store loops of a phase, and the `new_total` of the second -/
def afterLoops (w : Nat) (raw pre : Nat → Int) (p : Nat) (m : Mem) : Nat × Int × Mem :=
  storeLoop pre w 0 p 0 (storeLoop raw w 0 p 0 m).2.2

theorem phase_eq (w : Nat) (raw pre : Nat → Int) (p : Nat) (m : Mem) :
    phase w raw pre p m =
      (p + w, wr (afterLoops w raw pre p m).2.2 p
        (wrap32 (rd (afterLoops w raw pre p m).2.2 p + wrap32 (65536 - (afterLoops w raw pre p m).2.1)))) := by
  unfold phase afterLoops
  simp only [storeLoop_fst, Nat.add_sub_cancel]

theorem afterLoops_size (w : Nat) (raw pre : Nat → Int) (p : Nat) (m : Mem) :
    (afterLoops w raw pre p m).2.2.size = m.size := by
  unfold afterLoops; rw [storeLoop_size, storeLoop_size]

theorem afterLoops_outside (w : Nat) (raw pre : Nat → Int) (p : Nat) (m : Mem) (j : Nat)
    (h : j < p ∨ p + w ≤ j) : rd (afterLoops w raw pre p m).2.2 j = rd m j := by
  unfold afterLoops; rw [storeLoop_outside _ _ _ _ _ _ _ h, storeLoop_outside _ _ _ _ _ _ _ h]

theorem afterLoops_inside (w : Nat) (raw pre : Nat → Int) (p : Nat) (m : Mem) (i : Nat)
    (hs : p + w ≤ m.size) (hi : i < w) : rd (afterLoops w raw pre p m).2.2 (p + i) = pre i := by
  unfold afterLoops
  have := storeLoop_inside pre w 0 p 0 (storeLoop raw w 0 p 0 m).2.2 i (by rw [storeLoop_size]; exact hs) hi
  rw [this]; simp

theorem afterLoops_total (w : Nat) (raw pre : Nat → Int) (p : Nat) (m : Mem) (h : NoWrap w pre) :
    (afterLoops w raw pre p m).2.1 = sumFrom pre 0 w := by
  unfold afterLoops
  rw [storeLoop_total]
  · omega
  · intro j hj; have := h.1 j hj
    have e : (0 : Int) + sumFrom pre 0 j = sumFrom pre 0 j := by omega
    rw [e]; exact this

theorem phase_fst (w : Nat) (raw pre : Nat → Int) (p : Nat) (m : Mem) : (phase w raw pre p m).1 = p + w := by
  rw [phase_eq]

theorem phase_size (w : Nat) (raw pre : Nat → Int) (p : Nat) (m : Mem) : (phase w raw pre p m).2.size = m.size := by
  rw [phase_eq]; simp only [wr_size, afterLoops_size]

/-- with `w ≥ 1` a phase touches only its own `w` cells -/
theorem phase_outside (w : Nat) (raw pre : Nat → Int) (p : Nat) (m : Mem) (j : Nat) (hw : 1 ≤ w)
    (h : j < p ∨ p + w ≤ j) : rd (phase w raw pre p m).2 j = rd m j := by
  rw [phase_eq]
  show rd (wr _ p _) j = rd m j
  rw [rd_wr_ne _ _ _ _ (by omega), afterLoops_outside _ _ _ _ _ _ h]

/-- the first cell of the phase after the residual correction -/
theorem phase_first (w : Nat) (raw pre : Nat → Int) (p : Nat) (m : Mem) (hw : 1 ≤ w) (hs : p + w ≤ m.size)
    (h : NoWrap w pre) : rd (phase w raw pre p m).2 p = pre 0 + (65536 - sumFrom pre 0 w) := by
  rw [phase_eq]
  show rd (wr _ p _) p = _
  rw [rd_wr_same _ _ _ (by rw [afterLoops_size]; omega), afterLoops_total _ _ _ _ _ h]
  have h0 := afterLoops_inside w raw pre p m 0 hs (by omega)
  simp only [Nat.add_zero] at h0
  rw [h0, wrap32_id _ h.2.1, wrap32_id _ h.2.2]

theorem phase_rest (w : Nat) (raw pre : Nat → Int) (p : Nat) (m : Mem) (i : Nat) (hs : p + w ≤ m.size)
    (hi0 : 0 < i) (hi : i < w) : rd (phase w raw pre p m).2 (p + i) = pre i := by
  rw [phase_eq]
  show rd (wr _ p _) (p + i) = _
  rw [rd_wr_ne _ _ _ _ (by omega), afterLoops_inside _ _ _ _ _ _ hs hi]

theorem sumFrom_succ (vals : Nat → Int) (k n : Nat) : sumFrom vals k (n + 1) = vals k + sumFrom vals (k + 1) n := rfl

/-- the cells of a phase sum to exactly 65536 -/
theorem phase_sum (w : Nat) (raw pre : Nat → Int) (p : Nat) (m : Mem) (hw : 1 ≤ w) (hs : p + w ≤ m.size)
    (h : NoWrap w pre) : sumCells (phase w raw pre p m).2 p w = 65536 := by
  rw [sumCells_eq_F]
  obtain ⟨n, rfl⟩ : ∃ n, w = n + 1 := ⟨w - 1, by omega⟩
  show rd (phase (n + 1) raw pre p m).2 p + sumCellsF (phase (n + 1) raw pre p m).2 (p + 1) n = 65536
  rw [phase_first _ _ _ _ _ hw hs h]
  have : sumCellsF (phase (n + 1) raw pre p m).2 (p + 1) n = sumFrom pre 1 n := by
    apply sumCellsF_vals
    intro i hi
    have := phase_rest (n + 1) raw pre p m (1 + i) hs (by omega) (by omega)
    have e : p + (1 + i) = p + 1 + i := by omega
    rw [e] at this; exact this
  rw [this, sumFrom_succ]
  simp only [Nat.zero_add]
  omega

/-! ## a table: `n` phases -/

theorem create1d_fst (w : Nat) (raw pre : Nat → Nat → Int) (n i p : Nat) (m : Mem) :
    (create1d w raw pre n i p m).1 = p + n * w := by
  induction n generalizing i p m with
  | zero => simp [create1d]
  | succ n ih =>
    simp only [create1d]; rw [ih, phase_fst, Nat.succ_mul]; omega

theorem create1d_size (w : Nat) (raw pre : Nat → Nat → Int) (n i p : Nat) (m : Mem) :
    (create1d w raw pre n i p m).2.size = m.size := by
  induction n generalizing i p m with
  | zero => rfl
  | succ n ih => simp only [create1d]; rw [ih, phase_size]

theorem create1d_outside (w : Nat) (raw pre : Nat → Nat → Int) (n i p : Nat) (m : Mem) (j : Nat) (hw : 1 ≤ w)
    (h : j < p ∨ p + n * w ≤ j) : rd (create1d w raw pre n i p m).2 j = rd m j := by
  induction n generalizing i p m with
  | zero => rfl
  | succ n ih =>
    simp only [create1d]
    rw [Nat.succ_mul] at h
    rw [ih, phase_outside _ _ _ _ _ _ hw (by omega)]
    rw [phase_fst]; omega

theorem create1d_sums (w : Nat) (raw pre : Nat → Nat → Int) (n i p : Nat) (m : Mem) (hw : 1 ≤ w)
    (hs : p + n * w ≤ m.size) (h : ∀ a, a < n → NoWrap w (pre (i + a))) (a : Nat) (ha : a < n) :
    sumCells (create1d w raw pre n i p m).2 (p + a * w) w = 65536 := by
  induction n generalizing i p m a with
  | zero => omega
  | succ n ih =>
    simp only [create1d]
    rw [Nat.succ_mul] at hs
    cases a with
    | zero =>
      simp only [Nat.zero_mul, Nat.add_zero]
      rw [sumCells_congr _ (phase w (raw i) (pre i) p m).2]
      · exact phase_sum _ _ _ _ _ hw (by omega) (by have := h 0 (by omega); simpa using this)
      · intro j h1 h2
        apply create1d_outside _ _ _ _ _ _ _ _ hw
        rw [phase_fst]; omega
    | succ a =>
      have := ih (i + 1) (phase w (raw i) (pre i) p m).1 (phase w (raw i) (pre i) p m).2
        (by rw [phase_fst, phase_size]; omega)
        (by intro b hb; have := h (b + 1) (by omega)
            have e : i + (b + 1) = i + 1 + b := by omega
            rw [e] at this; exact this) a (by omega)
      have e : p + (a + 1) * w = (phase w (raw i) (pre i) p m).1 + a * w := by
        rw [phase_fst, Nat.succ_mul]; omega
      rw [e]; exact this

/-! ## width 0: the residual goes to the cell *after* the (empty) phase -/

theorem phase_width0 (raw pre : Nat → Int) (p : Nat) (m : Mem) :
    phase 0 raw pre p m = (p, wr m p (wrap32 (rd m p + 65536))) := by
  rw [phase_eq]
  simp [afterLoops, storeLoop, wrap32]

theorem create1d_width0_fst (raw pre : Nat → Nat → Int) (n i p : Nat) (m : Mem) :
    (create1d 0 raw pre n i p m).1 = p := by
  rw [create1d_fst]; simp

theorem create1d_width0_outside (raw pre : Nat → Nat → Int) (n i p : Nat) (m : Mem) (j : Nat) (h : j ≠ p) :
    rd (create1d 0 raw pre n i p m).2 j = rd m j := by
  induction n generalizing i m with
  | zero => rfl
  | succ n ih =>
    simp only [create1d, phase_width0]
    rw [ih, rd_wr_ne _ _ _ _ (by omega)]

theorem create1d_width0_cell (raw pre : Nat → Nat → Int) (n i p : Nat) (m : Mem) (hp : p < m.size) (hn : 1 ≤ n) :
    rd (create1d 0 raw pre n i p m).2 p = wrap32 (rd m p + n * 65536) := by
  induction n generalizing i m with
  | zero => omega
  | succ n ih =>
    simp only [create1d, phase_width0]
    cases n with
    | zero =>
      simp only [create1d]
      rw [rd_wr_same _ _ _ hp]; simp
    | succ n =>
      rw [ih _ _ (by rw [wr_size]; exact hp) (by omega), rd_wr_same _ _ _ hp, wrap32_add]
      congr 1
      push_cast; omega

end Pixman.Lemmas.Filter

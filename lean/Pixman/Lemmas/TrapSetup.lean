import Pixman.Model.Trap
import Pixman.Spec.SampleGrid
import Pixman.Lemmas.Trap
import Pixman.Lemmas.TrapShape
import Pixman.Lemmas.TrapTri
/-! Lemmas for C12: from `pixman_edge_init` to the hypotheses of `rasterizeEdges_eq_addShape`.
    The property theorems are restated in `Pixman/Props/C12.lean`. -/
namespace Pixman.Lemmas.TrapSetup
open Pixman.Trap
open Pixman.Gen.SampleGrid
open Pixman.Spec.SampleGrid
open Pixman.Lemmas.Trap
open Pixman.Lemmas.TrapShape

/-- no-overflow conditions of `pixman_edge_init (e, n, t, …)` for the line `e` (those of `edgeInit_inv`) and
    the condition under which `pixman_edge_step` loses nothing: a right-leaning line walked downwards (or a
    left-leaning one walked upwards) starts at the line's top or has integral slope -/
structure InitOK (n : Nat) (t : Int) (e : EdgeLine) : Prop where
  dy : 0 < e.yBot - e.yTop ∧ e.yBot - e.yTop ≤ 2147483647
  dx : -2147483647 ≤ e.xBot - e.xTop ∧ e.xBot - e.xTop ≤ 2147483647
  n0 : -2147483648 ≤ t - e.yTop ∧ t - e.yTop ≤ 2147483647
  small : stepYSmall n * (absI (e.xBot - e.xTop) / (e.yBot - e.yTop)) +
          stepYSmall n * (absI (e.xBot - e.xTop) % (e.yBot - e.yTop)) / (e.yBot - e.yTop) ≤ 2147483647
  big : stepYBig n * (absI (e.xBot - e.xTop) / (e.yBot - e.yTop)) +
        stepYBig n * (absI (e.xBot - e.xTop) % (e.yBot - e.yTop)) / (e.yBot - e.yTop) ≤ 2147483647
  fit : -2147483648 ≤ lineNum e t / (e.yBot - e.yTop) - 2 ∧ lineNum e t / (e.yBot - e.yTop) ≤ 2147483647
  noloss : (0 ≤ e.xBot - e.xTop → 0 ≤ t - e.yTop → (t - e.yTop) * ((e.xBot - e.xTop) % (e.yBot - e.yTop)) = 0) ∧
           (e.xBot - e.xTop < 0 → t - e.yTop < 0 → (t - e.yTop) * ((-(e.xBot - e.xTop)) % (e.yBot - e.yTop)) = 0)

theorem step_nonneg (n : Nat) : 0 ≤ stepYSmall n ∧ 0 ≤ stepYBig n := by
  unfold stepYSmall stepYBig
  split <;> omega

theorem dvd_rem_zero (r q d m : Int) (_hd : 0 < d) (h : q * d + r = m) (h0 : 0 ≤ r) (h1 : r < d) (hm : m % d = 0) : r = 0 := by
  have h2 : r = m - q * d := by omega
  have h3 : d ∣ r := by
    rw [h2]
    exact Int.dvd_sub (Int.dvd_of_emod_eq_zero hm) (Int.dvd_mul_left q d)
  have h4 := Int.emod_eq_zero_of_dvd h3
  rw [Int.emod_eq_of_lt h0 h1] at h4
  exact h4

theorem edgeInit_exact (n : Nat) (t : Int) (e : EdgeLine) (h : InitOK n t e) :
    let ed := edgeInit n t e.xTop e.yTop e.xBot e.yBot
    EdgeInv ed (lineNum e t) ∧ SlopeInv ed (e.xBot - e.xTop) n ∧ ed.dy = e.yBot - e.yTop ∧
    (0 ≤ e.xBot - e.xTop → ed.signdx = 1) ∧ (e.xBot - e.xTop < 0 → ed.signdx = -1) ∧
    (0 ≤ e.xBot - e.xTop → (e.xBot - e.xTop) % (e.yBot - e.yTop) = 0 → 0 ≤ t - e.yTop → Stiff ed) := by
  intro ed
  obtain ⟨hdy, hdx, hn0, hS, hB, hfit, hnl⟩ := h
  have hinv := edgeInit_inv n t e.xTop e.yTop e.xBot e.yBot hdy hdx hn0 (step_nonneg n).1 (step_nonneg n).2 hS hB hfit
  have hpre := edgeInitPre_inv n e.xTop e.yTop e.xBot e.yBot hdy hdx (step_nonneg n).1 (step_nonneg n).2 hS hB
  simp only at hinv hpre
  obtain ⟨lost, hl0, hl1, hI, hSl, hdesc⟩ := hinv
  obtain ⟨pI, pS, pdy, ppos, pneg⟩ := hpre
  have hed : ed = edgeStep (edgeInitPre n e.xTop e.yTop e.xBot e.yBot) (t - e.yTop) := by
    show edgeInit n t e.xTop e.yTop e.xBot e.yBot = _
    rw [edgeInit_eq, wrap32_id _ hn0.1 hn0.2]
  have hf := edgeStep_fields (edgeInitPre n e.xTop e.yTop e.xBot e.yBot) (t - e.yTop)
  have hlost : lost = 0 := by
    rcases hdesc with h0 | ⟨h1, h2, h3⟩ | ⟨h1, h2, h3⟩
    · exact h0
    · have := hnl.1 h1 h2; omega
    · have := hnl.2 h1 h2; omega
  subst hlost
  refine ⟨by simpa [lineNum] using hI, hSl, ?_, ?_, ?_, ?_⟩
  · rw [hed, hf.1, pdy]
  · intro hp; rw [hed, hf.2.1]; exact (ppos hp).1
  · intro hp; rw [hed, hf.2.1]; exact (pneg hp).1
  · intro hp hm ht
    obtain ⟨psgn, pe⟩ := ppos hp
    generalize hpp : edgeInitPre n e.xTop e.yTop e.xBot e.yBot = p at *
    obtain ⟨⟨b1, b2, b3⟩, ⟨s1, s2, s3⟩, ⟨g1, g2, g3⟩⟩ := pS
    rw [psgn, pdy] at b1 s1 g1
    rw [pdy] at b3 s3 g3
    have hmS : (stepYSmall n * (e.xBot - e.xTop)) % (e.yBot - e.yTop) = 0 :=
      Int.emod_eq_zero_of_dvd (Int.dvd_trans (Int.dvd_of_emod_eq_zero hm) (Int.dvd_mul_left _ _))
    have hmB : (stepYBig n * (e.xBot - e.xTop)) % (e.yBot - e.yTop) = 0 :=
      Int.emod_eq_zero_of_dvd (Int.dvd_trans (Int.dvd_of_emod_eq_zero hm) (Int.dvd_mul_left _ _))
    have z1 : p.dx = 0 := dvd_rem_zero _ p.stepx _ _ hdy.1 (by omega) b2 b3 hm
    have z2 : p.dxSmall = 0 := dvd_rem_zero _ p.stepxSmall _ _ hdy.1 (by omega) s2 s3 hmS
    have z3 : p.dxBig = 0 := dvd_rem_zero _ p.stepxBig _ _ hdy.1 (by omega) g2 g3 hmB
    refine ⟨by rw [hed, hf.2.2.2.2.2.2.1]; exact z2, by rw [hed, hf.2.2.2.2.2.2.2]; exact z3, ?_⟩
    rw [hed, hf.1]
    simp only [edgeStep, z1, Int.mul_zero, Int.add_zero, pe, pdy]
    rw [if_pos (by omega), if_neg (by omega)]

/-! ### R1: `pixman_sample_ceil_y` / `pixman_sample_floor_y` -/

/-- a grid row written with explicit pixel row and sub-row -/
theorem isGridRow_mk (n : Nat) (r k : Int) (hk0 : 0 ≤ k) (hk : k < nYFrac n) :
    IsGridRow n (r * 65536 + yFracFirst n + k * stepYSmall n) :=
  ⟨r, k.toNat, by omega, by simp only [rowPos]; rw [Int.toNat_of_nonneg hk0]⟩

theorem sampleCeilY_grid (n : Nat) (hn : Pixman.Lemmas.TrapRows.Depth n) (y : Int) (h : y ≤ 2147418112 + yFracLast n) :
    IsGridRow n (sampleCeilY y n) ∧ y ≤ sampleCeilY y n ∧ ∀ g, IsGridRow n g → y ≤ g → sampleCeilY y n ≤ g := by
  have key : ∃ r k : Int, 0 ≤ k ∧ k < nYFrac n ∧ sampleCeilY y n = r * 65536 + yFracFirst n + k * stepYSmall n ∧
      y ≤ sampleCeilY y n ∧
      (∀ r' k' : Int, 0 ≤ k' → k' < nYFrac n → y ≤ r' * 65536 + yFracFirst n + k' * stepYSmall n →
        sampleCeilY y n ≤ r' * 65536 + yFracFirst n + k' * stepYSmall n) := by
    rcases hn with h | h | h <;> subst h <;>
    simp only [sampleCeilY, fixedFrac, fixedFloor, fixedToInt, yFracFirst, yFracLast, stepYSmall, nYFrac, beq_iff_eq] at *
    all_goals
      generalize hq : (y % 65536 - _ + (_ - 1)) / _ = q
      have hq1 := hq
      have he : (y - y % 65536) / 65536 = y / 65536 := by omega
      rw [he]
      split
      · split
        · omega
        · refine ⟨y / 65536 + 1, 0, by omega, by omega, by omega, by omega, ?_⟩
          intro r' k' h1 h2 h3
          by_cases hr : r' ≤ y / 65536 - 1
          · omega
          · by_cases hr2 : r' ≤ y / 65536
            · omega
            · omega
      · refine ⟨y / 65536, q, by omega, by omega, by omega, by omega, ?_⟩
        intro r' k' h1 h2 h3
        by_cases hr : r' ≤ y / 65536 - 1
        · omega
        · by_cases hr2 : r' ≤ y / 65536
          · omega
          · omega
  obtain ⟨r, k, hk0, hk, heq, hge, hmin⟩ := key
  refine ⟨heq ▸ isGridRow_mk n r k hk0 hk, hge, ?_⟩
  rintro g ⟨r', k', hk', rfl⟩ hyg
  exact hmin r' k' (by omega) hk' hyg

theorem sampleCeilY_saturates (n : Nat) (hn : Pixman.Lemmas.TrapRows.Depth n) (y : Int) (h : 2147418112 + yFracLast n < y)
    (h2 : y ≤ 2147483647) : sampleCeilY y n = 2147483647 := by
  rcases hn with h | h | h <;> subst h <;>
  simp only [sampleCeilY, fixedFrac, fixedFloor, fixedToInt, yFracFirst, yFracLast, stepYSmall, beq_iff_eq] at *
  all_goals
    generalize hq : (y % 65536 - _ + (_ - 1)) / _ = q
    have hq1 := hq
    have he : (y - y % 65536) / 65536 = y / 65536 := by omega
    rw [he]
    split
    · split <;> omega
    · omega

theorem sampleFloorY_grid (n : Nat) (hn : Pixman.Lemmas.TrapRows.Depth n) (y : Int) (h : -2147483648 + yFracFirst n < y) (h2 : y ≤ 2147483647) :
    IsGridRow n (sampleFloorY y n) ∧ sampleFloorY y n < y ∧ ∀ g, IsGridRow n g → g < y → g ≤ sampleFloorY y n := by
  have key : ∃ r k : Int, 0 ≤ k ∧ k < nYFrac n ∧ sampleFloorY y n = r * 65536 + yFracFirst n + k * stepYSmall n ∧
      sampleFloorY y n < y ∧
      (∀ r' k' : Int, 0 ≤ k' → k' < nYFrac n → r' * 65536 + yFracFirst n + k' * stepYSmall n < y →
        r' * 65536 + yFracFirst n + k' * stepYSmall n ≤ sampleFloorY y n) := by
    rcases hn with h | h | h <;> subst h <;>
    simp only [sampleFloorY, wrap32, fixedFrac, fixedFloor, fixedToInt, yFracFirst, yFracLast, stepYSmall, nYFrac, beq_iff_eq] at *
    all_goals
      generalize hq : (y % 65536 - 1 - _) / _ = q
      have hq1 := hq
      have he : (y - y % 65536) / 65536 = y / 65536 := by omega
      rw [he]
      split
      · split
        · omega
        · have hw : (y - y % 65536 - 65536 + 2147483648) % 4294967296 - 2147483648 = y - y % 65536 - 65536 := by omega
          rw [hw]
          first
            | refine ⟨y / 65536 - 1, 0, by omega, by omega, by omega, by omega, ?_⟩
            | refine ⟨y / 65536 - 1, 2, by omega, by omega, by omega, by omega, ?_⟩
            | refine ⟨y / 65536 - 1, 14, by omega, by omega, by omega, by omega, ?_⟩
          all_goals
            intro r' k' h1 h2 h3
            by_cases hr : r' ≤ y / 65536 - 1
            · omega
            · by_cases hr2 : r' ≤ y / 65536
              · omega
              · omega
      · refine ⟨y / 65536, q, by omega, by omega, by omega, by omega, ?_⟩
        intro r' k' h1 h2 h3
        by_cases hr : r' ≤ y / 65536 - 1
        · omega
        · by_cases hr2 : r' ≤ y / 65536
          · omega
          · omega
  obtain ⟨r, k, hk0, hk, heq, hge, hmin⟩ := key
  refine ⟨heq ▸ isGridRow_mk n r k hk0 hk, hge, ?_⟩
  rintro g ⟨r', k', hk', rfl⟩ hyg
  exact hmin r' k' (by omega) hk' hyg

/-- saturation at the bottom of the range: no grid row below `y` is representable; the result is
    `INT32_MIN`, which lies below every grid row -/
theorem sampleFloorY_saturates (n : Nat) (hn : Pixman.Lemmas.TrapRows.Depth n) (y : Int) (h1 : -2147483648 ≤ y)
    (h : y ≤ -2147483648 + yFracFirst n) :
    sampleFloorY y n = -2147483648 ∧ ∀ g, IsGridRow n g → -2147483648 ≤ g → sampleFloorY y n < g := by
  have hv : sampleFloorY y n = -2147483648 := by
    rcases hn with h | h | h <;> subst h <;>
    simp only [sampleFloorY, wrap32, fixedFrac, fixedFloor, fixedToInt, yFracFirst, yFracLast, stepYSmall, beq_iff_eq] at *
    all_goals
      generalize hq : (y % 65536 - 1 - _) / _ = q
      have hq1 := hq
      have he : (y - y % 65536) / 65536 = y / 65536 := by omega
      rw [he]
      split
      · split <;> omega
      · omega
  refine ⟨hv, ?_⟩
  intro g hg hg0
  rw [hv]
  rw [Pixman.Lemmas.TrapRows.isGridRow_iff n hn] at hg
  rcases hn with h | h | h <;> subst h <;> simp only [yFracFirst, yFracLast, stepYSmall] at hg <;> omega

/-- After repair a0ed323 no runaway / out-of-image row is reachable: whenever the row loop is entered
    (`b ≥ t`) for a clamped top `T ≥ 0` and a bottom `B` whose pixel row is inside the image (what
    `pixman_rasterize_trapezoid` / `pixman_add_traps` pass: `B` is either the wrapped bottom with
    `pixman_fixed_to_int (B) < height` or `height·65536 − 1`), both `t` and `b` are grid rows and all
    pixel rows from `t` to `b` are rows of the image; the stepping `y += STEP_Y_SMALL/BIG` visits exactly
    the grid rows, so it reaches `y == b`. -/
theorem sampleRows_in_image (n : Nat) (hn : Pixman.Lemmas.TrapRows.Depth n) (height T B : Int)
    (hT : 0 ≤ T ∧ T ≤ 2147483647) (hB : -2147483648 ≤ B ∧ B ≤ 2147483647) (hBh : B / 65536 < height)
    (hrun : sampleFloorY B n ≥ sampleCeilY T n) :
    IsGridRow n (sampleCeilY T n) ∧ IsGridRow n (sampleFloorY B n) ∧ 0 ≤ sampleCeilY T n / 65536 ∧
    sampleFloorY B n / 65536 < height := by
  have hcge : T ≤ sampleCeilY T n := by
    by_cases h : T ≤ 2147418112 + yFracLast n
    · exact (sampleCeilY_grid n hn T h).2.1
    · rw [sampleCeilY_saturates n hn T (by omega) hT.2]; omega
  by_cases hb : -2147483648 + yFracFirst n < B
  · obtain ⟨hbg, hblt, _⟩ := sampleFloorY_grid n hn B hb hB.2
    by_cases ht : T ≤ 2147418112 + yFracLast n
    · obtain ⟨htg, _, _⟩ := sampleCeilY_grid n hn T ht
      refine ⟨htg, hbg, by omega, ?_⟩
      have : sampleFloorY B n / 65536 ≤ B / 65536 := Int.ediv_le_ediv (by decide) (by omega)
      omega
    · rw [sampleCeilY_saturates n hn T (by omega) hT.2] at hrun; omega
  · have := (sampleFloorY_saturates n hn B hB.1 (by omega)).1
    omega


/-! ### from the set-up of `pixman_rasterize_trapezoid` / `pixman_add_traps` to `Spec.addShape` -/

/-- the first sample row: `pixman_sample_ceil_y` of the top clamped to the image -/
def firstRow (n : Nat) (top : Int) : Int := sampleCeilY (if top < 0 then 0 else top) n

/-- the last sample row: `pixman_sample_floor_y` of the bottom clamped to the image -/
def lastRow (n : Nat) (height : Int) (bottom : Int) : Int :=
  sampleFloorY (if fixedToInt bottom ≥ height then wrap32 (intToFixed height - 1) else bottom) n

/-- per-row conditions on a line between the rows `t` and `b`: its abscissa fits an `int`, and it misses the
    lattice points, or leans left, or has integral slope and is walked downwards from its top -/
structure RowsOK (n : Nat) (t b : Int) (e : EdgeLine) : Prop where
  fit : ∀ g, IsGridRow n g → t ≤ g → g ≤ b → FitAt (e.yBot - e.yTop) (lineNum e g)
  notie : ∀ g, IsGridRow n g → t ≤ g → g ≤ b →
    lineNum e g % (e.yBot - e.yTop) ≠ 0 ∨ e.xBot - e.xTop < 0 ∨
    ((e.xBot - e.xTop) % (e.yBot - e.yTop) = 0 ∧ 0 ≤ t - e.yTop)

theorem grid_frac_lt (n : Nat) (hn : Pixman.Lemmas.TrapRows.Depth n) (g : Int) (hg : IsGridRow n g) : g % 65536 < 65535 := by
  rw [Pixman.Lemmas.TrapRows.isGridRow_iff n hn] at hg
  rcases hn with h | h | h <;> subst h <;> simp only [yFracFirst, yFracLast, stepYSmall] at hg <;> omega

theorem rows_iff_aux (n : Nat) (hn : Pixman.Lemmas.TrapRows.Depth n) (height : Nat) (hh : height ≤ 32767) (top bottom T B : Int)
    (htop : -2147483648 ≤ top ∧ top ≤ 2147483647) (hbot : -2147483648 ≤ bottom ∧ bottom ≤ 2147483647)
    (hT : T = if top < 0 then 0 else top)
    (hB : B = if bottom / 65536 ≥ (height : Int) then (height : Int) * 65536 - 1 else bottom)
    (hbt : sampleFloorY B n ≥ sampleCeilY T n) :
    IsGridRow n (sampleCeilY T n) ∧ IsGridRow n (sampleFloorY B n) ∧ 0 ≤ sampleCeilY T n ∧
    sampleFloorY B n / 65536 < (height : Int) ∧ sampleFloorY B n ≤ 2147483647 ∧
    top ≤ sampleCeilY T n ∧
    ∀ g, IsGridRow n g → 0 ≤ g / 65536 → g / 65536 < (height : Int) →
      ((top ≤ g ∧ g < bottom) ↔ (sampleCeilY T n ≤ g ∧ g ≤ sampleFloorY B n)) := by
  have hT0 : 0 ≤ T ∧ T ≤ 2147483647 := by rw [hT]; split <;> omega
  have hTtop : top ≤ T := by rw [hT]; split <;> omega
  have hB0 : -2147483648 ≤ B ∧ B ≤ 2147483647 := by rw [hB]; split <;> omega
  have hBh : B / 65536 < (height : Int) := by rw [hB]; split <;> omega
  have hBb : B ≤ bottom := by rw [hB]; split <;> omega
  obtain ⟨gt, gb, g0, gh⟩ := sampleRows_in_image n hn height T B hT0 hB0 hBh hbt
  have hBlow : -2147483648 + yFracFirst n < B := by
    apply Int.not_le.mp
    intro hc
    have := (sampleFloorY_saturates n hn B hB0.1 hc).1
    omega
  obtain ⟨_, fb2, fb3⟩ := sampleFloorY_grid n hn B hBlow hB0.2
  have hTup : T ≤ 2147418112 + yFracLast n := by
    apply Int.not_lt.mp
    intro hc
    have h1 := sampleCeilY_saturates n hn T hc hT0.2
    have h2 := grid_frac_lt n hn _ gb
    omega
  obtain ⟨_, ct2, ct3⟩ := sampleCeilY_grid n hn T hTup
  refine ⟨gt, gb, by omega, gh, by omega, by omega, ?_⟩
  intro g hg hg0 hgh
  have hfr := grid_frac_lt n hn g hg
  constructor
  · rintro ⟨h1, h2⟩
    refine ⟨ct3 g hg (by rw [hT]; split <;> omega), fb3 g hg ?_⟩
    rw [hB]; split <;> omega
  · rintro ⟨h1, h2⟩
    exact ⟨by omega, by omega⟩

/-- the sample rows the rasteriser visits are exactly the grid rows of the image inside `[top, bottom)` -/
theorem rows_iff (n : Nat) (hn : Pixman.Lemmas.TrapRows.Depth n) (height : Nat) (hh : height ≤ 32767) (top bottom : Int)
    (htop : -2147483648 ≤ top ∧ top ≤ 2147483647) (hbot : -2147483648 ≤ bottom ∧ bottom ≤ 2147483647)
    (hbt : lastRow n height bottom ≥ firstRow n top) :
    IsGridRow n (firstRow n top) ∧ IsGridRow n (lastRow n height bottom) ∧ 0 ≤ firstRow n top ∧
    lastRow n height bottom / 65536 < (height : Int) ∧ lastRow n height bottom ≤ 2147483647 ∧
    top ≤ firstRow n top ∧
    ∀ g, IsGridRow n g → 0 ≤ g / 65536 → g / 65536 < (height : Int) →
      ((top ≤ g ∧ g < bottom) ↔ (firstRow n top ≤ g ∧ g ≤ lastRow n height bottom)) := by
  have hw1 : intToFixed (height : Int) = (height : Int) * 65536 := wrap32_id _ (by omega) (by omega)
  have hw2 : wrap32 (intToFixed (height : Int) - 1) = (height : Int) * 65536 - 1 := by
    rw [hw1]; exact wrap32_id _ (by omega) (by omega)
  simp only [firstRow, lastRow, hw2, fixedToInt] at hbt ⊢
  exact rows_iff_aux n hn height hh top bottom _ _ htop hbot rfl rfl hbt

/-- the common core of `pixman_rasterize_trapezoid` and `pixman_add_traps`: first/last sample row, two
    `pixman_edge_init`, `pixman_rasterize_edges` = `Spec.addShape` of the shape -/
theorem shape_eq_addShape (n : Nat) (hn : Pixman.Lemmas.TrapRows.Depth n) (img : Img) (hwf : ImgWF n img)
    (hh : img.height ≤ 32767) (s : Shape)
    (htop : -2147483648 ≤ s.top ∧ s.top ≤ 2147483647) (hbot : -2147483648 ≤ s.bottom ∧ s.bottom ≤ 2147483647)
    (hbt : lastRow n img.height s.bottom ≥ firstRow n s.top)
    (hl : InitOK n (firstRow n s.top) s.left) (hr : InitOK n (firstRow n s.top) s.right)
    (hlr : RowsOK n (firstRow n s.top) (lastRow n img.height s.bottom) s.left)
    (hrr : RowsOK n (firstRow n s.top) (lastRow n img.height s.bottom) s.right)
    (hx1 : X1Ok n (firstRow n s.top) (lastRow n img.height s.bottom) s.left.snapX s.right.snapX) :
    rasterizeEdges n img
      (edgeInit n (firstRow n s.top) s.left.xTop s.left.yTop s.left.xBot s.left.yBot)
      (edgeInit n (firstRow n s.top) s.right.xTop s.right.yTop s.right.xBot s.right.yBot)
      (firstRow n s.top) (lastRow n img.height s.bottom) =
    { img with rows := addShape n img.width img.height img.rows s } := by
  obtain ⟨gt, gb, t0, bh, b2, _, hrows⟩ := rows_iff n hn img.height hh s.top s.bottom htop hbot hbt
  obtain ⟨l1, l2, l3, l4, l5, l6⟩ := edgeInit_exact n (firstRow n s.top) s.left hl
  obtain ⟨r1, r2, r3, r4, r5, r6⟩ := edgeInit_exact n (firstRow n s.top) s.right hr
  apply rasterizeEdges_eq_addShape n hn img hwf s _ _ _ _ gt gb hbt t0 bh b2 hrows hl.dy.1 hr.dy.1 l3 r3 l1 l2 r1 r2
  · intro g hg h1 h2
    rw [l3, r3]
    exact ⟨hlr.fit g hg h1 h2, hrr.fit g hg h1 h2⟩
  · intro g hg h1 h2
    constructor
    · rcases hlr.notie g hg h1 h2 with h | h | h
      · exact Or.inl h
      · exact Or.inr (Or.inl ⟨l5 h, h⟩)
      · by_cases hd : s.left.xBot - s.left.xTop < 0
        · exact Or.inr (Or.inl ⟨l5 hd, hd⟩)
        · exact Or.inr (Or.inr ⟨l6 (by omega) h.1 h.2, h.1⟩)
    · rcases hrr.notie g hg h1 h2 with h | h | h
      · exact Or.inl h
      · exact Or.inr (Or.inl ⟨r5 h, h⟩)
      · by_cases hd : s.right.xBot - s.right.xTop < 0
        · exact Or.inr (Or.inl ⟨r5 hd, hd⟩)
        · exact Or.inr (Or.inr ⟨r6 (by omega) h.1 h.2, h.1⟩)
  · exact hx1

/-! ### whole-pixel offsets commute with the sample count -/

/-- the line moved by `(dx, dy)` -/
def moveLine (e : EdgeLine) (dx dy : Int) : EdgeLine := ⟨e.xTop + dx, e.yTop + dy, e.xBot + dx, e.yBot + dy⟩

/-- the shape moved by `(dx, dy)` -/
def moveShape (s : Shape) (dx dy : Int) : Shape := ⟨s.top + dy, s.bottom + dy, moveLine s.left dx dy, moveLine s.right dx dy⟩

theorem snapX_move (e : EdgeLine) (dx dy y : Int) : (moveLine e dx dy).snapX (y + dy) = e.snapX y + dx := by
  have h1 : y + dy - (e.yTop + dy) = y - e.yTop := by omega
  have h2 : e.xBot + dx - (e.xTop + dx) = e.xBot - e.xTop := by omega
  have h3 : e.yBot + dy - (e.yTop + dy) = e.yBot - e.yTop := by omega
  simp only [EdgeLine.snapX, moveLine, h1, h2, h3]
  split <;> omega

theorem rowPos_move (n : Nat) (r oy : Int) (k : Nat) : rowPos n (r + oy) k = rowPos n r k + oy * 65536 := by
  simp only [rowPos, Int.add_mul]; omega

theorem colPos_move (n : Nat) (c ox : Int) (j : Nat) : colPos n (c + ox) j = colPos n c j + ox * 65536 := by
  simp only [colPos, Int.add_mul]; omega

theorem rowCount_move (n : Nat) (lx rx c ox : Int) :
    rowCount n (lx + ox * 65536) (rx + ox * 65536) (c + ox) = rowCount n lx rx c := by
  unfold rowCount
  congr 1
  funext j
  rw [colPos_move]
  apply decide_eq_decide.mpr
  omega

/-- R4, whole-pixel offsets: moving a shape by whole pixels moves its sample counts with it -/
theorem pixelCount_move (n : Nat) (s : Shape) (ox oy c r : Int) :
    pixelCount n (moveShape s (ox * 65536) (oy * 65536)) (c + ox) (r + oy) = pixelCount n s c r := by
  unfold pixelCount
  apply Pixman.Lemmas.TrapShape.sum_map_congr
  intro k _
  simp only [moveShape, rowPos_move, snapX_move, rowCount_move]
  by_cases h : s.top ≤ rowPos n r k ∧ rowPos n r k < s.bottom
  · rw [if_pos h, if_pos (by omega)]
  · rw [if_neg h, if_neg (by omega)]

/-! ### the entry points (offsets 0) -/

def InI32 (v : Int) : Prop := -2147483648 ≤ v ∧ v ≤ 2147483647

theorem wrap32_add_zero (v : Int) (h : InI32 v) : wrap32 (v + 0) = v := by
  rw [Int.add_zero]; exact wrap32_id v h.1 h.2

theorem intToFixed_zero : intToFixed 0 = 0 := by decide

theorem lineFixedEdgeInit_zero (n : Nat) (y : Int) (l : Line) (h1 : InI32 l.p1.x) (h2 : InI32 l.p1.y) (h3 : InI32 l.p2.x)
    (h4 : InI32 l.p2.y) :
    lineFixedEdgeInit n y l.p1.x l.p1.y l.p2.x l.p2.y 0 0 =
      edgeInit n y (Pixman.Lemmas.TrapTri.lineOf l).xTop (Pixman.Lemmas.TrapTri.lineOf l).yTop
        (Pixman.Lemmas.TrapTri.lineOf l).xBot (Pixman.Lemmas.TrapTri.lineOf l).yBot := by
  simp only [lineFixedEdgeInit, intToFixed_zero, wrap32_add_zero _ h1, wrap32_add_zero _ h2, wrap32_add_zero _ h3,
    wrap32_add_zero _ h4, Pixman.Lemmas.TrapTri.lineOf]
  split <;> rfl

/-- `pixman_rasterize_trapezoid (image, trap, 0, 0)` = `Spec.addShape` of the trapezoid's shape, when some
    sample row of the image lies inside the trapezoid -/
theorem rasterizeTrapezoid_eq_addShape (n : Nat) (hn : Pixman.Lemmas.TrapRows.Depth n) (img : Img) (hwf : ImgWF n img)
    (hh : img.height ≤ 32767) (tr : Trapezoid) (hv : tr.valid = true)
    (htop : InI32 tr.top) (hbot : InI32 tr.bottom)
    (hc : InI32 tr.left.p1.x ∧ InI32 tr.left.p1.y ∧ InI32 tr.left.p2.x ∧ InI32 tr.left.p2.y ∧
          InI32 tr.right.p1.x ∧ InI32 tr.right.p1.y ∧ InI32 tr.right.p2.x ∧ InI32 tr.right.p2.y)
    (hbt : lastRow n img.height tr.bottom ≥ firstRow n tr.top)
    (hl : InitOK n (firstRow n tr.top) (Pixman.Lemmas.TrapTri.lineOf tr.left))
    (hr : InitOK n (firstRow n tr.top) (Pixman.Lemmas.TrapTri.lineOf tr.right))
    (hlr : RowsOK n (firstRow n tr.top) (lastRow n img.height tr.bottom) (Pixman.Lemmas.TrapTri.lineOf tr.left))
    (hrr : RowsOK n (firstRow n tr.top) (lastRow n img.height tr.bottom) (Pixman.Lemmas.TrapTri.lineOf tr.right))
    (hx1 : X1Ok n (firstRow n tr.top) (lastRow n img.height tr.bottom)
      (Pixman.Lemmas.TrapTri.lineOf tr.left).snapX (Pixman.Lemmas.TrapTri.lineOf tr.right).snapX) :
    rasterizeTrapezoid n img tr 0 0 =
      { img with rows := addShape n img.width img.height img.rows (Pixman.Lemmas.TrapTri.shapeOf tr) } := by
  obtain ⟨c1, c2, c3, c4, c5, c6, c7, c8⟩ := hc
  have hsetup : trapezoidSetup n img.height tr 0 0 =
      some (firstRow n tr.top, lastRow n img.height tr.bottom,
        edgeInit n (firstRow n tr.top) (Pixman.Lemmas.TrapTri.lineOf tr.left).xTop (Pixman.Lemmas.TrapTri.lineOf tr.left).yTop
          (Pixman.Lemmas.TrapTri.lineOf tr.left).xBot (Pixman.Lemmas.TrapTri.lineOf tr.left).yBot,
        edgeInit n (firstRow n tr.top) (Pixman.Lemmas.TrapTri.lineOf tr.right).xTop (Pixman.Lemmas.TrapTri.lineOf tr.right).yTop
          (Pixman.Lemmas.TrapTri.lineOf tr.right).xBot (Pixman.Lemmas.TrapTri.lineOf tr.right).yBot) := by
    simp only [trapezoidSetup, hv, Bool.not_true, Bool.false_eq_true, if_false, intToFixed_zero,
      wrap32_add_zero _ htop, wrap32_add_zero _ hbot]
    have hbt' := hbt
    simp only [firstRow, lastRow] at hbt'
    rw [if_pos hbt', lineFixedEdgeInit_zero n _ tr.left c1 c2 c3 c4, lineFixedEdgeInit_zero n _ tr.right c5 c6 c7 c8]
    rfl
  simp only [rasterizeTrapezoid, hsetup]
  exact shape_eq_addShape n hn img hwf hh (Pixman.Lemmas.TrapTri.shapeOf tr) htop hbot hbt hl hr hlr hrr hx1

/-- the Spec shape of a `pixman_trap_t` (offsets 0) -/
def trapShape (tr : Trap) : Shape :=
  ⟨tr.topY, tr.botY, ⟨tr.topL, tr.topY, tr.botL, tr.botY⟩, ⟨tr.topR, tr.topY, tr.botR, tr.botY⟩⟩

/-- one `pixman_trap_t` of `pixman_add_traps (image, 0, 0, …)` = `Spec.addShape` of its shape, when some
    sample row of the image lies inside it -/
theorem addTrap_eq_addShape (n : Nat) (hn : Pixman.Lemmas.TrapRows.Depth n) (img : Img) (hwf : ImgWF n img)
    (hh : img.height ≤ 32767) (tr : Trap)
    (hc : InI32 tr.topL ∧ InI32 tr.topR ∧ InI32 tr.topY ∧ InI32 tr.botL ∧ InI32 tr.botR ∧ InI32 tr.botY)
    (hbt : lastRow n img.height tr.botY ≥ firstRow n tr.topY)
    (hl : InitOK n (firstRow n tr.topY) (trapShape tr).left) (hr : InitOK n (firstRow n tr.topY) (trapShape tr).right)
    (hlr : RowsOK n (firstRow n tr.topY) (lastRow n img.height tr.botY) (trapShape tr).left)
    (hrr : RowsOK n (firstRow n tr.topY) (lastRow n img.height tr.botY) (trapShape tr).right)
    (hx1 : X1Ok n (firstRow n tr.topY) (lastRow n img.height tr.botY) (trapShape tr).left.snapX (trapShape tr).right.snapX) :
    addTrap n img 0 0 tr = { img with rows := addShape n img.width img.height img.rows (trapShape tr) } := by
  obtain ⟨c1, c2, c3, c4, c5, c6⟩ := hc
  have hsetup : trapSetup n img.height 0 0 tr =
      some (firstRow n tr.topY, lastRow n img.height tr.botY,
        edgeInit n (firstRow n tr.topY) tr.topL tr.topY tr.botL tr.botY,
        edgeInit n (firstRow n tr.topY) tr.topR tr.topY tr.botR tr.botY) := by
    simp only [trapSetup, wrap32_add_zero _ c1, wrap32_add_zero _ c2, wrap32_add_zero _ c3, wrap32_add_zero _ c4,
      wrap32_add_zero _ c5, wrap32_add_zero _ c6]
    have hbt' := hbt
    simp only [firstRow, lastRow] at hbt'
    rw [if_pos hbt']
    rfl
  simp only [addTrap, hsetup]
  exact shape_eq_addShape n hn img hwf hh (trapShape tr) c3 c6 hbt hl hr hlr hrr hx1

/-! ### offsets: `pixman_rasterize_trapezoid (image, trap, x_off, y_off)` rasterises the moved trapezoid -/

def movePoint (p : Point) (dx dy : Int) : Point := ⟨p.x + dx, p.y + dy⟩
def moveSide (l : Line) (dx dy : Int) : Line := ⟨movePoint l.p1 dx dy, movePoint l.p2 dx dy⟩
/-- the trapezoid moved by `(dx, dy)` -/
def moveTz (tr : Trapezoid) (dx dy : Int) : Trapezoid :=
  ⟨tr.top + dy, tr.bottom + dy, moveSide tr.left dx dy, moveSide tr.right dx dy⟩

theorem valid_move (tr : Trapezoid) (dx dy : Int) : (moveTz tr dx dy).valid = tr.valid := by
  simp only [Trapezoid.valid, moveTz, moveSide, movePoint]
  have h1 : (tr.left.p1.y + dy != tr.left.p2.y + dy) = (tr.left.p1.y != tr.left.p2.y) := by
    rw [Bool.eq_iff_iff]; simp only [bne_iff_ne, ne_eq]; omega
  have h2 : (tr.right.p1.y + dy != tr.right.p2.y + dy) = (tr.right.p1.y != tr.right.p2.y) := by
    rw [Bool.eq_iff_iff]; simp only [bne_iff_ne, ne_eq]; omega
  rw [h1, h2]
  congr 1
  apply decide_eq_decide.mpr
  omega

theorem lineFixedEdgeInit_move (n : Nat) (y : Int) (l : Line) (xOff yOff : Int)
    (hx : InI32 (xOff * 65536)) (hy : InI32 (yOff * 65536))
    (h1 : InI32 (l.p1.x + xOff * 65536)) (h2 : InI32 (l.p1.y + yOff * 65536))
    (h3 : InI32 (l.p2.x + xOff * 65536)) (h4 : InI32 (l.p2.y + yOff * 65536)) :
    lineFixedEdgeInit n y l.p1.x l.p1.y l.p2.x l.p2.y xOff yOff =
      lineFixedEdgeInit n y (l.p1.x + xOff * 65536) (l.p1.y + yOff * 65536) (l.p2.x + xOff * 65536) (l.p2.y + yOff * 65536) 0 0 := by
  have ex : intToFixed xOff = xOff * 65536 := wrap32_id _ hx.1 hx.2
  have ey : intToFixed yOff = yOff * 65536 := wrap32_id _ hy.1 hy.2
  simp only [lineFixedEdgeInit, intToFixed_zero, ex, ey, wrap32_add_zero _ h1, wrap32_add_zero _ h2, wrap32_add_zero _ h3,
    wrap32_add_zero _ h4, wrap32_id _ h1.1 h1.2, wrap32_id _ h2.1 h2.2, wrap32_id _ h3.1 h3.2, wrap32_id _ h4.1 h4.2]
  by_cases h : l.p1.y ≤ l.p2.y
  · rw [if_pos h, if_pos (by omega)]
  · rw [if_neg h, if_neg (by omega)]

/-- with offsets that do not wrap, the trapezoid moved by `(x_off, y_off)` pixels is rasterised -/
theorem rasterizeTrapezoid_offsets (n : Nat) (img : Img) (tr : Trapezoid) (xOff yOff : Int)
    (hx : InI32 (xOff * 65536)) (hy : InI32 (yOff * 65536))
    (htop : InI32 (tr.top + yOff * 65536)) (hbot : InI32 (tr.bottom + yOff * 65536))
    (hc : InI32 (tr.left.p1.x + xOff * 65536) ∧ InI32 (tr.left.p1.y + yOff * 65536) ∧
          InI32 (tr.left.p2.x + xOff * 65536) ∧ InI32 (tr.left.p2.y + yOff * 65536) ∧
          InI32 (tr.right.p1.x + xOff * 65536) ∧ InI32 (tr.right.p1.y + yOff * 65536) ∧
          InI32 (tr.right.p2.x + xOff * 65536) ∧ InI32 (tr.right.p2.y + yOff * 65536)) :
    rasterizeTrapezoid n img tr xOff yOff = rasterizeTrapezoid n img (moveTz tr (xOff * 65536) (yOff * 65536)) 0 0 := by
  obtain ⟨c1, c2, c3, c4, c5, c6, c7, c8⟩ := hc
  have ey : intToFixed yOff = yOff * 65536 := wrap32_id _ hy.1 hy.2
  have hs : trapezoidSetup n img.height tr xOff yOff =
      trapezoidSetup n img.height (moveTz tr (xOff * 65536) (yOff * 65536)) 0 0 := by
    simp only [trapezoidSetup, valid_move, intToFixed_zero, ey]
    simp only [moveTz, moveSide, movePoint, wrap32_add_zero _ htop, wrap32_add_zero _ hbot, wrap32_id _ htop.1 htop.2,
      wrap32_id _ hbot.1 hbot.2,
      lineFixedEdgeInit_move n _ tr.left xOff yOff hx hy c1 c2 c3 c4,
      lineFixedEdgeInit_move n _ tr.right xOff yOff hx hy c5 c6 c7 c8]
  simp only [rasterizeTrapezoid, hs]

/-! ### nothing to draw; lists of shapes -/

/-- a shape without a sample row inside the image adds nothing -/
theorem addShape_of_no_rows (n : Nat) (hn : Pixman.Lemmas.TrapRows.Depth n) (img : Img) (hwf : ImgWF n img) (s : Shape)
    (h : ∀ g, IsGridRow n g → 0 ≤ g / 65536 → g / 65536 < (img.height : Int) → ¬ (s.top ≤ g ∧ g < s.bottom)) :
    addShape n img.width img.height img.rows s = img.rows := by
  rw [addShape_eq_addSpans]
  apply rows_ext _ _ img.height img.width (by simp [addSpans]) hwf.rows_size (fun r hr => by simp [addSpans, hr]) hwf.cols
  intro ρ c hρ hc
  rw [addSpans_px _ _ _ _ _ _ _ _ _ _ hρ hc]
  rw [sum_map_congr _ _ (fun _ => 0), sum_map_zero, pixelValue_zero _ _ (hwf.vals ρ c)]
  intro k hk
  have hk' : (k : Int) < nYFrac n := by have := List.mem_range.mp hk; omega
  have hg : IsGridRow n (rowPos n ρ k) := ⟨ρ, k, hk', rfl⟩
  have hd := rowPos_div n hn ρ k hk'
  rw [if_neg (h _ hg (by omega) (by omega))]

theorem between_rows (n : Nat) (hn : Pixman.Lemmas.TrapRows.Depth n) (T B g : Int) (hg : IsGridRow n g)
    (hT0 : 0 ≤ T) (hTg : T ≤ g) (hgB : g < B) (hB2 : B ≤ 2147483647) (hglt : g < 2147418112) :
    sampleCeilY T n ≤ g ∧ g ≤ sampleFloorY B n := by
  have hc : 0 ≤ yFracLast n ∧ yFracFirst n < 65536 := by
    rcases hn with h | h | h <;> subst h <;> simp only [yFracLast, yFracFirst] <;> omega
  exact ⟨(sampleCeilY_grid n hn T (by omega)).2.2 g hg hTg, (sampleFloorY_grid n hn B (by omega) hB2).2.2 g hg hgB⟩

theorem no_rows_aux (n : Nat) (hn : Pixman.Lemmas.TrapRows.Depth n) (height : Nat) (hh : height ≤ 32767) (top bottom T B : Int)
    (htop : -2147483648 ≤ top ∧ top ≤ 2147483647) (hbot : -2147483648 ≤ bottom ∧ bottom ≤ 2147483647)
    (hT : T = if top < 0 then 0 else top)
    (hB : B = if bottom / 65536 ≥ (height : Int) then (height : Int) * 65536 - 1 else bottom)
    (hbt : sampleFloorY B n < sampleCeilY T n) :
    ∀ g, IsGridRow n g → 0 ≤ g / 65536 → g / 65536 < (height : Int) → ¬ (top ≤ g ∧ g < bottom) := by
  intro g hg hg0 hgh hin
  have hfr := grid_frac_lt n hn g hg
  have := between_rows n hn T B g hg (by rw [hT]; split <;> omega) (by rw [hT]; split <;> omega)
    (by rw [hB]; split <;> omega) (by rw [hB]; split <;> omega) (by omega)
  omega

/-- when the last sample row lies above the first one, no sample row of the image is inside `[top, bottom)` -/
theorem no_rows (n : Nat) (hn : Pixman.Lemmas.TrapRows.Depth n) (height : Nat) (hh : height ≤ 32767) (top bottom : Int)
    (htop : -2147483648 ≤ top ∧ top ≤ 2147483647) (hbot : -2147483648 ≤ bottom ∧ bottom ≤ 2147483647)
    (hbt : lastRow n height bottom < firstRow n top) :
    ∀ g, IsGridRow n g → 0 ≤ g / 65536 → g / 65536 < (height : Int) → ¬ (top ≤ g ∧ g < bottom) := by
  have hw1 : intToFixed (height : Int) = (height : Int) * 65536 := wrap32_id _ (by omega) (by omega)
  have hw2 : wrap32 (intToFixed (height : Int) - 1) = (height : Int) * 65536 - 1 := by
    rw [hw1]; exact wrap32_id _ (by omega) (by omega)
  simp only [firstRow, lastRow, hw2, fixedToInt] at hbt
  exact no_rows_aux n hn height hh top bottom _ _ htop hbot rfl rfl hbt

/-- `pixman_rasterize_trapezoid (image, trap, 0, 0)` when no sample row of the image is inside: nothing is
    drawn, and the Spec adds nothing -/
theorem rasterizeTrapezoid_nothing (n : Nat) (hn : Pixman.Lemmas.TrapRows.Depth n) (img : Img) (hwf : ImgWF n img)
    (hh : img.height ≤ 32767) (tr : Trapezoid) (htop : InI32 tr.top) (hbot : InI32 tr.bottom)
    (hbt : lastRow n img.height tr.bottom < firstRow n tr.top) :
    rasterizeTrapezoid n img tr 0 0 = img ∧
    addShape n img.width img.height img.rows (Pixman.Lemmas.TrapTri.shapeOf tr) = img.rows := by
  constructor
  · have hsetup : trapezoidSetup n img.height tr 0 0 = none := by
      simp only [trapezoidSetup, intToFixed_zero, wrap32_add_zero _ htop, wrap32_add_zero _ hbot]
      split
      · rfl
      · have hbt' := hbt
        simp only [firstRow, lastRow] at hbt'
        rw [if_neg (by omega)]
    simp only [rasterizeTrapezoid, hsetup]
  · exact addShape_of_no_rows n hn img hwf _ (no_rows n hn img.height hh tr.top tr.bottom htop hbot hbt)

theorem imgWF_addShape (n : Nat) (img : Img) (hwf : ImgWF n img) (s : Shape) :
    ImgWF n { img with rows := addShape n img.width img.height img.rows s } := by
  refine ⟨by simp [addShape], fun r hr => by simp only; simp [addShape, hr], hwf.hw, ?_⟩
  intro r c
  simp only
  by_cases hr : r < img.height
  · by_cases hc : c < img.width
    · rw [addShape_eq_addSpans, addSpans_px _ _ _ _ _ _ _ _ _ _ hr hc]; exact pixelValue_le ..
    · simp [px, addShape, hr, hc]
  · simp [px, addShape, hr]

/-- a trapezoid in the region where the rasteriser is exact (offsets 0) -/
def TzExact (n : Nat) (height : Nat) (tr : Trapezoid) : Prop :=
  InI32 tr.top ∧ InI32 tr.bottom ∧
  (InI32 tr.left.p1.x ∧ InI32 tr.left.p1.y ∧ InI32 tr.left.p2.x ∧ InI32 tr.left.p2.y ∧
   InI32 tr.right.p1.x ∧ InI32 tr.right.p1.y ∧ InI32 tr.right.p2.x ∧ InI32 tr.right.p2.y) ∧
  (lastRow n height tr.bottom < firstRow n tr.top ∨
   (lastRow n height tr.bottom ≥ firstRow n tr.top ∧
    InitOK n (firstRow n tr.top) (Pixman.Lemmas.TrapTri.lineOf tr.left) ∧
    InitOK n (firstRow n tr.top) (Pixman.Lemmas.TrapTri.lineOf tr.right) ∧
    RowsOK n (firstRow n tr.top) (lastRow n height tr.bottom) (Pixman.Lemmas.TrapTri.lineOf tr.left) ∧
    RowsOK n (firstRow n tr.top) (lastRow n height tr.bottom) (Pixman.Lemmas.TrapTri.lineOf tr.right) ∧
    X1Ok n (firstRow n tr.top) (lastRow n height tr.bottom)
      (Pixman.Lemmas.TrapTri.lineOf tr.left).snapX (Pixman.Lemmas.TrapTri.lineOf tr.right).snapX))

theorem rasterizeTrapezoid_exact (n : Nat) (hn : Pixman.Lemmas.TrapRows.Depth n) (img : Img) (hwf : ImgWF n img)
    (hh : img.height ≤ 32767) (tr : Trapezoid) (hv : tr.valid = true) (h : TzExact n img.height tr) :
    rasterizeTrapezoid n img tr 0 0 =
      { img with rows := addShape n img.width img.height img.rows (Pixman.Lemmas.TrapTri.shapeOf tr) } := by
  obtain ⟨h1, h2, h3, h4⟩ := h
  rcases h4 with h4 | ⟨hbt, a1, a2, a3, a4, a5⟩
  · obtain ⟨e1, e2⟩ := rasterizeTrapezoid_nothing n hn img hwf hh tr h1 h2 h4
    rw [e1, e2]
  · exact rasterizeTrapezoid_eq_addShape n hn img hwf hh tr hv h1 h2 h3 hbt a1 a2 a3 a4 a5

/-- `pixman_add_trapezoids (image, 0, 0, n, traps)` = adding the Spec counts of the valid trapezoids one after the other -/
theorem addTrapezoids_eq_addShapes (n : Nat) (hn : Pixman.Lemmas.TrapRows.Depth n) (traps : List Trapezoid) :
    ∀ (img : Img), ImgWF n img → img.height ≤ 32767 →
      (∀ tr ∈ traps, tr.valid = true → TzExact n img.height tr) →
      addTrapezoids n img 0 0 traps =
        { img with rows := traps.foldl (fun rows tr =>
            if tr.valid then addShape n img.width img.height rows (Pixman.Lemmas.TrapTri.shapeOf tr) else rows) img.rows } := by
  induction traps with
  | nil => intro img _ _ _; rfl
  | cons tr rest ih =>
    intro img hwf hh hall
    have hw : wrap16 0 = 0 := by decide
    simp only [addTrapezoids, hw, List.foldl_cons] at ih ⊢
    by_cases hv : tr.valid = true
    · have hstep := rasterizeTrapezoid_exact n hn img hwf hh tr hv (hall tr (List.mem_cons_self ..) hv)
      simp only [hv, if_true]
      rw [hstep]
      have := ih { img with rows := addShape n img.width img.height img.rows (Pixman.Lemmas.TrapTri.shapeOf tr) }
        (imgWF_addShape n img hwf _) hh (fun t ht hvt => hall t (List.mem_cons_of_mem _ ht) hvt)
      simp only at this
      exact this
    · have hv' : tr.valid = false := by simpa using hv
      simp only [hv', Bool.false_eq_true, if_false]
      exact ih img hwf hh (fun t ht hvt => hall t (List.mem_cons_of_mem _ ht) hvt)

/-! ### `pixman_add_triangles`: one triangle = its own sample count -/

/-- the image after adding the triangle's own sample counts (`Spec.triCount`) -/
def addTri (n w h : Nat) (img : Array (Array Nat)) (t : Tri) : Array (Array Nat) :=
  (Array.range h).map fun (r : Nat) => (Array.range w).map fun (c : Nat) =>
    pixelValue n ((img[r]?.getD #[])[c]?.getD 0) (triCount n t (c : Int) (r : Int))

theorem px_addShapeIf (n : Nat) (img : Img) (hwf : ImgWF n img) (tz : Trapezoid) (r c : Nat)
    (hr : r < img.height) (hc : c < img.width) :
    px (if tz.valid = true then addShape n img.width img.height img.rows (Pixman.Lemmas.TrapTri.shapeOf tz) else img.rows) r c =
      pixelValue n (px img.rows r c) (Pixman.Lemmas.TrapTri.tzCount n tz c r) := by
  unfold Pixman.Lemmas.TrapTri.tzCount
  by_cases hv : tz.valid = true
  · rw [if_pos hv, if_pos hv, addShape_eq_addSpans, addSpans_px _ _ _ _ _ _ _ _ _ _ hr hc]
    rfl
  · rw [if_neg hv, if_neg hv, pixelValue_zero _ _ (hwf.vals r c)]

theorem addTriangle_eq_triCount (n : Nat) (hn : Pixman.Lemmas.TrapRows.Depth n) (img : Img) (hwf : ImgWF n img)
    (hh : img.height ≤ 32767) (tri : Triangle)
    (hf : Pixman.Lemmas.TrapTri.TriFits tri) (hnd : Pixman.Lemmas.TrapTri.area2 tri ≠ 0)
    (h0 : (triangleToTrapezoids tri).1.valid = true → TzExact n img.height (triangleToTrapezoids tri).1)
    (h1 : (triangleToTrapezoids tri).2.valid = true → TzExact n img.height (triangleToTrapezoids tri).2) :
    addTriangles n img 0 0 [tri] =
      { img with rows := addTri n img.width img.height img.rows (Pixman.Lemmas.TrapTri.triOf tri) } := by
  have hlist : addTriangles n img 0 0 [tri] =
      addTrapezoids n img 0 0 [(triangleToTrapezoids tri).1, (triangleToTrapezoids tri).2] := rfl
  rw [hlist, addTrapezoids_eq_addShapes n hn _ img hwf hh (by
    intro tr htr hv
    simp only [List.mem_cons, List.not_mem_nil, or_false] at htr
    rcases htr with rfl | rfl
    · exact h0 hv
    · exact h1 hv)]
  simp only [List.foldl_cons, List.foldl_nil]
  congr 1
  generalize ht0 : (triangleToTrapezoids tri).1 = t0 at *
  generalize ht1 : (triangleToTrapezoids tri).2 = t1 at *
  -- the image after the first trapezoid
  have hwf1 : ImgWF n { img with rows := (if t0.valid = true then
      addShape n img.width img.height img.rows (Pixman.Lemmas.TrapTri.shapeOf t0) else img.rows) } := by
    by_cases hv : t0.valid = true
    · simp only [hv, if_true]; exact imgWF_addShape n img hwf _
    · simp only [hv]; exact hwf
  apply rows_ext _ _ img.height img.width
  · by_cases hv : t1.valid = true
    · simp [hv, addShape]
    · simp only [hv]; exact hwf1.rows_size
  · simp [addTri]
  · intro r hr
    by_cases hv : t1.valid = true
    · simp [hv, addShape, hr]
    · simp only [hv]; exact hwf1.cols r hr
  · intro r hr; simp [addTri, hr]
  · intro ρ c hρ hc
    have e2 := px_addShapeIf n _ hwf1 t1 ρ c hρ hc
    have e1 := px_addShapeIf n img hwf t0 ρ c hρ hc
    simp only at e2
    rw [e2, e1, Pixman.Lemmas.TrapRow.pixelValue_add]
    have ht := Pixman.Lemmas.TrapTri.triangle_tiles n tri hf hnd (c : Int) (ρ : Int)
    rw [ht0, ht1] at ht
    rw [← ht]
    simp [px, addTri, hρ, hc]

/-! ### `pixman_add_traps`: lists -/

theorem addTrap_nothing (n : Nat) (hn : Pixman.Lemmas.TrapRows.Depth n) (img : Img) (hwf : ImgWF n img)
    (hh : img.height ≤ 32767) (tr : Trap)
    (hc : InI32 tr.topL ∧ InI32 tr.topR ∧ InI32 tr.topY ∧ InI32 tr.botL ∧ InI32 tr.botR ∧ InI32 tr.botY)
    (hbt : lastRow n img.height tr.botY < firstRow n tr.topY) :
    addTrap n img 0 0 tr = img ∧ addShape n img.width img.height img.rows (trapShape tr) = img.rows := by
  obtain ⟨c1, c2, c3, c4, c5, c6⟩ := hc
  constructor
  · have hsetup : trapSetup n img.height 0 0 tr = none := by
      simp only [trapSetup, wrap32_add_zero _ c1, wrap32_add_zero _ c2, wrap32_add_zero _ c3, wrap32_add_zero _ c4,
        wrap32_add_zero _ c5, wrap32_add_zero _ c6]
      have hbt' := hbt
      simp only [firstRow, lastRow] at hbt'
      rw [if_neg (by omega)]
    simp only [addTrap, hsetup]
  · exact addShape_of_no_rows n hn img hwf _ (no_rows n hn img.height hh tr.topY tr.botY c3 c6 hbt)

/-- a `pixman_trap_t` in the region where the rasteriser is exact (offsets 0) -/
def TrapExact (n : Nat) (height : Nat) (tr : Trap) : Prop :=
  (InI32 tr.topL ∧ InI32 tr.topR ∧ InI32 tr.topY ∧ InI32 tr.botL ∧ InI32 tr.botR ∧ InI32 tr.botY) ∧
  (lastRow n height tr.botY < firstRow n tr.topY ∨
   (lastRow n height tr.botY ≥ firstRow n tr.topY ∧
    InitOK n (firstRow n tr.topY) (trapShape tr).left ∧ InitOK n (firstRow n tr.topY) (trapShape tr).right ∧
    RowsOK n (firstRow n tr.topY) (lastRow n height tr.botY) (trapShape tr).left ∧
    RowsOK n (firstRow n tr.topY) (lastRow n height tr.botY) (trapShape tr).right ∧
    X1Ok n (firstRow n tr.topY) (lastRow n height tr.botY) (trapShape tr).left.snapX (trapShape tr).right.snapX))

theorem addTrap_exact (n : Nat) (hn : Pixman.Lemmas.TrapRows.Depth n) (img : Img) (hwf : ImgWF n img)
    (hh : img.height ≤ 32767) (tr : Trap) (h : TrapExact n img.height tr) :
    addTrap n img 0 0 tr = { img with rows := addShape n img.width img.height img.rows (trapShape tr) } := by
  obtain ⟨h1, h2⟩ := h
  rcases h2 with h2 | ⟨hbt, a1, a2, a3, a4, a5⟩
  · obtain ⟨e1, e2⟩ := addTrap_nothing n hn img hwf hh tr h1 h2
    rw [e1, e2]
  · exact addTrap_eq_addShape n hn img hwf hh tr h1 hbt a1 a2 a3 a4 a5

/-- `pixman_add_traps (image, 0, 0, n, traps)` = adding the Spec counts of the traps one after the other -/
theorem addTraps_eq_addShapes (n : Nat) (hn : Pixman.Lemmas.TrapRows.Depth n) (traps : List Trap) :
    ∀ (img : Img), ImgWF n img → img.height ≤ 32767 → (∀ tr ∈ traps, TrapExact n img.height tr) →
      addTraps n img 0 0 traps =
        { img with rows := traps.foldl (fun rows tr => addShape n img.width img.height rows (trapShape tr)) img.rows } := by
  induction traps with
  | nil => intro img _ _ _; rfl
  | cons tr rest ih =>
    intro img hwf hh hall
    have hw : wrap16 0 = 0 := by decide
    simp only [addTraps, hw, intToFixed_zero, List.foldl_cons] at ih ⊢
    rw [addTrap_exact n hn img hwf hh tr (hall tr (List.mem_cons_self ..))]
    have := ih { img with rows := addShape n img.width img.height img.rows (trapShape tr) }
      (imgWF_addShape n img hwf _) hh (fun t ht => hall t (List.mem_cons_of_mem _ ht))
    simp only at this
    exact this

/-- the `pixman_trap_t` moved by `(dx, dy)` -/
def moveTrap (tr : Trap) (dx dy : Int) : Trap :=
  ⟨tr.topL + dx, tr.topR + dx, tr.topY + dy, tr.botL + dx, tr.botR + dx, tr.botY + dy⟩

/-- fixed-point offsets that do not wrap: one iteration of `pixman_add_traps` rasterises the moved trap -/
theorem addTrap_offsets (n : Nat) (img : Img) (tr : Trap) (xo yo : Int)
    (hc : InI32 (tr.topL + xo) ∧ InI32 (tr.topR + xo) ∧ InI32 (tr.topY + yo) ∧ InI32 (tr.botL + xo) ∧
          InI32 (tr.botR + xo) ∧ InI32 (tr.botY + yo)) :
    addTrap n img xo yo tr = addTrap n img 0 0 (moveTrap tr xo yo) := by
  obtain ⟨c1, c2, c3, c4, c5, c6⟩ := hc
  have hs : trapSetup n img.height xo yo tr = trapSetup n img.height 0 0 (moveTrap tr xo yo) := by
    simp only [trapSetup, moveTrap, wrap32_add_zero _ c1, wrap32_add_zero _ c2, wrap32_add_zero _ c3,
      wrap32_add_zero _ c4, wrap32_add_zero _ c5, wrap32_add_zero _ c6, wrap32_id _ c1.1 c1.2, wrap32_id _ c2.1 c2.2,
      wrap32_id _ c3.1 c3.2, wrap32_id _ c4.1 c4.2, wrap32_id _ c5.1 c5.2, wrap32_id _ c6.1 c6.2]
  simp only [addTrap, hs]

end Pixman.Lemmas.TrapSetup

import Pixman.Model.TrapWords
import Pixman.Gen.EdgeWords
import Pixman.Lemmas.FormatMem
import Pixman.Lemmas.TrapRow
import Pixman.Lemmas.TrapFill
import Pixman.Lemmas.TrapBounds
/-! Lemmas for C12, "words": the row bodies of the rasteriser on little-endian byte memory
    (`Model/TrapWords.lean`) compute what the per-pixel array model (`Model/Trap.lean`) computes.
    The property theorems are restated in `Pixman/Props/C12.lean`. -/
set_option linter.unusedSimpArgs false
namespace Pixman.Lemmas.TrapWords
open Pixman.Model.Format
open Pixman.Lemmas.FormatMem
open Pixman.Trap
open Pixman.TrapWords
open Pixman.Gen.SampleGrid
open Pixman.Gen.EdgeClamps
open Pixman.Lemmas.TrapRow
open Pixman.Lemmas.TrapFill
open Pixman.Lemmas.TrapBounds

/-! ### a8: bytes are pixels -/

/-- `m` holds the a8 row `row` at `line`, and differs from `m0` only in the row's bytes -/
structure R8 (m0 : Mem) (line : Nat) (m : Mem) (row : Array Nat) : Prop where
  bytes : m.Bytes
  inside : ∀ c (h : c < row.size), m (line + c) = row[c]
  outside : ∀ a, a < line ∨ line + row.size ≤ a → m a = m0 a

theorem clip255_lt (x : Nat) : clip255 x < 256 := by unfold clip255; split <;> omega

theorem addByte_apply (m : Mem) (a v x : Nat) :
    addByte m a v x = if x = a then clip255 (m a + v) else m x := by
  simp only [addByte, write8, read8]
  split
  · exact Nat.mod_eq_of_lt (clip255_lt _)
  · rfl

theorem addByte_sim (m0 : Mem) (line : Nat) (m : Mem) (row : Array Nat) (h : R8 m0 line m row) (i v : Nat)
    (hi : i < row.size) :
    R8 m0 line (addByte m (line + i) v) (row.modify i fun o => clip255 (o + v)) := by
  refine ⟨?_, ?_, ?_⟩
  · intro a
    rw [addByte_apply]
    split
    · exact clip255_lt _
    · exact h.bytes a
  · intro c hc
    have hc' : c < row.size := by rw [Array.size_modify] at hc; exact hc
    rw [addByte_apply, Array.getElem_modify]
    by_cases e : i = c
    · subst e
      rw [if_pos rfl, if_pos rfl, h.inside i hc']
    · rw [if_neg (by omega), if_neg e, h.inside c hc']
  · intro a ha
    rw [Array.size_modify] at ha
    rw [addByte_apply, if_neg (by omega)]
    exact h.outside a ha

theorem addSat8W_sim (m0 : Mem) (line : Nat) (val : Nat) :
    ∀ (len : Nat) (m : Mem) (row : Array Nat) (start : Nat), R8 m0 line m row → start + len ≤ row.size →
      R8 m0 line (addSat8W m (line + start) val len) (addSaturate8 row start val len) := by
  intro len
  induction len with
  | zero => intro m row start h _; exact h
  | succ k ih =>
    intro m row start h hle
    simp only [addSat8W, addSaturate8]
    have h1 := addByte_sim m0 line m row h start val (by omega)
    have := ih _ _ (start + 1) h1 (by rw [Array.size_modify]; omega)
    rw [← Nat.add_assoc] at this
    exact this

/-- a call `ADD_SATURATE_8 (ap + start, val, len)` with C `int` arguments that stays inside the row -/
theorem addSat8WI_sim (m0 : Mem) (line : Nat) (m : Mem) (row : Array Nat) (h : R8 m0 line m row) (start val len : Int)
    (hin : len ≤ 0 ∨ (0 ≤ start ∧ start + len ≤ (row.size : Int))) :
    R8 m0 line (addSat8WI m line start val len) (addSat8I row start val len) := by
  unfold addSat8WI addSat8I
  rcases hin with hl | ⟨h0, h1⟩
  · have : len.toNat = 0 := by omega
    rw [this]; exact h
  · by_cases hl : len ≤ 0
    · have : len.toNat = 0 := by omega
      rw [this]; exact h
    · exact addSat8W_sim m0 line val.toNat len.toNat m row start.toNat h (by omega)

theorem memsetW_sim (m0 : Mem) (line : Nat) :
    ∀ (len : Nat) (m : Mem) (row : Array Nat) (start : Nat), R8 m0 line m row → start + len ≤ row.size →
      R8 m0 line (memsetW m (line + start) 255 len) (addSaturate8 row start 255 len) := by
  intro len
  induction len with
  | zero => intro m row start h _; exact h
  | succ k ih =>
    intro m row start h hle
    simp only [memsetW, addSaturate8]
    have e : write8 m (line + start) 255 = addByte m (line + start) 255 := by
      funext x
      rw [addByte_apply]
      simp only [write8]
      split
      · have : clip255 (m (line + start) + 255) = 255 := by unfold clip255; split <;> omega
        rw [this]
      · rfl
    rw [e]
    have h1 := addByte_sim m0 line m row h start 255 (by omega)
    have := ih _ _ (start + 1) h1 (by rw [Array.size_modify]; omega)
    rw [← Nat.add_assoc] at this
    exact this

/-- the span-fill decision on memory (mirrors `fillMid`) -/
def fillMidW (m : Mem) (line : Nat) (lxi rxi : Int) (fs : Fill) : Mem × Fill :=
        if rxi - lxi > 4 then
          if fs.start < 0 then
            (m, { start := lxi, stop := rxi, size := fs.size + 1 })
          else if lxi ≥ fs.stop || rxi < fs.start then
            (addSat8WI m line fs.start (fs.size * nXFrac 8) (fs.stop - fs.start),
             { start := lxi, stop := rxi, size := 1 })
          else
            let (m, fstart) :=
              if lxi > fs.start then
                (addSat8WI m line fs.start (fs.size * nXFrac 8) (lxi - fs.start), lxi)
              else if lxi < fs.start then
                (addSat8WI m line lxi (nXFrac 8) (fs.start - lxi), fs.start)
              else (m, fs.start)
            let (m, fstop) :=
              if rxi < fs.stop then
                (addSat8WI m line rxi (fs.size * nXFrac 8) (fs.stop - rxi), rxi)
              else if fs.stop < rxi then
                (addSat8WI m line fs.stop (nXFrac 8) (rxi - fs.stop), fs.stop)
              else (m, fs.stop)
            (m, { start := fstart, stop := fstop, size := fs.size + 1 })
        else
          (addSat8WI m line lxi (nXFrac 8) (rxi - lxi), fs)

theorem row8FillW_eq (m : Mem) (line : Nat) (width lx0 rx0 : Int) (fs : Fill) :
    row8FillW m line width lx0 rx0 fs =
      let lx := clampLx8 lx0
      let rx := clampRx8 rx0 width
      if rx > lx then
        if fixedToInt lx == fixedToInt rx then
          (addByte m (line + (fixedToInt lx).toNat) (renderSamplesX rx 8 - renderSamplesX lx 8).toNat, fs)
        else
          let p := fillMidW (addByte m (line + (fixedToInt lx).toNat) (nXFrac 8 - renderSamplesX lx 8).toNat) line
                    (fixedToInt lx + 1) (fixedToInt rx) fs
          (addByte p.1 (line + (fixedToInt rx).toNat) (renderSamplesX rx 8).toNat, p.2)
      else (m, fs) := rfl

theorem fillMidW_sim (m0 : Mem) (line : Nat) (m : Mem) (row : Array Nat) (h : R8 m0 line m row) (a b : Int) (fs : Fill)
    (hc : ∀ c ∈ fillMidCalls a b fs, CallIn (row.size : Int) c) :
    R8 m0 line (fillMidW m line a b fs).1 (fillMid row a b fs).1 ∧ (fillMidW m line a b fs).2 = (fillMid row a b fs).2 := by
  have call : ∀ (m : Mem) (row : Array Nat), R8 m0 line m row → ∀ s v l : Int, CallIn (row.size : Int) (s, v, l) →
      R8 m0 line (addSat8WI m line s v l) (addSat8I row s v l) := by
    intro m row h s v l hin
    apply addSat8WI_sim m0 line m row h s v l
    unfold CallIn at hin
    simp only at hin
    omega
  have sz : ∀ (row : Array Nat) (s v l : Int), (addSat8I row s v l).size = row.size := fun row s v l => addSat8I_size row s v l
  by_cases h1 : b - a > 4
  · by_cases h2 : fs.start < 0
    · simp only [fillMidW, fillMid, h1, h2, if_true]
      exact ⟨h, trivial⟩
    · by_cases h3 : (a ≥ fs.stop || b < fs.start) = true
      · simp only [fillMidW, fillMid, fillMidCalls, h1, h2, h3, if_true, if_false, List.mem_cons, List.mem_nil_iff,
          or_false, forall_eq] at hc ⊢
        exact ⟨call m row h _ _ _ hc, trivial⟩
      · by_cases h4 : a > fs.start <;> by_cases h5 : a < fs.start <;> by_cases h6 : b < fs.stop <;> by_cases h7 : fs.stop < b <;>
          simp only [fillMidW, fillMid, fillMidCalls, h1, h2, h3, h4, h5, h6, h7, if_true, if_false, Bool.false_eq_true,
            List.cons_append, List.nil_append, List.append_nil, List.mem_cons, List.mem_nil_iff, or_false, forall_eq_or_imp, forall_eq] at hc ⊢
        all_goals first
          | (exfalso; omega)
          | exact ⟨h, trivial⟩
          | exact ⟨call m row h _ _ _ hc, trivial⟩
          | exact ⟨call _ _ (call m row h _ _ _ hc.1) _ _ _ (by rw [sz]; exact hc.2), trivial⟩
  · simp only [fillMidW, fillMid, fillMidCalls, h1, if_false, List.mem_cons, List.mem_nil_iff, or_false, forall_eq] at hc ⊢
    exact ⟨call m row h _ _ _ hc, trivial⟩

/-- one sub-row of `rasterize_edges_8` on memory = on the array (C04's column bounds keep every access inside the row) -/
theorem row8FillW_sim (m0 : Mem) (line : Nat) (m : Mem) (row : Array Nat) (h : R8 m0 line m row) (W : Int)
    (hsz : (row.size : Int) = W) (hW : 0 ≤ W ∧ W ≤ 32767) (lx rx : Int) (fs : Fill) (hin : FillIn W fs) :
    R8 m0 line (row8FillW m line W lx rx fs).1 (row8Fill row W lx rx fs).1 ∧
    (row8FillW m line W lx rx fs).2 = (row8Fill row W lx rx fs).2 := by
  obtain ⟨_, hcols⟩ := row8Fill_cols row W lx rx fs hW hin
  rw [row8FillW_eq, row8Fill_clamps, row8FillCore_eq]
  simp only []
  by_cases hgt : clampRx8 rx W > clampLx8 lx
  · obtain ⟨b1, b2, b3, b4⟩ := hcols hgt
    simp only [hgt, if_true]
    by_cases heq : fixedToInt (clampLx8 lx) = fixedToInt (clampRx8 rx W)
    · have : (fixedToInt (clampLx8 lx) == fixedToInt (clampRx8 rx W)) = true := by simp [heq]
      simp only [this, if_true]
      exact ⟨addByte_sim m0 line m row h _ _ (by omega), trivial⟩
    · have : (fixedToInt (clampLx8 lx) == fixedToInt (clampRx8 rx W)) = false := by simp [heq]
      simp only [this, Bool.false_eq_true, if_false]
      have h1 := addByte_sim m0 line m row h (fixedToInt (clampLx8 lx)).toNat
        (nXFrac 8 - renderSamplesX (clampLx8 lx) 8).toNat (by omega)
      have h2 := fillMidW_sim m0 line _ _ h1 (fixedToInt (clampLx8 lx) + 1) (fixedToInt (clampRx8 rx W)) fs (by
        rw [Array.size_modify, hsz]; exact b4 heq)
      refine ⟨?_, h2.2⟩
      apply addByte_sim m0 line _ _ h2.1
      rw [fillMid_size, Array.size_modify]; omega
  · simp only [hgt, if_false]
    exact ⟨h, trivial⟩

/-- the flush at the end of a pixel row on memory = on the array -/
theorem flushFillW_sim (m0 : Mem) (line : Nat) (m : Mem) (row : Array Nat) (h : R8 m0 line m row) (W : Int)
    (hsz : (row.size : Int) = W) (fs : Fill) (hin : FillIn W fs) :
    R8 m0 line (flushFillW m line fs) (flushFill row fs) := by
  unfold flushFillW flushFill
  unfold FillIn at hin
  split
  · rename_i hne
    have hne' : fs.start ≠ fs.stop := by simpa using hne
    split
    · exact memsetW_sim m0 line _ m row _ h (by omega)
    · exact addSat8WI_sim m0 line m row h _ _ _ (by omega)
  · exact h

/-! ### a4: `ADD_ALPHA` is a C10 nibble store of the saturated sum -/

set_option maxRecDepth 100000 in
theorem sat4_table : ∀ s ∈ List.range 256,
    (s ||| ((4294967296 - (s >>> 4)) % 4294967296)) &&& 0xf = ((s % 16) ||| ((16 - s / 16) % 16)) % 16 := by decide

/-- `(__a | (0 - (__a >> 4))) & 0xf` for the 8-bit `__a` is the model's `addAlpha4Val` arithmetic -/
theorem sat4_bits (s : Nat) (h : s < 256) :
    (s ||| ((4294967296 - (s >>> 4)) % 4294967296)) &&& 0xf = ((s % 16) ||| ((16 - s / 16) % 16)) % 16 :=
  sat4_table s (List.mem_range.mpr h)

set_option maxRecDepth 100000 in
theorem put4_table : ∀ B ∈ List.range 256, ∀ w ∈ List.range 16,
    ((B &&& ((0xf <<< (0 <<< 2)) ^^^ 4294967295)) ||| (w <<< (0 <<< 2))) = ((B &&& 0xf0) ||| w) ∧
    ((B &&& ((0xf <<< (1 <<< 2)) ^^^ 4294967295)) ||| (w <<< (1 <<< 2))) = ((B &&& 0x0f) ||| (w <<< 4)) ∧
    (B >>> (1 <<< 2)) &&& 0xf = B >>> 4 := by decide

theorem put4_even (B : Nat) (hB : B < 256) (w : Nat) (hw : w < 16) :
    ((B &&& ((0xf <<< (0 <<< 2)) ^^^ 4294967295)) ||| (w <<< (0 <<< 2))) = ((B &&& 0xf0) ||| w) :=
  (put4_table B (List.mem_range.mpr hB) w (List.mem_range.mpr hw)).1

theorem put4_odd (B : Nat) (hB : B < 256) (w : Nat) (hw : w < 16) :
    ((B &&& ((0xf <<< (1 <<< 2)) ^^^ 4294967295)) ||| (w <<< (1 <<< 2))) = ((B &&& 0x0f) ||| (w <<< 4)) :=
  (put4_table B (List.mem_range.mpr hB) w (List.mem_range.mpr hw)).2.1

theorem get4_even (B : Nat) : get4 B 0 = B &&& 0xf := by simp [get4]
theorem get4_odd (B : Nat) (hB : B < 256) : get4 B 1 = B >>> 4 :=
  (put4_table B (List.mem_range.mpr hB) 0 (List.mem_range.mpr (by decide))).2.2

/-- `ADD_ALPHA (a)` on the nibble of pixel `x` = `STORE_4` of `addAlpha4Val (FETCH_4) a` (C10's accessors) -/
theorem addAlphaW_eq_store4 (m : Mem) (hb : m.Bytes) (line x a : Nat) :
    addAlphaW m (line + x / 2) (x % 2) a = store4 m line x (addAlpha4Val (fetch4 m line x) a) := by
  have hB := hb (line + x / 2)
  unfold addAlphaW store4 store8 fetch4 fetch8 read8 put4
  simp only [shr3_4]
  have hv : ∀ o, (addAlpha4Val o a) &&& 0x0f = addAlpha4Val o a := by
    intro o
    have : addAlpha4Val o a < 16 := by unfold addAlpha4Val; exact Nat.mod_lt _ (by decide)
    have e := Nat.and_two_pow_sub_one_eq_mod (addAlpha4Val o a) 4
    simp only [Nat.reducePow, Nat.reduceSub] at e
    rw [e]; exact Nat.mod_eq_of_lt this
  rcases Nat.mod_two_eq_zero_or_one x with h0 | h1
  · have hodd : ¬ ((4 * x) &&& 4 ≠ 0) := by rw [and4]; omega
    rw [h0, if_neg hodd, if_neg hodd, get4_even, hv]
    have hs : (a + (m (line + x / 2) &&& 0xf)) % 256 < 256 := Nat.mod_lt _ (by decide)
    rw [sat4_bits _ hs]
    have hw : addAlpha4Val (m (line + x / 2) &&& 0xf) a < 16 := by unfold addAlpha4Val; exact Nat.mod_lt _ (by decide)
    have := put4_even _ hB _ hw
    unfold addAlpha4Val at this ⊢
    simp only [] at this ⊢
    rw [this]
  · have hodd : (4 * x) &&& 4 ≠ 0 := by rw [and4]; omega
    rw [h1, if_pos hodd, if_pos hodd, get4_odd _ hB, hv]
    have hs : (a + (m (line + x / 2) >>> 4)) % 256 < 256 := Nat.mod_lt _ (by decide)
    rw [sat4_bits _ hs]
    have hw : addAlpha4Val (m (line + x / 2) >>> 4) a < 16 := by unfold addAlpha4Val; exact Nat.mod_lt _ (by decide)
    have := put4_odd _ hB _ hw
    unfold addAlpha4Val at this ⊢
    simp only [] at this ⊢
    rw [this]

/-- `m` holds the a4 row `row` at `line` and differs from `m0` only in the row's nibbles -/
structure R4 (m0 : Mem) (line : Nat) (m : Mem) (row : Array Nat) : Prop where
  bytes : m.Bytes
  inside : ∀ c (h : c < row.size), fetch4 m line c = row[c]
  beyond : ∀ c, row.size ≤ c → fetch4 m line c = fetch4 m0 line c
  outside : ∀ a, a < line ∨ line + (row.size + 1) / 2 ≤ a → m a = m0 a

theorem addAlpha4Val_lt (o a : Nat) : addAlpha4Val o a < 16 := by unfold addAlpha4Val; exact Nat.mod_lt _ (by decide)

theorem and15_id (v : Nat) (h : v < 16) : v &&& 0x0f = v := by
  have e := Nat.and_two_pow_sub_one_eq_mod v 4
  simp only [Nat.reducePow, Nat.reduceSub] at e
  rw [e]; exact Nat.mod_eq_of_lt h

theorem addAlphaW_sim (m0 : Mem) (line : Nat) (m : Mem) (row : Array Nat) (h : R4 m0 line m row) (x a : Nat)
    (hx : x < row.size) :
    R4 m0 line (addAlphaW m (line + x / 2) (x % 2) a) (addAlpha4 row x a) := by
  rw [addAlphaW_eq_store4 m h.bytes]
  unfold addAlpha4
  refine ⟨?_, ?_, ?_, ?_⟩
  · unfold store4 store8; exact write8_bytes _ _ _ h.bytes
  · intro c hc
    have hc' : c < row.size := by rw [Array.size_modify] at hc; exact hc
    rw [Array.getElem_modify]
    by_cases e : x = c
    · subst e
      rw [if_pos rfl, fetch4_store4_same m h.bytes, and15_id _ (addAlpha4Val_lt _ _), h.inside x hc']
    · rw [if_neg e, fetch4_store4_other m h.bytes _ _ _ _ (fun e' => e e'.symm), h.inside c hc']
  · intro c hc
    rw [Array.size_modify] at hc
    rw [fetch4_store4_other m h.bytes _ _ _ _ (by omega), h.beyond c hc]
  · intro a ha
    rw [Array.size_modify] at ha
    rw [store4_frame _ _ _ _ _ (by omega)]
    exact h.outside a ha

theorem step_alpha (x : Nat) : x / 2 + x % 2 = (x + 1) / 2 ∧ (x % 2) ^^^ 1 = (x + 1) % 2 := by
  refine ⟨by omega, ?_⟩
  rcases Nat.mod_two_eq_zero_or_one x with h | h
  · rw [h]; have : (x + 1) % 2 = 1 := by omega
    rw [this]; rfl
  · rw [h]; have : (x + 1) % 2 = 0 := by omega
    rw [this]; rfl

/-- the `for (xi = lxi + 1; xi < rxi; xi++) { ADD_ALPHA (N_X_FRAC); STEP_ALPHA; }` loop -/
theorem a4Loop_sim (m0 : Mem) (line val : Nat) :
    ∀ (k : Nat) (m : Mem) (row : Array Nat) (x : Nat), R4 m0 line m row → x + k ≤ row.size →
      R4 m0 line (whileDec (fun (s : Mem × Nat × Nat) => (addAlphaW s.1 s.2.1 s.2.2 val, s.2.1 + s.2.2, s.2.2 ^^^ 1)) k
          (m, line + x / 2, x % 2)).1 (addAlpha4Span row x val k) ∧
      (whileDec (fun (s : Mem × Nat × Nat) => (addAlphaW s.1 s.2.1 s.2.2 val, s.2.1 + s.2.2, s.2.2 ^^^ 1)) k
          (m, line + x / 2, x % 2)).2 = (line + (x + k) / 2, (x + k) % 2) := by
  intro k
  induction k with
  | zero => intro m row x h _; exact ⟨h, rfl⟩
  | succ k ih =>
    intro m row x h hle
    simp only [whileDec, addAlpha4Span]
    have h1 := addAlphaW_sim m0 line m row h x val (by omega)
    obtain ⟨s1, s2⟩ := step_alpha x
    rw [Nat.add_assoc, s1, s2]
    have := ih _ _ (x + 1) h1 (by unfold addAlpha4; rw [Array.size_modify]; omega)
    have e : x + 1 + k = x + (k + 1) := by omega
    rw [e] at this
    exact this

theorem addAlpha4Span_size' (row : Array Nat) (s v len : Nat) : (addAlpha4Span row s v len).size = row.size :=
  addAlpha4Span_size row s v len

/-- the body of the row loop of `rasterize_edges_4` on memory = on the array -/
theorem row4W_sim (m0 : Mem) (line : Nat) (m : Mem) (row : Array Nat) (h : R4 m0 line m row) (W : Int)
    (hsz : (row.size : Int) = W) (hW : 0 ≤ W ∧ W ≤ 32767) (lx rx : Int) :
    R4 m0 line (row4W m line W lx rx) (row4 row W lx rx) := by
  rw [row4_clamps]
  show R4 m0 line (if clampRxN rx W > clampLxN lx then
      a4Span m line (fixedToInt (clampLxN lx)) (fixedToInt (clampRxN rx W)) (renderSamplesX (clampLxN lx) 4)
        (renderSamplesX (clampRxN rx W) 4) else m) _
  unfold row4Core
  by_cases hgt : clampRxN rx W > clampLxN lx
  · obtain ⟨b1, b2, b3⟩ := spanN_bounds lx rx W hW hgt
    simp only [hgt, if_true]
    generalize fixedToInt (clampLxN lx) = lxi at *
    generalize fixedToInt (clampRxN rx W) = rxi at *
    obtain ⟨x, rfl⟩ := Int.eq_ofNat_of_zero_le b1
    have e1 : ((x : Int) / 2).toNat = x / 2 := by omega
    have e2 : ((x : Int) % 2).toNat = x % 2 := by omega
    unfold a4Span
    simp only [e1, e2, Int.toNat_natCast]
    by_cases heq : (x : Int) = rxi
    · have : ((x : Int) == rxi) = true := by simp [heq]
      simp only [this, if_true]
      exact addAlphaW_sim m0 line m row h x _ (by omega)
    · have : ((x : Int) == rxi) = false := by simp [heq]
      simp only [this, Bool.false_eq_true, if_false]
      have h1 := addAlphaW_sim m0 line m row h x (nXFrac 4 - renderSamplesX (clampLxN lx) 4).toNat (by omega)
      obtain ⟨s1, s2⟩ := step_alpha x
      rw [Nat.add_assoc, s1, s2]
      have hk : (rxi - ((x : Int) + 1)).toNat = rxi.toNat - (x + 1) := by omega
      obtain ⟨l1, l2⟩ := a4Loop_sim m0 line (nXFrac 4).toNat (rxi - ((x : Int) + 1)).toNat _ _ (x + 1) h1 (by
        unfold addAlpha4; rw [Array.size_modify]; omega)
      rw [l2]
      have e3 : x + 1 + (rxi - ((x : Int) + 1)).toNat = rxi.toNat := by omega
      rw [e3]
      simp only []
      apply addAlphaW_sim m0 line _ _ l1
      rw [addAlpha4Span_size']; unfold addAlpha4; rw [Array.size_modify]; omega
  · simp only [hgt, if_false]
    exact h

/-! ### a1: word stores -/

theorem fetch1_eq (m : Mem) (line c : Nat) : fetch1 m line c = ((read32 m (line + 4 * (c / 32))).testBit (c % 32)).toNat := by
  unfold fetch1
  rw [shr5, and31, bit_of]

/-- `WRITE (a, READ (a) | M)` at word `k` of the row -/
theorem orWord_fetch1 (m : Mem) (line k M c : Nat) :
    fetch1 (write32 m (line + 4 * k) (read32 m (line + 4 * k) ||| M)) line c =
      if c / 32 = k ∧ M.testBit (c % 32) = true then 1 else fetch1 m line c := by
  rw [fetch1_eq, fetch1_eq]
  have hi : c % 32 < 32 := Nat.mod_lt _ (by decide)
  by_cases hk : c / 32 = k
  · rw [hk, read32_write32]
    have e32 : (4294967296 : Nat) = 2 ^ 32 := by decide
    rw [e32, Nat.testBit_mod_two_pow, Nat.testBit_or]
    have : decide (c % 32 < 32) = true := by simp [hi]
    rw [this, Bool.true_and]
    by_cases hM : M.testBit (c % 32) = true
    · rw [if_pos ⟨rfl, hM⟩, hM, Bool.or_true]; rfl
    · rw [if_neg (fun h => hM h.2)]
      have : M.testBit (c % 32) = false := by simpa using hM
      rw [this, Bool.or_false]
  · rw [if_neg (fun h => hk h.1), read32_other _ _ _ _ (by omega)]

/-- `WRITE (a, 0xffffffff)` at word `k` of the row -/
theorem fullWord_fetch1 (m : Mem) (line k c : Nat) :
    fetch1 (write32 m (line + 4 * k) 4294967295) line c = if c / 32 = k then 1 else fetch1 m line c := by
  rw [fetch1_eq, fetch1_eq]
  have hi : c % 32 < 32 := Nat.mod_lt _ (by decide)
  by_cases hk : c / 32 = k
  · rw [hk, read32_write32, if_pos rfl]
    have e : (4294967295 : Nat) % 4294967296 = 2 ^ 32 - 1 := by decide
    rw [e, Nat.testBit_two_pow_sub_one]
    simp [hi]
  · rw [if_neg hk, read32_other _ _ _ _ (by omega)]

/-- the `while (nmiddle--) WRITE (a++, 0xffffffff)` loop from word `k` -/
theorem middle_spec (line : Nat) : ∀ (n : Nat) (m : Mem) (k : Nat),
    let s := whileDec (fun (s : Mem × Nat) => (write32 s.1 s.2 4294967295, s.2 + 4)) n (m, line + 4 * k)
    s.2 = line + 4 * (k + n) ∧
    (∀ c, fetch1 s.1 line c = if k ≤ c / 32 ∧ c / 32 < k + n then 1 else fetch1 m line c) ∧
    (∀ a, a < line + 4 * k ∨ line + 4 * (k + n) ≤ a → s.1 a = m a) ∧
    (m.Bytes → s.1.Bytes) := by
  intro n
  induction n with
  | zero =>
    intro m k
    refine ⟨rfl, fun c => ?_, fun _ _ => rfl, fun h => h⟩
    rw [if_neg (by omega)]
    rfl
  | succ n ih =>
    intro m k
    simp only [whileDec]
    have e : line + 4 * k + 4 = line + 4 * (k + 1) := by omega
    rw [e]
    obtain ⟨i1, i2, i3, i4⟩ := ih (write32 m (line + 4 * k) 4294967295) (k + 1)
    refine ⟨by rw [i1]; omega, fun c => ?_, fun a ha => ?_, fun hb => i4 (write32_bytes _ _ _ hb)⟩
    · rw [i2 c, fullWord_fetch1]
      by_cases h1 : k + 1 ≤ c / 32 ∧ c / 32 < k + 1 + n
      · rw [if_pos h1, if_pos (by omega)]
      · rw [if_neg h1]
        by_cases h2 : c / 32 = k
        · rw [if_pos h2, if_pos (by omega)]
        · rw [if_neg h2, if_neg (by omega)]
    · rw [i3 a (by omega), write32_other _ _ _ _ (by omega)]

theorem testBit_zero_false (i : Nat) : (0 : Nat).testBit i = false := Nat.zero_testBit i

/-- the three stores after `MASK_BITS`, at the word level -/
theorem a1Store_spec (m : Mem) (line k0 sm em n : Nat) :
    (∀ c, fetch1 (a1Store m (line + 4 * k0) sm (n : Int) em) line c =
      if (c / 32 = k0 ∧ sm.testBit (c % 32) = true) ∨
         ((if sm ≠ 0 then k0 + 1 else k0) ≤ c / 32 ∧ c / 32 < (if sm ≠ 0 then k0 + 1 else k0) + n) ∨
         (c / 32 = (if sm ≠ 0 then k0 + 1 else k0) + n ∧ em.testBit (c % 32) = true) then 1
      else fetch1 m line c) ∧
    (∀ a, a < line + 4 * k0 ∨ line + 4 * ((if sm ≠ 0 then k0 + 1 else k0) + n + (if em ≠ 0 then 1 else 0)) ≤ a →
      a1Store m (line + 4 * k0) sm (n : Int) em a = m a) ∧
    (m.Bytes → (a1Store m (line + 4 * k0) sm (n : Int) em).Bytes) := by
  unfold a1Store
  simp only [Int.toNat_natCast]
  by_cases hs : sm = 0
  · subst hs
    simp only [ne_eq, not_true_eq_false, if_false, testBit_zero_false, Bool.false_eq_true, and_false, false_or]
    obtain ⟨i1, i2, i3, i4⟩ := middle_spec line n m k0
    by_cases he : em = 0
    · subst he
      simp only [ne_eq, not_true_eq_false, if_false, testBit_zero_false, Bool.false_eq_true, and_false, or_false,
        Nat.add_zero]
      exact ⟨i2, i3, i4⟩
    · simp only [ne_eq, he, not_false_eq_true, if_true]
      rw [i1]
      refine ⟨fun c => ?_, fun a ha => ?_, fun hb => write32_bytes _ _ _ (i4 hb)⟩
      · rw [orWord_fetch1, i2 c]
        by_cases h1 : c / 32 = k0 + n ∧ em.testBit (c % 32) = true
        · rw [if_pos h1, if_pos (Or.inr h1)]
        · rw [if_neg h1]
          by_cases h2 : k0 ≤ c / 32 ∧ c / 32 < k0 + n
          · rw [if_pos h2, if_pos (Or.inl h2)]
          · rw [if_neg h2, if_neg (by intro h; rcases h with h | h; exact h2 h; exact h1 h)]
      · rw [write32_other _ _ _ _ (by omega), i3 a (by omega)]
  · simp only [ne_eq, hs, not_false_eq_true, if_true]
    have e : line + 4 * k0 + 4 = line + 4 * (k0 + 1) := by omega
    rw [e]
    obtain ⟨i1, i2, i3, i4⟩ := middle_spec line n (write32 m (line + 4 * k0) (read32 m (line + 4 * k0) ||| sm)) (k0 + 1)
    have hstart : ∀ c, fetch1 (write32 m (line + 4 * k0) (read32 m (line + 4 * k0) ||| sm)) line c =
        if c / 32 = k0 ∧ sm.testBit (c % 32) = true then 1 else fetch1 m line c := fun c => orWord_fetch1 m line k0 sm c
    by_cases he : em = 0
    · subst he
      simp only [ne_eq, not_true_eq_false, if_false, testBit_zero_false, Bool.false_eq_true, and_false, or_false,
        Nat.add_zero]
      refine ⟨fun c => ?_, fun a ha => ?_, fun hb => i4 (write32_bytes _ _ _ hb)⟩
      · rw [i2 c, hstart c]
        by_cases h2 : k0 + 1 ≤ c / 32 ∧ c / 32 < k0 + 1 + n
        · rw [if_pos h2, if_pos (Or.inr h2)]
        · rw [if_neg h2]
          by_cases h1 : c / 32 = k0 ∧ sm.testBit (c % 32) = true
          · rw [if_pos h1, if_pos (Or.inl h1)]
          · rw [if_neg h1, if_neg (by intro h; rcases h with h | h; exact h1 h; exact h2 h)]
      · rw [i3 a (by omega), write32_other _ _ _ _ (by omega)]
    · simp only [ne_eq, he, not_false_eq_true, if_true]
      rw [i1]
      refine ⟨fun c => ?_, fun a ha => ?_, fun hb => write32_bytes _ _ _ (i4 (write32_bytes _ _ _ hb))⟩
      · rw [orWord_fetch1, i2 c, hstart c]
        by_cases h3 : c / 32 = k0 + 1 + n ∧ em.testBit (c % 32) = true
        · rw [if_pos h3, if_pos (Or.inr (Or.inr h3))]
        · rw [if_neg h3]
          by_cases h2 : k0 + 1 ≤ c / 32 ∧ c / 32 < k0 + 1 + n
          · rw [if_pos h2, if_pos (Or.inr (Or.inl h2))]
          · rw [if_neg h2]
            by_cases h1 : c / 32 = k0 ∧ sm.testBit (c % 32) = true
            · rw [if_pos h1, if_pos (Or.inl h1)]
            · rw [if_neg h1, if_neg (by
                intro h; rcases h with h | h | h
                · exact h1 h
                · exact h2 h
                · exact h3 h)]
      · rw [write32_other _ _ _ _ (by omega), i3 a (by omega), write32_other _ _ _ _ (by omega)]

/-! ### a1: the masks -/

theorem ones_testBit (j : Nat) : (4294967295 : Nat).testBit j = decide (j < 32) := by
  rw [ones32, Nat.testBit_two_pow_sub_one]

/-- `LEFT_MASK (x)`, `0 ≤ x < 32`: the bits `x … 31`, nothing for `x = 0` -/
theorem leftMask_bit (x : Nat) (hx : x < 32) (i : Nat) (hi : i < 32) :
    (leftMask (x : Int)).testBit i = decide (x ≠ 0 ∧ x ≤ i) := by
  unfold leftMask screenShiftRight
  have e : (x : Int) % 32 = (x : Int) := by omega
  rw [e]
  by_cases h0 : x = 0
  · subst h0; simp
  · have hx0 : ¬ ((x : Int) = 0) := by omega
    have hne : ((x : Int) ≠ 0) := hx0
    rw [if_pos hne, Int.toNat_natCast]
    have e32 : (4294967296 : Nat) = 2 ^ 32 := by decide
    rw [e32, Nat.testBit_mod_two_pow, Nat.testBit_shiftLeft, ones_testBit]
    by_cases hxi : x ≤ i
    · have : i - x < 32 := by omega
      simp [hi, hxi, this, h0]
    · have : ¬ i ≥ x := by omega
      simp [hi, hxi, this]

/-- `RIGHT_MASK (y)`: the bits `0 … (y mod 32) - 1`, nothing when `y` is a multiple of 32 -/
theorem rightMask_bit (y : Nat) (i : Nat) (_hi : i < 32) :
    (rightMask (y : Int)).testBit i = decide (y % 32 ≠ 0 ∧ i < y % 32) := by
  unfold rightMask screenShiftLeft
  by_cases h0 : y % 32 = 0
  · have : (32 - (y : Int)) % 32 = 0 := by omega
    rw [if_neg (by rw [this]; simp)]
    simp [h0]
  · have hne : (32 - (y : Int)) % 32 ≠ 0 := by omega
    rw [if_pos hne, Nat.testBit_shiftRight, ones_testBit]
    have e : ((32 - (y : Int)) % 32).toNat = 32 - y % 32 := by omega
    rw [e]
    by_cases hlt : i < y % 32
    · have : 32 - y % 32 + i < 32 := by omega
      simp [h0, hlt, this]
    · have : ¬ (32 - y % 32 + i < 32) := by omega
      simp [hlt, this]

theorem ne_zero_of_testBit (M i : Nat) (h : M.testBit i = true) : M ≠ 0 := by
  intro e; subst e; simp at h

theorem leftMask_ne (x : Nat) (hx : x < 32) (h0 : x ≠ 0) : leftMask (x : Int) ≠ 0 :=
  ne_zero_of_testBit _ 31 (by rw [leftMask_bit x hx 31 (by decide)]; simp [h0]; omega)

theorem leftMask_zero : leftMask ((0 : Nat) : Int) = 0 := by simp [leftMask]

theorem rightMask_zero (y : Nat) (h : y % 32 = 0) : rightMask (y : Int) = 0 := by
  unfold rightMask
  have : (32 - (y : Int)) % 32 = 0 := by omega
  rw [if_neg (by rw [this]; simp)]

theorem rightMask_ne (y : Nat) (h : y % 32 ≠ 0) : rightMask (y : Int) ≠ 0 :=
  ne_zero_of_testBit _ 0 (by rw [rightMask_bit y 0 (by decide)]; simp [h]; omega)

/-- the a1 span code sets exactly the pixels `L … R-1` (word level: start mask, whole words, end mask) -/
theorem a1Span_spec (m : Mem) (line L R : Nat) (hLR : L ≤ R) :
    (∀ c, fetch1 (a1Span m line (L : Int) (R : Int)) line c = if L ≤ c ∧ c < R then 1 else fetch1 m line c) ∧
    (∀ a, a < line + 4 * (L / 32) ∨ line + 4 * ((R + 31) / 32) ≤ a → a1Span m line (L : Int) (R : Int) a = m a) ∧
    (m.Bytes → (a1Span m line (L : Int) (R : Int)).Bytes) := by
  unfold a1Span maskBits
  have ea : ((L : Int) / 32).toNat = L / 32 := by omega
  have ex : (L : Int) % 32 = ((L % 32 : Nat) : Int) := by omega
  have ew : (R : Int) - (L : Int) = ((R - L : Nat) : Int) := by omega
  simp only [ea, ex, ew]
  have exw : ((L % 32 : Nat) : Int) + ((R - L : Nat) : Int) = ((L % 32 + (R - L) : Nat) : Int) := by omega
  have exx : ((L % 32 : Nat) : Int) % 32 = ((L % 32 : Nat) : Int) := by omega
  rw [exw, exx]
  have hx : L % 32 < 32 := Nat.mod_lt _ (by decide)
  by_cases h0 : L % 32 = 0
  · -- no start word
    rw [h0, leftMask_zero]
    simp only [ne_eq, not_true_eq_false, if_false, Nat.zero_add]
    have en : ((R - L : Nat) : Int) / 32 = (((R - L) / 32 : Nat) : Int) := by omega
    rw [en]
    obtain ⟨s1, s2, s3⟩ := a1Store_spec m line (L / 32) 0 (rightMask ((R - L : Nat) : Int)) ((R - L) / 32)
    simp only [ne_eq, not_true_eq_false, if_false, testBit_zero_false, Bool.false_eq_true, and_false, false_or] at s1 s2
    refine ⟨fun c => ?_, fun a ha => ?_, s3⟩
    · rw [s1 c]
      have hi : c % 32 < 32 := Nat.mod_lt _ (by decide)
      rw [rightMask_bit _ _ hi]
      simp only [decide_eq_true_eq]
      by_cases h : L ≤ c ∧ c < R
      · rw [if_pos h, if_pos (by omega)]
      · rw [if_neg h, if_neg (by omega)]
    · apply s2 a
      by_cases hr : (R - L) % 32 = 0
      · rw [rightMask_zero _ hr]; simp only [ne_eq, not_true_eq_false, if_false]; omega
      · simp only [ne_eq, rightMask_ne _ hr, not_false_eq_true, if_true]; omega
  · have hl := leftMask_ne (L % 32) hx h0
    simp only [ne_eq, hl, not_false_eq_true, if_true]
    by_cases hn : ((R - L : Nat) : Int) - (32 - ((L % 32 : Nat) : Int)) < 0
    · -- the span ends inside the start word
      simp only [hn, if_true]
      have e0 : (0 : Int) / 32 = ((0 : Nat) : Int) := by decide
      rw [e0]
      obtain ⟨s1, s2, s3⟩ := a1Store_spec m line (L / 32)
        (leftMask ((L % 32 : Nat) : Int) &&& rightMask ((L % 32 + (R - L) : Nat) : Int)) 0 0
      simp only [testBit_zero_false, Bool.false_eq_true, and_false, or_false, Nat.add_zero, ne_eq, not_true_eq_false,
        if_false] at s1 s2
      refine ⟨fun c => ?_, fun a ha => ?_, s3⟩
      · rw [s1 c]
        have hi : c % 32 < 32 := Nat.mod_lt _ (by decide)
        rw [Nat.testBit_and, leftMask_bit _ hx _ hi, rightMask_bit _ _ hi]
        simp only [Bool.and_eq_true, decide_eq_true_eq]
        by_cases h : L ≤ c ∧ c < R
        · rw [if_pos h, if_pos (by omega)]
        · rw [if_neg h, if_neg (by omega)]
      · apply s2 a
        split <;> omega
    · simp only [hn, if_false]
      have en : (((R - L : Nat) : Int) - (32 - ((L % 32 : Nat) : Int))) / 32 = (((R - L - (32 - L % 32)) / 32 : Nat) : Int) := by
        omega
      rw [en]
      obtain ⟨s1, s2, s3⟩ := a1Store_spec m line (L / 32) (leftMask ((L % 32 : Nat) : Int))
        (rightMask ((L % 32 + (R - L) : Nat) : Int)) ((R - L - (32 - L % 32)) / 32)
      simp only [ne_eq, hl, not_false_eq_true, if_true] at s1 s2
      refine ⟨fun c => ?_, fun a ha => ?_, s3⟩
      · rw [s1 c]
        have hi : c % 32 < 32 := Nat.mod_lt _ (by decide)
        rw [leftMask_bit _ hx _ hi, rightMask_bit _ _ hi]
        simp only [decide_eq_true_eq]
        by_cases h : L ≤ c ∧ c < R
        · rw [if_pos h, if_pos (by omega)]
        · rw [if_neg h, if_neg (by omega)]
      · apply s2 a
        by_cases hr : (L % 32 + (R - L)) % 32 = 0
        · rw [rightMask_zero _ hr]; simp only [not_true_eq_false, if_false]; omega
        · simp only [rightMask_ne _ hr, not_false_eq_true, if_true]; omega

/-- `m` holds the a1 row `row` at `line` and differs from `m0` only in the row's bits -/
structure R1 (m0 : Mem) (line : Nat) (m : Mem) (row : Array Nat) : Prop where
  bytes : m.Bytes
  inside : ∀ c (h : c < row.size), fetch1 m line c = row[c]
  beyond : ∀ c, row.size ≤ c → fetch1 m line c = fetch1 m0 line c
  outside : ∀ a, a < line ∨ line + 4 * ((row.size + 31) / 32) ≤ a → m a = m0 a

theorem fetch1_or_one (m : Mem) (line c : Nat) : fetch1 m line c ||| 1 = 1 := by
  unfold fetch1
  rw [Nat.and_one_is_mod]
  rcases Nat.mod_two_eq_zero_or_one (read32 m (line + 4 * (c >>> 5)) >>> (c &&& 0x1f)) with h | h <;> rw [h] <;> rfl

/-- the body of the row loop of `rasterize_edges_1` on memory = on the array -/
theorem row1W_sim (m0 : Mem) (line : Nat) (m : Mem) (row : Array Nat) (h : R1 m0 line m row) (W : Int)
    (hsz : (row.size : Int) = W) (hW : 0 ≤ W ∧ W ≤ 32767) (lx rx : Int) :
    R1 m0 line (row1W m line W lx rx) (row1 row W lx rx) := by
  rw [row1_clamps]
  show R1 m0 line (if clampRx1 (wrap32 (rx + (xFracFirst 1 - 1))) W > clampLx1 (wrap32 (lx + (xFracFirst 1 - 1))) then
      a1Span m line (fixedToInt (clampLx1 (wrap32 (lx + (xFracFirst 1 - 1)))))
        (fixedToInt (clampRx1 (wrap32 (rx + (xFracFirst 1 - 1))) W)) else m) _
  unfold row1Core
  by_cases hgt : clampRx1 (wrap32 (rx + (xFracFirst 1 - 1))) W > clampLx1 (wrap32 (lx + (xFracFirst 1 - 1)))
  · obtain ⟨b1, b2, b3⟩ := span1_bounds _ _ W hW hgt
    simp only [hgt, if_true]
    generalize fixedToInt (clampLx1 (wrap32 (lx + (xFracFirst 1 - 1)))) = lxi at *
    generalize fixedToInt (clampRx1 (wrap32 (rx + (xFracFirst 1 - 1))) W) = rxi at *
    obtain ⟨L, rfl⟩ := Int.eq_ofNat_of_zero_le b1
    obtain ⟨R, rfl⟩ := Int.eq_ofNat_of_zero_le (Int.le_trans b1 b2)
    have hLR : L ≤ R := by omega
    obtain ⟨s1, s2, s3⟩ := a1Span_spec m line L R hLR
    have e : ((R : Int) - (L : Int)).toNat = R - L := by omega
    rw [Int.toNat_natCast, e]
    refine ⟨s3 h.bytes, ?_, ?_, ?_⟩
    · intro c hc
      have hc' : c < row.size := by rw [setBits1_size] at hc; exact hc
      rw [s1 c, setBits1_getElem row L (R - L) c hc', ← h.inside c hc']
      by_cases hin : L ≤ c ∧ c < R
      · rw [if_pos hin, if_pos (by omega), fetch1_or_one]
      · rw [if_neg hin, if_neg (by omega)]
    · intro c hc
      rw [setBits1_size] at hc
      rw [s1 c, if_neg (by omega), h.beyond c hc]
    · intro a ha
      rw [setBits1_size] at ha
      rw [s2 a (by omega), h.outside a ha]
  · simp only [hgt, if_false]
    exact h

/-! ### the three depths in C10's terms (`fetchRaw`) -/

/-- memory `m` holds the depth-`n` row `row` at `line` — every pixel of the row, read with C10's fetch, is the
    array's value — and differs from `m0` in nothing else: every pixel position beyond the row reads as in `m0`
    (the other bits of the last a1 word, the odd a4 nibble, row padding), every byte before the row or after its last
    32-bit word is the same -/
structure HoldsRow (n : Nat) (m0 : Mem) (line : Nat) (m : Mem) (row : Array Nat) : Prop where
  bytes : m.Bytes
  inside : ∀ c (h : c < row.size), fetchRaw m line c n = row[c]
  beyond : ∀ c, row.size ≤ c → fetchRaw m line c n = fetchRaw m0 line c n
  outside : ∀ a, a < line ∨ line + 4 * ((row.size * n + 31) / 32) ≤ a → m a = m0 a

theorem fetchRaw1 (m : Mem) (l c : Nat) : fetchRaw m l c 1 = fetch1 m l c := by simp [fetchRaw]
theorem fetchRaw4 (m : Mem) (l c : Nat) : fetchRaw m l c 4 = fetch4 m l c := by simp [fetchRaw]
theorem fetchRaw8 (m : Mem) (l c : Nat) : fetchRaw m l c 8 = m (l + c) := by simp [fetchRaw, read8]

theorem holdsRow_of_R1 {m0 : Mem} {line : Nat} {m : Mem} {row : Array Nat} (h : R1 m0 line m row) : HoldsRow 1 m0 line m row :=
  ⟨h.bytes, fun c hc => by rw [fetchRaw1]; exact h.inside c hc, fun c hc => by rw [fetchRaw1, fetchRaw1]; exact h.beyond c hc,
   fun a ha => h.outside a (by omega)⟩

theorem holdsRow_of_R4 {m0 : Mem} {line : Nat} {m : Mem} {row : Array Nat} (h : R4 m0 line m row) : HoldsRow 4 m0 line m row :=
  ⟨h.bytes, fun c hc => by rw [fetchRaw4]; exact h.inside c hc, fun c hc => by rw [fetchRaw4, fetchRaw4]; exact h.beyond c hc,
   fun a ha => h.outside a (by omega)⟩

theorem holdsRow_of_R8 {m0 : Mem} {line : Nat} {m : Mem} {row : Array Nat} (h : R8 m0 line m row) : HoldsRow 8 m0 line m row :=
  ⟨h.bytes, fun c hc => by rw [fetchRaw8]; exact h.inside c hc,
   fun c hc => by rw [fetchRaw8, fetchRaw8]; exact h.outside _ (by omega), fun a ha => h.outside a (by omega)⟩

/-- a1: one row of `rasterize_edges_1` on words = the per-pixel model -/
theorem row1_words (m : Mem) (hb : m.Bytes) (line : Nat) (row : Array Nat)
    (hold : ∀ c (h : c < row.size), fetchRaw m line c 1 = row[c]) (W : Int) (hsz : (row.size : Int) = W)
    (hW : 0 ≤ W ∧ W ≤ 32767) (lx rx : Int) :
    HoldsRow 1 m line (row1W m line W lx rx) (row1 row W lx rx) :=
  holdsRow_of_R1 (row1W_sim m line m row ⟨hb, fun c hc => by rw [← fetchRaw1]; exact hold c hc, fun _ _ => rfl, fun _ _ => rfl⟩
    W hsz hW lx rx)

/-- a4: one row of `rasterize_edges_4` on nibbles = the per-pixel model -/
theorem row4_words (m : Mem) (hb : m.Bytes) (line : Nat) (row : Array Nat)
    (hold : ∀ c (h : c < row.size), fetchRaw m line c 4 = row[c]) (W : Int) (hsz : (row.size : Int) = W)
    (hW : 0 ≤ W ∧ W ≤ 32767) (lx rx : Int) :
    HoldsRow 4 m line (row4W m line W lx rx) (row4 row W lx rx) :=
  holdsRow_of_R4 (row4W_sim m line m row ⟨hb, fun c hc => by rw [← fetchRaw4]; exact hold c hc, fun _ _ => rfl, fun _ _ => rfl⟩
    W hsz hW lx rx)

theorem row8Fill_size (row : Array Nat) (W lx rx : Int) (fs : Fill) : (row8Fill row W lx rx fs).1.size = row.size := by
  rw [row8Fill_clamps, row8FillCore_eq]
  split
  · split
    · simp only [Array.size_modify]
    · simp only [Array.size_modify, fillMid_size]
  · rfl

/-- a8: one sub-row of `rasterize_edges_8` on bytes, span-fill bookkeeping included = the per-pixel model; the
    pending fill is the same on both sides.  `m0` is the memory before the pixel row was started (the fill
    state is carried across its sub-rows); `R8 m0 line m row`: `m` is a byte memory whose bytes `line … line+width-1`
    are `row` and whose other bytes are those of `m0`. -/
theorem row8Fill_words (m0 m : Mem) (line : Nat) (row : Array Nat) (h : R8 m0 line m row)
    (W : Int) (hsz : (row.size : Int) = W) (hW : 0 ≤ W ∧ W ≤ 32767) (lx rx : Int) (fs : Fill) (hin : FillIn W fs) :
    R8 m0 line (row8FillW m line W lx rx fs).1 (row8Fill row W lx rx fs).1 ∧
    (row8FillW m line W lx rx fs).2 = (row8Fill row W lx rx fs).2 ∧
    FillIn W (row8Fill row W lx rx fs).2 :=
  ⟨(row8FillW_sim m0 line m row h W hsz hW lx rx fs hin).1, (row8FillW_sim m0 line m row h W hsz hW lx rx fs hin).2,
   (row8Fill_cols row W lx rx fs hW hin).1⟩

/-- a8: the flush at the end of the pixel row (`MEMSET_WRAPPED (0xff)` or `ADD_SATURATE_8`) = `flushFill` -/
theorem flushFill_words (m0 m : Mem) (line : Nat) (row : Array Nat) (h : R8 m0 line m row)
    (W : Int) (hsz : (row.size : Int) = W) (fs : Fill) (hin : FillIn W fs) :
    R8 m0 line (flushFillW m line fs) (flushFill row fs) :=
  flushFillW_sim m0 line m row h W hsz fs hin

theorem r8_of_holds (m : Mem) (hb : m.Bytes) (line : Nat) (row : Array Nat)
    (hold : ∀ c (h : c < row.size), fetchRaw m line c 8 = row[c]) : R8 m line m row :=
  ⟨hb, fun c hc => by rw [← hold c hc, fetchRaw8], fun _ _ => rfl⟩

/-! ### uniqueness: the pixels of the row and the frame determine the memory -/

theorem byte_testBit_high (b j : Nat) (hb : b < 256) (hj : 8 ≤ j) : b.testBit j = false :=
  Nat.testBit_lt_two_pow (Nat.lt_of_lt_of_le hb (by
    have : 2 ^ 8 ≤ 2 ^ j := Nat.pow_le_pow_right (by decide) hj
    simpa using this))

/-- little endian: bit `8 i + j` of the 32-bit word at `w` is bit `j` of byte `w + i` -/
theorem read32_bit (m : Mem) (hb : m.Bytes) (w i j : Nat) (hi : i < 4) (hj : j < 8) :
    (read32 m w).testBit (8 * i + j) = (m (w + i)).testBit j := by
  unfold read32
  have h0 := hb w; have h1 := hb (w + 1); have h2 := hb (w + 2); have h3 := hb (w + 3)
  simp only [Nat.testBit_or, Nat.testBit_shiftLeft]
  have hi' : i = 0 ∨ i = 1 ∨ i = 2 ∨ i = 3 := by omega
  rcases hi' with rfl | rfl | rfl | rfl
  · have a1 : ¬ (8 * 0 + j ≥ 8) := by omega
    have a2 : ¬ (8 * 0 + j ≥ 16) := by omega
    have b1 : ¬ (8 ≤ j) := by omega
    have b2 : ¬ (16 ≤ j) := by omega
    have b3 : ¬ (24 ≤ j) := by omega
    simp [b1, b2, b3]
  · have a2 : ¬ (8 * 1 + j ≥ 16) := by omega
    have a3 : ¬ (8 * 1 + j ≥ 24) := by omega
    have e : 8 * 1 + j - 8 = j := by omega
    have z : (m w).testBit (8 * 1 + j) = false := byte_testBit_high _ _ h0 (by omega)
    simp [a2, a3, e, z]
  · have a3 : ¬ (8 * 2 + j ≥ 24) := by omega
    have e : 8 * 2 + j - 16 = j := by omega
    have z0 : (m w).testBit (8 * 2 + j) = false := byte_testBit_high _ _ h0 (by omega)
    have z1 : (m (w + 1)).testBit (8 * 2 + j - 8) = false := byte_testBit_high _ _ h1 (by omega)
    simp [a3, e, z0, z1]
  · have e : 8 * 3 + j - 24 = j := by omega
    have z0 : (m w).testBit (8 * 3 + j) = false := byte_testBit_high _ _ h0 (by omega)
    have z1 : (m (w + 1)).testBit (8 * 3 + j - 8) = false := byte_testBit_high _ _ h1 (by omega)
    have z2 : (m (w + 2)).testBit (8 * 3 + j - 16) = false := byte_testBit_high _ _ h2 (by omega)
    simp [e, z0, z1, z2]

/-- two byte memories that read the same at every pixel position of the line agree on every byte from `line` on -/
theorem bytes_eq_of_fetch (n : Nat) (hn : n = 1 ∨ n = 4 ∨ n = 8) (m1 m2 : Mem) (h1 : m1.Bytes) (h2 : m2.Bytes) (line : Nat)
    (h : ∀ c, fetchRaw m1 line c n = fetchRaw m2 line c n) (a : Nat) (ha : line ≤ a) : m1 a = m2 a := by
  obtain ⟨d, rfl⟩ : ∃ d, a = line + d := ⟨a - line, by omega⟩
  rcases hn with rfl | rfl | rfl
  · apply Nat.eq_of_testBit_eq
    intro j
    by_cases hj : j < 8
    · have hc := h (8 * d + j)
      rw [fetchRaw1, fetchRaw1, fetch1_eq, fetch1_eq] at hc
      have e1 : (8 * d + j) / 32 = d / 4 := by omega
      have e2 : (8 * d + j) % 32 = 8 * (d % 4) + j := by omega
      rw [e1, e2, read32_bit m1 h1 _ _ _ (Nat.mod_lt _ (by decide)) hj,
        read32_bit m2 h2 _ _ _ (Nat.mod_lt _ (by decide)) hj] at hc
      have e3 : line + 4 * (d / 4) + d % 4 = line + d := by omega
      rw [e3] at hc
      cases hb1 : (m1 (line + d)).testBit j <;> cases hb2 : (m2 (line + d)).testBit j <;> simp_all
    · rw [byte_testBit_high _ _ (h1 _) (by omega), byte_testBit_high _ _ (h2 _) (by omega)]
  · have he := h (2 * d)
    have ho := h (2 * d + 1)
    rw [fetchRaw4, fetchRaw4] at he ho
    unfold fetch4 fetch8 read8 at he ho
    have o1 : ¬ ((4 * (2 * d)) &&& 4 ≠ 0) := by rw [and4]; omega
    have o2 : (4 * (2 * d + 1)) &&& 4 ≠ 0 := by rw [and4]; omega
    rw [if_neg o1, if_neg o1, shr3_4, and_f, and_f] at he
    rw [if_pos o2, if_pos o2, shr3_4, Nat.shiftRight_eq_div_pow, Nat.shiftRight_eq_div_pow] at ho
    have e1 : 2 * d / 2 = d := by omega
    have e2 : (2 * d + 1) / 2 = d := by omega
    rw [e1] at he
    rw [e2] at ho
    simp only [Nat.reducePow] at ho
    omega
  · have := h d
    rw [fetchRaw8, fetchRaw8] at this
    exact this

/-- the pixels of the row and the frame determine the memory -/
theorem holdsRow_unique (n : Nat) (hn : n = 1 ∨ n = 4 ∨ n = 8) (m0 : Mem) (line : Nat) (m1 m2 : Mem) (row : Array Nat)
    (h1 : HoldsRow n m0 line m1 row) (h2 : HoldsRow n m0 line m2 row) : m1 = m2 := by
  funext a
  by_cases ha : line ≤ a
  · apply bytes_eq_of_fetch n hn m1 m2 h1.bytes h2.bytes line _ a ha
    intro c
    by_cases hc : c < row.size
    · rw [h1.inside c hc, h2.inside c hc]
    · rw [h1.beyond c (by omega), h2.beyond c (by omega)]
  · rw [h1.outside a (by omega), h2.outside a (by omega)]

/-! ### the same row through C10's pixel stores (what C03's `realize` does cell by cell) -/

/-- one cell of C03's `realize`: the new value through one C10 pixel store, nothing when the value did not change -/
def realizeCellRow (n : Nat) (line : Nat) (old new : Array Nat) (m : Mem) (c : Nat) : Mem :=
  if new[c]?.getD 0 = old[c]?.getD 0 then m else storeRaw m line c n (new[c]?.getD 0)

/-- the row update `old → new` as C10 pixel stores of the changed cells, left to right -/
def realizeRow (n : Nat) (line : Nat) (old new : Array Nat) (m : Mem) : Mem :=
  (List.range new.size).foldl (realizeCellRow n line old new) m

theorem bpp_of (n : Nat) (hn : n = 1 ∨ n = 4 ∨ n = 8) : Bpp n := by
  rcases hn with h | h | h <;> subst h
  · exact Or.inl rfl
  · exact Or.inr (Or.inl rfl)
  · exact Or.inr (Or.inr (Or.inl rfl))

theorem unit_in (n : Nat) (hn : n = 1 ∨ n = 4 ∨ n = 8) (line c k : Nat) (hc : c < k) :
    line ≤ unitLo line c n ∧ unitLo line c n + unitLen n ≤ line + 4 * ((k * n + 31) / 32) := by
  rcases hn with h | h | h <;> subst h <;> simp only [unitLo, unitLen] <;>
    simp only [Nat.reduceEqDiff, if_true, if_false] <;> omega

theorem realizeRow_holds (n : Nat) (hn : n = 1 ∨ n = 4 ∨ n = 8) (m : Mem) (hb : m.Bytes) (line : Nat) (old new : Array Nat)
    (hsz : new.size = old.size) (hold : ∀ c (h : c < old.size), fetchRaw m line c n = old[c])
    (hv : ∀ c (h : c < new.size), new[c] < 2 ^ n) :
    HoldsRow n m line (realizeRow n line old new m) new := by
  have hbpp := bpp_of n hn
  have key : ∀ k, k ≤ new.size →
      let mk := (List.range k).foldl (realizeCellRow n line old new) m
      mk.Bytes ∧ (∀ c (h : c < new.size), c < k → fetchRaw mk line c n = new[c]) ∧
      (∀ c, k ≤ c → fetchRaw mk line c n = fetchRaw m line c n) ∧
      (∀ a, a < line ∨ line + 4 * ((k * n + 31) / 32) ≤ a → mk a = m a) := by
    intro k
    induction k with
    | zero => intro _; exact ⟨hb, fun c _ h => absurd h (by omega), fun _ _ => rfl, fun _ _ => rfl⟩
    | succ k ih =>
      intro hk
      obtain ⟨i1, i2, i3, i4⟩ := ih (by omega)
      simp only [List.range_succ, List.foldl_append, List.foldl_cons, List.foldl_nil]
      generalize (List.range k).foldl (realizeCellRow n line old new) m = mk at *
      have hk' : k < new.size := by omega
      have hko : k < old.size := by omega
      have gn : new[k]?.getD 0 = new[k] := by simp [hk']
      have go : old[k]?.getD 0 = old[k] := by simp [hko]
      unfold realizeCellRow
      rw [gn, go]
      by_cases heq : new[k] = old[k]
      · rw [if_pos heq]
        refine ⟨i1, fun c h hc => ?_, fun c hc => i3 c (by omega), fun a ha => i4 a ?_⟩
        · by_cases hck : c < k
          · exact i2 c h hck
          · have : c = k := by omega
            subst this
            rw [i3 c (by omega), hold c hko, heq]
        · have := unit_in n hn line k (k + 1) (by omega)
          rcases ha with ha | ha
          · exact Or.inl ha
          · right
            have hmono : (k * n + 31) / 32 ≤ ((k + 1) * n + 31) / 32 :=
              Nat.div_le_div_right (by rw [Nat.add_mul]; omega)
            omega
      · rw [if_neg heq]
        refine ⟨storeRaw_bytes _ _ _ _ _ i1, fun c h hc => ?_, fun c hc => ?_, fun a ha => ?_⟩
        · by_cases hck : c < k
          · rw [fetchRaw_storeRaw_other mk i1 line k c n _ hbpp (by omega)]; exact i2 c h hck
          · have : c = k := by omega
            subst this
            rw [fetchRaw_storeRaw_same mk i1 line c n _ hbpp, Nat.mod_eq_of_lt (hv c h)]
        · rw [fetchRaw_storeRaw_other mk i1 line k c n _ hbpp (by omega)]; exact i3 c (by omega)
        · have hu := unit_in n hn line k (k + 1) (by omega)
          have hmono : (k * n + 31) / 32 ≤ ((k + 1) * n + 31) / 32 :=
            Nat.div_le_div_right (by rw [Nat.add_mul]; omega)
          rw [storeRaw_frame mk line k n _ a hbpp (by omega)]
          exact i4 a (by omega)
  obtain ⟨k1, k2, k3, k4⟩ := key new.size (Nat.le_refl _)
  exact ⟨k1, fun c h => k2 c h h, k3, k4⟩

/-- **rowWords_eq_realize** (generic form): a memory that holds the new row and differs from `m` in nothing else IS
    the memory C03's `realize` produces for this row (C10 pixel stores of the changed cells) -/
theorem holdsRow_eq_realize (n : Nat) (hn : n = 1 ∨ n = 4 ∨ n = 8) (m : Mem) (hb : m.Bytes) (line : Nat) (old new : Array Nat)
    (hsz : new.size = old.size) (hold : ∀ c (h : c < old.size), fetchRaw m line c n = old[c])
    (m' : Mem) (h : HoldsRow n m line m' new) : m' = realizeRow n line old new m := by
  apply holdsRow_unique n hn m line m' _ new h
  apply realizeRow_holds n hn m hb line old new hsz hold
  intro c hc
  rw [← h.inside c hc]
  rcases hn with rfl | rfl | rfl
  · rw [fetchRaw1]; unfold fetch1; rw [Nat.and_one_is_mod]; omega
  · rw [fetchRaw4]; unfold fetch4 fetch8 read8
    split
    · rw [Nat.shiftRight_eq_div_pow]; have := h.bytes (line + (4 * c) >>> 3); simp only [Nat.reducePow]; omega
    · rw [and_f]; omega
  · rw [fetchRaw8]; exact h.bytes _

/-- a1: the word-level row update is C03's `realize` of the per-pixel result -/
theorem row1_words_eq_realize (m : Mem) (hb : m.Bytes) (line : Nat) (row : Array Nat)
    (hold : ∀ c (h : c < row.size), fetchRaw m line c 1 = row[c]) (W : Int) (hsz : (row.size : Int) = W)
    (hW : 0 ≤ W ∧ W ≤ 32767) (lx rx : Int) :
    row1W m line W lx rx = realizeRow 1 line row (row1 row W lx rx) m :=
  holdsRow_eq_realize 1 (Or.inl rfl) m hb line row _ (row1_size ..) hold _ (row1_words m hb line row hold W hsz hW lx rx)

/-- a4: the nibble-level row update is C03's `realize` of the per-pixel result -/
theorem row4_words_eq_realize (m : Mem) (hb : m.Bytes) (line : Nat) (row : Array Nat)
    (hold : ∀ c (h : c < row.size), fetchRaw m line c 4 = row[c]) (W : Int) (hsz : (row.size : Int) = W)
    (hW : 0 ≤ W ∧ W ≤ 32767) (lx rx : Int) :
    row4W m line W lx rx = realizeRow 4 line row (row4 row W lx rx) m :=
  holdsRow_eq_realize 4 (Or.inr (Or.inl rfl)) m hb line row _ (row4_size ..) hold _
    (row4_words m hb line row hold W hsz hW lx rx)

/-- the sub-rows of one pixel row of `rasterize_edges_8` on memory -/
def fillSpansW (line : Nat) (width : Int) (spans : List (Int × Int)) (st : Mem × Fill) : Mem × Fill :=
  spans.foldl (fun st sp => row8FillW st.1 line width sp.1 sp.2 st.2) st

theorem fillSpansW_sim (m0 : Mem) (line : Nat) (W : Int) (hW : 0 ≤ W ∧ W ≤ 32767) (spans : List (Int × Int)) :
    ∀ (m : Mem) (row : Array Nat) (fs : Fill), R8 m0 line m row → (row.size : Int) = W → FillIn W fs →
      R8 m0 line (fillSpansW line W spans (m, fs)).1 (fillSpans W spans (row, fs)).1 ∧
      (fillSpansW line W spans (m, fs)).2 = (fillSpans W spans (row, fs)).2 ∧
      FillIn W (fillSpans W spans (row, fs)).2 ∧ ((fillSpans W spans (row, fs)).1.size : Int) = W := by
  induction spans with
  | nil => intro m row fs h hsz hin; exact ⟨h, rfl, hin, hsz⟩
  | cons sp rest ih =>
    intro m row fs h hsz hin
    simp only [fillSpansW, fillSpans, List.foldl_cons] at ih ⊢
    obtain ⟨s1, s2, s3⟩ := row8Fill_words m0 m line row h W hsz hW sp.1 sp.2 fs hin
    have hsz' : ((row8Fill row W sp.1 sp.2 fs).1.size : Int) = W := by rw [row8Fill_size]; exact hsz
    have e : row8FillW m line W sp.1 sp.2 fs = ((row8FillW m line W sp.1 sp.2 fs).1, (row8Fill row W sp.1 sp.2 fs).2) :=
      Prod.ext rfl s2
    rw [e]
    exact ih _ _ _ s1 hsz' s3

theorem naiveSpans_size (W : Int) (spans : List (Int × Int)) : ∀ row : Array Nat, (naiveSpans W spans row).size = row.size := by
  induction spans with
  | nil => intro row; rfl
  | cons sp rest ih =>
    intro row
    simp only [naiveSpans, List.foldl_cons] at ih ⊢
    rw [ih, row8_size]

/-- a8, one whole pixel row: the sub-row spans with the span-fill bookkeeping and the final flush, on bytes, are
    C03's `realize` of the naive per-sub-row accumulation `row8` (through `spanfill_eq_naive`) -/
theorem row8_words_eq_realize (m : Mem) (hb : m.Bytes) (line : Nat) (row : Array Nat)
    (hold : ∀ c (h : c < row.size), fetchRaw m line c 8 = row[c]) (W : Int) (hsz : (row.size : Int) = W)
    (hW : 0 ≤ W ∧ W ≤ 32767) (spans : List (Int × Int)) :
    flushFillW (fillSpansW line W spans (m, {})).1 line (fillSpansW line W spans (m, {})).2 =
      realizeRow 8 line row (naiveSpans W spans row) m := by
  obtain ⟨s1, s2, s3, s4⟩ := fillSpansW_sim m line W hW spans m row {} (r8_of_holds m hb line row hold) hsz (fillIn_init W)
  have f0 := flushFill_words m (fillSpansW line W spans (m, {})).1 line _ s1 W s4 (fillSpans W spans (row, {})).2 s3
  have f : R8 m line (flushFillW (fillSpansW line W spans (m, {})).1 line (fillSpansW line W spans (m, {})).2)
      (naiveSpans W spans row) := by
    rw [s2, ← fillSpans_flush]; exact f0
  have hn : (naiveSpans W spans row).size = row.size := naiveSpans_size W spans row
  exact holdsRow_eq_realize 8 (Or.inr (Or.inr rfl)) m hb line row _ hn hold _ (holdsRow_of_R8 f)

end Pixman.Lemmas.TrapWords

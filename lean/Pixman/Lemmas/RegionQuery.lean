import Pixman.Lemmas.RegionCanon
/-! Lemmas for the queries of C07: y-x order of canonical lists, the binary search
    `find_box_for_y`, `contains_point`. -/
namespace Pixman.Region

/-- `p` is listed before `q` in y-x banded order -/
def Before (p q : Box) : Prop :=
  (p.y1 = q.y1 ∧ p.y2 = q.y2 ∧ p.x2 < q.x1) ∨ p.y2 ≤ q.y1

/-- the part of the canonical form the queries rely on -/
def Banded (l : List Box) : Prop :=
  l.Pairwise Before ∧ ∀ b ∈ l, b.x1 < b.x2 ∧ b.y1 < b.y2

theorem spansSep_pairwise {l : List Box} (h : SpansSep l) :
    l.Pairwise (fun p q => p.x2 < q.x1) := by
  induction l with
  | nil => exact List.Pairwise.nil
  | cons a t ih => exact List.Pairwise.cons (spansSep_lt h) (ih (spansSep_tail h))

theorem bandsOK_pairwise {bs : List Band} (h : BandsOK bs) : (flat bs).Pairwise Before := by
  induction bs with
  | nil => exact List.Pairwise.nil
  | cons a t ih =>
    have hb := bandsOK_head h
    rw [flat_cons, List.pairwise_append]
    refine ⟨?_, ih (bandsOK_tail h), ?_⟩
    · refine (spansSep_pairwise hb.2.2.2).imp_of_mem ?_
      intro p q hp hq hlt
      have := hb.2.2.1 p hp
      have := hb.2.2.1 q hq
      exact .inl ⟨by omega, by omega, hlt⟩
    · intro p hp q hq
      obtain ⟨c, hc, hqc⟩ := mem_flat.1 hq
      have := bandsOK_lb h c hc
      have := (bandsOK_all (bandsOK_tail h) c hc).2.2.1 q hqc
      have := hb.2.2.1 p hp
      exact .inr (by omega)

theorem canonList_banded {l : List Box} (h : CanonList l) : Banded l := by
  refine ⟨?_, canonList_good h⟩
  obtain ⟨bs, hk, rfl⟩ := h
  exact bandsOK_pairwise hk

theorem banded_tail {a : Box} {t : List Box} (h : Banded (a :: t)) : Banded t :=
  ⟨(List.pairwise_cons.1 h.1).2, fun b hb => h.2 b (List.mem_cons_of_mem _ hb)⟩

theorem banded_head {a : Box} {t : List Box} (h : Banded (a :: t)) :
    ∀ q ∈ t, Before a q := (List.pairwise_cons.1 h.1).1

theorem before_y2 {p q : Box} (h : Before p q) (hq : q.y1 < q.y2) : p.y2 ≤ q.y2 := by
  rcases h with h | h <;> omega

theorem banded_y2_mono {l : List Box} (h : Banded l) : l.Pairwise (fun p q => p.y2 ≤ q.y2) :=
  h.1.imp_of_mem (fun _ hq hb => before_y2 hb (h.2 _ hq).2)

/-! ### find_box_for_y -/

/-- The binary search returns the first index in `[b, e)` whose `y2` exceeds `y`
    (or `e`), provided the `y2` are non-decreasing on `[b, e)`. -/
theorem findBoxForYIdx_spec (a : Array Box) (y : Int) (b e : Nat) (hbe : b ≤ e)
    (mono : ∀ i j, b ≤ i → i ≤ j → j < e → (a.getD i default).y2 ≤ (a.getD j default).y2) :
    b ≤ findBoxForYIdx a y b e ∧ findBoxForYIdx a y b e ≤ e ∧
    (∀ i, b ≤ i → i < findBoxForYIdx a y b e → (a.getD i default).y2 ≤ y) ∧
    (findBoxForYIdx a y b e < e → (a.getD (findBoxForYIdx a y b e) default).y2 > y) := by
  fun_induction findBoxForYIdx a y b e with
  | case1 b e h =>
    exact ⟨hbe, Nat.le_refl _, fun i h1 h2 => by omega, fun h => by omega⟩
  | case2 b e h h1 h2 =>
    exact ⟨Nat.le_refl _, hbe, fun i h1 h2 => by omega, fun _ => h2⟩
  | case3 b e h h1 h2 =>
    refine ⟨hbe, Nat.le_refl _, fun i h3 h4 => ?_, fun h => by omega⟩
    have : i = b := by omega
    subst this
    omega
  | case4 b e h h1 mid h2 ih =>
    have hm : b < mid ∧ mid < e := by simp only [mid]; omega
    obtain ⟨i1, i2, i3, i4⟩ := ih (by omega) (fun i j hi hij hj => mono i j hi hij (by omega))
    refine ⟨i1, by omega, i3, fun _ => ?_⟩
    by_cases hlt : findBoxForYIdx a y b mid < mid
    · exact i4 hlt
    · have : findBoxForYIdx a y b mid = mid := by omega
      rw [this]; exact h2
  | case5 b e h h1 mid h2 ih =>
    have hm : b < mid ∧ mid < e := by simp only [mid]; omega
    obtain ⟨i1, i2, i3, i4⟩ := ih (by omega) (fun i j hi hij hj => mono i j (by omega) hij hj)
    refine ⟨by omega, i2, fun i hi hlt => ?_, i4⟩
    by_cases hc : mid ≤ i
    · exact i3 i hc hlt
    · have := mono i mid hi (by omega) hm.2
      omega

theorem dropWhile_eq_drop {α : Type} (p : α → Bool) : ∀ (l : List α) (r : Nat), r ≤ l.length →
    (∀ i (h : i < l.length), i < r → p l[i] = true) →
    (∀ (h : r < l.length), p l[r] = false) → l.dropWhile p = l.drop r
  | [], r, _, _, _ => by simp
  | a :: t, 0, _, _, h2 => by
    have := h2 (by simp)
    simp only [List.getElem_cons_zero] at this
    simp [this]
  | a :: t, r + 1, h0, h1, h2 => by
    have ha := h1 0 (by simp) (by omega)
    simp only [List.getElem_cons_zero] at ha
    rw [List.dropWhile_cons, if_pos ha, List.drop_succ_cons]
    apply dropWhile_eq_drop p t r (by simpa using h0)
    · intro i hi hr
      have := h1 (i + 1) (by simpa using hi) (by omega)
      simpa using this
    · intro h
      have := h2 (by simpa using h)
      simpa using this

theorem getD_toArray (l : List Box) (i : Nat) (h : i < l.length) :
    l.toArray.getD i default = l[i] := by
  simp [Array.getD, h]

/-- On a list with non-decreasing `y2` (any canonical list) the binary search finds the
    suffix that `findBoxForY` describes. -/
theorem drop_findBoxForYIdx (l : List Box) (y : Int)
    (mono : l.Pairwise (fun p q => p.y2 ≤ q.y2)) :
    l.drop (findBoxForYIdx l.toArray y 0 l.toArray.size) = findBoxForY l y := by
  have hm : ∀ i j, 0 ≤ i → i ≤ j → j < l.toArray.size →
      (l.toArray.getD i default).y2 ≤ (l.toArray.getD j default).y2 := by
    intro i j _ hij hj
    have hj' : j < l.length := by simpa using hj
    rw [getD_toArray l i (by omega), getD_toArray l j hj']
    rcases Nat.lt_or_eq_of_le hij with hlt | rfl
    · exact List.pairwise_iff_getElem.1 mono i j (by omega) hj' hlt
    · exact Int.le_refl _
  obtain ⟨_, s2, s3, s4⟩ := findBoxForYIdx_spec l.toArray y 0 l.toArray.size (Nat.zero_le _) hm
  generalize findBoxForYIdx l.toArray y 0 l.toArray.size = r at *
  have hsz : l.toArray.size = l.length := by simp
  rw [hsz] at s2 s4
  unfold findBoxForY
  symm
  apply dropWhile_eq_drop _ l r s2
  · intro i hi hr
    have := s3 i (Nat.zero_le _) hr
    rw [getD_toArray l i hi] at this
    simp only [gt_iff_lt, Bool.not_eq_eq_eq_not, Bool.not_true, decide_eq_false_iff_not]
    omega
  · intro h
    have := s4 h
    rw [getD_toArray l r h] at this
    simpa using this

theorem findBoxForY_gt {l : List Box} (h : Banded l) (y : Int) :
    ∀ b ∈ findBoxForY l y, y < b.y2 := by
  unfold findBoxForY
  induction l with
  | nil => intro b hb; cases hb
  | cons p t ih =>
    intro b hb
    rw [List.dropWhile_cons] at hb
    split at hb
    · exact ih (banded_tail h) b hb
    · next hp =>
      simp only [gt_iff_lt, Bool.not_eq_eq_eq_not, Bool.not_true, decide_eq_false_iff_not,
        Int.not_lt, Int.not_le] at hp
      rcases List.mem_cons.1 hb with rfl | hb
      · exact hp
      · have := before_y2 (banded_head h b hb) (h.2 b (List.mem_cons_of_mem _ hb)).2
        omega

theorem memL_findBoxForY (l : List Box) (x y : Int) :
    MemL (findBoxForY l y) x y ↔ MemL l x y := by
  unfold findBoxForY
  induction l with
  | nil => exact Iff.rfl
  | cons p t ih =>
    rw [List.dropWhile_cons]
    split
    · next hp =>
      simp only [gt_iff_lt, Bool.not_eq_eq_eq_not, Bool.not_true, decide_eq_false_iff_not,
        Int.not_lt] at hp
      rw [ih, memL_cons]
      constructor
      · exact .inr
      · rintro (m | m)
        · have := m.2.2.2; omega
        · exact m
    · exact Iff.rfl

theorem findBoxForY_banded {l : List Box} (h : Banded l) (y : Int) :
    Banded (findBoxForY l y) := by
  unfold findBoxForY
  induction l with
  | nil => exact h
  | cons p t ih =>
    rw [List.dropWhile_cons]
    split
    · exact ih (banded_tail h)
    · exact h

/-! ### contains_point -/

theorem containsPointLoop_spec (x y : Int) : ∀ (s : List Box), Banded s → (∀ b ∈ s, y < b.y2) →
    match containsPointLoop x y s with
    | some p => p ∈ s ∧ p.Mem x y
    | none => ¬ MemL s x y
  | [], _, _ => by simp [containsPointLoop, MemL]
  | p :: t, hb, hy => by
    have ih := containsPointLoop_spec x y t (banded_tail hb)
      (fun b hb => hy b (List.mem_cons_of_mem _ hb))
    have hp := hy p (List.mem_cons_self ..)
    have hg := hb.2 p (List.mem_cons_self ..)
    by_cases hc : y < p.y1 ∨ x < p.x1
    · have e : containsPointLoop x y (p :: t) = none := by simp [containsPointLoop, hc]
      rw [e]
      show ¬ MemL (p :: t) x y
      rw [memL_cons]
      rintro (m | ⟨q, hq, m⟩)
      · obtain ⟨_, _, _, _⟩ := m; omega
      · obtain ⟨_, _, _, _⟩ := m
        rcases banded_head hb q hq with hbq | hbq <;> omega
    · by_cases hx : p.x2 ≤ x
      · have e : containsPointLoop x y (p :: t) = containsPointLoop x y t := by
          simp [containsPointLoop, hc, hx]
        rw [e]
        revert ih
        cases containsPointLoop x y t with
        | none =>
          intro ih
          show ¬ MemL (p :: t) x y
          rw [memL_cons]
          rintro (m | m)
          · obtain ⟨_, _, _, _⟩ := m; omega
          · exact ih m
        | some q =>
          intro ih
          exact ⟨List.mem_cons_of_mem _ ih.1, ih.2⟩
      · have e : containsPointLoop x y (p :: t) = some p := by
          simp [containsPointLoop, hc, hx]
        rw [e]
        exact ⟨List.mem_cons_self .., by omega, by omega, by omega, hp⟩

theorem inBox_iff (e : Box) (x y : Int) : inBox e x y = true ↔ e.Mem x y := by
  simp only [inBox, Box.Mem, Bool.and_eq_true, decide_eq_true_eq]
  omega

theorem isBBox_mem {e : Box} {l : List Box} (h : IsBBox e l) {x y : Int} (m : MemL l x y) :
    e.Mem x y := by
  obtain ⟨b, hb, m1, m2, m3, m4⟩ := m
  have := h.1 b hb
  exact ⟨by omega, by omega, by omega, by omega⟩

/-- the three cases of `containsPoint` on a canonical region, in one statement -/
theorem containsPoint_spec {r : Region} (h : Canon r) (x y : Int) :
    match containsPoint r x y with
    | some p => p ∈ r.rects ∧ p.Mem x y
    | none => ¬ r.Mem x y := by
  obtain ⟨e, d⟩ := r
  cases d with
  | broken => exact h.elim
  | emptyStatic => simp [containsPoint, Region.numRects, Region.rects, Region.Mem, MemL]
  | single =>
    by_cases hb : inBox e x y = true
    · have e1 : containsPoint ⟨e, .single⟩ x y = some e := by
        simp [containsPoint, Region.numRects, Region.rects, hb]
      rw [e1]
      exact ⟨List.mem_singleton.2 rfl, (inBox_iff ..).1 hb⟩
    · have e1 : containsPoint ⟨e, .single⟩ x y = none := by
        simp [containsPoint, Region.numRects, Region.rects, hb]
      rw [e1]
      rintro ⟨b, hb', m⟩
      rw [List.mem_singleton.1 hb'] at m
      exact hb ((inBox_iff ..).2 m)
  | heap l =>
    obtain ⟨hlen, hc, hbb⟩ := h
    have hbd := canonList_banded hc
    have h0 : (l.length == 0) = false := by rw [beq_eq_false_iff_ne]; omega
    have h1 : (l.length == 1) = false := by rw [beq_eq_false_iff_ne]; omega
    by_cases hb : inBox e x y = true
    · have e1 : containsPoint ⟨e, .heap l⟩ x y = containsPointLoop x y (findBoxForY l y) := by
        rw [← drop_findBoxForYIdx l y (banded_y2_mono hbd)]
        simp [containsPoint, Region.numRects, Region.rects, hb, h0, h1]
      rw [e1]
      have := containsPointLoop_spec x y (findBoxForY l y) (findBoxForY_banded hbd y)
        (findBoxForY_gt hbd y)
      revert this
      cases containsPointLoop x y (findBoxForY l y) with
      | none =>
        intro this
        show ¬ MemL l x y
        rw [← memL_findBoxForY]; exact this
      | some q =>
        intro this
        refine ⟨?_, this.2⟩
        exact (List.dropWhile_sublist _).subset this.1
    · have e1 : containsPoint ⟨e, .heap l⟩ x y = none := by
        simp [containsPoint, Region.numRects, Region.rects, hb]
      rw [e1]
      intro m
      exact hb ((inBox_iff ..).2 (isBBox_mem hbb m))

end Pixman.Region

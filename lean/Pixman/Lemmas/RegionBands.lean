import Pixman.Lemmas.RegionBand
/-! Banded lists: `BandsOK`/`CanonList` bookkeeping, membership by bands, FIND_BAND on canonical
    lists. -/
set_option linter.unusedSimpArgs false
set_option linter.unusedVariables false
namespace Pixman.Region

abbrev Band' := Int × Int × List Box

/-- concatenation of the span lists of the bands -/
def flat' (bs : List Band') : List Box := (bs.map (·.2.2)).flatten

theorem flat_nil' : flat' [] = [] := rfl
theorem flat_cons' (b : Band') (bs : List Band') : flat' (b :: bs) = b.2.2 ++ flat' bs := by
  simp [flat']
theorem flat_append' (as bs : List Band') : flat' (as ++ bs) = flat' as ++ flat' bs := by
  simp [flat']

theorem canonList_iff' (l : List Box) : CanonList l ↔ ∃ bs, BandsOK bs ∧ l = flat' bs := Iff.rfl

/-- consecutive bands: ordered in y, and different spans when they touch -/
def Adj (b c : Band') : Prop := b.2.1 ≤ c.1 ∧ (b.2.1 = c.1 → ¬ SameSpans b.2.2 c.2.2)

def IsBand' (b : Band') : Prop := IsBand b.1 b.2.1 b.2.2

theorem bandsOK_cons' (b : Band') (bs : List Band') :
    BandsOK (b :: bs) ↔ IsBand' b ∧ (∀ c, bs.head? = some c → Adj b c) ∧ BandsOK bs := by
  obtain ⟨y1, y2, l⟩ := b
  cases bs with
  | nil => simp [BandsOK, IsBand']
  | cons c t =>
    obtain ⟨y1', y2', l'⟩ := c
    simp only [BandsOK, IsBand', Adj, List.head?_cons, Option.some.injEq, forall_eq']
    constructor
    · rintro ⟨h1, h2, h3, h4⟩; exact ⟨h1, ⟨h2, h3⟩, h4⟩
    · rintro ⟨h1, ⟨h2, h3⟩, h4⟩; exact ⟨h1, h2, h3, h4⟩

theorem bandsOK_nil : BandsOK [] := trivial

theorem bandsOK_append (as bs : List Band') :
    BandsOK (as ++ bs) ↔ BandsOK as ∧ BandsOK bs ∧
      (∀ a c, as.getLast? = some a → bs.head? = some c → Adj a c) := by
  induction as with
  | nil => simp [bandsOK_nil]
  | cons a t ih =>
    cases t with
    | nil =>
      simp only [List.singleton_append, bandsOK_cons', List.head?_nil, reduceCtorEq, false_implies,
        implies_true, bandsOK_nil, and_true, List.getLast?_singleton, Option.some.injEq]
      constructor
      · rintro ⟨h1, h2, h3⟩; exact ⟨h1, h3, fun a' c e1 e2 => e1 ▸ h2 c e2⟩
      · rintro ⟨h1, h3, h2⟩; exact ⟨h1, fun c e => h2 a c rfl e, h3⟩
    | cons a' t' =>
      have e : (a :: a' :: t').getLast? = (a' :: t').getLast? := by simp [List.getLast?_cons_cons]
      rw [List.cons_append, bandsOK_cons', ih, bandsOK_cons' a (a' :: t'), e]
      simp only [List.cons_append, List.head?_cons, Option.some.injEq, forall_eq']
      constructor
      · rintro ⟨h1, h2, h3, h4, h5⟩; exact ⟨⟨h1, h2, h3⟩, h4, h5⟩
      · rintro ⟨⟨h1, h2, h3⟩, h4, h5⟩; exact ⟨h1, h2, h3, h4, h5⟩

theorem bandsOK_snoc' (as : List Band') (c : Band') :
    BandsOK (as ++ [c]) ↔ BandsOK as ∧ IsBand' c ∧ (∀ a, as.getLast? = some a → Adj a c) := by
  rw [bandsOK_append]
  simp only [bandsOK_cons', List.head?_nil, reduceCtorEq, false_implies, implies_true,
    bandsOK_nil, and_true, List.head?_cons, Option.some.injEq]
  constructor
  · rintro ⟨h1, h2, h3⟩; exact ⟨h1, h2, fun a e => h3 a c e rfl⟩
  · rintro ⟨h1, h2, h3⟩; exact ⟨h1, h2, fun a c' e e' => e' ▸ h3 a e⟩

/-! ### membership -/

theorem memL_nil' (x y : Int) : MemL [] x y ↔ False := by simp [MemL]
theorem memL_cons' (b : Box) (l : List Box) (x y : Int) :
    MemL (b :: l) x y ↔ b.Mem x y ∨ MemL l x y := by simp [MemL]
theorem memL_append' (l1 l2 : List Box) (x y : Int) :
    MemL (l1 ++ l2) x y ↔ MemL l1 x y ∨ MemL l2 x y := by
  simp [MemL, or_and_right, exists_or]

theorem memL_of_allY {y1 y2 : Int} {l : List Box} (h : AllY y1 y2 l) (x y : Int) :
    MemL l x y ↔ y1 ≤ y ∧ y < y2 ∧ InSpans l x := by
  induction l with
  | nil => simp [memL_nil', inSpans_nil']
  | cons a t ih =>
    have ⟨⟨e1, e2⟩, ht⟩ := allY_cons.1 h
    rw [memL_cons', ih ht, inSpans_cons', Box.Mem, e1, e2]
    constructor
    · rintro (⟨h1, h2, h3, h4⟩ | ⟨h1, h2, h3⟩)
      · exact ⟨h3, h4, Or.inl ⟨h1, h2⟩⟩
      · exact ⟨h1, h2, Or.inr h3⟩
    · rintro ⟨h1, h2, (⟨h3, h4⟩ | h3)⟩
      · exact Or.inl ⟨h3, h4, h1, h2⟩
      · exact Or.inr ⟨h1, h2, h3⟩

theorem IsBand'.allY {b : Band'} (h : IsBand' b) : AllY b.1 b.2.1 b.2.2 := h.2.2.1

theorem memL_flat_cons {b : Band'} (hb : IsBand' b) (bs : List Band') (x y : Int) :
    MemL (flat' (b :: bs)) x y ↔ (b.1 ≤ y ∧ y < b.2.1 ∧ InSpans b.2.2 x) ∨ MemL (flat' bs) x y := by
  rw [flat_cons', memL_append', memL_of_allY hb.allY]

/-- all bands of a `BandsOK` list start at or below the first band's top -/
theorem bandsOK_y1_le {b : Band'} {bs : List Band'} (h : BandsOK (b :: bs)) :
    ∀ c ∈ bs, b.2.1 ≤ c.1 := by
  induction bs generalizing b with
  | nil => intro c hc; cases hc
  | cons d t ih =>
    have ⟨h1, h2, h3⟩ := (bandsOK_cons' _ _).1 h
    have hadj := h2 d rfl
    intro c hc
    rcases List.mem_cons.1 hc with rfl | hc
    · exact hadj.1
    · have := ih h3 c hc
      have hd := ((bandsOK_cons' _ _).1 h3).1.2.1
      have := hadj.1
      omega

theorem bandsOK_isBand {bs : List Band'} (h : BandsOK bs) : ∀ c ∈ bs, IsBand' c := by
  induction bs with
  | nil => intro c hc; cases hc
  | cons d t ih =>
    have ⟨h1, h2, h3⟩ := (bandsOK_cons' _ _).1 h
    intro c hc
    rcases List.mem_cons.1 hc with rfl | hc
    · exact h1
    · exact ih h3 c hc

theorem memL_flat' {bs : List Band'} (h : BandsOK bs) (x y : Int) :
    MemL (flat' bs) x y ↔ ∃ c ∈ bs, c.1 ≤ y ∧ y < c.2.1 ∧ InSpans c.2.2 x := by
  induction bs with
  | nil => simp [flat_nil', memL_nil']
  | cons d t ih =>
    have ⟨h1, h2, h3⟩ := (bandsOK_cons' _ _).1 h
    rw [memL_flat_cons h1, ih h3]
    simp

/-- points of the later bands lie below the first band -/
theorem memL_flat_tail_ge {b : Band'} {bs : List Band'} (h : BandsOK (b :: bs)) {x y : Int}
    (hm : MemL (flat' bs) x y) : b.2.1 ≤ y := by
  have ⟨h1, h2, h3⟩ := (bandsOK_cons' _ _).1 h
  obtain ⟨c, hc, h4, _⟩ := (memL_flat' h3 x y).1 hm
  have := bandsOK_y1_le h c hc
  omega

/-- all bands end at or above the last band's bottom -/
theorem bandsOK_snoc_y2_le {bs : List Band'} {c : Band'} (h : BandsOK (bs ++ [c])) :
    ∀ d ∈ bs, d.2.1 ≤ c.1 := by
  induction bs with
  | nil => intro d hd; cases hd
  | cons e t ih =>
    intro d hd
    rw [List.cons_append] at h
    rcases List.mem_cons.1 hd with rfl | hd
    · exact bandsOK_y1_le h c (by simp)
    · exact ih ((bandsOK_cons' _ _).1 h).2.2 d hd

end Pixman.Region

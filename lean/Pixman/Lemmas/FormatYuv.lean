import Pixman.Lemmas.FormatWide
/-! YUV sources and other formats without A/R/G/B bit counts (C10): the float widening is the 8-bit widening of the
a8r8g8b8 value; the YUV conversion is opaque; scanline = map of the pixel reader. -/
namespace Pixman.Lemmas.FormatWide
open Pixman.Model.Format Pixman.Lemmas.FormatCodec Pixman.Lemmas.FormatMem

/-! ## formats without A/R/G/B bit counts (YUV, indexed): the float widening is the 8-bit widening of the a8r8g8b8 value -/

open Pixman.Spec.Format in
/-- one channel of `pixman_expand_to_float` for an 8-bit field = `unorm_to_float` of that byte -/
theorem chan8 (v S : Nat) : ((((v >>> S) &&& ((1 <<< 8) - 1) : Nat)) : Rat) * multiplier 8 = unormToFloat (field v S 8) 8 := by
  unfold unormToFloat multiplier field
  have hu : (v >>> S) &&& (2 ^ 8 - 1) < 65536 := by
    rw [Nat.and_two_pow_sub_one_eq_mod]
    exact Nat.lt_of_lt_of_le (Nat.mod_lt _ (by decide)) (by decide)
  have e : ((v >>> S) &&& (2 ^ 8 - 1)) % 65536 &&& ((1 <<< 8) - 1) = (v >>> S) &&& ((1 <<< 8) - 1) := by
    rw [Nat.mod_eq_of_lt hu, Nat.one_shiftLeft, Nat.and_assoc, Nat.and_self]
  have c1 : ((1 : Nat) : Rat) = 1 := by decide +kernel
  simp only []
  rw [e, if_neg (by decide), c1]

open Pixman.Spec.Format in
/-- `pixman_expand_to_float` with a format code whose `PIXMAN_FORMAT_VIS` is 0 treats the pixel as a8r8g8b8:
every channel is `unorm_to_float (byte, 8)` -/
theorem expand_novis (f v : Nat) (h : fmtVis f = 0) :
    expandToFloat f v = ⟨unormToFloat (field v 24 8) 8, unormToFloat (field v 16 8) 8, unormToFloat (field v 8 8) 8,
      unormToFloat (field v 0 8) 8⟩ := by
  have hA : fmtA A8R8G8B8 = 8 := by decide
  have hR : fmtR A8R8G8B8 = 8 := by decide
  have hG : fmtG A8R8G8B8 = 8 := by decide
  have hB : fmtB A8R8G8B8 = 8 := by decide
  unfold expandToFloat
  simp only [h, if_true, hA, hR, hG, hB]
  have hm : ((1 <<< 8) - 1 : Nat) ≠ 0 := by decide
  rw [if_pos hm]
  rw [show (32 - 8 : Nat) = 24 from rfl, show (24 - 8 : Nat) = 16 from rfl, show (16 - 8 : Nat) = 8 from rfl,
    show (8 - 8 : Nat) = 0 from rfl, chan8, chan8, chan8, chan8]

open Pixman.Spec.Format in
/-- contracting that float pixel gives the a8r8g8b8 value back -/
theorem contract_expand_novis (f v : Nat) (h : fmtVis f = 0) (hv : v < 2 ^ 32) : contractFromFloat (expandToFloat f v) = v := by
  rw [expand_novis f v h]
  unfold contractFromFloat
  simp only []
  rw [rt8 _ (field_lt v 24 8), rt8 _ (field_lt v 16 8), rt8 _ (field_lt v 8 8), rt8 _ (field_lt v 0 8), Nat.shiftLeft_zero]
  rw [pack8 _ _ _ _ (field_lt v 16 8) (field_lt v 8 8) (field_lt v 0 8)]
  simp only [field_eq_mod, Nat.shiftRight_eq_div_pow, Nat.reducePow, Nat.pow_zero, Nat.div_one] at hv ⊢
  omega

/-- the YUV conversion always yields an opaque pixel inside 32 bits -/
theorem yuvToArgb_opaque (y u v : Int) : yuvToArgb y u v / 2 ^ 24 = 255 := by
  unfold yuvToArgb
  simp only []
  generalize (0x012b27 * y + 0x019a2e * v : Int) = r
  generalize (0x012b27 * y - 0x00d0f2 * v - 0x00647e * u : Int) = g
  generalize (0x012b27 * y + 0x0206a2 * u : Int) = b
  have hr : (if r ≥ 0 then (if r < 0x1000000 then r.toNat &&& 0xff0000 else 0xff0000) else 0 : Nat) ≤ 0xff0000 := by
    split
    · split
      · exact Nat.and_le_right
      · exact Nat.le_refl _
    · exact Nat.zero_le _
  have hg : (if g ≥ 0 then (if g < 0x1000000 then (g.toNat >>> 8) &&& 0x00ff00 else 0x00ff00) else 0 : Nat) ≤ 0x00ff00 := by
    split
    · split
      · exact Nat.and_le_right
      · exact Nat.le_refl _
    · exact Nat.zero_le _
  have hb : (if b ≥ 0 then (if b < 0x1000000 then (b.toNat >>> 16) &&& 0x0000ff else 0x0000ff) else 0 : Nat) ≤ 0x0000ff := by
    split
    · split
      · exact Nat.and_le_right
      · exact Nat.le_refl _
    · exact Nat.zero_le _
  generalize (if r ≥ 0 then (if r < 0x1000000 then r.toNat &&& 0xff0000 else 0xff0000) else 0 : Nat) = rr at hr
  generalize (if g ≥ 0 then (if g < 0x1000000 then (g.toNat >>> 8) &&& 0x00ff00 else 0x00ff00) else 0 : Nat) = gg at hg
  generalize (if b ≥ 0 then (if b < 0x1000000 then (b.toNat >>> 16) &&& 0x0000ff else 0x0000ff) else 0 : Nat) = bb at hb
  have hlt : rr ||| gg ||| bb < 2 ^ 24 := by
    apply Nat.or_lt_two_pow
    · apply Nat.or_lt_two_pow
      · exact Nat.lt_of_le_of_lt hr (by decide)
      · exact Nat.lt_of_le_of_lt hg (by decide)
    · exact Nat.lt_of_le_of_lt hb (by decide)
  have e : (0xff000000 : Nat) ||| rr ||| gg ||| bb = 2 ^ 24 * 255 + (rr ||| gg ||| bb) := by
    rw [Nat.or_assoc, Nat.or_assoc, ← Nat.or_assoc rr]
    exact (Nat.two_pow_add_eq_or_of_lt hlt 255).symm
  rw [e]
  simp only [Nat.reducePow] at hlt ⊢
  omega

theorem fetchScanlineYuy2Loop_eq_map (m : Mem) (bits x w : Nat) :
    fetchScanlineYuy2Loop m bits x w = (List.range w).map (fun i => fetchPixelYuy2 m bits (x + i)) := by
  induction w generalizing x with
  | zero => rfl
  | succ n ih =>
    simp only [fetchScanlineYuy2Loop, List.range_succ_eq_map, List.map_cons, List.map_map, Nat.add_zero, ih]
    refine congrArg _ ?_
    apply List.map_congr_left
    intro i _
    simp only [Function.comp, Nat.succ_eq_add_one]
    rw [show x + 1 + i = x + (i + 1) by omega]

theorem fetchScanlineYv12Loop_eq_map (m : Mem) (bits rowstride height line x w : Nat) :
    fetchScanlineYv12Loop m bits rowstride height line x w =
      (List.range w).map (fun i => fetchPixelYv12 m bits rowstride height (x + i) line) := by
  induction w generalizing x with
  | zero => rfl
  | succ n ih =>
    simp only [fetchScanlineYv12Loop, List.range_succ_eq_map, List.map_cons, List.map_map, Nat.add_zero, ih]
    refine congrArg _ ?_
    apply List.map_congr_left
    intro i _
    simp only [Function.comp, Nat.succ_eq_add_one]
    rw [show x + 1 + i = x + (i + 1) by omega]

end Pixman.Lemmas.FormatWide
